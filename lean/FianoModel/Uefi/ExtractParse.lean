/-
  Lemmas for property C07: what a successful `uefi.Parse` guarantees about the tree — by induction on
  the recursion budget of the (mutually recursive) parser model, for every input and every hooks
  (decompressed nested content included):

    `parse_pw_bios`   sibling keys are distinct at every level (sections get FileOrder 0, 1, 2, …;
                      volumes and paddings of a BIOS region sit at strictly increasing offsets);
    `parse_okTree`    the tree has what the round trip needs (16-byte GUIDs, a section with children is
                      rebuilt from them, a volume with files has `DataOffset ≤ len(buf) = Length`),
                      provided the hooks parse no NVAR store;
    `parse_topPol`    the process state knows no erase polarity, or every top-level volume has the
                      polarity it knows (and a flash image has a BIOS region);
    `parse_pw_flash`  as `parse_pw_bios` for a flash image, given that its regions are told apart by
                      name and base (`regionHead`);
    `parse_heads_nodup` they are: at most one BIOS and one ME region (table entries 0 and 1), raw and gap
                      regions at strictly increasing bases (valid 16-bit table entries end below 256 MiB,
                      so `uint16(offset/4096)` never wraps);
    `parse_pw`        both cases together.
-/
import FianoModel.Uefi.ExtractPaths
import FianoModel.Uefi.ExtractAsm
import FianoModel.Base.ArithTie

namespace Fiano.Uefi
open Fiano

/-! ## sibling keys -/

/-- what the parser guarantees about sibling keys, for one recursion budget -/
def PW (h : Hooks) (fuel : Nat) : Prop :=
  (∀ buf ord st s st', parseSection h fuel buf ord st = .ok (s, st') → pwSection s = true ∧ s.info.fileOrder = ord) ∧
  (∀ enc off idx st ns st', parseEncap h fuel enc off idx st = .ok (ns, st') →
      pwNodes ns = true ∧ nodeOffsets ns = [] ∧ ∀ o ∈ nodeOrders ns, idx ≤ o) ∧
  (∀ fbuf off ext idx st ss st', parseSections h fuel fbuf off ext idx st = .ok (ss, st') →
      pwSections ss = true ∧ ∀ o ∈ secOrders ss, idx ≤ o) ∧
  (∀ buf st f st', parseFile h fuel buf st = .ok (some f, st') → pwFile f = true) ∧
  (∀ data off lh len st fs free st', parseFiles h fuel data off lh len st = .ok (fs, free, st') → pwFiles fs = true) ∧
  (∀ data off rz st v st', parseFv h fuel data off rz st = .ok (v, st') → pwFv v = true ∧ v.info.fvOffset = off)

theorem pw_zero (h : Hooks) : PW h 0 := by
  refine ⟨?_, ?_, ?_, ?_, ?_, ?_⟩ <;> intros <;> simp_all [parseSection, parseEncap, parseSections, parseFile, parseFiles, parseFv]

theorem not_mem_of_lt {l : List Nat} {x : Nat} (h : ∀ o ∈ l, x + 1 ≤ o) : (!l.contains x) = true := by
  simp only [Bool.not_eq_true', List.contains_eq_mem, decide_eq_false_iff_not]
  intro hm
  have := h x hm
  omega

theorem pw_section_step (h : Hooks) (fuel : Nat) (ih : PW h fuel) :
    ∀ buf ord st s st', parseSection h (fuel + 1) buf ord st = .ok (s, st') → pwSection s = true ∧ s.info.fileOrder = ord := by
  intro buf ord st s st' hp
  simp only [parseSection] at hp
  repeat' split at hp
  all_goals first
    | (simp at hp; done)
    | skip
  all_goals (simp only [Except.ok.injEq, Prod.mk.injEq] at hp)
  all_goals (obtain ⟨rfl, rfl⟩ := hp)
  all_goals first
    | (simp [mkSection, pwSection, pwNodes, Section.info]; done)
    | (have hx := ih.2.1 _ _ _ _ _ _ (by assumption)
       simp [mkSection, pwSection, hx.1, Section.info]; done)
    | (have hx := ih.2.2.2.2.2 _ _ _ _ _ _ (by assumption)
       simp [mkSection, pwSection, pwNodes, hx.1, Section.info, nodeOffsets]; done)

theorem pw_encap_step (h : Hooks) (fuel : Nat) (ih : PW h fuel) :
    ∀ enc off idx st ns st', parseEncap h (fuel + 1) enc off idx st = .ok (ns, st') →
      pwNodes ns = true ∧ nodeOffsets ns = [] ∧ ∀ o ∈ nodeOrders ns, idx ≤ o := by
  intro enc off idx st ns st' hp
  simp only [parseEncap] at hp
  repeat' split at hp
  all_goals first
    | (simp at hp; done)
    | skip
  all_goals (simp only [Except.ok.injEq, Prod.mk.injEq] at hp)
  all_goals (obtain ⟨rfl, rfl⟩ := hp)
  · have h1 := ih.1 _ _ _ _ _ (by assumption)
    have h2 := ih.2.1 _ _ _ _ _ _ (by assumption)
    refine ⟨?_, ?_, ?_⟩
    · simp only [pwNodes, h1.1, h2.1, Bool.true_and, h1.2]
      exact not_mem_of_lt h2.2.2
    · simpa [nodeOffsets] using h2.2.1
    · intro o ho
      simp only [nodeOrders, List.mem_cons] at ho
      rcases ho with rfl | ho
      · omega
      · have := h2.2.2 o ho; omega
  · simp [pwNodes, nodeOffsets, nodeOrders]

theorem pw_sections_step (h : Hooks) (fuel : Nat) (ih : PW h fuel) :
    ∀ fbuf off ext idx st ss st', parseSections h (fuel + 1) fbuf off ext idx st = .ok (ss, st') →
      pwSections ss = true ∧ ∀ o ∈ secOrders ss, idx ≤ o := by
  intro fbuf off ext idx st ss st' hp
  simp only [parseSections] at hp
  repeat' split at hp
  all_goals first
    | (simp at hp; done)
    | skip
  all_goals (simp only [Except.ok.injEq, Prod.mk.injEq] at hp)
  all_goals (obtain ⟨rfl, rfl⟩ := hp)
  · have h1 := ih.1 _ _ _ _ _ (by assumption)
    have h2 := ih.2.2.1 _ _ _ _ _ _ _ (by assumption)
    refine ⟨?_, ?_⟩
    · simp only [pwSections, h1.1, h2.1, Bool.true_and, h1.2]
      exact not_mem_of_lt h2.2
    · intro o ho
      simp only [secOrders, List.map_cons, List.mem_cons] at ho
      rcases ho with rfl | ho
      · omega
      · have := h2.2 o ho; omega
  · simp [pwSections, secOrders]

theorem pw_file_step (h : Hooks) (fuel : Nat) (ih : PW h fuel) :
    ∀ buf st f st', parseFile h (fuel + 1) buf st = .ok (some f, st') → pwFile f = true := by
  intro buf st f st' hp
  simp only [parseFile] at hp
  repeat' split at hp
  all_goals first
    | (simp at hp; done)
    | skip
  all_goals (simp only [Except.ok.injEq, Prod.mk.injEq, Option.some.injEq] at hp)
  all_goals (obtain ⟨rfl, rfl⟩ := hp)
  all_goals first
    | (simp [pwFile, pwSections]; done)
    | (have hx := ih.2.2.1 _ _ _ _ _ _ _ (by assumption)
       simp [pwFile, hx.1]; done)

theorem pw_files_step (h : Hooks) (fuel : Nat) (ih : PW h fuel) :
    ∀ data off lh len st fs free st', parseFiles h (fuel + 1) data off lh len st = .ok (fs, free, st') → pwFiles fs = true := by
  intro data off lh len st fs free st' hp
  simp only [parseFiles] at hp
  repeat' split at hp
  all_goals first
    | (simp at hp; done)
    | skip
  all_goals (simp only [Except.ok.injEq, Prod.mk.injEq] at hp)
  all_goals (obtain ⟨rfl, rfl, rfl⟩ := hp)
  all_goals first
    | (simp [pwFiles]; done)
    | (have h1 := ih.2.2.2.1 _ _ _ _ (by assumption)
       have h2 := ih.2.2.2.2.1 _ _ _ _ _ _ _ _ (by assumption)
       simp [pwFiles, h1, h2]; done)

theorem pw_fv_step (h : Hooks) (fuel : Nat) (ih : PW h fuel) :
    ∀ data off rz st v st', parseFv h (fuel + 1) data off rz st = .ok (v, st') → pwFv v = true ∧ v.info.fvOffset = off := by
  intro data off rz st v st' hp
  simp only [parseFv] at hp
  repeat' split at hp
  all_goals first
    | (simp at hp; done)
    | skip
  all_goals (simp only [Except.ok.injEq, Prod.mk.injEq] at hp)
  all_goals (obtain ⟨rfl, rfl⟩ := hp)
  all_goals first
    | (simp [pwFv, pwFiles, Fv.info, fvInfoOf]; done)
    | (have hx := ih.2.2.2.2.1 _ _ _ _ _ _ _ _ (by assumption)
       simp [pwFv, hx, Fv.info, fvInfoOf]; done)

theorem pw_all (h : Hooks) : ∀ fuel, PW h fuel
  | 0 => pw_zero h
  | fuel + 1 =>
    have ih := pw_all h fuel
    ⟨pw_section_step h fuel ih, pw_encap_step h fuel ih, pw_sections_step h fuel ih, pw_file_step h fuel ih,
      pw_files_step h fuel ih, pw_fv_step h fuel ih⟩

/-! ### the BIOS region -/

theorem pw_bioselems (h : Hooks) : ∀ (fuel : Nat) (buf : Bytes) (abs : Nat) (st : St) (es : List BiosElem) (st' : St),
    parseBiosElems h fuel buf abs st = .ok (es, st') →
      pwBiosElems es = true ∧ (∀ o ∈ padOffsets es, abs ≤ o) ∧ (∀ o ∈ elemFvOffsets es, abs ≤ o)
  | 0, _, _, _, _, _, hp => by simp [parseBiosElems] at hp
  | fuel + 1, buf, abs, st, es, st', hp => by
    simp only [parseBiosElems] at hp
    split at hp
    · -- no further volume
      simp only [Except.ok.injEq, Prod.mk.injEq] at hp
      obtain ⟨rfl, rfl⟩ := hp
      split <;> simp [pwBiosElems, padOffsets, elemFvOffsets]
    · rename_i off hoff
      split at hp
      · simp at hp
      · rename_i fv st1 hfv
        split at hp
        · simp at hp
        · rename_i hlen
          split at hp
          · simp at hp
          · rename_i rest st2 hrest
            simp only [Except.ok.injEq, Prod.mk.injEq] at hp
            obtain ⟨rfl, rfl⟩ := hp
            have hv := (pw_all h fuel).2.2.2.2.2 _ _ _ _ _ _ hfv
            have ih := pw_bioselems h fuel _ _ _ _ _ hrest
            have hl : 1 ≤ fv.info.length := by omega
            have hfvo : fv.info.fvOffset = abs + off := hv.2
            have hcore : pwBiosElems (.fv fv :: rest) = true ∧ (∀ o ∈ padOffsets (.fv fv :: rest), abs + off + 1 ≤ o) ∧
                (∀ o ∈ elemFvOffsets (.fv fv :: rest), abs + off ≤ o) := by
              refine ⟨?_, ?_, ?_⟩
              · simp only [pwBiosElems, hv.1, ih.1, Bool.true_and]
                rw [hfvo]
                exact not_mem_of_lt (fun o ho => by have := ih.2.2 o ho; omega)
              · intro o ho
                simp only [padOffsets] at ho
                have := ih.2.1 o ho; omega
              · intro o ho
                simp only [elemFvOffsets, List.mem_cons] at ho
                rcases ho with rfl | ho
                · omega
                · have := ih.2.2 o ho; omega
            split
            · -- a padding before the volume
              simp only [List.singleton_append]
              refine ⟨?_, ?_, ?_⟩
              · have hu : pwBiosElems (.pad (List.take off buf) abs :: .fv fv :: rest) =
                    (pwBiosElems (.fv fv :: rest) && !(padOffsets (.fv fv :: rest)).contains abs) := rfl
                rw [hu, hcore.1, Bool.true_and]
                exact not_mem_of_lt (fun o ho => by have := hcore.2.1 o ho; omega)
              · intro o ho
                simp only [padOffsets, List.mem_cons] at ho
                rcases ho with rfl | ho
                · omega
                · have := hcore.2.1 o ho; omega
              · intro o ho
                simp only [elemFvOffsets] at ho
                have := hcore.2.2 o ho; omega
            · simp only [List.nil_append]
              exact ⟨hcore.1, fun o ho => by have := hcore.2.1 o ho; omega, fun o ho => by have := hcore.2.2 o ho; omega⟩

/-- a parsed bare BIOS region has distinct sibling keys at every level -/
theorem parse_pw_bios (h : Hooks) (bs : Bytes) (b : BiosRegion) (hp : parse h bs = .ok (.bios b)) :
    pwTree (.bios b) = true := by
  unfold parse parseWith at hp
  split at hp
  · simp at hp
  · rename_i t st hpw
    simp only [Except.ok.injEq] at hp
    subst hp
    split at hpw
    · split at hpw <;> simp at hpw
    · unfold parseBios at hpw
      split at hpw
      · simp at hpw
      · rename_i b' st' hb
        split at hb
        · simp at hb
        · rename_i es st'' hes
          simp only [Except.ok.injEq, Prod.mk.injEq] at hb hpw
          obtain ⟨rfl, rfl⟩ := hb
          obtain ⟨hb2, rfl⟩ := hpw
          simp only [Tree.bios.injEq] at hb2
          subst hb2
          exact (pw_bioselems h _ _ _ _ _ _ hes).1

/-! ## what the round trip needs -/

theorem ex_align8_eq (v : Nat) :
    align8 v = (v + 8 + 18446744073709551615) % 18446744073709551616 / 8 * 8 := by
  unfold align8 alignGo
  have := ArithTie.and_high_mask ((v + 8 + 18446744073709551615) % 18446744073709551616) 3 (by omega)
    (by have : (2:Nat)^64 = 18446744073709551616 := by decide
        omega)
  have e : (18446744073709551616 - 8) % 18446744073709551616 = 2 ^ 64 - 2 ^ 3 := by decide
  rw [e, this]

theorem align8_le (v : Nat) : align8 v ≤ 18446744073709551608 := by
  rw [ex_align8_eq]; omega

theorem ex_align8_ge (v : Nat) (h : v ≤ 18446744073709551608) : v ≤ align8 v := by
  rw [ex_align8_eq]; omega

theorem slice_len16 (buf : Bytes) (h : ¬ buf.length < 24) : (slice buf 0 16).length = 16 :=
  slice_length buf 0 16 (by omega)

/-- a volume's file walk returns a file only when its (aligned) start lies inside the data -/
theorem parseFiles_nonempty (h : Hooks) (fuel : Nat) (data : Bytes) (off lh len : Nat) (st : St) (f : File) (fs : List File)
    (free : Nat) (st' : St) (hp : parseFiles h fuel data off lh len st = .ok (f :: fs, free, st')) :
    align8 off < data.length := by
  cases fuel with
  | zero => simp [parseFiles] at hp
  | succ fuel =>
    simp only [parseFiles] at hp
    repeat' split at hp
    all_goals first
      | (simp at hp; done)
      | omega

/-- what the round trip needs, for one recursion budget -/
def OKP (h : Hooks) (fuel : Nat) : Prop :=
  (∀ buf ord st s st', parseSection h fuel buf ord st = .ok (s, st') → okSection s = true) ∧
  (∀ enc off idx st ns st', parseEncap h fuel enc off idx st = .ok (ns, st') → okNodes ns = true) ∧
  (∀ fbuf off ext idx st ss st', parseSections h fuel fbuf off ext idx st = .ok (ss, st') → okSections ss = true) ∧
  (∀ buf st f st', parseFile h fuel buf st = .ok (some f, st') → okFile f = true) ∧
  (∀ data off lh len st fs free st', parseFiles h fuel data off lh len st = .ok (fs, free, st') → okFiles fs = true) ∧
  (∀ data off rz st v st', parseFv h fuel data off rz st = .ok (v, st') → okFv v = true)

theorem okp_zero (h : Hooks) : OKP h 0 := by
  refine ⟨?_, ?_, ?_, ?_, ?_, ?_⟩ <;> intros <;> simp_all [parseSection, parseEncap, parseSections, parseFile, parseFiles, parseFv]

theorem okp_section_step (h : Hooks) (fuel : Nat) (ih : OKP h fuel) :
    ∀ buf ord st s st', parseSection h (fuel + 1) buf ord st = .ok (s, st') → okSection s = true := by
  intro buf ord st s st' hp
  simp only [parseSection] at hp
  repeat' split at hp
  all_goals first
    | (simp at hp; done)
    | skip
  all_goals (simp only [Except.ok.injEq, Prod.mk.injEq] at hp)
  all_goals (obtain ⟨rfl, rfl⟩ := hp)
  all_goals first
    | (simp [mkSection, okSection, okNodes]; done)
    | (have hx := ih.2.1 _ _ _ _ _ _ (by assumption)
       simp_all [mkSection, okSection, keepsBuf]; done)
    | (have hx := ih.2.2.2.2.2 _ _ _ _ _ _ (by assumption)
       simp_all [mkSection, okSection, okNodes, keepsBuf]; done)

theorem okp_encap_step (h : Hooks) (fuel : Nat) (ih : OKP h fuel) :
    ∀ enc off idx st ns st', parseEncap h (fuel + 1) enc off idx st = .ok (ns, st') → okNodes ns = true := by
  intro enc off idx st ns st' hp
  simp only [parseEncap] at hp
  repeat' split at hp
  all_goals first
    | (simp at hp; done)
    | skip
  all_goals (simp only [Except.ok.injEq, Prod.mk.injEq] at hp)
  all_goals (obtain ⟨rfl, rfl⟩ := hp)
  · have h1 := ih.1 _ _ _ _ _ (by assumption)
    have h2 := ih.2.1 _ _ _ _ _ _ (by assumption)
    simp [okNodes, h1, h2]
  · simp [okNodes]

theorem okp_sections_step (h : Hooks) (fuel : Nat) (ih : OKP h fuel) :
    ∀ fbuf off ext idx st ss st', parseSections h (fuel + 1) fbuf off ext idx st = .ok (ss, st') → okSections ss = true := by
  intro fbuf off ext idx st ss st' hp
  simp only [parseSections] at hp
  repeat' split at hp
  all_goals first
    | (simp at hp; done)
    | skip
  all_goals (simp only [Except.ok.injEq, Prod.mk.injEq] at hp)
  all_goals (obtain ⟨rfl, rfl⟩ := hp)
  · have h1 := ih.1 _ _ _ _ _ (by assumption)
    have h2 := ih.2.2.1 _ _ _ _ _ _ _ (by assumption)
    simp [okSections, h1, h2]
  · simp [okSections]

theorem nvar_none (h : Hooks) (hnv : ∀ b, h.nvarParse b = none) (c d : Prop) [Decidable c] [Decidable d] (x : Bytes)
    (nvs : Option NvStore)
    (he : (if c then (if d then (Except.error Err.err : Except Err (Option NvStore)) else Except.ok (h.nvarParse x))
            else Except.ok none) = Except.ok nvs) : nvs = none := by
  split at he
  · split at he
    · simp at he
    · simp only [Except.ok.injEq] at he
      rw [← he, hnv]
  · simp only [Except.ok.injEq] at he
    exact he.symm

/-- what `NewFile` reads of a header: a 16-byte GUID, no NVAR store yet -/
theorem ex_fileHeader_some (buf : Bytes) (i : FileInfo) (he : fileHeader buf = .ok (some i)) :
    i.guid.length = 16 ∧ i.nvar = none := by
  simp only [fileHeader] at he
  repeat' split at he
  all_goals first
    | (simp at he; done)
    | skip
  all_goals (simp only [Except.ok.injEq, Option.some.injEq] at he)
  all_goals (subst he)
  all_goals (rename_i hh _ ; repeat' split at hh)
  all_goals first
    | (simp at hh; done)
    | skip
  all_goals (simp only [Except.ok.injEq, Option.some.injEq] at hh)
  all_goals (subst hh)
  all_goals (exact ⟨slice_len16 buf (by assumption), rfl⟩)

theorem okp_file_step (h : Hooks) (hnv : ∀ b, h.nvarParse b = none) (fuel : Nat) (ih : OKP h fuel) :
    ∀ buf st f st', parseFile h (fuel + 1) buf st = .ok (some f, st') → okFile f = true := by
  intro buf st f st' hp
  simp only [parseFile] at hp
  repeat' split at hp
  all_goals first
    | (simp at hp; done)
    | skip
  all_goals (simp only [Except.ok.injEq, Prod.mk.injEq, Option.some.injEq] at hp)
  all_goals (obtain ⟨rfl, rfl⟩ := hp)
  all_goals (have hn := nvar_none h hnv _ _ _ _ (by assumption))
  all_goals (have hi := ex_fileHeader_some _ _ (by assumption))
  all_goals (subst hn)
  all_goals first
    | (simp [okFile, okSections, hi.1]; done)
    | (have hx := ih.2.2.1 _ _ _ _ _ _ _ (by assumption)
       simp [okFile, hi.1, hx]; done)

theorem okp_files_step (h : Hooks) (fuel : Nat) (ih : OKP h fuel) :
    ∀ data off lh len st fs free st', parseFiles h (fuel + 1) data off lh len st = .ok (fs, free, st') → okFiles fs = true := by
  intro data off lh len st fs free st' hp
  simp only [parseFiles] at hp
  repeat' split at hp
  all_goals first
    | (simp at hp; done)
    | skip
  all_goals (simp only [Except.ok.injEq, Prod.mk.injEq] at hp)
  all_goals (obtain ⟨rfl, rfl, rfl⟩ := hp)
  all_goals first
    | (simp [okFiles]; done)
    | (have h1 := ih.2.2.2.1 _ _ _ _ (by assumption)
       have h2 := ih.2.2.2.2.1 _ _ _ _ _ _ _ _ (by assumption)
       simp [okFiles, h1, h2]; done)

theorem okFv_of_files (h : Hooks) (fuel : Nat) (data : Bytes) (off lh len : Nat) (st : St) (fs : List File) (free : Nat)
    (st' : St) (hfiles : parseFiles h fuel data off lh len st = .ok (fs, free, st')) (hok : okFiles fs = true)
    (i : FvInfo) (hlen : data.length ≤ i.length) (hd : i.dataOffset = off) (hoff : off ≤ 18446744073709551608) :
    okFv (.mk i data fs) = true := by
  simp only [okFv, hok, Bool.true_and, Bool.or_eq_true, List.isEmpty_iff, Bool.and_eq_true, decide_eq_true_eq]
  cases fs with
  | nil => left; rfl
  | cons f rest =>
    right
    have hlt := parseFiles_nonempty h fuel _ _ _ _ _ _ _ _ _ hfiles
    have hge := ex_align8_ge off hoff
    refine ⟨hlen, ?_⟩
    omega

theorem okp_fv_step (h : Hooks) (fuel : Nat) (ih : OKP h fuel) :
    ∀ data off rz st v st', parseFv h (fuel + 1) data off rz st = .ok (v, st') → okFv v = true := by
  intro data off rz st v st' hp
  simp only [parseFv] at hp
  repeat' split at hp
  all_goals first
    | (simp at hp; done)
    | skip
  all_goals (simp only [Except.ok.injEq, Prod.mk.injEq] at hp)
  all_goals (obtain ⟨rfl, rfl⟩ := hp)
  all_goals first
    | (simp [okFv, okFiles]; done)
    | skip
  all_goals
    (have hfiles := (by assumption : parseFiles h fuel _ _ _ _ _ = Except.ok (_, _, _))
     have hx := ih.2.2.2.2.1 _ _ _ _ _ _ _ _ hfiles
     refine okFv_of_files h fuel _ _ _ _ _ _ _ _ hfiles hx _ (by rw [List.length_take]; exact Nat.min_le_left _ _) ?_
       (align8_le _)
     first
       | (simp_all; done)
       | (simp_all
          split
          · exfalso; omega
          · rfl)
       | (simp_all
          split
          · rfl
          · exfalso; omega))

theorem okp_all (h : Hooks) (hnv : ∀ b, h.nvarParse b = none) : ∀ fuel, OKP h fuel
  | 0 => okp_zero h
  | fuel + 1 =>
    have ih := okp_all h hnv fuel
    ⟨okp_section_step h fuel ih, okp_encap_step h fuel ih, okp_sections_step h fuel ih, okp_file_step h hnv fuel ih,
      okp_files_step h fuel ih, okp_fv_step h fuel ih⟩

theorem okBiosElems_append (a b : List BiosElem) : okBiosElems (a ++ b) = (okBiosElems a && okBiosElems b) := by
  induction a with
  | nil => simp [okBiosElems]
  | cons x t ih => cases x <;> simp [okBiosElems, ih, Bool.and_assoc]

theorem ok_bioselems (h : Hooks) (hnv : ∀ b, h.nvarParse b = none) : ∀ (fuel : Nat) (buf : Bytes) (abs : Nat) (st : St)
    (es : List BiosElem) (st' : St), parseBiosElems h fuel buf abs st = .ok (es, st') → okBiosElems es = true
  | 0, _, _, _, _, _, hp => by simp [parseBiosElems] at hp
  | fuel + 1, buf, abs, st, es, st', hp => by
    simp only [parseBiosElems] at hp
    repeat' split at hp
    all_goals first
      | (simp at hp; done)
      | skip
    all_goals (simp only [Except.ok.injEq, Prod.mk.injEq] at hp)
    all_goals (obtain ⟨rfl, rfl⟩ := hp)
    all_goals first
      | (simp [okBiosElems]; done)
      | (have h1 := (okp_all h hnv fuel).2.2.2.2.2 _ _ _ _ _ _ (by assumption)
         have h2 := ok_bioselems h hnv fuel _ _ _ _ _ (by assumption)
         simp [okBiosElems, okBiosElems_append, h1, h2]; done)

theorem ok_bios (h : Hooks) (hnv : ∀ b, h.nvarParse b = none) (fuel : Nat) (buf : Bytes) (fr : Option FlashRegion) (st : St)
    (b : BiosRegion) (st' : St) (hp : parseBios h fuel buf fr st = .ok (b, st')) : okBiosElems b.elems = true := by
  unfold parseBios at hp
  split at hp
  · simp at hp
  · rename_i es st'' hes
    simp only [Except.ok.injEq, Prod.mk.injEq] at hp
    obtain ⟨rfl, rfl⟩ := hp
    exact ok_bioselems h hnv _ _ _ _ _ _ hes

/-! ### regions -/

def okRegion : Region → Bool
  | .bios b => okBiosElems b.elems
  | _ => true

theorem okRegions_cons (r : Region) (rs : List Region) : okRegions (r :: rs) = (okRegion r && okRegions rs) := by
  cases r <;> simp [okRegions, okRegion]

theorem okRegions_insert (r : Region) : ∀ l : List Region, okRegions (insertRegion r l) = (okRegion r && okRegions l)
  | [] => by simp [insertRegion, okRegions_cons, okRegions]
  | x :: xs => by
    simp only [insertRegion]
    split
    · simp [okRegions_cons]
    · simp only [okRegions_cons, okRegions_insert r xs]
      cases okRegion x <;> cases okRegion r <;> simp

theorem okRegions_sort : ∀ l : List Region, okRegions (sortRegions l) = okRegions l
  | [] => rfl
  | x :: xs => by
    simp only [sortRegions, List.foldr_cons] at *
    rw [okRegions_insert, okRegions_cons]
    have := okRegions_sort xs
    simp only [sortRegions] at this
    rw [this]

theorem okRegions_fillGaps (fbuf : Bytes) (size : Nat) : ∀ (l : List Region) (off : Nat) (out : List Region),
    fillGaps fbuf size l off = .ok out → okRegions l = true → okRegions out = true
  | [], off, out, hp, _ => by
    simp only [fillGaps] at hp
    split at hp <;> simp only [Except.ok.injEq] at hp <;> subst hp <;> simp [okRegions]
  | r :: rs, off, out, hp, hok => by
    rw [okRegions_cons] at hok
    simp only [Bool.and_eq_true] at hok
    simp only [fillGaps] at hp
    repeat' split at hp
    all_goals first
      | (simp at hp; done)
      | skip
    all_goals (simp only [Except.ok.injEq] at hp)
    all_goals (subst hp)
    all_goals (have ih := okRegions_fillGaps fbuf size rs _ _ (by assumption) hok.2)
    all_goals (simp only [okRegions_cons, ih, hok.1, Bool.and_self, Bool.and_true])
    all_goals (try rfl)

theorem ok_one (h : Hooks) (hnv : ∀ b, h.nvarParse b = none) (fuel : Nat) (rbuf : Bytes) (fr : FlashRegion) (i : Nat)
    (st : St) (r : Region) (st1 : St)
    (hone : (if i = 0 then
              (match parseBios h fuel rbuf (some fr) st with
                | .error e => (.error e : Except Err (Region × St))
                | .ok (b, st') => .ok (.bios b, st'))
            else if i = 1 then .ok (.me rbuf fr, st)
            else .ok (.raw rbuf fr i, st)) = .ok (r, st1)) : okRegion r = true := by
  repeat' split at hone
  all_goals first
    | (simp at hone; done)
    | skip
  all_goals (simp only [Except.ok.injEq, Prod.mk.injEq] at hone)
  all_goals (obtain ⟨rfl, rfl⟩ := hone)
  all_goals first
    | rfl
    | exact ok_bios h hnv _ _ _ _ _ _ (by assumption)

theorem ok_parseRegions (h : Hooks) (hnv : ∀ b, h.nvarParse b = none) (fuel : Nat) (buf : Bytes) (nr : Nat) :
    ∀ (frs : List FlashRegion) (i : Nat) (st : St) (rs : List Region) (st' : St),
      parseRegions h fuel buf nr frs i st = .ok (rs, st') → okRegions rs = true
  | [], _, _, _, _, hp => by
    simp only [parseRegions, Except.ok.injEq, Prod.mk.injEq] at hp
    rw [← hp.1]; rfl
  | fr :: frs, i, st, rs, st', hp => by
    simp only [parseRegions] at hp
    split at hp
    · simp only [Except.ok.injEq, Prod.mk.injEq] at hp
      rw [← hp.1]; rfl
    · split at hp
      · exact ok_parseRegions h hnv fuel buf nr frs _ _ _ _ hp
      · split at hp
        · simp at hp
        · rename_i r st1 hone
          split at hp
          · simp at hp
          · rename_i rs' st2 hrest
            simp only [Except.ok.injEq, Prod.mk.injEq] at hp
            obtain ⟨rfl, rfl⟩ := hp
            rw [okRegions_cons, ok_parseRegions h hnv fuel buf nr frs _ _ _ _ hrest, Bool.and_true]
            exact ok_one h hnv fuel _ fr i st r st1 hone

/-- a parsed tree (no NVAR store parsed) has what the round trip needs -/
theorem parse_okTree (h : Hooks) (hnv : ∀ b, h.nvarParse b = none) (bs : Bytes) (t : Tree) (hp : parse h bs = .ok t) :
    okTree t = true := by
  unfold parse parseWith at hp
  split at hp
  · simp at hp
  · rename_i t' st hpw
    simp only [Except.ok.injEq] at hp
    subst hp
    split at hpw
    · -- flash image
      split at hpw
      · simp at hpw
      · rename_i f st' hf
        simp only [Except.ok.injEq, Prod.mk.injEq] at hpw
        obtain ⟨rfl, rfl⟩ := hpw
        unfold parseFlash at hf
        repeat' split at hf
        all_goals first
          | (simp at hf; done)
          | skip
        all_goals (simp only [Except.ok.injEq, Prod.mk.injEq] at hf)
        all_goals (obtain ⟨rfl, rfl⟩ := hf)
        all_goals
          (simp only [okTree]
           apply okRegions_fillGaps _ _ _ _ _ (by assumption)
           rw [okRegions_sort]
           exact ok_parseRegions h hnv _ _ _ _ _ _ _ _ (by assumption))
    · split at hpw
      · simp at hpw
      · rename_i b st' hb
        simp only [Except.ok.injEq, Prod.mk.injEq] at hpw
        obtain ⟨rfl, rfl⟩ := hpw
        exact ok_bios h hnv _ _ _ _ _ _ hb

/-! ## the erase polarity the parser leaves -/

/-- the parser never clears the erase polarity and never touches `useFFS3` -/
def Keep (st st' : St) : Prop := st'.ffs3 = st.ffs3 ∧ (st.pol ≠ 0xF0 → st'.pol = st.pol)

theorem Keep.refl (st : St) : Keep st st := ⟨rfl, fun _ => rfl⟩

theorem Keep.trans {a b c : St} (h1 : Keep a b) (h2 : Keep b c) : Keep a c := by
  refine ⟨h2.1.trans h1.1, fun ha => ?_⟩
  have hb := h1.2 ha
  rw [h2.2 (by rw [hb]; exact ha), hb]

theorem ex_setPolarity_keep (ep : UInt8) (st st1 : St) (h : setPolarity ep st = .ok st1) :
    Keep st st1 ∧ st1.pol = ep ∧ ep ≠ 0xF0 := by
  unfold setPolarity at h
  split at h
  · simp at h
  · rename_i hep
    have hne : ep ≠ 0xF0 := by
      intro hc
      subst hc
      exact hep (by decide)
    split at h
    · split at h
      · simp at h
      · rename_i hsame
        simp only [Except.ok.injEq] at h
        subst h
        exact ⟨Keep.refl _, by simpa using hsame, hne⟩
    · rename_i hunset
      simp only [Except.ok.injEq] at h
      subst h
      exact ⟨⟨rfl, fun hc => absurd (by simpa using hunset) hc⟩, rfl, hne⟩

def SP (h : Hooks) (fuel : Nat) : Prop :=
  (∀ buf ord st s st', parseSection h fuel buf ord st = .ok (s, st') → Keep st st') ∧
  (∀ enc off idx st ns st', parseEncap h fuel enc off idx st = .ok (ns, st') → Keep st st') ∧
  (∀ fbuf off ext idx st ss st', parseSections h fuel fbuf off ext idx st = .ok (ss, st') → Keep st st') ∧
  (∀ buf st o st', parseFile h fuel buf st = .ok (o, st') → Keep st st') ∧
  (∀ data off lh len st fs free st', parseFiles h fuel data off lh len st = .ok (fs, free, st') → Keep st st') ∧
  (∀ data off rz st v st', parseFv h fuel data off rz st = .ok (v, st') →
      Keep st st' ∧ st'.pol = polOfAttrs v.info.attrs ∧ st'.pol ≠ 0xF0)

theorem sp_zero (h : Hooks) : SP h 0 := by
  refine ⟨?_, ?_, ?_, ?_, ?_, ?_⟩ <;> intros <;> simp_all [parseSection, parseEncap, parseSections, parseFile, parseFiles, parseFv]

theorem sp_section_step (h : Hooks) (fuel : Nat) (ih : SP h fuel) :
    ∀ buf ord st s st', parseSection h (fuel + 1) buf ord st = .ok (s, st') → Keep st st' := by
  intro buf ord st s st' hp
  simp only [parseSection] at hp
  repeat' split at hp
  all_goals first
    | (simp at hp; done)
    | skip
  all_goals (simp only [Except.ok.injEq, Prod.mk.injEq] at hp)
  all_goals (obtain ⟨rfl, rfl⟩ := hp)
  all_goals first
    | exact Keep.refl _
    | exact ih.2.1 _ _ _ _ _ _ (by assumption)
    | exact (ih.2.2.2.2.2 _ _ _ _ _ _ (by assumption)).1

theorem sp_encap_step (h : Hooks) (fuel : Nat) (ih : SP h fuel) :
    ∀ enc off idx st ns st', parseEncap h (fuel + 1) enc off idx st = .ok (ns, st') → Keep st st' := by
  intro enc off idx st ns st' hp
  simp only [parseEncap] at hp
  repeat' split at hp
  all_goals first
    | (simp at hp; done)
    | skip
  all_goals (simp only [Except.ok.injEq, Prod.mk.injEq] at hp)
  all_goals (obtain ⟨rfl, rfl⟩ := hp)
  · exact (ih.1 _ _ _ _ _ (by assumption)).trans (ih.2.1 _ _ _ _ _ _ (by assumption))
  · exact Keep.refl _

theorem sp_sections_step (h : Hooks) (fuel : Nat) (ih : SP h fuel) :
    ∀ fbuf off ext idx st ss st', parseSections h (fuel + 1) fbuf off ext idx st = .ok (ss, st') → Keep st st' := by
  intro fbuf off ext idx st ss st' hp
  simp only [parseSections] at hp
  repeat' split at hp
  all_goals first
    | (simp at hp; done)
    | skip
  all_goals (simp only [Except.ok.injEq, Prod.mk.injEq] at hp)
  all_goals (obtain ⟨rfl, rfl⟩ := hp)
  · exact (ih.1 _ _ _ _ _ (by assumption)).trans (ih.2.2.1 _ _ _ _ _ _ _ (by assumption))
  · exact Keep.refl _

theorem sp_file_step (h : Hooks) (fuel : Nat) (ih : SP h fuel) :
    ∀ buf st o st', parseFile h (fuel + 1) buf st = .ok (o, st') → Keep st st' := by
  intro buf st o st' hp
  simp only [parseFile] at hp
  repeat' split at hp
  all_goals first
    | (simp at hp; done)
    | skip
  all_goals (simp only [Except.ok.injEq, Prod.mk.injEq] at hp)
  all_goals (obtain ⟨rfl, rfl⟩ := hp)
  all_goals first
    | exact Keep.refl _
    | exact ih.2.2.1 _ _ _ _ _ _ _ (by assumption)

theorem sp_files_step (h : Hooks) (fuel : Nat) (ih : SP h fuel) :
    ∀ data off lh len st fs free st', parseFiles h (fuel + 1) data off lh len st = .ok (fs, free, st') → Keep st st' := by
  intro data off lh len st fs free st' hp
  simp only [parseFiles] at hp
  repeat' split at hp
  all_goals first
    | (simp at hp; done)
    | skip
  all_goals (simp only [Except.ok.injEq, Prod.mk.injEq] at hp)
  all_goals (obtain ⟨rfl, rfl, rfl⟩ := hp)
  all_goals first
    | exact Keep.refl _
    | exact ih.2.2.2.1 _ _ _ _ (by assumption)
    | exact (ih.2.2.2.1 _ _ _ _ (by assumption)).trans (ih.2.2.2.2.1 _ _ _ _ _ _ _ _ (by assumption))

theorem sp_fv_step (h : Hooks) (fuel : Nat) (ih : SP h fuel) :
    ∀ data off rz st v st', parseFv h (fuel + 1) data off rz st = .ok (v, st') →
      Keep st st' ∧ st'.pol = polOfAttrs v.info.attrs ∧ st'.pol ≠ 0xF0 := by
  intro data off rz st v st' hp
  simp only [parseFv] at hp
  repeat' split at hp
  all_goals first
    | (simp at hp; done)
    | skip
  all_goals (simp only [Except.ok.injEq, Prod.mk.injEq] at hp)
  all_goals (obtain ⟨rfl, rfl⟩ := hp)
  all_goals (have hs := ex_setPolarity_keep _ _ _ (by assumption))
  all_goals first
    | (exact ⟨hs.1, by simpa [Fv.info] using hs.2.1, by rw [hs.2.1]; exact hs.2.2⟩)
    | (have hk := ih.2.2.2.2.1 _ _ _ _ _ _ _ _ (by assumption)
       have hpol := hk.2 (by rw [hs.2.1]; exact hs.2.2)
       exact ⟨hs.1.trans hk, by simpa [Fv.info, hpol] using hs.2.1, by rw [hpol, hs.2.1]; exact hs.2.2⟩)

theorem sp_all (h : Hooks) : ∀ fuel, SP h fuel
  | 0 => sp_zero h
  | fuel + 1 =>
    have ih := sp_all h fuel
    ⟨sp_section_step h fuel ih, sp_encap_step h fuel ih, sp_sections_step h fuel ih, sp_file_step h fuel ih,
      sp_files_step h fuel ih, sp_fv_step h fuel ih⟩

theorem topPolElems_append (p : UInt8) (a b : List BiosElem) :
    topPolElems p (a ++ b) = (topPolElems p a && topPolElems p b) := by
  induction a with
  | nil => simp [topPolElems]
  | cons x t ih => cases x <;> simp [topPolElems, ih, Bool.and_assoc]

theorem tp_bioselems (h : Hooks) : ∀ (fuel : Nat) (buf : Bytes) (abs : Nat) (st : St) (es : List BiosElem) (st' : St),
    parseBiosElems h fuel buf abs st = .ok (es, st') →
      Keep st st' ∧ topPolElems st'.pol es = true ∧ (st'.pol = 0xF0 → ∀ p, topPolElems p es = true)
  | 0, _, _, _, _, _, hp => by simp [parseBiosElems] at hp
  | fuel + 1, buf, abs, st, es, st', hp => by
    simp only [parseBiosElems] at hp
    split at hp
    · simp only [Except.ok.injEq, Prod.mk.injEq] at hp
      obtain ⟨rfl, rfl⟩ := hp
      refine ⟨Keep.refl _, ?_, fun _ p => ?_⟩ <;> split <;> simp [topPolElems]
    · rename_i off hoff
      split at hp
      · simp at hp
      · rename_i fv st1 hfv
        split at hp
        · simp at hp
        · split at hp
          · simp at hp
          · rename_i rest st2 hrest
            simp only [Except.ok.injEq, Prod.mk.injEq] at hp
            obtain ⟨rfl, rfl⟩ := hp
            have hv := (sp_all h fuel).2.2.2.2.2 _ _ _ _ _ _ hfv
            have ih := tp_bioselems h fuel _ _ _ _ _ hrest
            have hpol : st2.pol = st1.pol := ih.1.2 hv.2.2
            refine ⟨hv.1.trans ih.1, ?_, fun hc => absurd (hpol ▸ hc) hv.2.2⟩
            rw [topPolElems_append]
            have hpre : topPolElems st2.pol (if off > 0 then [BiosElem.pad (List.take off buf) abs] else []) = true := by
              split <;> simp [topPolElems]
            rw [hpre]
            simp only [topPolElems, ih.2.1, Bool.true_and, Bool.and_true, beq_iff_eq]
            rw [hpol, hv.2.1]

theorem tp_bios (h : Hooks) (fuel : Nat) (buf : Bytes) (fr : Option FlashRegion) (st : St) (b : BiosRegion) (st' : St)
    (hp : parseBios h fuel buf fr st = .ok (b, st')) :
    Keep st st' ∧ topPolElems st'.pol b.elems = true ∧ (st'.pol = 0xF0 → ∀ p, topPolElems p b.elems = true) := by
  unfold parseBios at hp
  split at hp
  · simp at hp
  · rename_i es st'' hes
    simp only [Except.ok.injEq, Prod.mk.injEq] at hp
    obtain ⟨rfl, rfl⟩ := hp
    exact tp_bioselems h _ _ _ _ _ _ hes

/-! ### regions: only the BIOS region (table entry 0) touches the state -/

def tpRegion (p : UInt8) : Region → Bool
  | .bios b => topPolElems p b.elems
  | _ => true

theorem topPolRegions_cons (p : UInt8) (r : Region) (rs : List Region) :
    topPolRegions p (r :: rs) = (tpRegion p r && topPolRegions p rs) := by
  cases r <;> simp [topPolRegions, tpRegion]

def isBios : Region → Bool
  | .bios _ => true
  | _ => false

theorem hasBios_cons (r : Region) (rs : List Region) : hasBios (r :: rs) = (isBios r || hasBios rs) := by
  cases r <;> simp [hasBios, isBios]

theorem tp_one (h : Hooks) (fuel : Nat) (rbuf : Bytes) (fr : FlashRegion) (i : Nat) (st : St) (r : Region) (st1 : St)
    (hone : (if i = 0 then
              (match parseBios h fuel rbuf (some fr) st with
                | .error e => (.error e : Except Err (Region × St))
                | .ok (b, st') => .ok (.bios b, st'))
            else if i = 1 then .ok (.me rbuf fr, st)
            else .ok (.raw rbuf fr i, st)) = .ok (r, st1)) :
    Keep st st1 ∧ tpRegion st1.pol r = true ∧ (st1.pol = 0xF0 → ∀ p, tpRegion p r = true) ∧
      (st1 = st ∨ isBios r = true) := by
  repeat' split at hone
  all_goals first
    | (simp at hone; done)
    | skip
  all_goals (simp only [Except.ok.injEq, Prod.mk.injEq] at hone)
  all_goals (obtain ⟨rfl, rfl⟩ := hone)
  · have := tp_bios h fuel _ _ _ _ _ (by assumption)
    exact ⟨this.1, this.2.1, this.2.2, Or.inr rfl⟩
  · exact ⟨Keep.refl _, rfl, fun _ _ => rfl, Or.inl rfl⟩
  · exact ⟨Keep.refl _, rfl, fun _ _ => rfl, Or.inl rfl⟩

theorem tp_parseRegions (h : Hooks) (fuel : Nat) (buf : Bytes) (nr : Nat) :
    ∀ (frs : List FlashRegion) (i : Nat) (st : St) (rs : List Region) (st' : St),
      parseRegions h fuel buf nr frs i st = .ok (rs, st') →
        Keep st st' ∧ (st' = st ∨ hasBios rs = true) ∧ topPolRegions st'.pol rs = true
  | [], _, st, rs, st', hp => by
    simp only [parseRegions, Except.ok.injEq, Prod.mk.injEq] at hp
    obtain ⟨rfl, rfl⟩ := hp
    exact ⟨Keep.refl _, Or.inl rfl, rfl⟩
  | fr :: frs, i, st, rs, st', hp => by
    simp only [parseRegions] at hp
    split at hp
    · simp only [Except.ok.injEq, Prod.mk.injEq] at hp
      obtain ⟨rfl, rfl⟩ := hp
      exact ⟨Keep.refl _, Or.inl rfl, rfl⟩
    · split at hp
      · exact tp_parseRegions h fuel buf nr frs _ _ _ _ hp
      · split at hp
        · simp at hp
        · rename_i r st1 hone
          split at hp
          · simp at hp
          · rename_i rs' st2 hrest
            simp only [Except.ok.injEq, Prod.mk.injEq] at hp
            obtain ⟨rfl, rfl⟩ := hp
            have h1 := tp_one h fuel _ fr i st r st1 hone
            have h2 := tp_parseRegions h fuel buf nr frs _ _ _ _ hrest
            refine ⟨h1.1.trans h2.1, ?_, ?_⟩
            · rw [hasBios_cons]
              rcases h1.2.2.2 with he | hb
              · rcases h2.2.1 with he2 | hb2
                · left; rw [he2, he]
                · right; simp [hb2]
              · right; simp [hb]
            · rw [topPolRegions_cons, h2.2.2, Bool.and_true]
              by_cases hp1 : st1.pol = 0xF0
              · exact h1.2.2.1 hp1 _
              · rw [h2.1.2 hp1]; exact h1.2.1

theorem tp_insert (p : UInt8) (r : Region) : ∀ l : List Region,
    topPolRegions p (insertRegion r l) = (tpRegion p r && topPolRegions p l) ∧
      hasBios (insertRegion r l) = (isBios r || hasBios l)
  | [] => by simp [insertRegion, topPolRegions_cons, hasBios_cons, topPolRegions, hasBios]
  | x :: xs => by
    simp only [insertRegion]
    split
    · simp [topPolRegions_cons, hasBios_cons]
    · simp only [topPolRegions_cons, hasBios_cons, (tp_insert p r xs).1, (tp_insert p r xs).2]
      constructor
      · cases tpRegion p x <;> cases tpRegion p r <;> simp
      · cases isBios x <;> cases isBios r <;> simp

theorem tp_sort (p : UInt8) : ∀ l : List Region,
    topPolRegions p (sortRegions l) = topPolRegions p l ∧ hasBios (sortRegions l) = hasBios l
  | [] => ⟨rfl, rfl⟩
  | x :: xs => by
    have ih := tp_sort p xs
    simp only [sortRegions, List.foldr_cons] at *
    rw [(tp_insert p x _).1, (tp_insert p x _).2, topPolRegions_cons, hasBios_cons, ih.1, ih.2]
    exact ⟨rfl, rfl⟩

theorem tp_fillGaps (p : UInt8) (fbuf : Bytes) (size : Nat) : ∀ (l : List Region) (off : Nat) (out : List Region),
    fillGaps fbuf size l off = .ok out →
      (topPolRegions p l = true → topPolRegions p out = true) ∧ (hasBios l = true → hasBios out = true)
  | [], off, out, hp => by
    simp only [fillGaps] at hp
    split at hp <;> simp only [Except.ok.injEq] at hp <;> subst hp <;> simp [topPolRegions, hasBios]
  | r :: rs, off, out, hp => by
    simp only [fillGaps] at hp
    repeat' split at hp
    all_goals first
      | (simp at hp; done)
      | skip
    all_goals (simp only [Except.ok.injEq] at hp)
    all_goals (subst hp)
    all_goals (have ih := tp_fillGaps p fbuf size rs _ _ (by assumption))
    all_goals
      (simp only [topPolRegions_cons, hasBios_cons, Bool.and_eq_true, Bool.or_eq_true]
       refine ⟨fun hh => ?_, fun hh => ?_⟩
       · first
           | exact ⟨rfl, hh.1, ih.1 hh.2⟩
           | exact ⟨hh.1, ih.1 hh.2⟩
       · first
           | (right; exact hh.imp id ih.2)
           | exact hh.imp id ih.2)

theorem tp_parseFlash (h : Hooks) (fuel : Nat) (buf : Bytes) (st : St) (f : Flash) (st' : St)
    (hf : parseFlash h fuel buf st = .ok (f, st')) :
    (st' = st ∨ hasBios f.regions = true) ∧ topPolRegions st'.pol f.regions = true := by
  unfold parseFlash at hf
  repeat' split at hf
  all_goals first
    | (simp at hf; done)
    | skip
  all_goals (simp only [Except.ok.injEq, Prod.mk.injEq] at hf)
  all_goals (obtain ⟨rfl, rfl⟩ := hf)
  all_goals
    (have hr := tp_parseRegions h _ _ _ _ _ _ _ _ (by assumption)
     have hg := fun p => tp_fillGaps p _ _ _ _ _ (by assumption)
     refine ⟨hr.2.1.imp id (fun hb => (hg 0).2 (by rw [(tp_sort 0 _).2]; exact hb)), ?_⟩
     exact (hg _).1 (by rw [(tp_sort _ _).1]; exact hr.2.2))

/-- after a successful parse the process either knows no polarity yet (no volume was seen), or every
    top-level volume has the polarity it knows (and a flash image has its BIOS region) -/
theorem parse_topPol (h : Hooks) (bs : Bytes) (t : Tree) (st : St)
    (hp : parseWith h (defaultFuel bs) bs {} = .ok (t, st)) : st.pol = 0xF0 ∨ TopPol st.pol t = true := by
  unfold parseWith at hp
  split at hp
  · split at hp
    · simp at hp
    · rename_i f st' hf
      simp only [Except.ok.injEq, Prod.mk.injEq] at hp
      obtain ⟨rfl, rfl⟩ := hp
      have := tp_parseFlash h _ _ _ _ _ hf
      rcases this.1 with he | hb
      · left; rw [he]
      · right
        simp only [TopPol, Bool.and_eq_true]
        exact ⟨hb, this.2⟩
  · split at hp
    · simp at hp
    · rename_i b st' hb
      simp only [Except.ok.injEq, Prod.mk.injEq] at hp
      obtain ⟨rfl, rfl⟩ := hp
      right
      exact (tp_bios h _ _ _ _ _ _ hb).2.1

/-! ## sibling keys of a flash image -/

def pwRegionOk : Region → Bool
  | .bios b => pwBiosElems b.elems
  | _ => true

def allPwRegions : List Region → Bool
  | [] => true
  | r :: rs => pwRegionOk r && allPwRegions rs

theorem pwRegions_iff : ∀ rs : List Region,
    pwRegions rs = true ↔ (allPwRegions rs = true ∧ (rs.map regionHead).Nodup)
  | [] => by simp [pwRegions, allPwRegions]
  | r :: rs => by
    have ih := pwRegions_iff rs
    have hr : (match r with | .bios b => pwBiosElems b.elems | _ => true) = pwRegionOk r := by cases r <;> rfl
    simp only [pwRegions, hr, allPwRegions, Bool.and_eq_true, List.map_cons, List.nodup_cons, ih,
      Bool.not_eq_true', List.contains_eq_mem, decide_eq_false_iff_not]
    constructor
    · rintro ⟨⟨h1, h2, h3⟩, h4⟩
      exact ⟨⟨h1, h2⟩, h4, h3⟩
    · rintro ⟨⟨h1, h2⟩, h4, h3⟩
      exact ⟨⟨h1, h2, h3⟩, h4⟩

theorem allPw_insert (r : Region) : ∀ l : List Region, allPwRegions (insertRegion r l) = (pwRegionOk r && allPwRegions l)
  | [] => by simp [insertRegion, allPwRegions]
  | x :: xs => by
    simp only [insertRegion]
    split
    · simp [allPwRegions]
    · simp only [allPwRegions, allPw_insert r xs]
      cases pwRegionOk x <;> cases pwRegionOk r <;> simp

theorem allPw_sort : ∀ l : List Region, allPwRegions (sortRegions l) = allPwRegions l
  | [] => rfl
  | x :: xs => by
    have ih := allPw_sort xs
    simp only [sortRegions, List.foldr_cons] at *
    rw [allPw_insert, allPwRegions, ih]

theorem allPw_fillGaps (fbuf : Bytes) (size : Nat) : ∀ (l : List Region) (off : Nat) (out : List Region),
    fillGaps fbuf size l off = .ok out → allPwRegions l = true → allPwRegions out = true
  | [], off, out, hp, _ => by
    simp only [fillGaps] at hp
    split at hp <;> simp only [Except.ok.injEq] at hp <;> subst hp <;> simp [allPwRegions, pwRegionOk]
  | r :: rs, off, out, hp, hok => by
    simp only [allPwRegions, Bool.and_eq_true] at hok
    simp only [fillGaps] at hp
    repeat' split at hp
    all_goals first
      | (simp at hp; done)
      | skip
    all_goals (simp only [Except.ok.injEq] at hp)
    all_goals (subst hp)
    all_goals (have ih := allPw_fillGaps fbuf size rs _ _ (by assumption) hok.2)
    all_goals (simp only [allPwRegions, ih, hok.1, Bool.and_self, Bool.and_true])
    all_goals (try rfl)

theorem pw_bios (h : Hooks) (fuel : Nat) (buf : Bytes) (fr : Option FlashRegion) (st : St) (b : BiosRegion) (st' : St)
    (hp : parseBios h fuel buf fr st = .ok (b, st')) : pwBiosElems b.elems = true := by
  unfold parseBios at hp
  split at hp
  · simp at hp
  · rename_i es st'' hes
    simp only [Except.ok.injEq, Prod.mk.injEq] at hp
    obtain ⟨rfl, rfl⟩ := hp
    exact (pw_bioselems h _ _ _ _ _ _ hes).1

theorem pw_one (h : Hooks) (fuel : Nat) (rbuf : Bytes) (fr : FlashRegion) (i : Nat) (st : St) (r : Region) (st1 : St)
    (hone : (if i = 0 then
              (match parseBios h fuel rbuf (some fr) st with
                | .error e => (.error e : Except Err (Region × St))
                | .ok (b, st') => .ok (.bios b, st'))
            else if i = 1 then .ok (.me rbuf fr, st)
            else .ok (.raw rbuf fr i, st)) = .ok (r, st1)) : pwRegionOk r = true := by
  repeat' split at hone
  all_goals first
    | (simp at hone; done)
    | skip
  all_goals (simp only [Except.ok.injEq, Prod.mk.injEq] at hone)
  all_goals (obtain ⟨rfl, rfl⟩ := hone)
  all_goals first
    | rfl
    | exact pw_bios h _ _ _ _ _ _ (by assumption)

theorem allPw_parseRegions (h : Hooks) (fuel : Nat) (buf : Bytes) (nr : Nat) :
    ∀ (frs : List FlashRegion) (i : Nat) (st : St) (rs : List Region) (st' : St),
      parseRegions h fuel buf nr frs i st = .ok (rs, st') → allPwRegions rs = true
  | [], _, _, _, _, hp => by
    simp only [parseRegions, Except.ok.injEq, Prod.mk.injEq] at hp
    rw [← hp.1]; rfl
  | fr :: frs, i, st, rs, st', hp => by
    simp only [parseRegions] at hp
    split at hp
    · simp only [Except.ok.injEq, Prod.mk.injEq] at hp
      rw [← hp.1]; rfl
    · split at hp
      · exact allPw_parseRegions h fuel buf nr frs _ _ _ _ hp
      · split at hp
        · simp at hp
        · rename_i r st1 hone
          split at hp
          · simp at hp
          · rename_i rs' st2 hrest
            simp only [Except.ok.injEq, Prod.mk.injEq] at hp
            obtain ⟨rfl, rfl⟩ := hp
            rw [allPwRegions, allPw_parseRegions h fuel buf nr frs _ _ _ _ hrest, Bool.and_true]
            exact pw_one h fuel _ fr i st r st1 hone

/-- a parsed flash image has distinct sibling keys at every level, given that its regions are told
    apart by name and base -/
theorem parse_pw_flash (h : Hooks) (bs : Bytes) (f : Flash) (hp : parse h bs = .ok (.flash f))
    (hheads : (f.regions.map regionHead).Nodup) : pwTree (.flash f) = true := by
  simp only [pwTree]
  rw [pwRegions_iff]
  refine ⟨?_, hheads⟩
  unfold parse parseWith at hp
  split at hp
  · simp at hp
  · rename_i t st hpw
    simp only [Except.ok.injEq] at hp
    subst hp
    split at hpw
    · split at hpw
      · simp at hpw
      · rename_i f' st' hf
        simp only [Except.ok.injEq, Prod.mk.injEq, Tree.flash.injEq] at hpw
        obtain ⟨rfl, rfl⟩ := hpw
        unfold parseFlash at hf
        repeat' split at hf
        all_goals first
          | (simp at hf; done)
          | skip
        all_goals (simp only [Except.ok.injEq, Prod.mk.injEq] at hf)
        all_goals (obtain ⟨rfl, rfl⟩ := hf)
        all_goals
          (apply allPw_fillGaps _ _ _ _ _ (by assumption)
           rw [allPw_sort]
           exact allPw_parseRegions h _ _ _ _ _ _ _ _ (by assumption))
    · split at hpw <;> simp at hpw

theorem parse_of_parseWith (h : Hooks) (bs : Bytes) (t : Tree) (st : St)
    (hp : parseWith h (defaultFuel bs) bs {} = .ok (t, st)) : parse h bs = .ok t := by
  simp [parse, hp]

/-! ## region heads of a parsed flash image -/

def countBios : List Region → Nat
  | [] => 0
  | .bios _ :: rs => 1 + countBios rs
  | _ :: rs => countBios rs

def countMe : List Region → Nat
  | [] => 0
  | .me _ _ :: rs => 1 + countMe rs
  | _ :: rs => countMe rs

/-- a region whose table entry is valid and made of 16-bit numbers -/
def V16 (r : Region) : Prop := ∃ fr, r.fr = some fr ∧ fr.valid = true ∧ fr.base < 65536 ∧ fr.limit < 65536

theorem V16.bounds {fr : FlashRegion} (hv : fr.valid = true) (hb : fr.base < 65536) (hl : fr.limit < 65536) :
    fr.baseOffset < fr.endOffset ∧ fr.endOffset ≤ 268431360 ∧ fr.endOffset % 4096 = 0 ∧ fr.baseOffset = fr.base * 4096 := by
  unfold FlashRegion.valid at hv
  simp only [Bool.and_eq_true, decide_eq_true_eq, bne_iff_ne, ne_eq] at hv
  unfold FlashRegion.baseOffset FlashRegion.endOffset
  omega

theorem head_bios_me : nameBios ≠ nameMe := by decide

/-- equal heads: two BIOS regions, two ME regions, or two raw regions at the same base -/
theorem regionHead_eq {r r' : Region} (h : regionHead r = regionHead r') :
    (isBios r = true ∧ isBios r' = true) ∨ ((∃ b f, r = .me b f) ∧ (∃ b f, r' = .me b f)) ∨
      (∃ b f t b' f' t', r = .raw b f t ∧ r' = .raw b' f' t' ∧
        f.baseOffset % 4294967296 = f'.baseOffset % 4294967296) := by
  cases r with
  | bios x =>
    cases r' with
    | bios y => left; exact ⟨rfl, rfl⟩
    | me b f => simp [regionHead, head_bios_me] at h
    | raw b f t => simp [regionHead] at h
  | me b f =>
    cases r' with
    | bios y => simp [regionHead, head_bios_me.symm] at h
    | me b' f' => right; left; exact ⟨⟨b, f, rfl⟩, ⟨b', f', rfl⟩⟩
    | raw b' f' t => simp [regionHead] at h
  | raw b f t =>
    cases r' with
    | bios y => simp [regionHead] at h
    | me b' f' => simp [regionHead] at h
    | raw b' f' t' =>
      right; right
      simp only [regionHead, List.cons.injEq, and_true] at h
      exact ⟨b, f, t, b', f', t', rfl, rfl, hexBin_inj _ _ h.2⟩

theorem countBios_zero : ∀ (l : List Region), countBios l = 0 → ∀ r ∈ l, isBios r = false
  | [], _, r, hr => by simp at hr
  | x :: xs, hc, r, hr => by
    cases x with
    | bios b => simp [countBios] at hc
    | me b f =>
      simp only [countBios] at hc
      simp only [List.mem_cons] at hr
      rcases hr with rfl | hr
      · rfl
      · exact countBios_zero xs hc r hr
    | raw b f t =>
      simp only [countBios] at hc
      simp only [List.mem_cons] at hr
      rcases hr with rfl | hr
      · rfl
      · exact countBios_zero xs hc r hr

theorem countMe_zero : ∀ (l : List Region), countMe l = 0 → ∀ r ∈ l, ∀ b f, r ≠ .me b f
  | [], _, r, hr => by simp at hr
  | x :: xs, hc, r, hr => by
    cases x with
    | me b f => simp [countMe] at hc
    | bios b =>
      simp only [countMe] at hc
      simp only [List.mem_cons] at hr
      rcases hr with rfl | hr
      · intro b f hc'; cases hc'
      · exact countMe_zero xs hc r hr
    | raw b f t =>
      simp only [countMe] at hc
      simp only [List.mem_cons] at hr
      rcases hr with rfl | hr
      · intro b f hc'; cases hc'
      · exact countMe_zero xs hc r hr

/-- the invariant of the gap filler: heads distinct, raw regions at or beyond the running offset -/
def GapInv (off : Nat) (l out : List Region) : Prop :=
  (out.map regionHead).Nodup ∧
    (∀ r ∈ out, ∀ b fr t, r = .raw b fr t → off ≤ fr.baseOffset ∧ fr.baseOffset < 4294967296) ∧
    countBios out = countBios l ∧ countMe out = countMe l

theorem not_mem_heads (r : Region) (out : List Region)
    (hb : isBios r = true → ∀ x ∈ out, isBios x = false)
    (hm : ∀ b f, r = .me b f → ∀ x ∈ out, ∀ b' f', x ≠ .me b' f')
    (hr : ∀ b f t, r = .raw b f t → ∀ x ∈ out, ∀ b' f' t', x = .raw b' f' t' →
        f.baseOffset % 4294967296 ≠ f'.baseOffset % 4294967296) :
    regionHead r ∉ out.map regionHead := by
  intro hmem
  simp only [List.mem_map] at hmem
  obtain ⟨x, hx, heq⟩ := hmem
  rcases regionHead_eq heq.symm with ⟨h1, h2⟩ | ⟨⟨b, f, h1⟩, ⟨b', f', h2⟩⟩ | ⟨b, f, t, b', f', t', h1, h2, h3⟩
  · have := hb h1 x hx
    rw [h2] at this; cases this
  · exact hm b f h1 x hx b' f' h2
  · exact hr b f t h1 x hx b' f' t' h2 h3

theorem heads_fillGaps (fbuf : Bytes) (size : Nat) : ∀ (l : List Region) (off : Nat) (out : List Region),
    fillGaps fbuf size l off = .ok out → (∀ r ∈ l, V16 r) → off % 4096 = 0 → off ≤ 268431360 →
      countBios l ≤ 1 → countMe l ≤ 1 → GapInv off l out
  | [], off, out, hp, _, hmod, hle, _, _ => by
    simp only [fillGaps] at hp
    split at hp <;> simp only [Except.ok.injEq] at hp <;> subst hp
    · refine ⟨by simp, ?_, rfl, rfl⟩
      intro r hr b fr t he
      simp only [List.mem_singleton] at hr
      subst hr
      simp only [Region.raw.injEq] at he
      obtain ⟨-, rfl, -⟩ := he
      simp only [FlashRegion.baseOffset]
      omega
    · exact ⟨by simp, by simp, rfl, rfl⟩
  | r :: rs, off, out, hp, hv, hmod, hle, hcb, hcm => by
    obtain ⟨fr, hfr, hval, hb16, hl16⟩ := hv r (by simp)
    have hbd := V16.bounds hval hb16 hl16
    simp only [fillGaps, hfr] at hp
    split at hp
    · simp at hp
    · rename_i hge
      split at hp
      · simp at hp
      · rename_i out' hrec
        have hcb' : countBios rs ≤ 1 := by cases r <;> simp [countBios] at hcb ⊢ <;> omega
        have hcm' : countMe rs ≤ 1 := by cases r <;> simp [countMe] at hcm ⊢ <;> omega
        have ih := heads_fillGaps fbuf size rs fr.endOffset out' hrec (fun x hx => hv x (by simp [hx])) hbd.2.2.1 hbd.2.1 hcb' hcm'
        obtain ⟨ihn, ihr, ihb, ihm⟩ := ih
        -- the region itself in front of the rest
        have hr_notin : regionHead r ∉ out'.map regionHead := by
          apply not_mem_heads
          · intro hb
            apply countBios_zero
            rw [ihb]
            cases r <;> simp [isBios, countBios] at hb hcb ⊢
            omega
          · intro b f he
            apply countMe_zero
            rw [ihm]
            subst he
            simp [countMe] at hcm ⊢
            omega
          · intro b f t he x hx b' f' t' hx'
            subst he
            simp only [Region.fr, Option.some.injEq] at hfr
            subst hfr
            have := ihr x hx b' f' t' hx'
            omega
        have hcore : GapInv fr.baseOffset (r :: rs) (r :: out') := by
          refine ⟨by simp only [List.map_cons, List.nodup_cons]; exact ⟨hr_notin, ihn⟩, ?_, ?_, ?_⟩
          · intro x hx b f t he
            simp only [List.mem_cons] at hx
            rcases hx with rfl | hx
            · subst he
              simp only [Region.fr, Option.some.injEq] at hfr
              subst hfr
              omega
            · have := ihr x hx b f t he
              omega
          · cases r <;> simp [countBios, ihb]
          · cases r <;> simp [countMe, ihm]
        split at hp <;> simp only [Except.ok.injEq] at hp <;> subst hp
        · -- a gap in front
          rename_i hgt
          refine ⟨?_, ?_, ?_, ?_⟩
          · have hc1 := hcore.1
            simp only [List.map_cons, List.nodup_cons] at hc1 ⊢
            refine ⟨?_, hc1⟩
            have := not_mem_heads (.raw (slice fbuf off (fr.baseOffset - off))
                ⟨(off / 4096) % 65536, (fr.baseOffset / 4096 % 65536 + 65535) % 65536⟩ (-1)) (r :: out')
              (by intro hb; cases hb) (by intro b f he; cases he)
              (by
                intro b f t he x hx b' f' t' hx'
                simp only [Region.raw.injEq] at he
                obtain ⟨-, rfl, -⟩ := he
                have := hcore.2.1 x hx b' f' t' hx'
                simp only [FlashRegion.baseOffset] at this ⊢
                omega)
            simpa using this
          · intro x hx b f t he
            simp only [List.mem_cons] at hx
            rcases hx with rfl | hx
            · simp only [Region.raw.injEq] at he
              obtain ⟨-, rfl, -⟩ := he
              simp only [FlashRegion.baseOffset]
              omega
            · have := hcore.2.1 x (by simpa using hx) b f t he
              omega
          · simpa [countBios] using hcore.2.2.1
          · simpa [countMe] using hcore.2.2.2
        · refine ⟨hcore.1, ?_, hcore.2.2.1, hcore.2.2.2⟩
          intro x hx b f t he
          have := hcore.2.1 x hx b f t he
          omega

theorem rd2_lt (b : Bytes) (o : Nat) : rd b o 2 < 65536 := by
  unfold rd
  have h1 := fromLE_lt (slice b o 2)
  have h2 : (slice b o 2).length ≤ 2 := by simp [slice]; omega
  have h3 : 256 ^ (slice b o 2).length ≤ 256 ^ 2 := Nat.pow_le_pow_right (by omega) h2
  omega

theorem decodeRegions_16 : ∀ (n : Nat) (b : Bytes), ∀ fr ∈ decodeRegions n b, fr.base < 65536 ∧ fr.limit < 65536
  | 0, _, fr, h => by simp [decodeRegions] at h
  | n + 1, b, fr, h => by
    simp only [decodeRegions, List.mem_cons] at h
    rcases h with rfl | h
    · exact ⟨rd2_lt _ _, rd2_lt _ _⟩
    · exact decodeRegions_16 n _ fr h

theorem count_insert (r : Region) : ∀ l : List Region,
    countBios (insertRegion r l) = countBios (r :: l) ∧ countMe (insertRegion r l) = countMe (r :: l) ∧
      ∀ x, x ∈ insertRegion r l ↔ x ∈ r :: l
  | [] => by simp [insertRegion]
  | y :: ys => by
    have ih := count_insert r ys
    simp only [insertRegion]
    split
    · simp
    · refine ⟨?_, ?_, ?_⟩
      · cases y <;> cases r <;> simp [countBios, ih.1] <;> omega
      · cases y <;> cases r <;> simp [countMe, ih.2.1] <;> omega
      · intro x
        simp only [List.mem_cons, ih.2.2 x]
        constructor <;> (intro h; rcases h with h | h | h <;> simp [h])

theorem count_sort : ∀ l : List Region,
    countBios (sortRegions l) = countBios l ∧ countMe (sortRegions l) = countMe l ∧ ∀ x, x ∈ sortRegions l ↔ x ∈ l
  | [] => by simp [sortRegions]
  | y :: ys => by
    have ih := count_sort ys
    simp only [sortRegions, List.foldr_cons] at *
    have hi := count_insert y (List.foldr insertRegion [] ys)
    refine ⟨?_, ?_, ?_⟩
    · rw [hi.1]; cases y <;> simp [countBios, ih.1]
    · rw [hi.2.1]; cases y <;> simp [countMe, ih.2.1]
    · intro x; rw [hi.2.2 x]; simp [ih.2.2 x]

theorem v16_one (h : Hooks) (fuel : Nat) (rbuf : Bytes) (fr : FlashRegion) (i : Nat) (st : St) (r : Region) (st1 : St)
    (hone : (if i = 0 then
              (match parseBios h fuel rbuf (some fr) st with
                | .error e => (.error e : Except Err (Region × St))
                | .ok (b, st') => .ok (.bios b, st'))
            else if i = 1 then .ok (.me rbuf fr, st)
            else .ok (.raw rbuf fr i, st)) = .ok (r, st1)) :
    r.fr = some fr ∧ (isBios r = true → i = 0) ∧ (∀ b f, r = .me b f → i = 1) := by
  repeat' split at hone
  all_goals first
    | (simp at hone; done)
    | skip
  all_goals (simp only [Except.ok.injEq, Prod.mk.injEq] at hone)
  all_goals (obtain ⟨rfl, rfl⟩ := hone)
  · refine ⟨?_, fun _ => (by assumption), fun b f he => (by cases he)⟩
    rename_i b st' hb
    unfold parseBios at hb
    split at hb
    · simp at hb
    · simp only [Except.ok.injEq, Prod.mk.injEq] at hb
      rw [← hb.1]; rfl
  · exact ⟨rfl, fun hb => (by cases hb), fun _ _ _ => (by assumption)⟩
  · exact ⟨rfl, fun hb => (by cases hb), fun b f he => (by cases he)⟩

theorem v16_parseRegions (h : Hooks) (fuel : Nat) (buf : Bytes) (nr : Nat) :
    ∀ (frs : List FlashRegion) (i : Nat) (st : St) (rs : List Region) (st' : St),
      parseRegions h fuel buf nr frs i st = .ok (rs, st') → (∀ fr ∈ frs, fr.base < 65536 ∧ fr.limit < 65536) →
        (∀ r ∈ rs, V16 r) ∧ countBios rs ≤ (if i = 0 then 1 else 0) ∧ countMe rs ≤ (if i ≤ 1 then 1 else 0)
  | [], _, _, _, _, hp, _ => by
    simp only [parseRegions, Except.ok.injEq, Prod.mk.injEq] at hp
    rw [← hp.1]
    refine ⟨by simp, by simp [countBios], by simp [countMe]⟩
  | fr :: frs, i, st, rs, st', hp, h16 => by
    simp only [parseRegions] at hp
    split at hp
    · simp only [Except.ok.injEq, Prod.mk.injEq] at hp
      rw [← hp.1]
      refine ⟨by simp, by simp [countBios], by simp [countMe]⟩
    · split at hp
      · have ih := v16_parseRegions h fuel buf nr frs _ _ _ _ hp (fun x hx => h16 x (by simp [hx]))
        refine ⟨ih.1, ?_, ?_⟩
        · have := ih.2.1; simp at this; split <;> omega
        · have := ih.2.2; split at this <;> split <;> omega
      · rename_i hsel
        split at hp
        · simp at hp
        · rename_i r st1 hone
          split at hp
          · simp at hp
          · rename_i rs' st2 hrest
            simp only [Except.ok.injEq, Prod.mk.injEq] at hp
            obtain ⟨rfl, rfl⟩ := hp
            have ih := v16_parseRegions h fuel buf nr frs _ _ _ _ hrest (fun x hx => h16 x (by simp [hx]))
            have h1 := v16_one h fuel _ fr i st r st1 hone
            have hval : fr.valid = true := by
              simp only [not_or, Decidable.not_not] at hsel
              exact hsel.1
            refine ⟨?_, ?_, ?_⟩
            · intro x hx
              simp only [List.mem_cons] at hx
              rcases hx with rfl | hx
              · exact ⟨fr, h1.1, hval, (h16 fr (by simp)).1, (h16 fr (by simp)).2⟩
              · exact ih.1 x hx
            · have := ih.2.1
              simp only [Nat.add_eq_zero_iff, Nat.succ_ne_self, and_false, ↓reduceIte, Nat.le_zero_eq] at this
              cases r with
              | bios b => have := h1.2.1 rfl; subst this; simp [countBios]; omega
              | me b f => simp only [countBios]; split <;> omega
              | raw b f t => simp only [countBios]; split <;> omega
            · have := ih.2.2
              cases r with
              | me b f =>
                have hi := h1.2.2 b f rfl
                subst hi
                simp [countMe] at this ⊢
                omega
              | bios b => simp only [countMe]; split at this <;> split <;> omega
              | raw b f t => simp only [countMe]; split at this <;> split <;> omega

theorem parseDescriptor_16 (buf : Bytes) (d : Descriptor) (hp : parseDescriptor buf = .ok d) :
    ∀ fr ∈ d.region.regions, fr.base < 65536 ∧ fr.limit < 65536 := by
  simp only [parseDescriptor] at hp
  repeat' split at hp
  all_goals first
    | (simp at hp; done)
    | skip
  all_goals (simp only [Except.ok.injEq] at hp)
  all_goals (subst hp)
  all_goals (exact decodeRegions_16 _ _)

theorem heads_of (h : Hooks) (fuel : Nat) (buf : Bytes) (nr : Nat) (frs : List FlashRegion) (st : St) (rs : List Region)
    (st' : St) (fbuf : Bytes) (size : Nat) (out : List Region)
    (h16 : ∀ fr ∈ frs, fr.base < 65536 ∧ fr.limit < 65536)
    (hpr : parseRegions h fuel buf nr frs 0 st = .ok (rs, st'))
    (hfg : fillGaps fbuf size (sortRegions rs) 4096 = .ok out) : (out.map regionHead).Nodup := by
  have hr := v16_parseRegions h fuel buf nr frs 0 st rs st' hpr h16
  have hs := count_sort rs
  have hb : countBios rs ≤ 1 := by simpa using hr.2.1
  have hm : countMe rs ≤ 1 := by simpa using hr.2.2
  exact (heads_fillGaps fbuf size _ _ _ hfg (fun r hr' => hr.1 r ((hs.2.2 r).mp hr')) (by decide) (by decide)
    (by rw [hs.1]; exact hb) (by rw [hs.2.1]; exact hm)).1

/-- the regions of a parsed flash image are told apart by name and base -/
theorem parse_heads_nodup (h : Hooks) (bs : Bytes) (f : Flash) (hp : parse h bs = .ok (.flash f)) :
    (f.regions.map regionHead).Nodup := by
  unfold parse parseWith at hp
  split at hp
  · simp at hp
  · rename_i t st hpw
    simp only [Except.ok.injEq] at hp
    subst hp
    split at hpw
    · split at hpw
      · simp at hpw
      · rename_i f' st' hf
        simp only [Except.ok.injEq, Prod.mk.injEq, Tree.flash.injEq] at hpw
        obtain ⟨rfl, rfl⟩ := hpw
        unfold parseFlash at hf
        repeat' split at hf
        all_goals first
          | (simp at hf; done)
          | skip
        all_goals (simp only [Except.ok.injEq, Prod.mk.injEq] at hf)
        all_goals (obtain ⟨rfl, rfl⟩ := hf)
        all_goals
          (have h16 := parseDescriptor_16 _ _ (by assumption)
           exact heads_of h _ _ _ _ _ _ _ _ _ _ h16 (by assumption) (by assumption))
    · split at hpw <;> simp at hpw

/-- **every parsed tree has distinct sibling keys at every level** -/
theorem parse_pw (h : Hooks) (bs : Bytes) (t : Tree) (hp : parse h bs = .ok t) : pwTree t = true := by
  cases t with
  | flash f => exact parse_pw_flash h bs f hp (parse_heads_nodup h bs f hp)
  | bios b => exact parse_pw_bios h bs b hp

end Fiano.Uefi
