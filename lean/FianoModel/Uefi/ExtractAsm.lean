/-
  Lemmas for property C07: `Assemble` gives the same buffers on two trees that agree on everything it
  reads (`sim*`), and the tree `ParseDir` builds from an extraction agrees in that sense with the
  extracted tree (`strip_sim`).

  `Assemble` never reads: a section's `Size`, `ExtendedSize`, `FileOrder`; a file's `Checksum`,
  `Size`, `ExtendedSize` (the checksums are recomputed from the other header fields, see
  `checksumAndAssemble_eq`); a volume's `Reserved`, `FreeSpace`; the buffer of any node that has
  children — except a volume's first `DataOffset` bytes.
-/
import FianoModel.Uefi.Extract

namespace Fiano.Uefi
open Fiano

/-! ### 8-bit sums -/

theorem sum8_foldl (b : Bytes) (a : UInt8) : b.foldl (· + ·) a = a + sum8 b := by
  induction b generalizing a with
  | nil => simp [sum8]
  | cons x xs ih =>
    simp only [List.foldl_cons, sum8]
    rw [ih, ih (0 + x)]
    grind

theorem ex_sum8_cons (x : UInt8) (b : Bytes) : sum8 (x :: b) = x + sum8 b := by
  simp only [sum8, List.foldl_cons]
  rw [sum8_foldl]
  simp [sum8]

theorem ex_sum8_append (a b : Bytes) : sum8 (a ++ b) = sum8 a + sum8 b := by
  simp only [sum8, List.foldl_append]
  rw [sum8_foldl]
  simp [sum8]

theorem sum8_hdr (i : FileInfo) (x y : UInt8) (hs : Nat) (hg : i.guid.length = 16) (h : hs = 24 ∨ hs = 32) :
    sum8 ((encodeFileHeader i x y true).take hs) =
      sum8 i.guid + (x + (y + sum8 (([byte i.type, byte i.attrs] ++ leN 3 i.size3 ++ [byte i.state] ++ leN 8 i.extSize).take (hs - 18)))) := by
  unfold encodeFileHeader
  have t24 : i.guid.take 24 = i.guid := List.take_of_length_le (by omega)
  have t32 : i.guid.take 32 = i.guid := List.take_of_length_le (by omega)
  rcases h with rfl | rfl
  · simp [List.take_append, hg, ex_sum8_append, ex_sum8_cons, t24]
  · simp [List.take_append, hg, ex_sum8_append, ex_sum8_cons, t32]

/-- the header checksum `ChecksumAndAssemble` ends up with: a function of the other header fields -/
def ckhOf (i : FileInfo) : UInt8 :=
  0 - (sum8 i.guid + sum8 (([byte i.type, byte i.attrs] ++ leN 3 i.size3 ++ [byte i.state] ++ leN 8 i.extSize).take
        ((if i.attrs &&& 1 ≠ 0 then 32 else 24) - 18)) - byte i.state)

def ckfOf (i : FileInfo) (d : Bytes) : UInt8 := if i.attrs &&& 0x40 ≠ 0 then 0 - sum8 d else 0xAA

/-- `ChecksumAndAssemble` does not depend on the checksums the header struct held before -/
theorem checksumAndAssemble_eq (i : FileInfo) (d : Bytes) (hg : i.guid.length = 16) :
    checksumAndAssemble i d =
      ({ i with ckHeader := (ckhOf i).toNat, ckFile := (ckfOf i d).toNat },
       encodeFileHeader i (ckhOf i) (ckfOf i d) (i.attrs &&& 1 ≠ 0) ++ d) := by
  have h1 : byte i.ckHeader - (sum8 ((encodeFileHeader i (byte i.ckHeader) (byte i.ckFile) true).take (if i.attrs &&& 1 ≠ 0 then 32 else 24))
      - byte i.ckFile - byte i.state) = ckhOf i := by
    rw [sum8_hdr i _ _ _ hg (by split <;> simp)]
    unfold ckhOf
    grind
  unfold checksumAndAssemble
  simp only [h1]
  rfl

theorem checksumAndAssemble_ck (i : FileInfo) (a b : Nat) (d : Bytes) (hg : i.guid.length = 16) :
    checksumAndAssemble { i with ckHeader := a, ckFile := b } d = checksumAndAssemble i d := by
  rw [checksumAndAssemble_eq _ d (by exact hg), checksumAndAssemble_eq i d hg]
  rfl

/-! ### agreement on what `Assemble` reads -/

/-- a file record without the fields `Assemble` overwrites before reading -/
def fileKey (i : FileInfo) : FileInfo := { i with ckHeader := 0, ckFile := 0, size3 := 0, extSize := 0 }

/-- what the volume case reads of the buffer of a volume with files -/
def fvHead (i : FvInfo) (b : Bytes) : Bool × Bool × Bytes :=
  (decide (i.length < b.length), decide (i.dataOffset > b.length), b.take i.dataOffset)

/-- a GUID-defined section without the processing bit keeps its old buffer even when it has children -/
def keepsBuf (i : SecInfo) : Bool :=
  i.type == 0x02 && (match i.ts with
    | some g => g.attrs &&& 1 == 0
    | none => false)

mutual
def simSection : Section → Section → Prop
  | .mk i1 b1 e1, .mk i2 b2 e2 =>
    sumSecInfo i1 = sumSecInfo i2 ∧ simNodes e1 e2 ∧ (e1 = [] ∨ keepsBuf i1 = true → b1 = b2)
def simNodes : List Node → List Node → Prop
  | [], [] => True
  | .sec s1 :: n1, .sec s2 :: n2 => simSection s1 s2 ∧ simNodes n1 n2
  | .fv v1 :: n1, .fv v2 :: n2 => simFv v1 v2 ∧ simNodes n1 n2
  | _, _ => False
def simSections : List Section → List Section → Prop
  | [], [] => True
  | s1 :: r1, s2 :: r2 => simSection s1 s2 ∧ simSections r1 r2
  | _, _ => False
def simFile : File → File → Prop
  | .mk i1 b1 s1, .mk i2 b2 s2 =>
    -- (follow-up wp-c07c) a file with an NVAR store: `Assemble` reads neither its buffer nor its sections
    fileKey i1 = fileKey i2 ∧ i1.guid.length = 16 ∧ (i1.nvar = none → simSections s1 s2 ∧ (s1 = [] → b1 = b2))
def simFiles : List File → List File → Prop
  | [], [] => True
  | f1 :: r1, f2 :: r2 => simFile f1 f2 ∧ simFiles r1 r2
  | _, _ => False
def simFv : Fv → Fv → Prop
  | .mk i1 b1 f1, .mk i2 b2 f2 =>
    sumFvInfo i1 = sumFvInfo i2 ∧ simFiles f1 f2 ∧ (f1 = [] → b1 = b2) ∧ (f1 ≠ [] → fvHead i1 b1 = fvHead i2 b2)
end

/-- same outcome: both fail in the same way, or both succeed with related results -/
inductive Rel2 {α β : Type} (R : α → β → Prop) : Except Err α → Except Err β → Prop
  | ok {a : α} {b : β} : R a b → Rel2 R (.ok a) (.ok b)
  | error {e : Err} : Rel2 R (.error e) (.error e)

@[simp] theorem rel2_ok {α β : Type} (R : α → β → Prop) (a : α) (b : β) : Rel2 R (.ok a) (.ok b) ↔ R a b :=
  ⟨fun h => (by cases h; assumption), Rel2.ok⟩
@[simp] theorem rel2_error {α β : Type} (R : α → β → Prop) (e f : Err) :
    Rel2 R (.error e : Except Err α) (.error f : Except Err β) ↔ e = f :=
  ⟨fun h => (by cases h; rfl), fun h => h ▸ Rel2.error⟩
@[simp] theorem rel2_ok_error {α β : Type} (R : α → β → Prop) (a : α) (f : Err) :
    Rel2 R (.ok a) (.error f : Except Err β) ↔ False := ⟨fun h => (by cases h), False.elim⟩
@[simp] theorem rel2_error_ok {α β : Type} (R : α → β → Prop) (e : Err) (b : β) :
    Rel2 R (.error e : Except Err α) (.ok b) ↔ False := ⟨fun h => (by cases h), False.elim⟩

/-- related results and the same process state -/
abbrev RelE {α : Type} (R : α → α → Prop) (x y : Except Err (α × St)) : Prop :=
  Rel2 (fun p q => R p.1 q.1 ∧ p.2 = q.2) x y

def postSection (s1 s2 : Section) : Prop := simSection s1 s2 ∧ s1.buf = s2.buf
def postNodes (n1 n2 : List Node) : Prop := simNodes n1 n2 ∧ n1.map Node.buf = n2.map Node.buf
def postSections (n1 n2 : List Section) : Prop := simSections n1 n2 ∧ n1.map Section.buf = n2.map Section.buf
def postFile (f1 f2 : File) : Prop := simFile f1 f2 ∧ f1.buf = f2.buf
def postFiles (n1 n2 : List File) : Prop :=
  simFiles n1 n2 ∧ n1.map (fun f => (f.info.attrs, f.buf)) = n2.map (fun f => (f.info.attrs, f.buf))
def postFv (v1 v2 : Fv) : Prop := simFv v1 v2 ∧ v1.buf = v2.buf

/-! ### the pieces -/

theorem regenLeaf_sum (i : SecInfo) : regenLeaf (sumSecInfo i) = regenLeaf i := rfl

theorem regenLeaf_key (i1 i2 : SecInfo) (hk : sumSecInfo i1 = sumSecInfo i2) : regenLeaf i1 = regenLeaf i2 := by
  rw [← regenLeaf_sum i1, hk, regenLeaf_sum]

theorem genSecHeader_key (i1 i2 : SecInfo) (b : Bytes) (hk : sumSecInfo i1 = sumSecInfo i2) :
    Rel2 (fun p q => sumSecInfo p.1 = sumSecInfo q.1 ∧ p.2 = q.2 ∧ p.1.extSize = q.1.extSize)
      (genSecHeader i1 b) (genSecHeader i2 b) := by
  obtain ⟨s1, t1, x1, o1, ts1, n1, bd1, v1, d1⟩ := i1
  obtain ⟨s2, t2, x2, o2, ts2, n2, bd2, v2, d2⟩ := i2
  simp only [sumSecInfo, SecInfo.mk.injEq] at hk
  obtain ⟨-, rfl, -, -, rfl, rfl, rfl, rfl, rfl⟩ := hk
  cases ts1 <;> by_cases ht : t1 = 2 <;> simp [genSecHeader, ht, sumSecInfo]

theorem keepsBuf_key (i1 i2 : SecInfo) (hk : sumSecInfo i1 = sumSecInfo i2) : keepsBuf i1 = keepsBuf i2 := by
  obtain ⟨s1, t1, x1, o1, ts1, n1, bd1, v1, d1⟩ := i1
  obtain ⟨s2, t2, x2, o2, ts2, n2, bd2, v2, d2⟩ := i2
  simp only [sumSecInfo, SecInfo.mk.injEq] at hk
  obtain ⟨-, rfl, -, -, rfl, rfl, rfl, rfl, rfl⟩ := hk
  simp [keepsBuf]

/-! ### emptiness of child lists -/

theorem simNodes_nil_iff {n1 n2 : List Node} (h : simNodes n1 n2) : n1 = [] ↔ n2 = [] := by
  cases n1 with
  | nil => cases n2 with
    | nil => simp
    | cons b t => simp [simNodes] at h
  | cons a t1 => cases n2 with
    | nil => cases a <;> simp [simNodes] at h
    | cons b t2 => simp

theorem simSections_nil_iff {n1 n2 : List Section} (h : simSections n1 n2) : n1 = [] ↔ n2 = [] := by
  cases n1 <;> cases n2 <;> simp [simSections] at h ⊢

theorem simFiles_nil_iff {n1 n2 : List File} (h : simFiles n1 n2) : n1 = [] ↔ n2 = [] := by
  cases n1 <;> cases n2 <;> simp [simFiles] at h ⊢

/-! ### the Section case after the visit of the children -/

def secBody (h : Hooks) (i : SecInfo) (buf secData : Bytes) : Except Err Bytes :=
  if i.type = 0x02 then
    match i.ts with
    | none => .error .panic
    | some g =>
      if g.attrs &&& 1 ≠ 0 then
        match h.codec g.guid with
        | none => .error .err
        | some c =>
          match c.encode secData with
          | some b => .ok b
          | none => .error .err
      else .ok buf
  else .ok secData

def asmSectionTail (h : Hooks) (i : SecInfo) (buf : Bytes) (encap' : List Node) (st : St) : Except Err (Section × St) :=
  match encap' with
  | [] =>
    match regenLeaf i with
    | .error e => .error e
    | .ok none => .ok (.mk i buf [], st)
    | .ok (some body) =>
      match genSecHeader i body with
      | .error e => .error e
      | .ok (i', buf') => .ok (.mk i' buf' [], noteLarge i'.extSize st)
  | _ :: _ =>
    match secBody h i buf (joinPad4 (encap'.map Node.buf) []) with
    | .error e => .error e
    | .ok body =>
      match genSecHeader i body with
      | .error e => .error e
      | .ok (i', buf') => .ok (.mk i' buf' encap', noteLarge i'.extSize st)

theorem asmSection_eq (h : Hooks) (i : SecInfo) (buf : Bytes) (encap : List Node) (st : St) :
    asmSection h (.mk i buf encap) st =
      match asmNodes h encap st with
      | .error e => .error e
      | .ok (encap', st) => asmSectionTail h i buf encap' st := by
  rw [asmSection]
  cases asmNodes h encap st with
  | error e => rfl
  | ok p =>
    obtain ⟨n, s⟩ := p
    cases n <;> rfl

theorem secBody_key (h : Hooks) (i1 i2 : SecInfo) (b1 b2 d : Bytes) (hk : sumSecInfo i1 = sumSecInfo i2)
    (hb : keepsBuf i1 = true → b1 = b2) : secBody h i1 b1 d = secBody h i2 b2 d := by
  obtain ⟨s1, t1, x1, o1, ts1, n1, bd1, v1, d1⟩ := i1
  obtain ⟨s2, t2, x2, o2, ts2, n2, bd2, v2, d2⟩ := i2
  simp only [sumSecInfo, SecInfo.mk.injEq] at hk
  obtain ⟨-, rfl, -, -, rfl, rfl, rfl, rfl, rfl⟩ := hk
  unfold secBody
  by_cases ht : t1 = 2
  · cases ts1 with
    | none => simp [ht]
    | some g =>
      simp only [ht, ↓reduceIte]
      split
      · rfl
      · rename_i ha
        have : b1 = b2 := hb (by simpa [keepsBuf, ht] using ha)
        rw [this]
  · simp [ht]

theorem asmSectionTail_sim (h : Hooks) (i1 i2 : SecInfo) (b1 b2 : Bytes) (n1 n2 : List Node) (st : St)
    (hk : sumSecInfo i1 = sumSecInfo i2) (hb : n1 = [] ∨ keepsBuf i1 = true → b1 = b2) (hn : postNodes n1 n2) :
    RelE postSection (asmSectionTail h i1 b1 n1 st) (asmSectionTail h i2 b2 n2 st) := by
  obtain ⟨hs, hbufs⟩ := hn
  cases n1 with
  | nil =>
    have : n2 = [] := (simNodes_nil_iff hs).mp rfl
    subst this
    have hbb : b1 = b2 := hb (Or.inl rfl)
    subst hbb
    simp only [asmSectionTail]
    rw [regenLeaf_key i1 i2 hk]
    cases hr : regenLeaf i2 with
    | error e => simp
    | ok o =>
      cases o with
      | none => simp [postSection, simSection, hk, simNodes, Section.buf]
      | some body =>
        have hg := genSecHeader_key i1 i2 body hk
        simp only []
        generalize genSecHeader i1 body = r1 at hg ⊢
        generalize genSecHeader i2 body = r2 at hg ⊢
        cases hg with
        | error => simp
        | ok hab =>
          obtain ⟨hj, hc, he⟩ := hab
          simp [postSection, simSection, hj, hc, he, simNodes, Section.buf]
  | cons a t1 =>
    cases n2 with
    | nil => cases a <;> simp [simNodes] at hs
    | cons a2 t2 =>
      simp only [asmSectionTail]
      rw [hbufs, secBody_key h i1 i2 b1 b2 _ hk (fun hkb => hb (Or.inr hkb))]
      cases hbody : secBody h i2 b2 (joinPad4 (List.map Node.buf (a2 :: t2)) []) with
      | error e => simp
      | ok body =>
        have hg := genSecHeader_key i1 i2 body hk
        simp only []
        generalize genSecHeader i1 body = r1 at hg ⊢
        generalize genSecHeader i2 body = r2 at hg ⊢
        cases hg with
        | error => simp
        | ok hab =>
          obtain ⟨hj, hc, he⟩ := hab
          have hkb := keepsBuf_key _ _ hj
          simp [postSection, simSection, hj, hc, he, hs, Section.buf]

/-! ### the File case after the visit of the sections -/

def asmFileTail (i : FileInfo) (buf : Bytes) (secs' : List Section) (st : St) : File × St :=
  match secs' with
  | [] => (.mk i buf [], st)
  | _ :: _ =>
    let fileData := joinPad4 (secs'.map Section.buf) []
    let (attrs, size3, ext) := setSize i.attrs (24 + fileData.length) true
    let i1 := { i with attrs := attrs, size3 := size3, extSize := ext }
    let (i2, buf') := checksumAndAssemble i1 fileData
    (.mk i2 buf' secs', noteLarge ext st)

theorem asmFile_eq (h : Hooks) (i : FileInfo) (buf : Bytes) (secs : List Section) (st : St) (hn : i.nvar = none) :
    asmFile h (.mk i buf secs) st =
      match asmSections h secs st with
      | .error e => .error e
      | .ok (secs', st) => .ok (asmFileTail i buf secs' st) := by
  obtain ⟨g1, ch1, cf1, ty1, at1, s1, st1, e1, do1, nv1⟩ := i
  simp only at hn
  subst hn
  rw [asmFile]
  simp only []
  cases asmSections h secs st with
  | error e => rfl
  | ok p =>
    obtain ⟨n, s⟩ := p
    cases n <;> rfl

theorem asmFileTail_sim (i1 i2 : FileInfo) (b1 b2 : Bytes) (n1 n2 : List Section) (st : St)
    (hk : fileKey i1 = fileKey i2) (hnv : i1.nvar = none) (hg : i1.guid.length = 16)
    (hb : n1 = [] → b1 = b2) (hn : postSections n1 n2) :
    postFile (asmFileTail i1 b1 n1 st).1 (asmFileTail i2 b2 n2 st).1 ∧
      (asmFileTail i1 b1 n1 st).2 = (asmFileTail i2 b2 n2 st).2 := by
  obtain ⟨hs, hbufs⟩ := hn
  cases n1 with
  | nil =>
    have : n2 = [] := (simSections_nil_iff hs).mp rfl
    subst this
    have hbb : b1 = b2 := hb rfl
    subst hbb
    simp [asmFileTail, postFile, simFile, hk, hnv, hg, simSections, File.buf]
  | cons a t1 =>
    cases n2 with
    | nil => simp [simSections] at hs
    | cons a2 t2 =>
      obtain ⟨g1, ch1, cf1, ty1, at1, s1, st1, e1, do1, nv1⟩ := i1
      obtain ⟨g2, ch2, cf2, ty2, at2, s2, st2, e2, do2, nv2⟩ := i2
      simp only [fileKey, FileInfo.mk.injEq] at hk
      obtain ⟨rfl, -, -, rfl, rfl, -, rfl, -, rfl, rfl⟩ := hk
      simp only at hnv hg
      subst hnv
      simp only [asmFileTail]
      rw [hbufs]
      generalize joinPad4 (List.map Section.buf (a2 :: t2)) [] = d
      generalize hss : setSize at1 (24 + d.length) true = ss
      obtain ⟨A, S, E⟩ := ss
      simp only []
      have hck := checksumAndAssemble_ck
        { guid := g1, ckHeader := ch2, ckFile := cf2, type := ty1, attrs := A, size3 := S, state := st1, extSize := E,
          dataOffset := do1, nvar := none } ch1 cf1 d hg
      simp only [] at hck
      rw [hck]
      have heq := checksumAndAssemble_eq
        { guid := g1, ckHeader := ch2, ckFile := cf2, type := ty1, attrs := A, size3 := S, state := st1, extSize := E,
          dataOffset := do1, nvar := none } d hg
      rw [heq]
      simp [postFile, simFile, hs, hg, File.buf]

/-- (follow-up wp-c07c) the file with an NVAR store: `Assemble` reads the record (without the fields it
    overwrites) and the store, neither the old buffer nor the sections -/
theorem asmFile_nvar_sim (h : Hooks) (i1 i2 : FileInfo) (b1 b2 : Bytes) (s1 s2 : List Section) (st : St) (nv : NvStore)
    (hk : fileKey i1 = fileKey i2) (hg : i1.guid.length = 16) (hnv : i1.nvar = some nv) :
    RelE postFile (asmFile h (.mk i1 b1 s1) st) (asmFile h (.mk i2 b2 s2) st) := by
  obtain ⟨g1, ch1, cf1, ty1, at1, z1, st1, e1, do1, nv1⟩ := i1
  obtain ⟨g2, ch2, cf2, ty2, at2, z2, st2, e2, do2, nv2⟩ := i2
  simp only [fileKey, FileInfo.mk.injEq] at hk
  obtain ⟨rfl, -, -, rfl, rfl, -, rfl, -, rfl, rfl⟩ := hk
  simp only at hnv hg
  subst hnv
  rw [asmFile, asmFile]
  simp only []
  cases h.nvarAsm nv st.pol with
  | error e => simp
  | ok nv' =>
    simp only []
    generalize hss : setSize at1 (24 + nv'.length) true = ss
    obtain ⟨A, S, E⟩ := ss
    simp only []
    have hck := checksumAndAssemble_ck
      { guid := g1, ckHeader := ch2, ckFile := cf2, type := ty1, attrs := A, size3 := S, state := st1, extSize := E,
        dataOffset := do1, nvar := some nv' } ch1 cf1 nv'.buf hg
    simp only [] at hck
    rw [hck]
    have heq := checksumAndAssemble_eq
      { guid := g1, ckHeader := ch2, ckFile := cf2, type := ty1, attrs := A, size3 := S, state := st1, extSize := E,
        dataOffset := do1, nvar := some nv' } nv'.buf hg
    rw [heq]
    simp [postFile, simFile, hg, File.buf, fileKey]

/-! ### the FirmwareVolume case after the visit of the files -/

theorem relayoutFv_key (i1 i2 : FvInfo) (b1 b2 : Bytes) (fs1 fs2 : List File) (st : St)
    (hk : sumFvInfo i1 = sumFvInfo i2) (hh : fvHead i1 b1 = fvHead i2 b2)
    (hf : fs1.map (fun f => (f.info.attrs, f.buf)) = fs2.map (fun f => (f.info.attrs, f.buf))) :
    Rel2 (fun p q => sumFvInfo p.1 = sumFvInfo q.1 ∧ p.2 = q.2) (relayoutFv i1 b1 fs1 st) (relayoutFv i2 b2 fs2 st) := by
  cases i1; cases i2
  simp only [sumFvInfo, FvInfo.mk.injEq] at hk
  obtain ⟨rfl, rfl, rfl, rfl, rfl, rfl, rfl, -, rfl, rfl, rfl, rfl, rfl, rfl, rfl, -⟩ := hk
  simp only [fvHead, Prod.mk.injEq, decide_eq_decide] at hh
  obtain ⟨h1, h2, h3⟩ := hh
  unfold relayoutFv finishFv
  simp only [h1, h2, h3, hf]
  repeat' split
  all_goals simp_all [sumFvInfo]

theorem fvHead_key (j1 j2 : FvInfo) (c : Bytes) (hj : sumFvInfo j1 = sumFvInfo j2) : fvHead j1 c = fvHead j2 c := by
  have h1 : j1.length = j2.length := by simpa [sumFvInfo] using congrArg FvInfo.length hj
  have h2 : j1.dataOffset = j2.dataOffset := by simpa [sumFvInfo] using congrArg FvInfo.dataOffset hj
  simp [fvHead, h1, h2]

def asmFvTail (i : FvInfo) (buf : Bytes) (files' : List File) (st : St) : Except Err (Fv × St) :=
  match files' with
  | [] => .ok (.mk i buf [], st)
  | _ :: _ =>
    match relayoutFv i buf files' st with
    | .error e => .error e
    | .ok (i', buf', st') => .ok (.mk i' buf' files', st')

theorem asmFv_eq (h : Hooks) (i : FvInfo) (buf : Bytes) (files : List File) (st : St) :
    asmFv h (.mk i buf files) st =
      match setPolarity (polOfAttrs i.attrs) st with
      | .error e => .error e
      | .ok st =>
        match asmFiles h files st with
        | .error e => .error e
        | .ok (files', st) => asmFvTail i buf files' st := by
  rw [asmFv]
  cases setPolarity (polOfAttrs i.attrs) st with
  | error e => rfl
  | ok st1 =>
    simp only []
    cases asmFiles h files st1 with
    | error e => rfl
    | ok p =>
      obtain ⟨n, s⟩ := p
      cases n <;> rfl

theorem asmFvTail_sim (i1 i2 : FvInfo) (b1 b2 : Bytes) (n1 n2 : List File) (st : St)
    (hk : sumFvInfo i1 = sumFvInfo i2) (hb : n1 = [] → b1 = b2) (hh : n1 ≠ [] → fvHead i1 b1 = fvHead i2 b2)
    (hn : postFiles n1 n2) :
    RelE postFv (asmFvTail i1 b1 n1 st) (asmFvTail i2 b2 n2 st) := by
  obtain ⟨hs, hbufs⟩ := hn
  cases n1 with
  | nil =>
    have : n2 = [] := (simFiles_nil_iff hs).mp rfl
    subst this
    have hbb : b1 = b2 := hb rfl
    subst hbb
    simp [asmFvTail, postFv, simFv, hk, simFiles, Fv.buf]
  | cons a t1 =>
    cases n2 with
    | nil => simp [simFiles] at hs
    | cons a2 t2 =>
      simp only [asmFvTail]
      have hr := relayoutFv_key i1 i2 b1 b2 (a :: t1) (a2 :: t2) st hk (hh (by simp)) hbufs
      generalize relayoutFv i1 b1 (a :: t1) st = r1 at hr ⊢
      generalize relayoutFv i2 b2 (a2 :: t2) st = r2 at hr ⊢
      cases hr with
      | error => simp
      | ok hab =>
        rename_i p q
        obtain ⟨j1, c1, s1⟩ := p
        obtain ⟨j2, c2, s2⟩ := q
        simp only [Prod.mk.injEq] at hab
        obtain ⟨hj, rfl, rfl⟩ := hab
        simp [postFv, simFv, hj, hs, Fv.buf, fvHead_key j1 j2 c1 hj]

/-! ### `Assemble` on two trees that agree on what it reads -/

theorem asmNodes_nil (h : Hooks) (e : List Node) (st : St) (n : List Node) (s : St)
    (hr : asmNodes h e st = .ok (n, s)) (hn : n = []) : e = [] := by
  cases e with
  | nil => rfl
  | cons a t =>
    cases a <;> (simp only [asmNodes] at hr; repeat' split at hr) <;> simp_all

theorem asmSections_nil (h : Hooks) (e : List Section) (st : St) (n : List Section) (s : St)
    (hr : asmSections h e st = .ok (n, s)) (hn : n = []) : e = [] := by
  cases e with
  | nil => rfl
  | cons a t =>
    simp only [asmSections] at hr
    repeat' split at hr
    all_goals simp_all

theorem asmFiles_nil (h : Hooks) (e : List File) (st : St) (n : List File) (s : St)
    (hr : asmFiles h e st = .ok (n, s)) (hn : n = []) : e = [] := by
  cases e with
  | nil => rfl
  | cons a t =>
    simp only [asmFiles] at hr
    repeat' split at hr
    all_goals simp_all

mutual
theorem asmSection_sim (h : Hooks) : ∀ (s1 s2 : Section) (st : St), simSection s1 s2 →
    RelE postSection (asmSection h s1 st) (asmSection h s2 st)
  | .mk i1 b1 e1, .mk i2 b2 e2, st, hs => by
    simp only [simSection] at hs
    obtain ⟨hk, he, hb⟩ := hs
    rw [asmSection_eq, asmSection_eq]
    have ih := asmNodes_sim h e1 e2 st he
    generalize hr1 : asmNodes h e1 st = r1 at ih ⊢
    generalize hr2 : asmNodes h e2 st = r2 at ih ⊢
    cases ih with
    | error => simp
    | ok hab =>
      rename_i p q
      obtain ⟨n1, s1⟩ := p
      obtain ⟨n2, s2⟩ := q
      obtain ⟨hpost, hst⟩ := hab
      simp only at hst hpost
      subst hst
      simp only []
      exact asmSectionTail_sim h i1 i2 b1 b2 n1 n2 s1 hk
        (fun hor => hb (hor.imp (fun hn => asmNodes_nil h e1 st n1 s1 hr1 hn) id)) hpost
theorem asmNodes_sim (h : Hooks) : ∀ (n1 n2 : List Node) (st : St), simNodes n1 n2 →
    RelE postNodes (asmNodes h n1 st) (asmNodes h n2 st)
  | [], [], st, _ => by simp [asmNodes, postNodes, simNodes]
  | [], _ :: _, _, hs => by simp [simNodes] at hs
  | .sec _ :: _, [], _, hs => by simp [simNodes] at hs
  | .fv _ :: _, [], _, hs => by simp [simNodes] at hs
  | .sec _ :: _, .fv _ :: _, _, hs => by simp [simNodes] at hs
  | .fv _ :: _, .sec _ :: _, _, hs => by simp [simNodes] at hs
  | .sec s1 :: t1, .sec s2 :: t2, st, hs => by
    simp only [simNodes] at hs
    obtain ⟨h1, h2⟩ := hs
    rw [asmNodes, asmNodes]
    have ih := asmSection_sim h s1 s2 st h1
    generalize asmSection h s1 st = r1 at ih ⊢
    generalize asmSection h s2 st = r2 at ih ⊢
    cases ih with
    | error => simp
    | ok hab =>
      rename_i p q
      obtain ⟨x1, st1⟩ := p
      obtain ⟨x2, st2⟩ := q
      obtain ⟨hpost, hst⟩ := hab
      simp only at hst hpost
      subst hst
      simp only []
      have ih2 := asmNodes_sim h t1 t2 st1 h2
      generalize asmNodes h t1 st1 = q1 at ih2 ⊢
      generalize asmNodes h t2 st1 = q2 at ih2 ⊢
      cases ih2 with
      | error => simp
      | ok hab2 =>
        rename_i p q
        obtain ⟨y1, u1⟩ := p
        obtain ⟨y2, u2⟩ := q
        obtain ⟨hpost2, hst2⟩ := hab2
        simp only at hst2 hpost2
        subst hst2
        simp [postNodes, simNodes, hpost.1, hpost2.1, hpost2.2, Node.buf, hpost.2]
  | .fv s1 :: t1, .fv s2 :: t2, st, hs => by
    simp only [simNodes] at hs
    obtain ⟨h1, h2⟩ := hs
    rw [asmNodes, asmNodes]
    have ih := asmFv_sim h s1 s2 st h1
    generalize asmFv h s1 st = r1 at ih ⊢
    generalize asmFv h s2 st = r2 at ih ⊢
    cases ih with
    | error => simp
    | ok hab =>
      rename_i p q
      obtain ⟨x1, st1⟩ := p
      obtain ⟨x2, st2⟩ := q
      obtain ⟨hpost, hst⟩ := hab
      simp only at hst hpost
      subst hst
      simp only []
      have ih2 := asmNodes_sim h t1 t2 st1 h2
      generalize asmNodes h t1 st1 = q1 at ih2 ⊢
      generalize asmNodes h t2 st1 = q2 at ih2 ⊢
      cases ih2 with
      | error => simp
      | ok hab2 =>
        rename_i p q
        obtain ⟨y1, u1⟩ := p
        obtain ⟨y2, u2⟩ := q
        obtain ⟨hpost2, hst2⟩ := hab2
        simp only at hst2 hpost2
        subst hst2
        simp [postNodes, simNodes, hpost.1, hpost2.1, hpost2.2, Node.buf, hpost.2]
theorem asmSections_sim (h : Hooks) : ∀ (n1 n2 : List Section) (st : St), simSections n1 n2 →
    RelE postSections (asmSections h n1 st) (asmSections h n2 st)
  | [], [], st, _ => by simp [asmSections, postSections, simSections]
  | [], _ :: _, _, hs => by simp [simSections] at hs
  | _ :: _, [], _, hs => by simp [simSections] at hs
  | s1 :: t1, s2 :: t2, st, hs => by
    simp only [simSections] at hs
    obtain ⟨h1, h2⟩ := hs
    rw [asmSections, asmSections]
    have ih := asmSection_sim h s1 s2 st h1
    generalize asmSection h s1 st = r1 at ih ⊢
    generalize asmSection h s2 st = r2 at ih ⊢
    cases ih with
    | error => simp
    | ok hab =>
      rename_i p q
      obtain ⟨x1, st1⟩ := p
      obtain ⟨x2, st2⟩ := q
      obtain ⟨hpost, hst⟩ := hab
      simp only at hst hpost
      subst hst
      simp only []
      have ih2 := asmSections_sim h t1 t2 st1 h2
      generalize asmSections h t1 st1 = q1 at ih2 ⊢
      generalize asmSections h t2 st1 = q2 at ih2 ⊢
      cases ih2 with
      | error => simp
      | ok hab2 =>
        rename_i p q
        obtain ⟨y1, u1⟩ := p
        obtain ⟨y2, u2⟩ := q
        obtain ⟨hpost2, hst2⟩ := hab2
        simp only at hst2 hpost2
        subst hst2
        simp [postSections, simSections, hpost.1, hpost2.1, hpost2.2, hpost.2]
theorem asmFile_sim (h : Hooks) : ∀ (f1 f2 : File) (st : St), simFile f1 f2 →
    RelE postFile (asmFile h f1 st) (asmFile h f2 st)
  | .mk i1 b1 s1, .mk i2 b2 s2, st, hs => by
    simp only [simFile] at hs
    obtain ⟨hk, hg, himp⟩ := hs
    have hnveq : i1.nvar = i2.nvar := by
      have := congrArg FileInfo.nvar hk
      simpa only [fileKey] using this
    cases hnvc : i1.nvar with
    | some nv => exact asmFile_nvar_sim h i1 i2 b1 b2 s1 s2 st nv hk hg hnvc
    | none =>
    have hnv : i1.nvar = none := hnvc
    obtain ⟨hsec, hb⟩ := himp hnv
    have hnv2 : i2.nvar = none := by
      rw [← hnveq]; exact hnv
    rw [asmFile_eq h i1 b1 s1 st hnv, asmFile_eq h i2 b2 s2 st hnv2]
    have ih := asmSections_sim h s1 s2 st hsec
    generalize hr1 : asmSections h s1 st = r1 at ih ⊢
    generalize hr2 : asmSections h s2 st = r2 at ih ⊢
    cases ih with
    | error => simp
    | ok hab =>
      rename_i p q
      obtain ⟨n1, u1⟩ := p
      obtain ⟨n2, u2⟩ := q
      obtain ⟨hpost, hst⟩ := hab
      simp only at hst hpost
      subst hst
      have := asmFileTail_sim i1 i2 b1 b2 n1 n2 u1 hk hnv hg
        (fun hn => hb (asmSections_nil h s1 st n1 u1 hr1 hn)) hpost
      simpa using this
theorem asmFiles_sim (h : Hooks) : ∀ (n1 n2 : List File) (st : St), simFiles n1 n2 →
    RelE postFiles (asmFiles h n1 st) (asmFiles h n2 st)
  | [], [], st, _ => by simp [asmFiles, postFiles, simFiles]
  | [], _ :: _, _, hs => by simp [simFiles] at hs
  | _ :: _, [], _, hs => by simp [simFiles] at hs
  | s1 :: t1, s2 :: t2, st, hs => by
    simp only [simFiles] at hs
    obtain ⟨h1, h2⟩ := hs
    rw [asmFiles, asmFiles]
    have ih := asmFile_sim h s1 s2 st h1
    generalize asmFile h s1 st = r1 at ih ⊢
    generalize asmFile h s2 st = r2 at ih ⊢
    cases ih with
    | error => simp
    | ok hab =>
      rename_i p q
      obtain ⟨x1, st1⟩ := p
      obtain ⟨x2, st2⟩ := q
      obtain ⟨hpost, hst⟩ := hab
      simp only at hst hpost
      subst hst
      simp only []
      have ih2 := asmFiles_sim h t1 t2 st1 h2
      generalize asmFiles h t1 st1 = q1 at ih2 ⊢
      generalize asmFiles h t2 st1 = q2 at ih2 ⊢
      cases ih2 with
      | error => simp
      | ok hab2 =>
        rename_i p q
        obtain ⟨y1, u1⟩ := p
        obtain ⟨y2, u2⟩ := q
        obtain ⟨hpost2, hst2⟩ := hab2
        simp only at hst2 hpost2
        subst hst2
        have hattrs : x1.info.attrs = x2.info.attrs := by
          obtain ⟨j1, c1, l1⟩ := x1
          obtain ⟨j2, c2, l2⟩ := x2
          have hsf := hpost.1
          simp only [simFile] at hsf
          have := congrArg FileInfo.attrs hsf.1
          simpa [fileKey, File.info] using this
        simp [postFiles, simFiles, hpost.1, hpost2.1, hpost2.2, hpost.2, hattrs]
theorem asmFv_sim (h : Hooks) : ∀ (v1 v2 : Fv) (st : St), simFv v1 v2 →
    RelE postFv (asmFv h v1 st) (asmFv h v2 st)
  | .mk i1 b1 f1, .mk i2 b2 f2, st, hs => by
    simp only [simFv] at hs
    obtain ⟨hk, hf, hb, hh⟩ := hs
    have hat : i1.attrs = i2.attrs := by simpa [sumFvInfo] using congrArg FvInfo.attrs hk
    rw [asmFv_eq, asmFv_eq, hat]
    cases setPolarity (polOfAttrs i2.attrs) st with
    | error e => simp
    | ok st1 =>
      simp only []
      have ih := asmFiles_sim h f1 f2 st1 hf
      generalize hr1 : asmFiles h f1 st1 = r1 at ih ⊢
      generalize hr2 : asmFiles h f2 st1 = r2 at ih ⊢
      cases ih with
      | error => simp
      | ok hab =>
        rename_i p q
        obtain ⟨n1, u1⟩ := p
        obtain ⟨n2, u2⟩ := q
        obtain ⟨hpost, hst⟩ := hab
        simp only at hst hpost
        subst hst
        simp only []
        refine asmFvTail_sim i1 i2 b1 b2 n1 n2 u1 hk (fun hn => hb (asmFiles_nil h f1 st1 n1 u1 hr1 hn)) (fun hne => hh ?_) hpost
        intro hf1
        subst hf1
        simp [asmFiles] at hr1
        exact hne hr1.1
end

/-! ### trees `extract` / `ParseDir` are faithful on -/

mutual
/-- what the round trip needs of a tree (every parsed tree without NVAR store has it): a section
    with children is rebuilt from them, GUIDs are 16 bytes, no NVAR store, a volume with files has a
    buffer no longer than its `Length` -/
def okSection : Section → Bool
  | .mk i _ e => okNodes e && (e.isEmpty || !keepsBuf i)
def okNodes : List Node → Bool
  | [] => true
  | .sec s :: ns => okSection s && okNodes ns
  | .fv v :: ns => okFv v && okNodes ns
def okSections : List Section → Bool
  | [] => true
  | s :: ss => okSection s && okSections ss
def okFile : File → Bool
  | .mk i _ s => i.nvar.isNone && i.guid.length == 16 && okSections s
def okFiles : List File → Bool
  | [] => true
  | f :: fs => okFile f && okFiles fs
def okFv : Fv → Bool
  | .mk i b f => okFiles f && (f.isEmpty || (decide (b.length ≤ i.length) && decide (i.dataOffset ≤ b.length)))
end

mutual
theorem stSection_sim (junk : FileInfo → Nat) : ∀ s : Section, okSection s = true → simSection (stSection junk s) s
  | .mk i buf [], _ => by simp [stSection, simSection, simNodes, sumSecInfo]
  | .mk i buf (a :: t), hok => by
    simp only [okSection, Bool.and_eq_true, List.isEmpty_cons, Bool.false_or, Bool.not_eq_true'] at hok
    have ih := stNodes_sim junk (a :: t) hok.1
    have hk : keepsBuf (sumSecInfo i) = false := by rw [← hok.2]; rfl
    simp only [stSection, simSection]
    refine ⟨by simp [sumSecInfo], ih, fun hor => ?_⟩
    rcases hor with hnil | hkb
    · cases a <;> simp [stNodes] at hnil
    · rw [hk] at hkb; cases hkb
theorem stNodes_sim (junk : FileInfo → Nat) : ∀ n : List Node, okNodes n = true → simNodes (stNodes junk n) n
  | [], _ => by simp [stNodes, simNodes]
  | .sec s :: t, hok => by
    simp only [okNodes, Bool.and_eq_true] at hok
    simp [stNodes, simNodes, stSection_sim junk s hok.1, stNodes_sim junk t hok.2]
  | .fv v :: t, hok => by
    simp only [okNodes, Bool.and_eq_true] at hok
    simp [stNodes, simNodes, stFv_sim junk v hok.1, stNodes_sim junk t hok.2]
theorem stSections_sim (junk : FileInfo → Nat) : ∀ n : List Section, okSections n = true → simSections (stSections junk n) n
  | [], _ => by simp [stSections, simSections]
  | s :: t, hok => by
    simp only [okSections, Bool.and_eq_true] at hok
    simp [stSections, simSections, stSection_sim junk s hok.1, stSections_sim junk t hok.2]
theorem stFile_sim (junk : FileInfo → Nat) : ∀ f : File, okFile f = true → simFile (stFile junk f) f
  | .mk i buf s, hok => by
    simp only [okFile, Bool.and_eq_true, Option.isNone_iff_eq_none, beq_iff_eq] at hok
    obtain ⟨⟨hnv, hg⟩, hs⟩ := hok
    have ih := stSections_sim junk s hs
    cases s with
    | nil => simp [stFile, hnv, simFile, fileKey, loadFileInfo, sumFileInfo, hg, simSections]
    | cons a t =>
      simp only [stSections] at ih
      simp [stFile, hnv, simFile, fileKey, loadFileInfo, sumFileInfo, hg, ih, stSections]
theorem stFiles_sim (junk : FileInfo → Nat) : ∀ n : List File, okFiles n = true → simFiles (stFiles junk n) n
  | [], _ => by simp [stFiles, simFiles]
  | s :: t, hok => by
    simp only [okFiles, Bool.and_eq_true] at hok
    simp [stFiles, simFiles, stFile_sim junk s hok.1, stFiles_sim junk t hok.2]
theorem stFv_sim (junk : FileInfo → Nat) : ∀ v : Fv, okFv v = true → simFv (stFv junk v) v
  | .mk i buf [], _ => by simp [stFv, simFv, simFiles, sumFvInfo]
  | .mk i buf (a :: t), hok => by
    simp only [okFv, Bool.and_eq_true, List.isEmpty_cons, Bool.false_or, decide_eq_true_eq] at hok
    have ih := stFiles_sim junk (a :: t) hok.1
    have hl := hok.2.1
    simp only [stFv, simFv, ih, true_and]
    refine ⟨by simp [sumFvInfo], by simp [stFiles], fun _ => ?_⟩
    simp only [fvHead, sumFvInfo, List.length_take, List.take_take, Nat.min_self, Prod.mk.injEq, decide_eq_decide, and_true]
    omega
end

/-! ### BIOS region -/

def simBiosElems : List BiosElem → List BiosElem → Prop
  | [], [] => True
  | .pad b1 o1 :: r1, .pad b2 o2 :: r2 => b1 = b2 ∧ o1 = o2 ∧ simBiosElems r1 r2
  | .fv v1 :: r1, .fv v2 :: r2 => simFv v1 v2 ∧ simBiosElems r1 r2
  | _, _ => False

def postBiosElems (e1 e2 : List BiosElem) : Prop :=
  simBiosElems e1 e2 ∧ e1.map BiosElem.buf = e2.map BiosElem.buf

theorem asmBiosElems_sim (h : Hooks) : ∀ (e1 e2 : List BiosElem) (st : St), simBiosElems e1 e2 →
    RelE postBiosElems (asmBiosElems h e1 st) (asmBiosElems h e2 st)
  | [], [], st, _ => by simp [asmBiosElems, postBiosElems, simBiosElems]
  | [], _ :: _, _, hs => by simp [simBiosElems] at hs
  | .pad _ _ :: _, [], _, hs => by simp [simBiosElems] at hs
  | .fv _ :: _, [], _, hs => by simp [simBiosElems] at hs
  | .pad _ _ :: _, .fv _ :: _, _, hs => by simp [simBiosElems] at hs
  | .fv _ :: _, .pad _ _ :: _, _, hs => by simp [simBiosElems] at hs
  | .pad b1 o1 :: t1, .pad b2 o2 :: t2, st, hs => by
    simp only [simBiosElems] at hs
    obtain ⟨rfl, rfl, h2⟩ := hs
    rw [asmBiosElems, asmBiosElems]
    have ih2 := asmBiosElems_sim h t1 t2 st h2
    generalize asmBiosElems h t1 st = q1 at ih2 ⊢
    generalize asmBiosElems h t2 st = q2 at ih2 ⊢
    cases ih2 with
    | error => simp
    | ok hab2 =>
      rename_i p q
      obtain ⟨y1, u1⟩ := p
      obtain ⟨y2, u2⟩ := q
      obtain ⟨hpost2, hst2⟩ := hab2
      simp only at hst2 hpost2
      subst hst2
      simp [postBiosElems, simBiosElems, hpost2.1, hpost2.2]
  | .fv v1 :: t1, .fv v2 :: t2, st, hs => by
    simp only [simBiosElems] at hs
    obtain ⟨h1, h2⟩ := hs
    rw [asmBiosElems, asmBiosElems]
    have ih := asmFv_sim h v1 v2 st h1
    generalize asmFv h v1 st = r1 at ih ⊢
    generalize asmFv h v2 st = r2 at ih ⊢
    cases ih with
    | error => simp
    | ok hab =>
      rename_i p q
      obtain ⟨x1, st1⟩ := p
      obtain ⟨x2, st2⟩ := q
      obtain ⟨hpost, hst⟩ := hab
      simp only at hst hpost
      subst hst
      simp only []
      have ih2 := asmBiosElems_sim h t1 t2 st1 h2
      generalize asmBiosElems h t1 st1 = q1 at ih2 ⊢
      generalize asmBiosElems h t2 st1 = q2 at ih2 ⊢
      cases ih2 with
      | error => simp
      | ok hab2 =>
        rename_i p q
        obtain ⟨y1, u1⟩ := p
        obtain ⟨y2, u2⟩ := q
        obtain ⟨hpost2, hst2⟩ := hab2
        simp only at hst2 hpost2
        subst hst2
        simp [postBiosElems, simBiosElems, hpost.1, hpost2.1, hpost2.2, BiosElem.buf, hpost.2]

theorem firstFv_sim : ∀ (e1 e2 : List BiosElem), simBiosElems e1 e2 →
    (firstFv e1).map (fun v => v.info.attrs) = (firstFv e2).map (fun v => v.info.attrs)
  | [], [], _ => rfl
  | [], _ :: _, hs => by simp [simBiosElems] at hs
  | .pad _ _ :: _, [], hs => by simp [simBiosElems] at hs
  | .fv _ :: _, [], hs => by simp [simBiosElems] at hs
  | .pad _ _ :: _, .fv _ :: _, hs => by simp [simBiosElems] at hs
  | .fv _ :: _, .pad _ _ :: _, hs => by simp [simBiosElems] at hs
  | .pad _ _ :: t1, .pad _ _ :: t2, hs => by
    simp only [simBiosElems] at hs
    simpa [firstFv] using firstFv_sim t1 t2 hs.2.2
  | .fv (.mk i1 _ _) :: _, .fv (.mk i2 _ _) :: _, hs => by
    simp only [simBiosElems, simFv] at hs
    have := congrArg FvInfo.attrs hs.1.1
    simpa [firstFv, Fv.info, sumFvInfo] using this

def simBios (a b : BiosRegion) : Prop := simBiosElems a.elems b.elems ∧ a.length = b.length ∧ a.fr = b.fr
def postBios (a b : BiosRegion) : Prop := simBios a b ∧ a.buf = b.buf

theorem asmBios_sim (h : Hooks) (a b : BiosRegion) (st : St) (hs : simBios a b) :
    RelE postBios (asmBios h a st) (asmBios h b st) := by
  obtain ⟨he, hl, hfr⟩ := hs
  unfold asmBios
  have ih := asmBiosElems_sim h a.elems b.elems st he
  generalize asmBiosElems h a.elems st = r1 at ih ⊢
  generalize asmBiosElems h b.elems st = r2 at ih ⊢
  cases ih with
  | error => simp
  | ok hab =>
    rename_i p q
    obtain ⟨y1, u1⟩ := p
    obtain ⟨y2, u2⟩ := q
    obtain ⟨hpost, hst⟩ := hab
    simp only at hst hpost
    subst hst
    simp only []
    have hf := firstFv_sim y1 y2 hpost.1
    cases f1 : firstFv y1 with
    | none =>
      cases f2 : firstFv y2 with
      | none => simp
      | some v2 => simp [f1, f2] at hf
    | some v1 =>
      cases f2 : firstFv y2 with
      | none => simp [f1, f2] at hf
      | some v2 =>
        simp only [f1, f2, Option.map_some, Option.some.injEq] at hf
        simp only [hf]
        cases setPolarity (polOfAttrs v2.info.attrs) u1 with
        | error e => simp
        | ok st2 =>
          simp only [hpost.2, hl]
          split
          · simp
          · simp [postBios, simBios, hpost.1, hl, hfr]

/-! ### the tree `ParseDir` builds agrees with the extracted tree: BIOS region -/

def okBiosElems : List BiosElem → Bool
  | [] => true
  | .pad _ _ :: es => okBiosElems es
  | .fv v :: es => okFv v && okBiosElems es

theorem stBiosElems_sim (junk : FileInfo → Nat) : ∀ es : List BiosElem, okBiosElems es = true →
    simBiosElems (stBiosElems junk es) es
  | [], _ => by simp [stBiosElems, simBiosElems]
  | .pad b o :: t, hok => by
    simp only [okBiosElems] at hok
    simp [stBiosElems, simBiosElems, stBiosElems_sim junk t hok]
  | .fv v :: t, hok => by
    simp only [okBiosElems, Bool.and_eq_true] at hok
    simp [stBiosElems, simBiosElems, stFv_sim junk v hok.1, stBiosElems_sim junk t hok.2]

theorem stBios_sim (junk : FileInfo → Nat) (b : BiosRegion) (hok : okBiosElems b.elems = true) :
    simBios (stBios junk b) b := by
  obtain ⟨elems, buf, length, fr⟩ := b
  cases elems with
  | nil => simp [stBios, simBios, simBiosElems]
  | cons a t =>
    have := stBiosElems_sim junk (a :: t) hok
    simp only [stBios, simBios]
    exact ⟨this, trivial, trivial⟩

/-! ### regions and the flash image -/

def simRegion : Region → Region → Prop
  | .bios a, .bios b => simBios a b
  | .me b1 f1, .me b2 f2 => b1 = b2 ∧ f1 = f2
  | .raw b1 f1 t1, .raw b2 f2 t2 => b1 = b2 ∧ f1 = f2 ∧ t1 = t2
  | _, _ => False

def postRegion : Region → Region → Prop
  | .bios a, .bios b => postBios a b
  | .me b1 f1, .me b2 f2 => b1 = b2 ∧ f1 = f2
  | .raw b1 f1 t1, .raw b2 f2 t2 => b1 = b2 ∧ f1 = f2 ∧ t1 = t2
  | _, _ => False

theorem postRegion_sim {r1 r2 : Region} (h : postRegion r1 r2) : simRegion r1 r2 := by
  cases r1 <;> cases r2 <;> simp_all [postRegion, simRegion, postBios]

theorem postRegion_view {r1 r2 : Region} (h : postRegion r1 r2) :
    r1.rtype = r2.rtype ∧ r1.fr = r2.fr ∧ r1.buf = r2.buf := by
  cases r1 <;> cases r2 <;> simp_all [postRegion, Region.rtype, Region.fr, Region.buf, postBios, simBios]

def simRegions : List Region → List Region → Prop
  | [], [] => True
  | a :: t1, b :: t2 => simRegion a b ∧ simRegions t1 t2
  | _, _ => False

def postRegions : List Region → List Region → Prop
  | [], [] => True
  | a :: t1, b :: t2 => postRegion a b ∧ postRegions t1 t2
  | _, _ => False

theorem asmRegions_tail_sim (h : Hooks) (a b : Region) (t1 t2 : List Region) (st : St) (hab : postRegion a b)
    (ih2 : RelE postRegions (asmRegions h t1 st) (asmRegions h t2 st)) :
    RelE postRegions
      (match asmRegions h t1 st with
        | .error e => .error e
        | .ok (rs', st') => .ok (a :: rs', st'))
      (match asmRegions h t2 st with
        | .error e => .error e
        | .ok (rs', st') => .ok (b :: rs', st')) := by
  generalize asmRegions h t1 st = q1 at ih2 ⊢
  generalize asmRegions h t2 st = q2 at ih2 ⊢
  cases ih2 with
  | error => simp
  | ok hab2 =>
    rename_i p q
    obtain ⟨y1, u1⟩ := p
    obtain ⟨y2, u2⟩ := q
    obtain ⟨hpost2, hst2⟩ := hab2
    simp only at hst2 hpost2
    subst hst2
    simp [postRegions, hab, hpost2]

theorem asmRegions_sim (h : Hooks) : ∀ (r1 r2 : List Region) (st : St), simRegions r1 r2 →
    RelE postRegions (asmRegions h r1 st) (asmRegions h r2 st)
  | [], [], st, _ => by simp [asmRegions, postRegions]
  | [], _ :: _, _, hs => by simp [simRegions] at hs
  | _ :: _, [], _, hs => by simp [simRegions] at hs
  | .bios x :: t1, .bios y :: t2, st, hs => by
    simp only [simRegions, simRegion] at hs
    obtain ⟨hab, ht⟩ := hs
    rw [asmRegions, asmRegions]
    have ih := asmBios_sim h x y st hab
    generalize asmBios h x st = r1 at ih ⊢
    generalize asmBios h y st = r2 at ih ⊢
    cases ih with
    | error => simp
    | ok hab =>
      rename_i p q
      obtain ⟨x1, st1⟩ := p
      obtain ⟨x2, st2⟩ := q
      obtain ⟨hpost, hst⟩ := hab
      simp only at hst hpost
      subst hst
      simp only []
      exact asmRegions_tail_sim h (.bios x1) (.bios x2) t1 t2 st1 (by simpa [postRegion] using hpost)
        (asmRegions_sim h t1 t2 st1 ht)
  | .me b1 f1 :: t1, .me b2 f2 :: t2, st, hs => by
    simp only [simRegions, simRegion] at hs
    obtain ⟨⟨rfl, rfl⟩, ht⟩ := hs
    simp only [asmRegions]
    exact asmRegions_tail_sim h _ _ t1 t2 st (by simp [postRegion]) (asmRegions_sim h t1 t2 st ht)
  | .raw b1 f1 y1 :: t1, .raw b2 f2 y2 :: t2, st, hs => by
    simp only [simRegions, simRegion] at hs
    obtain ⟨⟨rfl, rfl, rfl⟩, ht⟩ := hs
    simp only [asmRegions]
    exact asmRegions_tail_sim h _ _ t1 t2 st (by simp [postRegion]) (asmRegions_sim h t1 t2 st ht)
  | .bios _ :: _, .me _ _ :: _, _, hs => by simp [simRegions, simRegion] at hs
  | .bios _ :: _, .raw _ _ _ :: _, _, hs => by simp [simRegions, simRegion] at hs
  | .me _ _ :: _, .bios _ :: _, _, hs => by simp [simRegions, simRegion] at hs
  | .me _ _ :: _, .raw _ _ _ :: _, _, hs => by simp [simRegions, simRegion] at hs
  | .raw _ _ _ :: _, .bios _ :: _, _, hs => by simp [simRegions, simRegion] at hs
  | .raw _ _ _ :: _, .me _ _ :: _, _, hs => by simp [simRegions, simRegion] at hs

theorem postRegion_setFr (f : FlashRegion) {r1 r2 : Region} (h : postRegion r1 r2) :
    postRegion (r1.setFr f) (r2.setFr f) := by
  cases r1 <;> cases r2 <;> simp_all [postRegion, Region.setFr, postBios, simBios]

theorem postRegion_repoint (tbl : List FlashRegion) (nr : Nat) {r1 r2 : Region} (h : postRegion r1 r2) :
    postRegion (repoint tbl nr r1) (repoint tbl nr r2) := by
  have hv := postRegion_view h
  unfold repoint
  simp only [hv.1]
  split
  · exact h
  · split
    · exact h
    · split
      · exact h
      · split
        · exact postRegion_setFr _ h
        · exact h

theorem postRegions_map_repoint (tbl : List FlashRegion) (nr : Nat) : ∀ (l1 l2 : List Region), postRegions l1 l2 →
    postRegions (l1.map (repoint tbl nr)) (l2.map (repoint tbl nr))
  | [], [], _ => by simp [postRegions]
  | [], _ :: _, h => by simp [postRegions] at h
  | _ :: _, [], h => by simp [postRegions] at h
  | a :: t1, b :: t2, h => by
    simp only [postRegions] at h
    simp [postRegions, postRegion_repoint tbl nr h.1, postRegions_map_repoint tbl nr t1 t2 h.2]

theorem postRegions_insert {r1 r2 : Region} (hr : postRegion r1 r2) : ∀ (l1 l2 : List Region), postRegions l1 l2 →
    postRegions (insertRegion r1 l1) (insertRegion r2 l2)
  | [], [], _ => by simp [insertRegion, postRegions, hr]
  | [], _ :: _, h => by simp [postRegions] at h
  | _ :: _, [], h => by simp [postRegions] at h
  | a :: t1, b :: t2, h => by
    simp only [postRegions] at h
    have hv := postRegion_view hr
    have hw := postRegion_view h.1
    simp only [insertRegion, hv.2.1, hw.2.1]
    split
    · simp [postRegions, hr, h.1, h.2]
    · simp [postRegions, h.1, postRegions_insert hr t1 t2 h.2]

theorem postRegions_sort : ∀ (l1 l2 : List Region), postRegions l1 l2 →
    postRegions (sortRegions l1) (sortRegions l2)
  | [], [], _ => by simp [sortRegions, postRegions]
  | [], _ :: _, h => by simp [postRegions] at h
  | _ :: _, [], h => by simp [postRegions] at h
  | a :: t1, b :: t2, h => by
    simp only [postRegions] at h
    simp only [sortRegions, List.foldr_cons]
    exact postRegions_insert h.1 _ _ (postRegions_sort t1 t2 h.2)

theorem tileRegions_post : ∀ (l1 l2 : List Region) (off : Nat) (acc : Bytes), postRegions l1 l2 →
    tileRegions l1 off acc = tileRegions l2 off acc
  | [], [], _, _, _ => rfl
  | [], _ :: _, _, _, h => by simp [postRegions] at h
  | _ :: _, [], _, _, h => by simp [postRegions] at h
  | a :: t1, b :: t2, off, acc, h => by
    simp only [postRegions] at h
    have hv := postRegion_view h.1
    simp only [tileRegions, hv.2.1, hv.2.2]
    cases b.fr with
    | none => rfl
    | some fr =>
      simp only []
      split
      · rfl
      · split
        · rfl
        · exact tileRegions_post t1 t2 _ _ h.2

theorem postRegions_sim : ∀ (l1 l2 : List Region), postRegions l1 l2 → simRegions l1 l2
  | [], [], _ => by simp [simRegions]
  | [], _ :: _, h => by simp [postRegions] at h
  | _ :: _, [], h => by simp [postRegions] at h
  | a :: t1, b :: t2, h => by
    simp only [postRegions] at h
    simp [simRegions, postRegion_sim h.1, postRegions_sim t1 t2 h.2]

def simFlash (a b : Flash) : Prop := a.ifd = b.ifd ∧ simRegions a.regions b.regions ∧ a.flashSize = b.flashSize
def postFlash (a b : Flash) : Prop := simFlash a b ∧ a.buf = b.buf

theorem asmFlash_sim (h : Hooks) (a b : Flash) (st : St) (hs : simFlash a b) :
    RelE postFlash (asmFlash h a st) (asmFlash h b st) := by
  obtain ⟨hifd, hr, hsz⟩ := hs
  unfold asmFlash
  rw [hifd]
  cases asmDescriptor b.ifd with
  | error e => simp
  | ok ifd =>
    simp only []
    have ih := asmRegions_sim h a.regions b.regions st hr
    generalize asmRegions h a.regions st = r1 at ih ⊢
    generalize asmRegions h b.regions st = r2 at ih ⊢
    cases ih with
    | error => simp
    | ok hab =>
      rename_i p q
      obtain ⟨y1, u1⟩ := p
      obtain ⟨y2, u2⟩ := q
      obtain ⟨hpost, hst⟩ := hab
      simp only at hst hpost
      subst hst
      simp only []
      cases ifd.region.regions with
      | nil => simp
      | cons bios rest =>
        simp only []
        split
        · simp
        · have hsorted := postRegions_sort _ _ (postRegions_map_repoint (bios :: rest) ifd.map.numberOfRegions y1 y2 hpost)
          rw [tileRegions_post _ _ 4096 ifd.buf hsorted]
          cases tileRegions (sortRegions (List.map (repoint (bios :: rest) ifd.map.numberOfRegions) y2)) 4096 ifd.buf with
          | error e => simp
          | ok r =>
            obtain ⟨buf, off⟩ := r
            simp only [hsz]
            split
            · simp
            · simp [postFlash, simFlash, postRegions_sim _ _ hsorted, hsz]

/-! ### the whole tree -/

def simTree : Tree → Tree → Prop
  | .flash a, .flash b => simFlash a b
  | .bios a, .bios b => simBios a b
  | _, _ => False

def postTree (a b : Tree) : Prop := simTree a b ∧ a.buf = b.buf

theorem asmTreeWith_sim (h : Hooks) (t1 t2 : Tree) (st : St) (hs : simTree t1 t2) :
    RelE postTree (asmTreeWith h t1 st) (asmTreeWith h t2 st) := by
  cases t1 with
  | flash a =>
    cases t2 with
    | bios b => simp [simTree] at hs
    | flash b =>
      simp only [simTree] at hs
      simp only [asmTreeWith]
      have ih := asmFlash_sim h a b st hs
      generalize asmFlash h a st = r1 at ih ⊢
      generalize asmFlash h b st = r2 at ih ⊢
      cases ih with
      | error => simp
      | ok hab =>
        rename_i p q
        obtain ⟨x1, st1⟩ := p
        obtain ⟨x2, st2⟩ := q
        obtain ⟨hpost, hst⟩ := hab
        simp only at hst hpost
        subst hst
        simpa [postTree, simTree, Tree.buf, postFlash] using hpost
  | bios a =>
    cases t2 with
    | flash b => simp [simTree] at hs
    | bios b =>
      simp only [simTree] at hs
      simp only [asmTreeWith]
      have ih := asmBios_sim h a b st hs
      generalize asmBios h a st = r1 at ih ⊢
      generalize asmBios h b st = r2 at ih ⊢
      cases ih with
      | error => simp
      | ok hab =>
        rename_i p q
        obtain ⟨x1, st1⟩ := p
        obtain ⟨x2, st2⟩ := q
        obtain ⟨hpost, hst⟩ := hab
        simp only at hst hpost
        subst hst
        simpa [postTree, simTree, Tree.buf, postBios] using hpost

/-- two `Assemble` passes give the same bytes on two trees that agree on what `Assemble` reads -/
theorem asmTwice_sim (h : Hooks) (t1 t2 : Tree) (st : St) (hs : simTree t1 t2) :
    asmTwice h t1 st = asmTwice h t2 st := by
  unfold asmTwice
  have ih := asmTreeWith_sim h t1 t2 { st with ffs3 := false } hs
  generalize asmTreeWith h t1 { st with ffs3 := false } = r1 at ih ⊢
  generalize asmTreeWith h t2 { st with ffs3 := false } = r2 at ih ⊢
  cases ih with
  | error => rfl
  | ok hab =>
    rename_i p q
    obtain ⟨x1, st1⟩ := p
    obtain ⟨x2, st2⟩ := q
    obtain ⟨hpost, hst⟩ := hab
    simp only at hst hpost
    subst hst
    simp only []
    have ih2 := asmTreeWith_sim h x1 x2 { st1 with ffs3 := false } hpost.1
    generalize asmTreeWith h x1 { st1 with ffs3 := false } = q1 at ih2 ⊢
    generalize asmTreeWith h x2 { st1 with ffs3 := false } = q2 at ih2 ⊢
    cases ih2 with
    | error => rfl
    | ok hab2 =>
      rename_i p q
      obtain ⟨hpost2, -⟩ := hab2
      simp [hpost2.2]

/-- one `Assemble` pass likewise -/
theorem asmWith_sim (h : Hooks) (t1 t2 : Tree) (st : St) (hs : simTree t1 t2) :
    asmWith h t1 st = asmWith h t2 st := by
  unfold asmWith
  have ih := asmTreeWith_sim h t1 t2 { st with ffs3 := false } hs
  generalize asmTreeWith h t1 { st with ffs3 := false } = r1 at ih ⊢
  generalize asmTreeWith h t2 { st with ffs3 := false } = r2 at ih ⊢
  cases ih with
  | error => rfl
  | ok hab =>
    obtain ⟨hpost, -⟩ := hab
    simp [hpost.2]

def okRegions : List Region → Bool
  | [] => true
  | .bios b :: rs => okBiosElems b.elems && okRegions rs
  | _ :: rs => okRegions rs

/-- what the round trip needs of a tree (see `okSection`) -/
def okTree : Tree → Bool
  | .flash f => okRegions f.regions
  | .bios b => okBiosElems b.elems

theorem stRegions_sim (junk : FileInfo → Nat) : ∀ rs : List Region, okRegions rs = true →
    simRegions (stRegions junk rs) rs
  | [], _ => by simp [stRegions, simRegions]
  | .bios b :: t, hok => by
    simp only [okRegions, Bool.and_eq_true] at hok
    simp [stRegions, simRegions, simRegion, stBios_sim junk b hok.1, stRegions_sim junk t hok.2]
  | .me b f :: t, hok => by
    simp only [okRegions] at hok
    simp [stRegions, simRegions, simRegion, stRegions_sim junk t hok]
  | .raw b f y :: t, hok => by
    simp only [okRegions] at hok
    simp [stRegions, simRegions, simRegion, stRegions_sim junk t hok]

/-- the tree `ParseDir` builds from an extraction agrees with the extracted tree on everything
    `Assemble` reads -/
theorem strip_sim (junk : FileInfo → Nat) (t : Tree) (hok : okTree t = true) : simTree (strip junk t) t := by
  cases t with
  | flash f =>
    simp only [okTree] at hok
    simp [strip, simTree, simFlash, stRegions_sim junk f.regions hok]
  | bios b =>
    simp only [okTree] at hok
    simp [strip, simTree, stBios_sim junk b hok]

/-! ### `Extract` does not fault on such a tree -/

mutual
theorem exFaultSection_ok : ∀ s : Section, okSection s = true → exFaultSection s = false
  | .mk i b e, h => by
    simp only [okSection, Bool.and_eq_true] at h
    simpa [exFaultSection] using exFaultNodes_ok e h.1
theorem exFaultNodes_ok : ∀ n : List Node, okNodes n = true → exFaultNodes n = false
  | [], _ => rfl
  | .sec s :: t, h => by
    simp only [okNodes, Bool.and_eq_true] at h
    simp [exFaultNodes, exFaultSection_ok s h.1, exFaultNodes_ok t h.2]
  | .fv v :: t, h => by
    simp only [okNodes, Bool.and_eq_true] at h
    simp [exFaultNodes, exFaultFv_ok v h.1, exFaultNodes_ok t h.2]
theorem exFaultSections_ok : ∀ n : List Section, okSections n = true → exFaultSections n = false
  | [], _ => rfl
  | s :: t, h => by
    simp only [okSections, Bool.and_eq_true] at h
    simp [exFaultSections, exFaultSection_ok s h.1, exFaultSections_ok t h.2]
theorem exFaultFile_ok : ∀ f : File, okFile f = true → exFaultFile f = false
  | .mk i b s, h => by
    simp only [okFile, Bool.and_eq_true, Option.isNone_iff_eq_none] at h
    simp [exFaultFile, h.1.1, exFaultSections_ok s h.2]
theorem exFaultFiles_ok : ∀ n : List File, okFiles n = true → exFaultFiles n = false
  | [], _ => rfl
  | s :: t, h => by
    simp only [okFiles, Bool.and_eq_true] at h
    simp [exFaultFiles, exFaultFile_ok s h.1, exFaultFiles_ok t h.2]
theorem exFaultFv_ok : ∀ v : Fv, okFv v = true → exFaultFv v = false
  | .mk i b [], _ => by simp [exFaultFv]
  | .mk i b (a :: t), h => by
    simp only [okFv, Bool.and_eq_true, List.isEmpty_cons, Bool.false_or, decide_eq_true_eq] at h
    have := exFaultFiles_ok (a :: t) h.1
    simp only [exFaultFv, this, Bool.or_false, decide_eq_false_iff_not]
    omega
end

theorem exFaultBiosElems_ok : ∀ es : List BiosElem, okBiosElems es = true → exFaultBiosElems es = false
  | [], _ => rfl
  | .pad _ _ :: t, h => by
    simp only [okBiosElems] at h
    simp [exFaultBiosElems, exFaultBiosElems_ok t h]
  | .fv v :: t, h => by
    simp only [okBiosElems, Bool.and_eq_true] at h
    simp [exFaultBiosElems, exFaultFv_ok v h.1, exFaultBiosElems_ok t h.2]

theorem exFaultRegions_ok : ∀ rs : List Region, okRegions rs = true → exFaultRegions rs = false
  | [], _ => rfl
  | .bios b :: t, h => by
    simp only [okRegions, Bool.and_eq_true] at h
    simp [exFaultRegions, exFaultBiosElems_ok b.elems h.1, exFaultRegions_ok t h.2]
  | .me _ _ :: t, h => by
    simp only [okRegions] at h
    simp [exFaultRegions, exFaultRegions_ok t h]
  | .raw _ _ _ :: t, h => by
    simp only [okRegions] at h
    simp [exFaultRegions, exFaultRegions_ok t h]

theorem exFault_ok (t : Tree) (hok : okTree t = true) : exFault t = false := by
  cases t with
  | flash f => exact exFaultRegions_ok f.regions hok
  | bios b => exact exFaultBiosElems_ok b.elems hok

/-! ### the erase polarity of a fresh process -/

theorem polOfAttrs_cases (a : Nat) : polOfAttrs a = 0xFF ∨ polOfAttrs a = 0 := by
  unfold polOfAttrs; split <;> simp

theorem setPolarity_fresh (a : Nat) (f : Bool) :
    setPolarity (polOfAttrs a) { pol := 0xF0, ffs3 := f } = .ok { pol := polOfAttrs a, ffs3 := f } := by
  rcases polOfAttrs_cases a with h | h <;> simp [setPolarity, h]

theorem setPolarity_same (a : Nat) (f : Bool) :
    setPolarity (polOfAttrs a) { pol := polOfAttrs a, ffs3 := f } = .ok { pol := polOfAttrs a, ffs3 := f } := by
  rcases polOfAttrs_cases a with h | h <;> simp [setPolarity, h]

/-- a volume is assembled in the same way whether or not the process already knows its polarity -/
theorem asmFv_pol (h : Hooks) (v : Fv) (f : Bool) :
    asmFv h v { pol := 0xF0, ffs3 := f } = asmFv h v { pol := polOfAttrs v.info.attrs, ffs3 := f } := by
  obtain ⟨i, b, fs⟩ := v
  rw [asmFv_eq, asmFv_eq]
  simp only [Fv.info, setPolarity_fresh, setPolarity_same]

def topPolElems (p : UInt8) : List BiosElem → Bool
  | [] => true
  | .pad _ _ :: es => topPolElems p es
  | .fv v :: es => (polOfAttrs v.info.attrs == p) && topPolElems p es

theorem asmBiosElems_pol (h : Hooks) (p : UInt8) : ∀ (es : List BiosElem), topPolElems p es = true →
    asmBiosElems h es { pol := 0xF0, ffs3 := false } = asmBiosElems h es { pol := p, ffs3 := false } ∨
      (firstFv es = none ∧ asmBiosElems h es { pol := 0xF0, ffs3 := false } = .ok (es, { pol := 0xF0, ffs3 := false }) ∧
        asmBiosElems h es { pol := p, ffs3 := false } = .ok (es, { pol := p, ffs3 := false }))
  | [], _ => Or.inr ⟨rfl, rfl, rfl⟩
  | .pad b o :: t, hp => by
    simp only [topPolElems] at hp
    rcases asmBiosElems_pol h p t hp with ih | ⟨h1, h2, h3⟩
    · left; simp only [asmBiosElems, ih]
    · right; simp [asmBiosElems, firstFv, h1, h2, h3]
  | .fv v :: t, hp => by
    simp only [topPolElems, Bool.and_eq_true, beq_iff_eq] at hp
    left
    simp only [asmBiosElems]
    rw [asmFv_pol, hp.1]

theorem asmBios_pol (h : Hooks) (p : UInt8) (b : BiosRegion) (hp : topPolElems p b.elems = true) :
    asmBios h b { pol := 0xF0, ffs3 := false } = asmBios h b { pol := p, ffs3 := false } := by
  unfold asmBios
  rcases asmBiosElems_pol h p b.elems hp with ih | ⟨h1, h2, h3⟩
  · rw [ih]
  · simp [h2, h3, h1]

def hasBios : List Region → Bool
  | [] => false
  | .bios _ :: _ => true
  | _ :: rs => hasBios rs

def topPolRegions (p : UInt8) : List Region → Bool
  | [] => true
  | .bios b :: rs => topPolElems p b.elems && topPolRegions p rs
  | _ :: rs => topPolRegions p rs

/-- every top-level volume has erase polarity `p`, and (flash image) there is a BIOS region -/
def TopPol (p : UInt8) : Tree → Bool
  | .flash f => hasBios f.regions && topPolRegions p f.regions
  | .bios b => topPolElems p b.elems

theorem asmRegions_pol (h : Hooks) (p : UInt8) : ∀ (rs : List Region), hasBios rs = true → topPolRegions p rs = true →
    asmRegions h rs { pol := 0xF0, ffs3 := false } = asmRegions h rs { pol := p, ffs3 := false }
  | [], hb, _ => by simp [hasBios] at hb
  | .bios b :: t, _, hp => by
    simp only [topPolRegions, Bool.and_eq_true] at hp
    simp only [asmRegions]
    rw [asmBios_pol h p b hp.1]
  | .me b f :: t, hb, hp => by
    simp only [hasBios] at hb
    simp only [topPolRegions] at hp
    simp only [asmRegions]
    rw [asmRegions_pol h p t hb hp]
  | .raw b f y :: t, hb, hp => by
    simp only [hasBios] at hb
    simp only [topPolRegions] at hp
    simp only [asmRegions]
    rw [asmRegions_pol h p t hb hp]

theorem asmTreeWith_pol (h : Hooks) (p : UInt8) (t : Tree) (hp : TopPol p t = true) :
    asmTreeWith h t { pol := 0xF0, ffs3 := false } = asmTreeWith h t { pol := p, ffs3 := false } := by
  cases t with
  | flash f =>
    simp only [TopPol, Bool.and_eq_true] at hp
    simp only [asmTreeWith, asmFlash]
    rw [asmRegions_pol h p f.regions hp.1 hp.2]
  | bios b =>
    simp only [TopPol] at hp
    simp only [asmTreeWith]
    rw [asmBios_pol h p b hp]

/-- a fresh process assembles a tree as the process that parsed it does -/
theorem asmTwice_fresh (h : Hooks) (t : Tree) (st : St) (hp : st.pol = 0xF0 ∨ TopPol st.pol t = true) :
    asmTwice h t {} = asmTwice h t st := by
  obtain ⟨p, f⟩ := st
  rcases hp with hp | hp
  · simp only at hp
    subst hp
    rfl
  · simp only at hp
    unfold asmTwice
    simp only []
    rw [asmTreeWith_pol h p t hp]

theorem asmWith_fresh (h : Hooks) (t : Tree) (st : St) (hp : st.pol = 0xF0 ∨ TopPol st.pol t = true) :
    asmWith h t {} = asmWith h t st := by
  obtain ⟨p, f⟩ := st
  rcases hp with hp | hp
  · simp only at hp
    subst hp
    rfl
  · simp only at hp
    unfold asmWith
    simp only []
    rw [asmTreeWith_pol h p t hp]

end Fiano.Uefi
