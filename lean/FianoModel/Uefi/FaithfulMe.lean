/-
  Property C04 — the ME flash partition table (pkg/uefi/meregion.go `FindMEDescriptor`, `NewMEFPT`,
  `parsePartitions`, the `FreeSpaceOffset` loop of `NewMERegion`).

  The shared tree type keeps an ME region as its bytes only (`Region.me buf fr`); the table Go hangs
  below it (`MERegion.FPT`) is a function of those bytes, so it is modelled functionally here
  (`newFPT rbuf`, the same way C10 re-derives nested NVAR stores from the entry's bytes) together with

    FptF fp rbuf     the predicate, written from the property: `$FPT` = the first occurrence of the
                     signature in the region, `PartitionCount` = the 4 bytes behind it,
                     `PartitionMapStart` = signature + 32, exactly `PartitionCount` entries, entry k =
                     the 32-byte record at `PartitionMapStart + 32·k` (every field fromLE of the bytes
                     at its layout offset), the table buffer = region[0, PartitionMapStart + 32·count),
                     all of it inside the region;
    fpt_faithful     `newFPT rbuf = some fp → FptF fp rbuf` for every byte string.

  Core Lean only.  Tied to the code by Uefi/TieC04.lean (layout of MEPartitionEntry, the two
  constants, the signature) and by the driver op `mefpt` (T2).
-/
import FianoModel.Uefi.Types

namespace Fiano.Uefi.Me
open Fiano Fiano.Uefi

def fptSig : Bytes := [0x24, 0x46, 0x50, 0x54]   -- "$FPT", uefi.MEFPTSignature
def descMin : Nat := 28                          -- MEPartitionDescriptorMinLength
def entryLen : Nat := 32                         -- MEPartitionTableEntryLength

/-- `MEPartitionEntry` -/
structure Entry where
  name     : Bytes        -- [4]byte
  owner    : Bytes        -- [4]byte
  offset   : Nat          -- uint32
  length   : Nat          -- uint32
  reserved : List Nat     -- [3]uint32
  flags    : Nat          -- uint32
  deriving DecidableEq, Repr, Inhabited

/-- `MEFPT` -/
structure FPT where
  buf               : Bytes
  partitionCount    : Nat
  partitionMapStart : Nat
  entries           : List Entry
  deriving DecidableEq, Repr, Inhabited

/-- does `b` start with "$FPT"? -/
def isSig (b : Bytes) : Bool := b.take 4 == fptSig

/-- `bytes.Index(buf, MEFPTSignature)`; `b` is `buf[i:]` -/
def indexSig : Bytes → Nat → Option Nat
  | [], _ => none
  | x :: xs, i => if isSig (x :: xs) then some i else indexSig xs (i + 1)

/-- one 32-byte record, decoded as `binary.Read` decodes `MEPartitionEntry` (packed, little endian) -/
def decodeEntry (b : Bytes) : Entry :=
  { name := slice b 0 4, owner := slice b 4 4, offset := rd b 8 4, length := rd b 12 4,
    reserved := [rd b 16 4, rd b 20 4, rd b 24 4], flags := rd b 28 4 }

/-- `binary.Read(r, LittleEndian, fp.Entries)` for `n` entries -/
def decodeEntries : Nat → Bytes → List Entry
  | 0, _ => []
  | n + 1, b => decodeEntry b :: decodeEntries n (b.drop 32)

/-- `NewMEFPT(buf)`; `none` = any of its error returns (`NewMERegion` then only logs and leaves
    `FPT = nil`) -/
def newFPT (buf : Bytes) : Option FPT :=
  match indexSig buf 0 with
  | none => none
  | some i =>
    let o := i + 4
    if buf.length < o + 28 then none else            -- MEPartitionDescriptorMinLength (`descMin`)
    let cnt := rd buf o 4
    let pms := o + 28
    let l := pms + 32 * cnt                          -- MEPartitionTableEntryLength (`entryLen`)
    if buf.length < l then none else
    let fbuf := buf.take l
    some { buf := fbuf, partitionCount := cnt, partitionMapStart := pms,
           entries := decodeEntries cnt (fbuf.drop pms) }

/-- `MEPartitionEntry.OffsetIsValid` -/
def Entry.offsetValid (e : Entry) : Bool := e.offset != 0 && e.offset != 0xFFFFFFFF

/-- the `FreeSpaceOffset` loop of `NewMERegion` (uint64; every term is below 2^33, no wrap) -/
def freeOf (es : List Entry) : Nat :=
  es.foldl (fun acc e => if e.offsetValid = true ∧ e.offset + e.length > acc then e.offset + e.length else acc) 0

/-- `MERegion.FreeSpaceOffset` as `NewMERegion` leaves it (0 when no table was found) -/
def freeSpaceOffset (rbuf : Bytes) : Nat :=
  match newFPT rbuf with
  | some fp => freeOf fp.entries
  | none => 0

/-! ### the predicate -/

/-- the record at `p` in `rbuf`, field by field -/
def EntryAt (e : Entry) (rbuf : Bytes) (p : Nat) : Prop :=
  e.name = slice rbuf p 4 ∧ e.owner = slice rbuf (p + 4) 4 ∧ e.offset = rd rbuf (p + 8) 4 ∧
  e.length = rd rbuf (p + 12) 4 ∧
  e.reserved = [rd rbuf (p + 16) 4, rd rbuf (p + 20) 4, rd rbuf (p + 24) 4] ∧ e.flags = rd rbuf (p + 28) 4

/-- `i` is the first position at which `rbuf` holds "$FPT" -/
def FirstSig (rbuf : Bytes) (i : Nat) : Prop :=
  slice rbuf i 4 = fptSig ∧ ∀ j, j < i → slice rbuf j 4 ≠ fptSig

/-- **the partition table `fp` is a faithful account of the region bytes `rbuf`** -/
def FptF (fp : FPT) (rbuf : Bytes) : Prop :=
  ∃ i, FirstSig rbuf i ∧
    fp.partitionMapStart = i + 32 ∧ fp.partitionCount = rd rbuf (i + 4) 4 ∧
    fp.partitionMapStart + 32 * fp.partitionCount ≤ rbuf.length ∧
    fp.buf = rbuf.take (fp.partitionMapStart + 32 * fp.partitionCount) ∧
    fp.entries.length = fp.partitionCount ∧
    ∀ k, k < fp.partitionCount → ∃ e, fp.entries[k]? = some e ∧ EntryAt e rbuf (fp.partitionMapStart + 32 * k)

/-- what the tree says about an ME region with bytes `rbuf`: when Go finds a table, that table is
    faithful; `FreeSpaceOffset` is the largest end of a partition with a valid offset -/
def MeBufF (rbuf : Bytes) : Prop :=
  ∀ fp, newFPT rbuf = some fp →
    FptF fp rbuf ∧
    (∀ e ∈ fp.entries, e.offsetValid = true → e.offset + e.length ≤ freeSpaceOffset rbuf) ∧
    (freeSpaceOffset rbuf = 0 ∨ ∃ e ∈ fp.entries, e.offsetValid = true ∧ freeSpaceOffset rbuf = e.offset + e.length)

/-! ### proofs -/

theorem isSig_iff (b : Bytes) : isSig b = true ↔ b.take 4 = fptSig := by
  unfold isSig; exact beq_iff_eq

theorem indexSig_first : ∀ (b : Bytes) (base : Nat) (full : Bytes) (i : Nat), full.drop base = b →
    indexSig b base = some i → base ≤ i ∧ slice full i 4 = fptSig ∧ ∀ j, base ≤ j → j < i → slice full j 4 ≠ fptSig := by
  intro b
  induction b with
  | nil => intro base full i _ h; cases h
  | cons x xs ih =>
    intro base full i hd h
    unfold indexSig at h
    split at h
    · rename_i hs
      cases h
      refine ⟨Nat.le_refl _, ?_, fun j h1 h2 => by omega⟩
      unfold slice; rw [hd]; exact (isSig_iff _).mp hs
    · rename_i hs
      have hd' : full.drop (base + 1) = xs := by
        rw [← List.drop_drop, hd]; rfl
      obtain ⟨h1, h2, h3⟩ := ih (base + 1) full i hd' h
      refine ⟨by omega, h2, ?_⟩
      intro j hj1 hj2
      by_cases hjb : j = base
      · subst hjb
        intro hc
        apply hs
        apply (isSig_iff _).mpr
        unfold slice at hc; rw [hd] at hc; exact hc
      · exact h3 j (by omega) hj2

theorem decodeEntries_length : ∀ (n : Nat) (b : Bytes), (decodeEntries n b).length = n := by
  intro n; induction n with
  | zero => intro b; rfl
  | succ n ih => intro b; simp only [decodeEntries, List.length_cons, ih]

theorem decodeEntries_get : ∀ (n : Nat) (b : Bytes) (k : Nat), k < n →
    (decodeEntries n b)[k]? = some (decodeEntry (b.drop (32 * k))) := by
  intro n; induction n with
  | zero => intro b k hk; omega
  | succ n ih =>
    intro b k hk
    cases k with
    | zero => simp only [decodeEntries, List.getElem?_cons_zero, Nat.mul_zero, List.drop_zero]
    | succ k =>
      simp only [decodeEntries, List.getElem?_cons_succ]
      rw [ih _ k (by omega), List.drop_drop]
      congr 3; omega

theorem slice_drop (b : Bytes) (n off len : Nat) : slice (b.drop n) off len = slice b (n + off) len := by
  unfold slice; rw [List.drop_drop]

theorem rd_drop' (b : Bytes) (n off len : Nat) : rd (b.drop n) off len = rd b (n + off) len := by
  unfold rd; rw [slice_drop]

theorem slice_take (b : Bytes) (l off len : Nat) (h : off + len ≤ l) : slice (b.take l) off len = slice b off len := by
  unfold slice
  rw [List.drop_take, List.take_take]
  congr 1; omega

theorem rd_take (b : Bytes) (l off len : Nat) (h : off + len ≤ l) : rd (b.take l) off len = rd b off len := by
  unfold rd; rw [slice_take _ _ _ _ h]

/-- `NewMEFPT` returns a faithful table, for every region buffer -/
theorem fpt_faithful (rbuf : Bytes) (fp : FPT) (hp : newFPT rbuf = some fp) : FptF fp rbuf := by
  unfold newFPT at hp
  split at hp
  · cases hp
  · rename_i i hi
    obtain ⟨_, hsig, hfirst⟩ := indexSig_first rbuf 0 rbuf i rfl hi
    simp only [] at hp
    by_cases h1 : rbuf.length < i + 4 + 28
    · rw [if_pos h1] at hp; cases hp
    · rw [if_neg h1] at hp
      by_cases h2 : rbuf.length < i + 4 + 28 + 32 * rd rbuf (i + 4) 4
      · rw [if_pos h2] at hp; cases hp
      · rw [if_neg h2] at hp
        cases hp
        refine ⟨i, ⟨hsig, fun j hj => hfirst j (Nat.zero_le _) hj⟩, ?_, rfl, ?_, rfl, decodeEntries_length _ _, ?_⟩
        · show i + 4 + 28 = i + 32; omega
        · show i + 4 + 28 + 32 * rd rbuf (i + 4) 4 ≤ rbuf.length; omega
        intro k hk
        have hk0 : k < rd rbuf (i + 4) 4 := hk
        refine ⟨_, decodeEntries_get _ _ k hk, ?_⟩
        show EntryAt _ rbuf (i + 4 + 28 + 32 * k)
        have hk' : 32 * k + 32 ≤ 32 * rd rbuf (i + 4) 4 := by omega
        unfold EntryAt decodeEntry
        simp only [List.drop_drop, slice_drop, rd_drop']
        refine ⟨?_, ?_, ?_, ?_, ?_, ?_⟩
        · rw [slice_take _ _ _ _ (by omega)]; congr 1
        · rw [slice_take _ _ _ _ (by omega)]
        · rw [rd_take _ _ _ _ (by omega)]
        · rw [rd_take _ _ _ _ (by omega)]
        · rw [rd_take _ _ _ _ (by omega), rd_take _ _ _ _ (by omega), rd_take _ _ _ _ (by omega)]
        · rw [rd_take _ _ _ _ (by omega)]

def freeFrom (es : List Entry) (acc : Nat) : Nat :=
  es.foldl (fun acc e => if e.offsetValid = true ∧ e.offset + e.length > acc then e.offset + e.length else acc) acc

theorem freeFrom_cons (x : Entry) (xs : List Entry) (acc : Nat) :
    freeFrom (x :: xs) acc =
      freeFrom xs (if x.offsetValid = true ∧ x.offset + x.length > acc then x.offset + x.length else acc) := rfl

theorem freeOf_spec_aux : ∀ (es : List Entry) (acc : Nat),
    acc ≤ freeFrom es acc ∧ (∀ e ∈ es, e.offsetValid = true → e.offset + e.length ≤ freeFrom es acc) ∧
    (freeFrom es acc = acc ∨ ∃ e ∈ es, e.offsetValid = true ∧ freeFrom es acc = e.offset + e.length) := by
  intro es
  induction es with
  | nil => intro acc; exact ⟨Nat.le_refl _, fun e he => (by cases he), Or.inl rfl⟩
  | cons x xs ih =>
    intro acc
    rw [freeFrom_cons]
    by_cases hc : x.offsetValid = true ∧ x.offset + x.length > acc
    · rw [if_pos hc]
      obtain ⟨h1, h2, h3⟩ := ih (x.offset + x.length)
      refine ⟨by omega, ?_, ?_⟩
      · intro e he hv
        cases he with
        | head => exact h1
        | tail _ he => exact h2 e he hv
      · cases h3 with
        | inl h3 => exact Or.inr ⟨x, List.mem_cons_self, hc.1, h3⟩
        | inr h3 =>
          obtain ⟨e, he, hv, hr⟩ := h3
          exact Or.inr ⟨e, List.mem_cons_of_mem _ he, hv, hr⟩
    · rw [if_neg hc]
      obtain ⟨h1, h2, h3⟩ := ih acc
      refine ⟨h1, ?_, ?_⟩
      · intro e he hv
        cases he with
        | head =>
          have : ¬ (x.offset + x.length > acc) := fun hgt => hc ⟨hv, hgt⟩
          omega
        | tail _ he => exact h2 e he hv
      · cases h3 with
        | inl h3 => exact Or.inl h3
        | inr h3 =>
          obtain ⟨e, he, hv, hr⟩ := h3
          exact Or.inr ⟨e, List.mem_cons_of_mem _ he, hv, hr⟩

/-- **ME region**: whatever the bytes, the table Go reports for them (if any) is faithful and
    `FreeSpaceOffset` is the largest end of a valid partition -/
theorem me_faithful (rbuf : Bytes) : MeBufF rbuf := by
  intro fp hp
  refine ⟨fpt_faithful rbuf fp hp, ?_, ?_⟩
  · unfold freeSpaceOffset; rw [hp]
    exact (freeOf_spec_aux fp.entries 0).2.1
  · unfold freeSpaceOffset; rw [hp]
    exact (freeOf_spec_aux fp.entries 0).2.2

end Fiano.Uefi.Me
