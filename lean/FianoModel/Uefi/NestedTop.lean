/-
  Property C06 — the volume-level operations the theorems of Props/C06.lean speak about, and the
  composition lemmas (parse ∘ ser, asm ∘ tree, their iterates).
-/
import FianoModel.Uefi.NestedCanon
import FianoModel.Uefi.NestedLaws

namespace Fiano.Uefi.Nested
open Fiano Fiano.Uefi Fiano.Uefi.Spec

variable {h : Hooks}

/-- `uefi.NewFirmwareVolume(x, 0, rz)` in a fresh process, then `visitors.Assemble` / `Save` on the
    result in the same process: the bytes written (`rz`: the volume is a nested, resizable one) -/
def saveVol (h : Hooks) (fuel : Nat) (rz : Bool) (x : Bytes) : Except Err Bytes :=
  match parseFv h fuel x 0 rz {} with
  | .error e => .error e
  | .ok (t, st) =>
    match asmFv h t { st with ffs3 := false } with
    | .error e => .error e
    | .ok (t', _) => .ok t'.buf

/-- the fully decoded tree of the volume `x` -/
def decVol (h : Hooks) (fuel : Nat) (rz : Bool) (x : Bytes) : Except Err Dec :=
  match parseFv h fuel x 0 rz {} with
  | .error e => .error e
  | .ok (t, _) => .ok (decFv t)

theorem parse_ser_vol (hk : HooksOK h) (v : CFv) (hw : WF h v) (fuel : Nat) (hf : costFv v ≤ fuel) (rz : Bool) :
    parseFv h fuel (ser v) 0 rz {} = .ok (treeFv v 0 rz, { pol := 0xFF, ffs3 := false }) := by
  have := parse_fv hk v hw fuel [] 0 rz {} hf (Or.inr rfl)
  simpa [ser] using this

/-- one save of a well-formed volume writes its normal form -/
theorem saveVol_ser (hk : HooksOK h) (v : CFv) (hw : WF h v) (rz : Bool) (hok : okFv h rz v = true)
    (fuel : Nat) (hf : costFv v ≤ fuel) : saveVol h fuel rz (ser v) = .ok (ser (normFv h v)) := by
  obtain ⟨v', st', h1, h2, _, _, _⟩ := asm_fv hk v hw rz hok 0 { pol := 0xFF, ffs3 := false } rfl rfl
  unfold saveVol
  rw [parse_ser_vol hk v hw fuel hf rz]
  simp only [h1, h2, ser]

theorem decVol_ser (hk : HooksOK h) (v : CFv) (hw : WF h v) (rz : Bool) (fuel : Nat) (hf : costFv v ≤ fuel) :
    decVol h fuel rz (ser v) = .ok (decFv (treeFv v 0 rz)) := by
  unfold decVol
  rw [parse_ser_vol hk v hw fuel hf rz]

/-- what the decoder of a re-encoded section is handed: the new payload and whatever follows -/
theorem decoderInput_canon (g : Guid) (attrs : Nat) (p tail : Bytes) (hg : g.length = 16) :
    decoderInput false g 24 attrs p tail = p ++ tail := by
  unfold decoderInput
  have hl : (secHdr 0x02 false (secHdrLen false + 20 + p.length) ++ g ++ leN 2 24 ++ leN 2 attrs).length = 24 := by
    simp [secHdr_length, secHdrLen, hg, leN_length]
  have e : serSec (.guided false g 24 attrs p) ++ tail =
      (secHdr 0x02 false (secHdrLen false + 20 + p.length) ++ g ++ leN 2 24 ++ leN 2 attrs) ++ (p ++ tail) := by
    simp [serSec, List.append_assoc]
  rw [e]
  exact drop_append_len _ _ _ hl

end Fiano.Uefi.Nested
