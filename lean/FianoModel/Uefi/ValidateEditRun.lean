/-
  C09a for edited trees (follow-up wp-c09c), part 4: **`validate_saved` for a whole edited tree**.

  C02's central theorem (`edits_valid`, Props/C02.lean; its proof is three lines over C02's lemma library and is
  repeated here so that this library does not import another property's Props module) says: every image a
  successful `utk image op…` writes passes the independent reader and has the size of the input.  Composed with
  `ve_parseValidate_clean`: every such image, read again in a fresh process, validates cleanly —

      utk h image specs = ok r  →  ∀ b ∈ r.outs, reparseB h b  →  parseValidate h b = ok []

  for every command line of the modelled operations (insert ×5, pad_file, insert_dxe, remove, remove_pad,
  replace_pe32, saves between the edits, read-only commands; the volume that grows by a block and the switch to
  FFSv3 included — they are inside `edits_valid`), and with `create-fv` (`edits_valid2`).

  The statement is about the **re-parsed saved image** (what `utk saved.rom validate` sees), not about the
  in-memory tree after `Assemble`: C02's invariant does not say that the fields of a rebuilt file *node* are
  those of its new bytes.
-/
import FianoModel.Uefi.ValidateEditTop
import FianoModel.Uefi.CreateFvOk4

namespace Fiano.Uefi.C09
open Fiano Fiano.Uefi
open EditArith

/-- C02's `edits_valid` (same statement, same proof as in Props/C02.lean) -/
theorem ve_edits_valid (h : Hooks) (hb : h.BoundedCodecs) (hlaw : h.NvLaw) (image : Bytes) (specs : List OpSpec) (r : Run)
    (hu : utk h image specs = .ok r)
    (hv : Valid.validImage image = true) (hL : image.length < 65536 * 4096)
    (hspecs : ∀ s ∈ specs, SpecOk h s)
    (hRA : ∀ ops st t st', cliParse h specs {} = .ok (ops, st) →
      parseWith h (defaultFuel image) image st = .ok (t, st') → readAlikeB t = true) :
    ∀ b ∈ r.outs, Valid.validImage b = true ∧ b.length = image.length := by
  unfold utk at hu
  split at hu
  · cases hu
  · rename_i ops st hcli
    split at hu
    · cases hu
    · rename_i t st' hp
      obtain ⟨hok, hlen⟩ := Fiano.Uefi.parse_establishes_TreeOk h hb hlaw _ image st st' t hp hv hL
        (readAlikeB_sound t (hRA ops st t st' hcli hp))
      have hops := cliParse_ok h specs {} ops st hcli hspecs
      intro b hbm
      refine ⟨run_valid h hlaw ops _ r hu hops hok (by rw [hlen]; omega) (by simp) b hbm, ?_⟩
      rw [← hlen]
      exact run_same_size h ops _ r hu (treeOk_sized t hok) (by simp) b hbm

/-- **`validate_saved`, whole edited tree, tree form**: for every image the reader accepts and every command
    line of the modelled operations, if `utk` succeeds then on every image it wrote — parsed again from any
    state — validate reports nothing, when that image is read as the specification reads it (`readAlikeB`) and
    the checks validate makes beyond the reader hold (`extraB`) -/
theorem ve_validate_saved_tree (h : Hooks) (hb : h.BoundedCodecs) (hlaw : h.NvLaw) (image : Bytes) (specs : List OpSpec)
    (r : Run) (hu : utk h image specs = .ok r)
    (hv : Valid.validImage image = true) (hL : image.length < 65536 * 4096)
    (hspecs : ∀ s ∈ specs, SpecOk h s)
    (hRA : ∀ ops st t st', cliParse h specs {} = .ok (ops, st) →
      parseWith h (defaultFuel image) image st = .ok (t, st') → readAlikeB t = true) :
    ∀ b ∈ r.outs, ∀ fuel st0 t st, parseWith h fuel b st0 = .ok (t, st) → readAlikeB t = true → extraB t st = true →
      validate t st = [] := by
  intro b hbm fuel st0 t st hp hra hx
  obtain ⟨hvb, hlb⟩ := ve_edits_valid h hb hlaw image specs r hu hv hL hspecs hRA b hbm
  exact ve_validImage_validates h hb hlaw fuel b st0 st t hp hvb (by rw [hlb]; exact hL) hra hx

/-- **`validate_saved`, whole edited tree**: … every image written, parsed and validated in a fresh process,
    gives `ok []` (`reparseB` = the parse succeeds, `readAlikeB`, `extraB`) -/
theorem ve_validate_saved (h : Hooks) (hb : h.BoundedCodecs) (hlaw : h.NvLaw) (image : Bytes) (specs : List OpSpec)
    (r : Run) (hu : utk h image specs = .ok r)
    (hv : Valid.validImage image = true) (hL : image.length < 65536 * 4096)
    (hspecs : ∀ s ∈ specs, SpecOk h s)
    (hRA : ∀ ops st t st', cliParse h specs {} = .ok (ops, st) →
      parseWith h (defaultFuel image) image st = .ok (t, st') → readAlikeB t = true) :
    ∀ b ∈ r.outs, reparseB h b = true → parseValidate h b = .ok [] := by
  intro b hbm hre
  obtain ⟨hvb, hlb⟩ := ve_edits_valid h hb hlaw image specs r hu hv hL hspecs hRA b hbm
  exact ve_parseValidate_clean h hb hlaw b hvb (by rw [hlb]; exact hL) hre

/-- the same for command lines with `create-fv` (C02's `edits_valid_createfv`) -/
theorem ve_validate_saved_createfv (h : Hooks) (hb : h.BoundedCodecs) (hlaw : h.NvLaw) (image : Bytes)
    (specs : List OpSpec2) (r : Run) (hu : utk2 h image specs = .ok r)
    (hv : Valid.validImage image = true) (hL : image.length < 65536 * 4096)
    (hspecs : ∀ s, .base s ∈ specs → SpecOk h s)
    (hRA : ∀ ops st t st', cliParse2 h specs {} = .ok (ops, st) →
      parseWith h (defaultFuel image) image st = .ok (t, st') → readAlikeB t = true)
    (hG : ∀ ops st t st', cliParse2 h specs {} = .ok (ops, st) →
      parseWith h (defaultFuel image) image st = .ok (t, st') → Guard2 h ops { tree := t, st := st' }) :
    ∀ b ∈ r.outs, reparseB h b = true → parseValidate h b = .ok [] := by
  intro b hbm hre
  obtain ⟨hvb, hlb⟩ := edits_valid2 h hb hlaw image specs r hu hv hL hspecs hRA hG b hbm
  exact ve_parseValidate_clean h hb hlaw b hvb (by rw [hlb]; exact hL) hre

end Fiano.Uefi.C09
