/-
  C09a, second half, per node: what the independent reader of C02 (`Valid.validImage`,
  FianoModel/Uefi/ValidImage.lean) accepts at a node, validate accepts too — on the node the parser makes
  of those bytes:

    fileOk_validates   a file that satisfies X1–X5 (`Valid.fileOk`)
    secSized_validates a section with consistent size fields (what C02 calls `GoodSec`)
    fvOk_validates     a volume that satisfies V1–V7 (`Valid.fvOk`): its header

  validate asks for three things the reader of C02 does not: a large file stores FFFFFF (not 0) in its
  3-byte size; a volume has revision 2; its file-system GUID is one the tool knows.  They are hypotheses
  here; FianoModel/Uefi/ValidateBridge.lean discharges them for what `Assemble` writes and instantiates the
  bridges with the node-level validity theorems of C02 (pad files, rebuilt files, regenerated sections,
  relaid-out volumes).

  Self-contained: it needs the independent reader (ValidImage.lean, core Lean) and no lemma library of another
  property; the few arithmetic facts it shares with the C02 library are proved again in namespace `Bridge`.
  Core Lean only.
-/
import FianoModel.Uefi.ValidateLocal
import FianoModel.Uefi.ValidImage

namespace Fiano.Uefi.C09
open Fiano Fiano.Uefi Fiano.Uefi.Spec

/-! ### arithmetic shared with the C02 library (proved again: see the header) -/

namespace Bridge

theorem foldl_add_toNat (b : Bytes) (a : UInt8) :
    (b.foldl (· + ·) a).toNat = (a.toNat + b.foldl (fun s x => s + x.toNat) 0) % 256 := by
  induction b generalizing a with
  | nil => simp
  | cons x xs ih =>
    simp only [List.foldl_cons]
    rw [ih]
    have hgen : ∀ (l : Bytes) (c : Nat), l.foldl (fun s x => s + x.toNat) c = c + l.foldl (fun s x => s + x.toNat) 0 := by
      intro l
      induction l with
      | nil => intro c; simp
      | cons y ys ihy =>
        intro c
        simp only [List.foldl_cons]
        rw [ihy (c + y.toNat), ihy (0 + y.toNat)]
        omega
    rw [hgen xs (0 + x.toNat)]
    simp only [UInt8.toNat_add]
    omega

/-- the reader's byte sum is the model's `Checksum8` -/
theorem byteSum_eq_sum8 (b : Bytes) : Valid.byteSum b = (sum8 b).toNat := by
  unfold Valid.byteSum sum8
  rw [foldl_add_toNat]
  simp

theorem byte_toNat (n : Nat) (h : n < 256) : (byte n).toNat = n := by
  unfold byte; simp [UInt8.toNat_ofNat']; omega

theorem and_one_ne_zero (a : Nat) : (a &&& 1 ≠ 0) ↔ a % 2 = 1 := by
  rw [Nat.and_one_is_mod]; omega

set_option maxRecDepth 16384 in
theorem and_64 : ∀ a, a < 256 → ((a &&& 0x40 ≠ 0) ↔ a / 64 % 2 = 1) := by decide

theorem fld_append_left (a b : Bytes) (k n : Nat) (h : k + n ≤ a.length) :
    Valid.fld (a ++ b) k n = Valid.fld a k n := by
  unfold Valid.fld
  rw [List.drop_append_of_le_length (by omega), List.take_append_of_le_length (by simp; omega)]

theorem fileSize_some_length (b : Bytes) (s hl : Nat) (h : Valid.fileSize b = some (s, hl)) :
    24 ≤ b.length ∧ hl ≤ b.length ∧ (hl = 24 ∨ hl = 32) := by
  unfold Valid.fileSize at h
  split at h
  · cases h
  · simp only at h
    split at h
    · split at h
      · cases h
      · split at h
        · cases h
        · cases h; omega
    · split at h
      · cases h
      · cases h; omega

theorem wordSumAux_acc : ∀ (b : Bytes) (acc : Nat), Valid.wordSumAux b acc = acc + Valid.wordSumAux b 0
  | [], acc => by simp [Valid.wordSumAux]
  | [_], acc => by simp [Valid.wordSumAux]
  | lo :: hi :: rest, acc => by
    simp only [Valid.wordSumAux]
    rw [wordSumAux_acc rest (acc + lo.toNat + 256 * hi.toNat), wordSumAux_acc rest (0 + lo.toNat + 256 * hi.toNat)]
    omega

/-- the model's `Checksum16` is the reader's word sum -/
theorem sum16_toNat : ∀ (b : Bytes), (sum16 b).toNat = Valid.wordSum b
  | [] => by simp [sum16, Valid.wordSum, Valid.wordSumAux]
  | [_] => by simp [sum16, Valid.wordSum, Valid.wordSumAux]
  | a :: c :: rest => by
    have ih := sum16_toNat rest
    unfold Valid.wordSum at ih ⊢
    simp only [sum16, Valid.wordSumAux]
    rw [wordSumAux_acc, UInt16.toNat_add, ih]
    have ha := a.toNat_lt
    have hc := c.toNat_lt
    simp [UInt16.toNat_add, UInt16.toNat_mul, UInt8.toNat_toUInt16]
    omega

theorem fld_eq_rd (b : Bytes) (o l : Nat) : Valid.fld b o l = rd b o l := rfl

theorem rd_append_left (a b : Bytes) (k n : Nat) (h : k + n ≤ a.length) : rd (a ++ b) k n = rd a k n := by
  rw [← fld_eq_rd, ← fld_eq_rd]; exact fld_append_left a b k n h

theorem rd1_lt (b : Bytes) (o : Nat) : rd b o 1 < 256 := by
  have := v_rd_lt b o 1; simpa using this

theorem u8_sub2_zero {a c d : UInt8} (h : (a.toNat + 512 - c.toNat - d.toNat) % 256 = 0) : a - c - d = 0 := by
  apply UInt8.toNat_inj.mp
  simp only [UInt8.toNat_sub, UInt8.toNat_ofNat]
  have := a.toNat_lt
  have := c.toNat_lt
  have := d.toNat_lt
  omega

theorem u8_add_zero {a c : UInt8} (h : (a.toNat + c.toNat) % 256 = 0) : a + c = 0 := by
  apply UInt8.toNat_inj.mp
  simp only [UInt8.toNat_add, UInt8.toNat_ofNat]
  omega

end Bridge
open Bridge

/-! ### files -/

set_option maxRecDepth 8192 in
/-- **a file the reader of C02 accepts validates cleanly**: `fb` are exactly the bytes of a file that
    satisfies X1–X5 (`Valid.fileOk`) and stores FFFFFF in its size field when it is large; whatever follows
    it, the node the parser makes of it passes every file check of validate -/
theorem fileOk_validates {fuel0 o : Nat} {fb rest : Bytes} (hok : Valid.fileOk (fuel0 + 1) fb o = true)
    (hlarge : Valid.fld fb 19 1 % 2 = 1 → Valid.fld fb 20 3 = 0xFFFFFF)
    {h : Hooks} {fuel : Nat} {st st1 : St} {f : File}
    (hp : parseFile h fuel (fb ++ rest) st = .ok (some f, st1)) : validateFileNode f.info f.buf = [] := by
  unfold Valid.fileOk at hok
  cases hfs : Valid.fileSize fb with
  | none => rw [hfs] at hok; simp at hok
  | some p =>
    obtain ⟨size, hl⟩ := p
    rw [hfs] at hok
    simp only [Bool.and_eq_true, decide_eq_true_eq] at hok
    obtain ⟨⟨⟨⟨⟨hsize, hhl⟩, _⟩, hck⟩, hbody⟩, _⟩ := hok
    obtain ⟨l24, hlle, hl2432⟩ := fileSize_some_length fb size hl hfs
    -- the fields the parser reads are the fields of `fb`
    obtain ⟨_, _, _, hbuf, hext, hs3, hat, hcf, hst⟩ := parseFile_ok_fields _ _ _ _ _ _ hp
    rw [rd_append_left fb rest 20 3 (by omega)] at hs3
    rw [rd_append_left fb rest 19 1 (by omega)] at hat
    rw [rd_append_left fb rest 17 1 (by omega)] at hcf
    rw [rd_append_left fb rest 23 1 (by omega)] at hst
    have hs3 : f.info.size3 = Valid.fld fb 20 3 := hs3
    have hat : f.info.attrs = Valid.fld fb 19 1 := hat
    have hcf : f.info.ckFile = Valid.fld fb 17 1 := hcf
    have hst : f.info.state = Valid.fld fb 23 1 := hst
    have ha256 : Valid.fld fb 19 1 < 256 := rd1_lt fb 19
    have hc256 : Valid.fld fb 17 1 < 256 := rd1_lt fb 17
    have hs256 : Valid.fld fb 23 1 < 256 := rd1_lt fb 23
    -- X1
    unfold Valid.fileSize at hfs
    rw [if_neg (by omega)] at hfs
    simp only at hfs
    have hX1 : (Valid.fld fb 19 1 % 2 = 1 →
          32 ≤ fb.length ∧ Valid.fld fb 20 3 = 0xFFFFFF ∧ size = Valid.fld fb 24 8 ∧ hl = 32) ∧
        (Valid.fld fb 19 1 % 2 = 0 → Valid.fld fb 20 3 ≠ 0xFFFFFF ∧ size = Valid.fld fb 20 3 ∧ hl = 24) := by
      constructor
      · intro hL
        rw [if_pos hL] at hfs
        split at hfs
        · cases hfs
        · split at hfs
          · cases hfs
          · simp only [Option.some.injEq, Prod.mk.injEq] at hfs
            exact ⟨by omega, hlarge hL, hfs.1.symm, hfs.2.symm⟩
      · intro hL
        rw [if_neg (by omega)] at hfs
        split at hfs
        · cases hfs
        · rename_i h3
          simp only [Option.some.injEq, Prod.mk.injEq] at hfs
          exact ⟨h3, hfs.1.symm, hfs.2.symm⟩
    have hlg : isLarge (Valid.fld fb 19 1) = true ↔ Valid.fld fb 19 1 % 2 = 1 := by
      unfold isLarge
      rw [decide_eq_true_iff]
      exact and_one_ne_zero _
    have hextOf : extOf (fb ++ rest) = fb.length := by
      unfold extOf
      rw [rd_append_left fb rest 20 3 (by omega)]
      rcases Nat.mod_two_eq_zero_or_one (Valid.fld fb 19 1) with hL | hL
      · obtain ⟨h3, hsz, _⟩ := hX1.2 hL
        have h3' : ¬ rd fb 20 3 = 0xFFFFFF := h3
        rw [if_neg h3']
        have : rd fb 20 3 = Valid.fld fb 20 3 := rfl
        omega
      · obtain ⟨h32, h3, hsz, _⟩ := hX1.1 hL
        have h3' : rd fb 20 3 = 0xFFFFFF := h3
        rw [if_pos h3', rd_append_left fb rest 24 8 (by omega)]
        have : rd fb 24 8 = Valid.fld fb 24 8 := rfl
        omega
    have hfbuf : f.buf = fb := by
      rw [hbuf, hextOf, List.take_append_of_le_length (by omega), List.take_of_length_le (by omega)]
    rw [hfbuf]
    rw [hextOf] at hext
    refine (validateFileNode_nil_iff _ _).mpr ⟨l24, ?_, ?_, ?_, hext.symm, ?_, ?_⟩
    · -- large attribute ⇔ extended header
      rw [hat, hs3, hlg]
      constructor
      · intro hL; exact (hX1.1 hL).2.1
      · intro h3
        rcases Nat.mod_two_eq_zero_or_one (Valid.fld fb 19 1) with hL | hL
        · exact absurd h3 (hX1.2 hL).1
        · exact hL
    · intro h3
      rw [hs3] at h3
      rcases Nat.mod_two_eq_zero_or_one (Valid.fld fb 19 1) with hL | hL
      · exact absurd h3 (hX1.2 hL).1
      · exact (hX1.1 hL).1
    · intro h3
      rw [hs3] at h3 ⊢
      rw [hext]
      rcases Nat.mod_two_eq_zero_or_one (Valid.fld fb 19 1) with hL | hL
      · have := (hX1.2 hL).2.1; omega
      · exact absurd (hX1.1 hL).2.1 h3
    · -- header checksum
      unfold checksumHeader
      rw [hat, hcf, hst]
      have hhs : min (if isLarge (Valid.fld fb 19 1) = true then 32 else 24) fb.length = hl := by
        rcases Nat.mod_two_eq_zero_or_one (Valid.fld fb 19 1) with hL | hL
        · have : ¬ isLarge (Valid.fld fb 19 1) = true := fun c => by have := hlg.mp c; omega
          rw [if_neg this]; have := (hX1.2 hL).2.2; omega
        · rw [if_pos (hlg.mpr hL)]; have := (hX1.1 hL).2.2.2; omega
      simp only [hhs]
      apply u8_sub2_zero
      rw [← byteSum_eq_sum8, byte_toNat _ hc256, byte_toNat _ hs256]
      exact hck
    · -- body checksum
      rw [hat, hcf]
      have hhs : (if isLarge (Valid.fld fb 19 1) = true then 32 else 24) = hl := by
        rcases Nat.mod_two_eq_zero_or_one (Valid.fld fb 19 1) with hL | hL
        · have : ¬ isLarge (Valid.fld fb 19 1) = true := fun c => by have := hlg.mp c; omega
          rw [if_neg this]; exact (hX1.2 hL).2.2.symm
        · rw [if_pos (hlg.mpr hL)]; exact (hX1.1 hL).2.2.2.symm
      have hck64 : hasChecksum (Valid.fld fb 19 1) = true ↔ Valid.fld fb 19 1 / 64 % 2 = 1 := by
        unfold hasChecksum
        rw [decide_eq_true_iff]
        exact and_64 _ ha256
      by_cases hc : Valid.fld fb 19 1 / 64 % 2 = 1
      · simp only [hck64.mpr hc, if_true, hhs]
        rw [if_pos hc] at hbody
        simp only [decide_eq_true_eq] at hbody
        apply u8_add_zero
        rw [← byteSum_eq_sum8, byte_toNat _ hc256]
        exact hbody
      · have : ¬ hasChecksum (Valid.fld fb 19 1) = true := fun c => hc (hck64.mp c)
        simp only [this, if_false]
        rw [if_neg hc] at hbody
        simp only [decide_eq_true_eq] at hbody
        exact hbody

/-! ### sections -/

/-- a section buffer with consistent size fields: header present, declared size = its length (the first
    three fields of C02's `GoodSec`) -/
structure SecSized (sb : Bytes) : Prop where
  len4 : 4 ≤ sb.length
  ext8 : Valid.fld sb 0 3 = 0xFFFFFF → 8 ≤ sb.length
  size : (if Valid.fld sb 0 3 = 0xFFFFFF then Valid.fld sb 4 4 else Valid.fld sb 0 3) = sb.length

set_option maxRecDepth 8192 in
/-- **a section the reader of C02 accepts validates cleanly**: `sb` are exactly the bytes of a section with
    consistent size fields (`SecSized`; C02's `GoodSec` is this plus "not a volume image"); whatever
    follows it in the file, the node the parser makes of it passes the section checks of validate -/
theorem secSized_validates {sb rest : Bytes} (hgs : SecSized sb) {h : Hooks} {fuel idx : Nat} {st st1 : St} {s : Section}
    (hp : parseSection h fuel (sb ++ rest) idx st = .ok (s, st1)) : validateSecNode s.info s.buf = [] := by
  obtain ⟨size3, type, ext, hs, hsh, e3, _, ee, eb⟩ := parseSection_ok_fields hp
  obtain ⟨h4, hle, hs3, hty, hhs, hiff⟩ := v_secHeader_ok hsh
  have hl4 := hgs.len4
  have r3 : rd (sb ++ rest) 0 3 = Valid.fld sb 0 3 := rd_append_left sb rest 0 3 (by omega)
  have hlt3 : Valid.fld sb 0 3 < 16777216 :=
    show rd sb 0 3 < 16777216 from by have := v_rd_lt sb 0 3; simpa using this
  have hbl : s.buf.length = ext := by rw [eb, List.length_take]; omega
  -- the size the parser computes is the length of `sb`, or (unknown type, extended form) FFFFFF clamped
  unfold secHeader at hsh
  rw [if_neg (by omega)] at hsh
  simp only at hsh
  have hsz := hgs.size
  unfold validateSecNode
  rw [hbl, e3, ee, hs3, r3]
  by_cases hF : Valid.fld sb 0 3 = 0xFFFFFF
  · have h8 := hgs.ext8 hF
    simp only [hF, if_true] at hsz ⊢
    have r4 : rd (sb ++ rest) 4 4 = Valid.fld sb 4 4 := rd_append_left sb rest 4 4 (by omega)
    have hlt4 : Valid.fld sb 4 4 < 4294967296 :=
      show rd sb 4 4 < 4294967296 from by have := v_rd_lt sb 4 4; simpa using this
    have hext : ext = sb.length ∨ (ext = min 0xFFFFFF (sb ++ rest).length ∧ 8 ≤ ext) := by
      rw [r3, hF] at hsh
      by_cases hk : knownSection (rd (sb ++ rest) 3 1) = true
      · left
        have hl8 : ¬ (sb ++ rest).length < 8 := by simp only [List.length_append]; omega
        by_cases hff : rd (sb ++ rest) 4 4 = 0xFFFFFFFF
        · simp [hk, hl8, hff] at hsh
        · simp only [hk, if_true, hl8, if_false, hff] at hsh
          split at hsh
          · simp at hsh
          · simp only [Except.ok.injEq, Prod.mk.injEq] at hsh
            rw [← hsh.2.2.1, r4]; exact hsz
      · right
        have hk' : knownSection (rd (sb ++ rest) 3 1) = false := by simpa using hk
        simp only [hk', Bool.false_eq_true, if_false] at hsh
        split at hsh
        · simp at hsh
        · simp only [Except.ok.injEq, Prod.mk.injEq] at hsh
          rw [← hsh.2.2.1]
          refine ⟨rfl, ?_⟩
          simp only [List.length_append]
          omega
    rcases hext with hext | ⟨hext, h8'⟩
    · have : ext % 4294967296 = ext := Nat.mod_eq_of_lt (by omega)
      rw [this]
      rw [if_neg (by omega), if_neg (by omega)]
    · have : ext % 4294967296 = ext := Nat.mod_eq_of_lt (by omega)
      rw [this]
      rw [if_neg (by omega), if_neg (by omega)]
  · simp only [hF, if_false] at hsz ⊢
    have hext : ext = sb.length := by
      rw [r3] at hsh
      by_cases hk : knownSection (rd (sb ++ rest) 3 1) = true
      · simp only [hk, if_true, hF, if_false] at hsh
        split at hsh
        · simp at hsh
        · simp only [Except.ok.injEq, Prod.mk.injEq] at hsh
          rw [← hsh.2.2.1]; exact hsz
      · have hk' : knownSection (rd (sb ++ rest) 3 1) = false := by simpa using hk
        simp only [hk', Bool.false_eq_true, if_false] at hsh
        split at hsh
        · simp at hsh
        · simp only [Except.ok.injEq, Prod.mk.injEq] at hsh
          rw [← hsh.2.2.1]
          simp only [List.length_append]
          omega
    have e1 : Valid.fld sb 0 3 % 4294967296 = Valid.fld sb 0 3 := Nat.mod_eq_of_lt (by omega)
    have e2 : ext % 4294967296 = ext := Nat.mod_eq_of_lt (by omega)
    rw [e1, e2]
    rw [if_neg (by omega), if_neg (by omega)]

/-! ### volumes -/

theorem slice_append_left (a b : Bytes) (k n : Nat) (h : k + n ≤ a.length) : slice (a ++ b) k n = slice a k n := by
  unfold slice
  rw [List.drop_append_of_le_length (by omega), List.take_append_of_le_length (by simp; omega)]

theorem fromLE8_split (b0 b1 b2 b3 b4 b5 b6 b7 : UInt8) :
    fromLE [b0, b1, b2, b3, b4, b5, b6, b7] = fromLE [b0, b1, b2, b3] + 4294967296 * fromLE [b4, b5, b6, b7] := by
  simp only [fromLE]; omega

/-- the reader's block-map walk and the loop of `blockMapEnd` (fixes/C09-headerlen-blockmap.diff) stop at
    the same place: the reader insists on non-zero entries before the terminator, so the first all-zero
    entry is the terminator -/
theorem blockMap_scanBlockEnd (b : Bytes) : ∀ (fuel off acc total stop : Nat),
    Valid.blockMap fuel b off acc = some (total, stop) →
    scanBlockEnd off (b.drop off) = stop ∧ (stop - off) % 8 = 0 ∧ off + 8 ≤ stop := by
  intro fuel
  induction fuel with
  | zero => intro off acc total stop h; simp [Valid.blockMap] at h
  | succ n ih =>
    intro off acc total stop h
    rw [Valid.blockMap] at h
    by_cases hlen : off + 8 > b.length
    · simp [hlen] at h
    rw [if_neg hlen] at h
    simp only at h
    -- the next eight bytes
    obtain ⟨b0, b1, b2, b3, b4, b5, b6, b7, rest, hd⟩ : ∃ b0 b1 b2 b3 b4 b5 b6 b7 rest,
        b.drop off = b0 :: b1 :: b2 :: b3 :: b4 :: b5 :: b6 :: b7 :: rest := by
      have hl : 8 ≤ (b.drop off).length := by rw [List.length_drop]; omega
      match hb : b.drop off, hl with
      | b0 :: b1 :: b2 :: b3 :: b4 :: b5 :: b6 :: b7 :: rest, _ => exact ⟨b0, b1, b2, b3, b4, b5, b6, b7, rest, rfl⟩
    have hc : Valid.fld b off 4 = fromLE [b0, b1, b2, b3] := by
      unfold Valid.fld; rw [hd]; rfl
    have hs : Valid.fld b (off + 4) 4 = fromLE [b4, b5, b6, b7] := by
      unfold Valid.fld
      rw [← List.drop_drop, hd]; rfl
    have hrest : b.drop (off + 8) = rest := by rw [← List.drop_drop, hd]; rfl
    rw [hd, scanBlockEnd, fromLE8_split, ← hc, ← hs]
    by_cases hz : Valid.fld b off 4 = 0 ∧ Valid.fld b (off + 4) 4 = 0
    · rw [if_pos hz] at h
      simp only [Option.some.injEq, Prod.mk.injEq] at h
      rw [if_pos (by omega)]
      exact ⟨h.2, by omega, by omega⟩
    · rw [if_neg hz] at h
      by_cases hz2 : Valid.fld b off 4 = 0 ∨ Valid.fld b (off + 4) 4 = 0
      · simp [hz2] at h
      · rw [if_neg hz2] at h
        rw [if_neg (by omega)]
        have := ih _ _ _ _ h
        rw [hrest] at this
        exact ⟨this.1, by omega, by omega⟩

set_option maxRecDepth 8192 in
/-- **a volume header the reader of C02 accepts validates cleanly**: `b` are exactly the bytes of a volume
    that satisfies V1–V7 (`Valid.fvOk`), with revision 2 and a file-system GUID the tool knows; whatever
    follows it, the node the parser makes of it passes every volume check of validate -/
theorem fvOk_validates {fuel0 : Nat} {b rest : Bytes} (hok : Valid.fvOk (fuel0 + 1) b = true) (hrev : rd b 55 1 = 2)
    (hguid : knownFvGuids.contains (slice b 16 16) = true)
    {h : Hooks} {fuel off : Nat} {rs : Bool} {st st1 : St} {fv : Fv}
    (hp : parseFv h fuel (b ++ rest) off rs st = .ok (fv, st1)) : validateFvNode fv.info fv.buf = [] := by
  unfold Valid.fvOk at hok
  by_cases h64' : b.length < 64
  · simp [h64'] at hok
  rw [if_neg h64'] at hok
  have h64 : 64 ≤ b.length := by omega
  simp only [Bool.and_eq_true, decide_eq_true_eq] at hok
  obtain ⟨⟨⟨⟨⟨⟨h32, hsig⟩, h48⟩, hbm⟩, hsum⟩, _⟩, _⟩ := hok
  obtain ⟨_, _, hbuf, hlen, hhl, hsg, hrv, hg⟩ := parseFv_ok_fields _ _ _ _ _ _ _ _ hp
  rw [rd_append_left b rest 32 8 (by omega)] at hbuf hlen
  rw [rd_append_left b rest 48 2 (by omega)] at hhl
  rw [rd_append_left b rest 40 4 (by omega)] at hsg
  rw [rd_append_left b rest 55 1 (by omega)] at hrv
  rw [slice_append_left b rest 16 16 (by omega)] at hg
  have h32' : rd b 32 8 = b.length := h32
  have hfb : fv.buf = b := by
    rw [hbuf, h32', List.take_append_of_le_length (by omega), List.take_of_length_le (by omega)]
  rw [hfb]
  cases hbm' : Valid.blockMap (b.length / 8 + 1) b 56 0 with
  | none => rw [hbm'] at hbm; simp at hbm
  | some p =>
    obtain ⟨total, stop⟩ := p
    rw [hbm'] at hbm
    simp only [Bool.and_eq_true, decide_eq_true_eq] at hbm
    obtain ⟨hscan, hmod, hge⟩ := blockMap_scanBlockEnd b _ _ _ _ _ hbm'
    have h48' : rd b 48 2 ≤ b.length := h48
    have hstop : stop = rd b 48 2 := hbm.1
    refine (validateFvNode_nil_iff _ _).mpr ⟨h64, ?_, ?_, ?_, ?_, ?_, ?_, ?_, ?_, ?_⟩
    · rw [hhl, ← hstop]; omega
    · rw [hhl]; exact h48'
    · rw [hhl, ← hstop]; exact hscan
    · rw [hg]; exact hguid
    · rw [hrv]; exact hrev
    · rw [hsg]
      have : slice b 40 4 = [0x5F, 0x46, 0x56, 0x48] := hsig
      unfold rd; rw [this]; decide
    · rw [hlen]; exact h32'
    · rw [hhl, ← hstop]; omega
    · rw [hhl]
      apply UInt16.toNat_inj.mp
      rw [sum16_toNat]
      exact hsum


end Fiano.Uefi.C09
