/-
  Specification side of property C09.

  `Spec.WF` (the reference grammar of FianoModel/Uefi/Spec.lean) says that an image is *structurally*
  well formed: a reader finds exactly the tree `Spec.tree i`.  It deliberately leaves the checksum bytes
  of verbatim ("leaf") files, the volume revision and the descriptor-map bases free, because saving
  (C01) never looks at them.  `Sound` adds what the PI specification / IFD layout require of those
  fields — written from the formats, not from validate.go:

    * verbatim file: the large-file attribute is set exactly when the extended header is in use; the
      header bytes, with `State` and `IntegrityCheck.File` taken as zero, sum to zero (mod 256); the
      body bytes plus `IntegrityCheck.File` sum to zero when the checksum attribute is set, otherwise
      `IntegrityCheck.File` is 0xAA                                   (PI 1.7 vol. 3, 3.2.3)
    * volume: `Revision` is 2 (3.2.1); a volume that is not FFSv2/v3 carries one of the other
      file-system GUIDs the tool knows
    * descriptor map: `FRBA`, `FMBA`, `FCBA` are pairwise different and at most 0xE0
    * a flash region is described by a valid table entry (limit ≥ base, neither all-ones, limit ≠ 0);
      for the regions the reader takes from the table this follows from `WF`, for the gap regions
      the reader synthesises it is a condition on the flash size (`gapsOk`).

  `valid i := WF i ∧ Sound i` is "a well-formed image" in the sense of the property.

  The single-byte alteration relation `Alter` and the byte-level predicates `FvHdrOk`, `FileOk` that the
  detection theorems (C09b) are stated with are here as well.  Core Lean only.
-/
import FianoModel.Uefi.Validate
import FianoModel.Uefi.Spec

namespace Fiano.Uefi.Spec
open Fiano Fiano.Uefi

/-- the file-system GUIDs with a name in the tool's table, other than FFSv2/v3 -/
def otherFsGuids : List Guid := [guidFFS1, guidEVSA, guidNVAR, guidEVSA2, guidAppleBoot, guidPFH1, guidPFH2]

/-- checksum and attribute conditions on a verbatim file -/
def soundLeaf (g : Guid) (ckh ckf type attrs : Nat) (ext : Bool) (body : Bytes) : Bool :=
  let total := (if ext then 32 else 24) + body.length
  (ext == (attrs &&& 1 != 0)) &&
  sum8 (fileHdr g (byte ckh) 0 type attrs ext total 0) == 0 &&
  (if attrs &&& 0x40 != 0 then sum8 body + byte ckf == 0 else ckf == 0xAA)

mutual
  def soundSec : SecI → Bool
    | .fvimg fv => soundFv fv
    | _ => true
  def soundSecs : List SecI → Bool
    | [] => true
    | s :: ss => soundSec s && soundSecs ss
  def soundFile : FileI → Bool
    | .leaf g ckh ckf type attrs _ ext body => soundLeaf g ckh ckf type attrs ext body
    | .sect _ _ _ _ secs => soundSecs secs
  def soundFiles : List FileI → Bool
    | [] => true
    | f :: fs => soundFile f && soundFiles fs
  def soundFv : FvI → Bool
    | .ffs _ _ _ rev _ _ _ files _ => rev == 2 && soundFiles files
    | .other _ g _ rev _ _ _ => rev == 2 && otherFsGuids.contains g
end

def soundItems : List (Bytes × FvI) → Bool
  | [] => true
  | (_, v) :: is => soundFv v && soundItems is

def soundBios (b : BiosI) : Bool := soundItems b.items

def soundReg : RegI → Bool
  | .bios b => soundBios b
  | _ => true

/-- descriptor-map bases: at most 0xE0 and pairwise different -/
def soundDesc (desc : Bytes) : Bool :=
  let m := (treeDesc desc).map
  let c := m.fields.getD 0 0
  m.masterBase ≤ 0xe0 && m.regionBase ≤ 0xe0 && m.masterBase != m.regionBase && m.masterBase != c &&
    m.regionBase != c

/-- every region of the tree a faithful reader reports has a valid table entry -/
def regionsValid (f : FlashI) : Bool :=
  (treeRegs (treeDesc f.desc).region.regions f.regions 1).all fun r =>
    match r.fr with
    | some fr => fr.valid
    | none => false

def soundFlash (f : FlashI) : Bool :=
  soundDesc f.desc && f.regions.all soundReg && regionsValid f

def sound : Img → Bool
  | .flash f => soundFlash f
  | .bios b => soundBios b

def Sound (i : Img) : Prop := sound i = true
instance (i : Img) : Decidable (Sound i) := by unfold Sound; infer_instance

/-- a well-formed image in the sense of property C09 -/
def Valid (i : Img) : Prop := WF i ∧ Sound i
instance (i : Img) : Decidable (Valid i) := by unfold Valid; infer_instance

/-- the process state the parser leaves behind on a well-formed image: polarity 1 -/
def stOf (_ : Img) : St := { pol := 0xFF }

/-! ### single-byte alteration -/

/-- `b'` is `b` with exactly the byte at position `p` replaced by a different value -/
def Alter (b b' : Bytes) (p : Nat) : Prop :=
  ∃ pre x y post, b = pre ++ x :: post ∧ b' = pre ++ y :: post ∧ pre.length = p ∧ x ≠ y

/-- `b` with the byte at `p` replaced by `y` -/
def setByte (b : Bytes) (p : Nat) (y : UInt8) : Bytes := b.take p ++ (match b.drop p with
  | [] => []
  | _ :: post => y :: post)

end Fiano.Uefi.Spec
