/-
  C02 (follow-up wp-c02b), layer (a): sections.

  * `genSecHeader_ok`   — what `GenSecHeader` writes is a section the reader accepts on its own, for
                          every section type, including a volume-image section around a valid volume;
  * `sectionsOk_joined` — sections that are individually acceptable (`SecBytesOk`, volume images
                          included), joined with zero padding to 4-byte boundaries, form a section
                          area the reader accepts (rules S1–S3).
-/
import FianoModel.Uefi.TreeOk

namespace Fiano.Uefi
open Fiano
open EditArith

/-! ### sections written by `GenSecHeader` -/

theorem drop_hdr4 (n : Nat) (t : UInt8) (payload : Bytes) : (leN 3 n ++ [t] ++ payload).drop 4 = payload := by
  rw [List.drop_append_of_le_length (by simp), List.drop_of_length_le (by simp)]
  simp

theorem drop_hdr8 (n : Nat) (t : UInt8) (e : Nat) (payload : Bytes) :
    (leN 3 n ++ [t] ++ leN 4 e ++ payload).drop 8 = payload := by
  rw [List.drop_append_of_le_length (by simp), List.drop_of_length_le (by simp)]
  simp

/-- a section with the 4-byte header -/
theorem secBytesOk_small (n : Nat) (t : UInt8) (payload : Bytes) (hn : n = 4 + payload.length) (hlt : n < 0xFFFFFF)
    (h2 : t.toNat = 0x02 → 20 ≤ payload.length) (hfv : t.toNat = 0x17 → FvBytesOk payload) :
    SecBytesOk (leN 3 n ++ [t] ++ payload) := by
  have h3 := fld_hdr3 n t payload (by omega)
  refine ⟨by simp; omega, ?_, ?_, ?_, ?_⟩
  · intro c; rw [h3.1] at c; omega
  · unfold secSize; rw [h3.1, if_neg (by omega)]; simp; omega
  · unfold secHl; rw [h3.1, h3.2, if_neg (by omega)]
    by_cases ht : t.toNat = 2
    · rw [if_pos ht]; have := h2 ht; simp; omega
    · rw [if_neg ht]; simp; omega
  · intro ht
    rw [h3.2] at ht
    unfold secHl
    rw [h3.1, h3.2, if_neg (by omega), if_neg (by omega)]
    rw [drop_hdr4]
    exact hfv ht

/-- a section with the 8-byte header (3-byte size FFFFFF, 32-bit size) -/
theorem secBytesOk_big (e : Nat) (t : UInt8) (payload : Bytes) (he : e = 8 + payload.length) (hlt : e < 4294967296)
    (h2 : t.toNat = 0x02 → 20 ≤ payload.length) (hfv : t.toNat = 0x17 → FvBytesOk payload) :
    SecBytesOk (leN 3 0xFFFFFF ++ [t] ++ leN 4 e ++ payload) := by
  have h3 := fld_hdr3 0xFFFFFF t (leN 4 e ++ payload) (by omega)
  have h4 := fld_hdr4 0xFFFFFF t e payload hlt
  have hd := drop_hdr8 0xFFFFFF t e payload
  simp only [List.append_assoc] at h3 h4 hd ⊢
  refine ⟨by simp; omega, fun _ => by simp; omega, ?_, ?_, ?_⟩
  · unfold secSize; rw [h3.1, if_pos rfl, h4]; simp; omega
  · unfold secHl; rw [h3.1, h3.2, if_pos rfl]
    by_cases ht : t.toNat = 2
    · rw [if_pos ht]; have := h2 ht; simp; omega
    · rw [if_neg ht]; simp; omega
  · intro ht
    rw [h3.2] at ht
    unfold secHl
    rw [h3.1, h3.2, if_pos rfl, if_neg (by omega)]
    rw [hd]
    exact hfv ht

/-- the fields `GenSecHeader` leaves in the node, without any size bound -/
theorem genSecHeader_shape (i i' : SecInfo) (body buf' : Bytes) (h : genSecHeader i body = .ok (i', buf')) :
    i'.type = i.type ∧ body.length ≤ buf'.length ∧ (i.type ≠ 0x02 → i'.ts = i.ts) ∧
    (i.type = 0x02 → ∃ g g', i.ts = some g ∧ i'.ts = some g' ∧ g'.guid = g.guid) ∧
    i'.name = i.name ∧ i'.build = i.build ∧ i'.version = i.version ∧ i'.depex = i.depex := by
  unfold genSecHeader at h
  simp only at h
  by_cases h2 : i.type = 0x02
  · simp only [h2, if_true] at h
    cases hts : i.ts with
    | none => simp [hts] at h
    | some g =>
      simp only [hts] at h
      cases h
      refine ⟨h2.symm, ?_, fun c => absurd h2 c, fun _ => ⟨g, _, rfl, rfl, rfl⟩, rfl, rfl, rfl, rfl⟩
      simp only [List.length_append]
      omega
  · simp only [h2, if_false] at h
    cases h
    refine ⟨rfl, ?_, fun _ => rfl, fun c => absurd c h2, rfl, rfl, rfl, rfl⟩
    simp only [List.length_append]
    omega

/-- **`genSecHeader_ok`** (layer (a), every section kind `Assemble` / `replace_pe32` regenerate): the
    section `GenSecHeader` writes around `body` is one the reader accepts on its own — consistent
    size fields in both header forms, the 20-byte sub-header of a GUID-defined section, and for a
    volume-image section a payload that is a valid volume -/
theorem genSecHeader_ok (i i' : SecInfo) (body buf' : Bytes) (h : genSecHeader i body = .ok (i', buf'))
    (ht : i.type < 256) (hts : i.type ≠ 0x02 → i.ts = none)
    (hg : ∀ g, i.ts = some g → g.guid.length = 16) (hb : body.length + 28 < 4294967296)
    (hfv : i.type = 0x17 → FvBytesOk body) : SecBytesOk buf' := by
  by_cases hnf : i.type = 0x17
  · -- volume image: header + the volume
    have htb : (byte i.type).toNat = i.type := byte_toNat _ ht
    have h2 : i.type ≠ 0x02 := by omega
    have hn := hts h2
    unfold genSecHeader at h
    simp only [h2, if_false, hn, Option.isSome_none, Bool.false_eq_true] at h
    by_cases hbig : (body.length + 4) % 4294967296 ≥ 0xFFFFFF
    · simp only [hbig, if_true] at h
      have he : ((body.length + 4) % 4294967296 + 4) % 4294967296 = body.length + 8 := by omega
      rw [he] at h
      have hge : body.length + 8 ≥ 0xFFFFFF := by omega
      simp only [hge, if_true, write3] at h
      cases h
      exact secBytesOk_big _ _ _ (by omega) (by omega) (fun c => absurd (htb ▸ c) h2) (fun _ => hfv hnf)
    · simp only [hbig, if_false] at h
      have he : (body.length + 4) % 4294967296 = body.length + 4 := by omega
      rw [he] at h hbig
      simp only [hbig, if_false, write3] at h
      cases h
      exact secBytesOk_small _ _ _ (by omega) (by omega) (fun c => absurd (htb ▸ c) h2) (fun _ => hfv hnf)
  · exact (genSecHeader_good i i' body buf' h ht hnf hts hg hb).1.toBytesOk

end Fiano.Uefi

namespace Fiano.Uefi
open Fiano
open EditArith

/-! ### the section area -/

/-- one step of the reader's section walk over `P ++ X ++ R`, for a section `X` that may be a volume image -/
theorem sectionsOk_step' (fuel : Nat) (P X R : Bytes) (hP : P.length % 4 = 0) (hX : SecBytesOk X) :
    Valid.sectionsOk (fuel + 1) (P ++ (X ++ R)) P.length =
      ((if Valid.fld X 3 1 = 0x17 then Valid.fvOk fuel (X.drop (secHl X)) else true) &&
       Valid.sectionsOk fuel (P ++ (X ++ R)) (Valid.alignUp (P.length + X.length) 4)) := by
  have hlen : (P ++ (X ++ R)).length = P.length + X.length + R.length := by simp; omega
  have hx4 := hX.len4
  rw [Valid.sectionsOk]
  rw [if_neg (by rw [hlen]; omega), if_neg (by omega), if_neg (by rw [hlen]; omega)]
  have hf : ∀ k n, k + n ≤ X.length → Valid.fld (P ++ (X ++ R)) (P.length + k) n = Valid.fld X k n := by
    intro k n hk
    rw [fld_append_right, fld_append_left X R k n hk]
  have h03 : Valid.fld (P ++ (X ++ R)) P.length 3 = Valid.fld X 0 3 := by
    have := hf 0 3 (by omega); simpa using this
  have h31 : Valid.fld (P ++ (X ++ R)) (P.length + 3) 1 = Valid.fld X 3 1 := hf 3 1 (by omega)
  simp only [h03, h31]
  have hs := hX.size
  have hh := hX.hdr
  unfold secSize at hs
  -- the payload the reader hands to `fvOk`
  have hpay : ∀ hl, hl ≤ X.length →
      List.take (X.length - hl) (List.drop (P.length + hl) (P ++ (X ++ R))) = X.drop hl := by
    intro hl hle
    rw [List.drop_append, List.drop_of_length_le (by omega), List.nil_append]
    have e : P.length + hl - P.length = hl := by omega
    rw [e, List.drop_append_of_le_length hle, List.take_append_of_le_length (by simp), List.take_of_length_le (by simp)]
  by_cases hext : Valid.fld X 0 3 = 0xFFFFFF
  · have h8 := hX.ext8 hext
    have h44 : Valid.fld (P ++ (X ++ R)) (P.length + 4) 4 = Valid.fld X 4 4 := hf 4 4 (by omega)
    rw [if_pos hext] at hs
    rw [if_neg (fun c => by have := c.2; rw [hlen] at this; omega)]
    have e1 : (Valid.fld X 0 3 = 16777215) = True := by simp [hext]
    simp only [e1, if_true, h44]
    have hh' : 8 + (if Valid.fld X 3 1 = 2 then 20 else 0) ≤ X.length := by
      unfold secHl at hh; rw [if_pos hext] at hh; exact hh
    rw [hs, if_neg (by omega), if_neg (by rw [hlen]; omega)]
    have hHl : secHl X = 8 + (if Valid.fld X 3 1 = 2 then 20 else 0) := by unfold secHl; rw [if_pos hext]
    rw [hpay _ hh', ← hHl]
  · rw [if_neg hext] at hs
    rw [if_neg (fun c => hext c.1)]
    have e1 : (Valid.fld X 0 3 = 16777215) = False := by simp [hext]
    simp only [e1, if_false]
    have hh' : 4 + (if Valid.fld X 3 1 = 2 then 20 else 0) ≤ X.length := by
      unfold secHl at hh; rw [if_neg hext] at hh; exact hh
    rw [hs, if_neg (by omega), if_neg (by rw [hlen]; omega)]
    have hHl : secHl X = 4 + (if Valid.fld X 3 1 = 2 then 20 else 0) := by unfold secHl; rw [if_neg hext]
    rw [hpay _ hh', ← hHl]

/-- **the reader accepts the section area `Assemble` builds**, volume-image sections included -/
theorem sectionsOk_joinAll' (l : List Bytes) (hl : ∀ b ∈ l, SecBytesOk b) (P : Bytes) :
    ∃ fuel, Valid.sectionsOk fuel (P ++ joinAll l P.length) (Valid.alignUp P.length 4) = true := by
  induction l generalizing P with
  | nil =>
    refine ⟨1, ?_⟩
    simp only [joinAll, List.append_nil]
    rw [Valid.sectionsOk, if_pos (by unfold Valid.alignUp; omega)]
  | cons b bs ih =>
    have hr := roundUp4 P.length
    have hau : Valid.alignUp P.length 4 = roundUp P.length 4 := rfl
    have hb := hl b (by simp)
    simp only [joinAll]
    have hP' : (P ++ List.replicate (roundUp P.length 4 - P.length) 0).length = roundUp P.length 4 := by
      simp only [List.length_append, List.length_replicate]; omega
    have hP2 : (P ++ (List.replicate (roundUp P.length 4 - P.length) 0 ++ b)).length = roundUp P.length 4 + b.length := by
      simp only [List.length_append, List.length_replicate]; omega
    obtain ⟨f1, h1⟩ := ih (fun x hx => hl x (by simp [hx])) (P ++ (List.replicate (roundUp P.length 4 - P.length) 0 ++ b))
    rw [hP2] at h1
    -- a budget that is large enough for both halves
    let whole := P ++ (List.replicate (roundUp P.length 4 - P.length) 0 ++ (b ++ joinAll bs (roundUp P.length 4 + b.length)))
    refine ⟨whole.length + 40 + 1, ?_⟩
    have hstep := sectionsOk_step' (whole.length + 40) (P ++ List.replicate (roundUp P.length 4 - P.length) 0) b
      (joinAll bs (roundUp P.length 4 + b.length)) (by rw [hP']; exact hr.2.1) hb
    rw [hP'] at hstep
    simp only [List.append_assoc] at hstep h1 ⊢
    rw [hau, hstep]
    simp only [Bool.and_eq_true]
    constructor
    · by_cases ht : Valid.fld b 3 1 = 0x17
      · rw [if_pos ht]
        apply fvOk_fuel _ (hb.fv ht)
        have : (b.drop (secHl b)).length ≤ whole.length := by
          simp only [whole, List.length_append, List.length_drop]; omega
        omega
      · rw [if_neg ht]
    · apply sectionsOk_fuel f1 _ _ _ h1
      have : whole = P ++ (List.replicate (roundUp P.length 4 - P.length) 0 ++ (b ++ joinAll bs (roundUp P.length 4 + b.length))) := rfl
      rw [← this]
      omega

/-- **`section_area_ok`**: the data `Assemble` builds for a file (or for an uncompressed
    encapsulating section) from acceptable sections is a section area the reader accepts -/
theorem sectionsOk_joined (secs : List Bytes) (hs : ∀ b ∈ secs, SecBytesOk b) (hb : joinEnd secs 0 < 2 ^ 62) :
    ∃ fuel, Valid.sectionsOk fuel (joinPad4 secs []) 0 = true := by
  have h1 := joinPad4_eq secs [] (by simpa using hb)
  obtain ⟨f, h2⟩ := sectionsOk_joinAll' secs hs []
  refine ⟨f, ?_⟩
  rw [h1.1]
  simpa [Valid.alignUp] using h2

/-- every piece is inside the joined data -/
theorem joinPad4_length_ge (l : List Bytes) (acc : Bytes) : ∀ b ∈ l, b.length ≤ (joinPad4 l acc).length ∧ acc.length ≤ (joinPad4 l acc).length := by
  induction l generalizing acc with
  | nil => intro b hb; cases hb
  | cons x xs ih =>
    intro b hb
    simp only [joinPad4]
    have hacc : ∀ (y : Bytes), (acc ++ List.replicate (align4 acc.length - acc.length) 0 ++ x).length ≤ y.length →
        x.length ≤ y.length ∧ acc.length ≤ y.length := by
      intro y hy
      simp only [List.length_append, List.length_replicate] at hy
      omega
    simp only [List.mem_cons] at hb
    cases xs with
    | nil =>
      simp only [joinPad4]
      rcases hb with rfl | hb
      · exact hacc _ (Nat.le_refl _)
      · cases hb
    | cons y ys =>
      have h0 := ih (acc ++ List.replicate (align4 acc.length - acc.length) 0 ++ x) y (by simp)
      rcases hb with rfl | hb
      · exact hacc _ h0.2
      · have := ih (acc ++ List.replicate (align4 acc.length - acc.length) 0 ++ x) b hb
        exact ⟨this.1, (hacc _ this.2).2⟩

theorem joinPad4_acc_le (l : List Bytes) (acc : Bytes) : acc.length ≤ (joinPad4 l acc).length := by
  induction l generalizing acc with
  | nil => simp [joinPad4]
  | cons x xs ih =>
    simp only [joinPad4]
    have := ih (acc ++ List.replicate (align4 acc.length - acc.length) 0 ++ x)
    simp only [List.length_append, List.length_replicate] at this
    omega

/-- the joined data is short when its result is: no 64-bit wrap in `Align4` on the way -/
theorem joinEnd_le (l : List Bytes) (acc : Bytes) (hb : (joinPad4 l acc).length < 2 ^ 61) :
    joinEnd l acc.length = (joinPad4 l acc).length := by
  induction l generalizing acc with
  | nil => simp [joinPad4, joinEnd]
  | cons x xs ih =>
    simp only [joinPad4, joinEnd] at hb ⊢
    have hle := joinPad4_acc_le xs (acc ++ List.replicate (align4 acc.length - acc.length) 0 ++ x)
    have hacc : acc.length < 2 ^ 61 := by
      simp only [List.length_append, List.length_replicate] at hle
      omega
    have hr := roundUp4 acc.length
    have ha : align4 acc.length = roundUp acc.length 4 := by
      rw [align4_eq acc.length (by omega)]; unfold roundUp; omega
    have := ih (acc ++ List.replicate (align4 acc.length - acc.length) 0 ++ x) hb
    rw [← this]
    congr 1
    simp only [List.length_append, List.length_replicate, ha]
    omega

end Fiano.Uefi
