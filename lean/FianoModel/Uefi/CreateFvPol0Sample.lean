/-
  C02 (follow-up wp-c02c): a sample of erase polarity 0 for the non-vacuity of
  `createFv_wrong_polarity_writes_nothing` (Props/C02.lean): the volume node fiano parses from a 112-byte
  FFSv2 volume whose attributes have the erase-polarity bit 0x800 clear (one FREEFORM file with a RAW
  section, state 0x07, no free space), followed by a padding of 4096 bytes of 0x00, in a process whose erase
  polarity is 0 (what parsing that volume sets).  Decided by the kernel: the reader accepts the volume;
  parsing it sets polarity 0; `create-fv 112 4096 <name>` succeeds on that state.  (On the real code, from
  the bytes: corpus/C02/createfv-polarity0-*.json.)
-/
import FianoModel.Uefi.EditValidOpsDefs
import FianoModel.Uefi.ParseEval
import FianoModel.Uefi.ValidImage

namespace Fiano.Uefi.Pol0Sample
open Fiano Fiano.Uefi

def pol0Vol : Bytes := [0x00, 0x00, 0x00, 0x00, 0x00, 0x00, 0x00, 0x00, 0x00, 0x00, 0x00, 0x00, 0x00, 0x00, 0x00, 0x00, 0x78, 0xe5, 0x8c, 0x8c, 0x3d, 0x8a, 0x1c, 0x4f, 0x99, 0x35, 0x89, 0x61, 0x85, 0xc3, 0x2d, 0xd3, 0x70, 0x00, 0x00, 0x00, 0x00, 0x00, 0x00, 0x00, 0x5f, 0x46, 0x56, 0x48, 0xff, 0xf6, 0x04, 0x00, 0x48, 0x00, 0x49, 0xfe, 0x00, 0x00, 0x00, 0x02, 0x0e, 0x00, 0x00, 0x00, 0x08, 0x00, 0x00, 0x00, 0x00, 0x00, 0x00, 0x00, 0x00, 0x00, 0x00, 0x00, 0x20, 0x21, 0x22, 0x23, 0x24, 0x25, 0x26, 0x27, 0x28, 0x29, 0x2a, 0x2b, 0x2c, 0x2d, 0x2e, 0x2f, 0x5e, 0xaa, 0x02, 0x00, 0x28, 0x00, 0x00, 0x07, 0x10, 0x00, 0x00, 0x19, 0x01, 0x02, 0x03, 0x04, 0x05, 0x06, 0x07, 0x08, 0x09, 0x0a, 0x0b, 0x0c]

/-- the volume node fiano parses from it -/
def pol0V : Fv :=
  match parseWithE Hooks.none (defaultFuel pol0Vol) pol0Vol {} with
  | .ok (.bios b, _) => (firstFv b.elems).getD default
  | _ => default

set_option maxRecDepth 100000 in
/-- the reader accepts the bytes; the parse yields that volume and leaves erase polarity 0 in force -/
theorem pol0_shape :
    (Valid.validImage pol0Vol &&
     match parseWithE Hooks.none (defaultFuel pol0Vol) pol0Vol {} with
     | .ok (.bios b, st) => (firstFv b.elems).isSome && st.pol == 0
     | _ => false) = true := by decide +kernel

def newName : Guid := [0x50, 0x51, 0x52, 0x53, 0x54, 0x55, 0x56, 0x57, 0x58, 0x59, 0x5a, 0x5b, 0x5c, 0x5d, 0x5e, 0x5f]

/-- the volume, then 4096 bytes of 0x00; process polarity 0 -/
def pol0Run : Run :=
  { tree := .bios { elems := [.fv pol0V, .pad (List.replicate 4096 0) 112], buf := [], length := 4208, fr := none },
    st := { pol := 0 } }

set_option maxRecDepth 1000000 in
/-- `create-fv 112 4096 <name>` succeeds on that state -/
theorem pol0_createfv :
    (match run3 Hooks.none compactC10 [.base (.createFv 112 4096 newName)] pol0Run with
     | .ok r => r.outs.isEmpty
     | .error _ => false) = true := by decide +kernel

end Fiano.Uefi.Pol0Sample
