/-
  C02, volume header layer: when a relayout neither grows the volume nor switches it to FFSv3, the
  header patches of `Assemble.Visit` (length at 32, block count at 56, checksum at 50) write back
  what a valid header already holds — so the header rules V1–V5 of the reader carry over from the
  input volume to the assembled one.
-/
import FianoModel.Uefi.RelayoutLemmas

namespace Fiano.Uefi
open EditArith
open Fiano

/-! ### 16-bit word sums -/

theorem wordSumAux_acc : ∀ (b : Bytes) (acc : Nat), Valid.wordSumAux b acc = acc + Valid.wordSumAux b 0
  | [], acc => by simp [Valid.wordSumAux]
  | [_], acc => by simp [Valid.wordSumAux]
  | lo :: hi :: rest, acc => by
    simp only [Valid.wordSumAux]
    rw [wordSumAux_acc rest (acc + lo.toNat + 256 * hi.toNat), wordSumAux_acc rest (0 + lo.toNat + 256 * hi.toNat)]
    omega

/-- the model's `Checksum16` is the reader's word sum -/
theorem sum16_toNat : ∀ (b : Bytes), (sum16 b).toNat = Valid.wordSum b
  | [] => by simp [sum16, Valid.wordSum, Valid.wordSumAux]
  | [_] => by simp [sum16, Valid.wordSum, Valid.wordSumAux]
  | a :: c :: rest => by
    have ih := sum16_toNat rest
    unfold Valid.wordSum at ih ⊢
    simp only [sum16, Valid.wordSumAux]
    rw [wordSumAux_acc, UInt16.toNat_add, ih]
    have ha := a.toNat_lt
    have hc := c.toNat_lt
    simp [UInt16.toNat_add, UInt16.toNat_mul, UInt8.toNat_toUInt16]
    omega

theorem wordSum_lt (b : Bytes) : Valid.wordSum b < 65536 := by unfold Valid.wordSum; omega

/-- word sum of a concatenation whose first part has even length -/
theorem wordSumAux_append : ∀ (a b : Bytes), a.length % 2 = 0 →
    Valid.wordSumAux (a ++ b) 0 = Valid.wordSumAux a 0 + Valid.wordSumAux b 0
  | [], b, _ => by simp [Valid.wordSumAux]
  | [_], b, h => by simp at h
  | lo :: hi :: rest, b, h => by
    simp only [List.cons_append, Valid.wordSumAux]
    rw [wordSumAux_acc (rest ++ b), wordSumAux_append rest b (by simp at h; omega),
      wordSumAux_acc rest (0 + lo.toNat + 256 * hi.toNat)]
    omega

end Fiano.Uefi

namespace Fiano.Uefi
open EditArith
open Fiano

theorem wordSum_append (a b : Bytes) (h : a.length % 2 = 0) :
    Valid.wordSum (a ++ b) = (Valid.wordSum a + Valid.wordSum b) % 65536 := by
  unfold Valid.wordSum
  rw [wordSumAux_append a b h]
  omega

theorem take_splice_le (b : Bytes) (off : Nat) (d : Bytes) (n : Nat) (hn : n ≤ off) (h : off + d.length ≤ b.length) :
    (splice b off d).take n = b.take n := by
  unfold splice
  rw [List.append_assoc, List.take_append_of_le_length (by simp; omega), List.take_take]
  congr 1; omega

theorem take_three (a m c : Bytes) (n : Nat) (h : a.length + m.length ≤ n) :
    (a ++ m ++ c).take n = a ++ m ++ c.take (n - a.length - m.length) := by
  rw [List.take_append, List.take_of_length_le (by simp; omega)]
  congr 2
  simp; omega

/-- a buffer split around the 16-bit word at offset `k` -/
theorem split_word (x : Bytes) (k : Nat) (h : k + 2 ≤ x.length) :
    ∃ w0 w1, x = x.take k ++ [w0, w1] ++ x.drop (k + 2) := by
  have hs := slice_eq_of_append x k 2 h
  have hl := slice_length x k 2 h
  match hx : slice x k 2, hl with
  | [w0, w1], _ => exact ⟨w0, w1, by rw [hx] at hs; exact hs⟩

/-- **the checksum patch restores a valid header**: zeroing the checksum word at 50, summing the
    header, and writing `0 - sum` back yields the buffer one started from, when the header summed to
    zero before (rule V4) -/
theorem restore_checksum (x : Bytes) (hlen : Nat) (h52 : 52 ≤ hlen) (hle : hlen ≤ x.length) (hev : hlen % 2 = 0)
    (hsum : Valid.wordSum (x.take hlen) = 0) :
    splice (splice x 50 [0, 0]) 50 (leN 2 ((0 - sum16 ((splice x 50 [0, 0]).take hlen)).toNat)) = x := by
  obtain ⟨w0, w1, hx⟩ := split_word x 50 (by omega)
  have h50 : (x.take 50).length = 50 := by simp; omega
  -- the header, split around the checksum word
  have htake : x.take hlen = x.take 50 ++ [w0, w1] ++ (x.drop 52).take (hlen - 52) := by
    have e := congrArg (List.take hlen) hx
    rw [take_three _ _ _ _ (by simp [h50]; omega)] at e
    rw [e, h50]
    rfl
  have hz : splice x 50 [0, 0] = x.take 50 ++ [0, 0] ++ x.drop 52 := by
    unfold splice; simp
  have hztake : (splice x 50 [0, 0]).take hlen = x.take 50 ++ [0, 0] ++ (x.drop 52).take (hlen - 52) := by
    rw [hz, take_three _ _ _ _ (by simp [h50]; omega), h50]
    rfl
  have hA : (x.take 50).length % 2 = 0 := by rw [h50]
  have hA2 : (x.take 50 ++ [w0, w1]).length % 2 = 0 := by simp [h50]
  have hA0 : (x.take 50 ++ [(0 : UInt8), 0]).length % 2 = 0 := by simp [h50]
  rw [htake, wordSum_append _ _ hA2, wordSum_append _ _ hA] at hsum
  have hw : Valid.wordSum [w0, w1] = w0.toNat + 256 * w1.toNat := by
    have := w0.toNat_lt; have := w1.toNat_lt
    simp [Valid.wordSum, Valid.wordSumAux]; omega
  have hw0 : Valid.wordSum [(0 : UInt8), 0] = 0 := by simp [Valid.wordSum, Valid.wordSumAux]
  have hck : (0 - sum16 ((splice x 50 [0, 0]).take hlen)).toNat = w0.toNat + 256 * w1.toNat := by
    rw [UInt16.toNat_sub, sum16_toNat, hztake, wordSum_append _ _ hA0, wordSum_append _ _ hA, hw0]
    rw [hw] at hsum
    have := wordSum_lt (x.take 50)
    have := wordSum_lt ((x.drop 52).take (hlen - 52))
    have := w0.toNat_lt; have := w1.toNat_lt
    simp
    omega
  rw [hck]
  have hle2 : leN 2 (w0.toNat + 256 * w1.toNat) = [w0, w1] := by
    have := leN_fromLE [w0, w1]
    simpa [fromLE] using this
  rw [hle2, hz]
  unfold splice
  have : (x.take 50 ++ [0, 0] ++ x.drop 52).take 50 = x.take 50 := by
    rw [List.append_assoc, List.take_append_of_le_length (by omega), List.take_of_length_le (by omega)]
  rw [this]
  have : (x.take 50 ++ [0, 0] ++ x.drop 52).drop (50 + [w0, w1].length) = x.drop 52 := by
    rw [List.drop_append_of_le_length (by simp [h50]), List.drop_of_length_le (by simp [h50])]
    simp
  rw [this]
  exact hx.symm

end Fiano.Uefi

namespace Fiano.Uefi
open EditArith
open Fiano

theorem slice_of_fld (x : Bytes) (off k n : Nat) (h : off + k ≤ x.length) (hf : Valid.fld x off k = n) :
    slice x off k = leN k n := by
  have hl := slice_length x off k h
  have := leN_fromLE' (slice x off k) k hl
  unfold Valid.fld at hf
  unfold slice at this ⊢
  rw [hf] at this
  exact this.symm

namespace EditArith
/-- **the header patches are the identity on a valid header** whose length and block-count fields
    already hold the values written (no growth), when the file system GUID is not switched -/
theorem patchFvHeader_id (x : Bytes) (length count headerLen : Nat) (h60 : 60 ≤ x.length)
    (hlen : Valid.fld x 32 8 = length) (hcnt : Valid.fld x 56 4 = count)
    (h52 : 52 ≤ headerLen) (hle : headerLen ≤ x.length) (hev : headerLen % 2 = 0)
    (hsum : Valid.wordSum (x.take headerLen) = 0) :
    patchFvHeader x length none count headerLen = .ok x := by
  unfold patchFvHeader
  rw [if_neg (by omega)]
  simp only
  have e1 : splice x 32 (leN 8 length) = x := by
    rw [← slice_of_fld x 32 8 length (by omega) hlen]; exact splice_slice_self x 32 8 (by omega)
  rw [e1]
  have e2 : splice x 56 (leN 4 count) = x := by
    rw [← slice_of_fld x 56 4 count (by omega) hcnt]; exact splice_slice_self x 56 4 (by omega)
  rw [e2]
  have hl4 : (splice x 50 [0, 0]).length = x.length := splice_length _ _ _ (by simp; omega)
  rw [if_neg (by rw [hl4]; omega), if_neg (by omega)]
  rw [restore_checksum x headerLen h52 hle hev hsum]
end EditArith

/-- the reader's file walk may start at the unaligned end of the headers: the bytes up to the next
    8-byte boundary are erased filler -/
theorem filesOk_from_unaligned (fuel : Nat) (fv : Bytes) (e : UInt8) (first D : Nat) (hD : D = Valid.alignUp first 8)
    (hle : D ≤ fv.length) (her : Valid.allAre e ((fv.drop first).take (D - first)) = true) :
    Valid.filesOk (fuel + 1) fv e first = Valid.filesOk (fuel + 1) fv e D := by
  have hfd : first ≤ D := by rw [hD]; unfold Valid.alignUp; omega
  have hDD : Valid.alignUp D 8 = D := by rw [hD]; unfold Valid.alignUp; omega
  have hsplit : fv.drop first = (fv.drop first).take (D - first) ++ fv.drop D := by
    have := (List.take_append_drop (D - first) (fv.drop first)).symm
    rw [List.drop_drop] at this
    have e : first + (D - first) = D := by omega
    rw [e] at this
    exact this
  have hall : Valid.allAre e (fv.drop first) = Valid.allAre e (fv.drop D) := by
    have h1 : Valid.allAre e (fv.drop first) =
        (Valid.allAre e ((fv.drop first).take (D - first)) && Valid.allAre e (fv.drop D)) := by
      rw [← allAre_append, ← hsplit]
    rw [h1, her, Bool.true_and]
  have L : Valid.filesOk (fuel + 1) fv e first =
      (if first > fv.length then false
       else if D + 24 > fv.length then Valid.allAre e (fv.drop first)
       else if Valid.allAre e ((fv.drop D).take 24) then Valid.allAre e (fv.drop first)
       else
         Valid.allAre e ((fv.drop first).take (D - first)) &&
         match Valid.fileSize (fv.drop D) with
         | none => false
         | some (size, hl) =>
           decide (hl ≤ size) && decide (D + size ≤ fv.length) &&
           Valid.fileOk fuel ((fv.drop D).take size) D &&
           Valid.filesOk fuel fv e (D + size)) := by
    rw [Valid.filesOk]; simp only [← hD]; rfl
  have R : Valid.filesOk (fuel + 1) fv e D =
      (if D > fv.length then false
       else if D + 24 > fv.length then Valid.allAre e (fv.drop D)
       else if Valid.allAre e ((fv.drop D).take 24) then Valid.allAre e (fv.drop D)
       else
         Valid.allAre e ((fv.drop D).take (D - D)) &&
         match Valid.fileSize (fv.drop D) with
         | none => false
         | some (size, hl) =>
           decide (hl ≤ size) && decide (D + size ≤ fv.length) &&
           Valid.fileOk fuel ((fv.drop D).take size) D &&
           Valid.filesOk fuel fv e (D + size)) := by
    rw [Valid.filesOk]; simp only [hDD]; rfl
  rw [L, R]
  have h1 : ¬ first > fv.length := by omega
  have h2 : ¬ D > fv.length := by omega
  simp only [h1, h2, if_false, hall, her, Nat.sub_self, List.take_zero, allAre_nil]

end Fiano.Uefi

namespace Fiano.Uefi
open EditArith
open Fiano

/-! ### the reader's volume check, split into its header part and its file-area part -/

def fvFirst (b : Bytes) : Nat :=
  if Valid.fld b 52 2 = 0 then Valid.fld b 48 2 else Valid.fld b 52 2 + Valid.fld b (Valid.fld b 52 2 + 16) 4

def fvErased (b : Bytes) : UInt8 := if Valid.fld b 44 4 / 2048 % 2 = 1 then 0xFF else 0x00

def fvIsFfs (b : Bytes) : Bool :=
  decide ((b.drop 16).take 16 = Valid.ffs2 ∨ (b.drop 16).take 16 = Valid.ffs3)

/-- rules V1–V5 -/
def hdrOk (b : Bytes) : Bool :=
  decide (64 ≤ b.length) &&
  (decide (Valid.fld b 32 8 = b.length) && decide ((b.drop 40).take 4 = Valid.fvSig) && decide (Valid.fld b 48 2 ≤ b.length) &&
  (match Valid.blockMap (b.length / 8 + 1) b 56 0 with
   | none => false
   | some (total, stop) => decide (stop = Valid.fld b 48 2) && decide (total = Valid.fld b 32 8)) &&
  decide (Valid.wordSum (b.take (Valid.fld b 48 2)) = 0) &&
  (if Valid.fld b 52 2 = 0 then true
   else decide (Valid.fld b 48 2 ≤ Valid.fld b 52 2) && decide (Valid.fld b 52 2 + 20 ≤ Valid.fld b 32 8) &&
        decide (20 ≤ Valid.fld b (Valid.fld b 52 2 + 16) 4) &&
        decide (Valid.fld b 52 2 + Valid.fld b (Valid.fld b 52 2 + 16) 4 ≤ Valid.fld b 32 8)))

theorem fvOk_eq (fuel : Nat) (b : Bytes) :
    Valid.fvOk (fuel + 1) b =
      (hdrOk b && (if fvIsFfs b then Valid.filesOk fuel b (fvErased b) (fvFirst b) else true)) := by
  unfold Valid.fvOk hdrOk fvIsFfs fvErased fvFirst
  by_cases h64 : b.length < 64
  · rw [if_pos h64]
    have : decide (64 ≤ b.length) = false := by simp; omega
    rw [this]; rfl
  · rw [if_neg h64]
    have : decide (64 ≤ b.length) = true := by simp; omega
    rw [this]
    simp only [Bool.true_and]
    by_cases hf : (b.drop 16).take 16 = Valid.ffs2 ∨ (b.drop 16).take 16 = Valid.ffs3
    · simp only [hf, if_true, decide_true]; rfl
    · simp only [hf, if_false, decide_false, Bool.false_eq_true]; rfl

end Fiano.Uefi

namespace Fiano.Uefi
open EditArith
open Fiano

theorem window_of_take_eq (b b' : Bytes) (D off n : Nat) (h : b.take D = b'.take D) (hw : off + n ≤ D) :
    (b.drop off).take n = (b'.drop off).take n := by
  have e : ∀ x : Bytes, (x.drop off).take n = ((x.take D).drop off).take n := by
    intro x
    rw [List.drop_take, List.take_take]
    congr 1
    omega
  rw [e b, e b', h]

theorem fld_of_take_eq (b b' : Bytes) (D off n : Nat) (h : b.take D = b'.take D) (hw : off + n ≤ D) :
    Valid.fld b off n = Valid.fld b' off n := by
  unfold Valid.fld
  rw [window_of_take_eq b b' D off n h hw]

theorem blockMap_stop_ge (fuel : Nat) (b : Bytes) : ∀ (off acc t stop : Nat),
    Valid.blockMap fuel b off acc = some (t, stop) → off + 8 ≤ stop := by
  induction fuel with
  | zero => intro off acc t stop h; simp [Valid.blockMap] at h
  | succ n ih =>
    intro off acc t stop h
    rw [Valid.blockMap] at h
    split at h
    · cases h
    · simp only at h
      split at h
      · cases h; omega
      · split at h
        · cases h
        · have := ih _ _ _ _ h; omega

/-- the block-map walk only looks at the bytes up to where it stops -/
theorem blockMap_congr (b b' : Bytes) (D : Nat) (hl : b.length = b'.length) (ht : b.take D = b'.take D) (fuel : Nat) :
    ∀ (off acc t stop : Nat), Valid.blockMap fuel b off acc = some (t, stop) → stop ≤ D →
      Valid.blockMap fuel b' off acc = some (t, stop) := by
  induction fuel with
  | zero => intro off acc t stop h; simp [Valid.blockMap] at h
  | succ n ih =>
    intro off acc t stop h hs
    have hge := blockMap_stop_ge (n + 1) b off acc t stop h
    rw [Valid.blockMap] at h ⊢
    rw [← hl, ← fld_of_take_eq b b' D off 4 ht (by omega), ← fld_of_take_eq b b' D (off + 4) 4 ht (by omega)]
    split at h
    · cases h
    · rename_i hb
      rw [if_neg hb]
      simp only at h ⊢
      split at h
      · rename_i hz; rw [if_pos hz]; exact h
      · rename_i hz
        rw [if_neg hz]
        split at h
        · cases h
        · rename_i hz2
          rw [if_neg hz2]
          exact ih _ _ _ _ h hs

/-- **the header rules only look at the headers**: two buffers of the same length that agree up to
    `D` — beyond the fixed header, the block map and the extended header — pass V1–V5 together -/
theorem hdrOk_congr (b b' : Bytes) (D : Nat) (hl : b.length = b'.length) (ht : b.take D = b'.take D)
    (h64 : 64 ≤ D) (hh : Valid.fld b 48 2 ≤ D) (hx : Valid.fld b 52 2 ≠ 0 → Valid.fld b 52 2 + 20 ≤ D)
    (hok : hdrOk b = true) : hdrOk b' = true := by
  have f32 := fld_of_take_eq b b' D 32 8 ht (by omega)
  have f48 := fld_of_take_eq b b' D 48 2 ht (by omega)
  have f52 := fld_of_take_eq b b' D 52 2 ht (by omega)
  have w40 := window_of_take_eq b b' D 40 4 ht (by omega)
  unfold hdrOk at hok ⊢
  rw [← hl, ← f32, ← f48, ← f52, ← w40]
  have hts : b'.take (Valid.fld b 48 2) = b.take (Valid.fld b 48 2) := by
    have e : ∀ x : Bytes, x.take (Valid.fld b 48 2) = (x.take D).take (Valid.fld b 48 2) := by
      intro x; rw [List.take_take]; congr 1; omega
    rw [e b', e b, ht]
  rw [hts]
  simp only [Bool.and_eq_true, decide_eq_true_eq] at hok ⊢
  obtain ⟨h1, ⟨⟨⟨⟨⟨h2, h3⟩, h4⟩, h5⟩, h6⟩, h7⟩⟩ := hok
  refine ⟨h1, ⟨⟨⟨⟨⟨h2, h3⟩, h4⟩, ?_⟩, h6⟩, ?_⟩⟩
  · -- block map
    split at h5
    · cases h5
    · rename_i total stop hbm
      simp only [Bool.and_eq_true, decide_eq_true_eq] at h5
      have := blockMap_congr b b' D hl ht _ 56 0 total stop hbm (by rw [h5.1]; exact hh)
      rw [this]
      simp only [Bool.and_eq_true, decide_eq_true_eq]
      exact h5
  · -- extended header
    by_cases hz : Valid.fld b 52 2 = 0
    · rw [if_pos hz]
    · rw [if_neg hz] at h7 ⊢
      have f16 := fld_of_take_eq b b' D (Valid.fld b 52 2 + 16) 4 ht (by have := hx hz; omega)
      rw [← f16]
      exact h7

end Fiano.Uefi

namespace Fiano.Uefi
open EditArith
open Fiano

/-- **`relayout_valid`, whole volume**: a relayout that succeeds without growing the volume and without
    switching it to FFSv3, on a volume node whose buffer is the whole volume, passes the reader's
    header rules (V1–V5) and agrees with the node's fields, yields a volume the independent reader
    accepts in full (`fvOk`: V1–V7, L1–L4, X1–X5) -/
theorem relayoutFv_fvOk (i : FvInfo) (buf : Bytes) (files : List File) (st : St) (i' : FvInfo) (out : Bytes) (st' : St)
    (h : relayoutFv i buf files st = .ok (i', out, st'))
    (hp : st.pol = 0xFF ∨ st.pol = 0)
    (hgood : ∀ f ∈ files, GoodFile st.pol (f.info.attrs, f.buf))
    (hbound : layEnd (placed files) i.dataOffset < 2 ^ 62)
    (hfit : layEnd (placed files) i.dataOffset ≤ i.length)
    (hfull : buf.length = i.length) (hok : hdrOk buf = true) (hffs : fvIsFfs buf = true)
    (hhl : i.headerLen = Valid.fld buf 48 2)
    (hcnt : ∀ b0 bs, i.blocks = b0 :: bs → b0.count = Valid.fld buf 56 4)
    (hnoswap : (st.ffs3 && i.fsGuid == guidFFS2) = false)
    (hD : i.dataOffset = Valid.alignUp (fvFirst buf) 8) (hD64 : 64 ≤ i.dataOffset)
    (her : Valid.allAre st.pol ((buf.drop (fvFirst buf)).take (i.dataOffset - fvFirst buf)) = true)
    (hpol : st.pol = fvErased buf)
    (hext : Valid.fld buf 52 2 ≠ 0 → Valid.fld buf 52 2 + 20 ≤ i.dataOffset)
    (hhD : Valid.fld buf 48 2 ≤ i.dataOffset) :
    out.length = i.length ∧ ∃ need, ∀ fuel, need ≤ fuel → Valid.fvOk fuel out = true := by
  obtain ⟨hDle, _, hFlen, _, b0, bs, hblocks, hpatch⟩ := relayoutFv_shape i buf files st i' out st' h hp hgood hbound hfit
  have hvalid := relayoutFv_valid i buf files st i' out st' h hp hgood (by omega) hbound hfit
  rw [hnoswap, if_neg (by simp)] at hpatch
  -- the laid-out buffer agrees with the input volume up to the data offset
  have htake : (buf.take i.dataOffset).length = i.dataOffset := by simp; omega
  have hFtake : (laidOut i buf files st.pol).take i.dataOffset = buf.take i.dataOffset := by
    unfold laidOut
    rw [List.take_append_of_le_length (by omega), List.take_of_length_le (by omega)]
  have hFl : (laidOut i buf files st.pol).length = buf.length := by rw [hFlen, hfull]
  have hokF : hdrOk (laidOut i buf files st.pol) = true :=
    hdrOk_congr buf _ i.dataOffset hFl.symm hFtake.symm hD64 hhD hext hok
  -- header facts of the input, read off `hdrOk`
  have hok' := hok
  unfold hdrOk at hok'
  simp only [Bool.and_eq_true, decide_eq_true_eq] at hok'
  obtain ⟨h64, ⟨⟨⟨⟨⟨h32, _⟩, h48⟩, hbmm⟩, hsum⟩, _⟩⟩ := hok'
  -- the header patches write back what is there
  have hid : patchFvHeader (laidOut i buf files st.pol) i.length none b0.count i.headerLen =
      .ok (laidOut i buf files st.pol) := by
    apply patchFvHeader_id
    · omega
    · rw [fld_of_take_eq _ buf i.dataOffset 32 8 hFtake (by omega), h32, hfull]
    · rw [fld_of_take_eq _ buf i.dataOffset 56 4 hFtake (by omega), hcnt b0 bs hblocks]
    · -- the header holds at least the fixed part and one terminator: 56 + 8
      rw [hhl]
      have hb := hbmm
      split at hb
      · cases hb
      · rename_i total stop hbm
        simp only [Bool.and_eq_true, decide_eq_true_eq] at hb
        have := blockMap_stop_ge _ _ _ _ _ _ hbm
        omega
    · rw [hhl, hFl]; exact h48
    · rw [hhl]
      have hb := hbmm
      split at hb
      · cases hb
      · rename_i total stop hbm
        simp only [Bool.and_eq_true, decide_eq_true_eq] at hb
        -- the walk stops at 56 + 8k
        have hstop : ∀ (fuel off acc t s : Nat), Valid.blockMap fuel buf off acc = some (t, s) → off % 2 = 0 → s % 2 = 0 := by
          intro fuel
          induction fuel with
          | zero => intro off acc t s hh; simp [Valid.blockMap] at hh
          | succ n ih =>
            intro off acc t s hh ho
            rw [Valid.blockMap] at hh
            split at hh
            · cases hh
            · simp only at hh
              split at hh
              · cases hh; omega
              · split at hh
                · cases hh
                · exact ih _ _ _ _ hh (by omega)
        rw [← hb.1]
        exact hstop _ 56 0 total stop hbm (by omega)
    · rw [hhl]
      have e : (laidOut i buf files st.pol).take (Valid.fld buf 48 2) = buf.take (Valid.fld buf 48 2) := by
        have e' : ∀ x : Bytes, x.take (Valid.fld buf 48 2) = (x.take i.dataOffset).take (Valid.fld buf 48 2) := by
          intro x; rw [List.take_take]; congr 1; omega
        rw [e' _, e' buf, hFtake]
      rw [e]; exact hsum
  rw [hid] at hpatch
  cases hpatch
  refine ⟨hFlen, ?_⟩
  obtain ⟨need, hneed⟩ := hvalid.2.2
  refine ⟨need + 2, fun fuel hf => ?_⟩
  obtain ⟨n, rfl⟩ : ∃ n, fuel = n + 2 := ⟨fuel - 2, by omega⟩
  rw [fvOk_eq, hokF, Bool.true_and]
  have hffsF : fvIsFfs (laidOut i buf files st.pol) = true := by
    unfold fvIsFfs at hffs ⊢
    rw [window_of_take_eq _ buf i.dataOffset 16 16 hFtake (by omega)]
    exact hffs
  rw [hffsF, if_pos rfl]
  have hfirst : fvFirst (laidOut i buf files st.pol) = fvFirst buf := by
    unfold fvFirst
    rw [fld_of_take_eq _ buf i.dataOffset 52 2 hFtake (by omega), fld_of_take_eq _ buf i.dataOffset 48 2 hFtake (by omega)]
    by_cases hz : Valid.fld buf 52 2 = 0
    · rw [if_pos hz, if_pos hz]
    · rw [if_neg hz, if_neg hz, fld_of_take_eq _ buf i.dataOffset (Valid.fld buf 52 2 + 16) 4 hFtake (by have := hext hz; omega)]
  have herasedF : fvErased (laidOut i buf files st.pol) = st.pol := by
    have e : Valid.fld (laidOut i buf files st.pol) 44 4 = Valid.fld buf 44 4 :=
      fld_of_take_eq _ buf i.dataOffset 44 4 hFtake (by omega)
    rw [hpol] at e ⊢
    unfold fvErased at e ⊢
    rw [e]
  rw [hfirst, herasedF]
  have hfd : fvFirst buf ≤ i.dataOffset := by rw [hD]; unfold Valid.alignUp; omega
  rw [filesOk_from_unaligned n _ st.pol (fvFirst buf) i.dataOffset hD (by rw [hFlen]; omega) (by
    rw [window_of_take_eq _ buf i.dataOffset (fvFirst buf) (i.dataOffset - fvFirst buf) hFtake (by omega)]
    exact her)]
  exact hneed (n + 1) (by omega)

end Fiano.Uefi
