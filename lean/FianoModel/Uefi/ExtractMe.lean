/-
  Property C07, follow-up wp-c07c — the ME flash partition table (`$FPT`) of an ME region in
  `utk IMAGE extract DIR` / `utk DIR save OUT`: DEFINITIONS (core Lean; what the driver evaluates).

  Go code (pkg/uefi/meregion.go, pkg/visitors/extract.go, parsedir.go, assemble.go):
    * `NewMEFPT(buf)`: `bytes.Index(buf, "$FPT")`; `o` = index + 4 (the signature is excluded); error when
      `len(buf) < o + 28`; `PartitionCount` = uint32 LE at `o`; `PartitionMapStart = o + 28`;
      `l = PartitionMapStart + 32·PartitionCount` (Go `int`, 64 bit: no wrap for a 32-bit count); error when
      `len(buf) < l`; `fp.buf` = a copy of `buf[:l]`; the entries are `binary.Read` of 32-byte records
      (Name[4] Owner[4] Offset Length Reserved[3] Flags, uint32 LE) from `fp.buf[PartitionMapStart:]`.
    * `NewMERegion(buf)`: the region keeps a copy of `buf`; when `NewMEFPT` fails the error is only logged and the
      region has no table; `FreeSpaceOffset` = the largest `Offset + Length` (uint64) over the entries with
      `Offset ∉ {0, 0xffffffff}`.
    * `Extract.Visit`: the MERegion arm writes `me/meregion.bin` = the region buffer; there is no arm for `*MEFPT`
      (nothing is written, `ExtractPath` stays empty).  summary.json holds PartitionCount, PartitionMapStart, the
      entries (the name through `MEName.MarshalText`: trailing zeros trimmed; when what is left is not valid UTF-8,
      `0x` + 8 hex digits — fixes/C07-mename-json.diff) and the region's FreeSpaceOffset.
    * `ParseDir.Visit`: the region buffer is re-read; `*MEFPT` has no arm: its buffer becomes `nil`, its fields are
      what JSON delivered (`MEName.UnmarshalText`: the 10-character `0x…` form is decoded when it is hex, otherwise
      the text is copied into the 4 bytes, an error when it is longer than 4).
    * `Assemble.Visit` has no arm for `*MERegion` / `*MEFPT`: the flash image takes the region's buffer as it is.

  The JSON text layer of the name is modelled (`jsonName` of Uefi/ExtractNvar.lean: what encoding/json does to a
  Go string); the other fields are numbers / arrays of numbers (text layer assumed, as elsewhere in C07).
-/
import FianoModel.Uefi.ExtractNvar

namespace Fiano.Uefi
open Fiano

structure MeEntry where
  name     : Bytes        -- MEName, 4 bytes (in a summary: the JSON text)
  owner    : Bytes        -- [4]byte
  offset   : Nat
  length   : Nat
  reserved : List Nat     -- [3]uint32
  flags    : Nat
  deriving DecidableEq, Repr, Inhabited

structure MeFpt where
  buf      : Bytes
  count    : Nat          -- PartitionCount
  mapStart : Nat          -- PartitionMapStart
  entries  : List MeEntry
  deriving DecidableEq, Repr, Inhabited

def meSig : Bytes := [0x24, 0x46, 0x50, 0x54]

/-- `bytes.Index(buf, "$FPT")`, counting from `i` -/
def meIndex : Bytes → Nat → Option Nat
  | [], _ => none
  | b :: rest, i => if (b :: rest).take 4 = meSig then some i else meIndex rest (i + 1)

def meParseEntry (e : Bytes) : MeEntry :=
  { name := slice e 0 4, owner := slice e 4 4, offset := fromLE (slice e 8 4), length := fromLE (slice e 12 4),
    reserved := [fromLE (slice e 16 4), fromLE (slice e 20 4), fromLE (slice e 24 4)],
    flags := fromLE (slice e 28 4) }

/-- `binary.Read(r, LittleEndian, fp.Entries)` for `k` entries -/
def meParseEntries : Nat → Bytes → List MeEntry
  | 0, _ => []
  | k + 1, b => meParseEntry (b.take 32) :: meParseEntries k (b.drop 32)

/-- `NewMEFPT` -/
def meParseFpt (buf : Bytes) : Except Err MeFpt :=
  match meIndex buf 0 with
  | none => .error .err
  | some i =>
    let o := i + 4
    if buf.length < o + 28 then .error .err
    else
      let count := fromLE (slice buf o 4)
      let start := o + 28
      let l := start + 32 * count
      if buf.length < l then .error .err
      else
        let fb := buf.take l
        .ok { buf := fb, count := count, mapStart := start, entries := meParseEntries count (fb.drop start) }

/-- `FreeSpaceOffset` as `NewMERegion` computes it -/
def meFreeSpace (es : List MeEntry) : Nat :=
  es.foldl (fun acc p => if p.offset ≠ 0 ∧ p.offset ≠ 0xffffffff ∧ acc < p.offset + p.length then p.offset + p.length else acc) 0

/-! ### the name in summary.json -/

/-- `bytes.TrimRight(n, "\x00")` -/
def meTrim : Bytes → Bytes
  | [] => []
  | x :: r => if meTrim r = [] ∧ x = 0 then [] else x :: meTrim r

/-- `fmt.Sprintf("%x", n)` of a byte slice -/
def meHex (n : Bytes) : Bytes := n.flatMap (fun x => [lowDigit (x.toNat / 16), lowDigit (x.toNat % 16)])

/-- `MEName.MarshalText` -/
def meNameMarshal (n : Bytes) : Bytes :=
  if validUtf8 (meTrim n) then meTrim n else asc ['0', 'x'] ++ meHex n

/-- `fromHexChar` of encoding/hex -/
def meHexVal (c : UInt8) : Option Nat :=
  let x := c.toNat
  if 48 ≤ x ∧ x ≤ 57 then some (x - 48)
  else if 97 ≤ x ∧ x ≤ 102 then some (x - 87)
  else if 65 ≤ x ∧ x ≤ 70 then some (x - 55)
  else none

/-- `hex.Decode` (`none` = an error: odd length or a character that is no hex digit) -/
def meHexDecode : Bytes → Option Bytes
  | [] => some []
  | [_] => none
  | a :: b :: r =>
    match meHexVal a, meHexVal b, meHexDecode r with
    | some x, some y, some t => some (UInt8.ofNat (16 * x + y) :: t)
    | _, _, _ => none

/-- `MEName.UnmarshalText` (the error is the one that makes `json.Unmarshal`, hence `utk DIR save`, fail) -/
def meNameUnmarshal (b : Bytes) : Except Err Bytes :=
  let hexForm : Option Bytes :=
    if b.length = 10 ∧ b.take 2 = asc ['0', 'x'] then meHexDecode (b.drop 2) else none
  match hexForm with
  | some m => .ok m
  | none => if b.length > 4 then .error .err else .ok (b ++ List.replicate (4 - b.length) 0)

/-! ### summary.json, ParseDir -/

/-- the table as summary.json holds it: no buffer, the names as JSON text -/
def meSummary (p : MeFpt) : MeFpt :=
  { p with buf := [], entries := p.entries.map (fun e => { e with name := jsonName (meNameMarshal e.name) }) }

def meLoadEntries : List MeEntry → Except Err (List MeEntry)
  | [] => .ok []
  | e :: es =>
    match meNameUnmarshal e.name with
    | .error x => .error x
    | .ok n =>
      match meLoadEntries es with
      | .error x => .error x
      | .ok es' => .ok ({ e with name := n } :: es')

/-- the table `json.Unmarshal` + `ParseDir.Visit` build from a summary: buffer `nil` -/
def meLoad (s : MeFpt) : Except Err MeFpt :=
  match meLoadEntries s.entries with
  | .error x => .error x
  | .ok es => .ok { s with buf := [], entries := es }

/-! ### the region -/

structure MeRegionX where
  buf  : Bytes
  fpt  : Option MeFpt
  free : Nat               -- FreeSpaceOffset
  deriving DecidableEq, Repr, Inhabited

/-- `NewMERegion` (the flash-region record and type are kept by the tree model's `Region.me`) -/
def meNewRegion (buf : Bytes) : MeRegionX :=
  match meParseFpt buf with
  | .ok p => { buf := buf, fpt := some p, free := meFreeSpace p.entries }
  | .error _ => { buf := buf, fpt := none, free := 0 }

/-- the files `Extract` writes for the region visited with DirPath `dir`: the region buffer only -/
def meExtract (dir : List Comp) (r : MeRegionX) : List Entry := [(meLeaf dir, r.buf)]

/-- the region's record in summary.json: ExtractPath, the table without buffer, FreeSpaceOffset -/
def meRegionSummary (dir : List Comp) (r : MeRegionX) : Bytes × Option MeFpt × Nat :=
  (joinPath (meLeaf dir), r.fpt.map meSummary, r.free)

/-- `ParseDir` on the region -/
def meParseDir (d : Dir) (s : Bytes × Option MeFpt × Nat) : Except Err MeRegionX :=
  match readBuf d s.1 with
  | .error e => .error e
  | .ok buf =>
    match s.2.1 with
    | none => .ok { buf := buf, fpt := none, free := s.2.2 }
    | some t =>
      match meLoad t with
      | .error e => .error e
      | .ok p => .ok { buf := buf, fpt := some p, free := s.2.2 }

/-- `Assemble` on the region: no arm for `*MERegion` nor `*MEFPT` — nothing changes; the flash image reads `buf` -/
def meAssemble (r : MeRegionX) : MeRegionX := r

/-- extract the region, load it from the directory, assemble -/
def meRoundTrip (dir : List Comp) (buf : Bytes) : Except Err MeRegionX :=
  let r := meNewRegion buf
  match meParseDir ((meExtract dir r).map flat) (meRegionSummary dir r) with
  | .error e => .error e
  | .ok r' => .ok (meAssemble r')

end Fiano.Uefi
