/-
  UEFI core model — visitors.Assemble (bottom-up reconstruction of every node's buffer) and Save.

  `asm* : node → St → Except Err (node' × St)` returns the node as Go leaves it after
  `Assemble.Visit` (new buffer, updated size / attribute / length fields), threading the
  process-wide erase polarity and the visitor's `useFFS3` flag.

  The model follows the code as repaired by
    fixes/C02-setsize-boundary.diff       (`SetSize` uses `>= 0xFFFFFF` like `Write3Size`)
    fixes/C01-descriptor-reserved.diff    (the two reserved bytes of the region section are kept)
    fixes/C05-assemble-empty-blockmap.diff (a volume with files and no block map is an error, not a panic).
  Quirks reproduced on purpose are marked (Q).
-/
import FianoModel.Uefi.Parse

namespace Fiano.Uefi
open Fiano

/-! ### sections -/

/-- concatenation with zero padding to a 4-byte boundary *before* each item (the loops in the
    File and Section cases); returns data and `dLen` -/
def joinPad4 : List Bytes → Bytes → Bytes
  | [], acc => acc
  | b :: bs, acc => joinPad4 bs (acc ++ List.replicate (align4 acc.length - acc.length) 0 ++ b)

/-- the 20-byte `SectionGUIDDefinedHeader` -/
def encodeGuidDef (g : GuidDef) : Bytes := g.guid ++ leN 2 g.dataOffset ++ leN 2 g.attrs

/-- `Section.GenSecHeader` on section data `buf`; (Q) a GUID-defined section without type-specific
    header dereferences nil -/
def genSecHeader (i : SecInfo) (buf : Bytes) : Except Err (SecInfo × Bytes) :=
  let headerLen0 := 4 + (if i.ts.isSome then 20 else 0)
  let ext0 := (buf.length + headerLen0) % 4294967296
  let big := ext0 ≥ 0xFFFFFF
  let headerLen := if big then headerLen0 + 4 else headerLen0
  let ext := if big then (ext0 + 4) % 4294967296 else ext0
  let r : Except Err (Option GuidDef × Bytes) :=
    if i.type = 0x02 then
      match i.ts with
      | none => .error .panic
      | some g =>
        let g' := { g with dataOffset := headerLen % 65536 }
        .ok (some g', encodeGuidDef g' ++ buf)
    else .ok (i.ts, buf)
  match r with
  | .error e => .error e
  | .ok (ts, buf) =>
    let size3 := write3 ext
    let hdr := if ext ≥ 0xFFFFFF then leN 3 size3 ++ [byte i.type] ++ leN 4 ext
               else leN 3 size3 ++ [byte i.type]
    .ok ({ i with size3 := size3, extSize := ext, ts := ts }, hdr ++ buf)

def noteLarge (ext : Nat) (st : St) : St := if ext > 0xFFFFFF then { st with ffs3 := true } else st

/-- the leaf-section branch: UI, version and depex bodies are regenerated from the decoded fields -/
def regenLeaf (i : SecInfo) : Except Err (Option Bytes) :=
  if i.type = 0x15 then .ok (some (utf8ToUcs2 i.name))
  else if i.type = 0x14 then .ok (some (leN 2 i.build ++ utf8ToUcs2 i.version))
  else if isDepexType i.type then
    match encodeDepEx i.depex with
    | some b => .ok (some b)
    | none => .error .err
  else .ok none

/-! ### files -/

/-- `File.SetSize(size, true)` with the repaired boundary; returns (attrs, size3, extSize) -/
def setSize (attrs size : Nat) (resize : Bool) : Nat × Nat × Nat :=
  if size ≥ 0xFFFFFF then
    let ext := if resize then size + 8 else size
    (attrs ||| 0x01, write3 ext, ext)
  else (attrs &&& 0xFE, write3 size, size)

/-- the 24 (or 32) header bytes written by `binary.Write` -/
def encodeFileHeader (i : FileInfo) (ckh ckf : UInt8) (large : Bool) : Bytes :=
  i.guid ++ [ckh, ckf, byte i.type, byte i.attrs] ++ leN 3 i.size3 ++ [byte i.state]
    ++ (if large then leN 8 i.extSize else [])

/-- `File.ChecksumAndAssemble(fileData)` -/
def checksumAndAssemble (i : FileInfo) (fileData : Bytes) : FileInfo × Bytes :=
  let large := i.attrs &&& 1 ≠ 0
  let tmp := encodeFileHeader i (byte i.ckHeader) (byte i.ckFile) true
  let hs := if large then 32 else 24
  let s := sum8 (tmp.take hs) - byte i.ckFile - byte i.state
  let ckh := byte i.ckHeader - s
  let ckf : UInt8 := if i.attrs &&& 0x40 ≠ 0 then 0 - sum8 fileData else 0xAA
  ({ i with ckHeader := ckh.toNat, ckFile := ckf.toNat }, encodeFileHeader i ckh ckf large ++ fileData)

/-- `uefi.CreatePadFile(size)` under erase polarity `pol` -/
def createPadFile (pol : UInt8) (size : Nat) : Except Err Bytes :=
  if size < 24 then .error .err
  else if pol ≠ 0xFF ∧ pol ≠ 0 then .error .err
  else
    let (attrs, size3, ext) := setSize 0 size false
    let i : FileInfo := { guid := if pol = 0xFF then guidFF else guidZero, ckHeader := 0, ckFile := 0,
                          type := 0xF0, attrs := attrs, size3 := size3,
                          state := (0x07 ^^^ pol).toNat, extSize := ext, dataOffset := 24 }
    let dataLen := if attrs &&& 1 ≠ 0 then size - 32 else size - 24
    .ok (checksumAndAssemble i (List.replicate dataLen pol)).2

/-! ### volumes -/

/-- `FirmwareVolume.InsertFile(alignedOffset, fBuf)` -/
def insertFile (pol : UInt8) (buf : Bytes) (alignedOffset : Nat) (fBuf : Bytes) : Except Err Bytes :=
  if buf.length > alignedOffset then .error .err
  else if fBuf.length = 0 then .error .err
  else .ok (buf ++ List.replicate (alignedOffset - buf.length) pol ++ fBuf)

/-- one iteration of the file loop of the FirmwareVolume case: places the (already assembled)
    file buffer `fileBuf` with attribute byte `attrs`; returns the new buffer and `fileOffset` -/
def placeFile (pol : UInt8) (buf : Bytes) (fileOffset : Nat) (attrs : Nat) (fileBuf : Bytes) :
    Except Err (Bytes × Nat) :=
  if fileBuf.length = 0 then .error .err else    -- repaired (fixes/C05-assemble-empty-file): an error, not log.Fatalf
  let alignedOffset := align8 fileOffset
  let alignBase := alignmentOf attrs
  if alignBase ≠ 1 then
    let hl := if attrs &&& 1 ≠ 0 then 32 else 24
    let fdo := alignGo (alignedOffset + hl) alignBase
    let newOffset := (fdo + 18446744073709551616 - hl) % 18446744073709551616
    let gap := (newOffset + 18446744073709551616 - alignedOffset) % 18446744073709551616
    -- the gap ∈ [8,24) bump
    let newOffset := if gap ≥ 8 ∧ gap < 24 then
        (alignGo (fdo + 1) alignBase + 18446744073709551616 - hl) % 18446744073709551616 else newOffset
    if newOffset ≠ alignedOffset then
      match createPadFile pol ((newOffset + 18446744073709551616 - alignedOffset) % 18446744073709551616) with
      | .error e => .error e
      | .ok pad =>
        match insertFile pol buf alignedOffset pad with
        | .error e => .error e
        | .ok buf' =>
          match insertFile pol buf' newOffset fileBuf with
          | .error e => .error e
          | .ok buf'' => .ok (buf'', newOffset + fileBuf.length)
    else
      match insertFile pol buf newOffset fileBuf with
      | .error e => .error e
      | .ok buf' => .ok (buf', newOffset + fileBuf.length)
  else
    match insertFile pol buf alignedOffset fileBuf with
    | .error e => .error e
    | .ok buf' => .ok (buf', alignedOffset + fileBuf.length)

/-- the whole file loop -/
def placeFiles (pol : UInt8) : List (Nat × Bytes) → Bytes → Nat → Except Err Bytes
  | [], buf, _ => .ok buf
  | (attrs, fb) :: rest, buf, off =>
    match placeFile pol buf off attrs fb with
    | .error e => .error e
    | .ok (buf', off') => placeFiles pol rest buf' off'

/-- the header patches at fixed offsets 32 / 16 / 56 / 50 (needs the bytes to exist) -/
def patchFvHeader (buf : Bytes) (length : Nat) (guid : Option Guid) (count : Nat) (headerLen : Nat) :
    Except Err Bytes :=
  if buf.length < 60 then .error .panic else
  let b := splice buf 32 (leN 8 length)
  let b := match guid with
    | some g => splice b 16 (g.take 16)
    | none => b
  let b := splice b 56 (leN 4 count)
  let b := splice b 50 [0, 0]
  -- repaired (fix 233c228): a header length beyond the buffer is an error, not `fBuf[:f.HeaderLen]` past it
  if headerLen > b.length then .error .err
  else if headerLen % 2 ≠ 0 then .error .err
  else .ok (splice b 50 (leN 2 ((0 - sum16 (b.take headerLen)).toNat)))

/-- the second half of the FirmwareVolume case: out-of-space check, growth of a resizable volume,
    re-erased tail, `FreeSpace`, FFSv3 switch, header patches; `fbuf` is the re-laid buffer -/
def finishFv (i : FvInfo) (fbuf : Bytes) (st : St) : Except Err (FvInfo × Bytes × St) :=
  let newLen := fbuf.length
  if i.length < newLen ∧ ¬ i.resizable then .error .err else
  -- resize (nested volumes only)
  let rz : Except Err (Nat × List Block) :=
    if i.length < newLen then
      match i.blocks with
      | [] => .error .panic
      | b0 :: bs =>
        if b0.size = 0 then .error .err
        else
          let l := alignGo newLen b0.size
          .ok (l, { b0 with count := (l / b0.size) % 4294967296 } :: bs)
    else .ok (i.length, i.blocks)
  match rz with
  | .error e => .error e
  | .ok (length, blocks) =>
    let fbuf := if length > newLen then fbuf ++ List.replicate (length - newLen) st.pol else fbuf
    let free := (length + 18446744073709551616 - align8 newLen) % 18446744073709551616
    let swap : Bool := st.ffs3 && i.fsGuid == guidFFS2
    match blocks with
    | [] => .error .panic        -- (Q) `f.Blocks[0].Count` with an empty block map
    | b0 :: _ =>
      match patchFvHeader fbuf length (if swap then some guidFFS3 else none) b0.count i.headerLen with
      | .error e => .error e
      | .ok out =>
        .ok ({ i with length := length, blocks := blocks, freeSpace := free,
                      fsGuid := if swap then guidFFS3 else i.fsGuid }, out, { st with ffs3 := false })

/-- the FirmwareVolume case of `Assemble.Visit` once the files are assembled -/
def relayoutFv (i : FvInfo) (buf : Bytes) (files : List File) (st : St) : Except Err (FvInfo × Bytes × St) :=
  if i.length < buf.length then .error .err else
  -- fixes/C05-assemble-empty-blockmap.diff: a volume with files needs a block map (`f.Blocks[0]`)
  if i.blocks.isEmpty then .error .err else
  -- repaired (fixes/C05-assemble-dataoffset): a data offset beyond the buffer is an error, not a slice panic
  if i.dataOffset > buf.length then .error .err else
  match placeFiles st.pol (files.map (fun f => (f.info.attrs, f.buf))) (buf.take i.dataOffset) i.dataOffset with
  | .error e => .error e
  | .ok fbuf => finishFv i fbuf st

mutual

def asmSection (h : Hooks) : Section → St → Except Err (Section × St)
  | .mk i buf encap, st =>
    match asmNodes h encap st with
    | .error e => .error e
    | .ok (encap', st) =>
      match encap' with
      | [] =>
        match regenLeaf i with
        | .error e => .error e
        | .ok none => .ok (.mk i buf [], st)
        | .ok (some body) =>
          match genSecHeader i body with
          | .error e => .error e
          | .ok (i', buf') => .ok (.mk i' buf' [], noteLarge i'.extSize st)
      | _ :: _ =>
        let secData := joinPad4 (encap'.map Node.buf) []
        let body : Except Err Bytes :=
          if i.type = 0x02 then
            match i.ts with
            | none => .error .panic
            | some g =>
              if g.attrs &&& 1 ≠ 0 then
                match h.codec g.guid with
                | none => .error .err
                | some c =>
                  match c.encode secData with
                  | some b => .ok b
                  | none => .error .err
              else .ok buf       -- (Q) children ignored, the old buffer gets a second header
          else .ok secData
        match body with
        | .error e => .error e
        | .ok body =>
          match genSecHeader i body with
          | .error e => .error e
          | .ok (i', buf') => .ok (.mk i' buf' encap', noteLarge i'.extSize st)

def asmNodes (h : Hooks) : List Node → St → Except Err (List Node × St)
  | [], st => .ok ([], st)
  | .sec s :: ns, st =>
    match asmSection h s st with
    | .error e => .error e
    | .ok (s', st') =>
      match asmNodes h ns st' with
      | .error e => .error e
      | .ok (ns', st'') => .ok (.sec s' :: ns', st'')
  | .fv v :: ns, st =>
    match asmFv h v st with
    | .error e => .error e
    | .ok (v', st') =>
      match asmNodes h ns st' with
      | .error e => .error e
      | .ok (ns', st'') => .ok (.fv v' :: ns', st'')

def asmSections (h : Hooks) : List Section → St → Except Err (List Section × St)
  | [], st => .ok ([], st)
  | s :: ss, st =>
    match asmSection h s st with
    | .error e => .error e
    | .ok (s', st') =>
      match asmSections h ss st' with
      | .error e => .error e
      | .ok (ss', st'') => .ok (s' :: ss', st'')

def asmFile (h : Hooks) : File → St → Except Err (File × St)
  | .mk i buf secs, st =>
    match i.nvar with
    | some nv =>
      -- ApplyChildren visits only the store
      match h.nvarAsm nv st.pol with
      | .error e => .error e
      | .ok nv' =>
        let (attrs, size3, ext) := setSize i.attrs (24 + nv'.length) true
        let i1 := { i with attrs := attrs, size3 := size3, extSize := ext, nvar := some nv' }
        let (i2, buf') := checksumAndAssemble i1 nv'.buf
        .ok (.mk i2 buf' secs, noteLarge ext st)
    | none =>
      match asmSections h secs st with
      | .error e => .error e
      | .ok (secs', st) =>
        match secs' with
        | [] => .ok (.mk i buf [], st)
        | _ :: _ =>
          let fileData := joinPad4 (secs'.map Section.buf) []
          let (attrs, size3, ext) := setSize i.attrs (24 + fileData.length) true
          let i1 := { i with attrs := attrs, size3 := size3, extSize := ext }
          let (i2, buf') := checksumAndAssemble i1 fileData
          .ok (.mk i2 buf' secs', noteLarge ext st)

def asmFiles (h : Hooks) : List File → St → Except Err (List File × St)
  | [], st => .ok ([], st)
  | f :: fs, st =>
    match asmFile h f st with
    | .error e => .error e
    | .ok (f', st') =>
      match asmFiles h fs st' with
      | .error e => .error e
      | .ok (fs', st'') => .ok (f' :: fs', st'')

def asmFv (h : Hooks) : Fv → St → Except Err (Fv × St)
  | .mk i buf files, st =>
    match setPolarity (polOfAttrs i.attrs) st with
    | .error e => .error e
    | .ok st =>
      match asmFiles h files st with
      | .error e => .error e
      | .ok (files', st) =>
        match files' with
        | [] => .ok (.mk i buf [], st)
        | _ :: _ =>
          match relayoutFv i buf files' st with
          | .error e => .error e
          | .ok (i', buf', st') => .ok (.mk i' buf' files', st')

end

/-! ### BIOS region -/

def asmBiosElems (h : Hooks) : List BiosElem → St → Except Err (List BiosElem × St)
  | [], st => .ok ([], st)
  | .pad b o :: es, st =>
    match asmBiosElems h es st with
    | .error e => .error e
    | .ok (es', st') => .ok (.pad b o :: es', st')
  | .fv v :: es, st =>
    match asmFv h v st with
    | .error e => .error e
    | .ok (v', st') =>
      match asmBiosElems h es st' with
      | .error e => .error e
      | .ok (es', st'') => .ok (.fv v' :: es', st'')

def firstFv : List BiosElem → Option Fv
  | [] => none
  | .fv v :: _ => some v
  | .pad _ _ :: es => firstFv es

def asmBios (h : Hooks) (b : BiosRegion) (st : St) : Except Err (BiosRegion × St) :=
  match asmBiosElems h b.elems st with
  | .error e => .error e
  | .ok (es, st) =>
    match firstFv es with
    | none => .error .err                       -- "no firmware volumes in BIOS Region"
    | some v =>
      match setPolarity (polOfAttrs v.info.attrs) st with
      | .error e => .error e
      | .ok st =>
        let data := (es.map BiosElem.buf).flatten
        -- (Q) elements longer than the region fault in `copy(fBuf[offset:offset+len], …)`
        if data.length > b.length then .error .panic
        else .ok ({ b with elems := es, buf := data ++ List.replicate (b.length - data.length) st.pol }, st)

/-! ### flash image -/

def encodeRegions : List FlashRegion → Bytes
  | [] => []
  | r :: rs => leN 2 r.base ++ leN 2 r.limit ++ encodeRegions rs

def encodePerms : List (Nat × Nat × Nat) → Bytes
  | [] => []
  | (id, r, w) :: ps => leN 2 id ++ [byte r, byte w] ++ encodePerms ps

/-- the FlashDescriptor case: map, region section and master section are written back over the
    kept 4 KiB buffer; the region section from its third byte on (repaired code) -/
def asmDescriptor (d : Descriptor) : Except Err Descriptor :=
  let mapB := d.map.fields.map byte
  let regB := leN 2 d.region.eraseSize ++ encodeRegions d.region.regions
  let masB := encodePerms d.master.perms
  if d.mapStart + 16 > d.buf.length ∨ d.regionStart + 64 > d.buf.length ∨ d.masterStart + 12 > d.buf.length then
    .error .panic
  else
    let b := splice d.buf d.mapStart (mapB.take 16)
    let b := splice b (d.regionStart + 2) (regB.take 62)
    let b := splice b d.masterStart (masB.take 12)
    .ok { d with buf := b }

def asmRegions (h : Hooks) : List Region → St → Except Err (List Region × St)
  | [], st => .ok ([], st)
  | .bios b :: rs, st =>
    match asmBios h b st with
    | .error e => .error e
    | .ok (b', st') =>
      match asmRegions h rs st' with
      | .error e => .error e
      | .ok (rs', st'') => .ok (.bios b' :: rs', st'')
  | r :: rs, st =>
    match asmRegions h rs st with
    | .error e => .error e
    | .ok (rs', st') => .ok (r :: rs', st')

/-- re-point the regions to the descriptor's table -/
def repoint (tbl : List FlashRegion) (nr : Nat) (r : Region) : Region :=
  let t := r.rtype
  if t = -1 then r
  else if nr ≠ 0 ∧ t > nr then r
  else if t ≥ tbl.length then r
  else match tbl[t.toNat]? with
    | some fr => r.setFr fr
    | none => r

/-- the tiling check and concatenation -/
def tileRegions : List Region → Nat → Bytes → Except Err (Bytes × Nat)
  | [], offset, acc => .ok (acc, offset)
  | r :: rs, offset, acc =>
    match r.fr with
    | none => .error .panic
    | some fr =>
      if fr.baseOffset < offset then .error .err
      else if fr.baseOffset > offset then .error .err
      else tileRegions rs fr.endOffset (acc ++ r.buf)

def asmFlash (h : Hooks) (f : Flash) (st : St) : Except Err (Flash × St) :=
  match asmDescriptor f.ifd with
  | .error e => .error e
  | .ok ifd =>
    match asmRegions h f.regions st with
    | .error e => .error e
    | .ok (rs, st) =>
      match ifd.region.regions with
      | [] => .error .panic
      | bios :: _ =>
        if ¬ bios.valid then .error .err else
        let rs := sortRegions (rs.map (repoint ifd.region.regions ifd.map.numberOfRegions))
        match tileRegions rs 4096 ifd.buf with
        | .error e => .error e
        | .ok (buf, offset) =>
          if offset ≠ f.flashSize then .error .err
          else .ok ({ f with buf := buf, ifd := ifd, regions := rs }, st)

def asmTreeWith (h : Hooks) (t : Tree) (st : St) : Except Err (Tree × St) :=
  match t with
  | .flash f =>
    match asmFlash h f st with
    | .error e => .error e
    | .ok (f', st') => .ok (.flash f', st')
  | .bios b =>
    match asmBios h b st with
    | .error e => .error e
    | .ok (b', st') => .ok (.bios b', st')

/-- `Assemble.Run` on a parsed tree in the same process: the polarity found by the parser is still
    set; the result is the root buffer (what `Save` writes) -/
def asmWith (h : Hooks) (t : Tree) (st : St) : Except Err Bytes :=
  match asmTreeWith h t { st with ffs3 := false } with
  | .error e => .error e
  | .ok (t', _) => .ok t'.buf

/-- parse, then save, in one fresh process: `uefi.Parse` followed by `visitors.Save` -/
def save (h : Hooks) (bs : Bytes) : Except Err Bytes :=
  match parseWith h (defaultFuel bs) bs {} with
  | .error e => .error e
  | .ok (t, st) => asmWith h t st

end Fiano.Uefi
