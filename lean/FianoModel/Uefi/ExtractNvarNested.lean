/-
  NVAR stores: the directory round trip with NESTED stores (follow-up wp-c07b).

  After `ParseDir`, a valid entry whose value is a store has no file of its own: its buffer is
  `make([]byte, DataOffset)` and its `NVarStore` child — recorded in summary.json exactly when
  `parseContent` attached one (`Nvram.nestedOf`) — is the loaded nested store (entries rebuilt in the same
  way, its own buffer `nil`).  `Assemble` then takes the content of such an entry from the assembled
  child.  `asmDirStore` models `Assemble` on that loaded tree, by recursion over the store it was
  extracted from (the loaded tree is a function of it); `asmDirStore_eq`: it does exactly what C10's
  `asmStore` does on the parsed store, errors included, at every nesting depth — for names that are
  valid UTF-8 (`Utf8Deep`; otherwise F-C07-1).
-/
import FianoModel.Uefi.ExtractNvarLoad

namespace Fiano.Uefi
open Fiano Fiano.Nvram

/-- every name is valid UTF-8, at every nesting level -/
def Utf8Deep : Nat → Nat → List NVar → Prop
  | 0, _, _ => True
  | d + 1, pol, es =>
    (∀ v ∈ es, validUtf8 v.name = true) ∧ ∀ v ∈ es, ∀ ns, nestedOf pol v = some ns → Utf8Deep d pol ns.entries

theorem nvLoadN_type (n : Bool) (v : NVar) : (nvLoadN n v).type = v.type := by
  unfold nvLoadN; split <;> rfl

theorem asmDirEntries_eq (pol : Nat) (recD rec : Store → Except Nvram.Err Store) :
    ∀ (es : List NVar), (∀ v ∈ es, validUtf8 v.name = true) →
      (∀ v ∈ es, ∀ ns, nestedOf pol v = some ns → recD ns = rec ns) →
      asmDirEntries pol recD es = asmEntries pol rec es
  | [], _, _ => rfl
  | v :: t, hn, hr => by
    have ih := asmDirEntries_eq pol recD rec t (fun w hw => hn w (by simp [hw])) (fun w hw => hr w (by simp [hw]))
    have hnv := jsonName_valid v.name (hn v (by simp))
    simp only [asmDirEntries, asmEntries, ih, nvLoadN_type]
    cases hc : nestedOf pol v with
    | some ns =>
      simp only [hr v (by simp) ns hc, Option.isSome_some]
      cases rec ns with
      | error e => rfl
      | ok r =>
        simp only []
        by_cases hv : v.type.isValid = true
        · have e : nvLoadN true v = { v with buf := List.replicate v.dataOffset 0 ++ [] } := by
            unfold nvLoadN; simp [hv, hnv]
          have hb := asmNVar_buf pol v (List.replicate v.dataOffset 0 ++ [])
          simp only [hv, ↓reduceIte, e, hb]
          rfl
        · have hv' : v.type.isValid = false := by simpa using hv
          have e : nvLoadN true v = v := by unfold nvLoadN; simp [hv', hnv]
          simp only [hv', Bool.false_eq_true, ↓reduceIte, e]
          rfl
    | none =>
      simp only [Option.isSome_none]
      by_cases hv : v.type.isValid = true
      · have e : nvLoadN false v = { v with buf := List.replicate v.dataOffset 0 ++ content v } := by
          unfold nvLoadN; simp [hv, hnv]
        have hb := asmNVar_buf pol v (List.replicate v.dataOffset 0 ++ content v)
        have hcn : content { v with buf := List.replicate v.dataOffset 0 ++ content v } = content v := by
          unfold content; simp
        simp only [hv, ↓reduceIte, e, hb, hcn]
        rfl
      · have hv' : v.type.isValid = false := by simpa using hv
        have e : nvLoadN false v = v := by unfold nvLoadN; simp [hv', hnv]
        simp only [hv', Bool.false_eq_true, ↓reduceIte, e]
        rfl

/-- **the directory round trip of a store, nested stores included**: `Assemble` on the loaded tree does
    what `Assemble` does on the parsed store -/
theorem asmDirStore_eq (pol : Nat) : ∀ (d : Nat) (s : Store), Utf8Deep d pol s.entries →
    asmDirStore pol d s = asmStore pol d s := by
  intro d
  induction d with
  | zero => intro s _; rfl
  | succ d ih =>
    intro s hu
    obtain ⟨h1, h2⟩ := hu
    simp only [asmDirStore, asmStore, asmStoreWith]
    rw [asmDirEntries_eq pol (asmDirStore pol d) (asmStore pol d) s.entries h1
      (fun v hv ns hns => ih ns (h2 v hv ns hns))]
    cases asmEntries pol (asmStore pol d) s.entries with
    | error e => rfl
    | ok es => unfold layout; rfl

end Fiano.Uefi
