/-
  C09b inside GUID-defined sections (follow-up wp-c09c): the side condition "the byte lies behind the file
  header and inside the file" of `StoredGuidByte` is **derived** for every file a path selects in a parsed
  tree, from property C04 (`Faithful`): the sections of a parsed file lie behind its header and inside it.

      ve_alter_detected_stored_section :  … `r` is a byte of the `j`-th section of `f`, a GUID-defined one
                                          (`SectionByte f j r`)  ⇒  detection

  Paths of `locTree` never enter a GUID-defined section, so every node on the way is a window of the image
  and the image's length bounds every buffer (needed because `secOff` uses Go's wrapping `Align4`).
-/
import FianoModel.Uefi.ValidateEditStored
import FianoModel.Uefi.ValidateEditTop

namespace Fiano.Uefi.C09
open Fiano Fiano.Uefi Fiano.Uefi.Spec
open EditArith

/-- byte `r` of file `f` lies in its `j`-th section, and that section is GUID-defined -/
def SectionByte (f : File) (j r : Nat) : Prop :=
  match f.secs[j]? with
  | some s => s.info.type = 2 ∧ secOff f j ≤ r ∧ r < secOff f j + s.info.extSize
  | none => False

instance (f : File) (j r : Nat) : Decidable (SectionByte f j r) := by
  unfold SectionByte; split <;> infer_instance

/-- the `j`-th section of a faithful section list starts where `secAfter` says (Go's wrapping `Align4` does
    not wrap below 2^64 − 8) and ends inside the file -/
theorem ve_secsAt_nth (h : Hooks) : ∀ (secs : List Section) (fbuf : Bytes) (off idx j : Nat) (s : Section),
    SecsAt h secs fbuf off idx → fbuf.length + 8 < 2 ^ 64 → secs[j]? = some s →
    off ≤ secAfter (secs.take j) off ∧ secAfter (secs.take j) off + s.info.extSize ≤ fbuf.length
  | [], _, _, _, j, s, _, _, hj => by simp at hj
  | s0 :: ss, fbuf, off, idx, 0, s, hF, hL, hj => by
    unfold SecsAt at hF
    simp only [List.getElem?_cons_zero, Option.some.injEq] at hj
    subst hj
    have hle := hF.2.1.ext_le
    rw [List.length_drop] at hle
    simp only [List.take_zero, secAfter_nil]
    exact ⟨Nat.le_refl _, by omega⟩
  | s0 :: ss, fbuf, off, idx, j+1, s, hF, hL, hj => by
    unfold SecsAt at hF
    obtain ⟨hlt, hFs, _, _, hrest⟩ := hF
    simp only [List.getElem?_cons_succ] at hj
    have hle := hFs.ext_le
    rw [List.length_drop] at hle
    have hal : align4 (off + s0.info.extSize) = up4 (off + s0.info.extSize) := by
      rw [align4_val _ (by omega)]; rfl
    obtain ⟨h1, h2⟩ := ve_secsAt_nth h ss fbuf _ (idx + 1) j s hrest hL hj
    rw [List.take_succ_cons, secAfter_cons, hal]
    refine ⟨?_, h2⟩
    have : off ≤ up4 (off + s0.info.extSize) := by unfold up4; omega
    omega

/-- in a faithful file every byte of a section lies behind the 24-byte header and inside the file -/
theorem ve_fileF_section_inside (h : Hooks) (f : File) (ctx : Bytes) (hF : FileF h f ctx) (hL : ctx.length + 8 < 2 ^ 64)
    (j r : Nat) (s : Section) (hs : f.secs[j]? = some s) (h1 : secOff f j ≤ r) (h2 : r < secOff f j + s.info.extSize) :
    24 ≤ r ∧ r < f.info.extSize := by
  obtain ⟨i, buf, secs⟩ := f
  unfold FileF at hF
  obtain ⟨hh, hle, hbuf, _, hc⟩ := hF
  simp only [File.secs] at hs
  have hblen : buf.length = i.extSize := by rw [hbuf, List.length_take]; omega
  by_cases hsup : supportedFile i.type = true
  · rw [if_pos hsup] at hc
    obtain ⟨g1, g2⟩ := ve_secsAt_nth h secs buf i.dataOffset 0 j s hc (by omega) hs
    have hdo := fileHeaderOk_doff i ctx hh
    unfold secOff at h1 h2
    simp only [File.secs, File.info] at h1 h2 ⊢
    omega
  · rw [if_neg hsup] at hc
    rw [hc] at hs
    simp at hs

/-- the `k`-th file of a faithful file area is a faithful file, a window of the volume -/
theorem ve_filesAt_nth (h : Hooks) : ∀ (files : List File) (fvbuf : Bytes) (off free k : Nat) (f : File),
    FilesAt h files fvbuf off free → files[k]? = some f → ∃ ctx, FileF h f ctx ∧ ctx.length ≤ fvbuf.length
  | [], _, _, _, k, f, _, hk => by simp at hk
  | f0 :: fs, fvbuf, off, free, 0, f, hF, hk => by
    unfold FilesAt at hF
    simp only [List.getElem?_cons_zero, Option.some.injEq] at hk
    subst hk
    exact ⟨_, hF.2.1, by rw [List.length_drop]; omega⟩
  | f0 :: fs, fvbuf, off, free, k+1, f, hF, hk => by
    unfold FilesAt at hF
    simp only [List.getElem?_cons_succ] at hk
    exact ve_filesAt_nth h fs fvbuf _ free k f hF.2.2.2 hk

/-- the `j`-th section of a faithful file is a faithful section, a window of the file -/
theorem ve_secsAt_nth_secF (h : Hooks) : ∀ (secs : List Section) (fbuf : Bytes) (off idx j : Nat) (s : Section),
    SecsAt h secs fbuf off idx → secs[j]? = some s → ∃ ctx, SecF h s ctx ∧ ctx.length ≤ fbuf.length
  | [], _, _, _, j, s, _, hj => by simp at hj
  | s0 :: ss, fbuf, off, idx, 0, s, hF, hj => by
    unfold SecsAt at hF
    simp only [List.getElem?_cons_zero, Option.some.injEq] at hj
    subst hj
    exact ⟨_, hF.2.1, by rw [List.length_drop]; omega⟩
  | s0 :: ss, fbuf, off, idx, j+1, s, hF, hj => by
    unfold SecsAt at hF
    simp only [List.getElem?_cons_succ] at hj
    exact ve_secsAt_nth_secF h ss fbuf _ (idx + 1) j s hF.2.2.2.2 hj

/-- **a file a path selects below a faithful volume is a faithful file**, a window of the volume's data -/
theorem ve_locFv_fileF (h : Hooks) : ∀ (path : Path) (v : Fv) (data : Bytes) (loc : Loc) (f : File),
    FvF h v data → locFv path v = some loc → loc.tgt = .file f → ∃ ctx, FileF h f ctx ∧ ctx.length ≤ data.length
  | [], v, data, loc, f, _, hl, ht => by
    simp only [locFv, Option.some.injEq] at hl
    subst hl
    cases ht
  | [k], v, data, loc, f, hF, hl, ht => by
    obtain ⟨i, buf, files⟩ := v
    unfold FvF at hF
    obtain ⟨_, hle, hbuf, hc⟩ := hF
    simp only [locFv, Fv.files] at hl
    cases hk : files[k]? with
    | none => rw [hk] at hl; simp at hl
    | some f' =>
      rw [hk] at hl
      simp only [Option.some.injEq] at hl
      subst hl
      simp only [Target.file.injEq] at ht
      subst ht
      have hblen : buf.length ≤ data.length := by rw [hbuf, List.length_take]; omega
      by_cases hg : i.fsGuid = guidFFS2 ∨ i.fsGuid = guidFFS3
      · rw [if_pos hg] at hc
        obtain ⟨ctx, h1, h2⟩ := ve_filesAt_nth h files buf _ _ k f' hc hk
        exact ⟨ctx, h1, by omega⟩
      · rw [if_neg hg] at hc
        rw [hc.1] at hk
        simp at hk
  | k :: j :: rest, v, data, loc, f, hF, hl, ht => by
    obtain ⟨i, buf, files⟩ := v
    unfold FvF at hF
    obtain ⟨_, hle, hbuf, hc⟩ := hF
    have hblen : buf.length ≤ data.length := by rw [hbuf, List.length_take]; omega
    simp only [locFv, Fv.files] at hl
    cases hk : files[k]? with
    | none => rw [hk] at hl; simp at hl
    | some f0 =>
      rw [hk] at hl
      simp only at hl
      by_cases hg : i.fsGuid = guidFFS2 ∨ i.fsGuid = guidFFS3
      · rw [if_pos hg] at hc
        obtain ⟨ctx0, hF0, hl0⟩ := ve_filesAt_nth h files buf _ _ k f0 hc hk
        obtain ⟨i0, buf0, secs0⟩ := f0
        simp only [File.secs] at hl
        split at hl
        · rename_i i1 b1 w hj
          split at hl
          · rename_i h17
            cases hw : locFv rest w with
            | none => rw [hw] at hl; simp at hl
            | some l =>
              rw [hw] at hl
              simp only [Option.map_some, Option.some.injEq] at hl
              subst hl
              simp only at ht
              unfold FileF at hF0
              obtain ⟨_, hle0, hbuf0, _, hc0⟩ := hF0
              have hb0 : buf0.length ≤ ctx0.length := by rw [hbuf0, List.length_take]; omega
              by_cases hsup : supportedFile i0.type = true
              · rw [if_pos hsup] at hc0
                obtain ⟨ctx1, hS, hl1⟩ := ve_secsAt_nth_secF h secs0 buf0 _ _ j _ hc0 hj
                unfold SecF at hS
                obtain ⟨_, hle1, hbuf1, _, _, hc1⟩ := hS
                rw [if_neg (by omega), if_pos h17] at hc1
                unfold NodesFv at hc1
                have hb1 : b1.length ≤ ctx1.length := by rw [hbuf1, List.length_take]; omega
                obtain ⟨ctx, g1, g2⟩ := ve_locFv_fileF h rest w _ l f hc1.1 hw ht
                refine ⟨ctx, g1, ?_⟩
                rw [List.length_drop] at g2
                omega
              · rw [if_neg hsup] at hc0
                rw [hc0] at hj
                simp at hj
          · simp at hl
        · simp at hl
      · rw [if_neg hg] at hc
        rw [hc.1] at hk
        simp at hk

/-- the volume `nthVol` selects among faithful elements is a faithful volume, a window of the region -/
theorem ve_nthVol_fvF (h : Hooks) : ∀ (es : List BiosElem) (rest : Bytes) (abs k base cur : Nat) (x : Nat × Nat × Fv),
    ElemsAt h es rest abs → nthVol es k base cur = some x → ∃ d, FvF h x.2.2 d ∧ d.length ≤ rest.length
  | [], _, _, _, _, _, _, _, hn => by simp [nthVol] at hn
  | .pad b o :: es, rest, abs, k, base, cur, x, hF, hn => by
    unfold ElemsAt at hF
    rw [nthVol] at hn
    obtain ⟨d, h1, h2⟩ := ve_nthVol_fvF h es _ _ k base _ x hF.2.2.2.2 hn
    exact ⟨d, h1, by rw [List.length_drop] at h2; omega⟩
  | .fv v :: es, rest, abs, 0, base, cur, x, hF, hn => by
    unfold ElemsAt at hF
    simp only [nthVol, Option.some.injEq] at hn
    subst hn
    exact ⟨rest, hF.2.2.1, Nat.le_refl _⟩
  | .fv v :: es, rest, abs, k+1, base, cur, x, hF, hn => by
    unfold ElemsAt at hF
    rw [nthVol] at hn
    obtain ⟨d, h1, h2⟩ := ve_nthVol_fvF h es _ _ k _ _ x hF.2.2.2.2 hn
    exact ⟨d, h1, by rw [List.length_drop] at h2; omega⟩

theorem ve_locBios_fileF (h : Hooks) (b : BiosRegion) (rbuf : Bytes) (hF : BiosF h b rbuf) (p : Path)
    (x : Nat × Nat × Loc) (f : File) (hl : locBios b p = some x) (ht : x.2.2.tgt = .file f) :
    ∃ ctx, FileF h f ctx ∧ ctx.length ≤ rbuf.length := by
  cases p with
  | nil => simp [locBios] at hl
  | cons n rest =>
    simp only [locBios] at hl
    cases hn : nthVol b.elems n 0 0 with
    | none => rw [hn] at hl; simp at hl
    | some y =>
      obtain ⟨base, cur, v⟩ := y
      rw [hn] at hl
      simp only at hl
      cases hw : locFv rest v with
      | none => rw [hw] at hl; simp at hl
      | some l =>
        rw [hw] at hl
        simp only [Option.map_some, Option.some.injEq] at hl
        subst hl
        simp only at ht
        obtain ⟨d, h1, h2⟩ := ve_nthVol_fvF h b.elems rbuf 0 n 0 0 _ hF.2.2 hn
        obtain ⟨ctx, g1, g2⟩ := ve_locFv_fileF h rest v d l f h1 hw ht
        exact ⟨ctx, g1, by omega⟩

/-- **every file a path selects in a parsed tree is a faithful file, a window of the image** -/
theorem ve_locTree_fileF (h : Hooks) (hb : h.BoundedCodecs) (fuel : Nat) (bs : Bytes) (st st' : St) (t : Tree)
    (hp : parseWith h fuel bs st = .ok (t, st')) (hlen : GoLen bs) (path : Path) (il : ImgLoc) (f : File)
    (hl : locTree t path = some il) (ht : il.loc.tgt = .file f) :
    ∃ ctx, FileF h f ctx ∧ ctx.length ≤ bs.length := by
  have hF := parseWith_faithful h hb fuel bs st t st' hlen hp
  cases t with
  | bios b =>
    unfold Faithful at hF
    simp only [locTree] at hl
    cases hx : locBios b path with
    | none => rw [hx] at hl; simp at hl
    | some x =>
      rw [hx] at hl
      simp only [Option.map_some, Option.some.injEq] at hl
      subst hl
      exact ve_locBios_fileF h b bs hF.2 path x f hx ht
  | flash fl =>
    unfold Faithful at hF
    obtain ⟨_, _, _, _, hregs⟩ := hF
    cases path with
    | nil => simp [locTree] at hl
    | cons ρ p =>
      simp only [locTree] at hl
      split at hl
      · rename_i b hr
        split at hl
        · rename_i fr hfr
          cases hx : locBios b p with
          | none => rw [hx] at hl; simp at hl
          | some x =>
            rw [hx] at hl
            simp only [Option.map_some, Option.some.injEq] at hl
            subst hl
            have hmem : Region.bios b ∈ fl.regions := List.mem_of_getElem? hr
            obtain ⟨hi, hle⟩ := ve_regionsAt_inner h bs _ fl.regions 4096 hregs _ hmem
            unfold RegionInner at hi
            simp only [Region.buf] at hle
            obtain ⟨ctx, g1, g2⟩ := ve_locBios_fileF h b b.buf hi p x f hx ht
            exact ⟨ctx, g1, by omega⟩
        · simp at hl
      · simp at hl

/-- in a parsed tree a byte of a GUID-defined section of a selected file is a `StoredGuidByte` -/
theorem ve_sectionByte_stored (h : Hooks) (hb : h.BoundedCodecs) (fuel : Nat) (bs : Bytes) (st st' : St) (t : Tree)
    (hp : parseWith h fuel bs st = .ok (t, st')) (hgo : GoLen bs) (path : Path) (il : ImgLoc) (f : File)
    (hl : locTree t path = some il) (ht : il.loc.tgt = .file f) (j r : Nat) (hs : SectionByte f j r) :
    StoredGuidByte f j r := by
  obtain ⟨ctx, hF, hle⟩ := ve_locTree_fileF h hb fuel bs st st' t hp hgo path il f hl ht
  unfold GoLen at hgo
  unfold SectionByte at hs
  unfold StoredGuidByte
  cases hj : f.secs[j]? with
  | none => rw [hj] at hs; exact hs
  | some s =>
    rw [hj] at hs
    simp only at hs ⊢
    obtain ⟨h2, h1, h3⟩ := hs
    obtain ⟨g1, g2⟩ := ve_fileF_section_inside h f ctx hF (by omega) j r s hj h1 h3
    exact ⟨h2, h1, h3, g1, g2⟩

/-- **C09b for the stored bytes of a GUID-defined section, side condition derived**: the image parses and
    validates cleanly, `path` selects a file `f` with the checksum attribute, `r` is a byte of the `j`-th
    section of `f` and that section is GUID-defined (`SectionByte`: its header, sub-header or stored payload).
    Altering that byte is detected, whatever the codec decodes from the altered payload.
    (`GoLen b`: the image is a Go slice, shorter than 2^63 bytes.) -/
theorem ve_alter_detected_stored_section (h : Hooks) (hb : h.BoundedCodecs) {b b' : Bytes} {t : Tree} {st : St}
    {path : Path} {il : ImgLoc} {f : File} {j r : Nat}
    (hparse : parseWith h (defaultFuel b) b {} = .ok (t, st)) (hval : validate t st = [])
    (hloc : locTree t path = some il) (hreg : ∀ v ∈ il.loc.through, v.regular)
    (htgt : il.loc.tgt = .file f) (hck : hasChecksum f.info.attrs = true) (hsec : SectionByte f j r)
    (ha : Alter b b' (il.pos + r))
    (hgo : GoLen b)
    (hflash : findSignature b' = findSignature b)
    (hscan : ScanKept (b'.drop il.region) il.base il.vol (il.loc.off + r))
    (hfree : ¬ FreeMarker b' il.pos) :
    parseValidate h b' ≠ .ok [] :=
  ve_alter_detected_stored h hparse hval hloc hreg htgt hck
    (ve_sectionByte_stored h hb _ b {} st t hparse hgo path il f hloc htgt j r hsec) ha
    (by unfold GoLen at hgo; omega) hflash hscan hfree

/-- … for the **compressed payload proper** (file byte 44 or later: the payload of a section that starts right
    behind a 24-byte file header begins at byte 48) the flash-signature condition and `ScanKept` are automatic:
    what remains are the regularity of the volumes on the path and the free-space exception -/
theorem ve_alter_detected_stored_section_far (h : Hooks) (hb : h.BoundedCodecs) {b b' : Bytes} {t : Tree} {st : St}
    {path : Path} {il : ImgLoc} {f : File} {j r : Nat}
    (hparse : parseWith h (defaultFuel b) b {} = .ok (t, st)) (hval : validate t st = [])
    (hloc : locTree t path = some il) (hreg : ∀ v ∈ il.loc.through, v.regular)
    (htgt : il.loc.tgt = .file f) (hck : hasChecksum f.info.attrs = true) (hsec : SectionByte f j r) (h44 : 44 ≤ r)
    (ha : Alter b b' (il.pos + r))
    (hgo : GoLen b)
    (hfree : ¬ FreeMarker b' il.pos) :
    parseValidate h b' ≠ .ok [] :=
  ve_alter_detected_stored_section h hb hparse hval hloc hreg htgt hck hsec ha hgo
    (findSignature_alter_far ha (by omega)) ⟨by omega, fun h40 => by omega⟩ hfree

/-! ### non-vacuity -/

/-- is byte `r` of the file the path `[0, 1]` selects in `veGuidImg` a byte of its first section, a GUID-defined
    one, and does the file carry the checksum attribute? -/
def veSectionB (r : Nat) : Bool :=
  match parseWith Hooks.none (defaultFuel veGuidImg) veGuidImg {} with
  | .error _ => false
  | .ok (t, _) =>
    match locTree t [0, 1] with
    | none => false
    | some il =>
      match il.loc.tgt with
      | .file f => hasChecksum f.info.attrs && decide (SectionByte f 0 r)
      | .fvHeader _ => false

set_option maxRecDepth 100000 in
/-- the section occupies file bytes 24 … 63 of the checksummed driver of `veGuidImg` (the other hypotheses
    of the theorem on this image: `ve_sample_stored`) -/
theorem ve_sample_section :
    (veSectionB 24 && veSectionB 47 && veSectionB 48 && veSectionB 63 && !veSectionB 23 && !veSectionB 64 &&
     decide (GoLen veGuidImg)) = true := by decide +kernel

end Fiano.Uefi.C09
