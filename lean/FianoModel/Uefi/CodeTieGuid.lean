/-
  Tie T1 "code as code" for pkg/guid: the in-place `reverse` that `guid.Parse` / `GUID.String` apply
  to the fields of a GUID, as translated from the source on every run (Gen/CodeGuid.lean), is
  `List.reverse` — which is what the model (Uefi/Guid.lean, `guidSwap`) writes for it.
-/
import FianoModel.Gen.CodeGuid
import FianoModel.CodeTie.Lemmas
import FianoModel.Uefi.Guid

namespace Fiano.Uefi.CodeTie
open Fiano Fiano.GoRt
open Fiano.Gen.CodeGuid

/-- one pass of the swap loop at `i = k` -/
theorem guidReverse_step (b : List UInt8) (fuel k : Nat) (hk : k < b.length / 2) :
    fn_reverse.loop1 (fuel + 1) b (k : Int) =
      fn_reverse.loop1 fuel ((b.set (b.length - 1 - k) b[k]).set k b[b.length - 1 - k]) ((k : Int) + 1) := by
  have hlt : ((k : Int) < Int.tdiv (b.length : Int) 2) := by
    rw [Int.tdiv_eq_ediv_of_nonneg (by omega)]; omega
  have hother : ((b.length : Int) - (k : Int) - 1) = ((b.length - 1 - k : Nat) : Int) := by omega
  have h1 : idx b (k : Int) = some b[k] := idx_lt b k (by omega)
  have h2 : idx b ((b.length - 1 - k : Nat) : Int) = some b[b.length - 1 - k] := idx_lt b _ (by omega)
  have h3 : GoRt.set b ((b.length - 1 - k : Nat) : Int) b[k] = some (b.set (b.length - 1 - k) b[k]) :=
    set_ofNat b _ _ (by omega)
  have h4 : GoRt.set (b.set (b.length - 1 - k) b[k]) (k : Int) b[b.length - 1 - k]
      = some ((b.set (b.length - 1 - k) b[k]).set k b[b.length - 1 - k]) := set_ofNat _ _ _ (by simp; omega)
  simp only [fn_reverse.loop1, hlt, decide_true, if_true, hother, h1, h2, h3, h4, bind, Option.bind]

theorem guidReverse_stop (b : List UInt8) (fuel : Nat) (i : Int) (h : ¬ (i < Int.tdiv (b.length : Int) 2)) :
    fn_reverse.loop1 (fuel + 1) b i = some (b, i) := by
  simp only [fn_reverse.loop1, h, decide_false, Bool.false_eq_true, if_false, pure]

/-- from `i = k` on, the loop mirrors the positions `k … n/2-1` and their partners -/
theorem guidReverse_loop (n : Nat) : ∀ (m k : Nat) (b : List UInt8) (fuel : Nat), b.length = n → k + m = n / 2 → m < fuel →
    ∃ b' i', fn_reverse.loop1 fuel b (k : Int) = some (b', i') ∧ b'.length = n ∧
      ∀ j, b'[j]? = if (k ≤ j ∧ j < n / 2) ∨ (n - n / 2 ≤ j ∧ j + k < n) then b[n - 1 - j]? else b[j]? := by
  intro m
  induction m with
  | zero =>
    intro k b fuel hb hk hf
    obtain ⟨f, rfl⟩ : ∃ f, fuel = f + 1 := ⟨fuel - 1, by omega⟩
    have hstop : ¬ ((k : Int) < Int.tdiv (b.length : Int) 2) := by
      rw [Int.tdiv_eq_ediv_of_nonneg (by omega)]; omega
    refine ⟨b, _, guidReverse_stop b f _ hstop, hb, ?_⟩
    intro j
    have : ¬ ((k ≤ j ∧ j < n / 2) ∨ (n - n / 2 ≤ j ∧ j + k < n)) := by omega
    rw [if_neg this]
  | succ m ih =>
    intro k b fuel hb hk hf
    obtain ⟨f, rfl⟩ : ∃ f, fuel = f + 1 := ⟨fuel - 1, by omega⟩
    rw [guidReverse_step b f k (by omega)]
    have e : ((k : Int) + 1) = ((k + 1 : Nat) : Int) := by omega
    rw [e]
    obtain ⟨b', i', h1, hl, hp⟩ := ih (k + 1) ((b.set (b.length - 1 - k) b[k]).set k b[b.length - 1 - k]) f
      (by simp; omega) (by omega) (by omega)
    refine ⟨b', i', h1, hl, ?_⟩
    intro j
    rw [hp j]
    have hsw := swap_getElem? b (b.length - 1 - k) k (by omega) (by omega) (by omega)
    by_cases hc : (k + 1 ≤ j ∧ j < n / 2) ∨ (n - n / 2 ≤ j ∧ j + (k + 1) < n)
    · have hc' : (k ≤ j ∧ j < n / 2) ∨ (n - n / 2 ≤ j ∧ j + k < n) := by omega
      rw [if_pos hc, if_pos hc', hsw (n - 1 - j)]
      have a1 : ¬ (n - 1 - j = b.length - 1 - k) := by omega
      have a2 : ¬ (n - 1 - j = k) := by omega
      rw [if_neg a1, if_neg a2]
    · rw [if_neg hc, hsw j]
      by_cases hj1 : j = b.length - 1 - k
      · have hc' : (k ≤ j ∧ j < n / 2) ∨ (n - n / 2 ≤ j ∧ j + k < n) := by omega
        rw [if_pos hj1, if_pos hc']
        have : n - 1 - j = k := by omega
        rw [this]
        exact (List.getElem?_eq_getElem (by omega)).symm
      · rw [if_neg hj1]
        by_cases hj2 : j = k
        · have hc' : (k ≤ j ∧ j < n / 2) ∨ (n - n / 2 ≤ j ∧ j + k < n) := by omega
          rw [if_pos hj2, if_pos hc']
          subst hj2
          have : n - 1 - j = b.length - 1 - j := by omega
          rw [this]
          exact (List.getElem?_eq_getElem (by omega)).symm
        · have hc' : ¬ ((k ≤ j ∧ j < n / 2) ∨ (n - n / 2 ≤ j ∧ j + k < n)) := by omega
          rw [if_neg hj2, if_neg hc']

/-- `guid.reverse` as translated from the source reverses its argument in place, for every slice,
    without panic -/
theorem guidReverse_tie (b : List UInt8) : fn_reverse b = some b.reverse := by
  unfold fn_reverse
  have hfuel : b.length / 2 < ((Int.tdiv (b.length : Int) 2 - 0).toNat + 1) := by
    rw [Int.tdiv_eq_ediv_of_nonneg (by omega)]; omega
  obtain ⟨b', i', h1, hl, hp⟩ := guidReverse_loop b.length (b.length / 2) 0 b _ rfl (by omega) hfuel
  have e : ((0 : Nat) : Int) = 0 := rfl
  rw [e] at h1
  simp only [h1, bind, Option.bind, pure]
  congr 1
  apply eq_reverse_of_getElem? b b' hl
  intro j hj
  rw [hp j]
  by_cases hc : (0 ≤ j ∧ j < b.length / 2) ∨ (b.length - b.length / 2 ≤ j ∧ j + 0 < b.length)
  · rw [if_pos hc]
  · rw [if_neg hc]
    have : b.length - 1 - j = j := by omega
    rw [this]

/-- the model's `guidSwap` (Uefi/Guid.lean: `reverse` applied to the 4-2-2 byte fields) spelled with
    the translated function: each of the three fields is what `guid.reverse` leaves in place -/
theorem guidSwap_code (g : Bytes) :
    fn_reverse (g.take 4) = some (g.take 4).reverse ∧
    fn_reverse ((g.drop 4).take 2) = some ((g.drop 4).take 2).reverse ∧
    fn_reverse ((g.drop 6).take 2) = some ((g.drop 6).take 2).reverse ∧
    Uefi.guidSwap g = (g.take 4).reverse ++ ((g.drop 4).take 2).reverse ++ ((g.drop 6).take 2).reverse ++ g.drop 8 :=
  ⟨guidReverse_tie _, guidReverse_tie _, guidReverse_tie _, rfl⟩

end Fiano.Uefi.CodeTie
