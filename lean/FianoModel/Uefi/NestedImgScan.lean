/-
  Property C06, whole images (follow-up wp-c06c) — the volume scan of `NewBIOSRegion` and the
  flash-signature probe see the saved image as they saw the input: a top-level volume keeps its first
  48 bytes (zero vector, file-system GUID, length, signature, attributes) in its normal form, and
  `FindFirmwareVolumeOffset` reads nothing behind the signature of the volume it finds
  (`findFvOffset_prefix`, Uefi/ExactScan.lean).
-/
import FianoModel.Uefi.NestedImgTop
import FianoModel.Uefi.ExactScan

namespace Fiano.Uefi.Nested
open Fiano Fiano.Uefi Fiano.Uefi.Spec

variable {h : Hooks}

/-- the volume header behind its first 48 bytes -/
def tl48 (zv : Bytes) (g : Guid) (length attrs eho rsv rev : Nat) (blocks : List Block) : Bytes :=
  leN 2 (fvHdrLen blocks) ++ leN 2 (0 - sum16 (fvHeader zv g length attrs 0 eho rsv rev blocks)).toNat ++ leN 2 eho ++
    [byte rsv, byte rev] ++ encodeBlocks blocks ++ zeros 8

theorem fvHeaderCk_split (zv : Bytes) (g : Guid) (length attrs eho rsv rev : Nat) (blocks : List Block) :
    fvHeaderCk zv g length attrs eho rsv rev blocks =
      (zv ++ g ++ leN 8 length ++ fvSigBytes ++ leN 4 attrs) ++ tl48 zv g length attrs eho rsv rev blocks := by
  simp only [fvHeaderCk, fvHeader, tl48, List.append_assoc]

/-- a top-level volume and its normal form share their first 48 bytes -/
theorem serFv_head (v : CFv) (hw : wfFv h v = true) (hok : okFv h false v = true) :
    ∃ H X X', H.length = 48 ∧ serFv (flatFv v) = H ++ X ∧ serFv (flatFv (normFv h v)) = H ++ X' := by
  cases v with
  | other v =>
    have hl := length_serFv (CFv.other v) hw
    have h64 := sizeFv_ge64 (CFv.other v) hw
    refine ⟨(serFv v).take 48, (serFv v).drop 48, (serFv v).drop 48, ?_, ?_, ?_⟩
    · simp only [flatFv] at hl h64
      simp only [List.length_take, hl]; omega
    · simp only [flatFv, List.take_append_drop]
    · simp only [normFv, flatFv, List.take_append_drop]
  | ffs zv v3 attrs rev rsv blocks ext files free =>
    have w := (wfFv_ffs hw).1
    simp only [okFv, Bool.and_eq_true, Bool.or_eq_true, decide_eq_true_eq, Bool.false_and, Bool.false_eq_true,
      or_false] at hok
    have hle := hok.2
    have hfin := finishLen_keep _ _ blocks hle
    have hlen : endFiles (preLen blocks ext) (flatFiles (relay (preLen blocks ext) (normFiles h files))) +
        (endFiles (preLen blocks ext) (flatFiles files) + free -
          endFiles (preLen blocks ext) (flatFiles (relay (preLen blocks ext) (normFiles h files)))) =
        endFiles (preLen blocks ext) (flatFiles files) + free := by omega
    have hg : (if v3 then guidFFS3 else guidFFS2).length = 16 := guid_v3_length v3
    refine ⟨zv ++ (if v3 then guidFFS3 else guidFFS2) ++ leN 8 (endFiles (preLen blocks ext) (flatFiles files) + free) ++
        fvSigBytes ++ leN 4 attrs,
      tl48 zv (if v3 then guidFFS3 else guidFFS2) (endFiles (preLen blocks ext) (flatFiles files) + free) attrs
          (ehoOf blocks ext) rsv rev blocks ++ preBytes blocks ext ++
        serFiles (preLen blocks ext) (flatFiles files) ++ ffs free,
      tl48 zv (if v3 then guidFFS3 else guidFFS2) (endFiles (preLen blocks ext) (flatFiles files) + free) attrs
          (ehoOf blocks ext) rsv rev blocks ++ preBytes blocks ext ++
        serFiles (preLen blocks ext) (flatFiles (relay (preLen blocks ext) (normFiles h files))) ++
        ffs (endFiles (preLen blocks ext) (flatFiles files) + free -
          endFiles (preLen blocks ext) (flatFiles (relay (preLen blocks ext) (normFiles h files)))), ?_, ?_, ?_⟩
    · simp only [List.length_append, w.hzv, hg, leN_length, fvSigBytes]
      rfl
    · simp only [flatFv, serFv, fvHeaderCk_split, List.append_assoc]
    · simp only [normFv, hfin, flatFv, serFv, hlen, fvHeaderCk_split, List.append_assoc]

/-- the volume scan finds the saved volumes where it found the input's -/
theorem scan_norm : ∀ (is : List (Bytes × CFv)) (tail : Bytes), wfItemsC h is tail = true → okItems h is = true →
    ∀ (p : Bytes) (v : CFv) (rest : List (Bytes × CFv)), is = (p, v) :: rest →
    findFvOffset (serItems (flatItems (normItems h is)) ++ tail) = some p.length := by
  intro is tail hw hok p v rest he
  subst he
  obtain ⟨hv, hscan, _⟩ := wfItemsC_cons hw
  simp only [okItems, Bool.and_eq_true] at hok
  obtain ⟨H, X, X', hH, e1, e2⟩ := serFv_head v hv hok.1
  have a1 : serItems (flatItems ((p, v) :: rest)) ++ tail = (p ++ H) ++ (X ++ (serItems (flatItems rest) ++ tail)) := by
    simp only [flatItems, serItems, e1, List.append_assoc]
  have a2 : serItems (flatItems (normItems h ((p, v) :: rest))) ++ tail =
      (p ++ H) ++ (X' ++ (serItems (flatItems (normItems h rest)) ++ tail)) := by
    simp only [normItems, flatItems, serItems, e2, List.append_assoc]
  rw [a1] at hscan
  rw [a2]
  exact Exact.findFvOffset_prefix (p ++ H) _ _ p.length hscan (by simp only [List.length_append, hH]; omega)

/-- the tails of a well-formed item list -/
theorem wfItemsC_tail {p : Bytes} {v : CFv} {is : List (Bytes × CFv)} {tail : Bytes}
    (hw : wfItemsC h ((p, v) :: is) tail = true) : wfItemsC h is tail = true := (wfItemsC_cons hw).2.2

/-- every saved volume is found by the scan exactly behind its padding -/
theorem scanItems_norm : ∀ (is : List (Bytes × CFv)) (tail : Bytes), wfItemsC h is tail = true → okItems h is = true →
    ∀ (js : List (Bytes × CFv)), (∀ pv ∈ js, wfFv h pv.2 = true) → js = normItems h is →
    wfItemsC h js tail = true
  | [], _, _, _, js, _, he => by subst he; rfl
  | (p, v) :: is, tail, hw, hok, js, hall, he => by
    subst he
    have hs := scan_norm ((p, v) :: is) tail hw hok p v is rfl
    have hok' := hok
    simp only [okItems, Bool.and_eq_true] at hok'
    have ih := scanItems_norm is tail (wfItemsC_tail hw) hok'.2 (normItems h is)
      (fun pv hpv => hall pv (by simp only [normItems]; exact List.mem_cons_of_mem _ hpv)) rfl
    simp only [normItems, wfItemsC, Bool.and_eq_true, beq_iff_eq]
    refine ⟨⟨hall (p, normFv h v) (by simp only [normItems]; exact List.mem_cons_self), ?_⟩, ih⟩
    simpa only [normItems] using hs

/-- a saved bare BIOS region does not start with a flash signature either -/
theorem findSignature_norm (b : CBios) (hw : wfBiosC h b = true) (hok : okItems h b.items = true) :
    findSignature (serBiosC (normBios h b)) = findSignature (serBiosC b) := by
  simp only [wfBiosC, Bool.and_eq_true, Bool.not_eq_true', beq_iff_eq] at hw
  obtain ⟨⟨hne, hitems⟩, _⟩ := hw
  cases hb : b.items with
  | nil => rw [hb] at hne; cases hne
  | cons x xs =>
    obtain ⟨p, v⟩ := x
    rw [hb] at hitems hok
    obtain ⟨hv, _, _⟩ := wfItemsC_cons hitems
    simp only [okItems, Bool.and_eq_true] at hok
    obtain ⟨H, X, X', hH, e1, e2⟩ := serFv_head v hv hok.1
    have a1 : serBiosC b = (p ++ H) ++ (X ++ (serItems (flatItems xs) ++ b.tail)) := by
      simp only [serBiosC, serBios, flatBios, hb, flatItems, serItems, e1, List.append_assoc]
    have a2 : serBiosC (normBios h b) = (p ++ H) ++ (X' ++ (serItems (flatItems (normItems h xs)) ++ b.tail)) := by
      simp only [serBiosC, serBios, flatBios, normBios, hb, normItems, flatItems, serItems, e2, List.append_assoc]
    have hl : 20 ≤ (p ++ H).length := by simp only [List.length_append, hH]; omega
    rw [a1, a2, findSignature_append _ _ hl, findSignature_append _ _ hl]

end Fiano.Uefi.Nested
