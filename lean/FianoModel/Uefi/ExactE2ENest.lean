/-
  C03 follow-up (wp-c03c, round 3), layer 9: the end-to-end statement when the target volume is
  **nested** — it sits in a volume-image section of a file of another volume — at any depth.

  `ShowsFv v P` : whenever a save assembles the node `v` (erase polarity 1, no pending FFSv3 switch,
  result `GoodFv`), it leaves the process state alone and the abstract lists of the written node
  satisfy `P`.  `StableFv v` is `ShowsFv v (· = avFv v)`.  The composition lemmas walk one level up
  each:

      ShowsFv u P                                   (the edited volume: `shows_fv_of_files`, or again C)
   B  ⇒ ShowsSec (section with children [u]) P                                  (`shows_sec_of_fv`)
   A  ⇒ ShowsFile (file spre ++ S :: spost) (lists of spre ++ P ++ lists of spost) (`shows_file_of_sec`)
   C  ⇒ ShowsFv (volume fpre ++ F :: fpost)
          (list = abs fpre ++ A :: abs fpost with A.guid = F.guid, A.type = F.type;
           nested lists = lists of fpre ++ (what F shows) ++ lists of fpost)      (`shows_fv_of_file`)

  and `edit_saved_bios_shows` plugs the top-level volume into the region.  So for a file below which a
  nested volume was edited, the re-parsed image shows: the enclosing volume's list with the same files
  in the same order — the enclosing file keeps GUID and type (its body is rebuilt around the new
  volume, that is the point of the edit), every other file keeps GUID, type, attributes and body —,
  the nested volume's list as edited, every other volume's list (at any depth) as in the input tree.
  The siblings must be stable (nodes of the parsed tree are: `stable_treeSec(s)`, `stable_treeFile(s)`).
-/
import FianoModel.Uefi.ExactE2E

namespace Fiano.Uefi.Exact
open Fiano Fiano.Uefi Fiano.Uefi.Spec

/-! ### sections of the parsed tree are stable -/

def StableSec (s : Section) : Prop :=
  ∀ (st : St) (s' : Section) (st' : St), st.pol = 0xFF → st.ffs3 = false →
    asmSection Hooks.none s st = .ok (s', st') → GoodSec s' → avSection s' = avSection s

theorem treeSec_ser_inj (a b : SecI) (ha : wfSec a = true) (hb : wfSec b = true) (h : serSec a = serSec b)
    (ord : Nat) : treeSec a ord = treeSec b ord := by
  have h1 := parse_sec a ha (costSec a + costSec b) [] ord { pol := 0xFF, ffs3 := false } (by omega) rfl
  have h2 := parse_sec b hb (costSec a + costSec b) [] ord { pol := 0xFF, ffs3 := false } (by omega) rfl
  rw [h, h2] at h1
  simp only [Except.ok.injEq, Prod.mk.injEq, and_true] at h1
  exact h1.symm

theorem stable_treeSec (si : SecI) (hw : wfSec si = true) (ht : tidySec si = true) (ord : Nat) :
    StableSec (treeSec si ord) := by
  intro st s' st' hp hf h hg
  obtain ⟨_, _, si', hw', hb', hav⟩ := asm_canon_sec _ (canon_treeSec si hw ht ord) st s' st' hp hf h hg
  obtain ⟨s2, st2, h2, hb2, _⟩ := asm_sec si hw ord st hp (by intro hc; rw [hf] at hc; cases hc)
  rw [h] at h2
  cases h2
  have hinj := treeSec_ser_inj si' si hw' hw (by rw [← hb', hb2]) ord
  rw [← hav ord, hinj]

theorem stable_treeSecs : ∀ (ss : List SecI), wfSecs ss = true → tidySecs ss = true → ∀ (ord : Nat),
    ∀ s ∈ treeSecs ss ord, StableSec s
  | [], _, _, _, s, hs => by simp [treeSecs] at hs
  | si :: ss, hw, ht, ord, s, hs => by
    simp only [wfSecs, Bool.and_eq_true] at hw
    simp only [tidySecs, Bool.and_eq_true] at ht
    simp only [treeSecs, List.mem_cons] at hs
    rcases hs with rfl | hs
    · exact stable_treeSec si hw.1 ht.1 ord
    · exact stable_treeSecs ss hw.2 ht.2 (ord + 1) s hs

/-! ### what a save shows of a node -/

def ShowsFv (v : Fv) (P : List (List AbsFile) → Prop) : Prop :=
  ∀ (st : St) (v' : Fv) (st' : St), st.pol = 0xFF → st.ffs3 = false → asmFv Hooks.none v st = .ok (v', st') →
    GoodFv v' → st' = st ∧ P (avFv v')

def ShowsSec (s : Section) (P : List (List AbsFile) → Prop) : Prop :=
  ∀ (st : St) (s' : Section) (st' : St), st.pol = 0xFF → st.ffs3 = false →
    asmSection Hooks.none s st = .ok (s', st') → GoodSec s' → P (avSection s')

/-- the written file keeps GUID and type, and the lists of the volumes below it satisfy `P` -/
def ShowsFile (f : File) (P : List (List AbsFile) → Prop) : Prop :=
  ∀ (st : St) (f' : File) (st' : St), st.pol = 0xFF → st.ffs3 = false → asmFile Hooks.none f st = .ok (f', st') →
    GoodFile f' → f'.info.guid = f.info.guid ∧ f'.info.type = f.info.type ∧ P (avFile f')

theorem StableFv.shows {v : Fv} (h : StableFv v) : ShowsFv v (fun L => L = avFv v) := h

/-- a volume of the invariant whose files are stable shows its own file list, then the lists of the
    volumes nested in its files -/
theorem shows_fv_of_files (i : FvInfo) (buf : Bytes) (files : List File) (hc : CanonFv (.mk i buf files))
    (hs : ∀ f ∈ files, StableFile f) : ShowsFv (.mk i buf files) (fun L => L = absFiles files :: avFiles files) :=
  stable_fv_of_files i buf files hc hs

/-- **B**: a section whose only child is the volume `u` shows what `u` shows -/
theorem shows_sec_of_fv (si : SecInfo) (sb : Bytes) (u : Fv) (P : List (List AbsFile) → Prop)
    (hu : ShowsFv u P) : ShowsSec (.mk si sb [.fv u]) P := by
  intro st s' st' hp hf h hg
  rw [asmSection] at h
  simp only [asmNodes] at h
  cases hu' : asmFv Hooks.none u st with
  | error e => simp only [hu'] at h; cases h
  | ok r =>
    obtain ⟨u', st1⟩ := r
    simp only [hu'] at h
    split at h
    · cases h
    rename_i body hbody
    split at h
    · cases h
    rename_i i' buf' hgen
    cases h
    have hgu : GoodFv u' := hg.2.1
    obtain ⟨_, hP⟩ := hu st u' st1 hp hf hu' hgu
    simpa [avSection, avNodes] using hP

/-- assembling stable sections keeps the lists below them -/
theorem asmSections_stable : ∀ (ss : List Section), CanonSecs ss → (∀ s ∈ ss, StableSec s) → ∀ (st : St)
    (ss' : List Section) (st' : St), st.pol = 0xFF → st.ffs3 = false →
    asmSections Hooks.none ss st = .ok (ss', st') → GoodSecs ss' → avSections ss' = avSections ss
  | [], _, _, st, ss', st', _, _, h, _ => by
    simp only [asmSections, Except.ok.injEq, Prod.mk.injEq] at h
    rw [← h.1]
  | s :: ss, hc, hs, st, ss', st', hp, hf, h, hg => by
    rw [asmSections] at h
    split at h
    · cases h
    rename_i s1 st1 h1
    split at h
    · cases h
    rename_i ss1 st2 h2
    cases h
    obtain ⟨e1, _⟩ := asm_canon_sec s hc.1 st s1 st1 hp hf h1 hg.1
    subst e1
    have hs1 := hs s List.mem_cons_self st1 s1 st1 hp hf h1 hg.1
    have ih := asmSections_stable ss hc.2 (fun g hg' => hs g (List.mem_cons_of_mem _ hg')) st1 ss1 st' hp hf h2 hg.2
    simp only [avSections, hs1, ih]

theorem asmSections_path (S : Section) (spost : List Section) (P : List (List AbsFile) → Prop)
    (hS : ShowsSec S P) (hpost : ∀ s ∈ spost, StableSec s) : ∀ (spre : List Section),
    CanonSecs (spre ++ S :: spost) → (∀ s ∈ spre, StableSec s) → ∀ (st : St) (ss' : List Section) (st' : St),
    st.pol = 0xFF → st.ffs3 = false → asmSections Hooks.none (spre ++ S :: spost) st = .ok (ss', st') →
    GoodSecs ss' → ∃ L0, P L0 ∧ avSections ss' = avSections spre ++ L0 ++ avSections spost
  | [], hc, _, st, ss', st', hp, hf, h, hg => by
    simp only [List.nil_append] at h hc
    rw [asmSections] at h
    split at h
    · cases h
    rename_i s1 st1 h1
    split at h
    · cases h
    rename_i ss1 st2 h2
    cases h
    obtain ⟨e1, _⟩ := asm_canon_sec S hc.1 st s1 st1 hp hf h1 hg.1
    subst e1
    have hP := hS st1 s1 st1 hp hf h1 hg.1
    have hrest := asmSections_stable spost hc.2 hpost st1 ss1 st' hp hf h2 hg.2
    exact ⟨avSection s1, hP, by simp only [avSections, hrest, List.nil_append]⟩
  | s :: spre, hc, hs, st, ss', st', hp, hf, h, hg => by
    simp only [List.cons_append] at h hc
    rw [asmSections] at h
    split at h
    · cases h
    rename_i s1 st1 h1
    split at h
    · cases h
    rename_i ss1 st2 h2
    cases h
    obtain ⟨e1, _⟩ := asm_canon_sec s hc.1 st s1 st1 hp hf h1 hg.1
    subst e1
    have hs1 := hs s List.mem_cons_self st1 s1 st1 hp hf h1 hg.1
    obtain ⟨L0, hP, hav⟩ := asmSections_path S spost P hS hpost spre hc.2
      (fun g hg' => hs g (List.mem_cons_of_mem _ hg')) st1 ss1 st' hp hf h2 hg.2
    exact ⟨L0, hP, by simp only [avSections, hs1, hav, List.append_assoc]⟩

theorem canonFile_secs (fi : FileInfo) (fb : Bytes) (secs : List Section) (h : CanonFile (.mk fi fb secs))
    (hne : secs ≠ []) : fi.nvar = none ∧ CanonSecs secs := by
  unfold CanonFile at h
  obtain ⟨hnv, _, h⟩ := h
  rcases h with ⟨hs, _⟩ | ⟨_, _, _, _, _, _, _, hcs⟩
  · exact absurd hs hne
  · exact ⟨hnv, hcs⟩

/-- **A**: a file whose section `S` shows `P` and whose other sections are stable shows the lists of
    the sections in front, then `P`, then the lists of the sections behind; GUID and type are kept -/
theorem shows_file_of_sec (fi : FileInfo) (fb : Bytes) (spre spost : List Section) (S : Section)
    (P : List (List AbsFile) → Prop) (hc : CanonFile (.mk fi fb (spre ++ S :: spost)))
    (hS : ShowsSec S P) (hpre : ∀ s ∈ spre, StableSec s) (hpost : ∀ s ∈ spost, StableSec s) :
    ShowsFile (.mk fi fb (spre ++ S :: spost))
      (fun L => ∃ L0, P L0 ∧ L = avSections spre ++ L0 ++ avSections spost) := by
  intro st f' st' hp hf h hg
  obtain ⟨hnv, hcs⟩ := canonFile_secs fi fb _ hc (by simp)
  obtain ⟨hk1, hk2, _⟩ := asmFile_keeps fi fb _ st f' st' hnv h
  obtain ⟨secs', st1, hs, hfs⟩ := asmFile_shape fi fb _ st f' st' hnv h
  refine ⟨hk1, hk2, ?_⟩
  obtain ⟨f'i, f'b, f's⟩ := f'
  simp only [File.secs] at hfs
  subst hfs
  have hgs : GoodSecs f's := hg.2
  obtain ⟨L0, hP, hav⟩ := asmSections_path S spost P hS hpost spre hcs hpre st f's st1 hp hf hs hgs
  exact ⟨L0, hP, by simp only [avFile, hav]⟩

theorem asmFiles_path (F : File) (fpost : List File) (P : List (List AbsFile) → Prop)
    (hF : ShowsFile F P) (hpost : ∀ f ∈ fpost, StableFile f) : ∀ (fpre : List File),
    CanonFiles (fpre ++ F :: fpost) → (∀ f ∈ fpre, StableFile f) → ∀ (st : St) (fs' : List File) (st' : St),
    st.pol = 0xFF → st.ffs3 = false → asmFiles Hooks.none (fpre ++ F :: fpost) st = .ok (fs', st') →
    GoodFiles fs' → ∃ F', F'.info.guid = F.info.guid ∧ F'.info.type = F.info.type ∧ P (avFile F') ∧
      absFiles fs' = absFiles fpre ++ absFiles [F'] ++ absFiles fpost ∧
      avFiles fs' = avFiles fpre ++ avFile F' ++ avFiles fpost
  | [], hc, _, st, fs', st', hp, hf, h, hg => by
    simp only [List.nil_append] at h hc
    rw [asmFiles] at h
    split at h
    · cases h
    rename_i f1 st1 h1
    split at h
    · cases h
    rename_i fs1 st2 h2
    cases h
    obtain ⟨e1, _⟩ := asm_canon_file F hc.1 st f1 st1 hp hf h1 hg.1
    subst e1
    obtain ⟨k1, k2, hP⟩ := hF st1 f1 st1 hp hf h1 hg.1
    obtain ⟨r1, r2⟩ := asmFiles_av_stable fpost hc.2 hpost st1 fs1 st' hp hf h2 hg.2
    refine ⟨f1, k1, k2, hP, ?_, ?_⟩
    · rw [absFiles_cons, r1, absFiles_cons]; simp [absFiles]
    · simp only [avFiles, r2, List.nil_append]
  | f :: fpre, hc, hs, st, fs', st', hp, hf, h, hg => by
    simp only [List.cons_append] at h hc
    rw [asmFiles] at h
    split at h
    · cases h
    rename_i f1 st1 h1
    split at h
    · cases h
    rename_i fs1 st2 h2
    cases h
    obtain ⟨e1, _⟩ := asm_canon_file f hc.1 st f1 st1 hp hf h1 hg.1
    subst e1
    have hs1 := hs f List.mem_cons_self st1 f1 st1 hp hf h1 hg.1
    obtain ⟨F', k1, k2, hP, r1, r2⟩ := asmFiles_path F fpost P hF hpost fpre hc.2
      (fun g hg' => hs g (List.mem_cons_of_mem _ hg')) st1 fs1 st' hp hf h2 hg.2
    refine ⟨F', k1, k2, hP, ?_, ?_⟩
    · rw [absFiles_cons, absFiles_cons, r1, hs1.1, hs1.2.1]; simp only [List.append_assoc]
    · simp only [avFiles, r2, hs1.2.2, List.append_assoc]

/-- **C**: a volume of the invariant whose file `F` (not a pad file) shows `P` and whose other files are
    stable shows: its own list with the same files in the same order — `F` keeps GUID and type, the
    others keep everything —, then the lists nested in the files in front, what `F` shows, the lists
    nested in the files behind -/
theorem shows_fv_of_file (i : FvInfo) (buf : Bytes) (fpre fpost : List File) (F : File)
    (P : List (List AbsFile) → Prop) (hc : CanonFv (.mk i buf (fpre ++ F :: fpost)))
    (hF : ShowsFile F P) (hnp : F.info.type ≠ 0xF0)
    (hpre : ∀ f ∈ fpre, StableFile f) (hpost : ∀ f ∈ fpost, StableFile f) :
    ShowsFv (.mk i buf (fpre ++ F :: fpost))
      (fun L => ∃ (A : AbsFile) (LF : List (List AbsFile)), P LF ∧ A.guid = F.info.guid ∧ A.type = F.info.type ∧
        L = (absFiles fpre ++ A :: absFiles fpost) :: (avFiles fpre ++ LF ++ avFiles fpost)) := by
  intro st v' st' hp hf h hg
  obtain ⟨e, _⟩ := asm_canon_fv _ hc st v' st' hp hf h hg
  refine ⟨e, ?_⟩
  obtain ⟨st0, files', st1, hs0, hfs, hvf⟩ := asmFv_shape i buf _ st v' st' h
  have hpol := canonFv_pol _ hc
  simp only [Fv.info] at hpol
  rw [setPolarity_keep i.attrs st hpol hp] at hs0
  cases hs0
  obtain ⟨v'i, v'b, v'f⟩ := v'
  simp only [Fv.files] at hvf
  subst hvf
  obtain ⟨F', k1, k2, hP, r1, r2⟩ := asmFiles_path F fpost P hF hpost fpre (canonFv_files _ hc) hpre st v'f st1 hp hf
    hfs hg.2.2
  have hnpad : F'.isPad = false := by
    simp only [File.isPad, k2]
    simpa using hnp
  refine ⟨absFile F', avFile F', hP, by simp only [absFile, k1], by simp only [absFile, k2], ?_⟩
  simp only [avFv, r1, r2]
  rw [absFiles_cons, hnpad]
  simp [absFiles]

/-! ### the region -/

theorem asmElems_path (v1 : Fv) (post : List BiosElem) (P : List (List AbsFile) → Prop) (hv : ShowsFv v1 P)
    (hpost : ∀ u, BiosElem.fv u ∈ post → StableFv u) : ∀ (pre : List BiosElem),
    (∀ u, BiosElem.fv u ∈ pre → StableFv u) → ∀ (st : St) (es' : List BiosElem) (st' : St), st.pol = 0xFF →
    st.ffs3 = false → asmBiosElems Hooks.none (pre ++ .fv v1 :: post) st = .ok (es', st') → GoodElems es' →
    ∃ L, P L ∧ avElems es' = avElems pre ++ L ++ avElems post
  | [], _, st, es', st', hp, hf, h, hg => by
    simp only [List.nil_append] at h
    rw [asmBiosElems] at h
    split at h
    · cases h
    rename_i v2 st1 h1
    split at h
    · cases h
    rename_i es1 st2 h2
    cases h
    obtain ⟨e1, hP⟩ := hv st v2 st1 hp hf h1 hg.1
    subst e1
    obtain ⟨_, hrest⟩ := asmElems_av post hpost st1 es1 st' hp hf h2 hg.2
    exact ⟨avFv v2, hP, by simp only [avElems, hrest, List.nil_append]⟩
  | .pad b o :: pre, hs, st, es', st', hp, hf, h, hg => by
    simp only [List.cons_append] at h
    rw [asmBiosElems] at h
    split at h
    · cases h
    rename_i es1 st1 h1
    cases h
    obtain ⟨L, hP, hav⟩ := asmElems_path v1 post P hv hpost pre (fun u hu => hs u (List.mem_cons_of_mem _ hu)) st es1 st'
      hp hf h1 hg
    exact ⟨L, hP, by simp only [avElems, hav]⟩
  | .fv w :: pre, hs, st, es', st', hp, hf, h, hg => by
    simp only [List.cons_append] at h
    rw [asmBiosElems] at h
    split at h
    · cases h
    rename_i w1 st1 h1
    split at h
    · cases h
    rename_i es1 st2 h2
    cases h
    obtain ⟨e1, hw⟩ := hs w List.mem_cons_self st w1 st1 hp hf h1 hg.1
    subst e1
    obtain ⟨L, hP, hav⟩ := asmElems_path v1 post P hv hpost pre (fun u hu => hs u (List.mem_cons_of_mem _ hu)) st1 es1
      st' hp hf h2 hg.2
    exact ⟨L, hP, by simp only [avElems, hav, hw, List.append_assoc]⟩

/-- **one edit, one save, one re-parse — the target anywhere below the top-level volume `v`** (image
    without flash descriptor; any `EditorOk` editor).  As `edit_saved_bios`, but the rewritten volume
    `v1` is only required to *show* `P` (`ShowsFv`, built with `shows_fv_of_files` for the edited volume
    and B / A / C for each level above it): the re-parsed saved image shows the lists of `pre` as in the
    input, lists `L` with `P L`, the lists of `post` as in the input. -/
theorem edit_saved_bios_shows (E : Editor) (hE : EditorOk E) (b : BiosRegion) (hr : Reach (.bios b))
    (hkeep : keepTree E (.bios b)) (pre post : List BiosElem) (v v1 : Fv)
    (hdec : b.elems = pre ++ .fv v :: post)
    (hq : ∀ u, BiosElem.fv u ∈ pre ++ post → quietFv E u = true ∧ StableFv u)
    (hrw : rwFv E v = .ok v1) (P : List (List AbsFile) → Prop) (hv : ShowsFv v1 P)
    (st st' : St) (t' : Tree) (hp : st.pol = 0xFF) (hf : st.ffs3 = false)
    (ha : asmTreeWith Hooks.none (.bios { b with elems := pre ++ .fv v1 :: post }) st = .ok (t', st'))
    (hg : GoodTree t') :
    rwTree E (.bios b) = .ok (.bios { b with elems := pre ++ .fv v1 :: post }) ∧
    ∃ i' L, Spec.WF i' ∧ t'.buf = Spec.ser i' ∧ parse Hooks.none t'.buf = .ok (Spec.tree i') ∧ P L ∧
      avTree (Spec.tree i') = avElems pre ++ L ++ avElems post := by
  have hqpre : ∀ u, BiosElem.fv u ∈ pre → quietFv E u = true := fun u hu => (hq u (List.mem_append_left _ hu)).1
  have hqpost : ∀ u, BiosElem.fv u ∈ post → quietFv E u = true := fun u hu => (hq u (List.mem_append_right _ hu)).1
  have hrwt : rwTree E (.bios b) = .ok (.bios { b with elems := pre ++ .fv v1 :: post }) := by
    simp only [rwTree, rwBios, hdec, rwBiosElems_split E v v1 post hrw hqpost pre hqpre]
  refine ⟨hrwt, ?_⟩
  have hr1 : Reach (.bios { b with elems := pre ++ .fv v1 :: post }) := Reach.edit E _ _ hE hr hkeep hrwt
  obtain ⟨i, _, hrep⟩ := reach_rep _ hr1
  obtain ⟨_, i', hw, _, hb, hpa, hav⟩ := asm_rep_tree _ i st t' st' hrep hp hf ha hg
  unfold asmTreeWith at ha
  simp only at ha
  split at ha
  · cases ha
  rename_i b' st1 hb'
  cases ha
  unfold asmBios at hb'
  simp only at hb'
  split at hb'
  · cases hb'
  rename_i es' st2 hes
  split at hb'
  · cases hb'
  split at hb'
  · cases hb'
  split at hb'
  · cases hb'
  cases hb'
  have hgood : GoodElems es' := hg
  obtain ⟨L, hP, hes'⟩ := asmElems_path v1 post P hv (fun u hu => (hq u (List.mem_append_right _ hu)).2) pre
    (fun u hu => (hq u (List.mem_append_left _ hu)).2) st es' st2 hp hf hes hgood
  refine ⟨i', L, hw, hb, hpa, hP, ?_⟩
  rw [hav]
  simp only [avTree]
  exact hes'

/-! ### one level of nesting, spelled out -/

theorem rwFiles_split (E : Editor) (F F1 : File) (fpost : List File) (hF : rwFile E F = .ok (some F1))
    (hpost : quietFiles E fpost = true) : ∀ (fpre : List File), quietFiles E fpre = true →
    rwFiles E (fpre ++ F :: fpost) = .ok (fpre ++ F1 :: fpost)
  | [], _ => by
    simp only [List.nil_append]
    rw [rwFiles, hF, rwFiles_quiet E fpost hpost]
  | f :: fpre, h => by
    rw [quietFiles, Bool.and_eq_true] at h
    simp only [List.cons_append]
    rw [rwFiles, rwFile_quiet E f h.1, rwFiles_split E F F1 fpost hF hpost fpre h.2]

theorem rwSections_split (E : Editor) (S S1 : Section) (spost : List Section) (hS : rwSection E S = .ok S1)
    (hpost : quietSections E spost = true) : ∀ (spre : List Section), quietSections E spre = true →
    rwSections E (spre ++ S :: spost) = .ok (spre ++ S1 :: spost)
  | [], _ => by
    simp only [List.nil_append]
    rw [rwSections, hS, rwSections_quiet E spost hpost]
  | s :: spre, h => by
    rw [quietSections, Bool.and_eq_true] at h
    simp only [List.cons_append]
    rw [rwSections, rwSection_quiet E s h.1, rwSections_split E S S1 spost hS hpost spre h.2]

theorem canonSecs_mid : ∀ (spre spost : List Section) (S : Section), CanonSecs (spre ++ S :: spost) → CanonSec S
  | [], _, _, h => h.1
  | _ :: spre, spost, S, h => canonSecs_mid spre spost S h.2

/-- the rewriting of a volume whose only edited node is the volume `u` in a volume-image section of
    its file `F` -/
theorem rwFv_nested (E : Editor) (i : FvInfo) (buf : Bytes) (fpre fpost : List File) (fi : FileInfo) (fb : Bytes)
    (spre spost : List Section) (si : SecInfo) (sb : Bytes) (u u1 : Fv)
    (hEv : E.fv (.mk i buf (fpre ++ .mk fi fb (spre ++ .mk si sb [.fv u] :: spost) :: fpost)) = none)
    (hEf : E.file (.mk fi fb (spre ++ .mk si sb [.fv u] :: spost)) = none) (hnv : fi.nvar = none)
    (hfpre : quietFiles E fpre = true) (hfpost : quietFiles E fpost = true)
    (hspre : quietSections E spre = true) (hspost : quietSections E spost = true)
    (hu : rwFv E u = .ok u1) :
    rwFv E (.mk i buf (fpre ++ .mk fi fb (spre ++ .mk si sb [.fv u] :: spost) :: fpost)) =
      .ok (.mk i buf (fpre ++ .mk fi fb (spre ++ .mk si sb [.fv u1] :: spost) :: fpost)) := by
  have hS : rwSection E (.mk si sb [.fv u]) = .ok (.mk si sb [.fv u1]) := by
    rw [rwSection]
    simp only [rwNodes, hu]
  have hF : rwFile E (.mk fi fb (spre ++ .mk si sb [.fv u] :: spost)) =
      .ok (some (.mk fi fb (spre ++ .mk si sb [.fv u1] :: spost))) := by
    rw [rwFile, hEf]
    simp only [hnv, Option.isSome_none, Bool.false_eq_true, if_false,
      rwSections_split E _ _ spost hS hspost spre hspre]
  rw [rwFv, hEv]
  simp only [rwFiles_split E _ _ fpost hF hfpost fpre hfpre]

/-- **an edit of a volume nested one level down, end to end** (image without flash descriptor; any
    `EditorOk` editor).  The top-level volume `v` holds, in its file `F` (GUID `fi.guid`, not a pad
    file), a volume-image section whose child is the volume `u`; the editor turns `u` into `u1`
    (`rwFv E u = ok u1`: an insertion into / a removal from the list of `u`) and fires nowhere else.
    Siblings are stable (parsed nodes are), the files of `u1` are stable.  Then the re-parsed saved
    image shows: the lists of `pre` as in the input; the list of `v` with the same files in the same
    order, `F` with its GUID and type (`A`), all others with GUID, type, attributes and body; the lists
    nested in the files in front of `F`; the lists nested in the sections in front of the edited one;
    **the edited list of `u`** (`absFiles u1.files`) and the lists nested in its files; the lists of the
    sections and files behind; the lists of `post` as in the input. -/
theorem nested_edit_saved_bios (E : Editor) (hE : EditorOk E) (b : BiosRegion) (hr : Reach (.bios b))
    (hkeep : keepTree E (.bios b)) (pre post : List BiosElem)
    (i : FvInfo) (buf : Bytes) (fpre fpost : List File) (fi : FileInfo) (fb : Bytes)
    (spre spost : List Section) (si : SecInfo) (sb : Bytes) (u : Fv) (ui : FvInfo) (ub : Bytes) (ufiles1 : List File)
    (hdec : b.elems = pre ++ .fv (.mk i buf (fpre ++ .mk fi fb (spre ++ .mk si sb [.fv u] :: spost) :: fpost)) :: post)
    (hq : ∀ w, BiosElem.fv w ∈ pre ++ post → quietFv E w = true ∧ StableFv w)
    (hEv : E.fv (.mk i buf (fpre ++ .mk fi fb (spre ++ .mk si sb [.fv u] :: spost) :: fpost)) = none)
    (hEf : E.file (.mk fi fb (spre ++ .mk si sb [.fv u] :: spost)) = none)
    (hfpre : quietFiles E fpre = true) (hfpost : quietFiles E fpost = true)
    (hspre : quietSections E spre = true) (hspost : quietSections E spost = true)
    (hu : rwFv E u = .ok (.mk ui ub ufiles1))
    (hc : CanonFv (.mk i buf (fpre ++ .mk fi fb (spre ++ .mk si sb [.fv u] :: spost) :: fpost)))
    (hnp : fi.type ≠ 0xF0)
    (hsfpre : ∀ f ∈ fpre, StableFile f) (hsfpost : ∀ f ∈ fpost, StableFile f)
    (hsspre : ∀ s ∈ spre, StableSec s) (hsspost : ∀ s ∈ spost, StableSec s)
    (hsu : ∀ f ∈ ufiles1, StableFile f)
    (st st' : St) (t' : Tree) (hp : st.pol = 0xFF) (hf : st.ffs3 = false)
    (ha : asmTreeWith Hooks.none (.bios { b with elems := (pre ++ BiosElem.fv (.mk i buf
      (fpre ++ .mk fi fb (spre ++ .mk si sb [.fv (.mk ui ub ufiles1)] :: spost) :: fpost)) :: post) }) st =
        .ok (t', st'))
    (hg : GoodTree t') :
    rwTree E (.bios b) = .ok (.bios { b with elems := (pre ++ BiosElem.fv (.mk i buf
      (fpre ++ .mk fi fb (spre ++ .mk si sb [.fv (.mk ui ub ufiles1)] :: spost) :: fpost)) :: post) }) ∧
    ∃ (i' : Spec.Img) (A : AbsFile), Spec.WF i' ∧ t'.buf = Spec.ser i' ∧ parse Hooks.none t'.buf = .ok (Spec.tree i') ∧
      A.guid = fi.guid ∧ A.type = fi.type ∧
      avTree (Spec.tree i') =
        avElems pre ++
          ((absFiles fpre ++ A :: absFiles fpost) ::
            (avFiles fpre ++ (avSections spre ++ (absFiles ufiles1 :: avFiles ufiles1) ++ avSections spost) ++
              avFiles fpost)) ++
          avElems post := by
  -- the rewritten volume satisfies the invariant
  have hkv : keepFv E (.mk i buf (fpre ++ .mk fi fb (spre ++ .mk si sb [.fv u] :: spost) :: fpost)) := by
    have hk : keepElems E b.elems := hkeep
    rw [hdec] at hk
    clear hdec hq ha
    induction pre with
    | nil => exact hk.1
    | cons e pre ih =>
      cases e with
      | pad _ _ => exact ih hk
      | fv w => exact ih hk.2
  have hnv : fi.nvar = none :=
    (canonFile_secs fi fb _ ((canonFiles_append _ _).mp (canonFv_files _ hc)).2.1 (by simp)).1
  have hrw := rwFv_nested E i buf fpre fpost fi fb spre spost si sb u (.mk ui ub ufiles1) hEv hEf hnv hfpre hfpost
    hspre hspost hu
  have hc1 := rwFv_canon E hE _ hc hkv _ hrw
  have hcF1 : CanonFile (.mk fi fb (spre ++ .mk si sb [.fv (.mk ui ub ufiles1)] :: spost)) :=
    ((canonFiles_append _ _).mp (canonFv_files _ hc1)).2.1
  have hcu1 : CanonFv (.mk ui ub ufiles1) := by
    obtain ⟨_, hcs⟩ := canonFile_secs fi fb _ hcF1 (by simp)
    have hcS : CanonSec (.mk si sb [.fv (.mk ui ub ufiles1)]) := canonSecs_mid spre spost _ hcs
    unfold CanonSec at hcS
    rcases hcS with ⟨he, _⟩ | ⟨_, _, hen⟩
    · cases he
    · exact hen
  have hshow := shows_fv_of_file i buf fpre fpost _ _ hc1
    (shows_file_of_sec fi fb spre spost _ _ hcF1
      (shows_sec_of_fv si sb _ _ (shows_fv_of_files ui ub ufiles1 hcu1 hsu)) hsspre hsspost)
    hnp hsfpre hsfpost
  obtain ⟨hrwt, i', L, h1, h2, h3, hP, h4⟩ := edit_saved_bios_shows E hE b hr hkeep pre post _ _ hdec hq hrw _ hshow
    st st' t' hp hf ha hg
  obtain ⟨A, LF, ⟨L0, hL0, hLF⟩, hA1, hA2, hL⟩ := hP
  refine ⟨hrwt, i', A, h1, h2, h3, hA1, hA2, ?_⟩
  rw [h4, hL, hLF, hL0]

/-! ### any number of edits before the save: every top-level volume shows its own predicate -/

/-- the abstract lists `L` of an element list split volume by volume, the lists of volume `v`
    satisfying `Ps v` -/
def ElemsAv (Ps : Fv → List (List AbsFile) → Prop) : List BiosElem → List (List AbsFile) → Prop
  | [], L => L = []
  | .pad _ _ :: es, L => ElemsAv Ps es L
  | .fv v :: es, L => ∃ L1 L2, Ps v L1 ∧ ElemsAv Ps es L2 ∧ L = L1 ++ L2

theorem asmElems_shows (Ps : Fv → List (List AbsFile) → Prop) : ∀ (es : List BiosElem),
    (∀ u, BiosElem.fv u ∈ es → ShowsFv u (Ps u)) → ∀ (st : St) (es' : List BiosElem) (st' : St), st.pol = 0xFF →
    st.ffs3 = false → asmBiosElems Hooks.none es st = .ok (es', st') → GoodElems es' →
    st' = st ∧ ElemsAv Ps es (avElems es')
  | [], _, st, es', st', _, _, h, _ => by
    simp only [asmBiosElems, Except.ok.injEq, Prod.mk.injEq] at h
    rw [← h.1, ← h.2]
    exact ⟨rfl, rfl⟩
  | .pad b o :: es, hs, st, es', st', hp, hf, h, hg => by
    rw [asmBiosElems] at h
    split at h
    · cases h
    rename_i es1 st1 h1
    cases h
    exact asmElems_shows Ps es (fun u hu => hs u (List.mem_cons_of_mem _ hu)) st es1 st' hp hf h1 hg
  | .fv v :: es, hs, st, es', st', hp, hf, h, hg => by
    rw [asmBiosElems] at h
    split at h
    · cases h
    rename_i v1 st1 h1
    split at h
    · cases h
    rename_i es1 st2 h2
    cases h
    obtain ⟨e1, hv⟩ := hs v List.mem_cons_self st v1 st1 hp hf h1 hg.1
    subst e1
    obtain ⟨e2, ih⟩ := asmElems_shows Ps es (fun u hu => hs u (List.mem_cons_of_mem _ hu)) st1 es1 st' hp hf h2 hg.2
    exact ⟨e2, avFv v1, avElems es1, hv, ih, rfl⟩

/-- **a save of any reachable tree, re-parsed** (image without flash descriptor; any number of edits in
    any number of volumes since the last save): if every top-level volume `u` of the tree as it stands
    shows `Ps u` (`StableFv.shows` for untouched volumes, the composition lemmas for edited ones), the
    saved bytes are a well-formed image of the grammar, fiano's reader parses them, and the lists it
    reports split volume by volume into lists satisfying `Ps u` -/
theorem saved_tree_shows (b : BiosRegion) (hr : Reach (.bios b)) (Ps : Fv → List (List AbsFile) → Prop)
    (hs : ∀ u, BiosElem.fv u ∈ b.elems → ShowsFv u (Ps u))
    (st st' : St) (t' : Tree) (hp : st.pol = 0xFF) (hf : st.ffs3 = false)
    (ha : asmTreeWith Hooks.none (.bios b) st = .ok (t', st')) (hg : GoodTree t') :
    ∃ i', Spec.WF i' ∧ t'.buf = Spec.ser i' ∧ parse Hooks.none t'.buf = .ok (Spec.tree i') ∧
      ElemsAv Ps b.elems (avTree (Spec.tree i')) := by
  obtain ⟨i, _, hrep⟩ := reach_rep _ hr
  obtain ⟨_, i', hw, _, hb, hpa, hav⟩ := asm_rep_tree _ i st t' st' hrep hp hf ha hg
  unfold asmTreeWith at ha
  simp only at ha
  split at ha
  · cases ha
  rename_i b' st1 hb'
  cases ha
  unfold asmBios at hb'
  simp only at hb'
  split at hb'
  · cases hb'
  rename_i es' st2 hes
  split at hb'
  · cases hb'
  split at hb'
  · cases hb'
  split at hb'
  · cases hb'
  cases hb'
  have hgood : GoodElems es' := hg
  obtain ⟨_, hsh⟩ := asmElems_shows Ps b.elems hs st es' st2 hp hf hes hgood
  refine ⟨i', hw, hb, hpa, ?_⟩
  rw [hav]
  simp only [avTree]
  exact hsh

end Fiano.Uefi.Exact
