/-
  C02 (follow-up wp-c02c, round 3): `nvram-compact` inside the central theorem.

  `nvCompactEditor_ok`: the visitor keeps the invariant of every file it rewrites as soon as the store
  compaction keeps the law `Length = |Buf|` (`CompactLaw`; what `Assemble` needs of a store: the file is
  sized from `Length` and filled from `Buf`) — hence `nvram-compact` keeps `TreeOk` and the size of the
  image (`nvCompactOp_ok`), and the ONE theorem covers command lines that contain it: `run3_valid`
  (from a tree), `edits_valid3` (from the bytes).
-/
import FianoModel.Uefi.EditValidOpsDefs
import FianoModel.Uefi.CreateFvOk4

namespace Fiano.Uefi
open Fiano
open EditArith

/-- what the theorem asks of the store compaction: a store that reports its own length is turned into
    one that does (in Go: `Assemble` rebuilds `Buf` as entries ++ erased gap ++ GUID table, which is
    `Length` bytes by the types — GUIDs are 16-byte arrays) -/
def CompactLaw (c : NvStore → Except Err NvStore) : Prop :=
  ∀ nv nv', nv.length = nv.buf.length → c nv = .ok nv' → nv'.length = nv'.buf.length

def NvCompactFn.Law (c : NvCompactFn) : Prop := ∀ pol, CompactLaw (c pol)

theorem nvCompactEditor_ok (c : NvStore → Except Err NvStore) (hc : CompactLaw c) : EditorOk (nvCompactEditor c) := by
  refine ⟨fun v files' _ hf => by simp [nvCompactEditor] at hf, fun e f f' _ hok hf => ?_⟩
  obtain ⟨i, buf, secs⟩ := f
  simp only [nvCompactEditor] at hf
  split at hf
  · rename_i nv hnv
    split at hf
    · cases hf
    · rename_i nv' hcn
      cases hf
      rw [FileOk] at hok ⊢
      obtain ⟨a1, a2, a3, a4, a5, a6, a7, _, a9⟩ := hok
      obtain ⟨b1, b2⟩ := a6 nv hnv
      refine ⟨a1, a2, a3, a4, a5, ?_, ?_, ?_, a9⟩
      · intro nv2 h2
        cases h2
        exact ⟨b1, hc nv nv' b2 hcn⟩
      · intro _
        exact a7 (Or.inl (by rw [hnv]; rfl))
      · intro h2
        cases h2
  · cases hf

/-- **`nvram-compact` keeps the invariant and the size** -/
theorem nvCompactOp_ok (c : NvCompactFn) (hc : c.Law) (pol : UInt8) (t t' : Tree) (hok : TreeOk t)
    (h : nvCompactOp c pol t = .ok t') : TreeOk t' ∧ rootLen t' = rootLen t :=
  ⟨rwTree_ok _ (nvCompactEditor_ok (c pol) (hc pol)) _ _ hok h, (rwTree_sized _ _ _ h (treeOk_sized _ hok)).1⟩

/-! ### command lines -/

def Op3Ok : Op3 → Prop
  | .base op => Op2Ok op
  | .nvCompact => True

def Pre3 (op : Op3) (s : Run) : Prop :=
  match op with
  | .base op => Pre2 op s
  | .nvCompact => True

/-- the conditions along a run: every `create-fv` finds its state as `CreateFvPre` asks -/
def Guard3 (h : Hooks) (c : NvCompactFn) : List Op3 → Run → Prop
  | [], _ => True
  | op :: ops, s => Pre3 op s ∧ ∀ s', step3 h c op s = .ok s' → Guard3 h c ops s'

theorem step3_ok (h : Hooks) (hlaw : h.NvLaw) (c : NvCompactFn) (hc : c.Law) (op : Op3) (s s' : Run)
    (hs : step3 h c op s = .ok s') (hop : Op3Ok op)
    (hpre : Pre3 op s) (hok : TreeOk s.tree) (hL : rootLen s.tree < 2 ^ 31)
    (houts : ∀ b ∈ s.outs, Valid.validImage b = true ∧ b.length = rootLen s.tree) :
    TreeOk s'.tree ∧ rootLen s'.tree = rootLen s.tree ∧
      ∀ b ∈ s'.outs, Valid.validImage b = true ∧ b.length = rootLen s.tree := by
  cases op with
  | base op =>
    rw [step3] at hs
    exact step2_ok h hlaw op s s' hs hop hpre hok hL houts
  | nvCompact =>
    rw [step3] at hs
    split at hs
    · cases hs
    · split at hs
      · cases hs
      · rename_i t ht
        cases hs
        obtain ⟨h1, h2⟩ := nvCompactOp_ok c hc s.st.pol s.tree t hok ht
        exact ⟨h1, h2, houts⟩

/-- **`edits_valid` with `create-fv` and `nvram-compact`, from a tree** -/
theorem run3_valid (h : Hooks) (hlaw : h.NvLaw) (c : NvCompactFn) (hc : c.Law) : ∀ (ops : List Op3) (s s' : Run),
    run3 h c ops s = .ok s' →
    (∀ op ∈ ops, Op3Ok op) → Guard3 h c ops s → TreeOk s.tree → rootLen s.tree < 2 ^ 31 →
    (∀ b ∈ s.outs, Valid.validImage b = true ∧ b.length = rootLen s.tree) →
    ∀ b ∈ s'.outs, Valid.validImage b = true ∧ b.length = rootLen s.tree
  | [], s, s', hr, _, _, _, _, houts => by
    rw [run3] at hr; cases hr; exact houts
  | op :: ops, s, s', hr, hops, hg, hok, hL, houts => by
    rw [run3] at hr
    split at hr
    · cases hr
    · rename_i s1 hs1
      rw [Guard3] at hg
      obtain ⟨h1, h2, h3⟩ := step3_ok h hlaw c hc op s s1 hs1 (hops op (by simp)) hg.1 hok hL houts
      have := run3_valid h hlaw c hc ops s1 s' hr (fun o ho => hops o (by simp [ho])) (hg.2 s1 hs1) h1
        (by rw [h2]; exact hL) (by rw [h2]; exact h3)
      rw [h2] at this
      exact this

theorem cliParse3_ok (h : Hooks) : ∀ (specs : List OpSpec3) (st : St) (ops : List Op3) (st' : St),
    cliParse3 h specs st = .ok (ops, st') → (∀ s, .base (.base s) ∈ specs → SpecOk h s) → ∀ op ∈ ops, Op3Ok op
  | [], st, ops, st', hc, _ => by
    rw [cliParse3] at hc; cases hc
    intro op hop; cases hop
  | .base (.base s) :: ss, st, ops, st', hc, hs => by
    rw [cliParse3] at hc
    split at hc
    · cases hc
    · rename_i op1 st1 h1
      split at hc
      · cases hc
      · rename_i ops1 st2 h2
        cases hc
        intro op hop
        simp only [List.mem_cons] at hop
        rcases hop with rfl | hop
        · exact cliOne_ok h st s _ st1 h1 (hs s (by simp))
        · exact cliParse3_ok h ss st1 ops1 _ h2 (fun x hx => hs x (by simp [hx])) op hop
  | .base (.createFv a z n) :: ss, st, ops, st', hc, hs => by
    rw [cliParse3] at hc
    split at hc
    · cases hc
    · rename_i ops1 st2 h2
      cases hc
      intro op hop
      simp only [List.mem_cons] at hop
      rcases hop with rfl | hop
      · trivial
      · exact cliParse3_ok h ss st ops1 _ h2 (fun x hx => hs x (by simp [hx])) op hop
  | .nvCompact :: ss, st, ops, st', hc, hs => by
    rw [cliParse3] at hc
    split at hc
    · cases hc
    · rename_i ops1 st2 h2
      cases hc
      intro op hop
      simp only [List.mem_cons] at hop
      rcases hop with rfl | hop
      · trivial
      · exact cliParse3_ok h ss st ops1 _ h2 (fun x hx => hs x (by simp [hx])) op hop

/-- the new files of a command line were read under the hooks `hc`; the theorem needs them to satisfy
    the invariant, which does not depend on the hooks: `Op3Ok` is about the operations only -/
theorem edits_valid3_tree (hcl h : Hooks) (hb : h.BoundedCodecs) (hlaw : h.NvLaw) (c : NvCompactFn) (hc : c.Law)
    (image : Bytes) (specs : List OpSpec3) (r : Run)
    (hu : utk3 hcl h c image specs = .ok r)
    (hv : Valid.validImage image = true) (hL : image.length < 65536 * 4096)
    (hspecs : ∀ s, .base (.base s) ∈ specs → SpecOk hcl s)
    (hRA : ∀ ops st t st', cliParse3 hcl specs {} = .ok (ops, st) →
      parseWith h (defaultFuel image) image st = .ok (t, st') → readAlikeB t = true)
    (hG : ∀ ops st t st', cliParse3 hcl specs {} = .ok (ops, st) →
      parseWith h (defaultFuel image) image st = .ok (t, st') → Guard3 h c ops { tree := t, st := st' }) :
    ∀ b ∈ r.outs, Valid.validImage b = true ∧ b.length = image.length := by
  unfold utk3 at hu
  split at hu
  · cases hu
  · rename_i ops st hcli
    split at hu
    · cases hu
    · rename_i t st' hp
      obtain ⟨hok, hlen⟩ := parse_establishes_TreeOk h hb hlaw _ image st st' t hp hv hL
        (readAlikeB_sound t (hRA ops st t st' hcli hp))
      have hops := cliParse3_ok hcl specs {} ops st hcli hspecs
      intro b hbm
      have := run3_valid h hlaw c hc ops _ r hu hops (hG ops st t st' hcli hp) hok (by simp only; rw [hlen]; omega)
        (by intro b hb; cases hb) b hbm
      simp only at this
      rw [hlen] at this
      exact this

end Fiano.Uefi
