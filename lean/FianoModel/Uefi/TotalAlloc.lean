/-
  C05 — allocation facts on the model's meter.

  "Never allocates according to an unchecked length field" has two halves in the models:
   * the copy-out idiom `newBuf := b[:n]; x := make([]byte, n); copy(x, newBuf)` (`copyOutG`) — the slice
     comes first, so an `n` larger than the buffer is a *fault* of the model; the `*_total` theorems say it
     never happens, and `copyOutG_alloc` says that a copy-out that returns has allocated `n ≤ |b|`;
   * the places where a *count* read from the image drives a `make` or an `append` loop: the block map
     (`readBlocks_alloc`: 8 bytes per 8 bytes consumed), the NVAR GUID store (`getGuidFromStore_alloc`:
     at most the store's own length), the ME partition table (`newMeFptG_alloc`, TotalFlashSafe.lean).
  What is *not* bounded linearly is the sum over a nested tree: every nested volume / NVAR store copies its
  buffer again (known finding C05-nested-copy).
-/
import FianoModel.Uefi.TotalNvarSafe

namespace Fiano.Uefi.Total
open Fiano GoM Fiano.Uefi

/-- partial-correctness triple: *if* the run returns a value, `Q` holds of it (faults are the business of the
    `*_total` theorems) -/
def Post' {α} (x : GoM α) (m : Meter) (Q : α → Meter → Prop) : Prop :=
  match x m with
  | .ok (a, m') => Q a m'
  | .error _ => True

theorem post'_pure {α} {a : α} {m : Meter} {Q : α → Meter → Prop} (h : Q a m) : Post' (pure a : GoM α) m Q := by
  simpa [Post', pure, StateT.pure, Except.pure] using h
theorem post'_err {α} {m : Meter} {Q : α → Meter → Prop} : Post' (err : GoM α) m Q := by simp [Post', err]
theorem post'_fuel {α} {m : Meter} {Q : α → Meter → Prop} : Post' (outOfFuel : GoM α) m Q := by simp [Post', outOfFuel]
theorem post'_panic {α} {s : String} {m : Meter} {Q : α → Meter → Prop} : Post' (goPanic s : GoM α) m Q := by
  simp [Post', goPanic]
theorem post'_bind {α β} {x : GoM α} {f : α → GoM β} {m : Meter} {Q : β → Meter → Prop}
    (h : Post' x m (fun a m' => Post' (f a) m' Q)) : Post' (x >>= f) m Q := by
  unfold Post' at h ⊢
  simp only [bind, StateT.bind]
  cases hx : x m with
  | ok r => obtain ⟨a, m'⟩ := r; rw [hx] at h; simpa [Except.bind, Post'] using h
  | error e => simp [Except.bind]
theorem post'_mono {α} {x : GoM α} {m : Meter} {Q Q' : α → Meter → Prop}
    (h : Post' x m Q) (hq : ∀ a m', Q a m' → Q' a m') : Post' x m Q' := by
  unfold Post' at *
  cases hx : x m with
  | ok r => obtain ⟨a, m'⟩ := r; rw [hx] at h; exact hq a m' h
  | error e => trivial
theorem post'_bind' {α β} {x : GoM α} {f : α → GoM β} {m : Meter} {Q : β → Meter → Prop}
    {R : α → Meter → Prop} (hx : Post' x m R) (hf : ∀ a m', R a m' → Post' (f a) m' Q) : Post' (x >>= f) m Q :=
  post'_bind (post'_mono hx hf)
theorem post'_allocG {n e : Nat} {m : Meter} {Q : Unit → Meter → Prop}
    (hq : Q () { m with alloc := m.alloc + n * e }) : Post' (allocG n e) m Q := by
  simpa [Post', allocG, modify, modifyGet, MonadStateOf.modifyGet, StateT.modifyGet, pure, Except.pure] using hq
theorem post'_binaryReadG {r : Bytes} {n : Nat} {m : Meter} {Q : Bytes × Bytes → Meter → Prop}
    (hq : n ≤ r.length → Q (r.take n, r.drop n) m) : Post' (binaryReadG r n) m Q := by
  unfold binaryReadG
  split
  · exact post'_pure (hq ‹_›)
  · exact post'_err

/-- a copy-out that returns has allocated exactly `n`, and `n` fits the source buffer -/
theorem copyOutG_alloc (site : String) (b : Bytes) (n : Nat) (m m' : Meter) (r : Bytes)
    (h : copyOutG site b n m = .ok (r, m')) : n ≤ b.length ∧ m'.alloc = m.alloc + n ∧ r = b.take n := by
  unfold copyOutG sliceToG at h
  by_cases hn : n ≤ b.length
  · simp only [hn, if_true, bind, StateT.bind, pure, StateT.pure, Except.pure, Except.bind, allocG, modify,
      modifyGet, MonadStateOf.modifyGet, StateT.modifyGet] at h
    injection h with h
    injection h with h1 h2
    subst h1 h2
    exact ⟨hn, by simp, rfl⟩
  · simp [hn, goPanic, bind, StateT.bind, Except.bind] at h

/-- the block map loop allocates 8 bytes per entry kept, and an entry costs 8 bytes of input -/
theorem readBlocks_alloc (length : Nat) (fuel : Nat) (r : Bytes) (pos : Nat) (m : Meter) :
    Post' (readBlocksG length fuel r pos) m (fun bs m' => m'.alloc + 8 ≤ m.alloc + r.length ∧
      m'.decompressed = m.decompressed ∧ 8 * bs.length + 8 ≤ r.length) := by
  induction fuel generalizing r pos m with
  | zero =>
    rw [readBlocksG]
    split
    · exact post'_err
    · exact post'_fuel
  | succ fuel ih =>
    rw [readBlocksG]
    split
    · exact post'_err
    · refine post'_bind (post'_binaryReadG ?_)
      intro h8
      try simp only []
      split
      · exact post'_pure ⟨by omega, rfl, by simp; omega⟩
      · refine post'_bind (post'_allocG ?_)
        refine post'_bind' (ih (r.drop 8) (pos + 8) _) ?_
        rintro rest m1 ⟨ha, hd, hl⟩
        refine post'_pure ⟨?_, hd, ?_⟩
        · simp at ha ⊢; omega
        · simp at hl ⊢; omega

/-- growing the GUID store allocates at most the length of the store buffer -/
theorem getGuidFromStore_alloc (sbuf : Bytes) (guids : List Bytes) (i : Nat) (m : Meter) :
    Post' (getGuidFromStoreG sbuf guids i) m (fun _ m' => m'.alloc ≤ m.alloc + sbuf.length ∧
      m'.decompressed = m.decompressed) := by
  unfold getGuidFromStoreG
  refine post'_bind' (R := fun _ m' => m'.alloc ≤ m.alloc + sbuf.length ∧ m'.decompressed = m.decompressed) ?_ ?_
  · split
    · split
      · exact post'_pure ⟨by omega, rfl⟩
      · rename_i hlt hge
        refine post'_bind (post'_allocG ?_)
        refine post'_pure ⟨?_, rfl⟩
        simp only []
        have : (i + 1) % 256 - guids.length ≤ (i + 1) % 256 := Nat.sub_le _ _
        omega
    · exact post'_pure ⟨by omega, rfl⟩
  · intro r m1 hr
    split
    · exact post'_pure hr
    · split
      · exact post'_pure hr
      · split
        · exact post'_pure hr
        · exact post'_panic

end Fiano.Uefi.Total
