/-
  `utk IMAGE extract DIR` / `utk DIR save OUT` on NVAR stores (follow-up wp-c07b): the NVar arm of
  `Extract.Visit` and `ParseDir.Visit` (pkg/visitors/extract.go, parsedir.go as repaired by /repo
  ea9072a), on the store model of property C10 (FianoModel/Nvram/Model.lean — imported, not edited).

    * `nvEntries d pol dir es`  (defined in Uefi/Extract.lean, used by `exFile`) the files written for the entries `es` of a store visited with DirPath
                                `dir` (for the store of a RAW file: `fileDir dir i idx` — `NVarStore`
                                has no arm of its own and `File` writes nothing when it has a store):
        valid entry (link / data / full), no nested store   dir/GUID/<name>-<%#x offset>.bin  = buf[DataOffset:]
        valid entry whose value is a store                   nothing; its entries go below dir/GUID/<name>-<%#x offset>
        invalid entry                                        dir/GUID/<%#x offset>.nvar        = buf
      `<name>` is the stored name with every path separator replaced by `_`, cut to 64 bytes.  The
      nested store of an entry is what `parseContent` attached: `Nvram.nestedOf` (C10's model keeps it
      as a function of the entry); `d` bounds the nesting depth (`Nvram.depthFuel` suffices).
    * `jsonName`   what `encoding/json` makes of a Go string on the way out: every byte that does not
                   start a well-formed UTF-8 sequence becomes U+FFFD (EF BF BD) — the JSON text layer is
                   assumed elsewhere in C07, but for CHAR8 variable names the assumption is false
                   (finding F-C07-1), so it is modelled here;
    * `nvLoad`     `ParseDir.Visit` on one entry: a valid entry gets `make([]byte, DataOffset) ++ file`,
                   an invalid one the file; the name comes back as `jsonName name`.

  Core Lean only.
-/
import FianoModel.Uefi.Extract
import FianoModel.Nvram.Model

namespace Fiano.Uefi
open Fiano

/-- the store of a RAW file with GUID `i.guid`, the `idx`-th file visited -/
def nvFileEntries (d pol : Nat) (dir : List Comp) (i : FileInfo) (idx : Nat) (s : Nvram.Store) : List Entry :=
  nvEntries d pol (fileDir dir i idx) s.entries

/-! ### summary.json and ParseDir -/

/-- width of the well-formed UTF-8 sequence `b` starts with (`utf8.DecodeRune`), `none` = RuneError -/
def utf8Width : Bytes → Option Nat
  | [] => none
  | b0 :: rest =>
    let x := b0.toNat
    let cont (c : UInt8) (lo hi : Nat) : Bool := lo ≤ c.toNat && c.toNat ≤ hi
    if x < 0x80 then some 1
    else if 0xC2 ≤ x ∧ x ≤ 0xDF then
      match rest with
      | c1 :: _ => if cont c1 0x80 0xBF then some 2 else none
      | _ => none
    else if 0xE0 ≤ x ∧ x ≤ 0xEF then
      match rest with
      | c1 :: c2 :: _ =>
        let lo := if x = 0xE0 then 0xA0 else 0x80
        let hi := if x = 0xED then 0x9F else 0xBF
        if cont c1 lo hi && cont c2 0x80 0xBF then some 3 else none
      | _ => none
    else if 0xF0 ≤ x ∧ x ≤ 0xF4 then
      match rest with
      | c1 :: c2 :: c3 :: _ =>
        let lo := if x = 0xF0 then 0x90 else 0x80
        let hi := if x = 0xF4 then 0x8F else 0xBF
        if cont c1 lo hi && cont c2 0x80 0xBF && cont c3 0x80 0xBF then some 4 else none
      | _ => none
    else none

/-- a Go string after `json.Marshal` / `json.Unmarshal` -/
def jsonNameAux : Nat → Bytes → Bytes
  | 0, _ => []
  | _, [] => []
  | fuel + 1, b0 :: rest =>
    match utf8Width (b0 :: rest) with
    | some w => (b0 :: rest).take w ++ jsonNameAux fuel ((b0 :: rest).drop w)
    | none => [0xEF, 0xBF, 0xBD] ++ jsonNameAux fuel rest

def jsonName (n : Bytes) : Bytes := jsonNameAux n.length n

/-- every byte starts or continues a well-formed sequence -/
def validUtf8Aux : Nat → Bytes → Bool
  | 0, b => b.isEmpty
  | _, [] => true
  | fuel + 1, b0 :: rest =>
    match utf8Width (b0 :: rest) with
    | some w => validUtf8Aux fuel ((b0 :: rest).drop w)
    | none => false

def validUtf8 (n : Bytes) : Bool := validUtf8Aux n.length n

/-- `ParseDir.Visit` on one entry whose file holds `file` -/
def nvLoad (v : Nvram.NVar) (file : Bytes) : Nvram.NVar :=
  if v.type.isValid then { v with name := jsonName v.name, buf := List.replicate v.dataOffset 0 ++ file }
  else { v with name := jsonName v.name, buf := file }

/-- the entries of a store without nested stores as `ParseDir` rebuilds them from the directory
    written by `nvEntries` -/
def nvLoadAll (es : List Nvram.NVar) : List Nvram.NVar :=
  es.map (fun v => nvLoad v (if v.type.isValid then Nvram.content v else v.buf))

/-! ### the directory round trip with nested stores

  After `ParseDir`, a valid entry whose value is a store has no file of its own: its buffer is
  `make([]byte, DataOffset)` and its `NVarStore` child — recorded in summary.json exactly when
  `parseContent` attached one (`Nvram.nestedOf`) — is the loaded nested store (entries rebuilt in the same
  way, its own buffer `nil`).  `Assemble` takes the content of such an entry from the assembled child.
  `asmDirStore` models `Assemble` on that loaded tree, by recursion over the store it was extracted from
  (the loaded tree is a function of it). -/

/-- the entry record `ParseDir` rebuilds; `nested` = summary.json holds an `NVarStore` child for it -/
def nvLoadN (nested : Bool) (v : Nvram.NVar) : Nvram.NVar :=
  if v.type.isValid then
    { v with name := jsonName v.name,
             buf := List.replicate v.dataOffset 0 ++ (if nested then [] else Nvram.content v) }
  else { v with name := jsonName v.name, buf := v.buf }

/-- `Assemble` over the entries `ParseDir` rebuilt from the extraction of `es`; `rec` assembles a
    loaded nested store -/
def asmDirEntries (pol : Nat) (rec : Nvram.Store → Except Nvram.Err Nvram.Store) : List Nvram.NVar → Except Nvram.Err (List Nvram.NVar)
  | [] => .ok []
  | v :: vs =>
    let child := Nvram.nestedOf pol v
    let nb : Except Nvram.Err (Option Bytes) :=
      match child with
      | some ns => match rec ns with
        | .ok r => .ok (some r.buf)
        | .error e => .error e
      | none => .ok none
    match nb with
    | .error e => .error e
    | .ok nb =>
      let lv := nvLoadN child.isSome v
      let r : Except Nvram.Err Nvram.NVar :=
        if lv.type.isValid then
          Nvram.asmNVar pol lv (match nb with | some b => b | none => Nvram.content lv) true
        else .ok lv
      match r with
      | .error e => .error e
      | .ok v' =>
        match asmDirEntries pol rec vs with
        | .error e => .error e
        | .ok vs' => .ok (v' :: vs')

/-- `Assemble` on the store `ParseDir` loaded from the extraction of `s` (its own buffer is `nil`) -/
def asmDirStore (pol : Nat) : Nat → Nvram.Store → Except Nvram.Err Nvram.Store
  | 0, _ => .error .fuel
  | d + 1, s =>
    match asmDirEntries pol (asmDirStore pol d) s.entries with
    | .error e => .error e
    | .ok es => Nvram.layout pol { s with buf := [] } es

end Fiano.Uefi
