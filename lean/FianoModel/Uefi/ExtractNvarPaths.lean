/-
  NVAR stores: no two entries of a store — at any nesting depth — are extracted to the same path, and
  every path lies below the directory the store is visited with (follow-up wp-c07b).

  What tells two entries of one store apart is the entry offset printed into the file name
  (`<name>-<%#x offset>.bin`, `<%#x offset>.nvar`, directory `<name>-<%#x offset>`): the bounded,
  sanitised name in front of it plays no role (two entries of one name, names equal in their first 64
  bytes, links — the cases of /repo ea9072a).  `OffsDistinct`: the entries of a store have pairwise
  distinct offsets (they are consecutive records of one buffer), at every level.
-/
import FianoModel.Uefi.ExtractNvar
import FianoModel.Uefi.ExtractPathsBase

namespace Fiano.Uefi
open Fiano

/-! ### text -/

def DashFree (c : Bytes) : Prop := dash ∉ c

theorem lowDigit_ne_dash (d : Nat) (h : d < 16) : lowDigit d ≠ dash := by
  intro hc
  have := congrArg UInt8.toNat hc
  rw [lowDigit_toNat d h] at this
  have hd : dash.toNat = 45 := rfl
  rw [hd] at this
  split at this <;> omega

theorem dashFree_hexStr (n : Nat) : DashFree (hexStr n) := by
  unfold hexStr DashFree
  intro h
  simp only [List.mem_append, List.mem_map, List.mem_reverse] at h
  rcases h with h | ⟨d, hd, he⟩
  · revert h; decide
  · exact lowDigit_ne_dash d (digits16_lt _ _ d hd) he

/-- what follows the last dash is determined -/
theorem split_last_dash : ∀ (a a' h h' : Bytes), DashFree h → DashFree h' →
    a ++ dash :: h = a' ++ dash :: h' → h = h'
  | [], [], h, h', _, _, e => by simpa using e
  | [], x :: t, h, h', hh, _, e => by
    simp only [List.nil_append, List.cons_append, List.cons.injEq] at e
    exact absurd (by rw [e.2]; simp) hh
  | x :: t, [], h, h', _, hh', e => by
    simp only [List.nil_append, List.cons_append, List.cons.injEq] at e
    exact absurd (by rw [← e.2]; simp) hh'
  | x :: t, y :: u, h, h', hh, hh', e => by
    simp only [List.cons_append, List.cons.injEq] at e
    exact split_last_dash t u h h' hh hh' e.2

theorem nvName_inj (v w : Nvram.NVar) (h : nvName v = nvName w) : v.offset = w.offset :=
  hexStr_inj _ _ (split_last_dash _ _ _ _ (dashFree_hexStr _) (dashFree_hexStr _) h)

/-- the last character of `%#x` is a hexadecimal digit -/
theorem hexStr_last (n : Nat) : ∃ d, d < 16 ∧ (hexStr n).getLast? = some (lowDigit d) := by
  unfold hexStr
  have hne := digits16_ne_nil n
  cases hd : digits16 (n + 1) n with
  | nil => exact absurd hd hne
  | cons x t =>
    refine ⟨x, digits16_lt (n + 1) n x (by rw [hd]; simp), ?_⟩
    simp [List.getLast?_append]

theorem lowDigit_not_nr (d : Nat) (h : d < 16) : lowDigit d ≠ 0x6e ∧ lowDigit d ≠ 0x72 := by
  constructor <;>
  · intro hc
    have := congrArg UInt8.toNat hc
    rw [lowDigit_toNat d h] at this
    simp at this
    split at this <;> omega

theorem getLast?_append_some {α : Type} (a b : List α) (x : α) (h : b.getLast? = some x) :
    (a ++ b).getLast? = some x := by
  rw [List.getLast?_append, h]; rfl

theorem nvName_last (v : Nvram.NVar) : ∃ d, d < 16 ∧ (nvName v).getLast? = some (lowDigit d) := by
  obtain ⟨d, hd, hl⟩ := hexStr_last v.offset
  refine ⟨d, hd, ?_⟩
  unfold nvName
  apply getLast?_append_some
  cases hh : hexStr v.offset with
  | nil => rw [hh] at hl; simp at hl
  | cons x t => rw [hh] at hl; rw [List.getLast?_cons_cons]; exact hl

theorem getLast_extBin (a : Bytes) : (a ++ extBin).getLast? = some 0x6e :=
  getLast?_append_some a extBin _ rfl

theorem getLast_extNvar (a : Bytes) : (a ++ extNvar).getLast? = some 0x72 :=
  getLast?_append_some a extNvar _ rfl

/-- **the key of an entry determines its offset** -/
theorem nvKey_inj (pol : Nat) (v w : Nvram.NVar) (h : nvKey pol v = nvKey pol w) : v.offset = w.offset := by
  unfold nvKey at h
  obtain ⟨dv, hdv, hlv⟩ := nvName_last v
  obtain ⟨dw, hdw, hlw⟩ := nvName_last w
  have nv := lowDigit_not_nr dv hdv
  have nw := lowDigit_not_nr dw hdw
  by_cases h1 : v.type.isValid = true <;> by_cases h2 : w.type.isValid = true
  · simp only [h1, h2, ↓reduceIte] at h
    cases hn1 : Nvram.nestedOf pol v <;> cases hn2 : Nvram.nestedOf pol w <;> simp only [hn1, hn2] at h
    · exact nvName_inj v w (List.append_cancel_right h)
    · have := congrArg List.getLast? h
      rw [getLast_extBin, hlw] at this
      exact absurd (Option.some.inj this).symm nw.1
    · have := congrArg List.getLast? h
      rw [getLast_extBin, hlv] at this
      exact absurd (Option.some.inj this) nv.1
    · exact nvName_inj v w h
  · simp only [h1, h2, ↓reduceIte, Bool.false_eq_true] at h
    have := congrArg List.getLast? h
    rw [getLast_extNvar] at this
    cases hn1 : Nvram.nestedOf pol v <;> simp only [hn1] at this
    · rw [getLast_extBin] at this; exact absurd (Option.some.inj this) (by decide)
    · rw [hlv] at this; exact absurd (Option.some.inj this) nv.2
  · simp only [h1, h2, ↓reduceIte, Bool.false_eq_true] at h
    have := congrArg List.getLast? h
    rw [getLast_extNvar] at this
    cases hn2 : Nvram.nestedOf pol w <;> simp only [hn2] at this
    · rw [getLast_extBin] at this; exact absurd (Option.some.inj this) (by decide)
    · rw [hlw] at this; exact absurd (Option.some.inj this).symm nw.2
  · simp only [h1, h2, ↓reduceIte, Bool.false_eq_true] at h
    exact hexStr_inj _ _ (List.append_cancel_right h)

/-! ### components are clean -/

theorem slashFree_sanitize (n : Bytes) : SlashFree (nvSanitize n) := by
  unfold SlashFree nvSanitize
  intro h
  have := List.mem_of_mem_take h
  simp only [List.mem_map] at this
  obtain ⟨c, _, hc⟩ := this
  by_cases hs : c = slash
  · rw [if_pos hs] at hc; revert hc; decide
  · rw [if_neg hs] at hc; exact hs hc

theorem slashFree_nvName (v : Nvram.NVar) : SlashFree (nvName v) := by
  unfold nvName
  have h2 : SlashFree (dash :: hexStr v.offset) := by
    have := slashFree_hexStr v.offset
    unfold SlashFree at *
    simp only [List.mem_cons, not_or]
    exact ⟨by decide, this⟩
  exact slashFree_append (slashFree_sanitize _) h2

theorem slashFree_nvKey (pol : Nat) (v : Nvram.NVar) : SlashFree (nvKey pol v) := by
  unfold nvKey
  split
  · split
    · exact slashFree_nvName v
    · exact slashFree_append (slashFree_nvName v) slashFree_consts.2.2.1
  · exact slashFree_append (slashFree_hexStr _) (by unfold SlashFree; decide)

/-! ### where the paths of an entry lie -/

/-- `p` is `pre` or lies below it, all further components being clean -/
def Under (pre p : List Comp) : Prop := ∃ rest, (∀ c ∈ rest, SlashFree c) ∧ p = pre ++ rest

theorem Under.ne {pre p q : List Comp} {a a' b b' : Comp} (hp : Under (pre ++ [a, b]) p) (hq : Under (pre ++ [a', b']) q)
    (hne : b ≠ b') : p ≠ q := by
  obtain ⟨r1, _, rfl⟩ := hp
  obtain ⟨r2, _, rfl⟩ := hq
  intro h
  simp only [List.append_assoc] at h
  have := List.append_cancel_left h
  simp only [List.cons_append, List.nil_append, List.cons.injEq] at this
  exact hne this.2.1

theorem Under.trans2 {pre p : List Comp} {a b : Comp} (h : Under (pre ++ [a, b]) p) (ha : SlashFree a) (hb : SlashFree b) :
    Under pre p := by
  obtain ⟨r, hr, rfl⟩ := h
  refine ⟨[a, b] ++ r, ?_, by simp⟩
  intro c hc
  simp only [List.cons_append, List.nil_append, List.mem_cons] at hc
  rcases hc with h1 | h1 | hc
  · rw [h1]; exact ha
  · rw [h1]; exact hb
  · exact hr c hc

theorem nvEntries_succ (d pol : Nat) (dir : List Comp) (es : List Nvram.NVar) :
    nvEntries (d + 1) pol dir es =
      es.flatMap (fun v =>
        if v.type.isValid then
          match Nvram.nestedOf pol v with
          | some ns => nvEntries d pol (dir ++ [guidStr v.guid, nvName v]) ns.entries
          | none => [(dir ++ [guidStr v.guid, nvName v ++ extBin], Nvram.content v)]
        else [(dir ++ [guidStr v.guid, hexStr v.offset ++ extNvar], v.buf)]) := by
  rw [nvEntries]
  rfl

/-- every path written for the entries `es` lies below `dir/GUID/key` of one of them -/
theorem nvEntries_under (d pol : Nat) : ∀ (dir : List Comp) (es : List Nvram.NVar), ∀ e ∈ nvEntries d pol dir es,
    ∃ v ∈ es, Under (dir ++ [guidStr v.guid, nvKey pol v]) e.1 := by
  induction d with
  | zero => intro dir es e he; rw [nvEntries] at he; cases he
  | succ d ih =>
    intro dir es e he
    rw [nvEntries_succ, List.mem_flatMap] at he
    obtain ⟨v, hv, he⟩ := he
    refine ⟨v, hv, ?_⟩
    unfold nvKey
    by_cases h1 : v.type.isValid = true
    · simp only [h1, ↓reduceIte] at he ⊢
      cases hn : Nvram.nestedOf pol v with
      | none =>
        simp only [hn, List.mem_singleton] at he ⊢
        subst he
        exact ⟨[], by simp, by simp⟩
      | some ns =>
        simp only [hn] at he ⊢
        obtain ⟨w, _, hu⟩ := ih _ ns.entries e he
        exact Under.trans2 hu (slashFree_guidStr _) (slashFree_nvKey pol w)
    · simp only [h1, Bool.false_eq_true, ↓reduceIte, List.mem_singleton] at he ⊢
      subst he
      exact ⟨[], by simp, by simp⟩

/-- … hence below `dir` itself: nothing is written outside the directory the store is visited with -/
theorem nvEntries_below (d pol : Nat) (dir : List Comp) (es : List Nvram.NVar) : ∀ e ∈ nvEntries d pol dir es,
    Ext dir e.1 := by
  intro e he
  obtain ⟨v, _, r, hr, hp⟩ := nvEntries_under d pol dir es e he
  refine ⟨[guidStr v.guid, nvKey pol v] ++ r, by simp, ?_, by rw [hp]; simp⟩
  intro c hc
  simp only [List.cons_append, List.nil_append, List.mem_cons] at hc
  rcases hc with h1 | h1 | hc
  · rw [h1]; exact slashFree_guidStr _
  · rw [h1]; exact slashFree_nvKey pol v
  · exact hr c hc

/-! ### uniqueness -/

/-- the entries of a store have pairwise distinct offsets, at every nesting level -/
def OffsDistinct : Nat → Nat → List Nvram.NVar → Prop
  | 0, _, _ => True
  | d + 1, pol, es =>
    (es.map (·.offset)).Nodup ∧ ∀ v ∈ es, ∀ ns, Nvram.nestedOf pol v = some ns → OffsDistinct d pol ns.entries

theorem nvOne_nodup (d pol : Nat) (dir : List Comp) (v : Nvram.NVar)
    (ih : ∀ ns, Nvram.nestedOf pol v = some ns → ∀ dir', ((nvEntries d pol dir' ns.entries).map Prod.fst).Nodup) :
    ((nvEntries (d + 1) pol dir [v]).map Prod.fst).Nodup := by
  rw [nvEntries_succ]
  simp only [List.flatMap_cons, List.flatMap_nil, List.append_nil]
  by_cases h1 : v.type.isValid = true
  · simp only [h1, ↓reduceIte]
    cases hn : Nvram.nestedOf pol v with
    | none => simp
    | some ns => exact ih ns hn _
  · simp [h1]

theorem nvEntries_cons (d pol : Nat) (dir : List Comp) (v : Nvram.NVar) (t : List Nvram.NVar) :
    nvEntries (d + 1) pol dir (v :: t) = nvEntries (d + 1) pol dir [v] ++ nvEntries (d + 1) pol dir t := by
  rw [nvEntries_succ, nvEntries_succ, nvEntries_succ]
  simp

/-- **no two entries of a store are written to the same path** (component lists) -/
theorem nvEntries_nodup (d pol : Nat) : ∀ (dir : List Comp) (es : List Nvram.NVar), OffsDistinct d pol es →
    ((nvEntries d pol dir es).map Prod.fst).Nodup := by
  induction d with
  | zero => intro dir es _; rw [nvEntries]; simp
  | succ d ihd =>
    intro dir es
    induction es with
    | nil => intro _; rw [nvEntries_succ]; simp
    | cons v t iht =>
      intro ho
      obtain ⟨hnd, hnest⟩ := ho
      simp only [List.map_cons, List.nodup_cons] at hnd
      rw [nvEntries_cons, paths_append, List.nodup_append]
      refine ⟨?_, ?_, ?_⟩
      · exact nvOne_nodup d pol dir v (fun ns hn dir' => ihd dir' ns.entries (hnest v (by simp) ns hn))
      · exact iht ⟨hnd.2, fun w hw => hnest w (by simp [hw])⟩
      · intro p hp q hq
        simp only [List.mem_map] at hp hq
        obtain ⟨e1, he1, rfl⟩ := hp
        obtain ⟨e2, he2, rfl⟩ := hq
        obtain ⟨v1, hv1, hu1⟩ := nvEntries_under (d + 1) pol dir [v] e1 he1
        obtain ⟨v2, hv2, hu2⟩ := nvEntries_under (d + 1) pol dir t e2 he2
        simp only [List.mem_singleton] at hv1
        subst hv1
        refine Under.ne hu1 hu2 (fun hc => ?_)
        have := nvKey_inj pol _ _ hc
        exact hnd.1 (by rw [this]; exact List.mem_map_of_mem hv2)

/-- **`extract_paths_nodup` for an NVAR store**: the `/`-joined paths written for the store of a RAW
    file are pairwise distinct, whatever the names of the variables are -/
theorem nvFileEntries_nodup (d pol : Nat) (dir : List Comp) (hdir : ∀ c ∈ dir, SlashFree c) (i : FileInfo) (idx : Nat)
    (s : Nvram.Store) (ho : OffsDistinct d pol s.entries) :
    (((nvFileEntries d pol dir i idx s).map flat).map Prod.fst).Nodup := by
  have hnd := nvEntries_nodup d pol (fileDir dir i idx) s.entries ho
  have hbelow := nvEntries_below d pol (fileDir dir i idx) s.entries
  have hfd : ∀ c ∈ fileDir dir i idx, SlashFree c := by
    intro c hc
    simp only [fileDir, List.mem_append, List.mem_cons, List.not_mem_nil, or_false] at hc
    rcases hc with hc | h1 | h1
    · exact hdir c hc
    · rw [h1]; exact slashFree_guidStr _
    · rw [h1]; exact slashFree_decStr _
  unfold nvFileEntries
  have h2 : ((nvEntries d pol (fileDir dir i idx) s.entries).map flat).map Prod.fst =
      ((nvEntries d pol (fileDir dir i idx) s.entries).map Prod.fst).map joinPath := by
    simp [flat, List.map_map, Function.comp_def]
  rw [h2]
  apply nodup_map_on joinPath _ _ hnd
  intro p hp q hq hpq
  simp only [List.mem_map] at hp hq
  obtain ⟨e1, he1, rfl⟩ := hp
  obtain ⟨e2, he2, rfl⟩ := hq
  have x1 := hbelow e1 he1
  have x2 := hbelow e2 he2
  exact joinPath_inj _ _ (x1.clean hfd) (x2.clean hfd) x1.ne_nil x2.ne_nil hpq

end Fiano.Uefi
