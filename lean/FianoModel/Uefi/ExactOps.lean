/-
  C03 follow-up (wp-c03b), layer 6b: the edit operations keep the invariant.

  The generic top-down rewriting (`rw*`, Uefi/Visitors.lean) maps trees that satisfy `Canon…` to
  trees that satisfy it, for every editor that
    * fires only at volumes that have files, and leaves a non-empty list of `CanonFile`s there,
    * replaces a file only by a `CanonFile`,
  provided no volume below which the editor works is left with an *empty* file list (`keep…`; an
  emptied volume is not re-assembled — finding F26).  Insert, Remove / remove_pad and ReplacePE32 are
  such editors.
-/
import FianoModel.Uefi.ExactTree

namespace Fiano.Uefi.Exact
open Fiano Fiano.Uefi Fiano.Uefi.Spec

structure EditorOk (E : Editor) : Prop where
  fv : ∀ v r, CanonFv v → E.fv v = some (.ok r) → v.files ≠ [] ∧ r ≠ [] ∧ CanonFiles r
  file : ∀ f r, CanonFile f → E.file f = some (.ok (some r)) → CanonFile r

/-! ### "no volume is emptied" along the paths the rewriting takes -/

mutual
def keepSection (E : Editor) : Section → Prop
  | .mk _ _ encap => keepNodes E encap
def keepNodes (E : Editor) : List Node → Prop
  | [] => True
  | .sec s :: ns => keepSection E s ∧ keepNodes E ns
  | .fv v :: ns => keepFv E v ∧ keepNodes E ns
def keepSections (E : Editor) : List Section → Prop
  | [] => True
  | s :: ss => keepSection E s ∧ keepSections E ss
def keepFile (E : Editor) : File → Prop
  | .mk i buf secs => (E.file (.mk i buf secs)).isSome = true ∨ keepSections E secs
def keepFiles (E : Editor) : List File → Prop
  | [] => True
  | f :: fs => keepFile E f ∧ keepFiles E fs
/-- where the editor does not fire at the volume itself, its rewritten file list is not empty
    (unless it was empty before), and the same holds below -/
def keepFv (E : Editor) : Fv → Prop
  | .mk i buf files =>
    (E.fv (.mk i buf files)).isSome = true ∨
      ((files = [] ∨ rwFiles E files ≠ .ok []) ∧ keepFiles E files)
end

def keepElems (E : Editor) : List BiosElem → Prop
  | [] => True
  | .pad _ _ :: es => keepElems E es
  | .fv v :: es => keepFv E v ∧ keepElems E es

theorem rwSections_length (E : Editor) : ∀ (ss ss' : List Section), rwSections E ss = .ok ss' → ss'.length = ss.length
  | [], ss', h => by simp [rwSections] at h; rw [← h]
  | s :: ss, ss', h => by
    rw [rwSections] at h
    split at h
    · cases h
    · split at h
      · cases h
      · rename_i h2
        cases h
        simp [rwSections_length E ss _ h2]

mutual

theorem rwSection_canon (E : Editor) (hE : EditorOk E) : ∀ (s : Section), CanonSec s → keepSection E s →
    ∀ s', rwSection E s = .ok s' → CanonSec s'
  | .mk i buf [], hc, _, s', h => by
    simp only [rwSection, rwNodes] at h
    cases h
    exact hc
  | .mk i buf (.sec _ :: _), hc, _, _, _ => by
    unfold CanonSec at hc
    rcases hc with ⟨he, _⟩ | ⟨_, _, hen⟩
    · cases he
    · exact absurd hen (by simp [CanonEncap])
  | .mk i buf (.fv _ :: _ :: _), hc, _, _, _ => by
    unfold CanonSec at hc
    rcases hc with ⟨he, _⟩ | ⟨_, _, hen⟩
    · cases he
    · exact absurd hen (by simp [CanonEncap])
  | .mk i buf (.fv v :: []), hc, hk, s', h => by
    unfold CanonSec at hc
    rcases hc with ⟨he, _⟩ | ⟨ht, hts, hen⟩
    · cases he
    have hcv : CanonFv v := by simpa [CanonEncap] using hen
    have hkv : keepFv E v := by
      unfold keepSection keepNodes at hk
      exact hk.1
    rw [rwSection] at h
    simp only [rwNodes] at h
    split at h
    · cases h
    rename_i enc hn
    split at hn
    · cases hn
    rename_i v' hv
    cases hn
    cases h
    have := rwFv_canon E hE v hcv hkv v' hv
    unfold CanonSec
    exact Or.inr ⟨ht, hts, by simpa [CanonEncap] using this⟩

theorem rwSections_canon (E : Editor) (hE : EditorOk E) : ∀ (ss : List Section), CanonSecs ss → keepSections E ss →
    ∀ ss', rwSections E ss = .ok ss' → CanonSecs ss'
  | [], _, _, ss', h => by simp [rwSections] at h; subst h; trivial
  | s :: ss, hc, hk, ss', h => by
    rw [rwSections] at h
    split at h
    · cases h
    rename_i s1 h1
    split at h
    · cases h
    rename_i ss1 h2
    cases h
    unfold keepSections at hk
    exact ⟨rwSection_canon E hE s hc.1 hk.1 s1 h1, rwSections_canon E hE ss hc.2 hk.2 ss1 h2⟩

theorem rwFile_canon (E : Editor) (hE : EditorOk E) : ∀ (f : File), CanonFile f → keepFile E f →
    ∀ r, rwFile E f = .ok (some r) → CanonFile r
  | .mk i buf secs, hc, hk, r, h => by
    rw [rwFile] at h
    split at h
    · rename_i x hx
      subst h
      exact hE.file _ r hc hx
    · rename_i hx
      have hc' := hc
      unfold CanonFile at hc'
      obtain ⟨hnv, hext, hcc⟩ := hc'
      simp only [hnv, Option.isSome_none, Bool.false_eq_true, if_false] at h
      split at h
      · cases h
      rename_i secs' hs
      simp only [Except.ok.injEq, Option.some.injEq] at h
      subst h
      unfold keepFile at hk
      rw [hx] at hk
      have hks : keepSections E secs := by
        rcases hk with hk | hk
        · cases hk
        · exact hk
      unfold CanonFile
      refine ⟨hnv, hext, ?_⟩
      rcases hcc with ⟨hse, rest⟩ | ⟨hne, g1, g2, g3, g4, g5, g6, hcs⟩
      · subst hse
        simp only [rwSections, Except.ok.injEq] at hs
        subst hs
        exact Or.inl ⟨rfl, rest⟩
      · refine Or.inr ⟨?_, g1, g2, g3, g4, g5, g6, rwSections_canon E hE secs hcs hks secs' hs⟩
        intro hc2
        have := rwSections_length E secs secs' hs
        rw [hc2] at this
        exact hne (List.length_eq_zero_iff.mp this.symm)

theorem rwFiles_canon (E : Editor) (hE : EditorOk E) : ∀ (fs : List File), CanonFiles fs → keepFiles E fs →
    ∀ fs', rwFiles E fs = .ok fs' → CanonFiles fs'
  | [], _, _, fs', h => by simp [rwFiles] at h; subst h; trivial
  | f :: fs, hc, hk, fs', h => by
    rw [rwFiles] at h
    split at h
    · cases h
    rename_i r hr
    split at h
    · cases h
    rename_i rs hrs
    unfold keepFiles at hk
    have ih := rwFiles_canon E hE fs hc.2 hk.2 rs hrs
    split at h
    · rename_i f'
      cases h
      exact ⟨rwFile_canon E hE f hc.1 hk.1 f' hr, ih⟩
    · cases h
      exact ih

theorem rwFv_canon (E : Editor) (hE : EditorOk E) : ∀ (v : Fv), CanonFv v → keepFv E v →
    ∀ v', rwFv E v = .ok v' → CanonFv v'
  | .mk i buf files, hc, hk, v', h => by
    rw [rwFv] at h
    split at h
    · cases h
    · rename_i files' hx
      cases h
      obtain ⟨h1, h2, h3⟩ := hE.fv _ files' hc hx
      unfold CanonFv at hc ⊢
      rcases hc with ⟨hfl, _⟩ | ⟨_, hsk, _⟩
      · exact absurd hfl h1
      · exact Or.inr ⟨h2, hsk, h3⟩
    · rename_i hx
      split at h
      · cases h
      rename_i files' hfs
      cases h
      unfold keepFv at hk
      rw [hx] at hk
      have hk' : (files = [] ∨ rwFiles E files ≠ .ok []) ∧ keepFiles E files := by
        rcases hk with hk | hk
        · cases hk
        · exact hk
      unfold CanonFv at hc ⊢
      rcases hc with ⟨hfl, rest⟩ | ⟨hne, hsk, hcf⟩
      · subst hfl
        simp only [rwFiles, Except.ok.injEq] at hfs
        subst hfs
        exact Or.inl ⟨rfl, rest⟩
      · refine Or.inr ⟨?_, hsk, rwFiles_canon E hE files hcf hk'.2 files' hfs⟩
        intro hc2
        subst hc2
        rcases hk'.1 with h0 | h0
        · exact hne h0
        · exact h0 hfs

end

/-! ### the element list of a BIOS region -/

theorem rwBiosElems_pads (Ed : Editor) : ∀ (T es' : List BiosElem), (∀ e ∈ T, ∃ b o, e = BiosElem.pad b o) →
    rwBiosElems Ed T = .ok es' → es' = T
  | [], es', _, h => by simp [rwBiosElems] at h; exact h
  | e :: es, es', hT, h => by
    obtain ⟨b, o, rfl⟩ := hT e List.mem_cons_self
    rw [rwBiosElems] at h
    split at h
    · cases h
    rename_i es1 h1
    cases h
    rw [rwBiosElems_pads Ed es es1 (fun x hx => hT x (List.mem_cons_of_mem _ hx)) h1]

/-- an edit never touches a volume's header fields or its buffer -/
theorem rwFv_skel (E : Editor) (v v' : Fv) (h : rwFv E v = .ok v') : v'.info = v.info ∧ v'.buf = v.buf := by
  obtain ⟨i, buf, files⟩ := v
  rw [rwFv] at h
  split at h
  · cases h
  · cases h; exact ⟨rfl, rfl⟩
  · split at h
    · cases h
    · cases h; exact ⟨rfl, rfl⟩

theorem rw_rep_items (Ed : Editor) (hE : EditorOk Ed) : ∀ (is : List (Bytes × FvI)) (E : List BiosElem) (off : Nat)
    (T es' : List BiosElem), RepItems E is off → (∀ e ∈ T, ∃ b o, e = BiosElem.pad b o) → keepElems Ed (E ++ T) →
    rwBiosElems Ed (E ++ T) = .ok es' → ∃ E', es' = E' ++ T ∧ RepItems E' is off
  | [], E, off, T, es', hrep, hT, _, h => by
    have hE' : E = [] := hrep
    subst hE'
    refine ⟨[], ?_, rfl⟩
    simp only [List.nil_append] at h ⊢
    exact rwBiosElems_pads Ed T es' hT h
  | (p, vi) :: is, E, off, T, es', hrep, hT, hk, h => by
    obtain ⟨v, rest, hE', hrv, hrr⟩ := hrep
    subst hE'
    have key : ∀ es1, keepElems Ed (BiosElem.fv v :: (rest ++ T)) → rwBiosElems Ed (BiosElem.fv v :: (rest ++ T)) = .ok es1 →
        ∃ v' E2, es1 = .fv v' :: (E2 ++ T) ∧ RepFv v' vi ∧ RepItems E2 is (off + p.length + sizeFv vi) := by
      intro es1 hk1 h1
      rw [rwBiosElems] at h1
      split at h1
      · cases h1
      rename_i v' hv
      split at h1
      · cases h1
      rename_i es2 h2
      cases h1
      unfold keepElems at hk1
      obtain ⟨E2, he2, rep2⟩ := rw_rep_items Ed hE is rest _ T es2 hrr hT hk1.2 h2
      subst he2
      have hs := rwFv_skel Ed v v' hv
      exact ⟨v', E2, rfl, ⟨rwFv_canon Ed hE v hrv.canon hk1.1 v' hv, by rw [hs.1]; exact hrv.nrz,
        by rw [hs.1]; exact hrv.len, by rw [hs.2]; exact hrv.hd⟩, rep2⟩
    by_cases hp0 : p.length ≠ 0
    · simp only [hp0, if_true, ne_eq, not_false_eq_true, List.singleton_append, List.cons_append] at h hk
      rw [rwBiosElems] at h
      split at h
      · cases h
      rename_i es1 h1
      cases h
      unfold keepElems at hk
      obtain ⟨v', E2, hes, rv', rep2⟩ := key es1 hk h1
      subst hes
      exact ⟨.pad p off :: .fv v' :: E2, by simp, v', E2, by simp [hp0], rv', rep2⟩
    · simp only [hp0, if_false, List.nil_append, List.cons_append] at h hk
      obtain ⟨v', E2, hes, rv', rep2⟩ := key es' hk h
      subst hes
      exact ⟨.fv v' :: E2, by simp, v', E2, by simp [hp0], rv', rep2⟩

theorem rw_rep_bios (Ed : Editor) (hE : EditorOk Ed) (b b' : BiosRegion) (bi : BiosI) (hr : RepBios b bi)
    (hk : keepElems Ed b.elems) (h : rwBios Ed b = .ok b') : RepBios b' bi ∧ b'.fr = b.fr := by
  obtain ⟨hwb, hlen, E, hE', hrep⟩ := hr
  unfold rwBios at h
  split at h
  · cases h
  rename_i es hes
  cases h
  rw [hE'] at hes hk
  obtain ⟨E', he, rep'⟩ := rw_rep_items Ed hE bi.items E 0 _ es hrep (tailElems_pads _ _) hk hes
  exact ⟨⟨hwb, hlen, E', he, rep'⟩, rfl⟩

/-! ### the three editors -/

theorem canonFiles_append (a b : List File) : CanonFiles (a ++ b) ↔ CanonFiles a ∧ CanonFiles b := by
  induction a with
  | nil => simp [CanonFiles]
  | cons f fs ih => simp [CanonFiles, ih, and_assoc]

theorem canonFiles_take (fs : List File) (n : Nat) (h : CanonFiles fs) : CanonFiles (fs.take n) := by
  have := (canonFiles_append (fs.take n) (fs.drop n)).mp (by rw [List.take_append_drop]; exact h)
  exact this.1

theorem canonFiles_drop (fs : List File) (n : Nat) (h : CanonFiles fs) : CanonFiles (fs.drop n) := by
  have := (canonFiles_append (fs.take n) (fs.drop n)).mp (by rw [List.take_append_drop]; exact h)
  exact this.2

theorem canonFiles_insertAt (w : Where) (nf : File) (fs : List File) (i : Nat) (h : CanonFiles fs) (hn : CanonFile nf) :
    CanonFiles (insertAt w nf fs i) ∧ insertAt w nf fs i ≠ [] := by
  have h1 : CanonFiles [nf] := ⟨hn, trivial⟩
  cases w <;> simp only [insertAt]
  · exact ⟨⟨hn, h⟩, by simp⟩
  · exact ⟨(canonFiles_append _ _).mpr ⟨h, h1⟩, by simp⟩
  · exact ⟨(canonFiles_append _ _).mpr ⟨canonFiles_take _ _ h, hn, canonFiles_drop _ _ h⟩, by simp⟩
  · exact ⟨(canonFiles_append _ _).mpr ⟨canonFiles_take _ _ h, hn, canonFiles_drop _ _ h⟩, by simp⟩
  · exact ⟨(canonFiles_append _ _).mpr ⟨canonFiles_take _ _ h, hn, canonFiles_drop _ _ h⟩, by simp⟩
  · exact ⟨(canonFiles_append _ _).mpr ⟨h, h1⟩, by simp⟩

theorem canonFv_files (v : Fv) (h : CanonFv v) : CanonFiles v.files := by
  obtain ⟨i, buf, files⟩ := v
  unfold CanonFv at h
  rcases h with ⟨hfl, _⟩ | ⟨_, _, hcf⟩
  · simp only [Fv.files, hfl]; trivial
  · exact hcf

/-- Insert (file-matched): the volume that holds the matched file gets the new file -/
theorem insertFileEditor_ok (p : Pred) (w : Where) (nf : File) (hn : CanonFile nf) : EditorOk (insertFileEditor p w nf) where
  fv := by
    intro v r hc hx
    simp only [insertFileEditor] at hx
    split at hx
    · rename_i i hi
      simp only [Option.some.injEq, Except.ok.injEq] at hx
      subst hx
      have hlt := hitIndex_lt p v.files i hi
      have := canonFiles_insertAt w nf v.files i (canonFv_files v hc) hn
      exact ⟨by intro hc'; rw [hc'] at hlt; simp at hlt, this.2, this.1⟩
    · cases hx
  file := by intro f r _ hx; simp [insertFileEditor] at hx

/-- Insert (volume-matched), for a selector that accepts only volumes that have files -/
theorem insertFvEditor_ok (p : Pred) (w : Where) (nf : File) (hn : CanonFile nf)
    (hsel : ∀ v, p.fv v = true → v.files ≠ []) : EditorOk (insertFvEditor p w nf) where
  fv := by
    intro v r hc hx
    simp only [insertFvEditor] at hx
    split at hx
    · rename_i hp
      have h1 : CanonFiles [nf] := ⟨hn, trivial⟩
      cases w with
      | front =>
        simp only [Option.some.injEq, Except.ok.injEq] at hx
        subst hx; exact ⟨hsel v hp, by simp, hn, canonFv_files v hc⟩
      | end_ =>
        simp only [Option.some.injEq, Except.ok.injEq] at hx
        subst hx; exact ⟨hsel v hp, by simp, (canonFiles_append _ _).mpr ⟨canonFv_files v hc, h1⟩⟩
      | after => simp at hx
      | before => simp at hx
      | replace => simp at hx
      | dxe => simp at hx
    · cases hx
  file := by intro f r _ hx; simp [insertFvEditor] at hx

theorem casm_buf_doff (i : FileInfo) (d : Nat) (data : Bytes) :
    (checksumAndAssemble { i with dataOffset := d } data).2 = (checksumAndAssemble i data).2 := by
  unfold checksumAndAssemble encodeFileHeader
  rfl

/-- the pad file `remove_pad` (and Remove on a PEIM) puts in place of a file satisfies the invariant -/
theorem mkPadFile_canon (n : Nat) (pf : File) (hlt : n < 2 ^ 62) (h : mkPadFile 0xFF n = .ok pf) : CanonFile pf := by
  unfold mkPadFile at h
  split at h
  · cases h
  rename_i h24
  rw [if_neg (by decide)] at h
  have hcp := createPadFile_gram n (by omega)
  unfold createPadFile at hcp
  rw [if_neg h24, if_neg (by decide)] at hcp
  simp only [Except.ok.injEq] at h hcp
  subst h
  have hw := wfFile_padI n (by omega) (by omega)
  by_cases hb : n ≥ 0xFFFFFF
  · have hs : setSize 0 n false = (1, 0xFFFFFF, n) := by unfold setSize write3; simp [hb]
    simp only [hs] at hcp ⊢
    unfold CanonFile
    refine ⟨rfl, by simp only [checksumAndAssemble]; omega, Or.inl ⟨rfl, ?_⟩⟩
    unfold padI at hw hcp
    simp only [hb, decide_true, if_true] at hw hcp
    refine ⟨_, _, _, _, _, _, _, _, hw, ?_, rfl, rfl, rfl, fun hc => absurd rfl hc⟩
    rw [← hcp]
    unfold checksumAndAssemble encodeFileHeader
    rfl
  · have hs : setSize 0 n false = (0, n, n) := by unfold setSize write3; simp [hb]
    simp only [hs] at hcp ⊢
    unfold CanonFile
    refine ⟨rfl, by simp only [checksumAndAssemble]; omega, Or.inl ⟨rfl, ?_⟩⟩
    unfold padI at hw hcp
    simp only [hb, decide_false, Bool.false_eq_true, if_false] at hw hcp
    refine ⟨_, _, _, _, _, _, _, _, hw, ?_, rfl, rfl, rfl, fun hc => absurd rfl hc⟩
    rw [← hcp]
    unfold checksumAndAssemble encodeFileHeader
    rfl

theorem canonFile_extSize (f : File) (h : CanonFile f) : f.info.extSize < 2 ^ 62 := by
  obtain ⟨i, buf, secs⟩ := f
  unfold CanonFile at h
  exact h.2.1

/-- Remove / remove_pad under erase polarity 1 -/
theorem removeEditor_ok (p : Pred) (pad : Bool) : EditorOk (removeEditor p pad 0xFF) where
  fv := by intro v r _ hx; simp [removeEditor] at hx
  file := by
    intro f r hc hx
    simp only [removeEditor] at hx
    split at hx
    · split at hx
      · split at hx
        · cases hx
        · rename_i pf hm
          simp only [Option.some.injEq, Except.ok.injEq] at hx
          subst hx
          exact mkPadFile_canon _ pf (canonFile_extSize f hc) hm
      · simp at hx
    · cases hx

/-! ReplacePE32 -/

theorem pe32Section_canon (body : Bytes) (hb : body.length + 8 < 0xFFFFFFFF) : ∀ (s s' : Section), CanonSec s →
    pe32Section body s = .ok s' → CanonSec s'
  | .mk i buf encap, s', hc, h => by
    rw [pe32Section] at h
    split at h
    · rename_i ht
      -- a PE32 section: header regenerated around the new body
      have hts : i.ts = none := by
        unfold CanonSec at hc
        rcases hc with ⟨_, hc⟩ | ⟨h17, _, _⟩
        · rcases hc with ⟨h15, _⟩ | ⟨h14, _⟩ | ⟨hd, _⟩ | ⟨_, _, _, hts, _⟩
          · rw [ht] at h15; cases h15
          · rw [ht] at h14; cases h14
          · rw [ht] at hd; exact absurd hd (by decide)
          · exact hts (by rw [ht]; decide)
        · rw [ht] at h17; cases h17
      have hgen := genSecHeader_canon i body hts (by rw [ht]; decide) hb
      rw [hgen] at h
      cases h
      have f15 : i.type ≠ 0x15 := by rw [ht]; decide
      have f14 : i.type ≠ 0x14 := by rw [ht]; decide
      have fd : isDepexType i.type = false := by rw [ht]; decide
      unfold CanonSec
      refine Or.inl ⟨rfl, Or.inr (Or.inr (Or.inr ⟨f15, f14, fd, fun _ => hts,
        .leaf 0x10 (canonExt body.length) body, ?_, ?_, ?_⟩))⟩
      · simp only [wfSec, Bool.and_eq_true, Bool.or_eq_true, Bool.not_eq_true']
        refine ⟨⟨by decide, Or.inr (by decide)⟩, ?_⟩
        exact secSizeOk_canon body.length hb
      · rw [ht]
        simp only [secTypePE32, serSec, canonSec_eq]
      · intro o; simp [treeSec, avSection, avNodes]
    · split at h
      · cases h
      rename_i encap' hn
      cases h
      -- children: none, or one volume (which ReplacePE32 does not enter)
      unfold CanonSec at hc ⊢
      rcases hc with ⟨he, rest⟩ | ⟨h17, hts, hen⟩
      · subst he
        simp only [pe32Nodes, Except.ok.injEq] at hn
        subst hn
        exact Or.inl ⟨rfl, rest⟩
      · match encap, hen with
        | .fv v :: [], hen =>
          simp only [pe32Nodes, Except.ok.injEq] at hn
          subst hn
          exact Or.inr ⟨h17, hts, hen⟩

theorem pe32Sections_canon (body : Bytes) (hb : body.length + 8 < 0xFFFFFFFF) : ∀ (ss ss' : List Section),
    CanonSecs ss → pe32Sections body ss = .ok ss' → CanonSecs ss' ∧ ss'.length = ss.length
  | [], ss', _, h => by simp [pe32Sections] at h; subst h; exact ⟨trivial, rfl⟩
  | s :: ss, ss', hc, h => by
    rw [pe32Sections] at h
    split at h
    · cases h
    rename_i s1 h1
    split at h
    · cases h
    rename_i ss1 h2
    cases h
    have ih := pe32Sections_canon body hb ss ss1 hc.2 h2
    exact ⟨⟨pe32Section_canon body hb s s1 hc.1 h1, ih.1⟩, by simp [ih.2]⟩

theorem pe32File_canon (body : Bytes) (hb : body.length + 8 < 0xFFFFFFFF) (f f' : File) (hc : CanonFile f)
    (h : pe32File body f = .ok f') : CanonFile f' := by
  obtain ⟨i, buf, secs⟩ := f
  unfold pe32File at h
  have hc' := hc
  unfold CanonFile at hc'
  obtain ⟨hnv, hext, hcc⟩ := hc'
  simp only [File.info, hnv, Option.isSome_none, Bool.false_eq_true, if_false, File.secs, File.buf] at h
  split at h
  · cases h
  rename_i secs' hs
  cases h
  unfold CanonFile
  refine ⟨hnv, hext, ?_⟩
  rcases hcc with ⟨hse, rest⟩ | ⟨hne, g1, g2, g3, g4, g5, g6, hcs⟩
  · subst hse
    simp only [pe32Sections, Except.ok.injEq] at hs
    subst hs
    exact Or.inl ⟨rfl, rest⟩
  · have := pe32Sections_canon body hb secs secs' hcs hs
    refine Or.inr ⟨?_, g1, g2, g3, g4, g5, g6, this.1⟩
    intro hc2
    rw [hc2] at this
    exact hne (List.length_eq_zero_iff.mp this.2.symm)

/-- ReplacePE32 with a body below 4 GiB -/
theorem pe32Editor_ok (p : Pred) (body : Bytes) (hb : body.length + 8 < 0xFFFFFFFF) : EditorOk (pe32Editor p body) where
  fv := by intro v r _ hx; simp [pe32Editor] at hx
  file := by
    intro f r hc hx
    simp only [pe32Editor] at hx
    split at hx
    · split at hx
      · cases hx
      · rename_i f' hf
        simp only [Option.some.injEq, Except.ok.injEq] at hx
        subst hx
        exact pe32File_canon body hb f f' hc hf
    · cases hx

end Fiano.Uefi.Exact
