/-
  Property C04 — completeness of the file walk ("nothing is dropped").

  `FilesAt` (Faithful.lean) says where every file of a volume sits and, at the end of the list, how
  the walk ended (`WalkEnd`).  This file turns that into the accounting equation of the property:

      DataOffset + Σ (alignment gap before file k, < 8) + Σ (size of file k)     = end of the last file
      end of the last file + (gap < 8) + FreeSpace = Length                        free space reached
   or Length − end of the last file < 24,  FreeSpace = 0                           no room for a header

  The model follows the code as repaired by fixes/C03-header-only-last-file.diff (commit cce350a, known
  finding F52): the walk runs while `offset <= Length − 24`.  The rule BEFORE the repair (`<`, strict)
  is refuted below by a `decide`d witness (section "the unrepaired walk"): a 128-byte FFSv2 volume whose
  last 24 bytes are a complete, valid header-only pad file; the strict walk returns one file and
  `FreeSpace = 0` — 24 bytes that are in no node and not reported free, `WalkEnd` is false — while the
  repaired walk returns both files and ends with nothing left.
-/
import FianoModel.Uefi.FaithfulCor
import FianoModel.Uefi.ParseEval

namespace Fiano.Uefi.Cover
open FaithfulAux
open Fiano Fiano.Uefi

/-- end of the last file of the walk that starts at `off` (`off` itself when there is no file) -/
def fileEnd : List File → Nat → Nat
  | [], off => off
  | f :: fs, off => fileEnd fs (up8 off + f.info.extSize)

/-- the alignment gaps in front of the files -/
def fileGaps : List File → Nat → List Nat
  | [], _ => []
  | f :: fs, off => (up8 off - off) :: fileGaps fs (up8 off + f.info.extSize)

theorem up8_ge (n : Nat) : n ≤ up8 n := by unfold up8; omega
theorem up8_lt (n : Nat) : up8 n < n + 8 := by unfold up8; omega

/-- every gap is an alignment gap (< 8 bytes), and gaps + sizes add up to the end of the last file -/
theorem fileEnd_sum : ∀ (fs : List File) (off : Nat),
    fileEnd fs off = off + (fileGaps fs off).sum + (fs.map (·.info.extSize)).sum ∧
    ∀ g ∈ fileGaps fs off, g < 8 := by
  intro fs
  induction fs with
  | nil => intro off; exact ⟨by simp [fileEnd, fileGaps], fun g hg => (by cases hg)⟩
  | cons f fs ih =>
    intro off
    obtain ⟨h1, h2⟩ := ih (up8 off + f.info.extSize)
    refine ⟨?_, ?_⟩
    · simp only [fileEnd, fileGaps, List.map_cons, List.sum_cons]
      rw [h1]
      have := up8_ge off
      omega
    · intro g hg
      simp only [fileGaps] at hg
      cases hg with
      | head => have := up8_lt off; have := up8_ge off; omega
      | tail _ hg => exact h2 g hg

/-- **the walk covers the volume**: the last file ends inside the volume and the walk ends there as
    `WalkEnd` says -/
theorem files_cover (h : Hooks) : ∀ (fs : List File) (fvbuf : Bytes) (off free : Nat),
    FilesAt h fs fvbuf off free →
      off ≤ fileEnd fs off ∧ (fs ≠ [] → fileEnd fs off ≤ fvbuf.length) ∧ WalkEnd fvbuf (fileEnd fs off) free := by
  intro fs
  induction fs with
  | nil =>
    intro fvbuf off free hf
    simp only [FilesAt] at hf
    exact ⟨Nat.le_refl _, fun hc => absurd rfl hc, hf⟩
  | cons f fs ih =>
    intro fvbuf off free hf
    simp only [FilesAt] at hf
    obtain ⟨hlt, hff, hpos, hrest⟩ := hf
    obtain ⟨h1, h2, h3⟩ := ih _ _ _ hrest
    have hle := hff.ext_le
    simp only [List.length_drop] at hle
    have := up8_ge off
    refine ⟨by simp only [fileEnd]; omega, fun _ => ?_, h3⟩
    simp only [fileEnd]
    cases fs with
    | nil => simp only [fileEnd]; omega
    | cons g gs => exact h2 (by intro hc; cases hc)

/-- **C04, "nothing dropped", for a volume of a parsed file system.**  With `e` = the end of the last
    file: `DataOffset + gaps + sizes = e` (every gap < 8); and either the free space starts at the
    next 8-aligned offset with an erased header and `e + gap + FreeSpace = Length`; or `FreeSpace = 0`
    and fewer than 24 bytes are left behind `e`. -/
theorem volume_covered (h : Hooks) (i : FvInfo) (buf : Bytes) (files : List File) (data : Bytes)
    (hv : FvF h (.mk i buf files) data) (hfs : i.fsGuid = guidFFS2 ∨ i.fsGuid = guidFFS3) :
    let e := fileEnd files i.dataOffset
    e = i.dataOffset + (fileGaps files i.dataOffset).sum + (files.map (·.info.extSize)).sum ∧
    (∀ g ∈ fileGaps files i.dataOffset, g < 8) ∧
    ((up8 e < i.length ∧ FreeHeader (buf.drop (up8 e)) ∧ up8 e - e < 8 ∧ e + (up8 e - e) + i.freeSpace = i.length) ∨
     (i.freeSpace = 0 ∧ i.length < e + 24)) := by
  unfold FvF at hv
  obtain ⟨_, hle, hbuf, hfiles⟩ := hv
  rw [if_pos hfs] at hfiles
  have hlen : buf.length = i.length := by rw [hbuf]; simp only [List.length_take]; omega
  obtain ⟨h1, _, h3⟩ := files_cover h _ _ _ _ hfiles
  obtain ⟨hs1, hs2⟩ := fileEnd_sum files i.dataOffset
  refine ⟨hs1, hs2, ?_⟩
  unfold WalkEnd at h3
  rw [hlen] at h3
  have hu := up8_ge (fileEnd files i.dataOffset)
  have hl := up8_lt (fileEnd files i.dataOffset)
  cases h3 with
  | inl h3 => exact Or.inl ⟨h3.1, h3.2.1, by omega, by omega⟩
  | inr h3 => exact Or.inr h3

/-! ### the unrepaired walk (known finding F52, fixed by commit cce350a) is refuted -/

namespace F52

/-- the file walk as it was before the repair: `offset < lh`, strict; everything else is `parseFiles`
    (over the evaluable twin of `NewFile`, ParseEval.lean) -/
def parseFilesStrict (h : Hooks) : Nat → Bytes → Nat → Nat → Nat → St → Except Err (List File × Nat × St)
  | 0, _, _, _, _, _ => .error .fuel
  | fuel+1, data, offset, lh, length, st =>
    if offset < lh then
      let offset := align8 offset
      if data.length ≤ offset then .error .err else
      match parseFileE h fuel (data.drop offset) st with
      | .error e => .error e
      | .ok (none, st') => .ok ([], length - offset, st')
      | .ok (some f, st') =>
        if f.info.extSize = 0 then .error .err else
        match parseFilesStrict h fuel data (offset + f.info.extSize) lh length st' with
        | .error e => .error e
        | .ok (fs, free, st'') => .ok (f :: fs, free, st'')
    else .ok ([], 0, st)

/-- 128-byte FFSv2 volume: header [0,72), RAW file [72,104), a complete header-only pad file [104,128) -/
def witness : Bytes := [0x00, 0x00, 0x00, 0x00, 0x00, 0x00, 0x00, 0x00, 0x00, 0x00, 0x00, 0x00, 0x00, 0x00, 0x00, 0x00, 0x78, 0xe5, 0x8c, 0x8c, 0x3d, 0x8a, 0x1c, 0x4f, 0x99, 0x35, 0x89, 0x61, 0x85, 0xc3, 0x2d, 0xd3, 0x80, 0x00, 0x00, 0x00, 0x00, 0x00, 0x00, 0x00, 0x5f, 0x46, 0x56, 0x48, 0xff, 0xfe, 0x04, 0x00, 0x48, 0x00, 0x37, 0xf6, 0x00, 0x00, 0x00, 0x02, 0x10, 0x00, 0x00, 0x00, 0x08, 0x00, 0x00, 0x00, 0x00, 0x00, 0x00, 0x00, 0x00, 0x00, 0x00, 0x00, 0x01, 0x02, 0x03, 0x04, 0x05, 0x06, 0x07, 0x08, 0x09, 0x0a, 0x0b, 0x0c, 0x0d, 0x0e, 0x0f, 0x10, 0x57, 0xaa, 0x01, 0x00, 0x20, 0x00, 0x00, 0xf8, 0x20, 0x21, 0x22, 0x23, 0x24, 0x25, 0x26, 0x27, 0xff, 0xff, 0xff, 0xff, 0xff, 0xff, 0xff, 0xff, 0xff, 0xff, 0xff, 0xff, 0xff, 0xff, 0xff, 0xff, 0x08, 0xaa, 0xf0, 0x00, 0x18, 0x00, 0x00, 0xf8]

set_option maxRecDepth 8192 in
/-- the strict walk over the witness (DataOffset 72, `lh` = 128 − 24): ONE file, [72,104), `FreeSpace` 0 -/
theorem strict_result :
    (match parseFilesStrict Hooks.none 64 witness 72 104 128 {} with
     | .ok (fs, free, _) => (fileSpans fs 72, fileEnd fs 72, free)
     | .error _ => ([], 0, 1)) = ([(72, 104)], 104, 0) := by
  decide +kernel

/-- … although the 24 bytes behind that file are a complete file of their own: a valid header that says
    "24 bytes", not erased -/
theorem tail_is_a_file :
    (match fileHeader (witness.drop 104) with
     | .ok (some i) => (i.type, i.extSize, i.dataOffset)
     | _ => (0, 0, 0)) = (0xF0, 24, 24) ∧ (witness.drop 104).all (· == 0xFF) = false := by
  decide +kernel

/-- **the strict rule violates the covering clause**: where it stops (end of the last file 104,
    `FreeSpace` 0, volume of 128 bytes) is neither free space nor "fewer than 24 bytes left" -/
theorem strict_not_covered : ¬ WalkEnd witness 104 0 := by
  unfold WalkEnd
  intro h
  have hl : witness.length = 128 := by decide +kernel
  rw [hl] at h
  have hu : up8 104 = 104 := by decide
  rw [hu] at h
  omega

set_option maxRecDepth 8192 in
/-- the repaired rule (the shared model) reads the header at `Length − 24`: TWO files, [72,104) and
    [104,128), and the walk ends with nothing left -/
theorem repaired_result :
    (match parseFv Hooks.none 65 witness 0 false {} with
     | .ok (v, _) => (v.info.length, v.info.freeSpace, fileSpans v.files v.info.dataOffset, fileEnd v.files v.info.dataOffset)
     | .error _ => (0, 0, [], 0)) = (128, 0, [(72, 104), (104, 128)], 128) := by
  rw [parseFv_eval]; decide +kernel

end F52

end Fiano.Uefi.Cover
