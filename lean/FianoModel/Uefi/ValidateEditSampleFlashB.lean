/-
  C09a for edited trees (wp-c09c): kernel evaluation, part B (the run and both saved images; about a minute).
-/
import FianoModel.Uefi.ValidateEditSampleFlashDef

namespace Fiano.Uefi.C09
open Fiano Fiano.Uefi

set_option maxRecDepth 1000000 in
/-- the run succeeds, writes two images, both different from the input, and both satisfy `reparseB` -/
theorem ve_flash_run : (match utk Hooks.none veFlash veFlashSpecs with
    | .ok r => r.outs.length == 2 && r.outs.all (fun b => b != veFlash && reparseB Hooks.none b)
    | .error _ => false) = true := by
  unfold utk reparseB
  simp only [← parseWith_eval]
  decide +kernel

end Fiano.Uefi.C09
