/-
  C09b, locality of the parser — part 2: volumes (an altered byte inside one file of the volume) and the
  volume scan of a BIOS region (an altered byte inside one of its volumes).
  Core Lean only.
-/
import FianoModel.Uefi.ValidateLocal

namespace Fiano.Uefi
open Fiano Fiano.Uefi.Spec

/-! ### the volume node and the bytes it was decoded from -/

/-- the node `parseFv` returns carries the header as `fvInfoOf` decodes it (only `FreeSpace` is filled in
    by the file walk) -/
theorem parseFv_info {h : Hooks} {fuel : Nat} {data : Bytes} {off : Nat} {rs : Bool} {st st1 : St} {fv : Fv}
    (hp : parseFv h fuel data off rs st = .ok (fv, st1)) :
    ∃ blocks free, fv.info = { fvInfoOf data blocks off rs with freeSpace := free } := by
  cases fuel with
  | zero => simp [parseFv] at hp
  | succ fuel =>
    simp only [parseFv] at hp
    by_cases h64 : data.length < 64
    · simp [h64] at hp
    rw [if_neg h64] at hp
    cases hrb : readBlocks (data.drop 56) with
    | error e => rw [hrb] at hp; simp at hp
    | ok blocks =>
      rw [hrb] at hp
      simp only at hp
      split at hp
      · simp at hp
      · cases hsp : setPolarity (polOfAttrs (fvInfoOf data blocks off rs).attrs) st with
        | error e => rw [hsp] at hp; simp at hp
        | ok stp =>
          rw [hsp] at hp
          simp only at hp
          split at hp
          · simp at hp
          · split at hp
            · simp only [Except.ok.injEq, Prod.mk.injEq] at hp
              obtain ⟨rfl, _⟩ := hp
              exact ⟨blocks, 0, rfl⟩
            · split at hp
              · simp at hp
              · rename_i fs free st2 _
                simp only [Except.ok.injEq, Prod.mk.injEq] at hp
                obtain ⟨rfl, _⟩ := hp
                exact ⟨blocks, free, rfl⟩

theorem parseFv_prologue {h : Hooks} {fuel : Nat} {data : Bytes} {off : Nat} {rs : Bool} {st st1 : St} {fv : Fv}
    (hp : parseFv h fuel data off rs st = .ok (fv, st1)) : fv.info.prologue = fvPrologue data := by
  obtain ⟨blocks, free, hi⟩ := parseFv_info hp
  rw [hi]
  rfl

theorem vFile_ne_of_node {f : File} (h : validateFileNode f.info f.buf ≠ []) : vFile f ≠ [] := by
  intro e
  exact h (vFile_nil e).1

/-! ### an altered byte inside one file of a volume -/

set_option maxRecDepth 8192 in
/-- **volume, an altered byte inside one of its files**: the volume parsed from `data` passes, files
    included; one byte inside its file `f` is altered; if at `f`'s offset of the altered (clipped) volume the
    parser can only report a file that fails, then every volume the parser reports on the altered bytes —
    from any process state, with any budget — fails. -/
theorem parseFv_files_detect (h : Hooks) {fuel : Nat} {data data' : Bytes} {off : Nat} {rs : Bool} {st st1 : St}
    {fv : Fv} {pre post : List File} {f : File} {q : Nat}
    (hp : parseFv h fuel data off rs st = .ok (fv, st1)) (hv : vFv fv = [])
    (hfiles : fv.files = pre ++ f :: post)
    (ha : Alter data data' (align8 (startAfter pre fv.info.dataOffset) + q)) (hq : q < f.info.extSize)
    (hreg : fv.regular) (hbig : data.length + 8 < 2 ^ 64)
    (inner : ∀ fuel' st' fo st2,
      parseFile h fuel' ((data'.take fv.info.length).drop (align8 (startAfter pre fv.info.dataOffset))) st' =
        .ok (fo, st2) → ∃ f', fo = some f' ∧ vFile f' ≠ []) :
    ∀ fuel' off' rs' st' fv' st2, parseFv h fuel' data' off' rs' st' = .ok (fv', st2) → vFv fv' ≠ [] := by
  intro fuel' off' rs' st' fv' st2 hp'
  cases fuel with
  | zero => simp [parseFv] at hp
  | succ fuel0 =>
  cases fuel' with
  | zero => simp [parseFv] at hp'
  | succ fuel0' =>
    obtain ⟨hvn, hvf⟩ := vFv_nil hv
    have okn := (validateFvNode_nil_iff _ _).mp hvn
    obtain ⟨_, hL, hbuf, hlen, hhl, _, _, _⟩ := parseFv_ok_fields _ _ _ _ _ _ _ _ hp
    have hpro := parseFv_prologue hp
    obtain ⟨blocks, stp, _, hsp, _, hnon, hffs⟩ := parseFv_ffs_eq hp
    have hg : ¬ (slice data 16 16 ≠ guidFFS2 ∧ slice data 16 16 ≠ guidFFS3) := by
      intro hg
      have := hnon hg
      simp only at this
      rw [hfiles] at this
      simp at this
    obtain ⟨hdo, free, hpf⟩ := hffs hg
    simp only at hdo hpf
    unfold Fv.regular at hreg
    rw [hpro, hdo] at hreg
    rw [hdo] at ha
    rw [hdo, hlen] at inner
    rw [hfiles] at hpf hvf
    have hfl : (data.take (rd data 32 8)).length = rd data 32 8 := by rw [List.length_take]; omega
    have hbig2 : (data.take (rd data 32 8)).length + 8 < 2 ^ 64 := by rw [hfl]; omega
    obtain ⟨hw1, hw2, hin⟩ := walk_bounds hbig2 pre fuel0 (doOf data) stp hpf (doOf_bound data)
    rw [hfl] at hin
    have hge := v_align8_ge _ hw2
    -- the altered byte lies behind everything the volume parser reads before the walk
    have h64 : 64 ≤ rd data 48 2 := by rw [← hhl]; exact okn.hl
    generalize hpd : align8 (startAfter pre (doOf data)) + q = p at ha
    have hpro' : rd data 48 2 ≤ p ∧ (hasExtOf data = true → rd data 52 2 + 20 ≤ p) := by
      unfold fvPrologue at hreg
      cases hx : hasExtOf data
      · simp only [hx, Bool.false_eq_true, if_false] at hreg; exact ⟨by omega, by simp⟩
      · simp only [hx, if_true] at hreg; exact ⟨by omega, by intro _; omega⟩
    have e16 : slice data' 16 16 = slice data 16 16 := ha.slice_eq (by omega)
    have e32 : rd data' 32 8 = rd data 32 8 := ha.rd_eq (by omega)
    have e48 : rd data' 48 2 = rd data 48 2 := ha.rd_eq (by omega)
    have e52 : rd data' 52 2 = rd data 52 2 := ha.rd_eq (by omega)
    have ehx : hasExtOf data' = hasExtOf data := by unfold hasExtOf; rw [e32, e52]
    have edo : doOf data' = doOf data := by
      unfold doOf
      rw [ehx, e48, e52]
      cases hx : hasExtOf data
      · rfl
      · have := hpro'.2 hx
        have : rd data' (rd data 52 2 + 16) 4 = rd data (rd data 52 2 + 16) 4 := ha.rd_eq (by omega)
        simp only [if_true, this]
    obtain ⟨blocks', stp', _, _, _, _, hffs'⟩ := parseFv_ffs_eq hp'
    obtain ⟨_, free', hpf'⟩ := hffs' (by rw [e16]; exact hg)
    simp only at hpf'
    rw [edo, e32] at hpf'
    have hpL : p < rd data 32 8 := by omega
    have ha2 : Alter (data.take (rd data 32 8)) (data'.take (rd data 32 8)) p := ha.take_gt hpL
    rw [← hpd] at ha2
    have := parseFiles_detect h hbig2 pre fuel0 (doOf data) stp hpf hvf (doOf_bound data) ha2 inner
      _ _ _ _ _ _ hpf'
    exact vFv_ne_of_files this

/-! ### the strong form for volumes: the *result* does not depend on bytes behind the volume -/

theorem take8 (m : Nat) (b0 b1 b2 b3 b4 b5 b6 b7 : UInt8) (rest : Bytes) :
    List.take (m + 8) (b0 :: b1 :: b2 :: b3 :: b4 :: b5 :: b6 :: b7 :: rest) =
      b0 :: b1 :: b2 :: b3 :: b4 :: b5 :: b6 :: b7 :: List.take m rest := rfl

/-- the block-map reader looks at the entries up to and including the terminator only -/
theorem readBlocks_prefix : ∀ (x : Bytes) (bs : List Block), readBlocks x = .ok bs →
    ∀ t, readBlocks (x.take (8 * (bs.length + 1)) ++ t) = .ok bs
  | b0 :: b1 :: b2 :: b3 :: b4 :: b5 :: b6 :: b7 :: rest, bs, h, t => by
    have e8 : 8 * (bs.length + 1) = 8 * bs.length + 8 := by omega
    rw [e8, take8]
    simp only [readBlocks, List.cons_append] at h ⊢
    split at h
    · rename_i hz
      rw [if_pos hz]; exact h
    · rename_i hz
      rw [if_neg hz]
      cases hr : readBlocks rest with
      | error e => rw [hr] at h; simp at h
      | ok bs2 =>
        rw [hr] at h
        simp only [Except.ok.injEq] at h
        subst h
        have e9 : 8 * (⟨fromLE [b0, b1, b2, b3], fromLE [b4, b5, b6, b7]⟩ :: bs2 : List Block).length =
            8 * (bs2.length + 1) := by simp only [List.length_cons]
        rw [e9, readBlocks_prefix rest bs2 hr t]
  | [], _, h, _ => by simp [readBlocks] at h
  | [_], _, h, _ => by simp [readBlocks] at h
  | [_, _], _, h, _ => by simp [readBlocks] at h
  | [_, _, _], _, h, _ => by simp [readBlocks] at h
  | [_, _, _, _], _, h, _ => by simp [readBlocks] at h
  | [_, _, _, _, _], _, h, _ => by simp [readBlocks] at h
  | [_, _, _, _, _, _], _, h, _ => by simp [readBlocks] at h
  | [_, _, _, _, _, _, _], _, h, _ => by simp [readBlocks] at h

theorem readBlocks_congr (x x' : Bytes) (bs : List Block) (h : readBlocks x = .ok bs)
    (ht : x'.take (8 * (bs.length + 1)) = x.take (8 * (bs.length + 1))) : readBlocks x' = .ok bs := by
  have := readBlocks_prefix x bs h (x'.drop (8 * (bs.length + 1)))
  rw [← ht, List.take_append_drop] at this
  exact this

set_option maxRecDepth 8192 in
/-- **`parseFv` is local**: it looks at the length of its buffer and at the `Length` bytes of the volume;
    an alteration behind the volume does not change what it returns (same node, same state) -/
theorem parseFv_alter_beyond {h : Hooks} {fuel : Nat} {data data' : Bytes} {off : Nat} {rs : Bool} {st st1 : St}
    {fv : Fv} {q : Nat} (ha : Alter data data' q) (hp : parseFv h fuel data off rs st = .ok (fv, st1))
    (hq : fv.info.length ≤ q) : parseFv h fuel data' off rs st = .ok (fv, st1) := by
  obtain ⟨h64, hL, _, hlen, _⟩ := parseFv_ok_fields _ _ _ _ _ _ _ _ hp
  cases fuel with
  | zero => simp [parseFv] at hp
  | succ fuel0 =>
    rw [hlen] at hq
    have el : data'.length = data.length := ha.length_eq
    -- the block map ends inside the volume
    obtain ⟨blocks, hrb, hbm⟩ : ∃ blocks, readBlocks (data.drop 56) = .ok blocks ∧
        56 + 8 * (blocks.length + 1) ≤ rd data 32 8 := by
      simp only [parseFv] at hp
      rw [if_neg (by omega)] at hp
      cases hrb : readBlocks (data.drop 56) with
      | error e => rw [hrb] at hp; simp at hp
      | ok blocks =>
        rw [hrb] at hp
        simp only at hp
        refine ⟨blocks, rfl, ?_⟩
        have elen : (fvInfoOf data blocks off rs).length = rd data 32 8 := rfl
        rw [elen] at hp
        by_cases hc : 56 + 8 * (blocks.length + 1) > rd data 32 8
        · rw [if_pos hc] at hp; simp at hp
        · omega
    have hrb' : readBlocks (data'.drop 56) = .ok blocks :=
      readBlocks_congr _ _ _ hrb (ha.slice_eq (off := 56) (len := 8 * (blocks.length + 1)) (by omega))
    have hinfo : fvInfoOf data' blocks off rs = fvInfoOf data blocks off rs := by
      have e16 : slice data' 16 16 = slice data 16 16 := ha.slice_eq (by omega)
      have e32 : rd data' 32 8 = rd data 32 8 := ha.rd_eq (by omega)
      have e40 : rd data' 40 4 = rd data 40 4 := ha.rd_eq (by omega)
      have e44 : rd data' 44 4 = rd data 44 4 := ha.rd_eq (by omega)
      have e48 : rd data' 48 2 = rd data 48 2 := ha.rd_eq (by omega)
      have e50 : rd data' 50 2 = rd data 50 2 := ha.rd_eq (by omega)
      have e52 : rd data' 52 2 = rd data 52 2 := ha.rd_eq (by omega)
      have e54 : rd data' 54 1 = rd data 54 1 := ha.rd_eq (by omega)
      have e55 : rd data' 55 1 = rd data 55 1 := ha.rd_eq (by omega)
      unfold fvInfoOf
      simp only [e16, e32, e40, e44, e48, e50, e52, e54, e55]
      by_cases hx : rd data 52 2 ≠ 0 ∧ rd data 32 8 ≥ 20 ∧ rd data 52 2 ≤ rd data 32 8 - 20
      · have e1 : rd data' (rd data 52 2 + 16) 4 = rd data (rd data 52 2 + 16) 4 := ha.rd_eq (by omega)
        have e2 : slice data' (rd data 52 2) 16 = slice data (rd data 52 2) 16 := ha.slice_eq (by omega)
        simp only [e1, e2]
      · simp only [hx, decide_false, Bool.false_eq_true, if_false]
    have et : data'.take (fvInfoOf data blocks off rs).length = data.take (fvInfoOf data blocks off rs).length :=
      ha.take_le (n := rd data 32 8) hq
    have key : parseFv h (fuel0 + 1) data' off rs st = parseFv h (fuel0 + 1) data off rs st := by
      simp only [parseFv]
      rw [el, hrb, hrb']
      simp only [hinfo, et]
    rw [key, hp]

/-! ### the altered byte belongs to the file itself -/

theorem allFF_rd {buf : Bytes} (h : (buf.take 24).all (· == 0xFF) = true) (hl : 24 ≤ buf.length) (i : Nat)
    (hi : i < 24) : rd buf i 1 = 0xFF := by
  have hlt : i < buf.length := by omega
  have e : (buf.drop i).take 1 = [buf[i]] := by
    rw [List.drop_eq_getElem_cons hlt, List.take_succ_cons, List.take_zero]
  have hm : buf[i] ∈ buf.take 24 := by
    rw [List.mem_take_iff_getElem]
    exact ⟨i, by omega, rfl⟩
  have := List.all_eq_true.mp h _ hm
  simp only [beq_iff_eq] at this
  unfold rd slice
  rw [e, this]
  rfl

/-- **file, one of its own protected bytes**: unless the altered header reads "size FFFFFF, eight erased
    bytes" (`FreeMarker`), the parser reports a file on the altered bytes (or refuses them), and that file
    fails.  The second way the repaired reader recognises free space (fixes/C02-erased-tail-24: an erased
    24-byte header with fewer than 8 bytes behind it) cannot be produced by altering one byte of a file
    that passes: proved here, no hypothesis needed. -/
theorem parseFile_target_detect {h : Hooks} {fuel : Nat} {buf buf' : Bytes} {st st1 : St} {f : File} {r : Nat}
    (hp : parseFile h fuel buf st = .ok (some f, st1)) (hv : validateFileNode f.info f.buf = [])
    (ha : Alter buf buf' r) (hr : r < f.info.extSize) (h23 : r ≠ 23)
    (hcl : r < (if isLarge f.info.attrs = true then 32 else 24) ∨ hasChecksum f.info.attrs = true)
    (hfree : ¬ FreeMarker buf' 0) :
    ∀ fuel' st' fo st2, parseFile h fuel' buf' st' = .ok (fo, st2) → ∃ f', fo = some f' ∧ vFile f' ≠ [] := by
  intro fuel' st' fo st2 hp'
  cases fo with
  | none =>
    exfalso
    obtain ⟨h3', hcase⟩ := parseFile_none hp'
    rcases hcase with hff | ⟨h32, hall⟩
    · exact hfree (by unfold FreeMarker; simpa using ⟨h3', hff⟩)
    · -- an erased 24-byte header at the very end: the unaltered header would have been one, too
      obtain ⟨l24, hF32, _, _, _, hs3, hat, _⟩ := parseFile_ok_fields _ _ _ _ _ _ hp
      have okf := (validateFileNode_nil_iff _ _).mp hv
      have el : buf'.length = buf.length := ha.length_eq
      by_cases hsz : 20 ≤ r ∧ r < 23
      · -- a size byte was altered: the attribute byte FF says "large", so the size was FFFFFF before
        have e19 : rd buf' 19 1 = rd buf 19 1 := ha.rd_eq (by omega)
        have hff19 := allFF_rd hall (by omega) 19 (by omega)
        have hlarge : isLarge f.info.attrs = true := by rw [hat, ← e19, hff19]; decide
        have h3 : rd buf 20 3 = 0xFFFFFF := by rw [← hs3]; exact okf.large_iff.mp hlarge
        exact ha.rd_ne (off := 20) (len := 3) (by omega) (by omega) (h3'.trans h3.symm)
      · have e20 : rd buf' 20 3 = rd buf 20 3 := ha.rd_eq (by omega)
        have := hF32 (by rw [← e20]; exact h3')
        omega
  | some f' =>
    exact ⟨f', rfl, vFile_ne_of_node (file_alter_detected hp hv ha hr h23 hcl hp')⟩

/-- reading through a clipped or shifted view: a full-width all-ones value seen through `take` is there
    without it -/
theorem rd_take_full {d : Bytes} {n o l : Nat} (h : rd (d.take n) o l = 256 ^ l - 1) (hl : 0 < l) :
    rd d o l = 256 ^ l - 1 := by
  unfold rd slice at *
  by_cases hle : o + l ≤ n
  · have : ((d.take n).drop o).take l = (d.drop o).take l := by
      rw [List.drop_take, List.take_take, Nat.min_eq_left (by omega)]
    rw [← this]; exact h
  · -- fewer than `l` bytes are visible: the value cannot be all ones
    exfalso
    have h1 := fromLE_lt (((d.take n).drop o).take l)
    have h2 : (((d.take n).drop o).take l).length < l := by
      rw [List.length_take, List.length_drop, List.length_take]; omega
    have h3 : 256 ^ (((d.take n).drop o).take l).length ≤ 256 ^ (l - 1) :=
      Nat.pow_le_pow_right (by omega) (by omega)
    have h4 : 256 ^ l = 256 * 256 ^ (l - 1) := by
      obtain ⟨k, rfl⟩ : ∃ k, l = k + 1 := ⟨l - 1, by omega⟩
      rw [Nat.add_sub_cancel, Nat.pow_succ, Nat.mul_comm]
    have h5 : 0 < 256 ^ (l - 1) := Nat.pow_pos (by omega)
    omega

theorem FreeMarker.of_take {d : Bytes} {n o : Nat} (h : FreeMarker (d.take n) o) : FreeMarker d o :=
  ⟨rd_take_full (l := 3) h.1 (by omega), rd_take_full (l := 8) h.2 (by omega)⟩

theorem FreeMarker.of_drop {d : Bytes} {k o : Nat} (h : FreeMarker (d.drop k) o) : FreeMarker d (k + o) := by
  unfold FreeMarker at *
  rw [v_rd_drop, v_rd_drop] at h
  rw [Nat.add_assoc, Nat.add_assoc]
  exact h

end Fiano.Uefi
