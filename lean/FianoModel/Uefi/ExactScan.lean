/-
  C03 follow-up (wp-c03b), layer 5a: the volume scan of `NewBIOSRegion` (`FindFirmwareVolumeOffset`)
  depends only on the bytes up to the signature it finds — so a region in which volumes were re-laid
  (same length, same first 64 bytes) is scanned into the same (padding, volume)* structure.
-/
import FianoModel.Uefi.ExactAsm

namespace Fiano.Uefi.Exact
open Fiano Fiano.Uefi Fiano.Uefi.Spec

theorem isFvSig_prefix (A X Y : Bytes) (h : 4 ≤ A.length) : isFvSig (A ++ X) = isFvSig (A ++ Y) := by
  match A, h with
  | a0 :: a1 :: a2 :: a3 :: A', _ =>
    simp only [List.cons_append]
    unfold isFvSig
    split
    · rename_i t heq
      simp only [List.cons.injEq] at heq
      obtain ⟨rfl, rfl, rfl, rfl, _⟩ := heq
      rfl
    · rename_i hno
      split
      · rename_i t heq
        simp only [List.cons.injEq] at heq
        obtain ⟨rfl, rfl, rfl, rfl, _⟩ := heq
        exact absurd rfl (hno _)
      · rfl

theorem scanSig_ge : ∀ (fuel off : Nat) (b : Bytes) (o : Nat), scanSig fuel off b = some o → off ≤ o
  | 0, _, _, _, h => by simp [scanSig] at h
  | fuel + 1, off, b, o, h => by
    rw [scanSig] at h
    split at h
    · split at h
      · cases h; exact Nat.le_refl _
      · have := scanSig_ge fuel (off + 8) _ o h; omega
    · cases h

/-- more fuel does not change a found signature -/
theorem scanSig_fuel : ∀ (fuel fuel' off : Nat) (b : Bytes) (o : Nat), scanSig fuel off b = some o → fuel ≤ fuel' →
    scanSig fuel' off b = some o
  | 0, _, _, _, _, h, _ => by simp [scanSig] at h
  | fuel + 1, 0, _, _, _, _, hle => by omega
  | fuel + 1, fuel' + 1, off, b, o, h, hle => by
    rw [scanSig] at h ⊢
    split at h
    · rename_i hlen
      rw [if_pos hlen]
      split at h
      · rename_i hs; rw [if_pos hs]; exact h
      · rename_i hs; rw [if_neg hs]
        exact scanSig_fuel fuel fuel' (off + 8) _ o h (by omega)
    · cases h

/-- the probes up to the found signature read only the common prefix -/
theorem scanSig_prefix : ∀ (fuel off : Nat) (A X Y : Bytes) (o : Nat), scanSig fuel off (A ++ X) = some o →
    o + 5 ≤ off + A.length → scanSig fuel off (A ++ Y) = some o
  | 0, _, _, _, _, _, h, _ => by simp [scanSig] at h
  | fuel + 1, off, A, X, Y, o, h, hlen => by
    have hge := scanSig_ge _ _ _ _ h
    rw [scanSig] at h ⊢
    split at h
    · rw [if_pos (by simp only [List.length_append]; omega)]
      rw [← isFvSig_prefix A X Y (by omega)]
      split at h
      · rename_i hs; rw [if_pos hs]; exact h
      · rename_i hs; rw [if_neg hs]
        have hge' := scanSig_ge _ _ _ _ h
        have hA : 8 ≤ A.length := by omega
        rw [List.drop_append_of_le_length hA] at h ⊢
        exact scanSig_prefix fuel (off + 8) (A.drop 8) X Y o h (by simp only [List.length_drop]; omega)
    · cases h

/-- the number of probes needed to reach the signature at `o` -/
theorem scanSig_steps : ∀ (fuel off : Nat) (b : Bytes) (o : Nat), scanSig fuel off b = some o →
    (o - off) / 8 < fuel ∧ o + 4 < off + b.length
  | 0, _, _, _, h => by simp [scanSig] at h
  | fuel + 1, off, b, o, h => by
    rw [scanSig] at h
    split at h
    · split at h
      · cases h; simp; omega
      · have ih := scanSig_steps fuel (off + 8) _ o h
        have hge := scanSig_ge _ _ _ _ h
        simp only [List.length_drop] at ih
        constructor
        · have : (o - off) / 8 = (o - (off + 8)) / 8 + 1 := by omega
          omega
        · omega
    · cases h

/-- with fuel for every probe, less fuel than given is enough -/
theorem scanSig_fuel_down : ∀ (fuel fuel' off : Nat) (b : Bytes) (o : Nat), scanSig fuel off b = some o →
    (o - off) / 8 < fuel' → scanSig fuel' off b = some o
  | 0, _, _, _, _, h, _ => by simp [scanSig] at h
  | fuel + 1, 0, _, _, _, _, hle => by omega
  | fuel + 1, fuel' + 1, off, b, o, h, hle => by
    rw [scanSig] at h ⊢
    split at h
    · rename_i hlen
      rw [if_pos hlen]
      split at h
      · rename_i hs; rw [if_pos hs]; exact h
      · rename_i hs; rw [if_neg hs]
        have hge := scanSig_ge _ _ _ _ h
        exact scanSig_fuel_down fuel fuel' (off + 8) _ o h (by
          have : (o - off) / 8 = (o - (off + 8)) / 8 + 1 := by omega
          omega)
    · cases h

/-- **`FindFirmwareVolumeOffset` reads a prefix only**: a volume found at offset `k` is found there
    in every buffer that shares the first `k + 45` bytes -/
theorem findFvOffset_prefix (A X Y : Bytes) (k : Nat) (h : findFvOffset (A ++ X) = some k) (hk : k + 45 ≤ A.length) :
    findFvOffset (A ++ Y) = some k := by
  unfold findFvOffset at h ⊢
  split at h
  · cases h
  rw [if_neg (by simp only [List.length_append]; omega)]
  split at h
  · rename_i o hs
    split at h
    · cases h
    · rename_i ho
      simp only [Option.some.injEq] at h
      have hA : 32 ≤ A.length := by omega
      rw [List.drop_append_of_le_length hA] at hs ⊢
      have hpre := scanSig_prefix _ 32 (A.drop 32) X Y o hs (by simp only [List.length_drop]; omega)
      have hsteps := scanSig_steps _ _ _ _ hpre
      have hdown := scanSig_fuel_down _ ((A ++ Y).length / 8 + 1) 32 _ o hpre (by
        simp only [List.length_append]
        have : (o - 32) / 8 ≤ (A.length + Y.length) / 8 := Nat.div_le_div_right (by omega)
        omega)
      rw [hdown]
      simp only [ho, if_false, h]
  · cases h

end Fiano.Uefi.Exact
