/-
  Property C04 — an *evaluable twin* of the six mutually recursive parser functions.

  Lean compiles the shared `mutual` block of FianoModel/Uefi/Parse.lean by well-founded recursion,
  so `decide` / the kernel cannot run it on a concrete input.  The functions below are the same text
  (only renamed `…E` and marked `termination_by structural`), and `eval_eq` proves them equal to
  the shared ones for **every** input and budget.  They exist only so that the concrete examples of
  Props/C04.lean and Uefi/UnfixedC04.lean (non-vacuity, refutation witness) can be checked by `decide`;
  no theorem of the property is stated about them.  If Parse.lean changes, `eval_eq` stops building
  and this block has to be copied again.
-/
import FianoModel.Uefi.Parse

namespace Fiano.Uefi
open Fiano

mutual

/-- `NewSection(buf, fileOrder)` -/
def parseSectionE (h : Hooks) : Nat → Bytes → Nat → St → Except Err (Section × St)
  | 0, _, _, _ => .error .fuel
  | fuel+1, buf, order, st =>
    match secHeader buf with
    | .error e => .error e
    | .ok (size3, type, ext, hs) =>
    let sbuf := buf.take ext
    let i : SecInfo := { size3 := size3, type := type, extSize := ext, fileOrder := order }
    if type = 0x02 then
      -- (Q) the 20-byte sub-header is read from `buf`, not from the clipped section buffer
      if buf.length < hs + 20 then .error .err else
      let g := slice buf hs 16
      let dataOffset := rd buf (hs + 16) 2
      let attrs := rd buf (hs + 18) 2
      if attrs &&& 1 ≠ 0 ∧ ¬ h.disableDecompression then
        match h.codec g with
        | some c =>
          -- (Q) decodes `buf[DataOffset:]` (to the end of the file, not of the section)
          if dataOffset > buf.length then .error .err else  -- repaired (fix 6750af4)
          match c.decode (buf.drop dataOffset) with
          | some enc =>
            match parseEncapE h fuel enc 0 0 st with
            | .error e => .error e
            | .ok (ns, st') =>
              .ok (mkSection { i with ts := some ⟨g, dataOffset, attrs, c.name⟩ } sbuf ns, st')
          | none => .ok (mkSection { i with ts := some ⟨g, dataOffset, attrs, "UNKNOWN"⟩ } sbuf [], st)
        | none => .ok (mkSection { i with ts := some ⟨g, dataOffset, attrs, "UNKNOWN"⟩ } sbuf [], st)
      else .ok (mkSection { i with ts := some ⟨g, dataOffset, attrs, ""⟩ } sbuf [], st)
    else if type = 0x15 then
      if sbuf.length ≤ hs then .error .err
      else .ok (mkSection { i with name := ucs2ToUtf8 (sbuf.drop hs) } sbuf [], st)
    else if type = 0x14 then
      if sbuf.length ≤ hs + 2 then .error .err
      else .ok (mkSection { i with build := rd sbuf hs 2, version := ucs2ToUtf8 (sbuf.drop (hs + 2)) } sbuf [], st)
    else if type = 0x17 then
      if sbuf.length ≤ hs then .error .err else
      match parseFvE h fuel (sbuf.drop hs) 0 true st with
      | .error e => .error e
      | .ok (fv, st') => .ok (mkSection i sbuf [.fv fv], st')
    else if isDepexType type then
      if sbuf.length ≤ hs then .error .err else
      match parseDepEx (sbuf.drop hs) with
      | some ops => .ok (mkSection { i with depex := ops } sbuf [], st)
      | none => .ok (mkSection i sbuf [], st)      -- (Q) a bad depex only warns
    else .ok (mkSection i sbuf [], st)
termination_by structural fuel => fuel

/-- the loop over the decoded payload of a GUID-defined section -/
def parseEncapE (h : Hooks) : Nat → Bytes → Nat → Nat → St → Except Err (List Node × St)
  | 0, _, _, _, _ => .error .fuel
  | fuel+1, enc, offset, idx, st =>
    if offset < enc.length then
      match parseSectionE h fuel (enc.drop offset) idx st with
      | .error e => .error e
      | .ok (s, st') =>
        -- (Q) no zero-size check here: Go would spin forever, appending the same section
        if s.info.extSize = 0 then .error .err else  -- repaired (fix 9e390db)
        match parseEncapE h fuel enc (align4 (offset + s.info.extSize)) (idx + 1) st' with
        | .error e => .error e
        | .ok (ns, st'') => .ok (.sec s :: ns, st'')
    else .ok ([], st)
termination_by structural fuel => fuel

/-- the section loop of `NewFile` -/
def parseSectionsE (h : Hooks) : Nat → Bytes → Nat → Nat → Nat → St → Except Err (List Section × St)
  | 0, _, _, _, _, _ => .error .fuel
  | fuel+1, fbuf, offset, ext, idx, st =>
    if offset < ext then
      match parseSectionE h fuel (fbuf.drop offset) idx st with
      | .error e => .error e
      | .ok (s, st') =>
        if s.info.extSize = 0 then .error .err else
        match parseSectionsE h fuel fbuf (align4 (offset + s.info.extSize)) ext (idx + 1) st' with
        | .error e => .error e
        | .ok (ss, st'') => .ok (s :: ss, st'')
    else .ok ([], st)
termination_by structural fuel => fuel

/-- `NewFile(buf)`; `none` = free space reached -/
def parseFileE (h : Hooks) : Nat → Bytes → St → Except Err (Option File × St)
  | 0, _, _ => .error .fuel
  | fuel+1, buf, st =>
    match fileHeader buf with
    | .error e => .error e
    | .ok none => .ok (none, st)
    | .ok (some i) =>
    let fbuf := buf.take i.extSize
    let nv : Except Err (Option NvStore) :=
      if i.type = 1 ∧ i.guid = guidNVAR then
        if i.dataOffset ≥ fbuf.length then .error .err else .ok (h.nvarParse (fbuf.drop i.dataOffset))
      else .ok none
    match nv with
    | .error e => .error e
    | .ok nvs =>
    let i := { i with nvar := nvs }
    if ¬ supportedFile i.type then .ok (some (.mk i fbuf []), st) else
    match parseSectionsE h fuel fbuf i.dataOffset i.extSize 0 st with
    | .error e => .error e
    | .ok (ss, st') => .ok (some (.mk i fbuf ss), st')
termination_by structural fuel => fuel

/-- the file loop of `NewFirmwareVolume`; `data` is already clipped to the volume
    (fixes/C04-file-clipped-to-volume.diff); returns the files and `FreeSpace` -/
def parseFilesE (h : Hooks) : Nat → Bytes → Nat → Nat → Nat → St → Except Err (List File × Nat × St)
  | 0, _, _, _, _, _ => .error .fuel
  | fuel+1, data, offset, lh, length, st =>
    if offset ≤ lh then
      let offset := align8 offset
      if data.length ≤ offset then .error .err else
      match parseFileE h fuel (data.drop offset) st with
      | .error e => .error e
      | .ok (none, st') => .ok ([], length - offset, st')
      | .ok (some f, st') =>
        if f.info.extSize = 0 then .error .err else
        match parseFilesE h fuel data (offset + f.info.extSize) lh length st' with
        | .error e => .error e
        | .ok (fs, free, st'') => .ok (f :: fs, free, st'')
    else .ok ([], 0, st)
termination_by structural fuel => fuel

/-- `NewFirmwareVolume(data, fvOffset, resizable)` -/
def parseFvE (h : Hooks) : Nat → Bytes → Nat → Bool → St → Except Err (Fv × St)
  | 0, _, _, _, _ => .error .fuel
  | fuel+1, data, fvOffset, resizable, st =>
    if data.length < 64 then .error .err else
    match readBlocks (data.drop 56) with
    | .error e => .error e
    | .ok blocks =>
    let i := fvInfoOf data blocks fvOffset resizable
    -- repaired (fix 53530a3): a block-map entry (terminator included) ending past `Length` is an error
    if 56 + 8 * (blocks.length + 1) > i.length then .error .err else
    match setPolarity (polOfAttrs i.attrs) st with
    | .error e => .error e
    | .ok st =>
    if i.length > data.length then .error .err else
    let fbuf := data.take i.length
    if i.fsGuid ≠ guidFFS2 ∧ i.fsGuid ≠ guidFFS3 then .ok (.mk i fbuf [], st) else
    -- (Q) `lh := fv.Length - FileHeaderMinLength` wraps for Length < 24
    let lh := (i.length + 18446744073709551616 - 24) % 18446744073709551616
    match parseFilesE h fuel fbuf i.dataOffset lh i.length st with
    | .error e => .error e
    | .ok (fs, free, st') => .ok (.mk { i with freeSpace := free } fbuf fs, st')

termination_by structural fuel => fuel

end


/-- the twin is the shared model -/
theorem eval_eq (h : Hooks) : ∀ fuel,
    (∀ buf order st, parseSectionE h fuel buf order st = parseSection h fuel buf order st) ∧
    (∀ enc off idx st, parseEncapE h fuel enc off idx st = parseEncap h fuel enc off idx st) ∧
    (∀ fbuf off ext idx st, parseSectionsE h fuel fbuf off ext idx st = parseSections h fuel fbuf off ext idx st) ∧
    (∀ buf st, parseFileE h fuel buf st = parseFile h fuel buf st) ∧
    (∀ data off lh len st, parseFilesE h fuel data off lh len st = parseFiles h fuel data off lh len st) ∧
    (∀ data fvo rsz st, parseFvE h fuel data fvo rsz st = parseFv h fuel data fvo rsz st) := by
  intro fuel
  induction fuel with
  | zero =>
    refine ⟨?_, ?_, ?_, ?_, ?_, ?_⟩
    · intro buf order st; rw [parseSectionE, parseSection]
    · intro enc off idx st; rw [parseEncapE, parseEncap]
    · intro fbuf off ext idx st; rw [parseSectionsE, parseSections]
    · intro buf st; rw [parseFileE, parseFile]
    · intro data off lh len st; rw [parseFilesE, parseFiles]
    · intro data fvo rsz st; rw [parseFvE, parseFv]
  | succ n ih =>
    obtain ⟨hS, hE, hSs, hF, hFs, hV⟩ := ih
    refine ⟨?_, ?_, ?_, ?_, ?_, ?_⟩
    · intro buf order st; rw [parseSectionE, parseSection]; simp only [hE, hV]; rfl
    · intro enc off idx st; rw [parseEncapE, parseEncap]; simp only [hS, hE]; rfl
    · intro fbuf off ext idx st; rw [parseSectionsE, parseSections]; simp only [hS, hSs]; rfl
    · intro buf st; rw [parseFileE, parseFile]; simp only [hSs]; rfl
    · intro data off lh len st; rw [parseFilesE, parseFiles]; simp only [hF, hFs]; rfl
    · intro data fvo rsz st; rw [parseFvE, parseFv]; simp only [hFs]; rfl

theorem parseFv_eval (h : Hooks) (fuel : Nat) (data : Bytes) (fvo : Nat) (rsz : Bool) (st : St) :
    parseFv h fuel data fvo rsz st = parseFvE h fuel data fvo rsz st := ((eval_eq h fuel).2.2.2.2.2 _ _ _ _).symm
theorem parseFiles_eval (h : Hooks) (fuel : Nat) (data : Bytes) (off lh len : Nat) (st : St) :
    parseFiles h fuel data off lh len st = parseFilesE h fuel data off lh len st :=
  ((eval_eq h fuel).2.2.2.2.1 _ _ _ _ _).symm

/-! ### the layers above the volume, over the evaluable twin (same text as Parse.lean) -/

/-- the loop of `NewBIOSRegion` -/
def parseBiosElemsE (h : Hooks) : Nat → Bytes → Nat → St → Except Err (List BiosElem × St)
  | 0, _, _, _ => .error .fuel
  | fuel+1, buf, absOffset, st =>
    match findFvOffset buf with
    | none => .ok (if buf.length ≠ 0 then [.pad buf absOffset] else [], st)
    | some off =>
      let pre : List BiosElem := if off > 0 then [.pad (buf.take off) absOffset] else []
      let absOffset := absOffset + off
      match parseFvE h fuel (buf.drop off) absOffset false st with
      | .error e => .error e
      | .ok (fv, st') =>
        if fv.info.length = 0 then .error .err else
        match parseBiosElemsE h fuel (buf.drop (off + fv.info.length)) (absOffset + fv.info.length) st' with
        | .error e => .error e
        | .ok (es, st'') => .ok (pre ++ .fv fv :: es, st'')

/-- `NewBIOSRegion(buf, r, _)` -/
def parseBiosE (h : Hooks) (fuel : Nat) (buf : Bytes) (fr : Option FlashRegion) (st : St) :
    Except Err (BiosRegion × St) :=
  match parseBiosElemsE h fuel buf 0 st with
  | .error e => .error e
  | .ok (es, st') => .ok ({ elems := es, buf := buf, length := buf.length, fr := fr }, st')

/-- the loop over the 15 region-table entries in `NewFlashImage` -/
def parseRegionsE (h : Hooks) (fuel : Nat) (buf : Bytes) (nr : Nat) :
    List FlashRegion → Nat → St → Except Err (List Region × St)
  | [], _, st => .ok ([], st)
  | fr :: frs, i, st =>
    if nr ≠ 0 ∧ i ≥ nr then .ok ([], st)
    else if ¬ fr.valid ∨ fr.baseOffset ≥ buf.length ∨ fr.endOffset > buf.length then
      parseRegionsE h fuel buf nr frs (i + 1) st
    else
      let rbuf := slice buf fr.baseOffset (fr.endOffset - fr.baseOffset)
      let one : Except Err (Region × St) :=
        if i = 0 then
          match parseBiosE h fuel rbuf (some fr) st with
          | .error e => .error e
          | .ok (b, st') => .ok (.bios b, st')
        else if i = 1 then .ok (.me rbuf fr, st)
        else .ok (.raw rbuf fr i, st)
      match one with
      | .error e => .error e
      | .ok (r, st') =>
        match parseRegionsE h fuel buf nr frs (i + 1) st' with
        | .error e => .error e
        | .ok (rs, st'') => .ok (r :: rs, st'')

/-- `NewFlashImage(buf)` -/
def parseFlashE (h : Hooks) (fuel : Nat) (buf : Bytes) (st : St) : Except Err (Flash × St) :=
  if buf.length < 4096 then .error .err else
  match parseDescriptor (buf.take 4096) with
  | .error e => .error e
  | .ok ifd =>
    match ifd.region.regions with
    | [] => .error .panic
    | bios :: _ =>
      if ¬ bios.valid then .error .err else
      match parseRegionsE h fuel buf ifd.map.numberOfRegions ifd.region.regions 0 st with
      | .error e => .error e
      | .ok (rs, st') =>
        match fillGaps buf buf.length (sortRegions rs) 4096 with
        | .error e => .error e
        | .ok rs' => .ok ({ buf := buf, ifd := ifd, regions := rs', flashSize := buf.length }, st')

/-- `uefi.Parse(buf)` from a given process state -/
def parseWithE (h : Hooks) (fuel : Nat) (buf : Bytes) (st : St) : Except Err (Tree × St) :=
  match findSignature buf with
  | some _ =>
    match parseFlashE h fuel buf st with
    | .error e => .error e
    | .ok (f, st') => .ok (.flash f, st')
  | none =>
    match parseBiosE h fuel buf none st with
    | .error e => .error e
    | .ok (b, st') => .ok (.bios b, st')

/-- `uefi.Parse(buf)` in a fresh process (polarity not yet set) -/
def parseE (h : Hooks) (buf : Bytes) : Except Err Tree :=
  match parseWithE h (defaultFuel buf) buf {} with
  | .error e => .error e
  | .ok (t, _) => .ok t


theorem parseBiosElems_eval (h : Hooks) : ∀ fuel buf abs st,
    parseBiosElemsE h fuel buf abs st = parseBiosElems h fuel buf abs st := by
  intro fuel
  induction fuel with
  | zero => intro buf abs st; rw [parseBiosElemsE, parseBiosElems]
  | succ n ih =>
    intro buf abs st
    rw [parseBiosElemsE, parseBiosElems]
    simp only [ih, (eval_eq h n).2.2.2.2.2]
    rfl

theorem parseBios_eval (h : Hooks) (fuel : Nat) (buf : Bytes) (fr : Option FlashRegion) (st : St) :
    parseBiosE h fuel buf fr st = parseBios h fuel buf fr st := by
  unfold parseBiosE parseBios
  rw [parseBiosElems_eval]
  rfl

theorem parseRegions_eval (h : Hooks) (fuel : Nat) (buf : Bytes) (nr : Nat) : ∀ frs i st,
    parseRegionsE h fuel buf nr frs i st = parseRegions h fuel buf nr frs i st := by
  intro frs
  induction frs with
  | nil => intro i st; rw [parseRegionsE, parseRegions]
  | cons fr frs ih =>
    intro i st
    rw [parseRegionsE, parseRegions]
    simp only [ih, parseBios_eval]
    rfl

theorem parseFlash_eval (h : Hooks) (fuel : Nat) (buf : Bytes) (st : St) :
    parseFlashE h fuel buf st = parseFlash h fuel buf st := by
  unfold parseFlashE parseFlash
  simp only [parseRegions_eval]
  rfl

theorem parseWith_eval (h : Hooks) (fuel : Nat) (buf : Bytes) (st : St) :
    parseWithE h fuel buf st = parseWith h fuel buf st := by
  unfold parseWithE parseWith
  simp only [parseFlash_eval, parseBios_eval]
  rfl

/-- **`parse` can be run through its evaluable twin** -/
theorem parse_eval (h : Hooks) (buf : Bytes) : parse h buf = parseE h buf := by
  unfold parseE parse
  simp only [parseWith_eval]
  rfl

end Fiano.Uefi
