/-
  C09b at image level for every protected node: from a path into the tree of an image (flash image with
  descriptor, or bare BIOS region) to "parse fails or validate reports an error".

    Path (image) = [n, …]      image without descriptor: n-th volume of the region, then a path inside it
                 = [ρ, n, …]   flash image: ρ-th region of the tree (must be the BIOS region), n-th volume, …

  Core Lean only.
-/
import FianoModel.Uefi.ValidatePath

namespace Fiano.Uefi
open Fiano Fiano.Uefi.Spec

/-! ### the `k`-th volume of a parsed region -/

set_option maxRecDepth 8192 in
/-- the `k`-th volume of a parsed BIOS region: the scan that found it, the call of `parseFv` that produced
    it, and where it lies -/
theorem nthVol_reach (h : Hooks) : ∀ (k fuel : Nat) (buf : Bytes) (abs : Nat) (st st1 : St) (es : List BiosElem)
    (base cur : Nat) (v : Fv),
    parseBiosElems h fuel buf abs st = .ok (es, st1) → nthVol es k 0 0 = some (base, cur, v) →
    base ≤ cur ∧ findFvOffset (buf.drop base) = some (cur - base) ∧ cur + v.info.length ≤ buf.length ∧
    ∃ fuel_k abs_k st_k st_k', parseFv h fuel_k (buf.drop cur) abs_k false st_k = .ok (v, st_k') := by
  intro k
  induction k with
  | zero =>
    intro fuel buf abs st st1 es base cur v hp hn
    cases h0 : findFvOffset buf with
    | none =>
      rw [parseBiosElems_none_inv hp h0] at hn
      split at hn <;> simp [nthVol] at hn
    | some off =>
      obtain ⟨fuel0, fv, st2, es2, rfl, hpf, _, _, rfl⟩ := parseBiosElems_some_inv hp h0
      have hoff := findFvOffset_lt h0
      rw [nthVol_pre_fv off abs _ (by rw [List.length_take]; omega)] at hn
      simp only [nthVol, Option.some.injEq, Prod.mk.injEq] at hn
      obtain ⟨rfl, rfl, rfl⟩ := hn
      obtain ⟨_, hL, _, hlen, _⟩ := parseFv_ok_fields _ _ _ _ _ _ _ _ hpf
      rw [List.length_drop] at hL
      refine ⟨by omega, by simpa using h0, by omega, fuel0, _, _, _, hpf⟩
  | succ k ih =>
    intro fuel buf abs st st1 es base cur v hp hn
    cases h0 : findFvOffset buf with
    | none =>
      rw [parseBiosElems_none_inv hp h0] at hn
      split at hn <;> simp [nthVol] at hn
    | some off =>
      obtain ⟨fuel0, fv, st2, es2, rfl, hpf, _, hrest, rfl⟩ := parseBiosElems_some_inv hp h0
      have hoff := findFvOffset_lt h0
      rw [nthVol_pre_fv off abs _ (by rw [List.length_take]; omega)] at hn
      simp only [nthVol] at hn
      have hsh := nthVol_shift es2 k 0 0 (off + fv.info.length)
      simp only [Nat.zero_add] at hsh
      rw [hsh] at hn
      cases hn0 : nthVol es2 k 0 0 with
      | none => rw [hn0] at hn; simp at hn
      | some r =>
        obtain ⟨b0, c0, v0⟩ := r
        rw [hn0] at hn
        simp only [Option.map_some, Option.some.injEq, Prod.mk.injEq] at hn
        obtain ⟨rfl, rfl, rfl⟩ := hn
        obtain ⟨h1, h2, h3, fuel_k, abs_k, st_k, st_k', h4⟩ := ih fuel0 _ _ st2 st1 es2 b0 c0 v0 hrest hn0
        obtain ⟨_, hL, _, hlen, _⟩ := parseFv_ok_fields _ _ _ _ _ _ _ _ hpf
        rw [List.length_drop] at hL h3
        rw [List.drop_drop] at h2 h4
        have e1 : off + fv.info.length + b0 = b0 + (off + fv.info.length) := by omega
        have e2 : off + fv.info.length + c0 = c0 + (off + fv.info.length) := by omega
        have e3 : c0 + (off + fv.info.length) - (b0 + (off + fv.info.length)) = c0 - b0 := by omega
        rw [e1] at h2
        rw [e2] at h4
        rw [e3]
        exact ⟨by omega, h2, by omega, fuel_k, abs_k, st_k, st_k', h4⟩

/-! ### paths into a BIOS region -/

theorem vBios_nil {pol : UInt8} {b : BiosRegion} (h : vBios pol b = []) : vBiosElems pol b.elems = [] := by
  simp only [vBios, List.append_eq_nil_iff] at h
  exact h.2

theorem vBios_ne {pol : UInt8} {b : BiosRegion} (h : vBiosElems pol b.elems ≠ []) : vBios pol b ≠ [] := by
  intro e; exact h (vBios_nil e)

theorem parseBios_inv {h : Hooks} {fuel : Nat} {buf : Bytes} {fr : Option FlashRegion} {st st1 : St} {b : BiosRegion}
    (hp : parseBios h fuel buf fr st = .ok (b, st1)) :
    parseBiosElems h fuel buf 0 st = .ok (b.elems, st1) ∧ b.fr = fr := by
  unfold parseBios at hp
  cases hpe : parseBiosElems h fuel buf 0 st with
  | error e => rw [hpe] at hp; simp at hp
  | ok r =>
    obtain ⟨es, st2⟩ := r
    rw [hpe] at hp
    simp only [Except.ok.injEq, Prod.mk.injEq] at hp
    obtain ⟨rfl, rfl⟩ := hp
    exact ⟨rfl, rfl⟩

set_option maxRecDepth 8192 in
/-- **BIOS region.**  The region parsed from `buf` passes; the path selects a node; one protected byte of
    it is altered (with the exceptions `ScanKept`, `FreeMarker`); then every region the parser reports on
    the altered bytes fails, against any erase polarity. -/
theorem bios_path_detected (h : Hooks) {fuel : Nat} {buf buf' : Bytes} {fr : Option FlashRegion} {st st1 : St}
    {b : BiosRegion} {pol : UInt8} {path : Path} {base cur : Nat} {l : Loc} {r : Nat}
    (hp : parseBios h fuel buf fr st = .ok (b, st1)) (hv : vBios pol b = [])
    (hloc : locBios b path = some (base, cur, l)) (hreg : ∀ v ∈ l.through, v.regular)
    (ha : Alter buf buf' (cur + (l.off + r))) (hpr : l.tgt.protects r) (hbig : buf.length + 8 < 2 ^ 64)
    (hscan : ScanKept buf' base cur (l.off + r))
    (hfree : ∀ f, l.tgt = .file f → ¬ FreeMarker buf' (cur + l.off)) :
    ∀ fuel' fr' st' b' st2 pol', parseBios h fuel' buf' fr' st' = .ok (b', st2) → vBios pol' b' ≠ [] := by
  intro fuel' fr' st' b' st2 pol' hp'
  obtain ⟨hpe, _⟩ := parseBios_inv hp
  obtain ⟨hpe', _⟩ := parseBios_inv hp'
  have hve := vBios_nil hv
  cases path with
  | nil => simp [locBios] at hloc
  | cons n rest =>
    simp only [locBios] at hloc
    cases hn : nthVol b.elems n 0 0 with
    | none => rw [hn] at hloc; simp at hloc
    | some t =>
      obtain ⟨base0, cur0, v⟩ := t
      rw [hn] at hloc
      simp only at hloc
      cases hl : locFv rest v with
      | none => rw [hl] at hloc; simp at hloc
      | some l0 =>
        rw [hl] at hloc
        simp only [Option.map_some, Option.some.injEq, Prod.mk.injEq] at hloc
        obtain ⟨rfl, rfl, rfl⟩ := hloc
        obtain ⟨hbc, hfind, hin, fuel_k, abs_k, st_k, st_k', hpk⟩ := nthVol_reach h n fuel buf 0 st st1 _ _ _ _ hpe hn
        have hvv : vFv v = [] := nthVol_vFv pol _ _ _ _ _ hn hve
        have hbk : (buf.drop cur0).length + 8 < 2 ^ 64 := by rw [List.length_drop]; omega
        have hq := locFv_bound h rest fuel_k _ abs_k false st_k st_k' v l0 r hpk hvv hl hpr hbk
        have hak : Alter (buf.drop cur0) (buf'.drop cur0) (l0.off + r) := by
          have := ha.drop_le (n := cur0) (by omega)
          rwa [Nat.add_sub_cancel_left] at this
        refine vBios_ne (biosElems_detect h n fuel buf buf' 0 st st1 _ pol base0 cur0 v (l0.off + r) hpe hve hn ha hq
          ?_ ?_ _ _ _ _ _ pol' hpe')
        · -- the scan
          intro h44
          have hab : Alter (buf.drop base0) (buf'.drop base0) (cur0 - base0 + (l0.off + r)) := by
            have := ha.drop_le (n := base0) (by omega)
            have e : cur0 + (l0.off + r) - base0 = cur0 - base0 + (l0.off + r) := by omega
            rwa [e] at this
          refine findFvOffset_alter_stable hfind hab (Or.inr ⟨?_, ?_⟩)
          · have := hscan.1; omega
          · exact hscan.2 (by have := hscan.1; omega)
        · -- the volume
          refine fv_path_detected h rest fuel_k _ _ abs_k false st_k st_k' v l0 r hpk hvv hl hreg hak hpr hbk ?_
          intro f hf hm
          exact hfree f hf (FreeMarker.of_drop hm)

/-! ### views of the altered image: what a region buffer shows is there in the image -/

theorem isFvSig_len {x : Bytes} (h : isFvSig x = true) : 4 ≤ x.length := by
  match x with
  | [] | [_] | [_, _] | [_, _, _] => simp [isFvSig] at h
  | _ :: _ :: _ :: _ :: _ => simp

theorem isFvSig_of_take {y : Bytes} {m : Nat} (h : isFvSig (y.take m) = true) : isFvSig y = true := by
  have h4 := isFvSig_len h
  rw [List.length_take] at h4
  rw [isFvSig_iff _ (by rw [List.length_take]; omega), List.take_take, Nat.min_eq_left (by omega)] at h
  exact (isFvSig_iff y (by omega)).mpr h

theorem NewSig.of_take {d : Bytes} {n base x : Nat} (h : NewSig ((d.take n).drop base) x) : NewSig (d.drop base) x := by
  unfold NewSig at *
  refine ⟨h.1, ?_⟩
  have := h.2
  rw [List.drop_drop, List.drop_take] at this
  rw [List.drop_drop]
  exact isFvSig_of_take this

/-! ### regions of a flash image -/

theorem insertRegion_mem (r x : Region) : ∀ (l : List Region), x ∈ insertRegion r l ↔ (x = r ∨ x ∈ l)
  | [] => by simp [insertRegion]
  | y :: l => by
    simp only [insertRegion]
    split
    · simp
    · simp only [List.mem_cons, insertRegion_mem r x l]
      constructor
      · rintro (h | h | h)
        · exact Or.inr (Or.inl h)
        · exact Or.inl h
        · exact Or.inr (Or.inr h)
      · rintro (h | h | h)
        · exact Or.inr (Or.inl h)
        · exact Or.inl h
        · exact Or.inr (Or.inr h)

theorem sortRegions_mem (x : Region) : ∀ (l : List Region), x ∈ sortRegions l ↔ x ∈ l
  | [] => by simp [sortRegions]
  | y :: l => by
    have ih := sortRegions_mem x l
    unfold sortRegions at ih ⊢
    simp only [List.foldr_cons, insertRegion_mem, ih, List.mem_cons]

/-- `fillRegionGaps` keeps every region it is given -/
theorem fillGaps_mem (fbuf : Bytes) (size : Nat) : ∀ (l : List Region) (o : Nat) (out : List Region),
    fillGaps fbuf size l o = .ok out → ∀ r ∈ l, r ∈ out
  | [], _, _, _, r, hr => by simp at hr
  | x :: l, o, out, h, r, hr => by
    simp only [fillGaps] at h
    split at h
    · simp at h
    · rename_i fr hfr
      split at h
      · simp at h
      · split at h
        · simp at h
        · rename_i out2 hrest
          have ih := fillGaps_mem fbuf size l _ out2 hrest
          split at h
          · simp only [Except.ok.injEq] at h
            subst h
            simp only [List.mem_cons] at hr ⊢
            rcases hr with rfl | hr
            · exact Or.inr (Or.inl rfl)
            · exact Or.inr (Or.inr (ih r hr))
          · simp only [Except.ok.injEq] at h
            subst h
            simp only [List.mem_cons] at hr ⊢
            rcases hr with rfl | hr
            · exact Or.inl rfl
            · exact Or.inr (ih r hr)

/-- … and adds only gap regions (raw, type −1) -/
theorem fillGaps_mem_inv (fbuf : Bytes) (size : Nat) : ∀ (l : List Region) (o : Nat) (out : List Region),
    fillGaps fbuf size l o = .ok out → ∀ b, Region.bios b ∈ out → Region.bios b ∈ l
  | [], o, out, h, b, hb => by
    simp only [fillGaps] at h
    split at h <;> simp only [Except.ok.injEq] at h <;> subst h <;> simp at hb
  | x :: l, o, out, h, b, hb => by
    simp only [fillGaps] at h
    split at h
    · simp at h
    · split at h
      · simp at h
      · split at h
        · simp at h
        · rename_i out2 hrest
          have ih := fillGaps_mem_inv fbuf size l _ out2 hrest b
          split at h
          · simp only [Except.ok.injEq] at h
            subst h
            simp only [List.mem_cons] at hb ⊢
            rcases hb with hb | hb | hb
            · simp at hb
            · exact Or.inl hb
            · exact Or.inr (ih hb)
          · simp only [Except.ok.injEq] at h
            subst h
            simp only [List.mem_cons] at hb ⊢
            rcases hb with hb | hb
            · exact Or.inl hb
            · exact Or.inr (ih hb)

/-- the regions `fillRegionGaps` accepts start at or behind the offset it starts from -/
theorem fillGaps_base (fbuf : Bytes) (size : Nat) : ∀ (l : List Region) (o : Nat) (out : List Region),
    fillGaps fbuf size l o = .ok out → (∀ r ∈ l, ∀ fr, r.fr = some fr → fr.base ≤ fr.limit) →
    ∀ r ∈ l, ∀ fr, r.fr = some fr → o ≤ fr.baseOffset
  | [], _, _, _, _, r, hr => by simp at hr
  | x :: l, o, out, h, hval, r, hr => by
    intro fr hfr
    simp only [fillGaps] at h
    split at h
    · simp at h
    · rename_i frx hfrx
      split at h
      · simp at h
      · rename_i hnb
        split at h
        · simp at h
        · rename_i out2 hrest
          simp only [List.mem_cons] at hr
          rcases hr with rfl | hr
          · rw [hfrx] at hfr
            simp only [Option.some.injEq] at hfr
            subst hfr
            omega
          · have ih := fillGaps_base fbuf size l _ out2 hrest (fun r hr => hval r (by simp [hr])) r hr fr hfr
            have := hval x (by simp) frx hfrx
            simp only [FlashRegion.endOffset, FlashRegion.baseOffset] at ih hnb ⊢
            omega

theorem vRegions_mem {pol : UInt8} : ∀ {rs : List Region} {r : Region}, r ∈ rs → vRegion pol r ≠ [] → vRegions pol rs ≠ []
  | x :: rs, r, hr, hv => by
    simp only [List.mem_cons] at hr
    intro e
    simp only [vRegions, List.append_eq_nil_iff] at e
    rcases hr with rfl | hr
    · exact hv e.1
    · exact vRegions_mem hr hv e.2

theorem vRegions_mem_nil {pol : UInt8} : ∀ {rs : List Region} {r : Region}, r ∈ rs → vRegions pol rs = [] → vRegion pol r = []
  | x :: rs, r, hr, hv => by
    simp only [List.mem_cons] at hr
    simp only [vRegions, List.append_eq_nil_iff] at hv
    rcases hr with rfl | hr
    · exact hv.1
    · exact vRegions_mem_nil hr hv.2

/-- entries of the region table behind the first one never become a BIOS region -/
theorem parseRegions_no_bios (h : Hooks) (fuel : Nat) (buf : Bytes) (nr : Nat) : ∀ (frs : List FlashRegion) (i : Nat)
    (st st1 : St) (rs : List Region), 1 ≤ i → parseRegions h fuel buf nr frs i st = .ok (rs, st1) →
    ∀ b, Region.bios b ∉ rs
  | [], _, _, _, _, _, hp, b => by
    simp only [parseRegions, Except.ok.injEq, Prod.mk.injEq] at hp
    rw [← hp.1]; simp
  | fr :: frs, i, st, st1, rs, hi, hp, b => by
    simp only [parseRegions] at hp
    split at hp
    · simp only [Except.ok.injEq, Prod.mk.injEq] at hp
      rw [← hp.1]; simp
    · split at hp
      · exact parseRegions_no_bios h fuel buf nr frs (i + 1) st st1 rs (by omega) hp b
      · have hi0 : ¬ i = 0 := by omega
        simp only [hi0, if_false] at hp
        by_cases hi1 : i = 1
        · simp only [hi1, if_true] at hp
          split at hp
          · simp at hp
          · rename_i rs2 st2 hrest
            simp only [Except.ok.injEq, Prod.mk.injEq] at hp
            rw [← hp.1]
            have := parseRegions_no_bios h fuel buf nr frs (1 + 1) st st2 rs2 (by omega) hrest b
            simp [this]
        · simp only [hi1, if_false] at hp
          split at hp
          · simp at hp
          · rename_i rs2 st2 hrest
            simp only [Except.ok.injEq, Prod.mk.injEq] at hp
            rw [← hp.1]
            have := parseRegions_no_bios h fuel buf nr frs (i + 1) st st2 rs2 (by omega) hrest b
            simp [this]

/-- every region the table loop reports has a valid entry -/
theorem parseRegions_valid (h : Hooks) (fuel : Nat) (buf : Bytes) (nr : Nat) : ∀ (frs : List FlashRegion) (i : Nat)
    (st st1 : St) (rs : List Region), parseRegions h fuel buf nr frs i st = .ok (rs, st1) →
    ∀ r ∈ rs, ∀ fr, r.fr = some fr → fr.base ≤ fr.limit
  | [], _, _, _, _, hp, r, hr => by
    simp only [parseRegions, Except.ok.injEq, Prod.mk.injEq] at hp
    rw [← hp.1] at hr; simp at hr
  | fr :: frs, i, st, st1, rs, hp, r, hr => by
    simp only [parseRegions] at hp
    split at hp
    · simp only [Except.ok.injEq, Prod.mk.injEq] at hp
      rw [← hp.1] at hr; simp at hr
    · split at hp
      · exact parseRegions_valid h fuel buf nr frs (i + 1) st st1 rs hp r hr
      · rename_i hok
        have hval : fr.base ≤ fr.limit := by
          have : fr.valid = true := by
            cases hv : fr.valid
            · exact absurd (Or.inl (by simp [hv])) hok
            · rfl
          unfold FlashRegion.valid at this
          simp only [Bool.and_eq_true, decide_eq_true_eq] at this
          omega
        split at hp
        · simp at hp
        · rename_i r0 st' hone
          split at hp
          · simp at hp
          · rename_i rs2 st2 hrest
            simp only [Except.ok.injEq, Prod.mk.injEq] at hp
            rw [← hp.1] at hr
            simp only [List.mem_cons] at hr
            rcases hr with rfl | hr
            · intro fr' hfr'
              have : r.fr = some fr := by
                by_cases hi0 : i = 0
                · simp only [hi0, if_true] at hone
                  split at hone
                  · simp at hone
                  · rename_i b0 st0 hpb
                    simp only [Except.ok.injEq, Prod.mk.injEq] at hone
                    rw [← hone.1]
                    simp only [Region.fr]
                    exact (parseBios_inv hpb).2
                · simp only [hi0, if_false] at hone
                  split at hone <;> simp only [Except.ok.injEq, Prod.mk.injEq] at hone <;> rw [← hone.1] <;> rfl
              rw [this] at hfr'
              simp only [Option.some.injEq] at hfr'
              subst hfr'
              exact hval
            · exact parseRegions_valid h fuel buf nr frs (i + 1) st' st2 rs2 hrest r hr

/-- the BIOS region of a flash image is what `parseBios` makes of the bytes the first table entry covers -/
theorem parseRegions_head {h : Hooks} {fuel : Nat} {buf : Bytes} {nr : Nat} {fr0 : FlashRegion}
    {frs : List FlashRegion} {st st1 : St} {rs : List Region} {b : BiosRegion}
    (hp : parseRegions h fuel buf nr (fr0 :: frs) 0 st = .ok (rs, st1)) (hb : Region.bios b ∈ rs) :
    fr0.endOffset ≤ buf.length ∧ fr0.base ≤ fr0.limit ∧
    ∃ st2 rs2, parseBios h fuel (slice buf fr0.baseOffset (fr0.endOffset - fr0.baseOffset)) (some fr0) st = .ok (b, st2) ∧
      parseRegions h fuel buf nr frs 1 st2 = .ok (rs2, st1) ∧ rs = .bios b :: rs2 := by
  simp only [parseRegions] at hp
  have h0 : ¬ (nr ≠ 0 ∧ 0 ≥ nr) := by omega
  simp only [h0, if_false, if_true] at hp
  split at hp
  · exact absurd hb (parseRegions_no_bios h fuel buf nr frs 1 st st1 rs (by omega) hp b)
  · rename_i hok
    have hval : fr0.base ≤ fr0.limit := by
      have : fr0.valid = true := by
        cases hv : fr0.valid
        · exact absurd (Or.inl (by simp [hv])) hok
        · rfl
      unfold FlashRegion.valid at this
      simp only [Bool.and_eq_true, decide_eq_true_eq] at this
      omega
    cases hpb : parseBios h fuel (slice buf fr0.baseOffset (fr0.endOffset - fr0.baseOffset)) (some fr0) st with
    | error e => rw [hpb] at hp; simp at hp
    | ok r =>
      obtain ⟨b0, st2⟩ := r
      rw [hpb] at hp
      simp only at hp
      cases hrest : parseRegions h fuel buf nr frs (0 + 1) st2 with
      | error e => rw [hrest] at hp; simp at hp
      | ok r2 =>
        obtain ⟨rs2, st3⟩ := r2
        rw [hrest] at hp
        simp only [Except.ok.injEq, Prod.mk.injEq] at hp
        obtain ⟨rfl, rfl⟩ := hp
        simp only [List.mem_cons, Region.bios.injEq] at hb
        rcases hb with rfl | hb
        · exact ⟨by omega, hval, st2, rs2, rfl, hrest, rfl⟩
        · exact absurd hb (parseRegions_no_bios h fuel buf nr frs 1 st2 st3 rs2 (by omega) hrest b)

theorem parseFlash_inv {h : Hooks} {fuel : Nat} {buf : Bytes} {st st1 : St} {f : Flash}
    (hp : parseFlash h fuel buf st = .ok (f, st1)) :
    4096 ≤ buf.length ∧ ∃ ifd fr0 frs rs, parseDescriptor (buf.take 4096) = .ok ifd ∧
      ifd.region.regions = fr0 :: frs ∧ fr0.valid = true ∧
      parseRegions h fuel buf ifd.map.numberOfRegions (fr0 :: frs) 0 st = .ok (rs, st1) ∧
      fillGaps buf buf.length (sortRegions rs) 4096 = .ok f.regions := by
  unfold parseFlash at hp
  by_cases hl : buf.length < 4096
  · simp [hl] at hp
  rw [if_neg hl] at hp
  cases hd : parseDescriptor (buf.take 4096) with
  | error e => rw [hd] at hp; simp at hp
  | ok ifd =>
    rw [hd] at hp
    simp only at hp
    cases hr : ifd.region.regions with
    | nil => rw [hr] at hp; simp at hp
    | cons fr0 frs =>
      rw [hr] at hp
      simp only at hp
      by_cases hv : fr0.valid = true
      · simp only [hv, not_true_eq_false, if_false] at hp
        cases hpr : parseRegions h fuel buf ifd.map.numberOfRegions (fr0 :: frs) 0 st with
        | error e => rw [hpr] at hp; simp at hp
        | ok r =>
          obtain ⟨rs, st2⟩ := r
          rw [hpr] at hp
          simp only at hp
          cases hfg : fillGaps buf buf.length (sortRegions rs) 4096 with
          | error e => rw [hfg] at hp; simp at hp
          | ok rs' =>
            rw [hfg] at hp
            simp only [Except.ok.injEq, Prod.mk.injEq] at hp
            obtain ⟨rfl, rfl⟩ := hp
            exact ⟨by omega, ifd, fr0, frs, rs, rfl, hr, hv, hpr, hfg⟩
      · simp [hv] at hp

/-! ### paths into an image -/

theorem findSignature_alter_far' {b b' : Bytes} {p : Nat} (ha : Alter b b' p) (hp : 20 ≤ p) :
    findSignature b' = findSignature b := findSignature_alter_far ha hp

set_option maxRecDepth 8192 in
/-- **C09b at image level, every protected node.**  `b` parses to `t` and validates cleanly.  The path
    selects a volume or a file anywhere in the tree — any volume of the BIOS region of a flash image or of
    an image without descriptor, any file inside, any volume nested in a volume-image section at any depth.
    `b'` differs from `b` in exactly one protected byte of the selected node.  Then for `b'` the parser
    fails or validate reports at least one error, provided
      * every volume whose file area the path enters keeps its files behind its headers (`Fv.regular`),
      * the image is shorter than 2^64 − 8 bytes,
      * the alteration neither creates nor destroys the flash-descriptor signature (possible only at image
        offsets 0–3 and 16–19; `findSignature_alter_far'`),
    and the alteration is not one of the two exceptions, which are genuine (known findings, reproduced on
    the real code):
      * `ScanKept` — the byte is one of the four signature bytes of the *top-level* volume (excluded by the
        property itself), or it lies in front of them and makes `_FVH` appear at a position the volume scan
        probes before it reaches the volume (F-C09-zerovector);
      * `FreeMarker` — the selected node is a file and its altered header reads "size FFFFFF, eight erased
        bytes": the parser takes it for the start of the free space (F-C09-freespace). -/
theorem alter_detected_image (h : Hooks) {b b' : Bytes} {t : Tree} {st : St} {path : Path} {il : ImgLoc} {r : Nat}
    (hparse : parseWith h (defaultFuel b) b {} = .ok (t, st)) (hval : validate t st = [])
    (hloc : locTree t path = some il) (hreg : ∀ v ∈ il.loc.through, v.regular)
    (ha : Alter b b' (il.pos + r)) (hpr : il.loc.tgt.protects r)
    (hbig : b.length + 8 < 2 ^ 64)
    (hflash : findSignature b' = findSignature b)
    (hscan : ScanKept (b'.drop il.region) il.base il.vol (il.loc.off + r))
    (hfree : ∀ f, il.loc.tgt = .file f → ¬ FreeMarker b' il.pos) :
    parseValidate h b' ≠ .ok [] := by
  have el : b'.length = b.length := ha.length_eq
  unfold parseValidate parseWith
  unfold parseWith at hparse
  rw [hflash, defaultFuel, el]
  rw [defaultFuel] at hparse
  cases hsig : findSignature b with
  | none =>
    -- image without descriptor: one BIOS region
    rw [hsig] at hparse
    simp only at hparse ⊢
    cases hpb : parseBios h (b.length + 8) b none {} with
    | error e => rw [hpb] at hparse; simp at hparse
    | ok rr =>
      obtain ⟨br, st1⟩ := rr
      rw [hpb] at hparse
      simp only [Except.ok.injEq, Prod.mk.injEq] at hparse
      obtain ⟨rfl, rfl⟩ := hparse
      simp only [validate] at hval
      simp only [locTree] at hloc
      cases hlb : locBios br path with
      | none => rw [hlb] at hloc; simp at hloc
      | some x =>
        obtain ⟨base, cur, l⟩ := x
        rw [hlb] at hloc
        simp only [Option.map_some, Option.some.injEq] at hloc
        subst hloc
        simp only [ImgLoc.pos, Nat.zero_add, List.drop_zero] at ha hscan hfree hreg hpr
        cases hpb' : parseBios h (b.length + 8) b' none {} with
        | error e => simp
        | ok rr' =>
          obtain ⟨br', st1'⟩ := rr'
          simp only [ne_eq, Except.ok.injEq, validate]
          have ha1 : Alter b b' (cur + (l.off + r)) := by
            have e : cur + (l.off + r) = cur + l.off + r := by omega
            rw [e]; exact ha
          exact bios_path_detected h hpb hval hlb hreg ha1 hpr hbig hscan hfree _ _ _ _ _ _ hpb'
  | some ms =>
    -- flash image: the BIOS region is what the first table entry covers
    rw [hsig] at hparse
    simp only at hparse ⊢
    cases hpf : parseFlash h (b.length + 8) b {} with
    | error e => rw [hpf] at hparse; simp at hparse
    | ok rr =>
      obtain ⟨f, st1⟩ := rr
      rw [hpf] at hparse
      simp only [Except.ok.injEq, Prod.mk.injEq] at hparse
      obtain ⟨rfl, rfl⟩ := hparse
      simp only [validate, vFlash, List.append_eq_nil_iff] at hval
      obtain ⟨_, hvregs⟩ := hval
      cases path with
      | nil => simp [locTree] at hloc
      | cons ρ p =>
        simp only [locTree] at hloc
        split at hloc
        · rename_i brg hget
          split at hloc
          · rename_i fr hfr
            cases hlb : locBios brg p with
            | none => rw [hlb] at hloc; simp at hloc
            | some x =>
              obtain ⟨base, cur, l⟩ := x
              rw [hlb] at hloc
              simp only [Option.map_some, Option.some.injEq] at hloc
              subst hloc
              simp only [ImgLoc.pos] at ha hscan hfree hreg hpr
              -- the region of the tree is the one parsed from entry 0
              have hmem : Region.bios brg ∈ f.regions := List.mem_of_getElem? hget
              obtain ⟨h4096, ifd, fr0, frs, rs, hdesc, hregs, hv0, hprs, hfg⟩ := parseFlash_inv hpf
              have hmem2 : Region.bios brg ∈ rs :=
                (sortRegions_mem _ _).mp (fillGaps_mem_inv _ _ _ _ _ hfg brg hmem)
              obtain ⟨hend, hbl, st2, rs2, hpb, hrest, hrs⟩ := parseRegions_head hprs hmem2
              have hfr0 : fr0 = fr := by
                have := (parseBios_inv hpb).2
                rw [hfr] at this
                simp only [Option.some.injEq] at this
                exact this.symm
              subst hfr0
              have hvalid := parseRegions_valid h _ _ _ _ _ _ _ _ hprs
              have hbase : 4096 ≤ fr0.baseOffset :=
                fillGaps_base _ _ _ _ _ hfg
                  (fun r hr => hvalid r ((sortRegions_mem _ _).mp hr)) _
                  ((sortRegions_mem _ _).mpr hmem2) fr0 (by simp only [Region.fr]; exact hfr)
              have hvb : vBios st1.pol brg = [] := vRegions_mem_nil hmem hvregs
              -- the region buffer and the alteration seen in it
              obtain ⟨hpe, _⟩ := parseBios_inv hpb
              generalize hrb : slice b fr0.baseOffset (fr0.endOffset - fr0.baseOffset) = rbuf at hpb hpe
              have hlen : rbuf.length = fr0.endOffset - fr0.baseOffset := by
                rw [← hrb]; unfold slice; rw [List.length_take, List.length_drop]; omega
              obtain ⟨n, rest, hp_eq⟩ : ∃ n rest, p = n :: rest := by
                cases p with
                | nil => simp [locBios] at hlb
                | cons n rest => exact ⟨n, rest, rfl⟩
              subst hp_eq
              -- bounds: the altered byte lies inside the region
              have hbnd : cur + (l.off + r) < rbuf.length := by
                simp only [locBios] at hlb
                cases hn : nthVol brg.elems n 0 0 with
                | none => rw [hn] at hlb; simp at hlb
                | some tt =>
                  obtain ⟨base0, cur0, v⟩ := tt
                  rw [hn] at hlb
                  simp only at hlb
                  cases hl : locFv rest v with
                  | none => rw [hl] at hlb; simp at hlb
                  | some l0 =>
                    rw [hl] at hlb
                    simp only [Option.map_some, Option.some.injEq, Prod.mk.injEq] at hlb
                    obtain ⟨rfl, rfl, rfl⟩ := hlb
                    obtain ⟨_, _, hin, fuel_k, abs_k, st_k, st_k', hpk⟩ :=
                      nthVol_reach h n _ rbuf 0 _ _ _ _ _ _ hpe hn
                    have hvv : vFv v = [] := nthVol_vFv st1.pol _ _ _ _ _ hn (vBios_nil hvb)
                    have hbk : (rbuf.drop cur0).length + 8 < 2 ^ 64 := by rw [List.length_drop]; omega
                    have := locFv_bound h rest fuel_k _ abs_k false st_k st_k' v l0 r hpk hvv hl hpr hbk
                    omega
              have har : Alter rbuf (slice b' fr0.baseOffset (fr0.endOffset - fr0.baseOffset)) (cur + (l.off + r)) := by
                rw [← hrb]
                unfold slice
                have := (ha.drop_le (n := fr0.baseOffset) (by omega)).take_gt
                  (n := fr0.endOffset - fr0.baseOffset) (by omega)
                have e : fr0.baseOffset + (cur + l.off) + r - fr0.baseOffset = cur + (l.off + r) := by omega
                rwa [e] at this
              generalize hrb' : slice b' fr0.baseOffset (fr0.endOffset - fr0.baseOffset) = rbuf' at har
              have hscan' : ScanKept rbuf' base cur (l.off + r) := by
                refine ⟨hscan.1, fun h40 hn => hscan.2 h40 ?_⟩
                rw [← hrb'] at hn
                unfold slice at hn
                exact NewSig.of_take hn
              have hfree' : ∀ f, l.tgt = .file f → ¬ FreeMarker rbuf' (cur + l.off) := by
                intro f0 hf0 hm
                rw [← hrb'] at hm
                unfold slice at hm
                exact hfree f0 hf0 (FreeMarker.of_drop (FreeMarker.of_take hm))
              have hdet := bios_path_detected h hpb hvb hlb hreg har hpr (by omega) hscan' hfree'
              -- the altered image: same descriptor, same table
              have ep : 4096 ≤ fr0.baseOffset + (cur + l.off) + r := by omega
              have et : b'.take 4096 = b.take 4096 := ha.take_le ep
              cases hpf' : parseFlash h (b.length + 8) b' {} with
              | error e => simp
              | ok rr' =>
                obtain ⟨f', st1'⟩ := rr'
                simp only [ne_eq, Except.ok.injEq, validate]
                obtain ⟨_, ifd', fr0', frs', rs', hdesc', hregs', _, hprs', hfg'⟩ := parseFlash_inv hpf'
                rw [et, hdesc] at hdesc'
                simp only [Except.ok.injEq] at hdesc'
                subst hdesc'
                rw [hregs] at hregs'
                simp only [List.cons.injEq] at hregs'
                obtain ⟨rfl, rfl⟩ := hregs'
                -- entry 0 is accepted again; `parseBios` runs on the altered region buffer
                simp only [parseRegions] at hprs'
                have h0 : ¬ (ifd.map.numberOfRegions ≠ 0 ∧ 0 ≥ ifd.map.numberOfRegions) := by omega
                have hacc : ¬ (¬ fr0.valid = true ∨ fr0.baseOffset ≥ b'.length ∨ fr0.endOffset > b'.length) := by
                  rw [el]
                  simp only [hv0, not_true_eq_false, false_or]
                  simp only [FlashRegion.endOffset, FlashRegion.baseOffset] at hend hbl ⊢
                  omega
                simp only [h0, if_false, if_true, hacc, hrb'] at hprs'
                cases hpb' : parseBios h (b.length + 8) rbuf' (some fr0) {} with
                | error e => rw [hpb'] at hprs'; simp at hprs'
                | ok r3 =>
                  obtain ⟨brg', st3⟩ := r3
                  rw [hpb'] at hprs'
                  simp only at hprs'
                  split at hprs'
                  · simp at hprs'
                  · rename_i rs2' st4 _
                    simp only [Except.ok.injEq, Prod.mk.injEq] at hprs'
                    obtain ⟨rfl, _⟩ := hprs'
                    have hbad := hdet _ _ _ _ _ st1'.pol hpb'
                    have hm' : Region.bios brg' ∈ f'.regions :=
                      fillGaps_mem _ _ _ _ _ hfg' _ ((sortRegions_mem _ _).mpr (by simp))
                    intro e
                    simp only [vFlash, List.append_eq_nil_iff] at e
                    exact vRegions_mem hm' (by simpa [vRegion] using hbad) e.2
          · simp at hloc
        · simp at hloc

end Fiano.Uefi
