/-
  NVAR stores: the entries of a store that C10's `parseStore` (= `uefi.NewNVarStore`) returns have
  pairwise distinct offsets, at every nesting depth — the hypothesis `OffsDistinct` of the path
  uniqueness theorem holds of every parsed store (follow-up wp-c07b).

  From wp-c04b's account of the parser (Uefi/FaithfulNvar*.lean: `nv_faithful`, `entries_tile`): the
  reported offsets are the running sums of the entry sizes, and every entry has at least its 10 header
  bytes.
-/
import FianoModel.Uefi.ExtractNvarPaths
import FianoModel.Uefi.FaithfulNvarCor

namespace Fiano.Uefi
open Fiano Fiano.Nvram Fiano.NvFaithful

theorem entriesAt_sizes (pol : Nat) (sb : Bytes) : ∀ (rest prev : List NVar) (off n fso nF : Nat),
    EntriesAt pol sb prev rest off n fso nF → ∀ v ∈ rest, 10 ≤ v.size := by
  intro rest
  induction rest with
  | nil => intro _ _ _ _ _ _ v hv; cases hv
  | cons w rest ih =>
    intro prev off n fso nF h v hv
    simp only [EntriesAt] at h
    obtain ⟨_, _, hhdr, _, hrest⟩ := h
    simp only [List.mem_cons] at hv
    rcases hv with rfl | hv
    · exact hhdr.2.2.2.2.2.2.1
    · exact ih _ _ _ _ _ hrest v hv

theorem entryOffsets_nodup : ∀ (l : List NVar) (off : Nat), (∀ v ∈ l, 10 ≤ v.size) →
    (entryOffsets l off).Nodup ∧ ∀ o ∈ entryOffsets l off, off ≤ o
  | [], _, _ => ⟨by simp [entryOffsets], fun o ho => by simp [entryOffsets] at ho⟩
  | v :: t, off, hs => by
    obtain ⟨ih1, ih2⟩ := entryOffsets_nodup t (off + v.size) (fun w hw => hs w (by simp [hw]))
    have hv := hs v (by simp)
    simp only [entryOffsets, List.nodup_cons, List.mem_cons]
    refine ⟨⟨fun hm => ?_, ih1⟩, ?_⟩
    · have := ih2 off hm
      omega
    · intro o ho
      rcases ho with rfl | ho
      · exact Nat.le_refl _
      · have := ih2 o ho
        omega

/-- the entries of a parsed store have pairwise distinct offsets -/
theorem parsed_offsets_nodup (pol : Nat) (b : Bytes) (s : Store) (hp : parseStore pol b = .ok s) :
    (s.entries.map (·.offset)).Nodup := by
  obtain ⟨_, _, _, _, hent, _⟩ := nv_faithful pol b s hp
  have ht := (entries_tile pol b s.entries [] 0 0 s.fso s.guidStore.length hent).2.2.2.1
  rw [ht]
  exact (entryOffsets_nodup s.entries 0 (entriesAt_sizes pol b _ _ _ _ _ _ hent)).1

/-- … at every nesting depth: `OffsDistinct` holds of every parsed store -/
theorem parsed_offsDistinct (pol : Nat) : ∀ (d : Nat) (b : Bytes) (s : Store), parseStore pol b = .ok s →
    OffsDistinct d pol s.entries := by
  intro d
  induction d with
  | zero => intro _ _ _; trivial
  | succ d ih =>
    intro b s hp
    exact ⟨parsed_offsets_nodup pol b s hp, fun v _ ns hns => ih _ ns (nestedOf_parse pol v ns hns)⟩

end Fiano.Uefi
