/-
  C02 (follow-up wp-c02b), the composition: `Assemble` on the tree below a volume.

  * `asm_pol`        — the erase polarity, once set, is never changed by `Assemble`;
  * `asm*_ok`        — **by mutual structural induction over section → nested volume → file → volume**:
                       assembling a node that satisfies the invariant (`SecOk` / `FileOk` / `FvOk`)
                       yields a node that satisfies it again and whose buffer the independent reader
                       accepts (`SecBytesOk` / `GoodFile` / `FvBytesOk`), provided the buffer written
                       is shorter than 2 GiB.  The bound flows top-down: every child buffer is contained
                       in its parent's.
-/
import FianoModel.Uefi.EditValidFv2

namespace Fiano.Uefi
open Fiano
open EditArith

/-! ### small facts about the model -/

theorem setPolarity_ok (ep : UInt8) (st st1 : St) (h : setPolarity ep st = .ok st1) :
    (ep = 0xFF ∨ ep = 0) ∧ st1.pol = ep ∧ st1.ffs3 = st.ffs3 ∧ (st.pol ≠ 0xF0 → st1 = st) := by
  unfold setPolarity at h
  split at h
  · cases h
  · rename_i hv
    have hv' : ep = 0xFF ∨ ep = 0 := by
      by_cases h1 : ep = 0xFF
      · exact Or.inl h1
      · by_cases h2 : ep = 0
        · exact Or.inr h2
        · exact absurd ⟨h1, h2⟩ hv
    split at h
    · split at h
      · cases h
      · rename_i hne
        cases h
        exact ⟨hv', by simpa using hne, rfl, fun _ => rfl⟩
    · rename_i hf0
      cases h
      exact ⟨hv', rfl, rfl, fun c => absurd (by simpa using hf0) c⟩

theorem noteLarge_polKeep (ext : Nat) (st : St) : (noteLarge ext st).pol = st.pol := by
  unfold noteLarge; split <;> rfl

theorem and_pow_ne_zero (a k : Nat) : (a &&& 2 ^ k ≠ 0) ↔ a.testBit k = true := by
  constructor
  · intro hne
    cases hb : a.testBit k with
    | true => rfl
    | false =>
      exfalso
      apply hne
      apply Nat.eq_of_testBit_eq
      intro j
      rw [Nat.testBit_and, Nat.zero_testBit, Nat.testBit_two_pow]
      by_cases hj : k = j
      · subst hj; simp [hb]
      · simp [hj]
  · intro hb hz
    have : (a &&& 2 ^ k).testBit k = true := by
      rw [Nat.testBit_and, hb, Nat.testBit_two_pow_self]; rfl
    rw [hz, Nat.zero_testBit] at this
    cases this

theorem polOfAttrs_eq (buf : Bytes) : polOfAttrs (Valid.fld buf 44 4) = fvErased buf := by
  unfold polOfAttrs fvErased
  have h1 : (0x800 : Nat) = 2 ^ 11 := by decide
  have hb : (Valid.fld buf 44 4 &&& 0x800 ≠ 0) ↔ Valid.fld buf 44 4 / 2048 % 2 = 1 := by
    rw [h1, and_pow_ne_zero, Nat.testBit_eq_decide_div_mod_eq]
    simp
  by_cases hc : Valid.fld buf 44 4 / 2048 % 2 = 1
  · rw [if_pos (hb.mpr hc), if_pos hc]
  · rw [if_neg (fun c => hc (hb.mp c)), if_neg hc]

theorem regenLeaf_none_kind (i : SecInfo) (h : regenLeaf i = .ok none) : regenKind i.type = false := by
  unfold regenLeaf at h
  unfold regenKind
  split at h
  · cases h
  · split at h
    · cases h
    · split at h
      · split at h <;> cases h
      · rename_i h1 h2 h3
        simp [h1, h2, h3]

theorem regenLeaf_some (i : SecInfo) (body : Bytes) (h : regenLeaf i = .ok (some body)) :
    regenKind i.type = true ∧ i.type ≠ 0x02 ∧ i.type ≠ 0x17 := by
  unfold regenLeaf at h
  unfold regenKind
  split at h
  · rename_i h1; simp [h1]
  · split at h
    · rename_i h1 h2; simp [h2]
    · split at h
      · rename_i h1 h2 h3
        refine ⟨by simp [h3], ?_, ?_⟩
        · intro c; rw [c] at h3; simp [isDepexType] at h3
        · intro c; rw [c] at h3; simp [isDepexType] at h3
      · cases h

end Fiano.Uefi

namespace Fiano.Uefi
open Fiano
open EditArith

/-! ### the erase polarity is threaded unchanged -/

mutual
theorem asmSection_polKeep (h : Hooks) : ∀ (s : Section) (st : St) (s' : Section) (st' : St),
    asmSection h s st = .ok (s', st') → st.pol ≠ 0xF0 → st'.pol = st.pol
  | .mk i buf encap, st, s', st', ha, hp => by
    rw [asmSection] at ha
    split at ha
    · cases ha
    · rename_i encap' st1 hn
      have h1 := asmNodes_polKeep h encap st encap' st1 hn hp
      split at ha
      · split at ha
        · cases ha
        · cases ha; exact h1
        · split at ha
          · cases ha
          · cases ha; rw [noteLarge_polKeep]; exact h1
      · simp only at ha
        split at ha
        · cases ha
        · split at ha
          · cases ha
          · cases ha; rw [noteLarge_polKeep]; exact h1
theorem asmNodes_polKeep (h : Hooks) : ∀ (ns : List Node) (st : St) (ns' : List Node) (st' : St),
    asmNodes h ns st = .ok (ns', st') → st.pol ≠ 0xF0 → st'.pol = st.pol
  | [], st, ns', st', ha, _ => by
    rw [asmNodes] at ha; cases ha; rfl
  | .sec s :: ns, st, ns', st', ha, hp => by
    rw [asmNodes] at ha
    split at ha
    · cases ha
    · rename_i s1 st1 hs
      have h1 := asmSection_polKeep h s st s1 st1 hs hp
      split at ha
      · cases ha
      · rename_i ns1 st2 hns
        cases ha
        have h2 := asmNodes_polKeep h ns st1 ns1 _ hns (by rw [h1]; exact hp)
        rw [h2, h1]
  | .fv v :: ns, st, ns', st', ha, hp => by
    rw [asmNodes] at ha
    split at ha
    · cases ha
    · rename_i v1 st1 hv
      have h1 := asmFv_polKeep h v st v1 st1 hv hp
      split at ha
      · cases ha
      · rename_i ns1 st2 hns
        cases ha
        have h2 := asmNodes_polKeep h ns st1 ns1 _ hns (by rw [h1]; exact hp)
        rw [h2, h1]
theorem asmSections_polKeep (h : Hooks) : ∀ (ss : List Section) (st : St) (ss' : List Section) (st' : St),
    asmSections h ss st = .ok (ss', st') → st.pol ≠ 0xF0 → st'.pol = st.pol
  | [], st, ss', st', ha, _ => by
    rw [asmSections] at ha; cases ha; rfl
  | s :: ss, st, ss', st', ha, hp => by
    rw [asmSections] at ha
    split at ha
    · cases ha
    · rename_i s1 st1 hs
      have h1 := asmSection_polKeep h s st s1 st1 hs hp
      split at ha
      · cases ha
      · rename_i ss1 st2 hss
        cases ha
        have h2 := asmSections_polKeep h ss st1 ss1 _ hss (by rw [h1]; exact hp)
        rw [h2, h1]
theorem asmFile_polKeep (h : Hooks) : ∀ (f : File) (st : St) (f' : File) (st' : St),
    asmFile h f st = .ok (f', st') → st.pol ≠ 0xF0 → st'.pol = st.pol
  | .mk i buf secs, st, f', st', ha, hp => by
    rw [asmFile] at ha
    split at ha
    · split at ha
      · cases ha
      · simp only at ha
        cases ha
        rw [noteLarge_polKeep]
    · split at ha
      · cases ha
      · rename_i secs' st1 hss
        have h1 := asmSections_polKeep h secs st secs' st1 hss hp
        split at ha
        · cases ha; exact h1
        · simp only at ha
          cases ha
          rw [noteLarge_polKeep]; exact h1
theorem asmFiles_polKeep (h : Hooks) : ∀ (fs : List File) (st : St) (fs' : List File) (st' : St),
    asmFiles h fs st = .ok (fs', st') → st.pol ≠ 0xF0 → st'.pol = st.pol
  | [], st, fs', st', ha, _ => by
    rw [asmFiles] at ha; cases ha; rfl
  | f :: fs, st, fs', st', ha, hp => by
    rw [asmFiles] at ha
    split at ha
    · cases ha
    · rename_i f1 st1 hf
      have h1 := asmFile_polKeep h f st f1 st1 hf hp
      split at ha
      · cases ha
      · rename_i fs1 st2 hfs
        cases ha
        have h2 := asmFiles_polKeep h fs st1 fs1 _ hfs (by rw [h1]; exact hp)
        rw [h2, h1]
theorem asmFv_polKeep (h : Hooks) : ∀ (v : Fv) (st : St) (v' : Fv) (st' : St),
    asmFv h v st = .ok (v', st') → st.pol ≠ 0xF0 → st'.pol = st.pol
  | .mk i buf files, st, v', st', ha, hp => by
    rw [asmFv] at ha
    split at ha
    · cases ha
    · rename_i st1 hsp
      have e1 : st1 = st := (setPolarity_ok _ _ _ hsp).2.2.2 hp
      subst e1
      split at ha
      · cases ha
      · rename_i files' st2 hfs
        have h1 := asmFiles_polKeep h files st1 files' st2 hfs hp
        split at ha
        · cases ha; exact h1
        · split at ha
          · cases ha
          · rename_i i' buf' st3 hre
            cases ha
            obtain ⟨_, _, fbuf, _, hfin⟩ := relayoutFv_inv _ _ _ _ _ hre
            obtain ⟨_, _, _, _, _, _, _, _, _, _, _, hst'⟩ := finishFv_shape _ _ _ _ _ _ hfin
            rw [hst']; exact h1
end

end Fiano.Uefi

namespace Fiano.Uefi
open Fiano
open EditArith

/-! ### lengths: every child buffer is inside its parent's -/

theorem asmNodes_nil_iff (h : Hooks) : ∀ (ns : List Node) (st : St) (ns' : List Node) (st' : St),
    asmNodes h ns st = .ok (ns', st') → (ns' = [] ↔ ns = []) := by
  intro ns
  cases ns with
  | nil => intro st ns' st' ha; rw [asmNodes] at ha; cases ha; simp
  | cons n rest =>
    intro st ns' st' ha
    cases n with
    | sec s =>
      rw [asmNodes] at ha
      split at ha
      · cases ha
      · split at ha
        · cases ha
        · cases ha; simp
    | fv v =>
      rw [asmNodes] at ha
      split at ha
      · cases ha
      · split at ha
        · cases ha
        · cases ha; simp

theorem asmSections_nil_iff (h : Hooks) (ss : List Section) (st : St) (ss' : List Section) (st' : St)
    (ha : asmSections h ss st = .ok (ss', st')) : (ss' = [] ↔ ss = []) := by
  cases ss with
  | nil => rw [asmSections] at ha; cases ha; simp
  | cons s rest =>
    rw [asmSections] at ha
    split at ha
    · cases ha
    · split at ha
      · cases ha
      · cases ha; simp

theorem relayoutFv_len_ge (i : FvInfo) (buf : Bytes) (files : List File) (st : St) (i' : FvInfo) (out : Bytes) (st' : St)
    (h : relayoutFv i buf files st = .ok (i', out, st')) : ∀ f ∈ files, f.buf.length ≤ out.length := by
  obtain ⟨_, _, fbuf, hplace, hfin⟩ := relayoutFv_inv i buf files st _ h
  obtain ⟨b0, bs, length, count, blocks', free, _, _, hpatch, _, _, _⟩ := finishFv_shape i fbuf st i' out st' hfin
  have hfr := patchFvHeader_frame _ _ _ _ _ _ hpatch
  have hge : fbuf.length ≤ out.length := by
    rw [hfr.1]
    split
    · simp only [List.length_append]; omega
    · omega
  have hl := (placeFiles_len st.pol (placed files) _ _ fbuf hplace).2
  intro f hf
  have := (hl (f.info.attrs, f.buf) (by unfold placed; exact List.mem_map.mpr ⟨f, hf, rfl⟩)).1
  simp only at this
  omega

theorem evAlign4_zero : align4 0 = 0 := by
  rw [align4_eq 0 (by omega)]

theorem joinPad4_single (b : Bytes) : joinPad4 [b] [] = b := by
  simp [joinPad4, evAlign4_zero]

/-- the size fields depend on the header fields only -/
theorem sizeFields_congr (i j : FileInfo) (n : Nat) (h : SizeFields i n) (hg : j.guid = i.guid) (ht : j.type = i.type)
    (ha : j.attrs = i.attrs) (hs : j.state = i.state) (h3 : j.size3 = i.size3) (he : j.extSize = i.extSize) :
    SizeFields j n :=
  ⟨by rw [hg]; exact h.guid, by rw [ht]; exact h.type, by rw [ha]; exact h.attrs, by rw [hs]; exact h.state,
   by rw [ha, h3]; exact h.small, by rw [ha, h3, he]; exact h.large⟩

end Fiano.Uefi
