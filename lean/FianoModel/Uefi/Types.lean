/-
  UEFI core model — types and primitive helpers.

  The tree mirrors the Go types of pkg/uefi (only the fields that exist in the Go structs):

    Tree    = FlashImage | bare BIOSRegion              (uefi.Parse)
    Flash   = buf, IFD (Descriptor), Regions, FlashSize (flash.go)
    Region  = BIOSRegion | MERegion | RawRegion         (biosregion.go, meregion.go, rawregion.go)
    BiosElem= BIOSPadding | FirmwareVolume              (biosregion.go)
    Fv      = FirmwareVolume                            (firmwarevolume.go)
    File    = File                                      (file.go)
    Section = Section                                   (section.go)
    Node    = TypedFirmware inside Section.Encapsulated (a Section or a FirmwareVolume)

  Every node carries its private buffer `buf` exactly as the Go node does.
  Not modelled (opaque): the ME flash partition table (MERegion.FPT, property C12) and the NVAR
  store inside RAW files (File.NVarStore, property C10) — the latter is reachable through `Hooks`.

  Core Lean only.
-/
import FianoModel.Base.Bytes

namespace Fiano.Uefi
open Fiano

/-- outcome classes of the Go code that are not a normal return -/
inductive Err where
  | err      -- an `error` was returned
  | panic    -- a run-time panic (index / slice bounds, nil dereference)
  | fatal    -- log.Fatalf (process exit)
  | hang     -- the Go loop does not terminate
  | fuel     -- the model's recursion budget was exhausted (never on budgets ≥ input length)
  deriving DecidableEq, Repr, Inhabited

abbrev Guid := Bytes   -- 16 bytes in every parsed tree

/-- process-wide state read and written by parse / assemble -/
structure St where
  pol  : UInt8 := 0xF0     -- uefi.Attributes.ErasePolarity; 0xF0 = "poisoned", not set yet
  ffs3 : Bool := false     -- visitors.Assemble.useFFS3
  deriving DecidableEq, Repr, Inhabited

/-! ### numbers -/

/-- `uefi.Align` on uint64: `(val + base - 1) & ^(base - 1)` with wrap-around. -/
def alignGo (v b : Nat) : Nat :=
  ((v + b + 18446744073709551615) % 18446744073709551616) &&& ((18446744073709551616 - b) % 18446744073709551616)

def align4 (v : Nat) : Nat := alignGo v 4
def align8 (v : Nat) : Nat := alignGo v 8

/-- `uefi.Checksum8` -/
def sum8 (b : Bytes) : UInt8 := b.foldl (· + ·) 0

/-- sum of little-endian 16-bit words (`uefi.Checksum16`, for even length) -/
def sum16 : Bytes → UInt16
  | a :: b :: rest => (a.toUInt16 + b.toUInt16 * 256) + sum16 rest
  | _ => 0

/-- `uefi.Write3Size` (saturating) as a number `< 2^24` -/
def write3 (size : Nat) : Nat := if size ≥ 0xFFFFFF then 0xFFFFFF else size

def byte (n : Nat) : UInt8 := UInt8.ofNat n

/-- read `len` bytes at `off` little endian (callers guard the bounds Go would fault on) -/
def rd (b : Bytes) (off len : Nat) : Nat := fromLE (slice b off len)

/-! ### well-known GUIDs (binary, mixed endian as `guid.Parse` stores them) -/

def guidFFS2 : Guid := [0x78,0xe5,0x8c,0x8c,0x3d,0x8a,0x1c,0x4f,0x99,0x35,0x89,0x61,0x85,0xc3,0x2d,0xd3]
def guidFFS3 : Guid := [0x7a,0xc0,0x73,0x54,0xcb,0x3d,0xca,0x4d,0xbd,0x6f,0x1e,0x96,0x89,0xe7,0x34,0x9a]
def guidNVAR : Guid := [0xa3,0xb9,0xf5,0xce,0x6d,0x47,0x7f,0x49,0x9f,0xdc,0xe9,0x81,0x43,0xe0,0x42,0x2c]
def guidFF   : Guid := List.replicate 16 0xFF
def guidZero : Guid := List.replicate 16 0x00

/-- `fileAlignments` of file.go -/
def fileAlignments : List Nat :=
  [1, 16, 128, 512, 1024, 4096, 32768, 65536, 131072, 262144, 524288, 1048576, 2097152, 4194304,
   8388608, 16777216]

/-- `fileAttr.GetAlignment` -/
def alignmentOf (attrs : Nat) : Nat :=
  fileAlignments.getD (((attrs &&& 0x38) >>> 3) ||| ((attrs &&& 0x02) <<< 2)) 1

/-- `SupportedFiles[t]` : the file types whose sections are parsed -/
def supportedFile (t : Nat) : Bool :=
  t == 2 || t == 3 || t == 4 || t == 5 || (7 ≤ t && t ≤ 15)

/-- the section types listed in `NewSection`'s first switch (extended size honoured) -/
def knownSection (t : Nat) : Bool :=
  t ≤ 3 || (0x10 ≤ t && t ≤ 0x19) || t == 0x1b || t == 0x1c

def isDepexType (t : Nat) : Bool := t == 0x13 || t == 0x1b || t == 0x1c

/-! ### UTF-16LE ⇄ code points (golang.org/x/text/encoding/unicode, IgnoreBOM, as used by
    pkg/unicode).  A Go string is represented by its list of Unicode code points. -/

/-- 16-bit little-endian code units; a single trailing byte becomes the marker `0x110000`
    (the decoder turns it into U+FFFD) -/
def toUnits : Bytes → List Nat
  | a :: b :: rest => (a.toNat + 256 * b.toNat) :: toUnits rest
  | [_] => [0x110000]
  | [] => []

def isSurr (x : Nat) : Bool := 0xD800 ≤ x && x ≤ 0xDFFF
def isLowSurr (x : Nat) : Bool := 0xDC00 ≤ x && x ≤ 0xDFFF

def decUnits : List Nat → List Nat
  | [] => []
  | x :: rest =>
    if isSurr x then
      match rest with
      | [] => [0xFFFD]
      | y :: rest' =>
        if isLowSurr y then
          (if x < 0xDC00 then (x - 0xD800) * 1024 + (y - 0xDC00) + 0x10000 else 0xFFFD) :: decUnits rest'
        else 0xFFFD :: decUnits (y :: rest')
    else (if x = 0x110000 then 0xFFFD else x) :: decUnits rest
termination_by structural l => l

def utf16Dec (b : Bytes) : List Nat := decUnits (toUnits b)

def utf16EncOne (r : Nat) : Bytes :=
  if r ≤ 0xFFFF then leN 2 r
  else if r ≤ 0x10FFFF then
    leN 2 (0xD800 + (r - 0x10000) / 1024 % 1024) ++ leN 2 (0xDC00 + (r - 0x10000) % 1024)
  else leN 2 0xFFFD ++ leN 2 0xFFFD

def utf16Enc : List Nat → Bytes
  | [] => []
  | r :: rs => utf16EncOne r ++ utf16Enc rs

def stripNul (l : List Nat) : List Nat :=
  if l.getLast? = some 0 then l.dropLast else l

/-- `unicode.UCS2ToUTF8` -/
def ucs2ToUtf8 (b : Bytes) : List Nat := stripNul (utf16Dec b)
/-- `unicode.UTF8ToUCS2` -/
def utf8ToUcs2 (s : List Nat) : Bytes := utf16Enc (s ++ [0])

/-! ### dependency expressions -/

structure DepOp where
  op   : Nat               -- opcode byte 0..9 (Go keeps the name; the map is a bijection, see Tie)
  guid : Option Guid
  deriving DecidableEq, Repr, Inhabited

def depHasGuid (op : Nat) : Bool := op ≤ 2     -- BEFORE, AFTER, PUSH
def depEnd : Nat := 8

/-- `parseDepEx`; `none` = error (the caller only warns and keeps `DepEx = nil`) -/
def parseDepExAux : Nat → Bytes → Option (List DepOp)
  | 0, _ => none
  | _, [] => none
  | fuel+1, c :: rest =>
    if c.toNat ≤ 9 then
      if depHasGuid c.toNat then
        if rest.length < 16 then none
        else (parseDepExAux fuel (rest.drop 16)).map (fun ops => ⟨c.toNat, some (rest.take 16)⟩ :: ops)
      else if c.toNat = depEnd then some [⟨c.toNat, none⟩]
      else (parseDepExAux fuel rest).map (fun ops => ⟨c.toNat, none⟩ :: ops)
    else none

def parseDepEx (b : Bytes) : Option (List DepOp) := parseDepExAux (b.length + 1) b

/-- the depex branch of `Assemble.Visit` for leaf sections; `none` = error -/
def encodeDepEx : List DepOp → Option Bytes
  | [] => some []
  | d :: ds =>
    if d.op ≤ 9 then
      match depHasGuid d.op, d.guid with
      | true, some g => (encodeDepEx ds).map (fun r => byte d.op :: g ++ r)
      | false, none => (encodeDepEx ds).map (fun r => byte d.op :: r)
      | _, _ => none
    else none

/-! ### node payloads (the non-recursive fields of the Go structs) -/

/-- `SectionGUIDDefined` -/
structure GuidDef where
  guid        : Guid
  dataOffset  : Nat       -- uint16
  attrs       : Nat       -- uint16
  compression : String    -- "", "UNKNOWN" or the codec's name
  deriving DecidableEq, Repr, Inhabited

structure SecInfo where
  size3     : Nat                 -- Header.Size
  type      : Nat                 -- Header.Type
  extSize   : Nat                 -- Header.ExtendedSize (uint32)
  fileOrder : Nat
  ts        : Option GuidDef := none   -- TypeSpecific
  name      : List Nat := []           -- UI name (code points)
  build     : Nat := 0                 -- version section
  version   : List Nat := []
  depex     : List DepOp := []
  deriving DecidableEq, Repr, Inhabited

/-- opaque NVAR store of a RAW file (only what `Assemble` reads at the file level) -/
structure NvStore where
  buf    : Bytes
  length : Nat
  deriving DecidableEq, Repr, Inhabited

structure FileInfo where
  guid       : Guid
  ckHeader   : Nat      -- Checksum.Header
  ckFile     : Nat      -- Checksum.File
  type       : Nat
  attrs      : Nat
  size3      : Nat
  state      : Nat
  extSize    : Nat      -- Header.ExtendedSize (uint64)
  dataOffset : Nat
  nvar       : Option NvStore := none
  deriving DecidableEq, Repr, Inhabited

structure Block where
  count : Nat
  size  : Nat
  deriving DecidableEq, Repr, Inhabited

structure FvInfo where
  fsGuid     : Guid
  length     : Nat      -- uint64
  signature  : Nat
  attrs      : Nat
  headerLen  : Nat      -- uint16
  checksum   : Nat
  extHeaderOffset : Nat
  reserved   : Nat
  revision   : Nat
  blocks     : List Block
  fvName     : Guid     -- zero GUID when there is no extended header
  extHeaderSize : Nat
  dataOffset : Nat
  fvOffset   : Nat
  resizable  : Bool
  freeSpace  : Nat
  deriving DecidableEq, Repr, Inhabited

mutual
  inductive Section where
    | mk (i : SecInfo) (buf : Bytes) (encap : List Node)
  inductive Node where
    | sec (s : Section)
    | fv (v : Fv)
  inductive File where
    | mk (i : FileInfo) (buf : Bytes) (secs : List Section)
  inductive Fv where
    | mk (i : FvInfo) (buf : Bytes) (files : List File)
end

def Section.info : Section → SecInfo | .mk i _ _ => i
def Section.buf : Section → Bytes | .mk _ b _ => b
def Section.encap : Section → List Node | .mk _ _ e => e
def File.info : File → FileInfo | .mk i _ _ => i
def File.buf : File → Bytes | .mk _ b _ => b
def File.secs : File → List Section | .mk _ _ s => s
def Fv.info : Fv → FvInfo | .mk i _ _ => i
def Fv.buf : Fv → Bytes | .mk _ b _ => b
def Fv.files : Fv → List File | .mk _ _ f => f
def Node.buf : Node → Bytes
  | .sec s => s.buf
  | .fv v => v.buf

instance : Inhabited Section := ⟨.mk default [] []⟩
instance : Inhabited File := ⟨.mk default [] []⟩
instance : Inhabited Fv := ⟨.mk default [] []⟩

/-- `FirmwareVolume.GetErasePolarity` -/
def polOfAttrs (attrs : Nat) : UInt8 := if attrs &&& 0x800 ≠ 0 then 0xFF else 0

/-! ### regions and the flash descriptor -/

structure FlashRegion where
  base  : Nat    -- uint16
  limit : Nat    -- uint16
  deriving DecidableEq, Repr, Inhabited

def FlashRegion.valid (r : FlashRegion) : Bool :=
  r.limit > 0 && r.limit ≥ r.base && r.limit != 0xFFFF && r.base != 0xFFFF
def FlashRegion.baseOffset (r : FlashRegion) : Nat := r.base * 4096
def FlashRegion.endOffset (r : FlashRegion) : Nat := (r.limit + 1) * 4096

inductive BiosElem where
  | pad (buf : Bytes) (offset : Nat)
  | fv (v : Fv)

def BiosElem.buf : BiosElem → Bytes
  | .pad b _ => b
  | .fv v => v.buf

structure BiosRegion where
  elems  : List BiosElem
  buf    : Bytes
  length : Nat
  fr     : Option FlashRegion     -- nil for a bare BIOS region

inductive Region where
  | bios (b : BiosRegion)
  | me (buf : Bytes) (fr : FlashRegion)                 -- FPT not modelled
  | raw (buf : Bytes) (fr : FlashRegion) (rtype : Int)  -- rtype = -1 for gap regions

def Region.buf : Region → Bytes
  | .bios b => b.buf
  | .me b _ => b
  | .raw b _ _ => b

/-- `Region.Type()` : BIOS and ME regions answer with a constant -/
def Region.rtype : Region → Int
  | .bios _ => 0
  | .me _ _ => 1
  | .raw _ _ t => t

def Region.fr : Region → Option FlashRegion
  | .bios b => b.fr
  | .me _ f => some f
  | .raw _ f _ => some f

def Region.setFr (f : FlashRegion) : Region → Region
  | .bios b => .bios { b with fr := some f }
  | .me b _ => .me b f
  | .raw b _ t => .raw b f t

/-- `FlashDescriptorMap` : 16 one-byte fields, kept in declaration order -/
structure DescMap where
  fields : List Nat      -- 16 values < 256
  deriving DecidableEq, Repr, Inhabited

def DescMap.regionBase (m : DescMap) : Nat := m.fields.getD 2 0
def DescMap.numberOfRegions (m : DescMap) : Nat := m.fields.getD 3 0
def DescMap.masterBase (m : DescMap) : Nat := m.fields.getD 4 0

/-- `FlashRegionSection` (the blank leading `_ uint16` is not kept by Go either) -/
structure RegionSection where
  eraseSize : Nat
  regions   : List FlashRegion    -- 15 entries
  deriving DecidableEq, Repr, Inhabited

/-- `FlashMasterSection` : three `RegionPermissions{ID uint16; Read, Write uint8}` -/
structure MasterSection where
  perms : List (Nat × Nat × Nat)  -- 3 entries
  deriving DecidableEq, Repr, Inhabited

structure Descriptor where
  buf         : Bytes
  mapStart    : Nat
  regionStart : Nat
  masterStart : Nat
  map         : DescMap
  region      : RegionSection
  master      : MasterSection

structure Flash where
  buf       : Bytes
  ifd       : Descriptor
  regions   : List Region
  flashSize : Nat

inductive Tree where
  | flash (f : Flash)
  | bios (b : BiosRegion)

def Tree.buf : Tree → Bytes
  | .flash f => f.buf
  | .bios b => b.buf

/-! ### hooks for the parts owned by other models -/

/-- `compression.Compressor` -/
structure Codec where
  name   : String
  decode : Bytes → Option Bytes
  encode : Bytes → Option Bytes

structure Hooks where
  /-- `compression.CompressorFromGUID` -/
  codec : Guid → Option Codec := fun _ => none
  /-- `uefi.DisableDecompression` -/
  disableDecompression : Bool := false
  /-- `NewNVarStore` on the body of a RAW file carrying the NVAR GUID; `none` = error (only logged) -/
  nvarParse : Bytes → Option NvStore := fun _ => none
  /-- `Assemble` applied to the store (entries, then the store itself) -/
  nvarAsm : NvStore → UInt8 → Except Err NvStore := fun s _ => .ok s

/-- hooks of the C01 grammar: no codec is known, NVAR stores stay unparsed -/
def Hooks.none : Hooks := {}

end Fiano.Uefi
