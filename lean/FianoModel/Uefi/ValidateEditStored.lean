/-
  C09b inside GUID-defined sections (follow-up wp-c09c): what CAN be proved.

  The children of a GUID-defined section with a codec are parsed from the *decoded* payload; their bytes are
  not bytes of the image, and what an altered image byte does to them is up to the codec.  But the bytes that
  ARE in the image — the section's common header, its 20-byte GUID-defined sub-header and the **stored**
  (compressed) payload — are body bytes of the enclosing file, and of every file further up the path (a file
  holding a volume-image section holding the volume holding that file …).  When one of those files carries the
  checksum attribute, every one of these bytes is a protected byte of it, and `alter_detected_image` applies:
  the alteration is detected, whatever the codec makes of the altered payload.

  `StoredGuidByte f j r` names the case of the task: byte `r` of file `f` lies in its `j`-th section, a
  GUID-defined one.  The corollary needs nothing of the section but that the byte lies behind the file header
  and inside the file — it holds for every body byte of a checksummed file a path selects.
-/
import FianoModel.Uefi.ValidateTree
import FianoModel.Uefi.ValidateSample
import FianoModel.Uefi.SampleC04
import FianoModel.Uefi.ParseEval

namespace Fiano.Uefi.C09
open Fiano Fiano.Uefi Fiano.Uefi.Spec

/-- byte `r` of file `f` (relative to the file's first byte) is a stored byte of its `j`-th section, and that
    section is GUID-defined: common header, GUID-defined sub-header, or stored (compressed) payload; the byte
    lies behind the 24-byte file header and inside the file (what every section of a parsed file does: C04
    `SecsAt`) -/
def StoredGuidByte (f : File) (j r : Nat) : Prop :=
  match f.secs[j]? with
  | some s => s.info.type = 2 ∧ secOff f j ≤ r ∧ r < secOff f j + s.info.extSize ∧ 24 ≤ r ∧ r < f.info.extSize
  | none => False

instance (f : File) (j r : Nat) : Decidable (StoredGuidByte f j r) := by
  unfold StoredGuidByte; split <;> infer_instance

/-- a stored byte of a GUID-defined section of a file with the checksum attribute is a protected byte of the
    file -/
theorem ve_stored_protects (f : File) (j r : Nat) (hck : hasChecksum f.info.attrs = true)
    (hs : StoredGuidByte f j r) : (Target.file f).protects r := by
  unfold StoredGuidByte at hs
  split at hs
  · obtain ⟨_, _, _, h24, hin⟩ := hs
    exact ⟨hin, by omega, Or.inr hck⟩
  · exact hs.elim

/-- **C09b for the stored payload of a GUID-defined section**: the image parses and validates cleanly, `path`
    selects a file `f` with the checksum attribute (at any depth; the file that holds the section directly, or
    any file further up whose body contains it), `r` is a stored byte of a GUID-defined section of `f`
    (header, sub-header, compressed payload).  Altering that byte is detected — the parser refuses the altered
    image or validate reports an error — whatever the codec decodes from the altered payload.
    Hypotheses: those of `c09_alter_detected_image`. -/
theorem ve_alter_detected_stored (h : Hooks) {b b' : Bytes} {t : Tree} {st : St} {path : Path} {il : ImgLoc}
    {f : File} {j r : Nat}
    (hparse : parseWith h (defaultFuel b) b {} = .ok (t, st)) (hval : validate t st = [])
    (hloc : locTree t path = some il) (hreg : ∀ v ∈ il.loc.through, v.regular)
    (htgt : il.loc.tgt = .file f) (hck : hasChecksum f.info.attrs = true) (hst : StoredGuidByte f j r)
    (ha : Alter b b' (il.pos + r))
    (hbig : b.length + 8 < 2 ^ 64)
    (hflash : findSignature b' = findSignature b)
    (hscan : ScanKept (b'.drop il.region) il.base il.vol (il.loc.off + r))
    (hfree : ¬ FreeMarker b' il.pos) :
    parseValidate h b' ≠ .ok [] :=
  alter_detected_image h hparse hval hloc hreg ha (by rw [htgt]; exact ve_stored_protects f j r hck hst)
    hbig hflash hscan (fun _ _ => hfree)

/-! ### non-vacuity -/

/-- the sample image of C04 with the checksum attribute set on its second driver — the one whose only
    section is GUID-defined (stored codec; 4-byte header, 20-byte sub-header, 16 stored payload bytes holding
    a RAW and a UI section) —, `IntegrityCheck` recomputed -/
def veGuidImg : Bytes := ((SampleC04.sampleBios.set 136 0xF1).set 137 0xAD).set 139 0x40

/-- where the path `[0, 1]` leads in `veGuidImg`, and whether byte `r` of that file is a stored byte of its
    first section, a GUID-defined one, of a checksummed file -/
def veStoredB (r : Nat) : Bool :=
  match parseWith Hooks.none (defaultFuel veGuidImg) veGuidImg {} with
  | .error _ => false
  | .ok (t, _) =>
    match locTree t [0, 1] with
    | none => false
    | some il =>
      match il.loc.tgt with
      | .file f => hasChecksum f.info.attrs && decide (StoredGuidByte f 0 r)
      | .fvHeader _ => false

set_option maxRecDepth 100000 in
/-- all hypotheses of `ve_alter_detected_stored` hold on `veGuidImg` for: a byte of the section header (file
    byte 24), of the GUID in the sub-header (30), the `DataOffset` field (44), and two bytes of the stored
    payload (50, 63) -/
theorem ve_sample_stored :
    (whereIs veGuidImg [0, 1] == some (120, 0, 0) &&
     veStoredB 24 && veStoredB 30 && veStoredB 44 && veStoredB 50 && veStoredB 63 && !veStoredB 64 && !veStoredB 23 &&
     hyps veGuidImg [0, 1] 24 0 && hyps veGuidImg [0, 1] 30 0 && hyps veGuidImg [0, 1] 44 0 &&
     hyps veGuidImg [0, 1] 50 1 && hyps veGuidImg [0, 1] 63 1) = true := by decide +kernel

set_option maxRecDepth 100000 in
/-- with the codec of the sample hooks the section is decoded (two children) and the image still parses and
    validates cleanly: the corollary is about a section that *has* decoded children -/
theorem ve_sample_stored_decoded :
    (match parseWith SampleC04.hooks (defaultFuel veGuidImg) veGuidImg {} with
     | .ok (.bios b, st) =>
       (validate (.bios b) st).isEmpty &&
       (match nthVol b.elems 0 0 0 with
        | some (_, _, v) =>
          (match (v.files[1]? : Option File) with
           | some (File.mk _ _ [Section.mk i _ encap]) => decide (i.type = 2) && encap.length == 2
           | _ => false)
        | none => false)
     | _ => false) = true := by
  rw [← parseWith_eval]; decide +kernel

end Fiano.Uefi.C09
