/-
  Tie T1 "code as code" for pkg/uefi: the hand-written model functions are *equal*, for all inputs,
  to the Go functions translated on every run by translator/exprfn_loops*.go (kind `loopfn`,
  Gen/CodeUefi.lean).  A semantic change of one of these Go functions regenerates different Lean
  code and breaks the theorem named after it — whether or not a generated test input reaches it.

    uefi.Checksum8                → sum8                      checksum8_tie
    uefi.Checksum16               → sum16 (+ odd length ⇒ error) checksum16_tie
    uefi.IsErased                 → TotalNvar.isErased / List.all  isErased_tie
    uefi.Erase                    → List.replicate            erase_tie
    uefi.FindFirmwareVolumeOffset → findFvOffset              findFvOffset_tie
    uefi.FindSignature            → findSignature             findSignature_tie
    uefi.Read3Size / Write3Size   → fromLE / write3           read3_tie, write3_tie
    fileAttr.GetAlignment / HasChecksum / IsLarge / setLarge → alignmentOf, bit tests   getAlignment_tie, …
    NVarAttribute.IsValid         → bit 7                     nvarIsValid_tie
    NVar.parseExtendedHeader (checksum loop) → nvarChecksumSpec  nvarChecksum_tie

  An `Option`-valued generated function returns `none` exactly when the Go function panics or a
  loop runs out of its explicit fuel, so `Gen.fn x = some …` also proves panic-freedom and
  termination of the translated code.
-/
import FianoModel.Gen.CodeUefi
import FianoModel.CodeTie.Lemmas
import FianoModel.Uefi.Types
import FianoModel.Uefi.Parse
import FianoModel.Uefi.ChecksumLemmas

namespace Fiano.Uefi.CodeTie
open Fiano Fiano.Uefi Fiano.GoRt
open Fiano.Gen.CodeUefi

/-! ### Checksum8 -/

/-- `uefi.Checksum8` as translated from the source **is** the model's `sum8` -/
theorem checksum8_tie (b : Bytes) : sum8 b = fn_Checksum8 b := rfl

/-! ### IsErased -/

theorem isErased_loop (pol : UInt8) (b : Bytes) :
    fn_IsErased.loop1 pol b = if b.all (· == pol) then Exit.fall () else Exit.ret false := by
  induction b with
  | nil => simp [fn_IsErased.loop1]
  | cons c rest ih =>
    simp only [fn_IsErased.loop1, List.all_cons]
    by_cases h : c = pol
    · subst h; simp [ih]
    · simp [h]

/-- `uefi.IsErased` as translated from the source: every byte equals the polarity -/
theorem isErased_tie (b : Bytes) (pol : UInt8) : fn_IsErased b pol = b.all (· == pol) := by
  unfold fn_IsErased
  rw [isErased_loop]
  by_cases h : b.all (· == pol) <;> simp [h]

/-! ### Checksum16 -/

theorem sum16_cons2 (a b : UInt8) (rest : Bytes) :
    sum16 (a :: b :: rest) = (a.toUInt16 + b.toUInt16 * 256) + sum16 rest := by
  simp [sum16]

/-- the loop of `Checksum16`: with an even number of unread bytes `r` it adds their word sum, never
    fails a read, and needs `|r|/2 + 1` units of fuel -/
theorem checksum16_loop (n : Nat) : ∀ (r : Bytes) (fuel : Nat) (temp sum : UInt16) (buflen : Int) (i : Int),
    r.length = 2 * n → n < fuel → buflen - i = (r.length : Int) →
    ∃ t, fn_Checksum16.loop1 buflen fuel r temp sum i = some (Exit.fall ([], t, sum + sum16 r, buflen)) := by
  induction n with
  | zero =>
    intro r fuel temp sum buflen i hl hf hi
    have hr : r = [] := List.eq_nil_of_length_eq_zero (by omega)
    subst hr
    obtain ⟨f, rfl⟩ : ∃ f, fuel = f + 1 := ⟨fuel - 1, by omega⟩
    have : ¬ (i < buflen) := by simp at hi; omega
    have e : i = buflen := by simp at hi; omega
    refine ⟨temp, ?_⟩
    simp [fn_Checksum16.loop1, sum16, e]
  | succ n ih =>
    intro r fuel temp sum buflen i hl hf hi
    match r, hl with
    | a :: b :: rest, hl =>
      obtain ⟨f, rfl⟩ : ∃ f, fuel = f + 1 := ⟨fuel - 1, by omega⟩
      have hlt : i < buflen := by simp at hi; omega
      have hl' : rest.length = 2 * n := by simp at hl; omega
      obtain ⟨t, ht⟩ := ih rest f (a.toUInt16 + b.toUInt16 * 256) (sum + (a.toUInt16 + b.toUInt16 * 256)) buflen (i + 2)
        hl' (by omega) (by simp at hi ⊢; omega)
      refine ⟨t, ?_⟩
      simp only [fn_Checksum16.loop1, hlt, decide_true, if_true, readLE16_cons2]
      simp only [nilErr, Bool.false_eq_true, if_false]
      rw [ht, sum16_cons2, UInt16.add_assoc]

/-- `uefi.Checksum16` as translated from the source: an odd length is refused with an error, an even
    length yields the model's `sum16` — for every input, without panic, within the loop's fuel -/
theorem checksum16_tie (b : Bytes) :
    fn_Checksum16 b = some (if b.length % 2 ≠ 0 then ((0 : UInt16), anErr) else (sum16 b, nilErr)) := by
  unfold fn_Checksum16
  by_cases hodd : b.length % 2 ≠ 0
  · have : Int.tmod (b.length : Int) 2 ≠ 0 := by
      rw [Int.tmod_eq_emod_of_nonneg (by omega)]; omega
    simp [hodd, this]
  · have heven : b.length % 2 = 0 := by omega
    have : Int.tmod (b.length : Int) 2 = 0 := by
      rw [Int.tmod_eq_emod_of_nonneg (by omega)]; omega
    obtain ⟨t, ht⟩ := checksum16_loop (b.length / 2) b (b.length + 1) 0 0 (b.length : Int) 0
      (by omega) (by omega) (by simp)
    simp [this, heven, ht]

/-! ### Erase -/

theorem erase_loop (pol : UInt8) : ∀ (m : Nat) (buf : Bytes) (k fuel : Nat),
    buf.length - k = m → k ≤ buf.length → m < fuel →
    fn_Erase.loop1 pol (buf.length : Int) fuel buf (k : Int)
      = some (buf.take k ++ List.replicate m pol, (buf.length : Int)) := by
  intro m
  induction m with
  | zero =>
    intro buf k fuel hm hk hf
    obtain ⟨f, rfl⟩ : ∃ f, fuel = f + 1 := ⟨fuel - 1, by omega⟩
    have e : k = buf.length := by omega
    subst e
    simp [fn_Erase.loop1]
  | succ m ih =>
    intro buf k fuel hm hk hf
    obtain ⟨f, rfl⟩ : ∃ f, fuel = f + 1 := ⟨fuel - 1, by omega⟩
    have hlt : k < buf.length := by omega
    have hlt' : (k : Int) < (buf.length : Int) := by omega
    have := ih (buf.set k pol) (k + 1) f (by simp; omega) (by simp; omega) (by omega)
    simp only [List.length_set] at this
    simp only [fn_Erase.loop1, hlt', decide_true, if_true, set_ofNat buf k pol hlt]
    simp only [bind, Option.bind]
    have e : ((k : Int) + 1) = ((k + 1 : Nat) : Int) := by omega
    rw [e, this, take_succ_set buf k pol hlt]
    simp [List.replicate_succ]

theorem erase_tie (buf : Bytes) (polarity pol : UInt8) :
    fn_Erase buf polarity pol = some (List.replicate buf.length pol) := by
  unfold fn_Erase
  have := erase_loop pol buf.length buf 0 (buf.length + 1) (by omega) (by omega) (by omega)
  simp at this
  simp [this]

/-! ### FindFirmwareVolumeOffset -/

def fvSigBytes : Bytes := [95, 70, 86, 72]

theorem isFvSig_iff (b : Bytes) : isFvSig b = true ↔ b.take 4 = fvSigBytes := by
  match b with
  | [] => simp [isFvSig, fvSigBytes]
  | [_] => simp [isFvSig, fvSigBytes]
  | [_, _] => simp [isFvSig, fvSigBytes]
  | [_, _, _] => simp [isFvSig, fvSigBytes]
  | a :: b :: c :: d :: rest =>
    simp only [List.take, fvSigBytes]
    constructor
    · intro h
      unfold isFvSig at h
      split at h
      · rename_i h'
        simp at h'
        simp [h'.1, h'.2.1, h'.2.2.1, h'.2.2.2.1]
      · simp at h
    · intro h
      simp at h
      obtain ⟨rfl, rfl, rfl, rfl⟩ := h
      simp [isFvSig]

theorem findFv_loop (data : Bytes) : ∀ (n off fuelG fuelM : Nat),
    data.length ≤ off + 8 * n + 4 → n < fuelG → n < fuelM →
    ∃ r, fn_FindFirmwareVolumeOffset.loop1 data fvSigBytes fuelG (off : Int) = some r ∧
      exitVal r = (scanSig fuelM off (data.drop off)).map (fun (o : Nat) => (o : Int) - 40) := by
  intro n
  induction n with
  | zero =>
    intro off fuelG fuelM hl hg hm
    obtain ⟨g, rfl⟩ : ∃ g, fuelG = g + 1 := ⟨fuelG - 1, by omega⟩
    obtain ⟨m, rfl⟩ : ∃ m, fuelM = m + 1 := ⟨fuelM - 1, by omega⟩
    have h1 : ¬ ((off : Int) + 4 < (data.length : Int)) := by omega
    have h2 : ¬ (4 < data.length - off) := by omega
    refine ⟨Exit.fall (off : Int), ?_, ?_⟩
    · simp [fn_FindFirmwareVolumeOffset.loop1, h1]
    · simp [exitVal, scanSig, h2]
  | succ n ih =>
    intro off fuelG fuelM hl hg hm
    obtain ⟨g, rfl⟩ : ∃ g, fuelG = g + 1 := ⟨fuelG - 1, by omega⟩
    obtain ⟨m, rfl⟩ : ∃ m, fuelM = m + 1 := ⟨fuelM - 1, by omega⟩
    by_cases hc : off + 4 < data.length
    · have h1 : ((off : Int) + 4 < (data.length : Int)) := by omega
      have h2 : (4 < data.length - off) := by omega
      have hs : GoRt.slice data (off : Int) ((off : Int) + 4) = some ((data.drop off).take 4) := by
        have e : ((off : Int) + 4) = ((off + 4 : Nat) : Int) := by omega
        rw [e, slice_ofNat, sliceN_ok data off (off + 4) (by omega) (by omega)]
        congr 2; omega
      by_cases hsig : isFvSig (data.drop off) = true
      · have hsig' := (isFvSig_iff _).mp hsig
        refine ⟨Exit.ret ((off : Int) - 40), ?_, ?_⟩
        · simp only [fn_FindFirmwareVolumeOffset.loop1, h1, decide_true, if_true, hs, bind, Option.bind, hsig']
          simp
        · simp [exitVal, scanSig, h2, hsig]
      · have hsig' : ¬ ((data.drop off).take 4 = fvSigBytes) := fun h => hsig ((isFvSig_iff _).mpr h)
        obtain ⟨r, hr, hv⟩ := ih (off + 8) g m (by omega) (by omega) (by omega)
        refine ⟨r, ?_, ?_⟩
        · have e : ((off : Int) + 8) = ((off + 8 : Nat) : Int) := by omega
          have hr' : fn_FindFirmwareVolumeOffset.loop1 data fvSigBytes g ((off : Int) + 8) = some r := by
            rw [e]; exact hr
          simp only [fn_FindFirmwareVolumeOffset.loop1, h1, decide_true, if_true, hs, bind, Option.bind]
          simp [hsig', hr']
        · have hd : List.drop 8 (List.drop off data) = List.drop (off + 8) data := by
            rw [List.drop_drop]
          simp only [Bool.not_eq_true] at hsig
          rw [hv]
          simp [scanSig, h2, hsig, hd]
    · have h1 : ¬ ((off : Int) + 4 < (data.length : Int)) := by omega
      have h2 : ¬ (4 < data.length - off) := by omega
      refine ⟨Exit.fall (off : Int), ?_, ?_⟩
      · simp [fn_FindFirmwareVolumeOffset.loop1, h1]
      · simp [exitVal, scanSig, h2]

theorem findFvOffset_tie (data : Bytes) :
    ∃ r : Int, fn_FindFirmwareVolumeOffset data = some r ∧
      findFvOffset data = (if r < 0 then none else some r.toNat) := by
  unfold fn_FindFirmwareVolumeOffset findFvOffset
  by_cases hs : data.length < 32
  · refine ⟨-1, ?_, ?_⟩
    · have : ((data.length : Int) < 32) := by omega
      simp [this]
    · simp [hs]
  · have h32 : ¬ ((data.length : Int) < 32) := by omega
    obtain ⟨r, hr, hv⟩ := findFv_loop data ((data.length - 36 + 7) / 8) 32
      (((data.length : Int) - (32 + 4)).toNat + 1) (data.length / 8 + 1) (by omega) (by omega) (by omega)
    cases r with
    | ret x =>
      refine ⟨x, ?_, ?_⟩
      · simp only [h32, decide_false, Bool.false_eq_true, if_false]
        have : fn_FindFirmwareVolumeOffset.loop1 data [95, 70, 86, 72] (((data.length : Int) - (32 + 4)).toNat + 1) 32 = some (Exit.ret x) := hr
        rw [this]; rfl
      · simp only [hs, if_false]
        simp only [exitVal] at hv
        cases hsc : scanSig (data.length / 8 + 1) 32 (data.drop 32) with
        | none => rw [hsc] at hv; simp at hv
        | some o =>
          rw [hsc] at hv
          simp at hv
          subst hv
          by_cases ho : o < 40
          · have : ((o : Int) - 40 < 0) := by omega
            simp [ho, this]
          · have : ¬ ((o : Int) - 40 < 0) := by omega
            simp [ho, this]
            omega
    | fall s =>
      refine ⟨-1, ?_, ?_⟩
      · simp only [h32, decide_false, Bool.false_eq_true, if_false]
        have : fn_FindFirmwareVolumeOffset.loop1 data [95, 70, 86, 72] (((data.length : Int) - (32 + 4)).toNat + 1) 32 = some (Exit.fall s) := hr
        rw [this]; rfl
      · simp only [hs, if_false]
        simp only [exitVal] at hv
        cases hsc : scanSig (data.length / 8 + 1) 32 (data.drop 32) with
        | none => simp
        | some o => rw [hsc] at hv; simp at hv

/-! ### FindSignature -/

theorem findSignature_tie (buf : Bytes) :
    fn_FindSignature buf = some (match findSignature buf with
      | some n => ((n : Int), nilErr)
      | none => ((-1 : Int), anErr)) := by
  unfold fn_FindSignature findSignature
  by_cases hs : buf.length < 20
  · have : ((buf.length : Int) < 20) := by omega
    simp [hs, this]
  · have h20 : ¬ ((buf.length : Int) < 20) := by omega
    have h4 : ((buf.length : Int) ≥ 4) := by omega
    have s1 : GoRt.slice buf (16 : Int) ((16 : Int) + (4 : Int)) = some (Fiano.slice buf 16 4) := by
      have := slice_ofNat buf 16 20
      rw [sliceN_ok buf 16 20 (by omega) (by omega)] at this
      exact this
    have s2 : GoRt.slice buf (0 : Int) (4 : Int) = some (Fiano.slice buf 0 4) := by
      have := slice_ofNat buf 0 4
      rw [sliceN_ok buf 0 4 (by omega) (by omega)] at this
      exact this
    have s3 : GoRt.slice buf (0 : Int) (20 : Int) = some (Fiano.slice buf 0 20) := by
      have := slice_ofNat buf 0 20
      rw [sliceN_ok buf 0 20 (by omega) (by omega)] at this
      exact this
    simp only [hs, h20, h4, decide_false, decide_true, Bool.false_eq_true, if_false, if_true, s1, s2, s3, bind, Option.bind,
      flashSignature, pure]
    by_cases c1 : Fiano.slice buf 16 4 = [0x5a, 0xa5, 0xf0, 0x0f]
    · simp [c1]
    · by_cases c2 : Fiano.slice buf 0 4 = [0x5a, 0xa5, 0xf0, 0x0f]
      · simp [c1, c2]
      · simp [c1, c2]

/-! ### Read3Size / Write3Size -/

theorem write3_tie (s : UInt64) :
    (fn_Write3Size s).length = 3 ∧ fromLE (fn_Write3Size s) = write3 s.toNat := by
  unfold fn_Write3Size write3
  by_cases h : s ≥ 16777215
  · have h' : s.toNat ≥ 0xFFFFFF := by
      have := UInt64.le_iff_toNat_le.mp h
      simpa using this
    simp only [h, decide_true, if_true, h']
    constructor
    · rfl
    · decide
  · have h' : ¬ (s.toNat ≥ 0xFFFFFF) := by
      intro hc
      apply h
      apply UInt64.le_iff_toNat_le.mpr
      simpa using hc
    simp only [h, decide_false, Bool.false_eq_true, if_false, h']
    constructor
    · rfl
    · simp only [fromLE, UInt64.toNat_toUInt8, UInt64.toNat_shiftRight]
      have e8 : (8 : UInt64).toNat % 64 = 8 := by decide
      have e16 : (16 : UInt64).toNat % 64 = 16 := by decide
      rw [e8, e16, Nat.shiftRight_eq_div_pow, Nat.shiftRight_eq_div_pow]
      omega

theorem or3_nat (a b c : Nat) (ha : a < 256) (hb : b < 256) :
    c * 65536 ||| b * 256 ||| a = a + 256 * (b + 256 * c) := by
  have r : (c * 256 + b) * 256 + a = a + 256 * (b + 256 * c) := by omega
  have e : c * 65536 + b * 256 = (c * 256 + b) * 256 := by rw [Nat.add_mul, Nat.mul_assoc]
  have hb' : b * 256 < 2 ^ 16 := by omega
  have ha' : a < 2 ^ 8 := by omega
  have s1 := Nat.shiftLeft_add_eq_or_of_lt (a := c) (b := b * 256) (i := 16) hb'
  have s2 := Nat.shiftLeft_add_eq_or_of_lt (a := c * 256 + b) (b := a) (i := 8) ha'
  rw [Nat.shiftLeft_eq] at s1 s2
  have p16 : (2 : Nat) ^ 16 = 65536 := by rfl
  have p8 : (2 : Nat) ^ 8 = 256 := by rfl
  rw [p16] at s1
  rw [p8] at s2
  rw [← s1, e, ← s2, r]

theorem or3_eq (a b c : UInt8) :
    ((c.toUInt64 <<< 16) ||| (b.toUInt64 <<< 8) ||| a.toUInt64).toNat = a.toNat + 256 * (b.toNat + 256 * c.toNat) := by
  have ha := a.toNat_lt
  have hb := b.toNat_lt
  have hc := c.toNat_lt
  simp only [UInt64.toNat_or, UInt64.toNat_shiftLeft, UInt8.toNat_toUInt64]
  have e8 : (8 : UInt64).toNat % 64 = 8 := by decide
  have e16 : (16 : UInt64).toNat % 64 = 16 := by decide
  rw [e8, e16, Nat.shiftLeft_eq, Nat.shiftLeft_eq]
  have p16 : (2 : Nat) ^ 16 = 65536 := by rfl
  have p8 : (2 : Nat) ^ 8 = 256 := by rfl
  have p64 : (2 : Nat) ^ 64 = 18446744073709551616 := by rfl
  rw [p16, p8, p64]
  have m1 : c.toNat * 65536 % 18446744073709551616 = c.toNat * 65536 := Nat.mod_eq_of_lt (by omega)
  have m2 : b.toNat * 256 % 18446744073709551616 = b.toNat * 256 := Nat.mod_eq_of_lt (by omega)
  rw [m1, m2]
  exact or3_nat a.toNat b.toNat c.toNat ha hb

theorem read3_tie (a b c : UInt8) :
    (fn_Read3Size [a, b, c]).map UInt64.toNat = some (fromLE [a, b, c]) := by
  unfold fn_Read3Size
  simp only [List.getElem?_cons_succ, List.getElem?_cons_zero, bind, Option.bind, pure, Option.map, fromLE]
  rw [or3_eq]
  simp

/-- `Read3Size` panics on nothing: a `[3]uint8` always has its three elements -/
theorem read3_short (size : Bytes) (h : size.length < 3) : fn_Read3Size size = none := by
  unfold fn_Read3Size
  have : size[2]? = none := List.getElem?_eq_none (by omega)
  simp [this]

/-! ### file attribute bits (`fileAttr` methods) and the NVAR valid bit -/

set_option maxRecDepth 100000 in
/-- `fileAttr.GetAlignment()` as translated from the source — the two-part alignment index and the
    lookup in `fileAlignments` (the table is regenerated inside the translated function) — is the
    model's `alignmentOf`, for all 256 attribute bytes; the lookup never indexes out of range -/
theorem getAlignment_tie : ∀ a : UInt8, fn_fileAttr_GetAlignment a = some (UInt64.ofNat (alignmentOf a.toNat)) := by
  apply u8_forall; decide

/-- `fileAttr.HasChecksum()`: bit 6 (the model's `attrs &&& 0x40 ≠ 0` in `Assemble`) -/
theorem hasChecksum_tie (a : UInt8) : fn_fileAttr_HasChecksum a = (a &&& 0x40 != 0) := rfl

/-- `fileAttr.IsLarge()`: bit 0 -/
theorem isLarge_tie (a : UInt8) : fn_fileAttr_IsLarge a = (a &&& 0x01 != 0) := rfl

set_option maxRecDepth 100000 in
/-- `fileAttr.setLarge(b)`: bit 0 := b, the other bits are kept -/
theorem setLarge_tie : ∀ a : UInt8, ∀ b : Bool,
    (fn_fileAttr_setLarge a b).toNat = a.toNat / 2 * 2 + (if b then 1 else 0) := by
  apply u8_forall; decide

/-- `NVarAttribute.IsValid()`: bit 7 (the model's `attrs &&& 0x80 = 0` test, negated) -/
theorem nvarIsValid_tie (a : UInt8) : fn_NVarAttribute_IsValid a = (a &&& 0x80 != 0) := rfl

/-! ### the checksum loop of NVar.parseExtendedHeader (a fragment of the method) -/

/-- one pass of the NVAR checksum loop at a cursor other than 5 -/
theorem nvar_step (buf : Bytes) (size : UInt16) (fuel : Nat) (cs x : UInt8) (i : Int)
    (hlt : i < ((size.toNat : Nat) : Int)) (hx : idx buf i = some x) (h5 : i ≠ 5) :
    frag_nvarChecksum.loop1 buf size (fuel + 1) cs i = frag_nvarChecksum.loop1 buf size fuel (cs + x) (i + 1) := by
  simp [frag_nvarChecksum.loop1, hlt, hx, h5]

theorem nvar_step5 (buf : Bytes) (size : UInt16) (fuel : Nat) (cs x : UInt8)
    (hlt : (5 : Int) < ((size.toNat : Nat) : Int)) (hx : idx buf 5 = some x) :
    frag_nvarChecksum.loop1 buf size (fuel + 1) cs 5 = frag_nvarChecksum.loop1 buf size fuel (cs + x) 9 := by
  simp [frag_nvarChecksum.loop1, hlt, hx]

theorem nvar_stop (buf : Bytes) (size : UInt16) (fuel : Nat) (cs : UInt8) (i : Int)
    (h : ¬ (i < ((size.toNat : Nat) : Int))) :
    frag_nvarChecksum.loop1 buf size (fuel + 1) cs i = some (cs, i) := by
  simp [frag_nvarChecksum.loop1, h]

theorem nvar_panic (buf : Bytes) (size : UInt16) (fuel : Nat) (cs : UInt8) (i : Int)
    (hlt : i < ((size.toNat : Nat) : Int)) (hx : idx buf i = none) :
    frag_nvarChecksum.loop1 buf size (fuel + 1) cs i = none := by
  simp [frag_nvarChecksum.loop1, hlt, hx]

/-- from a cursor `i ≥ 6` on, the loop adds every remaining byte below `Size` -/
theorem nvar_tail (buf : Bytes) (size : UInt16) (hS : size.toNat ≤ buf.length) :
    ∀ (m i fuel : Nat) (cs : UInt8), 6 ≤ i → size.toNat - i = m → m < fuel →
    ∃ j, frag_nvarChecksum.loop1 buf size fuel cs (i : Int) = some (cs + sum8 ((buf.take size.toNat).drop i), j) := by
  intro m
  induction m with
  | zero =>
    intro i fuel cs h6 hm hf
    obtain ⟨f, rfl⟩ : ∃ f, fuel = f + 1 := ⟨fuel - 1, by omega⟩
    have hd : (buf.take size.toNat).drop i = [] := by
      apply List.drop_eq_nil_of_le; simp; omega
    refine ⟨i, ?_⟩
    rw [nvar_stop buf size f cs i (by omega), hd]
    simp
  | succ m ih =>
    intro i fuel cs h6 hm hf
    obtain ⟨f, rfl⟩ : ∃ f, fuel = f + 1 := ⟨fuel - 1, by omega⟩
    have hi : i < buf.length := by omega
    have hd : (buf.take size.toNat).drop i = buf[i] :: (buf.take size.toNat).drop (i + 1) := by
      have hlt : i < (buf.take size.toNat).length := by simp; omega
      rw [List.drop_eq_getElem_cons hlt]
      simp
    obtain ⟨j, hj⟩ := ih (i + 1) f (cs + buf[i]) (by omega) (by omega) (by omega)
    refine ⟨j, ?_⟩
    rw [nvar_step buf size f cs buf[i] i (by omega) (idx_lt buf i hi) (by omega)]
    have e : ((i : Int) + 1) = ((i + 1 : Nat) : Int) := by omega
    rw [e, hj, hd, v_sum8_cons, UInt8.add_assoc]

/-- **the NVAR checksum loop as translated from the source** (`parseExtendedHeader`): with the entry
    inside the buffer it never panics and sums bytes 4, 5 and 9 … Size-1 of the entry — the signature
    (0–3) and the `Next` link (6–8) are skipped -/
theorem nvarChecksum_spec (buf : Bytes) (size : UInt16) (hS : size.toNat ≤ buf.length) :
    frag_nvarChecksum buf size =
      some (sum8 (((buf.take size.toNat).drop 4).take 2) + sum8 ((buf.take size.toNat).drop 9)) := by
  unfold frag_nvarChecksum
  simp only [bind, Option.bind, pure]
  have hfuel : ((((size.toNat : Nat) : Int) - 4).toNat + 1) = (size.toNat - 4) + 1 := by omega
  rw [hfuel]
  by_cases h4 : size.toNat ≤ 4
  · -- nothing to add
    have e : size.toNat - 4 = 0 := by omega
    rw [e, nvar_stop buf size 0 0 4 (by omega)]
    have d1 : ((buf.take size.toNat).drop 4) = [] := by apply List.drop_eq_nil_of_le; simp; omega
    have d2 : ((buf.take size.toNat).drop 9) = [] := by apply List.drop_eq_nil_of_le; simp; omega
    simp [d1, d2]
  · have hb4 : 4 < buf.length := by omega
    obtain ⟨f, hf⟩ : ∃ f, size.toNat - 4 = f + 1 := ⟨size.toNat - 5, by omega⟩
    rw [hf, nvar_step buf size (f + 1) 0 buf[4] 4 (by omega) (idx_lt buf 4 hb4) (by omega)]
    by_cases h5 : size.toNat = 5
    · rw [nvar_stop buf size f _ _ (by omega)]
      have d1 : ((buf.take size.toNat).drop 4) = [buf[4]] := by
        rw [List.drop_eq_getElem_cons (by simp; omega)]
        have : (buf.take size.toNat).drop (4 + 1) = [] := by apply List.drop_eq_nil_of_le; simp; omega
        simp [this]
      have d2 : ((buf.take size.toNat).drop 9) = [] := by apply List.drop_eq_nil_of_le; simp; omega
      simp [d1, d2, v_sum8_cons]
    · have hb5 : 5 < buf.length := by omega
      obtain ⟨g, hg⟩ : ∃ g, f = g + 1 := ⟨f - 1, by omega⟩
      subst hg
      have e45 : ((4 : Int) + 1) = 5 := by omega
      rw [e45, nvar_step5 buf size (g + 1) _ buf[5] (by omega) (idx_lt buf 5 hb5)]
      have d1 : ((buf.take size.toNat).drop 4).take 2 = [buf[4], buf[5]] := by
        rw [List.drop_eq_getElem_cons (by simp; omega), List.drop_eq_getElem_cons (by simp; omega)]
        simp
      by_cases h9 : size.toNat ≤ 9
      · rw [nvar_stop buf size g _ 9 (by omega)]
        have d2 : ((buf.take size.toNat).drop 9) = [] := by apply List.drop_eq_nil_of_le; simp; omega
        simp [d1, d2, v_sum8_cons]
      · obtain ⟨j, hj⟩ := nvar_tail buf size hS (size.toNat - 9) 9 (g + 1) ((0 : UInt8) + buf[4] + buf[5]) (by omega) rfl (by omega)
        have e9 : ((9 : Nat) : Int) = 9 := rfl
        rw [e9] at hj
        rw [hj, d1]
        simp [v_sum8_cons]

theorem nvar_tail_panic (buf : Bytes) (size : UInt16) (hS : buf.length < size.toNat) :
    ∀ (m i fuel : Nat) (cs : UInt8), 6 ≤ i → i ≤ buf.length → buf.length - i = m → m < fuel →
    frag_nvarChecksum.loop1 buf size fuel cs (i : Int) = none := by
  intro m
  induction m with
  | zero =>
    intro i fuel cs h6 hle hm hf
    obtain ⟨f, rfl⟩ : ∃ f, fuel = f + 1 := ⟨fuel - 1, by omega⟩
    by_cases hi : i < size.toNat
    · exact nvar_panic buf size f cs i (by omega) (idx_ge buf i (by omega))
    · exfalso; omega
  | succ m ih =>
    intro i fuel cs h6 hle hm hf
    obtain ⟨f, rfl⟩ : ∃ f, fuel = f + 1 := ⟨fuel - 1, by omega⟩
    have hi : i < buf.length := by omega
    rw [nvar_step buf size f cs buf[i] i (by omega) (idx_lt buf i hi) (by omega)]
    have e : ((i : Int) + 1) = ((i + 1 : Nat) : Int) := by omega
    rw [e]
    exact ih (i + 1) f _ (by omega) (by omega) (by omega) (by omega)

/-- an entry that claims to be longer than the buffer (Size ≥ 10) makes the loop index out of range:
    the Go code panics (this is what the totality model `Total.extChecksumG` records) -/
theorem nvarChecksum_panics (buf : Bytes) (size : UInt16) (hS : buf.length < size.toNat) (h10 : 10 ≤ size.toNat) :
    frag_nvarChecksum buf size = none := by
  unfold frag_nvarChecksum
  simp only [bind, Option.bind, pure]
  have hfuel : ((((size.toNat : Nat) : Int) - 4).toNat + 1) = (size.toNat - 6) + 1 + 1 + 1 := by omega
  rw [hfuel]
  by_cases hb4 : buf.length ≤ 4
  · rw [nvar_panic buf size _ 0 4 (by omega) (idx_ge buf 4 hb4)]
  · rw [nvar_step buf size _ 0 buf[4] 4 (by omega) (idx_lt buf 4 (by omega)) (by omega)]
    have e45 : ((4 : Int) + 1) = 5 := by omega
    rw [e45]
    by_cases hb5 : buf.length ≤ 5
    · rw [nvar_panic buf size _ _ 5 (by omega) (idx_ge buf 5 hb5)]
    · rw [nvar_step5 buf size _ _ buf[5] (by omega) (idx_lt buf 5 (by omega))]
      by_cases hb9 : buf.length ≤ 9
      · rw [nvar_panic buf size _ _ 9 (by omega) (idx_ge buf 9 hb9)]
      · have := nvar_tail_panic buf size hS (buf.length - 9) 9 (size.toNat - 6 + 1) ((0 : UInt8) + buf[4] + buf[5])
          (by omega) (by omega) rfl (by omega)
        have e9 : ((9 : Nat) : Int) = 9 := rfl
        rw [e9] at this
        rw [this]

end Fiano.Uefi.CodeTie
