/-
  T1 tie for property C04: the facts `Faithful` and the parser model rely on, compared with what the
  translator regenerates from pkg/uefi on every build.

  * **layout offsets**: `Faithful` says "field X = fromLE of the bytes at offset o, width w"; the pairs
    (o, w) below are *computed* from the regenerated packed layouts (prefix sums of the field widths)
    and must be the literals used in Faithful.lean / Parse.lean.
  * **shape of the constructors** (Gen/UefiParse.lean, sorted, identifier-free): the kinds of
    sub-slices taken, the comparisons made, the alignment and constructor calls.  In particular
    `NewFirmwareVolume` takes three `[:h]` slices — the third one is the clip to `fv.Length` of
    fixes/C04-file-clipped-to-volume.diff; without it this file does not build.
  * follow-up wp-c04b — **ME partition table**: signature, the two constants and the packed layout of
    `MEPartitionEntry` (the offsets `Me.EntryAt` uses are computed from it); shapes of `NewMEFPT`,
    `parsePartitions`, `NewMERegion`, `FindMEDescriptor`; **NVAR**: `NewFile` calls `NewNVarStore` once,
    the walk calls `newNVar` once per round, `newNVar` looks for a nested store once (the NVAR model
    itself is C10's, tied by Nvram/Tie*.lean — audited with this check as well);
  * follow-up wp-c04b — **writes to byte slices** (Gen/UefiWrites.lean): the inventory of every `copy`,
    indexed assignment, `append` onto an existing slice, `PutUintNN`, `Erase` and read-into inside the 71
    functions reachable from `uefi.Parse`: twelve `copy`s, each into a buffer the same function allocated
    just before (`fresh`), four of them in the else-branch of `if ReadOnly`.  In read-only mode the node
    buffers alias the caller's input; a write that is not `fresh` (an in-place patch of `buf`, an
    `append` onto a node buffer, an `Erase`) would modify the caller's buffer or make the tree depend on
    the mode — it changes a regenerated list below and the named theorem stops building, whether or not a
    generated input reaches it.
-/
import FianoModel.Uefi.Spec
import FianoModel.Uefi.Faithful
import FianoModel.Gen.Uefi
import FianoModel.Gen.UefiCodec
import FianoModel.Gen.UefiParse
import FianoModel.Gen.UefiWrites

namespace Fiano.Uefi.TieC04
open Fiano Fiano.Uefi

def bytesOf (l : List Nat) : Bytes := l.map UInt8.ofNat

/-! ### constants, tables and GUIDs the parser model uses (the parse-relevant part of Uefi/Tie.lean,
    restated here so that this property does not depend on facts about the *writers*) -/

theorem tie_sizes :
    Gen.Uefi.FirmwareVolumeMinSize = 64 ∧ Gen.Uefi.FirmwareVolumeExtHeaderMinSize = 20 ∧
    Gen.Uefi.SectionMinLength = 4 ∧ Gen.Uefi.SectionExtMinLength = 8 ∧
    Gen.Uefi.FlashDescriptorMapSize = 16 ∧ Gen.Uefi.FlashRegionSectionSize = 64 ∧
    Gen.Uefi.FlashMasterSectionSize = 12 := by decide
theorem tie_poisoned : Gen.Uefi.poisonedPolarity = ({} : St).pol.toNat := by decide
theorem tie_types :
    Gen.Uefi.FVFileTypeRaw = 1 ∧ Gen.Uefi.SectionTypeGUIDDefined = 0x02 ∧
    Gen.Uefi.SectionTypeUserInterface = 0x15 ∧ Gen.Uefi.SectionTypeVersion = 0x14 ∧
    Gen.Uefi.SectionTypeFirmwareVolumeImage = 0x17 ∧ Gen.Uefi.GUIDEDSectionProcessingRequired = 1 ∧
    Gen.Uefi.RegionTypeBIOS = 0 ∧ Gen.Uefi.RegionTypeME = 1 ∧ Gen.Uefi.RegionTypeUnknown = -1 := by decide
theorem tie_depexTypes : ∀ t, isDepexType t = true ↔
    (t = Gen.Uefi.SectionTypeDXEDepEx ∨ t = Gen.Uefi.SectionTypePEIDepEx ∨ t = Gen.Uefi.SectionMMDepEx) := by
  intro t
  simp [isDepexType, Gen.Uefi.SectionTypeDXEDepEx, Gen.Uefi.SectionTypePEIDepEx, Gen.Uefi.SectionMMDepEx, or_assoc]
set_option maxRecDepth 8192 in
theorem tie_supportedFiles : (List.range 256).all (fun t =>
    supportedFile t == ((Gen.Uefi.SupportedFiles.lookup t).getD false)) = true := by decide
theorem tie_supportedFVs : Gen.Uefi.supportedFVs = ["FFS2", "FFS3"] := by decide
theorem tie_depexOpcodes : Gen.Uefi.DepExOpCodes =
    [(0, "BEFORE"), (1, "AFTER"), (2, "PUSH"), (3, "AND"), (4, "OR"), (5, "NOT"), (6, "TRUE"),
     (7, "FALSE"), (8, "END"), (9, "SOR")] := by decide
theorem tie_guids :
    guidFFS2 = bytesOf Gen.Uefi.FFS2 ∧ guidFFS3 = bytesOf Gen.Uefi.FFS3 ∧ guidNVAR = bytesOf Gen.Uefi.NVAR ∧
    flashSignature = bytesOf Gen.Uefi.FlashSignature := by decide
theorem tie_codecGuids : Spec.codecGuids =
    [bytesOf Gen.UefiCodec.BROTLIGUID, bytesOf Gen.UefiCodec.LZMAGUID, bytesOf Gen.UefiCodec.LZMAX86GUID,
     bytesOf Gen.UefiCodec.ZLIBGUID] := by decide
theorem tie_regionValid : Gen.Uefi.cmplits_FlashRegion_Valid = [(">", 0), ("!=", 65535), ("!=", 65535)] := by decide

/-- offset and width of a field in a packed layout -/
def fieldAt (l : List (String × Nat)) (name : String) : Option (Nat × Nat) :=
  let rec go : List (String × Nat) → Nat → Option (Nat × Nat)
    | [], _ => none
    | (n, w) :: rest, off => if n = name then some (off, w) else go rest (off + w)
  go l 0

/-! ### layout offsets used by `FvHeaderOk`, `FileHeaderOk`, `SecHeaderOk`, `GuidDefOk`, `DescF` -/

theorem tie_fv_offsets :
    let l := Gen.Uefi.layout_FirmwareVolumeFixedHeader
    fieldAt l "FileSystemGUID" = some (16, 16) ∧ fieldAt l "Length" = some (32, 8) ∧
    fieldAt l "Signature" = some (40, 4) ∧ fieldAt l "Attributes" = some (44, 4) ∧
    fieldAt l "HeaderLen" = some (48, 2) ∧ fieldAt l "Checksum" = some (50, 2) ∧
    fieldAt l "ExtHeaderOffset" = some (52, 2) ∧ fieldAt l "Reserved" = some (54, 1) ∧
    fieldAt l "Revision" = some (55, 1) ∧
    Gen.Uefi.FirmwareVolumeFixedHeaderSize = 56 ∧     -- the block map starts here
    fieldAt Gen.Uefi.layout_Block "Count" = some (0, 4) ∧ fieldAt Gen.Uefi.layout_Block "Size" = some (4, 4) ∧
    fieldAt Gen.Uefi.layout_FirmwareVolumeExtHeader "FVName" = some (0, 16) ∧
    fieldAt Gen.Uefi.layout_FirmwareVolumeExtHeader "ExtHeaderSize" = some (16, 4) := by decide

theorem tie_file_offsets :
    let l := Gen.Uefi.layout_FileHeader
    fieldAt l "GUID" = some (0, 16) ∧ fieldAt l "Checksum" = some (16, 2) ∧
    fieldAt Gen.Uefi.layout_IntegrityCheck "Header" = some (0, 1) ∧
    fieldAt Gen.Uefi.layout_IntegrityCheck "File" = some (1, 1) ∧
    fieldAt l "Type" = some (18, 1) ∧ fieldAt l "Attributes" = some (19, 1) ∧ fieldAt l "Size" = some (20, 3) ∧
    fieldAt l "State" = some (23, 1) ∧
    fieldAt Gen.Uefi.layout_FileHeaderExtended "ExtendedSize" = some (24, 8) ∧
    Gen.Uefi.FileHeaderMinLength = 24 ∧ Gen.Uefi.FileHeaderExtMinLength = 32 := by decide

theorem tie_section_offsets :
    fieldAt Gen.Uefi.layout_SectionHeader "Size" = some (0, 3) ∧
    fieldAt Gen.Uefi.layout_SectionHeader "Type" = some (3, 1) ∧
    fieldAt Gen.Uefi.layout_SectionExtHeader "ExtendedSize" = some (4, 4) ∧
    fieldAt Gen.Uefi.layout_SectionGUIDDefinedHeader "GUID" = some (0, 16) ∧
    fieldAt Gen.Uefi.layout_SectionGUIDDefinedHeader "DataOffset" = some (16, 2) ∧
    fieldAt Gen.Uefi.layout_SectionGUIDDefinedHeader "Attributes" = some (18, 2) := by decide

theorem tie_descriptor_offsets :
    fieldAt Gen.Uefi.layout_FlashRegionSection "FlashBlockEraseSize" = some (2, 2) ∧
    fieldAt Gen.Uefi.layout_FlashRegionSection "FlashRegions" = some (4, 60) ∧
    fieldAt Gen.Uefi.layout_FlashRegion "Base" = some (0, 2) ∧ fieldAt Gen.Uefi.layout_FlashRegion "Limit" = some (2, 2) ∧
    fieldAt Gen.Uefi.layout_FlashDescriptorMap "RegionBase" = some (2, 1) ∧
    fieldAt Gen.Uefi.layout_FlashDescriptorMap "NumberOfRegions" = some (3, 1) ∧
    fieldAt Gen.Uefi.layout_FlashDescriptorMap "MasterBase" = some (4, 1) ∧
    fieldAt Gen.Uefi.layout_RegionPermissions "ID" = some (0, 2) ∧
    fieldAt Gen.Uefi.layout_RegionPermissions "Read" = some (2, 1) ∧
    fieldAt Gen.Uefi.layout_RegionPermissions "Write" = some (3, 1) ∧
    Gen.Uefi.FlashDescriptorLength = 4096 ∧ Gen.Uefi.RegionBlockSize = 4096 := by decide

/-! ### shape of the constructors -/

/-- three `data[:fv.Length]` (aliasing branch, copy branch, **the clip of the file walk**),
    `data[ExtHeaderOffset:]`, `data[offset:]` -/
theorem tie_shape_NewFirmwareVolume :
    Gen.UefiParse.sliceshapes_NewFirmwareVolume = ["[:h]", "[:h]", "[:h]", "[l:]", "[l:]"] ∧
    Gen.UefiParse.cmpops_NewFirmwareVolume =
      ["!= 0", "<", "<=", "<=", "<=", "== 0", "== 0", "== 0", ">", ">", ">="] ∧
    Gen.UefiParse.callcount_NewFirmwareVolume_Align8 = 2 ∧
    Gen.UefiParse.callcount_NewFirmwareVolume_NewFile = 1 := by decide

theorem tie_shape_NewFile :
    Gen.UefiParse.sliceshapes_NewFile = ["[:h]", "[:h]", "[:h]", "[l:]", "[l:]"] ∧
    Gen.UefiParse.cmpops_NewFile = ["<", "==", "==", "==", "== 0", "== 18446744073709551615", ">", ">="] ∧
    Gen.UefiParse.callcount_NewFile_Align4 = 1 ∧ Gen.UefiParse.callcount_NewFile_NewSection = 1 := by decide

theorem tie_shape_NewSection :
    Gen.UefiParse.sliceshapes_NewSection =
      ["[:h]", "[:h]", "[l:]", "[l:]", "[l:]", "[l:]", "[l:]", "[l:]", "[l:h]"] ∧
    Gen.UefiParse.cmpops_NewSection =
      ["!= 0", "<", "<=", "<=", "<=", "<=", "==", "== 0", "== 4294967295", ">", ">", ">"] ∧
    Gen.UefiParse.callcount_NewSection_Align4 = 1 := by decide

theorem tie_shape_NewBIOSRegion :
    Gen.UefiParse.sliceshapes_NewBIOSRegion = ["[:h]", "[l:]", "[l:]"] ∧
    Gen.UefiParse.cmpops_NewBIOSRegion = ["!= 0", "< 0", "== 0", "> 0"] ∧
    Gen.UefiParse.callcount_NewBIOSRegion_NewFirmwareVolume = 1 ∧
    Gen.UefiParse.callcount_NewBIOSRegion_NewBIOSPadding = 2 := by decide

theorem tie_shape_NewFlashImage :
    Gen.UefiParse.sliceshapes_NewFlashImage = ["[:]", "[:h]", "[l:h]"] ∧
    Gen.UefiParse.cmpops_NewFlashImage = ["!= 0", "<", "<", ">", ">=", ">="] ∧
    Gen.UefiParse.sliceshapes_FlashImage_fillRegionGaps = ["[l:h]", "[l:h]"] ∧
    Gen.UefiParse.cmpops_FlashImage_fillRegionGaps = ["!=", "<", ">"] := by decide

theorem tie_shape_descriptor :
    Gen.UefiParse.sliceshapes_FlashDescriptor_ParseFlashDescriptor = ["[l:]", "[l:h]", "[l:h]"] ∧
    Gen.UefiParse.cmpops_FlashDescriptor_ParseFlashDescriptor = ["!=", ">=", ">="] ∧
    Gen.UefiParse.sliceshapes_FindSignature = ["[:h]", "[:h]", "[l:h]"] ∧
    Gen.UefiParse.cmpops_FindSignature = ["<", "< 20", ">="] := by decide

/-- the volume scan: starts at 32, one `data[offset:offset+4]` probe -/
theorem tie_shape_FindFirmwareVolumeOffset :
    Gen.UefiParse.sliceshapes_FindFirmwareVolumeOffset = ["[l:h]"] ∧
    Gen.UefiParse.cmpops_FindFirmwareVolumeOffset = ["<", "< 32"] := by decide

/-! ### follow-up wp-c04b: ME partition table -/

theorem tie_me_consts :
    Me.descMin = Gen.UefiParse.MEPartitionDescriptorMinLength ∧ Me.entryLen = Gen.UefiParse.MEPartitionTableEntryLength ∧
    Me.fptSig = bytesOf Gen.UefiParse.MEFPTSignature ∧ Gen.UefiParse.size_MEPartitionEntry = Me.entryLen := by decide

/-- the literals of `Me.newFPT` (`o + 28`, `32 * cnt`) are the two constants -/
theorem tie_me_literals : Me.descMin = 28 ∧ Me.entryLen = 32 := by decide

/-- the field offsets `Me.EntryAt` / `Me.decodeEntry` use are the packed layout of `MEPartitionEntry` -/
theorem tie_me_entry_offsets :
    ["Name", "Owner", "Offset", "Length", "Reserved", "Flags"].map (fieldAt Gen.UefiParse.layout_MEPartitionEntry) =
      [some (0, 4), some (4, 4), some (8, 4), some (12, 4), some (16, 12), some (28, 4)] := by decide

/-- `NewMEFPT`: reads the count from `buf[o:]`, copies `buf[:l]`, two length checks; `parsePartitions`
    reads from `fp.buf[PartitionMapStart:]`; `NewMERegion` compares ends with `>`; the signature search is
    `bytes.Index … >= 0` -/
theorem tie_shape_me :
    Gen.UefiParse.sliceshapes_NewMEFPT = ["[:h]", "[l:]"] ∧ Gen.UefiParse.cmpops_NewMEFPT = ["<", "<"] ∧
    Gen.UefiParse.sliceshapes_MEFPT_parsePartitions = ["[l:]"] ∧ Gen.UefiParse.cmpops_MEFPT_parsePartitions = [] ∧
    Gen.UefiParse.sliceshapes_NewMERegion = [] ∧ Gen.UefiParse.cmpops_NewMERegion = [">"] ∧
    Gen.UefiParse.sliceshapes_FindMEDescriptor = [] ∧ Gen.UefiParse.cmpops_FindMEDescriptor = [">= 0"] ∧
    Gen.UefiParse.callcount_NewMERegion_NewMEFPT = 1 ∧ Gen.UefiParse.callcount_NewMEFPT_FindMEDescriptor = 1 ∧
    Gen.UefiParse.callcount_NewMEFPT_parsePartitions = 1 := by decide

/-! ### follow-up wp-c04b: NVAR store (the model is C10's; here: how the UEFI parser reaches it) -/

/-- `NewFile` parses the store once, from `f.buf[f.DataOffset:]`; the walk hands `newNVar` the window
    `s.buf[FreeSpaceOffset:GUIDStoreOffset]`, runs while `FreeSpaceOffset < GUIDStoreOffset` and refuses an entry that
    ends behind the table it grew (`FreeSpaceOffset > GUIDStoreOffset`, fixes/C04-nvar-table-overlap.diff); `newNVar`
    clips the entry to `buf[:Size]` and looks for a nested store in `v.buf[v.DataOffset:]`, once, and only when
    the ExtHeader attribute is clear (`Attributes&NVarEntryExtHeader == 0`, fixes/C10-nested-ext-header.diff) -/
theorem tie_shape_nvar :
    Gen.UefiParse.callcount_NewFile_NewNVarStore = 1 ∧
    Gen.UefiParse.sliceshapes_NewNVarStore = ["[l:h]"] ∧ Gen.UefiParse.cmpops_NewNVarStore = ["<", ">"] ∧
    Gen.UefiParse.callcount_NewNVarStore_newNVar = 1 ∧
    Gen.UefiParse.sliceshapes_newNVar = ["[:h]", "[l:]"] ∧ Gen.UefiParse.cmpops_newNVar = ["== 0"] ∧
    Gen.UefiParse.callcount_newNVar_parseContent = 1 ∧ Gen.UefiParse.callcount_NVar_parseContent_NewNVarStore = 1 := by decide

/-! ### follow-up wp-c04b: writes to byte slices inside the parser -/

/-- a write record is harmless when it goes into a buffer the function allocated itself -/
def writeIsFresh (w : String) : Bool := w == "copy field fresh none" || w == "copy field fresh notro"

/-- **every write to a byte slice inside the closure of `uefi.Parse` is a `copy` into a freshly allocated
    buffer**: no indexed assignment, no `append` onto an existing slice, no `PutUintNN`, no `Erase`, no
    read-into, nothing written through a parameter or an aliasing field -/
theorem tie_writes_all_fresh : Gen.UefiWrites.bytewrites_closure_Parse.all writeIsFresh = true := by decide

/-- the inventory itself: twelve copies; the four under `else` of `if ReadOnly` are the copy-mode
    buffers of the four constructors that alias in read-only mode -/
theorem tie_writes_closure :
    Gen.UefiWrites.bytewrites_closure_Parse =
      List.replicate 8 "copy field fresh none" ++ List.replicate 4 "copy field fresh notro" := by decide

/-- the constructors that switch on `ReadOnly` (BIOS region, volume, file, section): exactly one write
    each, the copy into the buffer made in the else-branch of `if ReadOnly` -/
theorem tie_writes_switching_constructors :
    Gen.UefiWrites.bytewrites_NewBIOSRegion = ["copy field fresh notro"] ∧
    Gen.UefiWrites.bytewrites_NewFirmwareVolume = ["copy field fresh notro"] ∧
    Gen.UefiWrites.bytewrites_NewFile = ["copy field fresh notro"] ∧
    Gen.UefiWrites.bytewrites_NewSection = ["copy field fresh notro"] := by decide

/-- the constructors that always copy (flash image + descriptor, ME region and table, raw region, NVAR
    store, NVAR entry, the hash of an extended header): unguarded copies into fresh buffers, nothing
    else; padding nodes, the descriptor parser and the GUID-table reader write nothing -/
theorem tie_writes_copying_constructors :
    Gen.UefiWrites.bytewrites_NewFlashImage = ["copy field fresh none", "copy field fresh none"] ∧
    Gen.UefiWrites.bytewrites_NewMERegion = ["copy field fresh none"] ∧
    Gen.UefiWrites.bytewrites_NewMEFPT = ["copy field fresh none"] ∧
    Gen.UefiWrites.bytewrites_NewRawRegion = ["copy field fresh none"] ∧
    Gen.UefiWrites.bytewrites_NewNVarStore = ["copy field fresh none"] ∧
    Gen.UefiWrites.bytewrites_newNVar = ["copy field fresh none"] ∧
    Gen.UefiWrites.bytewrites_NVar_parseExtendedHeader = ["copy field fresh none"] ∧
    Gen.UefiWrites.bytewrites_NewBIOSPadding = [] ∧
    Gen.UefiWrites.bytewrites_FlashDescriptor_ParseFlashDescriptor = [] ∧
    Gen.UefiWrites.bytewrites_NVarStore_getGUIDFromStore = [] := by decide

end Fiano.Uefi.TieC04
