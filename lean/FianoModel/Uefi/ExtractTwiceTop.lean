/-
  UEFI core model — saving is a fixed point in memory: BIOS region and whole tree (follow-up wp-c07b).

  `asmTwice_eq_asmWith_bios`: for a tree without flash descriptor (bare BIOS region, single volume) the
  two `Assemble` passes of `utk DIR save` write what the single pass of `utk IMAGE save` writes —
  errors included — given `okTree` and the side condition `savedOk` on what the first pass wrote
  (Uefi/ExtractTwiceMain.lean `fxFv`).
-/
import FianoModel.Uefi.ExtractTwiceMain

namespace Fiano.Uefi
open Fiano

theorem St.ext' (a b : St) (h1 : a.pol = b.pol) (h2 : a.ffs3 = b.ffs3) : a = b := by
  cases a; cases b; simp_all

/-- a volume assembled from a state whose polarity is not yet set -/
theorem asmFv_idem_any (h : Hooks) (v : Fv) (st : St) (v1 : Fv) (st1 : St)
    (hok : okFv v = true) (ha : asmFv h v st = .ok (v1, st1)) (hfx : fxFv v1 = true) :
    st1.pol ≠ 0xF0 ∧ (st.pol ≠ 0xF0 → st1.pol = st.pol) ∧
      ∀ st', st'.ffs3 = st.ffs3 → st'.pol = st1.pol → asmFv h v1 st' = .ok (v1, st1) := by
  by_cases hp : st.pol = 0xF0
  · obtain ⟨p, f⟩ := st
    simp only at hp
    subst hp
    rw [asmFv_pol] at ha
    have hset : ({ pol := polOfAttrs v.info.attrs, ffs3 := f } : St).pol ≠ 0xF0 := by
      simp only []
      rcases polOfAttrs_cases v.info.attrs with hc | hc <;> rw [hc] <;> decide
    obtain ⟨a1, a2⟩ := asmFv_idem h v _ v1 st1 hok hset ha hfx
    refine ⟨by rw [a1]; exact hset, fun hc => absurd rfl hc, ?_⟩
    intro st' h1 h2
    have : st' = { pol := polOfAttrs v.info.attrs, ffs3 := f } := St.ext' _ _ (by rw [h2, a1]) h1
    rw [this]
    exact a2
  · obtain ⟨a1, a2⟩ := asmFv_idem h v st v1 st1 hok hp ha hfx
    refine ⟨by rw [a1]; exact hp, fun _ => a1, ?_⟩
    intro st' h1 h2
    have : st' = st := St.ext' _ _ (by rw [h2, a1]) h1
    rw [this]
    exact a2

theorem asmBiosElems_idem (h : Hooks) : ∀ (es : List BiosElem) (st : St) (es1 : List BiosElem) (st1 : St),
    okBiosElems es = true → asmBiosElems h es st = .ok (es1, st1) → fxBiosElems es1 = true →
    (st.pol ≠ 0xF0 → st1.pol = st.pol) ∧ (firstFv es1 ≠ none → st1.pol ≠ 0xF0) ∧
      ∀ st', st'.ffs3 = st.ffs3 → st'.pol = st1.pol → asmBiosElems h es1 st' = .ok (es1, st1)
  | [], st, es1, st1, _, ha, _ => by
    simp only [asmBiosElems, Except.ok.injEq, Prod.mk.injEq] at ha
    obtain ⟨rfl, rfl⟩ := ha
    refine ⟨fun _ => rfl, fun hc => absurd rfl hc, ?_⟩
    intro st' h1 h2
    rw [St.ext' st' st h2 h1]
    rfl
  | .pad b o :: t, st, es1, st1, hok, ha, hfx => by
    simp only [okBiosElems] at hok
    rw [asmBiosElems] at ha
    cases h2 : asmBiosElems h t st with
    | error x => rw [h2] at ha; cases ha
    | ok q =>
      obtain ⟨t', stb⟩ := q
      rw [h2] at ha
      simp only [Except.ok.injEq, Prod.mk.injEq] at ha
      obtain ⟨rfl, rfl⟩ := ha
      simp only [fxBiosElems] at hfx
      obtain ⟨b1, b2, b3⟩ := asmBiosElems_idem h t st t' stb hok h2 hfx
      refine ⟨b1, by simpa [firstFv] using b2, ?_⟩
      intro st' e1 e2
      rw [asmBiosElems, b3 st' e1 e2]
  | .fv v :: t, st, es1, st1, hok, ha, hfx => by
    simp only [okBiosElems, Bool.and_eq_true] at hok
    rw [asmBiosElems] at ha
    cases h1 : asmFv h v st with
    | error x => rw [h1] at ha; cases ha
    | ok p =>
      obtain ⟨v', sta⟩ := p
      rw [h1] at ha
      simp only [] at ha
      cases h2 : asmBiosElems h t sta with
      | error x => rw [h2] at ha; cases ha
      | ok q =>
        obtain ⟨t', stb⟩ := q
        rw [h2] at ha
        simp only [Except.ok.injEq, Prod.mk.injEq] at ha
        obtain ⟨rfl, rfl⟩ := ha
        simp only [fxBiosElems, Bool.and_eq_true] at hfx
        obtain ⟨a0, a1, a2⟩ := asmFv_idem_any h v st v' sta hok.1 h1 hfx.1
        obtain ⟨b1, _, b3⟩ := asmBiosElems_idem h t sta t' stb hok.2 h2 hfx.2
        have hb1 := b1 a0
        refine ⟨fun hp => by rw [hb1, a1 hp], fun _ => by rw [hb1]; exact a0, ?_⟩
        intro st' e1 e2
        rw [asmBiosElems, a2 st' e1 (by rw [e2, hb1])]
        simp only []
        rw [b3 sta rfl hb1.symm]

theorem asmBios_idem (h : Hooks) (b : BiosRegion) (st : St) (b1 : BiosRegion) (st1 : St)
    (hok : okBiosElems b.elems = true) (ha : asmBios h b st = .ok (b1, st1)) (hfx : fxBiosElems b1.elems = true) :
    st1.pol ≠ 0xF0 ∧ (st.pol ≠ 0xF0 → st1.pol = st.pol) ∧
      ∀ st', st'.ffs3 = st.ffs3 → st'.pol = st1.pol → asmBios h b1 st' = .ok (b1, st1) := by
  unfold asmBios at ha
  cases h1 : asmBiosElems h b.elems st with
  | error x => rw [h1] at ha; cases ha
  | ok p =>
    obtain ⟨es1, sta⟩ := p
    rw [h1] at ha
    simp only [] at ha
    cases hf : firstFv es1 with
    | none => rw [hf] at ha; cases ha
    | some v =>
      rw [hf] at ha
      simp only [] at ha
      cases hs : setPolarity (polOfAttrs v.info.attrs) sta with
      | error x => rw [hs] at ha; cases ha
      | ok stb =>
        rw [hs] at ha
        simp only [] at ha
        by_cases hl : ((es1.map BiosElem.buf).flatten).length > b.length
        · rw [if_pos hl] at ha; cases ha
        rw [if_neg hl] at ha
        simp only [Except.ok.injEq, Prod.mk.injEq] at ha
        obtain ⟨rfl, rfl⟩ := ha
        simp only [] at hfx
        obtain ⟨b1', b2, b3⟩ := asmBiosElems_idem h b.elems st es1 sta hok h1 hfx
        have hset : sta.pol ≠ 0xF0 := b2 (by rw [hf]; exact fun hc => by cases hc)
        have hsb := tw_setPolarity_set _ _ _ hset hs
        subst hsb
        refine ⟨hset, b1', ?_⟩
        intro st' e1 e2
        unfold asmBios
        simp only []
        rw [b3 st' e1 e2]
        simp only [hf, hs]
        rw [if_neg hl]

/-- **save is a fixed point in memory** (image without flash descriptor): the second `Assemble` pass
    (`Save` after `Assemble.Run`) leaves the root buffer as the first pass wrote it -/
theorem asmTwice_eq_asmWith_bios (h : Hooks) (b : BiosRegion) (st : St) (hok : okTree (.bios b) = true)
    (hs : savedOk h (.bios b) st = true) : asmTwice h (.bios b) st = asmWith h (.bios b) st := by
  unfold asmTwice asmWith
  unfold savedOk at hs
  cases h1 : asmTreeWith h (.bios b) { st with ffs3 := false } with
  | error e => rfl
  | ok p =>
    obtain ⟨t1, st1⟩ := p
    rw [h1] at hs
    simp only [] at hs ⊢
    simp only [asmTreeWith] at h1
    cases hb : asmBios h b { st with ffs3 := false } with
    | error e => rw [hb] at h1; cases h1
    | ok q =>
      obtain ⟨b1, stq⟩ := q
      rw [hb] at h1
      simp only [Except.ok.injEq, Prod.mk.injEq] at h1
      obtain ⟨rfl, rfl⟩ := h1
      simp only [fxTree] at hs
      simp only [okTree] at hok
      obtain ⟨_, _, hid⟩ := asmBios_idem h b _ b1 stq hok hb hs
      simp only [asmTreeWith]
      rw [hid { stq with ffs3 := false } rfl rfl]

end Fiano.Uefi
