/-
  Property C06 — whole images of the extended grammar (follow-up wp-c06c).

  The outer layers of C01's reference grammar (`Spec.BiosI / RegI / FlashI / Img`: a BIOS region =
  (padding, volume)* tail, a flash image = 4 KiB descriptor + regions in flash order) with the volumes
  of the *extended* grammar `CFv` (compressed sections, NestedSpec.lean) in the BIOS region:

    CBios  = (padding, CFv)* tail
    CFlash = descriptor + regions before the BIOS region + BIOS region (CBios) + regions after it
             (the other regions are C01's `RegI`: ME, raw, gaps — they hold no volumes)
    CImg   = flash CFlash | bios CBios

  `flat*` maps into C01's types (every compressed section written as the GUID-defined section
  around its stored payload), so serialisation, sizes, the descriptor decoding and the region-table
  conditions of Spec.lean are reused verbatim; `tree*C` is the tree a faithful parser reports
  (`Nested.treeFv` in the volumes); `wf*C` = C01's conditions with `Nested.wfFv h` for the volumes;
  `normImg h` = what a save turns the image into (every top-level volume replaced by its normal form
  `normFv h`; paddings, tail, descriptor and the other regions kept); `okImg h` = every top-level
  volume can be rebuilt in place (`okFv h false`: a top-level volume cannot grow).

  Core Lean only.
-/
import FianoModel.Uefi.NestedNorm
import FianoModel.Uefi.NestedDec

namespace Fiano.Uefi.Nested
open Fiano Fiano.Uefi Fiano.Uefi.Spec

structure CBios where
  items : List (Bytes × CFv)
  tail  : Bytes

structure CFlash where
  desc : Bytes                       -- the 4 KiB descriptor, verbatim
  pre  : List RegI                   -- the regions in front of the BIOS region, in flash order
  bios : CBios                       -- the BIOS region (region-table entry 0)
  post : List RegI                   -- the regions behind it

inductive CImg where
  | flash (f : CFlash)
  | bios (b : CBios)

/-! ### flattening into C01's grammar: what is written -/

def flatItems : List (Bytes × CFv) → List (Bytes × FvI)
  | [] => []
  | (p, v) :: is => (p, flatFv v) :: flatItems is

def flatBios (b : CBios) : BiosI := ⟨flatItems b.items, b.tail⟩

def flatFlash (f : CFlash) : FlashI := ⟨f.desc, f.pre ++ RegI.bios (flatBios f.bios) :: f.post⟩

def flatImg : CImg → Img
  | .flash f => .flash (flatFlash f)
  | .bios b => .bios (flatBios b)

/-- the bytes of a BIOS region -/
def serBiosC (b : CBios) : Bytes := serBios (flatBios b)

/-- the bytes of an image -/
def serImg (i : CImg) : Bytes := Spec.ser (flatImg i)

/-! ### the tree a faithful parser reports -/

def treeItemsC : List (Bytes × CFv) → Nat → List BiosElem
  | [], _ => []
  | (p, v) :: is, off =>
    (if p.length ≠ 0 then [BiosElem.pad p off] else []) ++
      .fv (treeFv v (off + p.length) false) :: treeItemsC is (off + p.length + sizeFv (flatFv v))

def treeBiosC (b : CBios) (fr : Option FlashRegion) : BiosRegion :=
  { elems := treeItemsC b.items 0 ++
      (if b.tail.length ≠ 0 then [BiosElem.pad b.tail (sizeItems (flatItems b.items))] else []),
    buf := serBiosC b, length := (serBiosC b).length, fr := fr }

/-- `Spec.treeRegs` (regions in flash order, starting at block `blk`) with the node of a BIOS region
    given by `tb` -/
def treeRegsG (tb : BiosI → Option FlashRegion → BiosRegion) (tbl : List FlashRegion) : List RegI → Nat → List Region
  | [], _ => []
  | r :: rs, blk =>
    let n := r.data.length / 4096
    let fr : FlashRegion := ⟨blk, blk + n - 1⟩
    (match r with
      | .bios b => Region.bios (tb b (some (tbl.getD 0 fr)))
      | .me d => Region.me d (tbl.getD 1 fr)
      | .raw i d => Region.raw d (tbl.getD i fr) i
      | .gap d => Region.raw d fr (-1)) :: treeRegsG tb tbl rs (blk + n)

def treeImg : CImg → Tree
  | .flash f =>
    let d := treeDesc f.desc
    .flash { buf := serImg (.flash f), ifd := d,
             regions := treeRegsG (fun _ fr => treeBiosC f.bios fr) d.region.regions (flatFlash f).regions 1,
             flashSize := (serImg (.flash f)).length }
  | .bios b => .bios (treeBiosC b none)

/-! ### recursion budget -/

def costItemsC : List (Bytes × CFv) → Nat
  | [] => 1
  | (_, v) :: is => 1 + costFv v + costItemsC is

/-- the budget the parser needs for the image: one unit per volume-scan step plus what the volumes
    need (`costFv`: decoded content counts, so this is not bounded by the image length) -/
def costImg : CImg → Nat
  | .flash f => costItemsC f.bios.items
  | .bios b => costItemsC b.items

/-! ### well-formedness -/

/-- every volume is well formed in the extended grammar, and the volume scan finds each volume
    exactly at the end of the padding before it (C01's `wfItems`) -/
def wfItemsC (h : Hooks) : List (Bytes × CFv) → Bytes → Bool
  | [], _ => true
  | (p, v) :: is, tail =>
    wfFv h v && findFvOffset (serItems (flatItems ((p, v) :: is)) ++ tail) == some p.length && wfItemsC h is tail

def wfBiosC (h : Hooks) (b : CBios) : Bool :=
  !b.items.isEmpty && wfItemsC h b.items b.tail && findFvOffset b.tail == none

/-- C01's `Spec.wfFlash` without its clause "every BIOS region is well formed": the descriptor, the
    region table and the tiling of the flash by the regions -/
def skelFlash (g : FlashI) : Bool :=
  let d := treeDesc g.desc
  let total := 4096 + (serRegs g.regions).length
  g.desc.length == 4096 && (findSignature g.desc).isSome &&
    d.regionStart + 64 < 4096 &&
    ((d.region.regions.head?.map (·.valid)).getD false) &&
    total / 4096 < 65536 &&
    noAdjacentGaps g.regions &&
    matchRegs g.regions 1 (sortEntries (selectEntries d.map.numberOfRegions total d.region.regions 0))

def noBios (rs : List RegI) : Bool := rs.all (fun r => !r.isBios)

/-- C01's `wfFlash` with the volumes of the extended grammar: every clause about the descriptor,
    the region table and the tiling is the one of Spec.lean, evaluated on the flattened image; the
    BIOS region is well formed in the extended grammar -/
def wfFlashC (h : Hooks) (f : CFlash) : Bool :=
  skelFlash (flatFlash f) && wfBiosC h f.bios && noBios f.pre && noBios f.post

def wfImgB (h : Hooks) : CImg → Bool
  | .flash f => wfFlashC h f
  | .bios b => wfBiosC h b && (findSignature (serBiosC b)).isNone

/-- a well-formed image of the extended grammar -/
def WFI (h : Hooks) (i : CImg) : Prop := wfImgB h i = true

instance (h : Hooks) (i : CImg) : Decidable (WFI h i) := by unfold WFI; infer_instance

/-! ### what a save turns an image into; when the rebuild goes through -/

def normItems (h : Hooks) : List (Bytes × CFv) → List (Bytes × CFv)
  | [] => []
  | (p, v) :: is => (p, normFv h v) :: normItems h is

def normBios (h : Hooks) (b : CBios) : CBios := ⟨normItems h b.items, b.tail⟩

/-- **the normal form of an image**: every top-level volume replaced by its normal form; paddings,
    region tails, the descriptor and all other regions are kept -/
def normImg (h : Hooks) : CImg → CImg
  | .flash f => .flash { f with bios := normBios h f.bios }
  | .bios b => .bios (normBios h b)

/-- every top-level volume can be rebuilt inside its length (`rz = false`) -/
def okItems (h : Hooks) : List (Bytes × CFv) → Bool
  | [] => true
  | (_, v) :: is => okFv h false v && okItems h is

def okImg (h : Hooks) : CImg → Bool
  | .flash f => okItems h f.bios.items
  | .bios b => okItems h b.items

/-- every volume of the image is canonical (what a save has written) -/
def canonItems (h : Hooks) : List (Bytes × CFv) → Bool
  | [] => true
  | (_, v) :: is => canonFv h v && canonItems h is

def canonImg (h : Hooks) : CImg → Bool
  | .flash f => canonItems h f.bios.items
  | .bios b => canonItems h b.items

/-! ### the operations the whole-image theorems speak about -/

/-- `uefi.Parse(x)` in a fresh process followed by `visitors.Save` in the same process — `Uefi.save`
    with an explicit recursion budget (the default budget `len + 8` of `Uefi.save` suffices only when
    nothing is decompressed) -/
def saveImg (h : Hooks) (fuel : Nat) (x : Bytes) : Except Err Bytes :=
  match parseWith h fuel x {} with
  | .error e => .error e
  | .ok (t, st) => asmWith h t st

/-- the fully decoded tree of the image `x` -/
def decImg (h : Hooks) (fuel : Nat) (x : Bytes) : Except Err Dec :=
  match parseWith h fuel x {} with
  | .error e => .error e
  | .ok (t, _) => .ok (decTree t)

end Fiano.Uefi.Nested
