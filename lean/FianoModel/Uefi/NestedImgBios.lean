/-
  Property C06, whole images (follow-up wp-c06c) — the BIOS-region layer for any hooks:
  the volume scan of `NewBIOSRegion` over volumes of the extended grammar, the BIOSRegion case of
  `Assemble`, and the bare-BIOS-region image.  Mirrors Lemmas/Bios.lean / Lemmas/Top.lean of C01
  (which are for `Hooks.none` and the codec-free grammar).
-/
import FianoModel.Uefi.NestedImgSpec
import FianoModel.Uefi.NestedWf
import FianoModel.Uefi.Lemmas.Final

namespace Fiano.Uefi.Nested
open Fiano Fiano.Uefi Fiano.Uefi.Spec

variable {h : Hooks}

/-! ### small facts -/

theorem wfItemsC_cons {p : Bytes} {v : CFv} {is : List (Bytes × CFv)} {tail : Bytes}
    (hw : wfItemsC h ((p, v) :: is) tail = true) :
    wfFv h v = true ∧ findFvOffset (serItems (flatItems ((p, v) :: is)) ++ tail) = some p.length ∧
      wfItemsC h is tail = true := by
  simpa [wfItemsC, and_assoc] using hw

theorem length_serItemsC : ∀ (is : List (Bytes × CFv)) (tail : Bytes), wfItemsC h is tail = true →
    (serItems (flatItems is)).length = sizeItems (flatItems is)
  | [], _, _ => rfl
  | (p, v) :: is, tail, hw => by
    obtain ⟨hv, _, hr⟩ := wfItemsC_cons hw
    simp [flatItems, serItems, sizeItems, length_serFv v hv, length_serItemsC is tail hr, Nat.add_assoc]

theorem treeFvC_length (v : CFv) (off : Nat) (rz : Bool) : (treeFv v off rz).info.length = sizeFv (flatFv v) := by
  cases v with
  | ffs zv v3 attrs rev rsv blocks ext files free => simp only [treeFv, Spec.treeFv, Fv.info, flatFv, sizeFv]
  | other v => simp only [treeFv, flatFv]; exact Uefi.treeFv_length v off rz

theorem treeFvC_attrs_pol (v : CFv) (hw : wfFv h v = true) (off : Nat) (rz : Bool) :
    (treeFv v off rz).info.attrs &&& 0x800 ≠ 0 := by
  cases v with
  | ffs zv v3 attrs rev rsv blocks ext files free =>
    have := (wfFv_ffs hw).1.hpol
    simpa only [treeFv, Spec.treeFv, Fv.info] using this
  | other v =>
    simp only [wfFv, Bool.and_eq_true] at hw
    cases v with
    | ffs zv v3 attrs rev rsv blocks ext files free => simp [isOtherFv] at hw
    | other zv g attrs rev rsv blocks body =>
      have := (wfFv_other hw.1).hpol
      simpa only [treeFv, Spec.treeFv, Fv.info] using this

/-- a top-level volume keeps its length in the normal form -/
theorem size_norm_top (v : CFv) (hok : okFv h false v = true) :
    sizeFv (flatFv (normFv h v)) = sizeFv (flatFv v) := by
  cases v with
  | other v => rfl
  | ffs zv v3 attrs rev rsv blocks ext files free =>
    simp only [okFv, Bool.and_eq_true, Bool.or_eq_true, decide_eq_true_eq, Bool.false_and, Bool.false_eq_true,
      or_false] at hok
    have hle := hok.2
    have hfin := finishLen_keep _ _ blocks hle
    simp only [normFv, flatFv, sizeFv, hfin]
    omega

theorem sizeItems_norm : ∀ (is : List (Bytes × CFv)), okItems h is = true →
    sizeItems (flatItems (normItems h is)) = sizeItems (flatItems is)
  | [], _ => rfl
  | (p, v) :: is, hok => by
    simp only [okItems, Bool.and_eq_true] at hok
    simp only [normItems, flatItems, sizeItems, size_norm_top v hok.1, sizeItems_norm is hok.2]

/-- `asmFv` never touches the attribute word of the volume -/
theorem finishFv_attrs (i : FvInfo) (fbuf : Bytes) (st : St) (i' : FvInfo) (out : Bytes) (st' : St)
    (hh : finishFv i fbuf st = .ok (i', out, st')) : i'.attrs = i.attrs := by
  unfold finishFv at hh
  by_cases hc : i.length < fbuf.length ∧ ¬ i.resizable = true
  · rw [if_pos hc] at hh; cases hh
  · rw [if_neg hc] at hh
    simp only at hh
    split at hh
    · cases hh
    · split at hh
      · cases hh
      · split at hh
        · cases hh
        · cases hh; rfl

theorem relayoutFv_attrs (i : FvInfo) (buf : Bytes) (files : List File) (st : St) (i' : FvInfo) (out : Bytes) (st' : St)
    (hh : relayoutFv i buf files st = .ok (i', out, st')) : i'.attrs = i.attrs := by
  unfold relayoutFv at hh
  split at hh
  · cases hh
  split at hh
  · cases hh
  split at hh
  · cases hh
  split at hh
  · cases hh
  exact finishFv_attrs _ _ _ _ _ _ hh

theorem asmFv_attrs (h : Hooks) (v : Fv) (st : St) (v' : Fv) (st' : St) (hh : asmFv h v st = .ok (v', st')) :
    v'.info.attrs = v.info.attrs := by
  obtain ⟨i, buf, files⟩ := v
  rw [asmFv] at hh
  split at hh
  · cases hh
  split at hh
  · cases hh
  split at hh
  · cases hh; rfl
  · split at hh
    · cases hh
    rename_i i' b' st2 h2
    cases hh
    exact relayoutFv_attrs _ _ _ _ _ _ _ h2

/-! ### the volume scan -/

/-- **the volume scan**: `NewBIOSRegion`'s loop on the serialised elements, any hooks -/
theorem parse_itemsC (hk : HooksOK h) : ∀ (is : List (Bytes × CFv)) (tail : Bytes), wfItemsC h is tail = true →
    findFvOffset tail = none →
    ∀ (fuel off : Nat) (st : St), costItemsC is ≤ fuel → (st.pol = 0xFF ∨ st.pol = 0xF0) →
    parseBiosElems h fuel (serItems (flatItems is) ++ tail) off st =
      .ok (treeItemsC is off ++ tailElems tail (off + sizeItems (flatItems is)),
           if is.isEmpty then st else { st with pol := 0xFF })
  | [], tail, _, ht, fuel, off, st, hf, _ => by
    obtain ⟨f, rfl, _⟩ := fuel_succ hf (by simp only [costItemsC]; omega)
    simp only [flatItems, serItems, List.nil_append, treeItemsC, sizeItems, Nat.add_zero, List.isEmpty_nil, if_true]
    rw [parseBiosElems, ht]
    rfl
  | (p, v) :: is, tail, hw, ht, fuel, off, st, hf, hp => by
    obtain ⟨f, rfl, hf'⟩ := fuel_succ hf (by simp only [costItemsC]; omega)
    simp only [costItemsC] at hf'
    obtain ⟨hv, hscan, hr⟩ := wfItemsC_cons hw
    have hlen := length_serFv v hv
    have hpos := sizeFv_ge64 v hv
    have e : serItems (flatItems ((p, v) :: is)) ++ tail =
        p ++ (serFv (flatFv v) ++ (serItems (flatItems is) ++ tail)) := by
      simp [flatItems, serItems]
    rw [parseBiosElems, hscan]
    simp only [e]
    rw [drop_append_len p _ _ rfl, take_append_len p _ _ rfl,
      parse_fv hk v hv f _ (off + p.length) false st (by omega) hp]
    simp only [treeFvC_length]
    rw [if_neg (by omega)]
    have ed : (p ++ (serFv (flatFv v) ++ (serItems (flatItems is) ++ tail))).drop (p.length + sizeFv (flatFv v)) =
        serItems (flatItems is) ++ tail := by
      rw [← List.drop_drop, drop_append_len p _ _ rfl, drop_append_len _ _ _ hlen]
    rw [ed, parse_itemsC hk is tail hr ht f (off + p.length + sizeFv (flatFv v)) { st with pol := 0xFF } (by omega)
      (Or.inl rfl)]
    simp only [treeItemsC, flatItems, sizeItems, List.isEmpty_cons, Bool.false_eq_true, if_false]
    have hst : (if is.isEmpty then ({ st with pol := 0xFF } : St) else { { st with pol := 0xFF } with pol := 0xFF }) =
        { st with pol := 0xFF } := by split <;> rfl
    rw [hst]
    have hoff : off + p.length + sizeFv (flatFv v) + sizeItems (flatItems is) =
        off + (p.length + sizeFv (flatFv v) + sizeItems (flatItems is)) := by omega
    rw [hoff]
    by_cases hp0 : p.length = 0
    · simp [hp0]
    · have : p.length > 0 := by omega
      simp [hp0, this]

theorem serBiosC_length (b : CBios) (hw : wfBiosC h b = true) :
    (serBiosC b).length = sizeItems (flatItems b.items) + b.tail.length := by
  simp only [wfBiosC, Bool.and_eq_true] at hw
  simp [serBiosC, serBios, flatBios, length_serItemsC b.items b.tail hw.1.2]

/-- `NewBIOSRegion` on a serialised region of the extended grammar -/
theorem parse_bios_regionC (hk : HooksOK h) (b : CBios) (fr : Option FlashRegion) (fuel : Nat) (st : St)
    (hw : wfBiosC h b = true) (hf : costItemsC b.items ≤ fuel) (hp : st.pol = 0xFF ∨ st.pol = 0xF0) :
    parseBios h fuel (serBiosC b) fr st = .ok (treeBiosC b fr, { st with pol := 0xFF }) := by
  simp only [wfBiosC, Bool.and_eq_true, Bool.not_eq_true', List.isEmpty_eq_false_iff, beq_iff_eq] at hw
  obtain ⟨⟨hne, hitems⟩, htail⟩ := hw
  unfold parseBios
  simp only [serBiosC, serBios, flatBios]
  rw [parse_itemsC hk b.items b.tail hitems htail fuel 0 st hf hp]
  have he : b.items.isEmpty = false := by
    cases hb : b.items with
    | nil => exact absurd hb hne
    | cons x xs => rfl
  simp only [he, Bool.false_eq_true, if_false, treeBiosC, tailElems, Nat.zero_add, serBiosC, serBios, flatBios]

/-! ### the BIOSRegion case of Assemble -/

/-- children of the BIOS region after Assemble: the normal forms of the volumes between the kept
    paddings; the first volume keeps its attributes -/
theorem asm_itemsC (hk : HooksOK h) : ∀ (is : List (Bytes × CFv)) (tail : Bytes), wfItemsC h is tail = true →
    okItems h is = true →
    ∀ (off k : Nat) (st : St), st.pol = 0xFF → st.ffs3 = false →
    ∃ es' st', asmBiosElems h (treeItemsC is off ++ tailElems tail k) st = .ok (es', st') ∧
      (es'.map BiosElem.buf).flatten = serItems (flatItems (normItems h is)) ++ tail ∧
      (serItems (flatItems (normItems h is))).length = sizeItems (flatItems is) ∧
      st'.pol = 0xFF ∧ st'.ffs3 = false ∧
      (∀ p0 v0 rest, is = (p0, v0) :: rest → ∃ v', firstFv es' = some v' ∧ v'.info.attrs &&& 0x800 ≠ 0)
  | [], tail, _, _, off, k, st, hp, hf => by
    refine ⟨tailElems tail k, st, ?_, ?_, rfl, hp, hf, by intro p0 v0 rest hc; cases hc⟩
    · simp only [treeItemsC, List.nil_append, tailElems]
      split <;> simp [asmBiosElems]
    · simp only [tailElems, normItems, flatItems, serItems, List.nil_append]
      split
      · simp [BiosElem.buf]
      · rename_i hc
        have : tail = [] := List.length_eq_zero_iff.mp (by omega)
        simp [this]
  | (p, v) :: is, tail, hw, hok, off, k, st, hp, hf => by
    obtain ⟨hv, _, hr⟩ := wfItemsC_cons hw
    simp only [okItems, Bool.and_eq_true] at hok
    obtain ⟨v', st1, h1, hb1, hl1, hp1, hf1⟩ := asm_fv hk v hv false hok.1 (off + p.length) st hp hf
    have ha1 : v'.info.attrs &&& 0x800 ≠ 0 := by
      rw [asmFv_attrs h _ _ _ _ h1]
      exact treeFvC_attrs_pol v hv _ _
    obtain ⟨es2, st2, h2, hb2, hl2, hp2, hf2, _⟩ :=
      asm_itemsC hk is tail hr hok.2 (off + p.length + sizeFv (flatFv v)) k st1 hp1 hf1
    have hlen : (serItems (flatItems (normItems h ((p, v) :: is)))).length = sizeItems (flatItems ((p, v) :: is)) := by
      simp only [normItems, flatItems, serItems, sizeItems, List.length_append, hl1, hl2, size_norm_top v hok.1]
    by_cases hp0 : p.length = 0
    · have hpe : p = [] := List.length_eq_zero_iff.mp hp0
      refine ⟨.fv v' :: es2, st2, ?_, ?_, hlen, hp2, hf2, ?_⟩
      · rw [hp0] at h1 h2
        simp only [treeItemsC, hp0, ne_eq, not_true_eq_false, if_false, List.nil_append, List.cons_append,
          asmBiosElems, h1, h2]
      · simp [BiosElem.buf, hb1, hb2, normItems, flatItems, serItems, hpe]
      · intro p0 v0 rest hc
        exact ⟨v', rfl, ha1⟩
    · refine ⟨.pad p off :: .fv v' :: es2, st2, ?_, ?_, hlen, hp2, hf2, ?_⟩
      · simp only [treeItemsC, hp0, ne_eq, not_false_eq_true, if_true, List.cons_append, List.nil_append,
          asmBiosElems, h1, h2]
      · simp [BiosElem.buf, hb1, hb2, normItems, flatItems, serItems]
      · intro p0 v0 rest hc
        exact ⟨v', rfl, ha1⟩

/-- the BIOSRegion case of Assemble on a parsed region of the extended grammar: the bytes written
    are the region with every volume in normal form -/
theorem asm_biosC (hk : HooksOK h) (b : CBios) (fr : Option FlashRegion) (st : St) (hw : wfBiosC h b = true)
    (hok : okItems h b.items = true) (hp : st.pol = 0xFF) (hf : st.ffs3 = false) :
    ∃ b' st', asmBios h (treeBiosC b fr) st = .ok (b', st') ∧ b'.buf = serBiosC (normBios h b) ∧ b'.fr = fr ∧
      (serBiosC (normBios h b)).length = (serBiosC b).length ∧ st'.pol = 0xFF ∧ st'.ffs3 = false := by
  have hlen0 := serBiosC_length b hw
  simp only [wfBiosC, Bool.and_eq_true, Bool.not_eq_true', List.isEmpty_eq_false_iff, beq_iff_eq] at hw
  obtain ⟨⟨hne, hitems⟩, _⟩ := hw
  obtain ⟨es, st1, h1, hb1, hl1, hp1, hf1, hfirst⟩ :=
    asm_itemsC hk b.items b.tail hitems hok 0 (sizeItems (flatItems b.items)) st hp hf
  obtain ⟨p0, v0, rest, hi⟩ : ∃ p0 v0 rest, b.items = (p0, v0) :: rest := by
    cases hb : b.items with
    | nil => exact absurd hb hne
    | cons x xs => exact ⟨x.1, x.2, xs, rfl⟩
  obtain ⟨v', hv', ha'⟩ := hfirst p0 v0 rest hi
  have hlenN : (serBiosC (normBios h b)).length = (serBiosC b).length := by
    rw [hlen0]
    simp only [serBiosC, serBios, flatBios, normBios, List.length_append, hl1]
  unfold asmBios
  simp only [treeBiosC, tailElems] at h1 ⊢
  rw [h1]
  simp only [hv', setPolarity_keep v'.info.attrs st1 ha' hp1, hb1]
  have hl : ¬ (serItems (flatItems (normItems h b.items)) ++ b.tail).length > (serBiosC b).length := by
    rw [hlen0]; simp only [List.length_append, hl1]; omega
  simp only [hl, if_false]
  refine ⟨_, st1, rfl, ?_, rfl, hlenN, hp1, hf1⟩
  have hz : (serBiosC b).length - (serItems (flatItems (normItems h b.items)) ++ b.tail).length = 0 := by
    rw [hlen0]; simp only [List.length_append, hl1]; omega
  simp only [hz, List.replicate_zero, List.append_nil]
  simp [serBiosC, serBios, flatBios, normBios]

/-! ### decoded trees -/

theorem dec_itemsC : ∀ (is : List (Bytes × CFv)) (tail : Bytes), wfItemsC h is tail = true → ∀ (o1 o2 : Nat),
    decBiosElems (treeItemsC (normItems h is) o1) = decBiosElems (treeItemsC is o2)
  | [], _, _, _, _ => rfl
  | (p, v) :: is, tail, hw, o1, o2 => by
    obtain ⟨hv, _, hr⟩ := wfItemsC_cons hw
    have ih := dec_itemsC is tail hr (o1 + p.length + sizeFv (flatFv (normFv h v))) (o2 + p.length + sizeFv (flatFv v))
    have hd := dec_fv v hv (o1 + p.length) false (o2 + p.length) false
    by_cases hp0 : p.length = 0
    · rw [hp0, Nat.add_zero] at ih hd
      simp [normItems, treeItemsC, hp0, decBiosElems, ih, hd]
    · simp [normItems, treeItemsC, hp0, decBiosElems, ih, hd]

theorem decBiosElems_append (a b : List BiosElem) : decBiosElems (a ++ b) = decBiosElems a ++ decBiosElems b := by
  induction a with
  | nil => rfl
  | cons x xs ih => cases x <;> simp [decBiosElems, ih]

/-- the decoded tree of a BIOS region is kept by the normal form -/
theorem dec_biosC (b : CBios) (hw : wfBiosC h b = true) (hok : okItems h b.items = true) (fr fr' : Option FlashRegion) :
    decBiosElems (treeBiosC (normBios h b) fr).elems = decBiosElems (treeBiosC b fr').elems := by
  simp only [wfBiosC, Bool.and_eq_true] at hw
  simp only [treeBiosC, normBios, decBiosElems_append, dec_itemsC b.items b.tail hw.1.2 0 0, sizeItems_norm b.items hok]

/-! ### canonical images -/

theorem norm_itemsC : ∀ (is : List (Bytes × CFv)) (tail : Bytes), wfItemsC h is tail = true → canonItems h is = true →
    normItems h is = is
  | [], _, _, _ => rfl
  | (p, v) :: is, tail, hw, hc => by
    obtain ⟨hv, _, hr⟩ := wfItemsC_cons hw
    simp only [canonItems, Bool.and_eq_true] at hc
    simp only [normItems, norm_fv v hv hc.1, norm_itemsC is tail hr hc.2]

theorem canon_itemsC : ∀ (is : List (Bytes × CFv)), okItems h is = true → canonItems h (normItems h is) = true
  | [], _ => rfl
  | (p, v) :: is, hok => by
    simp only [okItems, Bool.and_eq_true] at hok
    simp only [normItems, canonItems, canon_fv v false hok.1, canon_itemsC is hok.2, Bool.and_self]

theorem ok_itemsC : ∀ (is : List (Bytes × CFv)) (tail : Bytes), wfItemsC h is tail = true → canonItems h is = true →
    okItems h is = true
  | [], _, _, _ => rfl
  | (p, v) :: is, tail, hw, hc => by
    obtain ⟨hv, _, hr⟩ := wfItemsC_cons hw
    simp only [canonItems, Bool.and_eq_true] at hc
    simp only [okItems, ok_fv v hv hc.1 false, ok_itemsC is tail hr hc.2, Bool.and_self]

end Fiano.Uefi.Nested
