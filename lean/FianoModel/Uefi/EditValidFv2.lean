/-
  C02 (follow-up wp-c02b), layer (c), part 4: **`relayoutFv_ok`** — the relayout of a volume node that
  satisfies the invariant `FvHdrOk`, with files the reader accepts, writes a volume the reader
  accepts *in full* (header rules V1–V5 re-established by the patches also when the volume grew or
  switched to FFSv3; file area L1–L4 / X1–X5), and the returned node satisfies `FvHdrOk` again.
-/
import FianoModel.Uefi.EditValidFv

namespace Fiano.Uefi
open Fiano
open EditArith

theorem guidFFS3_length : guidFFS3.length = 16 := by decide
theorem guidFFS2_eq : guidFFS2 = Valid.ffs2 := by decide
theorem guidFFS3_eq : guidFFS3 = Valid.ffs3 := by decide

theorem take_append_len_eq (A B : Bytes) (n : Nat) (h : A.length = n) : (A ++ B).take n = A := by
  rw [List.take_append_of_le_length (by omega), List.take_of_length_le (by omega)]

/-- the header-independent facts about a successful relayout: shape of the buffer handed to the
    patches, and the length / block-count arithmetic -/
theorem relayout_core (i : FvInfo) (buf : Bytes) (files : List File) (st : St) (i' : FvInfo) (out : Bytes) (st' : St)
    (h : relayoutFv i buf files st = .ok (i', out, st'))
    (hinv : FvHdrOk i buf) (hp : st.pol = 0xFF ∨ st.pol = 0)
    (hattrs : ∀ f ∈ files, f.info.attrs < 256)
    (hbound : out.length < 2 ^ 31) :
    ∃ b0 bs length count blocks' free d,
      i.blocks = b0 :: bs ∧ i.dataOffset ≤ buf.length ∧
      layEnd (placed files) i.dataOffset ≤ length ∧ buf.length ≤ length ∧ length < 2 ^ 31 ∧
      patchFvHeader (buf.take i.dataOffset ++ (layAll st.pol (placed files) i.dataOffset ++
          List.replicate (length - layEnd (placed files) i.dataOffset) st.pol)) length
        (if (st.ffs3 && i.fsGuid == guidFFS2) = true then some guidFFS3 else none) count (Valid.fld buf 48 2) = .ok out ∧
      (∃ b0', blocks' = b0' :: bs ∧ b0'.count = count ∧ b0'.size = b0.size) ∧
      i' = { i with length := length, blocks := blocks', freeSpace := free,
                    fsGuid := if (st.ffs3 && i.fsGuid == guidFFS2) = true then guidFFS3 else i.fsGuid } ∧
      st' = { st with ffs3 := false } ∧
      (∀ acc', Valid.blockMap (buf.length / 8) buf 64 acc' = some (acc' + d, Valid.fld buf 48 2)) ∧
      count < 2 ^ 32 ∧ count ≠ 0 ∧ count * Valid.fld buf 60 4 + d = length ∧
      (i.resizable = false → length = buf.length) := by
  obtain ⟨hlenle, hDle, fbuf, hplace, hfin⟩ := relayoutFv_inv i buf files st _ h
  obtain ⟨b0, bs, length, count, blocks', free, hblocks, hcase, hpatch, hb', hi', hst'⟩ :=
    finishFv_shape i fbuf st i' out st' hfin
  obtain ⟨hok, _, _, hD64, _, _, _⟩ := fvHdr_facts i buf hinv
  obtain ⟨w64, w32, whl64, whl, _, w56, w60, d, hdtot, hwalk⟩ := hdrOk_walk buf hok
  have hfull := hinv.len
  rw [hinv.hl] at hpatch
  have hfr := patchFvHeader_frame _ _ _ _ _ _ hpatch
  -- length of the buffer handed to the patches
  have hXge : fbuf.length ≤ (if length > fbuf.length then fbuf ++ List.replicate (length - fbuf.length) st.pol else fbuf).length ∧
      length ≤ (if length > fbuf.length then fbuf ++ List.replicate (length - fbuf.length) st.pol else fbuf).length := by
    split
    · simp only [List.length_append, List.length_replicate]; omega
    · omega
  have hfb31 : fbuf.length < 2 ^ 31 := by omega
  have hl31 : length < 2 ^ 31 := by omega
  -- the file loop in closed form
  have htake : (buf.take i.dataOffset).length = i.dataOffset := by simp; omega
  have hattrs' : ∀ x ∈ placed files, x.1 < 256 := by
    intro x hx
    unfold placed at hx
    rw [List.mem_map] at hx
    obtain ⟨f, hf, rfl⟩ := hx
    exact hattrs f hf
  obtain ⟨hfbuf, hfblen⟩ := placeFiles_closed st.pol hp (placed files) _ _ fbuf hplace hattrs' htake (by omega)
  -- the first block-map entry of the node is the one of the buffer
  obtain ⟨bc, bsc, hbc, hcntc⟩ := hinv.cnt
  have hb0c : b0 = bc := by rw [hblocks] at hbc; exact (List.cons.inj hbc).1
  have h56lt : Valid.fld buf 56 4 < 2 ^ 32 := by have := fld_lt buf 56 4; simpa using this
  -- the decision
  have hkey : fbuf.length ≤ length ∧ buf.length ≤ length ∧ count < 2 ^ 32 ∧ count ≠ 0 ∧
      (∃ d', (∀ acc', Valid.blockMap (buf.length / 8) buf 64 acc' = some (acc' + d', Valid.fld buf 48 2)) ∧
        count * Valid.fld buf 60 4 + d' = length) ∧ (i.resizable = false → length = buf.length) := by
    rcases hcase with ⟨hle, hl, hc⟩ | ⟨hgt, hres, hsz, hl, hc⟩
    · rw [hb0c, hcntc] at hc
      exact ⟨by omega, by omega, by omega, by omega, ⟨d, hwalk, by rw [hc, hl]; omega⟩, fun _ => by omega⟩
    · obtain ⟨br, bsr, k, hbr, hsize, hk, h60, h48⟩ := hinv.rsz hres
      have hb0r : b0 = br := by rw [hblocks] at hbr; exact (List.cons.inj hbr).1
      rw [hb0r, hsize] at hl hc
      have hk2 : (2 : Nat) ^ k < 2 ^ 32 := Nat.pow_lt_pow_right (by omega) hk
      have hg := grow_arith fbuf.length k (by omega) (by omega) (by rw [← hl]; exact hl31) (by omega)
      rw [← hl] at hg
      have hd0 : d = 0 := by
        apply walk_stop72 buf (buf.length / 8) d
        intro acc'; rw [hwalk acc', h48]
      have hc' : count = length / 2 ^ k % 2 ^ 32 := by simpa using hc
      refine ⟨hg.1, by omega, by rw [hc']; exact Nat.mod_lt _ (by omega), by rw [hc']; exact hg.2.2,
        ⟨0, by rw [← hd0]; exact hwalk, by rw [h60, hc']; have := hg.2.1; omega⟩, fun c => by rw [hres] at c; cases c⟩
  obtain ⟨hk1, hk2, hk3, hk4, ⟨d', hwalk', htot'⟩, hk6⟩ := hkey
  -- the buffer handed to the patches, spelled out
  have hX : (if length > fbuf.length then fbuf ++ List.replicate (length - fbuf.length) st.pol else fbuf) =
      buf.take i.dataOffset ++ (layAll st.pol (placed files) i.dataOffset ++
        List.replicate (length - layEnd (placed files) i.dataOffset) st.pol) := by
    rw [← hfblen]
    split
    · rw [hfbuf]; simp [List.append_assoc]
    · have : length - fbuf.length = 0 := by omega
      rw [this, hfbuf]; simp
  rw [hX] at hpatch
  exact ⟨b0, bs, length, count, blocks', free, d', hblocks, hDle, by omega, hk2, hl31, hpatch, hb', hi', hst',
    hwalk', hk3, hk4, htot', hk6⟩

/-- **`relayoutFv_ok`** (layer (c), `asmFv_valid` for a volume with files): on a volume node that
    satisfies `FvHdrOk`, with files the reader accepts under the volume's polarity, a relayout that
    succeeds and writes less than 2 GiB yields a volume the reader accepts in full, and a node that
    satisfies `FvHdrOk` again.  The volume may have grown to the next block boundary (resizable,
    nested volumes) and its file-system GUID may have been switched to FFSv3. -/
theorem relayoutFv_ok (i : FvInfo) (buf : Bytes) (files : List File) (st : St) (i' : FvInfo) (out : Bytes) (st' : St)
    (h : relayoutFv i buf files st = .ok (i', out, st'))
    (hinv : FvHdrOk i buf) (hpol : st.pol = fvErased buf)
    (hgood : ∀ f ∈ files, GoodFile st.pol (f.info.attrs, f.buf))
    (hbound : out.length < 2 ^ 31) :
    FvHdrOk i' out ∧ fvErased out = fvErased buf ∧ st'.pol = st.pol ∧ i'.resizable = i.resizable ∧
    buf.length ≤ out.length ∧ (i.resizable = false → out.length = buf.length) ∧
    (∀ a n, PatchFree a n → a + n ≤ 64 → (out.drop a).take n = (buf.drop a).take n) ∧
    ((out.drop 16).take 16 = (buf.drop 16).take 16 ∨ (out.drop 16).take 16 = guidFFS3) := by
  have hp : st.pol = 0xFF ∨ st.pol = 0 := by rw [hpol]; exact fvErased_cases buf
  obtain ⟨b0, bs, length, count, blocks', free, d, hblocks, hDle, hlay, hle, hl31, hpatch, ⟨b0', hbl', hcnt', hsz'⟩,
    hi', hst', hwalk, hc32, hc0, htot, hnr⟩ :=
    relayout_core i buf files st i' out st' h hinv hp (fun f hf => (hgood f hf).attrs) hbound
  obtain ⟨hok, hfirst64, hfd, hD64, hhD, hext, hffsfacts⟩ := fvHdr_facts i buf hinv
  obtain ⟨w64, w32, whl64, whl, _, w56, w60, _⟩ := hdrOk_walk buf hok
  have htake : (buf.take i.dataOffset).length = i.dataOffset := by simp; omega
  generalize hX : buf.take i.dataOffset ++ (layAll st.pol (placed files) i.dataOffset ++
      List.replicate (length - layEnd (placed files) i.dataOffset) st.pol) = X at hpatch
  have hXt : X.take i.dataOffset = buf.take i.dataOffset := by
    rw [← hX, take_append_len_eq _ _ _ htake]
  have hlayb : layEnd (placed files) i.dataOffset < 2 ^ 62 := by omega
  have hXl : X.length = length := by
    have := (placeFiles_eq st.pol hp (placed files) (buf.take i.dataOffset) i.dataOffset
      (fun x hx => ⟨(goodPlaced st.pol files hgood x hx).attrs, goodFile_nonempty _ _ (goodPlaced st.pol files hgood x hx)⟩)
      htake hlayb).2
    rw [← hX]
    simp only [List.length_append, List.length_replicate, htake]
    omega
  have hg : ∀ gg, (if (st.ffs3 && i.fsGuid == guidFFS2) = true then some guidFFS3 else none) = some gg → gg.length = 16 := by
    intro gg hgg
    split at hgg
    · cases hgg; exact guidFFS3_length
    · cases hgg
  have hcm : count % 2 ^ 32 = count := Nat.mod_eq_of_lt hc32
  obtain ⟨hokO, hfld, hwin⟩ := patched_hdrOk buf X out i.dataOffset length count _ d hok hD64 hDle hXt hXl hle
    (by omega) hhD (fun c => (hext c).1) hpatch hg hwalk (by rw [hcm]; exact hc0) (by rw [hcm]; exact htot) w60
  obtain ⟨p60, phl, pev, plen, pwin, pgn, pgs, p32, p56, psum⟩ := patch_facts X length _ count _ out hpatch hg
  have hol : out.length = length := by rw [plen, hXl]
  have hfr := patchFvHeader_frame _ _ _ _ _ _ hpatch
  -- fields of `out` that the reader looks at
  have f44 : Valid.fld out 44 4 = Valid.fld buf 44 4 := hfld 44 4 (Or.inr (Or.inl ⟨by omega, by omega⟩)) (by omega)
  have f48 : Valid.fld out 48 2 = Valid.fld buf 48 2 := hfld 48 2 (Or.inr (Or.inl ⟨by omega, by omega⟩)) (by omega)
  have f52 : Valid.fld out 52 2 = Valid.fld buf 52 2 := hfld 52 2 (Or.inr (Or.inr (Or.inl ⟨by omega, by omega⟩))) (by omega)
  have f60 : Valid.fld out 60 4 = Valid.fld buf 60 4 := hfld 60 4 (Or.inr (Or.inr (Or.inr (by omega)))) (by omega)
  have herO : fvErased out = fvErased buf := by unfold fvErased; rw [f44]
  have hfirstO : fvFirst out = fvFirst buf := by
    unfold fvFirst
    rw [f52, f48]
    by_cases hz : Valid.fld buf 52 2 = 0
    · rw [if_pos hz, if_pos hz]
    · rw [if_neg hz, if_neg hz]
      have := hext hz
      rw [hfld (Valid.fld buf 52 2 + 16) 4 (Or.inr (Or.inr (Or.inr (by omega)))) (by omega)]
  -- the file area
  have hlayAll := filesOk_layAll st.pol hp (placed files) (goodPlaced st.pol files hgood) (buf.take i.dataOffset)
    (length - layEnd (placed files) i.dataOffset) (by rw [htake]; exact hlayb)
  rw [htake, hX] at hlayAll
  obtain ⟨need, hneed⟩ := hlayAll
  have hfilesO : ∀ fuel, need ≤ fuel → Valid.filesOk fuel out st.pol i.dataOffset = true := by
    intro fuel hf
    rw [filesOk_congr fuel st.pol out X 60 hfr.1 hfr.2 i.dataOffset (by omega)]
    exact hneed fuel hf
  -- GUID of `out`
  have hguidO : (out.drop 16).take 16 = (if (st.ffs3 && i.fsGuid == guidFFS2) = true then guidFFS3 else (buf.drop 16).take 16) := by
    by_cases hsw : (st.ffs3 && i.fsGuid == guidFFS2) = true
    · rw [if_pos hsw]
      exact pgs guidFFS3 (by rw [if_pos hsw])
    · rw [if_neg hsw]
      rw [pgn (by rw [if_neg hsw])]
      exact window_of_take_eq X buf i.dataOffset 16 16 hXt (by omega)
  -- an FFS result comes from an FFS volume
  have hffsB : fvIsFfs out = true → fvIsFfs buf = true := by
    intro hO
    by_cases hsw : (st.ffs3 && i.fsGuid == guidFFS2) = true
    · simp only [Bool.and_eq_true, beq_iff_eq] at hsw
      unfold fvIsFfs
      rw [← hinv.guid, hsw.2, guidFFS2_eq]
      simp
    · rw [if_neg hsw] at hguidO
      unfold fvIsFfs at hO ⊢
      rw [hguidO] at hO
      exact hO
  -- the reader accepts `out`
  have hfvO : FvBytesOk out := by
    refine ⟨need + 2, ?_⟩
    rw [fvOk_eq, hokO, Bool.true_and]
    by_cases hO : fvIsFfs out = true
    · rw [if_pos hO, herO, hfirstO, ← hpol]
      obtain ⟨n0, _, her⟩ := hffsfacts (hffsB hO)
      rw [filesOk_from_unaligned need out st.pol (fvFirst buf) i.dataOffset hinv.dOff (by omega) (by
        rw [hwin (fvFirst buf) (i.dataOffset - fvFirst buf) (Or.inr (Or.inr (Or.inr (by omega)))) (by omega), hpol]
        exact her)]
      exact hfilesO (need + 1) (by omega)
    · rw [if_neg hO]
  -- the node
  have hI : i'.length = length ∧ i'.headerLen = i.headerLen ∧ i'.blocks = blocks' ∧ i'.dataOffset = i.dataOffset ∧
      i'.attrs = i.attrs ∧ i'.resizable = i.resizable ∧
      i'.fsGuid = (if (st.ffs3 && i.fsGuid == guidFFS2) = true then guidFFS3 else i.fsGuid) := by
    rw [hi']; exact ⟨rfl, rfl, rfl, rfl, rfl, rfl, rfl⟩
  have hinvO : FvHdrOk i' out := by
    refine ⟨hfvO, by rw [hI.1, hol], by rw [hI.2.1, hinv.hl, f48], ⟨b0', bs, by rw [hI.2.2.1, hbl'], by rw [hcnt', p56, hcm]⟩,
      by rw [hI.2.2.2.1, hinv.dOff, hfirstO], ?_, by rw [hI.2.2.2.2.1, hinv.attrs, f44], ?_⟩
    · rw [hI.2.2.2.2.2.2, hguidO]
      by_cases hsw : (st.ffs3 && i.fsGuid == guidFFS2) = true
      · rw [if_pos hsw, if_pos hsw]
      · rw [if_neg hsw, if_neg hsw, hinv.guid]
    · intro hres
      rw [hI.2.2.2.2.2.1] at hres
      obtain ⟨br, bsr, k, hbr, hsize, hk, h60, h48⟩ := hinv.rsz hres
      have hb0r : b0 = br := by rw [hblocks] at hbr; exact (List.cons.inj hbr).1
      exact ⟨b0', bs, k, by rw [hI.2.2.1, hbl'], by rw [hsz', hb0r, hsize], hk, by rw [f60, h60], by rw [f48, h48]⟩
  refine ⟨hinvO, herO, by rw [hst'], hI.2.2.2.2.2.1, by omega, fun c => by rw [hol]; exact hnr c, ?_, ?_⟩
  · intro a n hf ha
    exact hwin a n hf (by omega)
  · rw [hguidO]
    by_cases hsw : (st.ffs3 && i.fsGuid == guidFFS2) = true
    · rw [if_pos hsw]; exact Or.inr rfl
    · rw [if_neg hsw]; exact Or.inl rfl

end Fiano.Uefi
