/-
  C09b at image level for every protected node: paths into the tree.

    Path := List Nat       inside a volume:  []            the volume header itself
                                             [k]           its k-th file
                                             k :: j :: p   file k, section j (a firmware-volume-image section),
                                                           then `p` inside the volume nested there

  `locFv path v` computes, from the parsed tree alone, where the selected node starts (relative to the first
  byte of `v`) and which volumes the path passes through.  `fv_path_detected` composes the walk-locality
  lemmas (ValidateLocal, ValidateLocalFv) with the node-level detection theorems (ValidateLemmas) along
  the path: one protected byte of the selected node altered ⇒ every volume the parser reports on the
  altered bytes fails validation.
  Core Lean only.
-/
import FianoModel.Uefi.ValidateScan

namespace Fiano.Uefi
open Fiano Fiano.Uefi.Spec

/-! ### reaching a node of the original parse -/

theorem split_at_get {α : Type} : ∀ (l : List α) (k : Nat) (x : α), l[k]? = some x → l = l.take k ++ x :: l.drop (k + 1)
  | [], k, x, h => by simp at h
  | a :: l, 0, x, h => by simp at h; subst h; simp
  | a :: l, k+1, x, h => by
    simp only [List.getElem?_cons_succ] at h
    have := split_at_get l k x h
    simp only [List.take_succ_cons, List.drop_succ_cons, List.cons_append]
    rw [← this]

theorem vFiles_mid {pre post : List File} {f : File} (h : vFiles (pre ++ f :: post) = []) : vFile f = [] := by
  induction pre with
  | nil => exact (vFiles_cons_nil' h).1
  | cons g pre ih => exact ih (vFiles_cons_nil' h).2

theorem vSections_mid {pre post : List Section} {s : Section} (h : vSections (pre ++ s :: post) = []) :
    vSection s = [] := by
  induction pre with
  | nil => exact (vSections_cons_nil h).2.1
  | cons g pre ih => exact ih (vSections_cons_nil h).2.2

theorem parseFiles_reach {h : Hooks} {data : Bytes} {lh length : Nat} {f : File} {post : List File} {free : Nat}
    {st1 : St} : ∀ (pre : List File) (fuel offset : Nat) (st : St),
    parseFiles h fuel data offset lh length st = .ok (pre ++ f :: post, free, st1) →
    ∃ fuel_k st_k st_k', parseFile h fuel_k (data.drop (align8 (startAfter pre offset))) st_k = .ok (some f, st_k')
  | [], fuel, offset, st, hp => by
    obtain ⟨fuel0, st2, _, _, _, hpf, _, _⟩ := parseFiles_cons_inv hp
    exact ⟨fuel0, st, st2, hpf⟩
  | g :: pre, fuel, offset, st, hp => by
    obtain ⟨fuel0, st2, _, _, _, _, _, hrest⟩ := parseFiles_cons_inv hp
    exact parseFiles_reach pre fuel0 _ st2 hrest

theorem parseSections_reach {h : Hooks} {fbuf : Bytes} {ext : Nat} {s : Section} {post : List Section} {st1 : St} :
    ∀ (pre : List Section) (fuel offset idx : Nat) (st : St),
    parseSections h fuel fbuf offset ext idx st = .ok (pre ++ s :: post, st1) →
    ∃ fuel_j idx_j st_j st_j', parseSection h fuel_j (fbuf.drop (secAfter pre offset)) idx_j st_j = .ok (s, st_j')
  | [], fuel, offset, idx, st, hp => by
    obtain ⟨fuel0, st2, _, _, hps, _, _⟩ := parseSections_cons_inv hp
    exact ⟨fuel0, idx, st, st2, hps⟩
  | g :: pre, fuel, offset, idx, st, hp => by
    obtain ⟨fuel0, st2, _, _, _, _, hrest⟩ := parseSections_cons_inv hp
    rw [secAfter_cons]
    exact parseSections_reach pre fuel0 _ (idx + 1) st2 hrest

set_option maxRecDepth 8192 in
/-- the `k`-th file of a parsed volume: the call of `parseFile` that produced it, and where it lies -/
theorem parseFv_file_reach {h : Hooks} {fuel : Nat} {data : Bytes} {off : Nat} {rs : Bool} {st st1 : St} {fv : Fv}
    {pre post : List File} {f : File}
    (hp : parseFv h fuel data off rs st = .ok (fv, st1)) (hfiles : fv.files = pre ++ f :: post)
    (hbig : data.length + 8 < 2 ^ 64) :
    (∃ fuel_k st_k st_k',
      parseFile h fuel_k ((data.take fv.info.length).drop (align8 (startAfter pre fv.info.dataOffset))) st_k =
        .ok (some f, st_k')) ∧
    align8 (startAfter pre fv.info.dataOffset) + f.info.extSize ≤ fv.info.length ∧
    fv.info.length ≤ data.length := by
  cases fuel with
  | zero => simp [parseFv] at hp
  | succ fuel0 =>
    obtain ⟨_, hL, _, hlen, _⟩ := parseFv_ok_fields _ _ _ _ _ _ _ _ hp
    obtain ⟨blocks, stp, _, _, _, hnon, hffs⟩ := parseFv_ffs_eq hp
    have hg : ¬ (slice data 16 16 ≠ guidFFS2 ∧ slice data 16 16 ≠ guidFFS3) := by
      intro hg
      have := hnon hg
      simp only at this
      rw [hfiles] at this
      simp at this
    obtain ⟨hdo, free, hpf⟩ := hffs hg
    simp only at hdo hpf
    rw [hfiles] at hpf
    have hfl : (data.take (rd data 32 8)).length = rd data 32 8 := by rw [List.length_take]; omega
    have hbig2 : (data.take (rd data 32 8)).length + 8 < 2 ^ 64 := by rw [hfl]; omega
    obtain ⟨_, _, hin⟩ := walk_bounds hbig2 pre fuel0 (doOf data) stp hpf (doOf_bound data)
    rw [hfl] at hin
    rw [hdo, hlen]
    exact ⟨parseFiles_reach pre fuel0 _ stp hpf, hin, hL⟩

set_option maxRecDepth 8192 in
/-- the `j`-th section of a parsed file: the call of `parseSection` that produced it, and where it lies -/
theorem parseFile_section_reach {h : Hooks} {fuel : Nat} {buf : Bytes} {st st1 : St} {f : File}
    {pre post : List Section} {s : Section}
    (hp : parseFile h fuel buf st = .ok (some f, st1)) (hsecs : f.secs = pre ++ s :: post)
    (hbig : buf.length + 8 < 2 ^ 64) :
    (∃ fuel_j idx_j st_j st_j',
      parseSection h fuel_j ((buf.take f.info.extSize).drop (secAfter pre f.info.dataOffset)) idx_j st_j =
        .ok (s, st_j')) ∧
    secAfter pre f.info.dataOffset + s.info.extSize ≤ f.info.extSize ∧ f.info.extSize ≤ buf.length ∧
    f.info.nvar = none := by
  have hne : f.secs ≠ [] := by rw [hsecs]; simp
  obtain ⟨fuel0, i, rfl, hfh, _, hinfo, _, hps⟩ := parseFile_secs_inv hp hne
  obtain ⟨hdo, _, _⟩ := fileHeader_dataOffset hfh
  obtain ⟨_, _, hie, hle, _⟩ := fileHeader_some hfh
  rw [hsecs] at hps
  have hfl : (buf.take i.extSize).length = i.extSize := by rw [List.length_take]; omega
  have hbig2 : (buf.take i.extSize).length + 8 < 2 ^ 64 := by rw [hfl]; omega
  have hdo4 : i.dataOffset % 4 = 0 := by rw [hdo]; split <;> rfl
  obtain ⟨_, _, hin, _⟩ := secWalk_bounds hbig2 pre fuel0 _ 0 st hps hdo4
  rw [hfl] at hin
  have e1 : f.info.dataOffset = i.dataOffset := by rw [hinfo]
  have e2 : f.info.extSize = i.extSize := by rw [hinfo]
  have e3 : f.info.nvar = none := by rw [hinfo]
  rw [e1, e2]
  exact ⟨parseSections_reach pre fuel0 _ 0 st hps, hin, by omega, e3⟩

/-- the window of the enclosing volume's bytes that holds the volume nested in section `j` of file `k` -/
def nestedWindow (d : Bytes) (v : Fv) (k : Nat) (f : File) (j : Nat) (i : SecInfo) : Bytes :=
  ((((((d.take v.info.length).drop (fileOff v k)).take f.info.extSize).drop (secOff f j)).take i.extSize).drop
    (fvimgHdrSize i))

set_option maxRecDepth 8192 in
/-- **one step down**: from a parsed volume that passes to the volume nested in section `j` of its file `k` -/
theorem fv_descend {h : Hooks} {fuel : Nat} {data : Bytes} {off : Nat} {rs : Bool} {st st1 : St} {fv : Fv}
    {k j : Nat} {f : File} {i : SecInfo} {sb : Bytes} {w : Fv}
    (hp : parseFv h fuel data off rs st = .ok (fv, st1)) (hv : vFv fv = [])
    (hf : fv.files[k]? = some f) (hs : f.secs[j]? = some (.mk i sb [.fv w])) (ht : i.type = 0x17)
    (hbig : data.length + 8 < 2 ^ 64) :
    (∃ fuel_w st_w st_w', parseFv h fuel_w (nestedWindow data fv k f j i) 0 true st_w = .ok (w, st_w')) ∧
    vFv w = [] ∧ fileOff fv k + f.info.extSize ≤ fv.info.length ∧ fv.info.length ≤ data.length ∧
    secOff f j + i.extSize ≤ f.info.extSize ∧ fvimgHdrSize i < i.extSize ∧
    w.info.length ≤ i.extSize - fvimgHdrSize i ∧
    (∃ fuel_k st_k st_k',
      parseFile h fuel_k ((data.take fv.info.length).drop (fileOff fv k)) st_k = .ok (some f, st_k')) ∧
    vFile f = [] ∧
    (∃ fuel_j idx_j st_j st_j',
      parseSection h fuel_j
        ((((data.take fv.info.length).drop (fileOff fv k)).take f.info.extSize).drop (secOff f j)) idx_j st_j =
        .ok (.mk i sb [.fv w], st_j')) := by
  have hfiles := split_at_get _ _ _ hf
  have hsecs := split_at_get _ _ _ hs
  obtain ⟨⟨fuel_k, st_k, st_k', hpk⟩, hb1, hb2⟩ := parseFv_file_reach hp hfiles hbig
  have hvf : vFile f = [] := by
    have := (vFv_nil hv).2
    rw [hfiles] at this
    exact vFiles_mid this
  have hbigk : ((data.take fv.info.length).drop (fileOff fv k)).length + 8 < 2 ^ 64 := by
    rw [List.length_drop, List.length_take]; omega
  obtain ⟨⟨fuel_j, idx_j, st_j, st_j', hpj⟩, hb3, hb4, hnv⟩ := parseFile_section_reach hpk hsecs hbigk
  have hvs : vSection (.mk i sb [.fv w]) = [] := by
    have := (vFile_nil hvf).2 hnv
    rw [hsecs] at this
    exact vSections_mid this
  obtain ⟨fuel0, size3, ext, w0, _, hsh, _, hee, hlt, hpw, henc⟩ := parseSection_fvimg_inv hpj ht
  simp only [Section.encap, List.cons.injEq, Node.fv.injEq, and_true] at henc
  subst henc
  simp only [Section.info] at hsh hee hlt hpw hb3
  have hvw : vFv w = [] := vSection_fv_nil (s := .mk i sb [.fv w]) rfl hvs
  obtain ⟨_, hLw, _, hlenw, _⟩ := parseFv_ok_fields _ _ _ _ _ _ _ _ hpw
  rw [← hee] at hpw hlt hLw hlenw
  refine ⟨⟨fuel0, st_j, st_j', hpw⟩, hvw, hb1, hb2, hb3, ?_, ?_, ⟨fuel_k, st_k, st_k', hpk⟩, hvf,
    ⟨fuel_j, idx_j, st_j, st_j', hpj⟩⟩
  · rw [List.length_take] at hlt; omega
  · rw [hlenw]
    rw [List.length_drop, List.length_take] at hLw
    omega

/-! ### the altered byte lies inside the volume the path starts in -/

set_option maxRecDepth 8192 in
theorem locFv_bound (h : Hooks) : ∀ (path : Path) (fuel : Nat) (data : Bytes) (off : Nat) (rs : Bool) (st st1 : St)
    (fv : Fv) (loc : Loc) (r : Nat),
    parseFv h fuel data off rs st = .ok (fv, st1) → vFv fv = [] → locFv path fv = some loc →
    loc.tgt.protects r → data.length + 8 < 2 ^ 64 → loc.off + r < fv.info.length
  | [], fuel, data, off, rs, st, st1, fv, loc, r, hp, hv, hl, hpr, hbig => by
    simp only [locFv, Option.some.injEq] at hl
    subst hl
    simp only [Target.protects] at hpr
    have okn := (validateFvNode_nil_iff _ _).mp (vFv_nil hv).1
    have := okn.hlbuf
    have := okn.length
    simp only [Nat.zero_add]
    omega
  | [k], fuel, data, off, rs, st, st1, fv, loc, r, hp, hv, hl, hpr, hbig => by
    simp only [locFv] at hl
    cases hf : fv.files[k]? with
    | none => rw [hf] at hl; simp at hl
    | some f =>
      rw [hf] at hl
      simp only [Option.some.injEq] at hl
      subst hl
      simp only [Target.protects] at hpr
      obtain ⟨_, hb1, _⟩ := parseFv_file_reach hp (split_at_get _ _ _ hf) hbig
      simp only
      unfold fileOff
      omega
  | k :: j :: rest, fuel, data, off, rs, st, st1, fv, loc, r, hp, hv, hl, hpr, hbig => by
    simp only [locFv] at hl
    cases hf : fv.files[k]? with
    | none => rw [hf] at hl; simp at hl
    | some f =>
      rw [hf] at hl
      simp only at hl
      split at hl
      · rename_i i sb w hs
        split at hl
        · rename_i ht
          cases hlw : locFv rest w with
          | none => rw [hlw] at hl; simp at hl
          | some l =>
            rw [hlw] at hl
            simp only [Option.map_some, Option.some.injEq] at hl
            subst hl
            obtain ⟨⟨fuel_w, st_w, st_w', hpw⟩, hvw, hb1, hb2, hb3, hb4, hb5, _⟩ := fv_descend hp hv hf hs ht hbig
            have hbw : (nestedWindow data fv k f j i).length + 8 < 2 ^ 64 := by
              unfold nestedWindow
              simp only [List.length_drop, List.length_take]
              omega
            have := locFv_bound h rest fuel_w _ 0 true st_w st_w' w l r hpw hvw hlw hpr hbw
            simp only
            omega
        · simp at hl
      · simp at hl

/-! ### detection along a path -/

set_option maxRecDepth 8192 in
/-- **detection along a path.**  `fv` was parsed from `data` and passes, everything below it included; the
    path selects a node at offset `loc.off`; every volume the path passes through keeps its files behind its
    headers; one protected byte of the selected node is altered; when the node is a file, its altered header
    is not the free-space marker.  Then every volume the parser reports on the altered bytes — from any
    process state, with any budget — fails validation.  No exclusion of signature bytes here: `parseFv` is
    handed the volume, it does not look for it (that is the scan's business, ValidateScan.lean). -/
theorem fv_path_detected (h : Hooks) : ∀ (path : Path) (fuel : Nat) (data data' : Bytes) (off : Nat) (rs : Bool)
    (st st1 : St) (fv : Fv) (loc : Loc) (r : Nat),
    parseFv h fuel data off rs st = .ok (fv, st1) → vFv fv = [] →
    locFv path fv = some loc → (∀ v ∈ loc.through, v.regular) →
    Alter data data' (loc.off + r) → loc.tgt.protects r → data.length + 8 < 2 ^ 64 →
    (∀ f, loc.tgt = .file f → ¬ FreeMarker data' loc.off) →
    ∀ fuel' off' rs' st' fv' st2, parseFv h fuel' data' off' rs' st' = .ok (fv', st2) → vFv fv' ≠ []
  | [], fuel, data, data', off, rs, st, st1, fv, loc, r, hp, hv, hl, hreg, ha, hpr, hbig, hfree => by
    intro fuel' off' rs' st' fv' st2 hp'
    simp only [locFv, Option.some.injEq] at hl
    subst hl
    simp only [Target.protects] at hpr
    simp only [Nat.zero_add] at ha
    have := fvHeader_alter_detected hp (vFv_nil hv).1 ha hpr hp'
    intro e
    exact this (vFv_nil e).1
  | [k], fuel, data, data', off, rs, st, st1, fv, loc, r, hp, hv, hl, hreg, ha, hpr, hbig, hfree => by
    simp only [locFv] at hl
    cases hf : fv.files[k]? with
    | none => rw [hf] at hl; simp at hl
    | some f =>
      rw [hf] at hl
      simp only [Option.some.injEq] at hl
      subst hl
      simp only [Target.protects] at hpr
      simp only [fileOff] at ha hfree hreg
      have hfiles := split_at_get _ _ _ hf
      obtain ⟨⟨fuel_k, st_k, st_k', hpk⟩, hb1, hb2⟩ := parseFv_file_reach hp hfiles hbig
      have hvf : vFile f = [] := by
        have := (vFv_nil hv).2
        rw [hfiles] at this
        exact vFiles_mid this
      generalize ho : align8 (startAfter (fv.files.take k) fv.info.dataOffset) = o at ha hfree hpk hb1
      have hak : Alter ((data.take fv.info.length).drop o) ((data'.take fv.info.length).drop o) r := by
        have := (ha.take_gt (n := fv.info.length) (by omega)).drop_le (n := o) (by omega)
        have e : o + r - o = r := by omega
        rwa [e] at this
      have hfm : ¬ FreeMarker ((data'.take fv.info.length).drop o) 0 := by
        intro hm
        have h1 := FreeMarker.of_take (FreeMarker.of_drop hm)
        rw [Nat.add_zero] at h1   -- (explicitly: the kernel must not be asked whether `align8 … + 0` is `align8 …`)
        exact hfree f rfl h1
      have inner := parseFile_target_detect hpk (vFile_nil hvf).1 hak hpr.1 hpr.2.1 hpr.2.2 hfm
      subst ho
      exact parseFv_files_detect h hp hv hfiles ha hpr.1 (hreg fv (by simp)) hbig inner
  | k :: j :: rest, fuel, data, data', off, rs, st, st1, fv, loc, r, hp, hv, hl, hreg, ha, hpr, hbig, hfree => by
    simp only [locFv] at hl
    cases hf : fv.files[k]? with
    | none => rw [hf] at hl; simp at hl
    | some f =>
      rw [hf] at hl
      simp only at hl
      split at hl
      · rename_i i sb w hs
        split at hl
        · rename_i ht
          cases hlw : locFv rest w with
          | none => rw [hlw] at hl; simp at hl
          | some l =>
            rw [hlw] at hl
            simp only [Option.map_some, Option.some.injEq] at hl
            subst hl
            simp only at ha hfree hreg hpr
            have hfiles := split_at_get _ _ _ hf
            have hsecs := split_at_get _ _ _ hs
            obtain ⟨⟨fuel_w, st_w, st_w', hpw⟩, hvw, hb1, hb2, hb3, hb4, hb5, ⟨fuel_k, st_k, st_k', hpk⟩, hvf,
              ⟨fuel_j, idx_j, st_j, st_j', hpj⟩⟩ := fv_descend hp hv hf hs ht hbig
            have hbw : (nestedWindow data fv k f j i).length + 8 < 2 ^ 64 := by
              unfold nestedWindow
              simp only [List.length_drop, List.length_take]
              omega
            have hbnd := locFv_bound h rest fuel_w _ 0 true st_w st_w' w l r hpw hvw hlw hpr hbw
            -- the alteration, seen through the windows of file, section and nested volume
            have hak : Alter ((data.take fv.info.length).drop (fileOff fv k))
                ((data'.take fv.info.length).drop (fileOff fv k)) (secOff f j + (fvimgHdrSize i + (l.off + r))) := by
              have := (ha.take_gt (n := fv.info.length) (by omega)).drop_le (n := fileOff fv k) (by omega)
              have e : fileOff fv k + (secOff f j + (fvimgHdrSize i + l.off)) + r - fileOff fv k =
                  secOff f j + (fvimgHdrSize i + (l.off + r)) := by omega
              rwa [e] at this
            have haj : Alter ((((data.take fv.info.length).drop (fileOff fv k)).take f.info.extSize).drop (secOff f j))
                ((((data'.take fv.info.length).drop (fileOff fv k)).take f.info.extSize).drop (secOff f j))
                (fvimgHdrSize i + (l.off + r)) := by
              have := (hak.take_gt (n := f.info.extSize) (by omega)).drop_le (n := secOff f j) (by omega)
              rwa [Nat.add_sub_cancel_left] at this
            have haw : Alter (nestedWindow data fv k f j i) (nestedWindow data' fv k f j i) (l.off + r) := by
              have := (haj.take_gt (n := i.extSize) (by omega)).drop_le (n := fvimgHdrSize i) (by omega)
              rwa [Nat.add_sub_cancel_left] at this
            -- volume ⊃ file ⊃ section ⊃ nested volume
            have ha0 : Alter data data'
                (align8 (startAfter (fv.files.take k) fv.info.dataOffset) + (secOff f j + (fvimgHdrSize i + (l.off + r)))) := by
              have e : align8 (startAfter (fv.files.take k) fv.info.dataOffset) + (secOff f j + (fvimgHdrSize i + (l.off + r))) =
                  fileOff fv k + (secOff f j + (fvimgHdrSize i + l.off)) + r := by unfold fileOff; omega
              rw [e]; exact ha
            refine parseFv_files_detect h hp hv hfiles ha0 (by omega) (hreg fv (by simp)) hbig ?_
            have hak' : Alter ((data.take fv.info.length).drop (fileOff fv k))
                ((data'.take fv.info.length).drop (fileOff fv k))
                (secAfter (f.secs.take j) f.info.dataOffset + (fvimgHdrSize i + (l.off + r))) := hak
            refine parseFile_sections_detect h hpk hvf hsecs hak' (s := .mk i sb [.fv w]) (by simp only [Section.info]; omega)
              (by rw [List.length_drop, List.length_take]; omega) ?_
            refine parseSection_fvimg_detect hpj ht haj ?_
            simp only [Section.info]
            refine fv_path_detected h rest fuel_w _ _ 0 true st_w st_w' w l r hpw hvw hlw
              (fun v hv' => hreg v (by simp [hv'])) haw hpr hbw ?_
            intro f0 hf0 hm
            have h1 := FreeMarker.of_take (FreeMarker.of_drop (FreeMarker.of_take (FreeMarker.of_drop
              (FreeMarker.of_take (FreeMarker.of_drop hm)))))
            exact hfree f0 hf0 h1
        · simp at hl
      · simp at hl

end Fiano.Uefi
