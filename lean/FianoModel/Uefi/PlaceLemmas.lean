/-
  C02, relayout layer (DESIGN Appendix A.1): where the file loop of `Assemble.Visit` puts a file.
-/
import FianoModel.Uefi.FileLemmas

namespace Fiano.Uefi
open EditArith
open Fiano

def roundUp (x a : Nat) : Nat := (x + a - 1) / a * a

/-- the data alignments other than 1 -/
def bigAligns : List Nat :=
  [16, 128, 512, 1024, 4096, 32768, 65536, 131072, 262144, 524288, 1048576, 2097152, 4194304, 8388608, 16777216]

/-- the arithmetic of the placement rule: aligned offset `al`, header length `hl`, alignment `a` -/
def placeAt (al hl a : Nat) : Nat :=
  let d := roundUp (al + hl) a
  let gap := d - hl - al
  if 8 ≤ gap ∧ gap < 24 then roundUp (d + 1) a - hl else d - hl

/-- **A.1**: the file lands at or after the aligned offset, on an 8-byte boundary, with its data
    aligned, and the gap left before it is either empty or can hold a pad file (≥ 24 bytes): the
    `gap ∈ [8,24)` bump is sufficient. -/
theorem placeAt_spec (al hl a : Nat) (ha : a ∈ bigAligns) (hhl : hl = 24 ∨ hl = 32) (h8 : al % 8 = 0) :
    al ≤ placeAt al hl a ∧ placeAt al hl a % 8 = 0 ∧ (placeAt al hl a + hl) % a = 0 ∧
    (placeAt al hl a = al ∨ al + 24 ≤ placeAt al hl a) ∧ placeAt al hl a < al + 2 * a := by
  unfold placeAt roundUp bigAligns at *
  simp only [List.mem_cons, List.mem_nil_iff, or_false] at ha
  rcases hhl with rfl | rfl <;>
  rcases ha with rfl | rfl | rfl | rfl | rfl | rfl | rfl | rfl | rfl | rfl | rfl | rfl | rfl | rfl | rfl <;>
  (simp only []; split <;> omega)

end Fiano.Uefi

namespace Fiano.Uefi
open EditArith
open Fiano

set_option maxRecDepth 16384 in
theorem alignmentOf_cases : ∀ attrs, attrs < 256 → alignmentOf attrs = 1 ∨ alignmentOf attrs ∈ bigAligns := by
  decide

set_option maxRecDepth 16384 in
/-- the reader's arithmetic decoding of the alignment bits is `fileAttr.GetAlignment` -/
theorem alignmentOf_eq_dataAlign : ∀ attrs, attrs < 256 → alignmentOf attrs = Valid.dataAlign attrs := by
  decide

theorem bigAligns_pow2 (a : Nat) (ha : a ∈ bigAligns) : ∃ k, k < 64 ∧ a = 2 ^ k ∧ a ≤ 16777216 ∧ 16 ≤ a := by
  unfold bigAligns at ha
  simp only [List.mem_cons, List.mem_nil_iff, or_false] at ha
  rcases ha with rfl | rfl | rfl | rfl | rfl | rfl | rfl | rfl | rfl | rfl | rfl | rfl | rfl | rfl | rfl
  · exact ⟨4, by decide⟩
  · exact ⟨7, by decide⟩
  · exact ⟨9, by decide⟩
  · exact ⟨10, by decide⟩
  · exact ⟨12, by decide⟩
  · exact ⟨15, by decide⟩
  · exact ⟨16, by decide⟩
  · exact ⟨17, by decide⟩
  · exact ⟨18, by decide⟩
  · exact ⟨19, by decide⟩
  · exact ⟨20, by decide⟩
  · exact ⟨21, by decide⟩
  · exact ⟨22, by decide⟩
  · exact ⟨23, by decide⟩
  · exact ⟨24, by decide⟩

theorem alignGo_big (v a : Nat) (ha : a ∈ bigAligns) (hv : v < 2 ^ 63) : alignGo v a = roundUp v a := by
  obtain ⟨k, hk, rfl, hle, _⟩ := bigAligns_pow2 a ha
  rw [alignGo_pow2 v k hk (by omega)]
  rfl

/-- header length as the file loop sees it (`File.HeaderLen`) -/
def hdrLen (attrs : Nat) : Nat := if attrs % 2 = 1 then 32 else 24

/-- where the loop puts a file whose predecessor ended at `off` -/
def fileStart (off attrs : Nat) : Nat :=
  let al := roundUp off 8
  if alignmentOf attrs = 1 then al else placeAt al (hdrLen attrs) (alignmentOf attrs)

/-- the bytes one loop iteration appends: erased filler to the 8-byte boundary, a pad file if the
    file has to move further, the file -/
def layOne (pol : UInt8) (off attrs : Nat) (fb : Bytes) : Bytes :=
  let al := roundUp off 8
  let n := fileStart off attrs
  List.replicate (al - off) pol ++
    (if n = al then [] else (checksumAndAssemble (padInfo pol (n - al) 24) (List.replicate (padDataLen (n - al)) pol)).2)
    ++ fb

theorem roundUp8_ge (off : Nat) : off ≤ roundUp off 8 ∧ roundUp off 8 % 8 = 0 ∧ roundUp off 8 < off + 8 := by
  unfold roundUp; omega

theorem fileStart_spec (off attrs : Nat) (ha : attrs < 256) :
    roundUp off 8 ≤ fileStart off attrs ∧ fileStart off attrs % 8 = 0 ∧
    (fileStart off attrs + hdrLen attrs) % Valid.dataAlign attrs = 0 ∧
    (fileStart off attrs = roundUp off 8 ∨ roundUp off 8 + 24 ≤ fileStart off attrs) ∧
    fileStart off attrs < off + 8 + 2 * 16777216 := by
  have h8 := roundUp8_ge off
  unfold fileStart
  simp only
  rcases alignmentOf_cases attrs ha with h1 | hb
  · rw [if_pos h1, ← alignmentOf_eq_dataAlign attrs ha, h1]
    refine ⟨Nat.le_refl _, h8.2.1, Nat.mod_one _, Or.inl rfl, by omega⟩
  · have hne : alignmentOf attrs ≠ 1 := by
      intro h; rw [h] at hb; revert hb; decide
    rw [if_neg hne, ← alignmentOf_eq_dataAlign attrs ha]
    have hl : hdrLen attrs = 24 ∨ hdrLen attrs = 32 := by unfold hdrLen; split <;> simp
    have := placeAt_spec (roundUp off 8) (hdrLen attrs) (alignmentOf attrs) hb hl h8.2.1
    obtain ⟨_, _, _, hle, _⟩ := bigAligns_pow2 _ hb
    exact ⟨this.1, this.2.1, this.2.2.1, this.2.2.2.1, by omega⟩

end Fiano.Uefi

namespace Fiano.Uefi
open EditArith
open Fiano

/-- the bytes of the pad file of `size` bytes -/
def padBytes (pol : UInt8) (size : Nat) : Bytes :=
  (checksumAndAssemble (padInfo pol size 24) (List.replicate (padDataLen size) pol)).2

theorem padBytes_length (pol : UInt8) (size : Nat) (h24 : 24 ≤ size) (h64 : size < 2 ^ 64) (hp : pol = 0xFF ∨ pol = 0) :
    (padBytes pol size).length = size := by
  unfold padBytes
  have hs := padInfo_sizeFields pol size 24 h24 h64 hp
  rw [casm_length _ _ hs.guid, extBytes_length]
  unfold padInfo padDataLen setSize
  by_cases hb : size ≥ 0xFFFFFF
  · simp [hb]; omega
  · simp [hb]; omega

theorem padBytes_doff (pol : UInt8) (size d : Nat) :
    (checksumAndAssemble (padInfo pol size d) (List.replicate (padDataLen size) pol)).2 = padBytes pol size := by
  unfold padBytes checksumAndAssemble padInfo
  rfl

theorem placeFile_eq (pol : UInt8) (buf : Bytes) (off attrs : Nat) (fb : Bytes) (hp : pol = 0xFF ∨ pol = 0)
    (ha : attrs < 256) (hlen : buf.length = off) (hoff : off < 2 ^ 62) (hfb : fb.length ≠ 0) :
    placeFile pol buf off attrs fb = .ok (buf ++ layOne pol off attrs fb, fileStart off attrs + fb.length) := by
  have h8 := roundUp8_ge off
  have hspec := fileStart_spec off attrs ha
  have hal : align8 off = roundUp off 8 := by
    rw [align8_eq off (by omega)]; unfold roundUp; omega
  unfold placeFile
  rw [if_neg hfb]
  simp only [hal]
  unfold layOne fileStart at *
  simp only at *
  rcases alignmentOf_cases attrs ha with h1 | hb
  · rw [if_pos h1] at hspec ⊢
    simp only [h1, ne_eq, not_true_eq_false, if_false, if_true]
    unfold insertFile
    rw [if_neg (by omega), if_neg hfb, hlen]
    simp
  · have hne : alignmentOf attrs ≠ 1 := by
      intro h; rw [h] at hb; revert hb; decide
    obtain ⟨k, hk, hak, hle, hge⟩ := bigAligns_pow2 _ hb
    rw [if_neg hne] at hspec ⊢
    rw [if_pos hne]
    have hhl : (if attrs &&& 1 ≠ 0 then 32 else 24) = hdrLen attrs := by
      unfold hdrLen
      by_cases h : attrs &&& 1 ≠ 0
      · rw [if_pos h, if_pos ((and_one_ne_zero _).mp h)]
      · rw [if_neg h, if_neg (fun c => h ((and_one_ne_zero _).mpr c))]
    rw [hhl]
    have hl : hdrLen attrs = 24 ∨ hdrLen attrs = 32 := by unfold hdrLen; split <;> simp
    generalize hdrLen attrs = hl' at *
    generalize hA : alignmentOf attrs = a at *
    have hr1 : alignGo (roundUp off 8 + hl') a = roundUp (roundUp off 8 + hl') a :=
      alignGo_big _ _ hb (by omega)
    have hd : roundUp off 8 + hl' ≤ roundUp (roundUp off 8 + hl') a ∧
        roundUp (roundUp off 8 + hl') a < roundUp off 8 + hl' + a := by
      unfold roundUp
      have hpos : 0 < a := by omega
      constructor
      · have := Nat.div_add_mod ((off + 8 - 1) / 8 * 8 + hl' + a - 1) a
        have hm := Nat.mod_lt ((off + 8 - 1) / 8 * 8 + hl' + a - 1) hpos
        rw [Nat.mul_comm] at this
        omega
      · have := Nat.div_add_mod ((off + 8 - 1) / 8 * 8 + hl' + a - 1) a
        rw [Nat.mul_comm] at this
        omega
    rw [hr1]
    have hr2 : alignGo (roundUp (roundUp off 8 + hl') a + 1) a = roundUp (roundUp (roundUp off 8 + hl') a + 1) a :=
      alignGo_big _ _ hb (by omega)
    rw [hr2]
    have e1 : (roundUp (roundUp off 8 + hl') a + 18446744073709551616 - hl') % 18446744073709551616 =
        roundUp (roundUp off 8 + hl') a - hl' := by omega
    rw [e1]
    have e2 : (roundUp (roundUp off 8 + hl') a - hl' + 18446744073709551616 - roundUp off 8) % 18446744073709551616 =
        roundUp (roundUp off 8 + hl') a - hl' - roundUp off 8 := by omega
    rw [e2]
    have hd2 : roundUp (roundUp off 8 + hl') a + 1 ≤ roundUp (roundUp (roundUp off 8 + hl') a + 1) a ∧
        roundUp (roundUp (roundUp off 8 + hl') a + 1) a < roundUp (roundUp off 8 + hl') a + 1 + a := by
      generalize roundUp (roundUp off 8 + hl') a = d
      unfold roundUp
      have hpos : 0 < a := by omega
      constructor
      · have := Nat.div_add_mod (d + 1 + a - 1) a
        have hm := Nat.mod_lt (d + 1 + a - 1) hpos
        rw [Nat.mul_comm] at this
        omega
      · have := Nat.div_add_mod (d + 1 + a - 1) a
        rw [Nat.mul_comm] at this
        omega
    have e3 : (roundUp (roundUp (roundUp off 8 + hl') a + 1) a + 18446744073709551616 - hl') % 18446744073709551616 =
        roundUp (roundUp (roundUp off 8 + hl') a + 1) a - hl' := by omega
    rw [e3]
    -- the offset chosen by the loop is `placeAt`
    have hP : (if roundUp (roundUp off 8 + hl') a - hl' - roundUp off 8 ≥ 8 ∧
          roundUp (roundUp off 8 + hl') a - hl' - roundUp off 8 < 24
        then roundUp (roundUp (roundUp off 8 + hl') a + 1) a - hl' else roundUp (roundUp off 8 + hl') a - hl') =
        placeAt (roundUp off 8) hl' a := by
      unfold placeAt
      simp only [ge_iff_le]
    rw [hP]
    generalize placeAt (roundUp off 8) hl' a = n at *
    by_cases hn : n = roundUp off 8
    · rw [if_neg (by simpa using hn), if_pos hn]
      unfold insertFile
      rw [if_neg (by omega), if_neg hfb, hlen]
      simp [hn]
    · rw [if_pos hn, if_neg hn]
      have hge24 : 24 ≤ n - roundUp off 8 := by omega
      have e4 : (n + 18446744073709551616 - roundUp off 8) % 18446744073709551616 = n - roundUp off 8 := by omega
      rw [e4, createPadFile_eq pol _ hge24 hp]
      simp only [padBytes_doff]
      have hpl := padBytes_length pol (n - roundUp off 8) hge24 (by omega) hp
      unfold insertFile
      rw [if_neg (by omega), if_neg (by omega)]
      simp only
      rw [if_neg (by simp [hlen, hpl]; omega), if_neg hfb]
      simp [hlen, hpl]
      have : n - (off + (roundUp off 8 - off + (n - roundUp off 8))) = 0 := by omega
      rw [this]

end Fiano.Uefi
