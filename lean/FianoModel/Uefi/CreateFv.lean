/-
  C02 (follow-up wp-c02b): model of `create-fv` (pkg/visitors/createfv.go) on top of the shared
  edit model.

  `utk <image> create-fv <abs> <size> <name>` replaces a part of a BIOS padding by an empty FFSv2
  volume: `CreateFV.Visit` stops at the first BIOS region, looks for the first `BIOSPadding` that
  contains `[abs, abs+size)`, builds the volume with `createEmptyFirmwareVolume` (72-byte header
  with a one-entry block map of 4096-byte blocks, the extended header — the volume name — wrapped in
  a pad file right behind it, free space in the erase polarity of the moment) and splits the padding
  around it (`insertFVinBP`).  The new `FirmwareVolume` node has **no** `Files` (the pad file with
  the extended header is bytes of its buffer in front of `DataOffset`), so `Assemble` keeps its
  buffer until a file is inserted.

  Domain: `abs + size < 2^64` (the Go comparisons are on uint64 and wrap; the harness never sends
  such numbers; the guard of the validity theorem demands it).  Command-line parsing of the three
  arguments (`strconv.ParseUint`, `guid.Parse`) is not modelled: a `create-fv` command is its three
  parsed values.

  This file is new and owned by C02; it edits nothing the other properties import.
-/
import FianoModel.Uefi.Visitors

namespace Fiano.Uefi
open Fiano

/-- the pad file that carries the extended header: `CreatePadFile(24 + 20)` followed by
    `ChecksumAndAssemble(extHeader)` on the same `File` (whose header checksum is already in place) -/
def extPadFile (pol : UInt8) (name : Guid) : Except Err Bytes :=
  if pol ≠ 0xFF ∧ pol ≠ 0 then .error .err
  else
    let (attrs, size3, ext) := setSize 0 44 false
    let i : FileInfo := { guid := if pol = 0xFF then guidFF else guidZero, ckHeader := 0, ckFile := 0,
                          type := 0xF0, attrs := attrs, size3 := size3,
                          state := (0x07 ^^^ pol).toNat, extSize := ext, dataOffset := 0 }
    let i1 := (checksumAndAssemble i (List.replicate 20 pol)).1
    .ok (checksumAndAssemble i1 (name.take 16 ++ leN 4 20)).2

/-- the 72 header bytes `binary.Write` produces for the fixed header and the two block entries,
    checksum field still zero -/
def newFvHeader0 (size : Nat) : Bytes :=
  List.replicate 16 0 ++ guidFFS2 ++ leN 8 size ++ [0x5F, 0x46, 0x56, 0x48] ++ leN 4 0x0004FEFF ++ leN 2 72 ++
    [0, 0] ++ leN 2 0x60 ++ [0, 2] ++ leN 4 ((size / 4096) % 4294967296) ++ leN 4 4096 ++ leN 4 0 ++ leN 4 0

/-- … and with the checksum patched in at offset 50 -/
def newFvHeader (size : Nat) : Bytes :=
  splice (newFvHeader0 size) 50 (leN 2 ((0 - sum16 ((newFvHeader0 size).take 72)).toNat))

/-- `createEmptyFirmwareVolume(fvOffset, size, &name)` under erase polarity `pol` -/
def createEmptyFv (pol : UInt8) (fvOffset size : Nat) (name : Guid) : Except Err Fv :=
  if size = 0 ∨ size % 4096 ≠ 0 then .error .err
  else
    match extPadFile pol name with
    | .error e => .error e
    | .ok ef =>
      match insertFile pol (newFvHeader size) 72 ef with
      | .error e => .error e
      | .ok b1 =>
        let i : FvInfo := {
          fsGuid := guidFFS2, length := size, signature := 0x4856465F, attrs := 0x0004FEFF, headerLen := 72,
          checksum := 0,           -- (Q) the struct field is never updated, only the buffer
          extHeaderOffset := 0x60, reserved := 0, revision := 2,
          blocks := [⟨(size / 4096) % 4294967296, 4096⟩, ⟨0, 0⟩],
          fvName := name.take 16, extHeaderSize := 20,
          dataOffset := 120,       -- Align8(72 + 44)
          fvOffset := fvOffset, resizable := false, freeSpace := size - 120 }
        .ok (.mk i (b1 ++ List.replicate (size - 116) pol) [])

/-- the loop over `f.Elements` and `insertFVinBP`: the first padding that contains `[abs, abs+size)`
    is split around the new volume; `base` is the flash offset of the region -/
def createFvElems (base abs size : Nat) (mk : Except Err Fv) : List BiosElem → Except Err (List BiosElem)
  | [] => .error .err           -- "no matching BIOS Pad found"
  | .fv v :: es =>
    match createFvElems base abs size mk es with
    | .error e => .error e
    | .ok es' => .ok (.fv v :: es')
  | .pad p o :: es =>
    if abs ≥ base + o ∧ abs + size ≤ base + o + p.length then
      -- repaired (fixes/C02-createfv-align): the volume scan probes every 8 bytes from the start of the padding
      if (abs - (base + o)) % 8 ≠ 0 then .error .err else
      match mk with
      | .error e => .error e
      | .ok fv =>
        let rel := abs - base
        let head : List BiosElem := if o < rel then [.pad (p.take (rel - o)) o] else []
        let tail : List BiosElem := if rel - o + size < p.length then [.pad (p.drop (rel - o + size)) (rel + size)] else []
        .ok (head ++ [.fv fv] ++ tail ++ es)
    else
      match createFvElems base abs size mk es with
      | .error e => .error e
      | .ok es' => .ok (.pad p o :: es')

/-- the `*uefi.BIOSRegion` case of `CreateFV.Visit` -/
def createFvBios (pol : UInt8) (abs size : Nat) (name : Guid) (b : BiosRegion) : Except Err BiosRegion :=
  let base := match b.fr with | some r => r.baseOffset | none => 0
  let end_ := match b.fr with | some r => r.endOffset | none => b.length
  if abs < base then .error .err
  else if abs + size > end_ then .error .err
  else
    match createFvElems base abs size (createEmptyFv pol (abs - base) size name) b.elems with
    | .error e => .error e
    | .ok es => .ok { b with elems := es }

/-- the walk over the regions of a flash image: the first BIOS region decides -/
def createFvRegions (pol : UInt8) (abs size : Nat) (name : Guid) : List Region → Except Err (List Region)
  | [] => .error .err           -- "no BIOS region found"
  | .bios b :: rs =>
    match createFvBios pol abs size name b with
    | .error e => .error e
    | .ok b' => .ok (.bios b' :: rs)
  | .me x fr :: rs =>
    match createFvRegions pol abs size name rs with
    | .error e => .error e
    | .ok rs' => .ok (.me x fr :: rs')
  | .raw x fr t :: rs =>
    match createFvRegions pol abs size name rs with
    | .error e => .error e
    | .ok rs' => .ok (.raw x fr t :: rs')

/-- `CreateFV.Run` -/
def createFvOp (pol : UInt8) (abs size : Nat) (name : Guid) : Tree → Except Err Tree
  | .bios b =>
    match createFvBios pol abs size name b with
    | .error e => .error e
    | .ok b' => .ok (.bios b')
  | .flash f =>
    match createFvRegions pol abs size name f.regions with
    | .error e => .error e
    | .ok rs => .ok (.flash { f with regions := rs })

/-! ### command lines with `create-fv` -/

inductive Op2 where
  | base (op : Op)
  | createFv (abs size : Nat) (name : Guid)

inductive OpSpec2 where
  | base (s : OpSpec)
  | createFv (abs size : Nat) (name : Guid)

def cliParse2 (h : Hooks) : List OpSpec2 → St → Except Err (List Op2 × St)
  | [], st => .ok ([], st)
  | .base s :: ss, st =>
    match cliOne h st s with
    | .error e => .error e
    | .ok (op, st') =>
      match cliParse2 h ss st' with
      | .error e => .error e
      | .ok (ops, st'') => .ok (.base op :: ops, st'')
  | .createFv a z n :: ss, st =>
    match cliParse2 h ss st with
    | .error e => .error e
    | .ok (ops, st') => .ok (.createFv a z n :: ops, st')

/-- `v.Run(f)` for one visitor; `create-fv` never looks at a file list, so the nil file of
    `insertNilOp` does not disturb it -/
def step2 (h : Hooks) (op : Op2) (s : Run) : Except Err Run :=
  match op with
  | .base op => step h op s
  | .createFv a z n =>
    match createFvOp s.st.pol a z n s.tree with
    | .error e => .error e
    | .ok t => .ok { s with tree := t }

def run2 (h : Hooks) : List Op2 → Run → Except Err Run
  | [], s => .ok s
  | op :: ops, s =>
    match step2 h op s with
    | .error e => .error e
    | .ok s' => run2 h ops s'

def utk2 (h : Hooks) (image : Bytes) (specs : List OpSpec2) : Except Err Run :=
  match cliParse2 h specs {} with
  | .error e => .error e
  | .ok (ops, st) =>
    match parseWith h (defaultFuel image) image st with
    | .error e => .error e
    | .ok (t, st') => run2 h ops { tree := t, st := st' }

end Fiano.Uefi
