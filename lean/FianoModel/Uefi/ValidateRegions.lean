/-
  C09a: `regionsValid` (every region of `Spec.tree` of a flash image carries a valid table entry — the
  conjunct of `Spec.Sound` that was a decidable hypothesis) follows from well-formedness `Spec.WF`:
  a region the table describes carries the selected (hence valid) entry of its kind, a gap region carries
  the entry the reader synthesises from its position, which is valid because the flash has fewer than
  0xFFFF blocks.
  Core Lean only.
-/
import FianoModel.Uefi.ValidateSpec
import FianoModel.Uefi.Lemmas.Flash

namespace Fiano.Uefi.C09
open Fiano Fiano.Uefi Fiano.Uefi.Spec

theorem selectEntries_valid (nr total : Nat) : ∀ (frs : List FlashRegion) (i j : Nat) (fr : FlashRegion),
    (j, fr) ∈ selectEntries nr total frs i → fr.valid = true
  | [], _, _, _, h => by simp [selectEntries] at h
  | x :: xs, i, j, fr, h => by
    simp only [selectEntries] at h
    split at h
    · cases h
    · split at h
      · rename_i hv
        rcases List.mem_cons.mp h with he | he
        · cases he; exact hv.1
        · exact selectEntries_valid nr total xs (i + 1) j fr he
      · exact selectEntries_valid nr total xs (i + 1) j fr h

def regionOk (r : Region) : Bool :=
  match r.fr with
  | some fr => fr.valid
  | none => false

theorem serRegs_blocks (r : RegI) (rs : List RegI) (h : r.data.length % 4096 = 0) :
    (serRegs (r :: rs)).length / 4096 = r.blocks + (serRegs rs).length / 4096 := by
  rw [serRegs_cons, List.length_append]
  unfold RegI.blocks
  omega

/-- along `matchRegs`: every region of the tree carries a valid entry -/
theorem treeRegs_valid (tbl : List FlashRegion) : ∀ (rs : List RegI) (blk : Nat) (es : List (Nat × FlashRegion)),
    matchRegs rs blk es = true → (∀ e ∈ es, tbl[e.1]? = some e.2 ∧ e.2.valid = true) → 1 ≤ blk →
    blk + (serRegs rs).length / 4096 ≤ 65535 → (treeRegs tbl rs blk).all regionOk = true
  | [], _, _, _, _, _, _ => by simp [treeRegs]
  | r :: rs, blk, es, h, hes, hblk, hbound => by
    rw [treeRegs_cons]
    simp only [List.all_cons, Bool.and_eq_true]
    by_cases hg : r.isGap = true
    · obtain ⟨h1, h2, _, h4⟩ := matchRegs_gap hg h
      rw [serRegs_blocks r rs h1] at hbound
      refine ⟨?_, treeRegs_valid tbl rs _ es h4 hes (by omega) (by omega)⟩
      cases r with
      | gap d =>
        simp only [regNode, regionOk, Region.fr, FlashRegion.valid, Bool.and_eq_true, decide_eq_true_eq, bne_iff_ne, ne_eq]
        generalize (RegI.gap d).blocks = n at h2 hbound ⊢
        omega
      | bios b => simp [RegI.isGap] at hg
      | me d => simp [RegI.isGap] at hg
      | raw j d => simp [RegI.isGap] at hg
    · have hg' : r.isGap = false := by simpa using hg
      obtain ⟨h1, h2, i, fr, es', hes', hk, _, _, hrest⟩ := matchRegs_nongap hg' h
      subst hes'
      rw [serRegs_blocks r rs h1] at hbound
      obtain ⟨hget, hval⟩ := hes (i, fr) (by simp)
      simp only at hget hval
      have hgd : ∀ d, tbl.getD i d = fr := by
        intro d
        rw [List.getD_eq_getElem?_getD, hget]; rfl
      refine ⟨?_, treeRegs_valid tbl rs _ es' hrest (fun e he => hes e (by simp [he])) (by omega) (by omega)⟩
      rcases kindOk_cases hk with ⟨rfl, b, rfl⟩ | ⟨rfl, d, rfl⟩ | ⟨_, d, rfl⟩
      · simp only [regNode, regionOk, Region.fr, treeBios, hgd]; exact hval
      · simp only [regNode, regionOk, Region.fr, hgd]; exact hval
      · simp only [regNode, regionOk, Region.fr, hgd]; exact hval

/-- **`regionsValid` is a consequence of well-formedness** -/
theorem wfFlash_regionsValid (f : FlashI) (h : wfFlash f = true) : regionsValid f = true := by
  unfold wfFlash at h
  simp only [Bool.and_eq_true, decide_eq_true_eq, beq_iff_eq] at h
  obtain ⟨⟨⟨⟨⟨⟨⟨⟨_, _⟩, _⟩, _⟩, htot⟩, _⟩, _⟩, _⟩, hmatch⟩ := h
  unfold regionsValid
  have := treeRegs_valid (treeDesc f.desc).region.regions f.regions 1 _ hmatch
    (by
      intro e he
      obtain ⟨j, fr⟩ := e
      rw [mem_sortEntries] at he
      obtain ⟨_, hget⟩ := mem_selectEntries _ _ _ _ _ _ he
      exact ⟨by simpa using hget, selectEntries_valid _ _ _ _ _ _ he⟩)
    (by omega) (by omega)
  exact this

/-- `Valid` without the region-entry conjunct is `Valid` -/
theorem sound_of_wf_flash (f : FlashI) (hw : wfFlash f = true) (hd : soundDesc f.desc = true)
    (hr : f.regions.all soundReg = true) : sound (.flash f) = true := by
  simp only [sound, soundFlash, Bool.and_eq_true]
  exact ⟨⟨hd, hr⟩, wfFlash_regionsValid f hw⟩

end Fiano.Uefi.C09
