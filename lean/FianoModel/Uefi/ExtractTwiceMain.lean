/-
  UEFI core model — saving is a fixed point in memory: sections, files, volumes (follow-up wp-c07b).

  `fxX x1` is the side condition on the tree the first `Assemble` pass wrote (see ExtractTwiceFv.lean):
  in every volume with files, at every depth, the buffer is no longer than `Length`, `DataOffset ≥ 60`,
  the file attribute bytes are below 256 and the re-laid files end below 2^62.

  `asmX_idem`:  okX x → pol set → asmX h x st = .ok (x1, st1) → fxX x1 →
                st1.pol = st.pol ∧ asmX h x1 st = .ok (x1, st1)
  by mutual structural induction, for every hook set.
-/
import FianoModel.Uefi.ExtractTwiceFv

namespace Fiano.Uefi
open Fiano

/-! ### the Section case after the visit of the children -/

theorem regenLeaf_some_type (i : SecInfo) (b : Bytes) (h : regenLeaf i = .ok (some b)) : i.type ≠ 2 := by
  intro h2
  unfold regenLeaf at h
  rw [h2] at h
  simp [isDepexType] at h

theorem asmSectionTail_idem (h : Hooks) (i : SecInfo) (buf : Bytes) (e1 : List Node) (sta : St) (s1 : Section) (st1 : St)
    (hk : e1 = [] ∨ keepsBuf i = false) (ht : asmSectionTail h i buf e1 sta = .ok (s1, st1)) :
    ∃ i' buf', s1 = .mk i' buf' e1 ∧ st1.pol = sta.pol ∧ asmSectionTail h i' buf' e1 sta = .ok (s1, st1) := by
  cases e1 with
  | nil =>
    simp only [asmSectionTail] at ht ⊢
    cases hr : regenLeaf i with
    | error e => rw [hr] at ht; cases ht
    | ok o =>
      rw [hr] at ht
      cases o with
      | none =>
        simp only [] at ht
        cases ht
        exact ⟨i, buf, rfl, rfl, by rw [hr]⟩
      | some body =>
        simp only [] at ht
        cases hg : genSecHeader i body with
        | error e => rw [hg] at ht; cases ht
        | ok p =>
          obtain ⟨i', buf'⟩ := p
          rw [hg] at ht
          simp only [] at ht
          cases ht
          obtain ⟨hg2, _, hsum, _⟩ := genSecHeader_idem i i' body buf' hg
          have hty := regenLeaf_some_type i body hr
          refine ⟨i', buf', rfl, tw_noteLarge_pol _ _, ?_⟩
          rw [regenLeaf_key i' i (hsum hty), hr]
          simp only []
          rw [hg2]
  | cons a t =>
    have hkb : keepsBuf i = false := by
      rcases hk with hk | hk
      · cases hk
      · exact hk
    simp only [asmSectionTail] at ht ⊢
    cases hb : secBody h i buf (joinPad4 (List.map Node.buf (a :: t)) []) with
    | error e => rw [hb] at ht; cases ht
    | ok body =>
      rw [hb] at ht
      simp only [] at ht
      cases hg : genSecHeader i body with
      | error e => rw [hg] at ht; cases ht
      | ok p =>
        obtain ⟨i', buf'⟩ := p
        rw [hg] at ht
        simp only [] at ht
        cases ht
        obtain ⟨hg2, hty, _, hts⟩ := genSecHeader_idem i i' body buf' hg
        refine ⟨i', buf', rfl, tw_noteLarge_pol _ _, ?_⟩
        rw [secBody_idem h i i' buf buf' _ body hty hts hkb hb]
        simp only []
        rw [hg2]

/-! ### the File case after the visit of the sections -/

theorem setSize_idem (attrs size : Nat) :
    setSize (setSize attrs size true).1 size true = setSize attrs size true := by
  unfold setSize
  by_cases hs : size ≥ 0xFFFFFF
  · simp only [hs, ↓reduceIte, Nat.or_assoc, Nat.or_self]
  · simp only [hs, ↓reduceIte, Nat.and_assoc]
    rfl

theorem asmFileTail_idem (i : FileInfo) (buf : Bytes) (ss : List Section) (st : St) (hn : i.nvar = none)
    (hg : i.guid.length = 16) :
    ∃ i2 buf2, (asmFileTail i buf ss st).1 = .mk i2 buf2 ss ∧ i2.nvar = none ∧
      asmFileTail i2 buf2 ss st = asmFileTail i buf ss st := by
  cases ss with
  | nil => exact ⟨i, buf, rfl, hn, rfl⟩
  | cons a t =>
    simp only [asmFileTail]
    generalize joinPad4 (List.map Section.buf (a :: t)) [] = d
    have hid := setSize_idem i.attrs (24 + d.length)
    generalize hss : setSize i.attrs (24 + d.length) true = r at hid
    obtain ⟨A, S, E⟩ := r
    simp only [] at hid ⊢
    have hce := checksumAndAssemble_eq { i with attrs := A, size3 := S, extSize := E } d hg
    rw [hce]
    simp only []
    refine ⟨_, _, rfl, hn, ?_⟩
    rw [hid]
    simp only []
    have hck := checksumAndAssemble_ck { i with attrs := A, size3 := S, extSize := E }
      (ckhOf { i with attrs := A, size3 := S, extSize := E }).toNat
      (ckfOf { i with attrs := A, size3 := S, extSize := E } d).toNat d hg
    simp only [] at hck
    rw [hck, hce]

/-! ### the second pass returns what the first pass wrote -/

mutual
theorem asmSection_idem (h : Hooks) : ∀ (s : Section) (st : St) (s1 : Section) (st1 : St),
    okSection s = true → st.pol ≠ 0xF0 → asmSection h s st = .ok (s1, st1) → fxSection s1 = true →
    st1.pol = st.pol ∧ asmSection h s1 st = .ok (s1, st1)
  | .mk i buf e, st, s1, st1, hok, hp, ha, hfx => by
    simp only [okSection, Bool.and_eq_true, Bool.or_eq_true, Bool.not_eq_true'] at hok
    rw [asmSection_eq] at ha
    cases hn : asmNodes h e st with
    | error x => rw [hn] at ha; cases ha
    | ok p =>
      obtain ⟨e1, sta⟩ := p
      rw [hn] at ha
      simp only [] at ha
      have hk : e1 = [] ∨ keepsBuf i = false := by
        rcases hok.2 with he | hk
        · left
          have : e = [] := by simpa using he
          subst this
          simp only [asmNodes, Except.ok.injEq, Prod.mk.injEq] at hn
          exact hn.1.symm
        · exact Or.inr hk
      obtain ⟨i', buf', rfl, hpol, ht2⟩ := asmSectionTail_idem h i buf e1 sta s1 st1 hk ha
      simp only [fxSection] at hfx
      obtain ⟨ih1, ih2⟩ := asmNodes_idem h e st e1 sta hok.1 hp hn hfx
      refine ⟨by rw [hpol, ih1], ?_⟩
      rw [asmSection_eq, ih2]
      exact ht2
theorem asmNodes_idem (h : Hooks) : ∀ (ns : List Node) (st : St) (ns1 : List Node) (st1 : St),
    okNodes ns = true → st.pol ≠ 0xF0 → asmNodes h ns st = .ok (ns1, st1) → fxNodes ns1 = true →
    st1.pol = st.pol ∧ asmNodes h ns1 st = .ok (ns1, st1)
  | [], st, ns1, st1, _, _, ha, _ => by
    simp only [asmNodes, Except.ok.injEq, Prod.mk.injEq] at ha
    obtain ⟨rfl, rfl⟩ := ha
    exact ⟨rfl, rfl⟩
  | .sec s :: t, st, ns1, st1, hok, hp, ha, hfx => by
    simp only [okNodes, Bool.and_eq_true] at hok
    rw [asmNodes] at ha
    cases h1 : asmSection h s st with
    | error x => rw [h1] at ha; cases ha
    | ok p =>
      obtain ⟨s', sta⟩ := p
      rw [h1] at ha
      simp only [] at ha
      cases h2 : asmNodes h t sta with
      | error x => rw [h2] at ha; cases ha
      | ok q =>
        obtain ⟨t', stb⟩ := q
        rw [h2] at ha
        simp only [Except.ok.injEq, Prod.mk.injEq] at ha
        obtain ⟨rfl, rfl⟩ := ha
        simp only [fxNodes, Bool.and_eq_true] at hfx
        obtain ⟨a1, a2⟩ := asmSection_idem h s st s' sta hok.1 hp h1 hfx.1
        obtain ⟨b1, b2⟩ := asmNodes_idem h t sta t' stb hok.2 (by rw [a1]; exact hp) h2 hfx.2
        refine ⟨by rw [b1, a1], ?_⟩
        rw [asmNodes, a2]
        simp only []
        rw [b2]
  | .fv v :: t, st, ns1, st1, hok, hp, ha, hfx => by
    simp only [okNodes, Bool.and_eq_true] at hok
    rw [asmNodes] at ha
    cases h1 : asmFv h v st with
    | error x => rw [h1] at ha; cases ha
    | ok p =>
      obtain ⟨v', sta⟩ := p
      rw [h1] at ha
      simp only [] at ha
      cases h2 : asmNodes h t sta with
      | error x => rw [h2] at ha; cases ha
      | ok q =>
        obtain ⟨t', stb⟩ := q
        rw [h2] at ha
        simp only [Except.ok.injEq, Prod.mk.injEq] at ha
        obtain ⟨rfl, rfl⟩ := ha
        simp only [fxNodes, Bool.and_eq_true] at hfx
        obtain ⟨a1, a2⟩ := asmFv_idem h v st v' sta hok.1 hp h1 hfx.1
        obtain ⟨b1, b2⟩ := asmNodes_idem h t sta t' stb hok.2 (by rw [a1]; exact hp) h2 hfx.2
        refine ⟨by rw [b1, a1], ?_⟩
        rw [asmNodes, a2]
        simp only []
        rw [b2]
theorem asmSections_idem (h : Hooks) : ∀ (ss : List Section) (st : St) (ss1 : List Section) (st1 : St),
    okSections ss = true → st.pol ≠ 0xF0 → asmSections h ss st = .ok (ss1, st1) → fxSections ss1 = true →
    st1.pol = st.pol ∧ asmSections h ss1 st = .ok (ss1, st1)
  | [], st, ss1, st1, _, _, ha, _ => by
    simp only [asmSections, Except.ok.injEq, Prod.mk.injEq] at ha
    obtain ⟨rfl, rfl⟩ := ha
    exact ⟨rfl, rfl⟩
  | s :: t, st, ss1, st1, hok, hp, ha, hfx => by
    simp only [okSections, Bool.and_eq_true] at hok
    rw [asmSections] at ha
    cases h1 : asmSection h s st with
    | error x => rw [h1] at ha; cases ha
    | ok p =>
      obtain ⟨s', sta⟩ := p
      rw [h1] at ha
      simp only [] at ha
      cases h2 : asmSections h t sta with
      | error x => rw [h2] at ha; cases ha
      | ok q =>
        obtain ⟨t', stb⟩ := q
        rw [h2] at ha
        simp only [Except.ok.injEq, Prod.mk.injEq] at ha
        obtain ⟨rfl, rfl⟩ := ha
        simp only [fxSections, Bool.and_eq_true] at hfx
        obtain ⟨a1, a2⟩ := asmSection_idem h s st s' sta hok.1 hp h1 hfx.1
        obtain ⟨b1, b2⟩ := asmSections_idem h t sta t' stb hok.2 (by rw [a1]; exact hp) h2 hfx.2
        refine ⟨by rw [b1, a1], ?_⟩
        rw [asmSections, a2]
        simp only []
        rw [b2]
theorem asmFile_idem (h : Hooks) : ∀ (f : File) (st : St) (f1 : File) (st1 : St),
    okFile f = true → st.pol ≠ 0xF0 → asmFile h f st = .ok (f1, st1) → fxFile f1 = true →
    st1.pol = st.pol ∧ asmFile h f1 st = .ok (f1, st1)
  | .mk i buf secs, st, f1, st1, hok, hp, ha, hfx => by
    simp only [okFile, Bool.and_eq_true, Option.isNone_iff_eq_none, beq_iff_eq] at hok
    obtain ⟨⟨hnv, hg⟩, hoks⟩ := hok
    rw [asmFile_eq h i buf secs st hnv] at ha
    cases h1 : asmSections h secs st with
    | error x => rw [h1] at ha; cases ha
    | ok p =>
      obtain ⟨ss1, sta⟩ := p
      rw [h1] at ha
      simp only [Except.ok.injEq] at ha
      obtain ⟨i2, buf2, e1, hnv2, e2⟩ := asmFileTail_idem i buf ss1 sta hnv hg
      have hf1 : f1 = .mk i2 buf2 ss1 := by rw [← e1, ha]
      have hs1 : st1 = (asmFileTail i buf ss1 sta).2 := by rw [ha]
      subst hf1
      simp only [fxFile] at hfx
      obtain ⟨a1, a2⟩ := asmSections_idem h secs st ss1 sta hoks hp h1 hfx
      have hpol : st1.pol = sta.pol := by
        rw [hs1]
        cases ss1 with
        | nil => rfl
        | cons a t =>
          simp only [asmFileTail]
          exact tw_noteLarge_pol _ _
      refine ⟨by rw [hpol, a1], ?_⟩
      rw [asmFile_eq h i2 buf2 ss1 st hnv2, a2]
      simp only []
      rw [e2, ha]
theorem asmFiles_idem (h : Hooks) : ∀ (fs : List File) (st : St) (fs1 : List File) (st1 : St),
    okFiles fs = true → st.pol ≠ 0xF0 → asmFiles h fs st = .ok (fs1, st1) → fxFiles fs1 = true →
    st1.pol = st.pol ∧ asmFiles h fs1 st = .ok (fs1, st1)
  | [], st, fs1, st1, _, _, ha, _ => by
    simp only [asmFiles, Except.ok.injEq, Prod.mk.injEq] at ha
    obtain ⟨rfl, rfl⟩ := ha
    exact ⟨rfl, rfl⟩
  | f :: t, st, fs1, st1, hok, hp, ha, hfx => by
    simp only [okFiles, Bool.and_eq_true] at hok
    rw [asmFiles] at ha
    cases h1 : asmFile h f st with
    | error x => rw [h1] at ha; cases ha
    | ok p =>
      obtain ⟨f', sta⟩ := p
      rw [h1] at ha
      simp only [] at ha
      cases h2 : asmFiles h t sta with
      | error x => rw [h2] at ha; cases ha
      | ok q =>
        obtain ⟨t', stb⟩ := q
        rw [h2] at ha
        simp only [Except.ok.injEq, Prod.mk.injEq] at ha
        obtain ⟨rfl, rfl⟩ := ha
        simp only [fxFiles, Bool.and_eq_true] at hfx
        obtain ⟨a1, a2⟩ := asmFile_idem h f st f' sta hok.1 hp h1 hfx.1
        obtain ⟨b1, b2⟩ := asmFiles_idem h t sta t' stb hok.2 (by rw [a1]; exact hp) h2 hfx.2
        refine ⟨by rw [b1, a1], ?_⟩
        rw [asmFiles, a2]
        simp only []
        rw [b2]
theorem asmFv_idem (h : Hooks) : ∀ (v : Fv) (st : St) (v1 : Fv) (st1 : St),
    okFv v = true → st.pol ≠ 0xF0 → asmFv h v st = .ok (v1, st1) → fxFv v1 = true →
    st1.pol = st.pol ∧ asmFv h v1 st = .ok (v1, st1)
  | .mk i buf files, st, v1, st1, hok, hp, ha, hfx => by
    simp only [okFv, Bool.and_eq_true] at hok
    rw [asmFv_eq] at ha
    cases hs : setPolarity (polOfAttrs i.attrs) st with
    | error x => rw [hs] at ha; cases ha
    | ok sp =>
      rw [hs] at ha
      simp only [] at ha
      have hsp := tw_setPolarity_set _ _ _ hp hs
      subst hsp
      have hpe := (tw_setPolarity_ok _ _ _ hs).2.2.1
      cases h1 : asmFiles h files sp with
      | error x => rw [h1] at ha; cases ha
      | ok p =>
        obtain ⟨fs1, sta⟩ := p
        rw [h1] at ha
        simp only [] at ha
        cases fs1 with
        | nil =>
          simp only [asmFvTail, Except.ok.injEq, Prod.mk.injEq] at ha
          obtain ⟨rfl, rfl⟩ := ha
          have hnil := asmFiles_nil h files sp [] sta h1 rfl
          subst hnil
          simp only [asmFiles, Except.ok.injEq, Prod.mk.injEq] at h1
          obtain ⟨_, rfl⟩ := h1
          refine ⟨rfl, ?_⟩
          rw [asmFv_eq, hs]
          simp only [asmFiles, asmFvTail]
        | cons a t =>
          simp only [asmFvTail] at ha
          cases hr : relayoutFv i buf (a :: t) sta with
          | error x => rw [hr] at ha; cases ha
          | ok q =>
            obtain ⟨i', out, stc⟩ := q
            rw [hr] at ha
            simp only [Except.ok.injEq, Prod.mk.injEq] at ha
            obtain ⟨rfl, rfl⟩ := ha
            simp only [fxFv, Bool.and_eq_true, Bool.or_eq_true, List.isEmpty_cons, Bool.false_eq_true, false_or,
              decide_eq_true_eq, List.all_eq_true] at hfx
            obtain ⟨hfxs, ⟨⟨⟨hlen, h60⟩, hattrs⟩, hlay⟩⟩ := hfx
            obtain ⟨a1, a2⟩ := asmFiles_idem h files sp (a :: t) sta hok.1 hp h1 hfxs
            have hpol : sta.pol = 0xFF ∨ sta.pol = 0 := by
              rw [a1, hpe]; exact polOfAttrs_cases _
            have hst := Exact.relayoutFv_state _ _ _ _ _ _ _ hr
            obtain ⟨kd, ka⟩ := relayoutFv_keep _ _ _ _ _ _ _ hr
            obtain ⟨hrel, _, _⟩ := relayoutFv_idem i buf (a :: t) sta i' out stc hr hpol
              (fun f hf => by simpa using hattrs f hf) (by rw [← kd, ← twLayEnd_eq]; exact hlay) (by rw [← kd]; exact h60) hlen
            refine ⟨by rw [hst]; exact a1, ?_⟩
            rw [asmFv_eq]
            simp only [ka, hs]
            rw [a2]
            simp only [asmFvTail, hrel]
end

end Fiano.Uefi
