/-
  C02 (follow-up wp-c02b): **`parse_establishes_TreeOk`** — on every image the independent reader
  accepts, the tree `uefi.Parse` builds satisfies the invariant `TreeOk`, provided fiano read the
  headers as the specification does (`ReadAlike`).
-/
import FianoModel.Uefi.ParseOk10

namespace Fiano.Uefi
open Fiano
open EditArith
open Fiano.Uefi.Spec

/-- `NewFlashImage` on a flash image the reader accepts -/
theorem parseFlash_est (h : Hooks) (hb : h.BoundedCodecs) (hlaw : h.NvLaw) (fuel : Nat) (image : Bytes) (st st' : St) (f : Flash)
    (hp : parseFlash h fuel image st = .ok (f, st')) (hs : Valid.hasFlashSig image = true)
    (hv : Valid.flashOk image = true) (hL : image.length < 65536 * 4096)
    (hRA : ∀ b, Region.bios b ∈ f.regions → ElemsRA b.elems) :
    FlashOk f ∧ f.flashSize = image.length := by
  obtain ⟨base, limit, hhdr, hbase, hlimit, h4096, hmul, hfrba, hcond, hbios⟩ := flashHdr_est image hs hv
  obtain ⟨hsized, hfs⟩ := parseFlash_sized h fuel image st st' f hp hmul hL
  unfold parseFlash at hp
  split at hp
  · cases hp
  · split at hp
    · cases hp
    · rename_i ifd hifd
      obtain ⟨hdl, hie, hreg⟩ := parseDescriptor_inv _ _ hifd
      split at hp
      · cases hp
      · rename_i bios0 brest hbl
        split at hp
        · cases hp
        · split at hp
          · cases hp
          · rename_i rs st1 hrs
            split at hp
            · cases hp
            · rename_i rs' hfill
              cases hp
              simp only at hRA hfs ⊢
              generalize hd : image.take 4096 = d at *
              -- the table entry of the BIOS region is the one the reader read
              obtain ⟨rest, htbl, hnr, hrst⟩ := treeDesc_bios_entry d hdl
              have hdt : d.take 4096 = image.take 4096 := by rw [← hd, List.take_take]; simp
              obtain ⟨_, hfr', hnr'⟩ := rdParams_congr d image hdt
              have hfld : ∀ off n, off + n ≤ 4096 → Valid.fld d off n = Valid.fld image off n := by
                intro off n hn; rw [← hd]; exact fld_take _ _ _ _ hn
              rw [hfr', hfld _ 2 (by omega), hfld _ 2 (by omega), ← hbase, ← hlimit] at htbl
              rw [hie] at hbl hrs
              rw [htbl] at hbl
              cases hbl
              rw [htbl, hnr, hnr'] at hrs
              obtain ⟨hb1, hb2⟩ := parseRegions_bios0 h fuel image (rdNr image) ⟨base, limit⟩ _ st _ rs hrs
              have hmem : ∀ b, Region.bios b ∈ rs' ↔ Region.bios b ∈ rs := by
                intro b
                rw [fillGaps_bios image image.length _ 4096 rs' hfill b, mem_sortRegions]
              have hslice : slice image (FlashRegion.baseOffset ⟨base, limit⟩)
                  (FlashRegion.endOffset ⟨base, limit⟩ - FlashRegion.baseOffset ⟨base, limit⟩) =
                  (image.drop (base * 4096)).take ((limit + 1 - base) * 4096) := by
                unfold slice FlashRegion.baseOffset FlashRegion.endOffset
                simp only
                rw [Nat.sub_mul]
              refine ⟨⟨hsized, ?_, ⟨base, limit, _, by rw [hie]; exact htbl, by rw [hie]; exact hhdr⟩, ?_, ?_⟩, trivial⟩
              · -- the descriptor re-serialises to itself
                intro d' hd'
                rw [hie] at hd' ⊢
                rw [asmDescriptor_id d hdl hreg] at hd'
                cases hd'
                rfl
              · intro b hbm
                obtain ⟨stb, hpb⟩ := hb1 b ((hmem b).mp hbm)
                rw [hslice] at hpb
                obtain ⟨q1, _, q3⟩ := parseBios_est h hb hlaw fuel _ _ st stb b hpb hbios
                  (by simp only [List.length_take, List.length_drop]; omega) (hRA b hbm)
                refine ⟨q1, ?_⟩
                rw [q3]
                simp only [List.length_take, List.length_drop]
                omega
              · have hvalid : FlashRegion.valid ⟨base, limit⟩ = true := by
                  unfold FlashRegion.valid
                  simp only [Bool.and_eq_true, decide_eq_true_eq, bne_iff_ne, ne_eq]
                  omega
                obtain ⟨b, hbm⟩ := hb2 hcond.2.2.2.2.2.2 hvalid
                  (by unfold FlashRegion.baseOffset; simp only; omega) (by unfold FlashRegion.endOffset; simp only; omega)
                exact ⟨b, (hmem b).mpr hbm⟩

/-- **`parse_establishes_TreeOk`**: for every image the independent reader accepts (below 256 MiB),
    the tree `uefi.Parse` builds — from any process state — satisfies the invariant, when fiano read
    its headers as the specification does -/
theorem parse_establishes_TreeOk (h : Hooks) (hb : h.BoundedCodecs) (hlaw : h.NvLaw) (fuel : Nat) (image : Bytes) (st st' : St) (t : Tree)
    (hp : parseWith h fuel image st = .ok (t, st')) (hv : Valid.validImage image = true)
    (hL : image.length < 65536 * 4096) (hRA : ReadAlike t) : TreeOk t ∧ rootLen t = image.length := by
  unfold parseWith at hp
  have hsig := hasFlashSig_of_findSignature image
  unfold Valid.validImage at hv
  split at hp
  · rename_i ms hms
    rw [hms] at hsig
    have hs : Valid.hasFlashSig image = true := hsig.symm
    rw [hs] at hv
    simp only [if_true] at hv
    split at hp
    · cases hp
    · rename_i f st1 hpf
      cases hp
      exact parseFlash_est h hb hlaw fuel image st _ f hpf hs hv hL hRA
  · rename_i hnone
    rw [hnone] at hsig
    have hs : Valid.hasFlashSig image = false := hsig.symm
    rw [hs] at hv
    simp only [Bool.false_eq_true, if_false] at hv
    split at hp
    · cases hp
    · rename_i b st1 hpb
      cases hp
      exact parseBios_establishes h hb hlaw fuel image st _ b hpb hv hs (by omega) hRA

end Fiano.Uefi
