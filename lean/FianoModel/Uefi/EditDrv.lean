/-
  Line protocol of the edit-operation model, shared by the drivers of C02 and C03
  (lean/Driver/C02.lean, lean/Driver/C03.lean).

  Requests (one line; words separated by blanks; bytes as lower-case hex, "-" = empty):

    run   <image-hex> <op>…     one `utk <image> <op>…` in a fresh process
            → "cli:<errclass>"            ParseCLI failed (no image was read)
            | "parse:<errclass>"          uefi.Parse failed
            | "<status> <saved>"          status = ok | err | panic | fatal | hang | fuel of ExecuteCLI,
                                          saved = "fnv:len,fnv:len,…" of every file written ("-" if none)
    steps <image-hex> <op>…     the same run, observed after every visitor
            → "cli:…" | "parse:…"
            | "<status> <d0> <s1>,<s2>,…" d0 = digest of the parsed tree; per executed visitor the
                                          digest of the tree after it ("<digest>/<fnv>:<len>" for save),
                                          "!<errclass>" for the visitor that failed (the last one)
    steptree <k> <image-hex> <op>…   → "ok <canonical dump of the tree after the first k visitors>"
    spec-valid <hex>            → "ok" | "invalid"        the independent reader Valid.validImage
    guid <hex16>                → "ok <text as code points>"   GUID.String
    guidparse <cps>             → "ok <hex>" | "err"           guid.Parse

  <op> (one word, fields separated by ':'; <sel> = literal selector, code points "cp.cp.…" or "-"):
    if:<where>:<sel>:<hex>     insert / insert_front / insert_end / insert_after / insert_before /
                               replace_ffs with the file blob; where = front|end|after|before|replace
    ip:<where>:<sel>:<size>    insert pad_file <size> <where> <sel>
    dxe:<hex>                  insert_dxe
    rm:<sel>  rp:<sel>         remove, remove_pad
    pe:<sel>:<hex>             replace_pe32
    save
    find:<sel>  cat:<sel>  dump:<sel>  json  table  count  validate  comment
  Anything else → "bad-op".
-/
import FianoModel.Uefi.Dump
import FianoModel.Uefi.Guid
import FianoModel.Uefi.ValidImage

namespace Fiano.Uefi.EditDrv
open Fiano Fiano.Uefi

def hooks : Hooks := Hooks.none

def hexVal (c : Char) : Option Nat :=
  if '0' ≤ c ∧ c ≤ '9' then some (c.toNat - 48)
  else if 'a' ≤ c ∧ c ≤ 'f' then some (c.toNat - 87)
  else none

def hexChars : List Char → Bytes → Option Bytes
  | [], acc => some acc.reverse
  | [_], _ => none
  | a :: b :: rest, acc =>
    match hexVal a, hexVal b with
    | some x, some y => hexChars rest (UInt8.ofNat (16 * x + y) :: acc)
    | _, _ => none

def parseHex (s : String) : Option Bytes :=
  if s = "-" then some [] else hexChars s.toList []

def parseCps (s : String) : Option (List Nat) :=
  if s = "-" then some []
  else (s.splitOn ".").mapM (fun w => w.toNat?)

def cpsText (l : List Nat) : String :=
  if l.isEmpty then "-" else joinWith "." (l.map toString)

def parseWhere : String → Option Where
  | "front" => some .front
  | "end" => some .end_
  | "after" => some .after
  | "before" => some .before
  | "replace" => some .replace
  | _ => none

def parseOp (w : String) : Option OpSpec :=
  match w.splitOn ":" with
  | ["if", wh, sel, blob] =>
    match parseWhere wh, parseCps sel, parseHex blob with
    | some wh, some sel, some blob => some (.insertFile (selFvPred sel) wh blob)
    | _, _, _ => none
  | ["ip", wh, sel, size] =>
    match parseWhere wh, parseCps sel, size.toNat? with
    | some .replace, _, _ => none          -- the generic insert has no "replace" preposition
    | some wh, some sel, some size => some (.insertPad (selFvPred sel) wh size)
    | _, _, _ => none
  | ["dxe", blob] => (parseHex blob).map (fun b => .insertFile (typePred fileTypeDXECore) .dxe b)
  | ["rm", sel] => (parseCps sel).map (fun s => .remove (selFilePred s) false)
  | ["rp", sel] => (parseCps sel).map (fun s => .remove (selFilePred s) true)
  | ["pe", sel, body] =>
    match parseCps sel, parseHex body with
    | some sel, some body => some (.replacePe32 (selFilePred sel) body)
    | _, _ => none
  | ["save"] => some .save
  | ["find", sel] => (parseCps sel).map (fun s => .ro (.find (selFilePred s)))
  | ["cat", sel] => (parseCps sel).map (fun s => .ro (.cat (selFilePred s)))
  | ["dump", sel] => (parseCps sel).map (fun s => .ro (.dump (selFilePred s)))
  | ["json"] => some (.ro .json)
  | ["table"] => some (.ro .table)
  | ["count"] => some (.ro .count)
  | ["validate"] => some (.ro .validate)
  | ["comment"] => some (.ro .comment)
  | _ => none

def isSave : Op → Bool
  | .save => true
  | _ => false

def savedText (outs : List Bytes) : String :=
  if outs.isEmpty then "-" else joinWith "," (outs.map (fun b => s!"{fnvOf b}:{b.length}"))

/-- the run, one visitor at a time; returns the status and the per-step records -/
def trace : List Op → Run → List String → String × List String × Run
  | [], s, acc => ("ok", acc.reverse, s)
  | op :: ops, s, acc =>
    match step hooks op s with
    | .error e => (errName e, (("!" ++ errName e) :: acc).reverse, s)
    | .ok s' =>
      let d := digestOf s'.tree
      let rec_ := if isSave op then
          match s'.outs.getLast? with
          | some b => s!"{d}/{fnvOf b}:{b.length}"
          | none => d
        else d
      trace ops s' (rec_ :: acc)

def withRun (img : String) (ops : List String) (k : List Op → Run → String) : String :=
  match parseHex img, ops.mapM parseOp with
  | some image, some specs =>
    match cliParse hooks specs {} with
    | .error e => "cli:" ++ errName e
    | .ok (ops, st) =>
      match parseWith hooks (defaultFuel image) image st with
      | .error e => "parse:" ++ errName e
      | .ok (t, st') => k ops { tree := t, st := st' }
  | _, _ => "bad-op"

def handle : List String → String
  | "run" :: img :: ops => withRun img ops fun ops s =>
    let (status, _, s') := trace ops s []
    s!"{status} {savedText s'.outs}"
  | "steps" :: img :: ops => withRun img ops fun ops s =>
    let (status, recs, _) := trace ops s []
    s!"{status} {digestOf s.tree} {if recs.isEmpty then "-" else joinWith "," recs}"
  | "steptree" :: k :: img :: ops =>
    match k.toNat? with
    | none => "bad-op"
    | some k => withRun img ops fun ops s =>
      let (_, _, s') := trace (ops.take k) s []
      s!"ok {dumpText s'.tree}"
  | ["spec-valid", img] =>
    match parseHex img with
    | some b => if Valid.validImage b then "ok" else "invalid"
    | none => "bad-op"
  | ["guid", g] =>
    match parseHex g with
    | some b => if b.length = 16 then s!"ok {cpsText (guidText b)}" else "bad-op"
    | none => "bad-op"
  | ["guidparse", s] =>
    match parseCps s with
    | some cps =>
      match guidParse cps with
      | some g => s!"ok {hexOf g}"
      | none => "err"
    | none => "bad-op"
  | _ => "bad-op"

end Fiano.Uefi.EditDrv
