/-
  C03 follow-up (wp-c03b), layer 5c: the flash image with descriptor.  A flash node whose descriptor,
  size and non-BIOS regions are those of a well-formed image of the grammar and whose BIOS region
  stands for the witness's BIOS region (`RepBios`) is assembled into the serialisation of a
  well-formed flash image again: same descriptor, same regions, the BIOS region replaced.
-/
import FianoModel.Uefi.ExactOps

namespace Fiano.Uefi.Exact
open Fiano Fiano.Uefi Fiano.Uefi.Spec

/-- the region list of a flash node against the region list of the witness, from block `blk` on -/
def RepRegs (tbl : List FlashRegion) : List Region → List RegI → Nat → Prop
  | [], [], _ => True
  | r :: rs, ri :: ris, blk =>
    (match ri with
     | .bios bi => ∃ b, r = .bios b ∧ RepBios b bi ∧ b.fr = some (tbl.getD 0 ⟨blk, blk + ri.blocks - 1⟩)
     | _ => r = regNode tbl ri blk) ∧ RepRegs tbl rs ris (blk + ri.blocks)
  | _, _, _ => False

/-- same regions, the BIOS regions replaced by well-formed ones of the same size -/
def ShapeRegs : List RegI → List RegI → Prop
  | [], [] => True
  | .bios b :: rs, r' :: rs' => (∃ b', r' = .bios b' ∧ wfBios b' = true ∧ (serBios b').length = (serBios b).length) ∧
      ShapeRegs rs rs'
  | r :: rs, r' :: rs' => r' = r ∧ ShapeRegs rs rs'
  | _, _ => False

def GoodRegions : List Region → Prop
  | [] => True
  | .bios b :: rs => GoodElems b.elems ∧ GoodRegions rs
  | _ :: rs => GoodRegions rs

def keepRegions (E : Editor) : List Region → Prop
  | [] => True
  | .bios b :: rs => keepElems E b.elems ∧ keepRegions E rs
  | _ :: rs => keepRegions E rs

def tidyRegs : List RegI → Bool
  | [] => true
  | .bios b :: rs => tidyItems b.items && tidyRegs rs
  | _ :: rs => tidyRegs rs

/-! ### what the shape preserves -/

theorem shapeRegs_head (r r' : RegI) (rs rs' : List RegI) (h : ShapeRegs (r :: rs) (r' :: rs')) :
    r'.data.length = r.data.length ∧ r'.isGap = r.isGap ∧ r'.isBios = r.isBios ∧ (∀ i, kindOk r' i = kindOk r i) ∧
    (wfReg r = true → wfReg r' = true) ∧ ShapeRegs rs rs' := by
  cases r with
  | bios b =>
    obtain ⟨⟨b', rfl, hw, hl⟩, hr⟩ := h
    exact ⟨hl, rfl, rfl, fun _ => rfl, fun _ => hw, hr⟩
  | me d => obtain ⟨rfl, hr⟩ := h; exact ⟨rfl, rfl, rfl, fun _ => rfl, id, hr⟩
  | raw i d => obtain ⟨rfl, hr⟩ := h; exact ⟨rfl, rfl, rfl, fun _ => rfl, id, hr⟩
  | gap d => obtain ⟨rfl, hr⟩ := h; exact ⟨rfl, rfl, rfl, fun _ => rfl, id, hr⟩

theorem shapeRegs_facts : ∀ (rs rs' : List RegI), ShapeRegs rs rs' →
    (serRegs rs').length = (serRegs rs).length ∧ (rs.all wfReg = true → rs'.all wfReg = true) ∧
    rs'.any RegI.isBios = rs.any RegI.isBios ∧ noAdjacentGaps rs' = noAdjacentGaps rs ∧
    (∀ blk es, matchRegs rs' blk es = matchRegs rs blk es) ∧ (∀ blk, blockFrs rs' blk = blockFrs rs blk) ∧
    (∀ r' ∈ rs', r'.data.length % 4096 = 0 ∧ 1 ≤ r'.blocks) = (∀ r' ∈ rs', r'.data.length % 4096 = 0 ∧ 1 ≤ r'.blocks)
  | [], [], _ => ⟨rfl, id, rfl, rfl, fun _ _ => rfl, fun _ => rfl, rfl⟩
  | [], _ :: _, h => by cases h
  | r :: rs, [], h => by cases r <;> cases h
  | r :: rs, r' :: rs', h => by
    obtain ⟨hl, hg, hb, hk, hw, hr⟩ := shapeRegs_head r r' rs rs' h
    obtain ⟨i1, i2, i3, i4, i5, i6, _⟩ := shapeRegs_facts rs rs' hr
    have hblocks : r'.blocks = r.blocks := by unfold RegI.blocks; rw [hl]
    refine ⟨?_, ?_, ?_, ?_, ?_, ?_, rfl⟩
    · simp only [serRegs, List.length_append, hl, i1]
    · intro ha
      simp only [List.all_cons, Bool.and_eq_true] at ha ⊢
      exact ⟨hw ha.1, i2 ha.2⟩
    · simp only [List.any_cons, hb, i3]
    · -- two gaps never follow each other: decided by the constructors
      cases r with
      | gap d =>
        obtain ⟨rfl, _⟩ := h
        cases rs with
        | nil => cases rs' with
          | nil => rfl
          | cons a b => cases hr
        | cons q qs =>
          cases rs' with
          | nil => cases q <;> cases hr
          | cons q' qs' =>
            obtain ⟨_, hg2, _, _, _, _⟩ := shapeRegs_head q q' qs qs' hr
            cases q <;> cases q' <;> simp_all [noAdjacentGaps, RegI.isGap]
      | bios b =>
        obtain ⟨⟨b', rfl, _, _⟩, _⟩ := h
        simp only [noAdjacentGaps, i4]
      | me d => obtain ⟨rfl, _⟩ := h; simp only [noAdjacentGaps, i4]
      | raw i d => obtain ⟨rfl, _⟩ := h; simp only [noAdjacentGaps, i4]
    · intro blk es
      simp only [matchRegs, hl, hblocks, hg, hk, i5]
    · intro blk
      simp only [blockFrs, hblocks, i6]

/-! ### Assemble on the regions -/

theorem avRegions_cons_nonbios (r : Region) (rs : List Region) (h : ∀ b, r ≠ .bios b) :
    avRegions (r :: rs) = avRegions rs := by
  cases r with
  | bios b => exact absurd rfl (h b)
  | me x y => rfl
  | raw x y z => rfl

theorem regNode_nonbios (tbl : List FlashRegion) (ri : RegI) (blk : Nat) (h : ri.isBios = false) :
    ∀ b, regNode tbl ri blk ≠ .bios b := by
  intro b
  cases ri <;> simp_all [regNode, RegI.isBios]

theorem asmRegions_nonbios (r : Region) (rs : List Region) (st : St) (h : ∀ b, r ≠ .bios b) :
    asmRegions Hooks.none (r :: rs) st =
      match asmRegions Hooks.none rs st with
      | .error e => .error e
      | .ok (rs', st') => .ok (r :: rs', st') := by
  cases r with
  | bios b => exact absurd rfl (h b)
  | me x y => simp only [asmRegions]; cases asmRegions Hooks.none rs st <;> rfl
  | raw x y z => simp only [asmRegions]; cases asmRegions Hooks.none rs st <;> rfl

/-- **Assemble on the regions of an edited flash node** -/
theorem asm_rep_regions (tbl : List FlashRegion) (nr : Nat) : ∀ (ris : List RegI) (rs : List Region) (blk : Nat) (st : St)
    (l : List Region) (st' : St), RepRegs tbl rs ris blk → st.pol = 0xFF → st.ffs3 = false →
    asmRegions Hooks.none rs st = .ok (l, st') → GoodRegions l →
    st' = st ∧ ∃ ris', ShapeRegs ris ris' ∧ RepRegs tbl l ris' blk ∧
      l.map Region.fr = (treeRegs tbl ris blk).map Region.fr ∧ l.map Region.buf = ris'.map RegI.data ∧
      (∀ r ∈ l, repoint tbl nr r = r) ∧ avRegions (treeRegs tbl ris' blk) = avRegions l
  | [], [], blk, st, l, st', _, _, _, h, _ => by
    simp only [asmRegions, Except.ok.injEq, Prod.mk.injEq] at h
    obtain ⟨rfl, rfl⟩ := h
    exact ⟨rfl, [], trivial, trivial, rfl, rfl, by simp, rfl⟩
  | [], _ :: _, _, _, _, _, hr, _, _, _, _ => by cases hr
  | _ :: _, [], _, _, _, _, hr, _, _, _, _ => by cases hr
  | ri :: ris, r :: rs, blk, st, l, st', hr, hp, hf, h, hg => by
    obtain ⟨hhead, htail⟩ := hr
    cases ri with
    | bios bi =>
      obtain ⟨b, rfl, hrb, hfr⟩ := hhead
      rw [asmRegions] at h
      split at h
      · cases h
      rename_i b' st1 hb
      split at h
      · cases h
      rename_i l2 st2 h2
      cases h
      obtain ⟨e1, bi', rb', hbuf, hfr', _, hav, sh, htl⟩ := asm_rep_bios b bi st b' st1 hrb hp hf hb hg.1
      subst e1
      have hlen : (serBios bi').length = (serBios bi).length := by
        rw [serBios_length bi' rb'.1, serBios_length bi hrb.1, shape_sizeItems _ _ sh, htl]
      have hblocks : (RegI.bios bi').blocks = (RegI.bios bi).blocks := by
        simp only [RegI.blocks, RegI.data, hlen]
      obtain ⟨e2, ris', sh2, rep2, fr2, buf2, rp2, av2⟩ :=
        asm_rep_regions tbl nr ris rs (blk + (RegI.bios bi).blocks) st1 l2 st' htail hp hf h2 hg.2
      subst e2
      refine ⟨rfl, .bios bi' :: ris', ⟨⟨bi', rfl, rb'.1, hlen⟩, sh2⟩, ?_, ?_, ?_, ?_, ?_⟩
      · exact ⟨⟨b', rfl, rb', by rw [hfr', hfr, hblocks]⟩, by rw [hblocks]; exact rep2⟩
      · rw [treeRegs_cons]
        simp only [List.map_cons, fr2, regNode, Region.fr, treeBios, hfr', hfr]
      · simp only [List.map_cons, buf2, Region.buf, hbuf, RegI.data]
      · intro x hx
        rcases List.mem_cons.mp hx with rfl | hx'
        · apply repoint_eq
          intro _ y hy
          have hy' : tbl[0]? = some y := hy
          simp only [Region.setFr, hfr', hfr]
          simp [List.getD_eq_getElem?_getD, hy']
          cases b'; simp_all
        · exact rp2 x hx'
      · rw [treeRegs_cons]
        simp only [regNode, avRegions, hblocks, av2]
        rw [hfr] at hav
        rw [hav]
    | me d =>
      have hne := regNode_nonbios tbl (.me d) blk rfl
      have hhead' : r = regNode tbl (.me d) blk := hhead
      subst hhead'
      rw [asmRegions_nonbios _ _ _ hne] at h
      split at h
      · cases h
      rename_i l2 st2 h2
      cases h
      have hg2 : GoodRegions l2 := by
        simp only [regNode] at hg; exact hg
      obtain ⟨e2, ris', sh2, rep2, fr2, buf2, rp2, av2⟩ :=
        asm_rep_regions tbl nr ris rs (blk + (RegI.me d).blocks) st l2 st' htail hp hf h2 hg2
      refine ⟨e2, .me d :: ris', ⟨rfl, sh2⟩, ⟨rfl, rep2⟩, by rw [treeRegs_cons]; simp [fr2],
        by simp [buf2, regNode, Region.buf, RegI.data], ?_, ?_⟩
      · intro x hx
        rcases List.mem_cons.mp hx with rfl | hx'
        · exact repoint_regNode tbl nr _ blk
        · exact rp2 x hx'
      · rw [treeRegs_cons, avRegions_cons_nonbios _ _ hne, avRegions_cons_nonbios _ _ hne, av2]
    | raw i d =>
      have hne := regNode_nonbios tbl (.raw i d) blk rfl
      have hhead' : r = regNode tbl (.raw i d) blk := hhead
      subst hhead'
      rw [asmRegions_nonbios _ _ _ hne] at h
      split at h
      · cases h
      rename_i l2 st2 h2
      cases h
      have hg2 : GoodRegions l2 := by
        simp only [regNode] at hg; exact hg
      obtain ⟨e2, ris', sh2, rep2, fr2, buf2, rp2, av2⟩ :=
        asm_rep_regions tbl nr ris rs (blk + (RegI.raw i d).blocks) st l2 st' htail hp hf h2 hg2
      refine ⟨e2, .raw i d :: ris', ⟨rfl, sh2⟩, ⟨rfl, rep2⟩, by rw [treeRegs_cons]; simp [fr2],
        by simp [buf2, regNode, Region.buf, RegI.data], ?_, ?_⟩
      · intro x hx
        rcases List.mem_cons.mp hx with rfl | hx'
        · exact repoint_regNode tbl nr _ blk
        · exact rp2 x hx'
      · rw [treeRegs_cons, avRegions_cons_nonbios _ _ hne, avRegions_cons_nonbios _ _ hne, av2]
    | gap d =>
      have hne := regNode_nonbios tbl (.gap d) blk rfl
      have hhead' : r = regNode tbl (.gap d) blk := hhead
      subst hhead'
      rw [asmRegions_nonbios _ _ _ hne] at h
      split at h
      · cases h
      rename_i l2 st2 h2
      cases h
      have hg2 : GoodRegions l2 := by
        simp only [regNode] at hg; exact hg
      obtain ⟨e2, ris', sh2, rep2, fr2, buf2, rp2, av2⟩ :=
        asm_rep_regions tbl nr ris rs (blk + (RegI.gap d).blocks) st l2 st' htail hp hf h2 hg2
      refine ⟨e2, .gap d :: ris', ⟨rfl, sh2⟩, ⟨rfl, rep2⟩, by rw [treeRegs_cons]; simp [fr2],
        by simp [buf2, regNode, Region.buf, RegI.data], ?_, ?_⟩
      · intro x hx
        rcases List.mem_cons.mp hx with rfl | hx'
        · exact repoint_regNode tbl nr _ blk
        · exact rp2 x hx'
      · rw [treeRegs_cons, avRegions_cons_nonbios _ _ hne, avRegions_cons_nonbios _ _ hne, av2]

/-! ### `GoodRegions` does not depend on the order of the regions nor on their table entries -/

theorem goodRegions_iff (l : List Region) : GoodRegions l ↔ ∀ b, Region.bios b ∈ l → GoodElems b.elems := by
  induction l with
  | nil => simp [GoodRegions]
  | cons r rs ih =>
    cases r with
    | bios b =>
      simp only [GoodRegions, ih, List.mem_cons]
      constructor
      · intro ⟨h1, h2⟩ b' hb'
        rcases hb' with hb' | hb'
        · cases hb'; exact h1
        · exact h2 b' hb'
      · intro h
        exact ⟨h b (Or.inl rfl), fun b' hb' => h b' (Or.inr hb')⟩
    | me x y =>
      simp only [GoodRegions, ih, List.mem_cons]
      constructor
      · intro h b' hb'
        rcases hb' with hb' | hb'
        · cases hb'
        · exact h b' hb'
      · intro h b' hb'; exact h b' (Or.inr hb')
    | raw x y z =>
      simp only [GoodRegions, ih, List.mem_cons]
      constructor
      · intro h b' hb'
        rcases hb' with hb' | hb'
        · cases hb'
        · exact h b' hb'
      · intro h b' hb'; exact h b' (Or.inr hb')

theorem mem_insertRegion' (r x : Region) (l : List Region) : x ∈ insertRegion r l ↔ x = r ∨ x ∈ l := by
  induction l with
  | nil => simp [insertRegion]
  | cons y ys ih =>
    simp only [insertRegion]
    split
    · simp
    · simp only [List.mem_cons, ih]
      constructor
      · rintro (h | h | h)
        · exact Or.inr (Or.inl h)
        · exact Or.inl h
        · exact Or.inr (Or.inr h)
      · rintro (h | h | h)
        · exact Or.inr (Or.inl h)
        · exact Or.inl h
        · exact Or.inr (Or.inr h)

theorem mem_sortRegions' (x : Region) (l : List Region) : x ∈ sortRegions l ↔ x ∈ l := by
  unfold sortRegions
  induction l with
  | nil => simp
  | cons y ys ih => simp only [List.foldr_cons, mem_insertRegion', ih, List.mem_cons]

/-! ### the flash node -/

/-- the invariant of a flash node, with its witness -/
def RepFlash (f : Flash) (fi : FlashI) : Prop :=
  wfFlash fi = true ∧ f.ifd = treeDesc fi.desc ∧ f.flashSize = (ser (.flash fi)).length ∧
    RepRegs (treeDesc fi.desc).region.regions f.regions fi.regions 1

theorem wfFlash_shape (desc : Bytes) (ris ris' : List RegI) (sh : ShapeRegs ris ris') (h : wfFlash ⟨desc, ris⟩ = true) :
    wfFlash ⟨desc, ris'⟩ = true := by
  obtain ⟨s1, s2, s3, s4, s5, _, _⟩ := shapeRegs_facts ris ris' sh
  simp only [wfFlash, Bool.and_eq_true, beq_iff_eq, decide_eq_true_eq] at h ⊢
  obtain ⟨⟨⟨⟨⟨⟨⟨⟨hlen, hsig⟩, hrs⟩, hvalid⟩, htot⟩, hwf⟩, hbios⟩, hnadj⟩, hmatch⟩ := h
  exact ⟨⟨⟨⟨⟨⟨⟨⟨hlen, hsig⟩, hrs⟩, hvalid⟩, by rw [s1]; exact htot⟩, s2 hwf⟩, by rw [s3]; exact hbios⟩,
    by rw [s4]; exact hnadj⟩, by rw [s5, s1]; exact hmatch⟩

/-- **the FlashImage case of Assemble on an edited flash node** -/
theorem asm_rep_flash (f : Flash) (fi : FlashI) (st : St) (f' : Flash) (st' : St) (hr : RepFlash f fi)
    (hp : st.pol = 0xFF) (hf : st.ffs3 = false) (h : asmFlash Hooks.none f st = .ok (f', st'))
    (hg : GoodRegions f'.regions) :
    st' = st ∧ ∃ ris', ShapeRegs fi.regions ris' ∧ RepFlash f' ⟨fi.desc, ris'⟩ ∧ f'.buf = ser (.flash ⟨fi.desc, ris'⟩) ∧
      avRegions (treeRegs (treeDesc fi.desc).region.regions ris' 1) = avRegions f'.regions := by
  obtain ⟨hw, hifd, hsz, hrep⟩ := hr
  have hw' := hw
  simp only [wfFlash, Bool.and_eq_true, beq_iff_eq, decide_eq_true_eq] at hw'
  obtain ⟨⟨⟨⟨⟨⟨⟨⟨hlen, hsig⟩, hrs⟩, hvalid⟩, htot⟩, hwf⟩, hbios⟩, hnadj⟩, hmatch⟩ := hw'
  have htblmem : ∀ e ∈ sortEntries (selectEntries (treeDesc fi.desc).map.numberOfRegions
      (4096 + (serRegs fi.regions).length) (treeDesc fi.desc).region.regions 0),
      ∀ d, (treeDesc fi.desc).region.regions.getD e.1 d = e.2 := by
    intro e he d
    obtain ⟨i, fr⟩ := e
    obtain ⟨_, h2⟩ := mem_selectEntries _ _ _ 0 i fr ((mem_sortEntries _ _).mp he)
    simp only [Nat.sub_zero] at h2
    rw [List.getD_eq_getElem?_getD, h2]; rfl
  have hfrs := regNode_fr fi.regions (treeDesc fi.desc).region.regions fi.regions 1 _ hmatch htblmem
  obtain ⟨b0, brest, htbl0⟩ : ∃ b0 brest, (treeDesc fi.desc).region.regions = b0 :: brest := by
    simp only [treeDesc, decodeRegions]; exact ⟨_, _, rfl⟩
  have hv0 : b0.valid = true := by rw [htbl0] at hvalid; simpa using hvalid
  unfold asmFlash at h
  simp only [hifd, asmDescriptor_id fi.desc hlen hrs] at h
  split at h
  · cases h
  rename_i l st1 hl
  rw [htbl0] at h
  simp only [hv0, not_true_eq_false, if_false] at h
  rw [← htbl0] at h
  split at h
  · cases h
  rename_i buf off htile
  split at h
  · cases h
  rename_i hoff
  cases h
  simp only at hg
  -- the assembled regions, before sorting: good as soon as the sorted, re-pointed list is
  have hblocks := match_blocks fi.regions 1 _ hmatch
  have key : ∀ (hgl : GoodRegions l), st' = st ∧ ∃ ris', ShapeRegs fi.regions ris' ∧
      RepRegs (treeDesc fi.desc).region.regions l ris' 1 ∧
      l.map Region.fr = blockFrs fi.regions 1 ∧ l.map Region.buf = ris'.map RegI.data ∧
      sortRegions (l.map (repoint (treeDesc fi.desc).region.regions (treeDesc fi.desc).map.numberOfRegions)) = l ∧
      avRegions (treeRegs (treeDesc fi.desc).region.regions ris' 1) = avRegions l := by
    intro hgl
    obtain ⟨e1, ris', sh, rep, fr1, buf1, rp1, av1⟩ := asm_rep_regions (treeDesc fi.desc).region.regions
      (treeDesc fi.desc).map.numberOfRegions fi.regions f.regions 1 st l st' hrep hp hf hl hgl
    rw [hfrs] at fr1
    have hrepo : l.map (repoint (treeDesc fi.desc).region.regions (treeDesc fi.desc).map.numberOfRegions) = l := by
      rw [List.map_congr_left rp1]; simp
    have hsorted : sortRegions l = l := by
      apply sortRegions_sorted
      intro k x y hx hy
      have hx' : (blockFrs fi.regions 1)[k]? = some x.fr := by rw [← fr1]; simp [hx]
      have hy' : (blockFrs fi.regions 1)[k + 1]? = some y.fr := by rw [← fr1]; simp [hy]
      exact blockFrs_sorted fi.regions 1 (fun r hr => (hblocks r hr).2) k _ _ hx' hy'
    exact ⟨e1, ris', sh, rep, fr1, buf1, by rw [hrepo, hsorted], av1⟩
  -- `GoodRegions` of the result gives `GoodRegions` of the list before sorting and re-pointing
  have hgl : GoodRegions l := by
    rw [goodRegions_iff] at hg ⊢
    intro b hb
    -- the re-pointed copy of this region is in the sorted list, with the same elements
    have hmem : repoint (treeDesc fi.desc).region.regions (treeDesc fi.desc).map.numberOfRegions (.bios b) ∈
        sortRegions (l.map (repoint (treeDesc fi.desc).region.regions (treeDesc fi.desc).map.numberOfRegions)) := by
      rw [mem_sortRegions']
      exact List.mem_map.mpr ⟨_, hb, rfl⟩
    have hform : ∃ b2, repoint (treeDesc fi.desc).region.regions (treeDesc fi.desc).map.numberOfRegions (.bios b) =
        .bios b2 ∧ b2.elems = b.elems := by
      unfold repoint
      dsimp only
      split
      · exact ⟨b, rfl, rfl⟩
      · split
        · exact ⟨b, rfl, rfl⟩
        · split
          · exact ⟨b, rfl, rfl⟩
          · split
            · exact ⟨_, rfl, rfl⟩
            · exact ⟨b, rfl, rfl⟩
    obtain ⟨b2, hb2, he2⟩ := hform
    rw [hb2] at hmem
    rw [← he2]
    exact hg b2 hmem
  obtain ⟨e1, ris', sh, rep, fr1, buf1, hsort, av1⟩ := key hgl
  subst e1
  rw [hsort] at htile hg ⊢
  obtain ⟨s1, _, _, _, _, s6, _⟩ := shapeRegs_facts fi.regions ris' sh
  have hblocks' : ∀ r ∈ ris', r.data.length % 4096 = 0 ∧ 1 ≤ r.blocks := by
    have hw2 := wfFlash_shape fi.desc fi.regions ris' sh hw
    simp only [wfFlash, Bool.and_eq_true, beq_iff_eq, decide_eq_true_eq] at hw2
    exact match_blocks ris' 1 _ hw2.2
  have htile' := tile_ok l ris' 1 fi.desc (by rw [s6]; exact fr1) buf1 hblocks'
  have e4096 : (1 : Nat) * 4096 = 4096 := rfl
  rw [e4096] at htile'
  have hbufd : (treeDesc fi.desc).buf = fi.desc := rfl
  rw [hbufd, htile'] at htile
  simp only [Except.ok.injEq, Prod.mk.injEq] at htile
  obtain ⟨hb1, hb2⟩ := htile
  refine ⟨rfl, ris', sh, ⟨wfFlash_shape fi.desc fi.regions ris' sh hw, rfl, ?_, rep⟩, ?_, av1⟩
  · simp only [ser, List.length_append, s1]
    rw [hsz]; simp only [ser, List.length_append]
  · simp only [ser]; exact hb1.symm

/-! ### edits and the parsed tree -/

theorem rwRegions_nonbios (E : Editor) (r : Region) (rs : List Region) (h : ∀ b, r ≠ .bios b) :
    rwRegions E (r :: rs) =
      match rwRegions E rs with
      | .error e => .error e
      | .ok rs' => .ok (r :: rs') := by
  cases r with
  | bios b => exact absurd rfl (h b)
  | me x y => simp only [rwRegions]; cases rwRegions E rs <;> rfl
  | raw x y z => simp only [rwRegions]; cases rwRegions E rs <;> rfl

theorem rw_rep_regions (Ed : Editor) (hE : EditorOk Ed) (tbl : List FlashRegion) : ∀ (ris : List RegI) (rs rs' : List Region)
    (blk : Nat), RepRegs tbl rs ris blk → keepRegions Ed rs → rwRegions Ed rs = .ok rs' → RepRegs tbl rs' ris blk
  | [], [], rs', _, _, _, h => by simp [rwRegions] at h; subst h; trivial
  | [], _ :: _, _, _, hr, _, _ => by cases hr
  | _ :: _, [], _, _, hr, _, _ => by cases hr
  | ri :: ris, r :: rs, rs', blk, hr, hk, h => by
    obtain ⟨hhead, htail⟩ := hr
    cases ri with
    | bios bi =>
      obtain ⟨b, rfl, hrb, hfr⟩ := hhead
      rw [rwRegions] at h
      split at h
      · cases h
      rename_i b' hb
      split at h
      · cases h
      rename_i rs2 h2
      cases h
      unfold keepRegions at hk
      obtain ⟨r1, r2⟩ := rw_rep_bios Ed hE b b' bi hrb hk.1 hb
      exact ⟨⟨b', rfl, r1, by rw [r2, hfr]⟩, rw_rep_regions Ed hE tbl ris rs rs2 _ htail hk.2 h2⟩
    | me d =>
      have hne := regNode_nonbios tbl (.me d) blk rfl
      have hhead' : r = regNode tbl (.me d) blk := hhead
      subst hhead'
      rw [rwRegions_nonbios _ _ _ hne] at h
      split at h
      · cases h
      rename_i rs2 h2
      cases h
      have hk2 : keepRegions Ed rs := by simp only [regNode, keepRegions] at hk; exact hk
      exact ⟨rfl, rw_rep_regions Ed hE tbl ris rs rs2 _ htail hk2 h2⟩
    | raw i d =>
      have hne := regNode_nonbios tbl (.raw i d) blk rfl
      have hhead' : r = regNode tbl (.raw i d) blk := hhead
      subst hhead'
      rw [rwRegions_nonbios _ _ _ hne] at h
      split at h
      · cases h
      rename_i rs2 h2
      cases h
      have hk2 : keepRegions Ed rs := by simp only [regNode, keepRegions] at hk; exact hk
      exact ⟨rfl, rw_rep_regions Ed hE tbl ris rs rs2 _ htail hk2 h2⟩
    | gap d =>
      have hne := regNode_nonbios tbl (.gap d) blk rfl
      have hhead' : r = regNode tbl (.gap d) blk := hhead
      subst hhead'
      rw [rwRegions_nonbios _ _ _ hne] at h
      split at h
      · cases h
      rename_i rs2 h2
      cases h
      have hk2 : keepRegions Ed rs := by simp only [regNode, keepRegions] at hk; exact hk
      exact ⟨rfl, rw_rep_regions Ed hE tbl ris rs rs2 _ htail hk2 h2⟩

/-- the region list of a parsed flash image stands for its own regions -/
theorem rep_treeRegs (tbl : List FlashRegion) : ∀ (ris : List RegI) (blk : Nat), ris.all wfReg = true →
    tidyRegs ris = true → RepRegs tbl (treeRegs tbl ris blk) ris blk
  | [], _, _, _ => trivial
  | ri :: ris, blk, hw, ht => by
    simp only [List.all_cons, Bool.and_eq_true] at hw
    rw [treeRegs_cons]
    cases ri with
    | bios bi =>
      simp only [tidyRegs, Bool.and_eq_true] at ht
      have hwb : wfBios bi = true := by simpa [wfReg] using hw.1
      exact ⟨⟨_, rfl, rep_treeBios bi _ hwb ht.1, rfl⟩, rep_treeRegs tbl ris _ hw.2 ht.2⟩
    | me d => exact ⟨rfl, rep_treeRegs tbl ris _ hw.2 (by simpa [tidyRegs] using ht)⟩
    | raw i d => exact ⟨rfl, rep_treeRegs tbl ris _ hw.2 (by simpa [tidyRegs] using ht)⟩
    | gap d => exact ⟨rfl, rep_treeRegs tbl ris _ hw.2 (by simpa [tidyRegs] using ht)⟩

theorem rep_treeFlash (fi : FlashI) (h : wfFlash fi = true) (ht : tidyRegs fi.regions = true) :
    RepFlash { buf := ser (.flash fi), ifd := treeDesc fi.desc,
               regions := treeRegs (treeDesc fi.desc).region.regions fi.regions 1,
               flashSize := (ser (.flash fi)).length } fi := by
  have h' := h
  simp only [wfFlash, Bool.and_eq_true] at h'
  exact ⟨h, rfl, rfl, rep_treeRegs _ fi.regions 1 h'.1.1.1.2 ht⟩

end Fiano.Uefi.Exact
