/-
  Arithmetic facts used by the C02 / C03 proofs: Go's `Align` bit trick on powers of two, and the
  byte / word checksums of the model (`UInt8` / `UInt16` folds) against the plain sums of the
  independent reader.
-/
import FianoModel.Base.ArithTie
import FianoModel.Uefi.Visitors
import FianoModel.Uefi.ValidImage

namespace Fiano.Uefi
open Fiano

/-! The three alignment facts live in a namespace of their own: `Uefi/Lemmas/Align.lean` (the C01 lemma
    library) states same-named facts in a different form, and a module that needs both libraries could
    not import them otherwise (Lean rejects same-named declarations with different types).  The files of
    the C02 / C03 library `open EditArith`. -/
namespace EditArith

theorem alignGo_pow2 (v k : Nat) (hk : k < 64) (hv : v + 2 ^ k ≤ 2 ^ 64) :
    alignGo v (2 ^ k) = (v + 2 ^ k - 1) / 2 ^ k * 2 ^ k := by
  have hpos : 0 < 2 ^ k := Nat.two_pow_pos k
  have hp : 2 ^ k < 2 ^ 64 := Nat.pow_lt_pow_right (by omega) hk
  have h64 : (2 : Nat) ^ 64 = 18446744073709551616 := by decide
  unfold alignGo
  have e1 : (v + 2 ^ k + 18446744073709551615) % 18446744073709551616 = v + 2 ^ k - 1 := by omega
  have e2 : (18446744073709551616 - 2 ^ k) % 18446744073709551616 = 2 ^ 64 - 2 ^ k := by omega
  rw [e1, e2]
  exact ArithTie.and_high_mask (v + 2 ^ k - 1) k (by omega) (by omega)

theorem align8_eq (v : Nat) (hv : v + 8 ≤ 2 ^ 64) : align8 v = (v + 7) / 8 * 8 := by
  have := alignGo_pow2 v 3 (by omega) (by simpa using hv)
  simpa [align8] using this

theorem align4_eq (v : Nat) (hv : v + 4 ≤ 2 ^ 64) : align4 v = (v + 3) / 4 * 4 := by
  have := alignGo_pow2 v 2 (by omega) (by simpa using hv)
  simpa [align4] using this

end EditArith

/-! ### checksums -/

theorem foldl_add_toNat (b : Bytes) (a : UInt8) :
    (b.foldl (· + ·) a).toNat = (a.toNat + b.foldl (fun s x => s + x.toNat) 0) % 256 := by
  induction b generalizing a with
  | nil => simp
  | cons x xs ih =>
    simp only [List.foldl_cons]
    rw [ih]
    have hgen : ∀ (l : Bytes) (c : Nat), l.foldl (fun s x => s + x.toNat) c = c + l.foldl (fun s x => s + x.toNat) 0 := by
      intro l
      induction l with
      | nil => intro c; simp
      | cons y ys ihy =>
        intro c
        simp only [List.foldl_cons]
        rw [ihy (c + y.toNat), ihy (0 + y.toNat)]
        omega
    rw [hgen xs (0 + x.toNat)]
    simp only [UInt8.toNat_add]
    omega

/-- the reader's byte sum is the model's `Checksum8` -/
theorem byteSum_eq_sum8 (b : Bytes) : Valid.byteSum b = (sum8 b).toNat := by
  unfold Valid.byteSum sum8
  rw [foldl_add_toNat]
  simp

theorem byteSum_lt (b : Bytes) : Valid.byteSum b < 256 := by
  unfold Valid.byteSum; omega

namespace EditArith
theorem sum8_append (a b : Bytes) : sum8 (a ++ b) = sum8 a + sum8 b := by
  apply UInt8.toNat_inj.mp
  unfold sum8
  rw [List.foldl_append, foldl_add_toNat, UInt8.toNat_add, foldl_add_toNat a, foldl_add_toNat b]
  simp
end EditArith

namespace EditArith
theorem sum8_cons (x : UInt8) (b : Bytes) : sum8 (x :: b) = x + sum8 b := by
  have := sum8_append [x] b
  simpa [sum8] using this
end EditArith

theorem sum8_replicate_ff_or_zero : True := trivial

end Fiano.Uefi
