/-
  Property C06 — the codec hook of the shared UEFI model, instantiated per GUID.

  `uefi.NewSection` and `visitors.Assemble` obtain a `compression.Compressor` from the GUID of a
  GUID-defined section (`compression.CompressorFromGUID`).  The shared model takes that lookup as
  the parameter `Hooks.codec`.  Here it is instantiated the way pkg/compression builds it:

      LZMA     = the LZMA codec (SystemLZMA or LZMA: core + size patch, see Compress/Framing.lean)
      LZMAX86  = x86 branch filter ∘ LZMA            (`Compress.lzmax86`)
      ZLIB     = 256-byte section header ++ zlib core (`Compress.zlib`)
      BROTLI   = SystemBROTLI; there is no brotli(1) in the sandbox: both directions fail

  over two *parameters*, the third-party cores (`Cores`).  Nothing is assumed about them here; the
  laws a theorem needs (`Compress.Codec.Lawful`, `TailLawful`) are explicit hypotheses, and
  `Cores.stored` is a concrete lawful instance (identity core inside the real framing).
  Core Lean only.
-/
import FianoModel.Uefi.Spec
import FianoModel.Compress.Framing

namespace Fiano.Uefi.Nested
open Fiano Fiano.Uefi

/-- `([]byte, error)` of `Encode` as the shared model's `Option` (a fault of the size patch cannot
    occur above a core that emits its 13-byte header; it is mapped to the error class) -/
def resOpt : Compress.Res Bytes → Option Bytes
  | .ok a => some a
  | .err => none
  | .fault => none

/-- a `compression.Compressor` with the given `Name()` from a codec of Compress/ -/
def ofCodec (name : String) (c : Compress.Codec) : Codec :=
  { name := name, decode := c.dec, encode := fun x => resOpt (c.enc x) }

def guidBROTLI : Guid := [0x50,0x20,0x53,0x3D,0xDA,0x5C,0xD0,0x4F,0x87,0x9E,0x0F,0x7F,0x63,0x0D,0x5A,0xFB]
def guidLZMA : Guid := [0x98,0x58,0x4E,0xEE,0x14,0x39,0x59,0x42,0x9D,0x6E,0xDC,0x7B,0xD7,0x94,0x03,0xCF]
def guidLZMAX86 : Guid := [0xBD,0xE6,0x2A,0xD4,0x52,0x13,0xFB,0x4B,0x90,0x9A,0xCA,0x72,0xA6,0xEA,0xE8,0x89]
def guidZLIB : Guid := [0xF5,0x33,0x32,0xCE,0xD6,0x2C,0x87,0x4D,0x91,0x52,0x4A,0x23,0x8B,0xB6,0xD1,0xC4]

/-- the third-party parts: `lzma` is the whole LZMA compressor the configuration selects
    (`SystemLZMA{xz}` or `LZMA{}`, both decode with the Go decoder), `zlib` is compress/zlib -/
structure Cores where
  lzma : Compress.Codec
  zlib : Compress.Codec

/-- a codec that is registered but cannot run (`SystemBROTLI` without the external command) -/
def absent (name : String) : Codec := { name := name, decode := fun _ => none, encode := fun _ => none }

/-- `compression.CompressorFromGUID` -/
def codecOf (k : Cores) (g : Guid) : Option Codec :=
  if g = guidLZMA then some (ofCodec "LZMA" k.lzma)
  else if g = guidLZMAX86 then some (ofCodec "LZMAX86" (Compress.lzmax86 k.lzma))
  else if g = guidZLIB then some (ofCodec "ZLIB" (Compress.zlib k.zlib))
  else if g = guidBROTLI then some (absent "BROTLI")
  else none

/-- the hooks of property C06: decompression enabled, NVAR stores stay unparsed (property C10) -/
def hooksOf (k : Cores) : Hooks := { codec := codecOf k }

/-- a concrete stand-in for the LZMA compressor: the 13-byte `.lzma` header both encoders are
    configured to emit, carrying the true size, in front of the *stored* payload.  Like the real
    decoder it stops after `size` bytes, so trailing bytes are ignored (the decoder of a GUID-defined
    section is handed everything up to the end of the file). -/
def sized13 : Compress.Codec where
  enc x := if x.length < 2 ^ 64 then .ok (Compress.lzmaHeader x.length ++ x) else .err
  dec y :=
    if y.length < 13 then none
    else
      let s := fromLE (slice y 5 8)
      if 13 + s ≤ y.length then some ((y.drop 13).take s) else none

/-- identity cores inside the real framing: LZMA = `sized13`, zlib = the stored codec -/
def Cores.stored : Cores := { lzma := sized13, zlib := Compress.stored }

end Fiano.Uefi.Nested
