/-
  C02 (follow-up wp-c02b), `parse_establishes_TreeOk`, part 10: `NewFlashImage`.
-/
import FianoModel.Uefi.ParseOk9
import FianoModel.Uefi.ParseSized
import FianoModel.Uefi.Lemmas.Desc

namespace Fiano.Uefi
open Fiano
open EditArith
open Fiano.Uefi.Spec

/-- what `ParseFlashDescriptor` accepted -/
theorem parseDescriptor_inv (desc : Bytes) (d : Descriptor) (h : parseDescriptor desc = .ok d) :
    desc.length = 4096 ∧ d = treeDesc desc ∧ (treeDesc desc).regionStart + 64 < 4096 := by
  have h0 := h
  unfold parseDescriptor at h
  split at h
  · cases h
  · rename_i hl
    have hl' : desc.length = 4096 := by omega
    split at h
    · cases h
    · rename_i ms hms
      have hs : (findSignature desc).isSome = true := by rw [hms]; rfl
      have hms' := findSignature_mapStart desc hs
      rw [hms] at hms'
      cases hms'
      simp only at h
      split at h
      · cases h
      · rename_i hr
        have hr' : (treeDesc desc).regionStart + 64 < 4096 := by
          simp only [treeDesc]
          omega
        refine ⟨hl', ?_, hr'⟩
        have := parseDescriptor_desc desc hl' hs hr'
        rw [this] at h0
        cases h0
        rfl

/-- FLREG1 as fiano decodes it is the entry the reader reads -/
theorem treeDesc_bios_entry (desc : Bytes) (hl : desc.length = 4096) :
    ∃ rest, (treeDesc desc).region.regions =
      ⟨Valid.fld desc (rdFrba desc + 4) 2, Valid.fld desc (rdFrba desc + 6) 2⟩ :: rest ∧
    (treeDesc desc).map.numberOfRegions = rdNr desc ∧ (treeDesc desc).regionStart = rdFrba desc := by
  have hms : mapStartOf desc = rdMs desc := by
    unfold mapStartOf rdMs
    rfl
  have hle : rdMs desc ≤ 20 := by unfold rdMs; split <;> omega
  -- a field of the map is the byte at its offset
  have hfield : ∀ k, k < 16 → ((slice desc (rdMs desc) 16).map (·.toNat)).getD k 0 = Valid.fld desc (rdMs desc + k) 1 := by
    intro k hk
    have hlen : (slice desc (rdMs desc) 16).length = 16 := slice_length _ _ _ (by omega)
    rw [List.getD_eq_getElem?_getD, List.getElem?_map]
    unfold slice Valid.fld
    rw [List.getElem?_take_of_lt hk, List.getElem?_drop]
    have hlt : rdMs desc + k < desc.length := by omega
    rw [List.getElem?_eq_getElem hlt]
    simp only [Option.map_some, Option.getD_some]
    rw [List.drop_eq_getElem_cons hlt]
    simp only [List.take_succ_cons, List.take_zero, fromLE]
    omega
  have hrb : (treeDesc desc).regionStart = rdFrba desc := by
    simp only [treeDesc, DescMap.regionBase]
    rw [hms, hfield 2 (by omega)]
    rfl
  refine ⟨decodeRegions 14 ((desc.drop ((treeDesc desc).regionStart + 4)).drop 4), ?_, ?_, hrb⟩
  · have e : (treeDesc desc).region.regions = decodeRegions 15 (desc.drop ((treeDesc desc).regionStart + 4)) := rfl
    rw [e, decodeRegions, hrb]
    congr 1
    have e1 : rd (desc.drop (rdFrba desc + 4)) 0 2 = Valid.fld desc (rdFrba desc + 4) 2 := by
      rw [rd_eq_fld, fld_drop]
    have e2 : rd (desc.drop (rdFrba desc + 4)) 2 2 = Valid.fld desc (rdFrba desc + 6) 2 := by
      rw [rd_eq_fld, fld_drop]
    rw [e1, e2]
  · simp only [treeDesc, DescMap.numberOfRegions]
    rw [hms, hfield 3 (by omega)]
    rfl

/-! ### where the BIOS region node comes from -/

theorem parseRegions_nobios (h : Hooks) (fuel : Nat) (buf : Bytes) (nr : Nat) : ∀ (frs : List FlashRegion) (i : Nat)
    (st st' : St) (rs : List Region), 1 ≤ i → parseRegions h fuel buf nr frs i st = .ok (rs, st') →
    ∀ b, Region.bios b ∉ rs := by
  intro frs
  induction frs with
  | nil => intro i st st' rs _ hp; simp [parseRegions] at hp; obtain ⟨rfl, _⟩ := hp; simp
  | cons fr rest ih =>
    intro i st st' rs hi hp
    rw [parseRegions] at hp
    split at hp
    · cases hp; simp
    · split at hp
      · exact ih (i + 1) st st' rs (by omega) hp
      · simp only at hp
        rw [if_neg (by omega)] at hp
        split at hp
        · cases hp
        · rename_i r st1 hone
          split at hp
          · cases hp
          · rename_i rs' st2 hrest
            cases hp
            intro b hb
            simp only [List.mem_cons] at hb
            rcases hb with hb | hb
            · split at hone <;> (cases hone; cases hb)
            · exact ih (i + 1) st1 _ rs' (by omega) hrest b hb

/-- the BIOS region node is `NewBIOSRegion` of the bytes FLREG1 describes, and it exists when the
    reader's conditions on FLREG1 hold -/
theorem parseRegions_bios0 (h : Hooks) (fuel : Nat) (buf : Bytes) (nr : Nat) (fr : FlashRegion) (frs : List FlashRegion)
    (st st' : St) (rs : List Region) (hp : parseRegions h fuel buf nr (fr :: frs) 0 st = .ok (rs, st')) :
    (∀ b, Region.bios b ∈ rs → ∃ st1, parseBios h fuel (slice buf fr.baseOffset (fr.endOffset - fr.baseOffset)) (some fr) st = .ok (b, st1)) ∧
    ((nr = 0 ∨ 0 < nr) → fr.valid = true → fr.baseOffset < buf.length → fr.endOffset ≤ buf.length → ∃ b, Region.bios b ∈ rs) := by
  rw [parseRegions] at hp
  split at hp
  · rename_i hc
    cases hp
    exact ⟨(fun b hb => by cases hb), (fun hn => by omega)⟩
  · split at hp
    · rename_i hskip
      have hno := parseRegions_nobios h fuel buf nr frs 1 st st' rs (by omega) hp
      refine ⟨fun b hb => absurd hb (hno b), fun _ hv hbl hel => ?_⟩
      exfalso
      rcases hskip with c | c | c
      · exact c hv
      · omega
      · omega
    · simp only [if_true] at hp
      split at hp
      · cases hp
      · rename_i r st1 hone
        split at hp
        · cases hp
        · rename_i rs' st2 hrest
          cases hp
          have hno := parseRegions_nobios h fuel buf nr frs 1 st1 _ rs' (by omega) hrest
          split at hone
          · cases hone
          · rename_i b0 stb hb0
            cases hone
            refine ⟨fun b hb => ?_, fun _ _ _ _ => ⟨b0, by simp⟩⟩
            simp only [List.mem_cons] at hb
            rcases hb with hb | hb
            · cases hb; exact ⟨_, hb0⟩
            · exact absurd hb (hno b)

theorem fillGaps_bios (fbuf : Bytes) (L : Nat) : ∀ (l : List Region) (off : Nat) (out : List Region),
    fillGaps fbuf L l off = .ok out → ∀ b, (Region.bios b ∈ out ↔ Region.bios b ∈ l) := by
  intro l
  induction l with
  | nil =>
    intro off out hf b
    rw [fillGaps] at hf
    split at hf
    · cases hf; simp
    · cases hf; simp
  | cons r rest ih =>
    intro off out hf b
    rw [fillGaps] at hf
    split at hf
    · cases hf
    · simp only at hf
      split at hf
      · cases hf
      · split at hf
        · cases hf
        · rename_i out' hout
          have := ih _ out' hout b
          split at hf
          · cases hf
            simp only [List.mem_cons, this]
            constructor
            · rintro (c | c | c)
              · cases c
              · exact Or.inl c
              · exact Or.inr c
            · rintro (c | c)
              · exact Or.inr (Or.inl c)
              · exact Or.inr (Or.inr c)
          · cases hf
            simp only [List.mem_cons, this]

end Fiano.Uefi
