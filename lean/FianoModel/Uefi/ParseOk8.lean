/-
  C02 (follow-up wp-c02b): the command line.  `SpecOk` says what the theorem asks of what the user
  types (a new file that `NewFile` parses to a file the reader accepts, a pad size, a PE32 body that
  fits a section); `cliParse_ok` turns it into `OpOk` for the visitors `ParseCLI` builds;
  `newFile_est` derives the first from the reader's verdict on the blob.
-/
import FianoModel.Uefi.ParseOk7

namespace Fiano.Uefi
open Fiano
open EditArith

def SpecOk (h : Hooks) : OpSpec → Prop
  | .insertFile _ _ blob => ∀ st nf st', parseFile h (defaultFuel blob) blob st = .ok (some nf, st') → NewFileOk nf
  | .insertPad _ _ size => size < 2 ^ 64
  | .replacePe32 _ body => body.length + 28 < 4294967296
  | _ => True

theorem cliOne_ok (h : Hooks) (st : St) (s : OpSpec) (op : Op) (st' : St) (hc : cliOne h st s = .ok (op, st'))
    (hs : SpecOk h s) : OpOk op := by
  cases s with
  | insertFile p w blob =>
    simp only [cliOne] at hc
    split at hc
    · cases hc
    · rename_i nf st1 hpf
      cases hc
      cases nf with
      | none => simp [OpOk]
      | some f =>
        simp only [OpOk]
        exact hs st f _ hpf
  | insertPad p w size =>
    simp only [cliOne] at hc
    split at hc
    · cases hc
    · rename_i pf hpf
      cases hc
      simp only [OpOk]
      exact ⟨mkPadFile_fileOk _ _ pf hpf hs 0xFF (Or.inl rfl), mkPadFile_fileOk _ _ pf hpf hs 0 (Or.inr rfl)⟩
  | remove p pad => simp only [cliOne] at hc; cases hc; simp [OpOk]
  | replacePe32 p body => simp only [cliOne] at hc; cases hc; simp only [OpOk]; exact hs
  | save => simp only [cliOne] at hc; cases hc; simp [OpOk]
  | ro r => simp only [cliOne] at hc; cases hc; simp [OpOk]

theorem cliParse_ok (h : Hooks) : ∀ (specs : List OpSpec) (st : St) (ops : List Op) (st' : St),
    cliParse h specs st = .ok (ops, st') → (∀ s ∈ specs, SpecOk h s) → ∀ op ∈ ops, OpOk op
  | [], st, ops, st', hc, _ => by
    rw [cliParse] at hc; cases hc
    intro op hop; cases hop
  | s :: ss, st, ops, st', hc, hs => by
    rw [cliParse] at hc
    split at hc
    · cases hc
    · rename_i op1 st1 h1
      split at hc
      · cases hc
      · rename_i ops1 st2 h2
        cases hc
        intro op hop
        simp only [List.mem_cons] at hop
        rcases hop with rfl | hop
        · exact cliOne_ok h st s _ st1 h1 (hs s (by simp))
        · exact cliParse_ok h ss st1 ops1 _ h2 (fun x hx => hs x (by simp [hx])) op hop

/-- **a blob the reader accepts as a file parses to a new file that may be inserted**: the reader's
    file rules hold for the blob's first `size` bytes, its header is neither all FF nor all 00, and
    fiano read its headers as the specification does (`FileRA`, non-zero size) -/
theorem newFile_est (h : Hooks) (hb : h.BoundedCodecs) (hlaw : h.NvLaw) (fuel : Nat) (blob : Bytes) (st st' : St) (nf : File)
    (hp : parseFile h fuel blob st = .ok (some nf, st')) (hL : blob.length < 2 ^ 62)
    (size hl fuel' o : Nat) (hfs : Valid.fileSize blob = some (size, hl))
    (hok : Valid.fileOk fuel' (blob.take size) o = true)
    (hFF : Valid.allAre 0xFF (blob.take 24) = false) (h00 : Valid.allAre 0 (blob.take 24) = false)
    (hRA : FileRA nf) (hpos : 0 < nf.info.extSize) : NewFileOk nf := by
  have hgl : GoLen blob := by unfold GoLen; omega
  have hF := (layers h hb fuel).2.2.2.1 blob st nf st' hgl hp
  have hNv := (nvLayers h hlaw fuel).2.2.2.1 blob st nf st' hp
  exact ⟨(file_est h 0xFF nf blob hF hRA hNv hpos fuel' o size hl hfs hok hFF hL).1,
         (file_est h 0 nf blob hF hRA hNv hpos fuel' o size hl hfs hok h00 hL).1⟩

end Fiano.Uefi
