/-
  C02 (follow-up wp-c02b), layer (c), part 2: the file loop of the FirmwareVolume case in closed
  form *from its success*: when `placeFiles` returns a buffer shorter than 2^62 bytes, no 64-bit
  wrap-around happened on the way, every file buffer was non-empty, and the buffer is
  `buf ++ layAll …` — no a-priori bound on the layout is needed (`placeFiles_closed`).
-/
import FianoModel.Uefi.EditValidHdr

namespace Fiano.Uefi
open Fiano
open EditArith

theorem insertFile_ok (pol : UInt8) (buf : Bytes) (a : Nat) (fb out : Bytes) (h : insertFile pol buf a fb = .ok out) :
    buf.length ≤ a ∧ fb.length ≠ 0 ∧ out.length = a + fb.length := by
  unfold insertFile at h
  split at h
  · cases h
  · split at h
    · cases h
    · cases h
      simp only [List.length_append, List.length_replicate]
      omega

/-- the inserts of one loop iteration, with the offset arithmetic abstracted (stated with the matcher
    of `placeFile` itself, so that the kernel compares the two terms syntactically) -/
theorem place_tail (pol : UInt8) (buf : Bytes) (al n : Nat) (fb : Bytes) (padr : Except Err Bytes) (buf' : Bytes) (off' : Nat)
    (h : (if n ≠ al then
        placeFile.match_1 (fun _ => Except Err (Bytes × Nat)) padr
          (fun e => Except.error e) fun pad =>
          placeFile.match_1 (fun _ => Except Err (Bytes × Nat)) (insertFile pol buf al pad)
            (fun e => Except.error e) fun b1 =>
            placeFile.match_1 (fun _ => Except Err (Bytes × Nat)) (insertFile pol b1 n fb)
              (fun e => Except.error e) fun b2 => Except.ok (b2, n + List.length fb)
      else
        placeFile.match_1 (fun _ => Except Err (Bytes × Nat)) (insertFile pol buf n fb)
          (fun e => Except.error e) fun b1 => Except.ok (b1, n + List.length fb)) = .ok (buf', off')) :
    buf.length ≤ buf'.length ∧ fb.length ≤ buf'.length ∧ fb.length ≠ 0 := by
  split at h
  · split at h
    · cases h
    · split at h
      · cases h
      · rename_i b1 h1
        split at h
        · cases h
        · rename_i b2 h2
          cases h
          have f1 := insertFile_ok _ _ _ _ _ h1
          have f2 := insertFile_ok _ _ _ _ _ h2
          omega
  · split at h
    · cases h
    · rename_i b1 h1
      cases h
      have f1 := insertFile_ok _ _ _ _ _ h1
      omega

theorem place_tail1 (pol : UInt8) (buf : Bytes) (al : Nat) (fb : Bytes) (buf' : Bytes) (off' : Nat)
    (h : placeFile.match_1 (fun _ => Except Err (Bytes × Nat)) (insertFile pol buf al fb)
          (fun e => Except.error e) (fun b1 => Except.ok (b1, al + List.length fb)) = .ok (buf', off')) :
    buf.length ≤ buf'.length ∧ fb.length ≤ buf'.length ∧ fb.length ≠ 0 := by
  split at h
  · cases h
  · rename_i b1 h1
    cases h
    have f1 := insertFile_ok _ _ _ _ _ h1
    omega

theorem placeFile_len (pol : UInt8) (buf : Bytes) (off attrs : Nat) (fb buf' : Bytes) (off' : Nat)
    (h : placeFile pol buf off attrs fb = .ok (buf', off')) :
    buf.length ≤ buf'.length ∧ fb.length ≤ buf'.length ∧ fb.length ≠ 0 := by
  unfold placeFile at h
  by_cases hne : fb.length = 0
  · rw [if_pos hne] at h; cases h
  · rw [if_neg hne] at h
    simp only at h
    by_cases ha : alignmentOf attrs ≠ 1
    · rw [if_pos ha] at h
      exact place_tail _ _ _ _ _ _ _ _ h
    · rw [if_neg ha] at h
      exact place_tail1 _ _ _ _ _ _ h

theorem placeFiles_len (pol : UInt8) : ∀ (l : List (Nat × Bytes)) (buf : Bytes) (off : Nat) (fbuf : Bytes),
    placeFiles pol l buf off = .ok fbuf → buf.length ≤ fbuf.length ∧ ∀ x ∈ l, x.2.length ≤ fbuf.length ∧ x.2.length ≠ 0 := by
  intro l
  induction l with
  | nil => intro buf off fbuf h; simp [placeFiles] at h; subst h; simp
  | cons x rest ih =>
    intro buf off fbuf h
    obtain ⟨a, fb⟩ := x
    simp only [placeFiles] at h
    split at h
    · cases h
    · rename_i buf' off' heq
      have h1 := placeFile_len pol buf off a fb buf' off' heq
      have h2 := ih buf' off' fbuf h
      refine ⟨by omega, ?_⟩
      intro y hy
      simp only [List.mem_cons] at hy
      rcases hy with rfl | hy
      · exact ⟨by simp only; omega, h1.2.2⟩
      · exact h2.2 y hy

/-- **the file loop in closed form, from its success** -/
theorem placeFiles_closed (pol : UInt8) (hp : pol = 0xFF ∨ pol = 0) : ∀ (l : List (Nat × Bytes)) (buf : Bytes) (off : Nat)
    (fbuf : Bytes), placeFiles pol l buf off = .ok fbuf → (∀ x ∈ l, x.1 < 256) → buf.length = off → fbuf.length < 2 ^ 62 →
    fbuf = buf ++ layAll pol l off ∧ fbuf.length = layEnd l off := by
  intro l
  induction l with
  | nil =>
    intro buf off fbuf h _ hlen _
    simp [placeFiles] at h
    subst h
    simp [layAll, layEnd, hlen]
  | cons x rest ih =>
    intro buf off fbuf h hl hlen hb
    obtain ⟨a, fb⟩ := x
    have ha := hl (a, fb) (by simp)
    have hall := h
    simp only [placeFiles] at h
    split at h
    · cases h
    · rename_i buf' off' heq
      have h1 := placeFile_len pol buf off a fb buf' off' heq
      have h2 := placeFiles_len pol rest buf' off' fbuf h
      have hoff : off < 2 ^ 62 := by omega
      rw [placeFile_eq pol buf off a fb hp ha hlen hoff h1.2.2] at heq
      cases heq
      have hl1 := layOne_length pol off a fb hp ha hoff
      have := ih (buf ++ layOne pol off a fb) (fileStart off a + fb.length) fbuf h
        (fun y hy => hl y (by simp [hy])) (by simp only [List.length_append]; omega) hb
      simp only [layAll, layEnd]
      exact ⟨by rw [this.1]; simp [List.append_assoc], this.2⟩

end Fiano.Uefi
