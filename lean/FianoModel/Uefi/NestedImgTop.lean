/-
  Property C06, whole images (follow-up wp-c06c) — composition: parse ∘ ser = tree, asm ∘ tree =
  ser ∘ norm, the decoded tree and the canonical images, for a bare BIOS region and for a flash image
  with descriptor.
-/
import FianoModel.Uefi.NestedImgBios
import FianoModel.Uefi.NestedImgFlash

namespace Fiano.Uefi.Nested
open Fiano Fiano.Uefi Fiano.Uefi.Spec

variable {h : Hooks}

/-! ### bare BIOS region -/

theorem wfImg_bios {b : CBios} (hw : wfImgB h (.bios b) = true) :
    wfBiosC h b = true ∧ findSignature (serBiosC b) = none := by
  simpa only [wfImgB, Bool.and_eq_true, Option.isNone_iff_eq_none] using hw

theorem parse_img_bios (hk : HooksOK h) (b : CBios) (hw : wfImgB h (.bios b) = true) (fuel : Nat)
    (hf : costItemsC b.items ≤ fuel) :
    parseWith h fuel (serImg (.bios b)) {} = .ok (treeImg (.bios b), { pol := 0xFF, ffs3 := false }) := by
  obtain ⟨hwb, hsig⟩ := wfImg_bios hw
  unfold parseWith
  have e : serImg (.bios b) = serBiosC b := rfl
  rw [e, hsig]
  simp only
  rw [parse_bios_regionC hk b none fuel {} hwb hf (Or.inr rfl)]
  rfl

theorem asm_img_bios (hk : HooksOK h) (b : CBios) (hw : wfImgB h (.bios b) = true) (hok : okItems h b.items = true)
    (st : St) (hp : st.pol = 0xFF) :
    asmWith h (treeImg (.bios b)) st = .ok (serImg (normImg h (.bios b))) := by
  obtain ⟨hwb, _⟩ := wfImg_bios hw
  obtain ⟨b', st', h1, hb, _, _, _, _⟩ := asm_biosC hk b none { st with ffs3 := false } hwb hok hp rfl
  unfold asmWith asmTreeWith
  simp only [treeImg, h1, Tree.buf, hb]
  rfl

/-! ### flash image -/

theorem mem_noBios {rs : List RegI} (hn : noBios rs = true) (b : BiosI) : RegI.bios b ∉ rs := by
  intro hm
  have := List.all_eq_true.mp hn _ hm
  simp [RegI.isBios] at this

theorem mem_flat_regions {f : CFlash} (hpre : noBios f.pre = true) (hpost : noBios f.post = true) (b : BiosI)
    (hm : RegI.bios b ∈ (flatFlash f).regions) : b = flatBios f.bios := by
  simp only [flatFlash, List.mem_append, List.mem_cons] at hm
  rcases hm with hm | hm | hm
  · exact absurd hm (mem_noBios hpre b)
  · cases hm; rfl
  · exact absurd hm (mem_noBios hpost b)

theorem map_nrm_noBios (nb : BiosI → BiosI) : ∀ (rs : List RegI), noBios rs = true → rs.map (nrmReg nb) = rs
  | [], _ => rfl
  | r :: rs, hn => by
    simp only [noBios, List.all_cons, Bool.and_eq_true] at hn
    have ih := map_nrm_noBios nb rs (by simpa only [noBios] using hn.2)
    cases r with
    | bios b => simp [RegI.isBios] at hn
    | me d => simp only [List.map_cons, nrmReg, ih]
    | raw i d => simp only [List.map_cons, nrmReg, ih]
    | gap d => simp only [List.map_cons, nrmReg, ih]

theorem wfFlashC_iff {f : CFlash} (hw : wfFlashC h f = true) :
    skelFlash (flatFlash f) = true ∧ wfBiosC h f.bios = true ∧ noBios f.pre = true ∧ noBios f.post = true := by
  simpa only [wfFlashC, Bool.and_eq_true, and_assoc] using hw

theorem any_bios_flat (f : CFlash) : (flatFlash f).regions.any RegI.isBios = true := by
  simp [flatFlash, RegI.isBios]

/-- the regions written for a flash image: the BIOS region in normal form -/
theorem map_nrm_flat (f : CFlash) (hpre : noBios f.pre = true) (hpost : noBios f.post = true) (nbv : BiosI) :
    (flatFlash f).regions.map (nrmReg (fun _ => nbv)) = f.pre ++ RegI.bios nbv :: f.post := by
  simp only [flatFlash, List.map_append, List.map_cons, map_nrm_noBios _ f.pre hpre, map_nrm_noBios _ f.post hpost,
    nrmReg]

theorem parse_img_flash (hk : HooksOK h) (f : CFlash) (hw : wfFlashC h f = true) (fuel : Nat)
    (hf : costItemsC f.bios.items ≤ fuel) :
    ∃ st', parseWith h fuel (serImg (.flash f)) {} = .ok (treeImg (.flash f), st') ∧ st'.pol = 0xFF ∧
      st'.ffs3 = false := by
  obtain ⟨hs, hwb, hpre, hpost⟩ := wfFlashC_iff hw
  have hB : ∀ b, RegI.bios b ∈ (flatFlash f).regions → PB h (fun _ fr => treeBiosC f.bios fr) fuel b := by
    intro b hm fr st hp
    rw [mem_flat_regions hpre hpost b hm]
    exact parse_bios_regionC hk f.bios (some fr) fuel st hwb hf hp
  exact parse_flashG (tb := fun _ fr => treeBiosC f.bios fr) (fun _ _ => rfl) (flatFlash f) hs fuel hB (any_bios_flat f)

theorem asm_img_flash (hk : HooksOK h) (f : CFlash) (hw : wfFlashC h f = true) (hok : okItems h f.bios.items = true)
    (st : St) (hp : st.pol = 0xFF) :
    asmWith h (treeImg (.flash f)) st = .ok (serImg (normImg h (.flash f))) := by
  obtain ⟨hs, hwb, hpre, hpost⟩ := wfFlashC_iff hw
  have hA : ∀ b, RegI.bios b ∈ (flatFlash f).regions →
      AB h (fun _ fr => treeBiosC f.bios fr) (fun _ => flatBios (normBios h f.bios)) b := by
    intro b _ fr st hp hf
    obtain ⟨b', st', h1, hb, hfr, _, hp', hf'⟩ := asm_biosC hk f.bios fr st hwb hok hp hf
    exact ⟨b', st', h1, hb, hfr, hp', hf'⟩
  have hL : ∀ b, RegI.bios b ∈ (flatFlash f).regions →
      (serBios (flatBios (normBios h f.bios))).length = (serBios b).length := by
    intro b hm
    rw [mem_flat_regions hpre hpost b hm]
    obtain ⟨_, _, _, _, _, hl, _, _⟩ := asm_biosC hk f.bios none { pol := 0xFF, ffs3 := false } hwb hok rfl rfl
    exact hl
  have := asm_flashG (h := h) (tb := fun _ fr => treeBiosC f.bios fr) (fun _ _ => rfl)
    (fun _ => flatBios (normBios h f.bios)) (flatFlash f) hs hA hL st hp
  rw [map_nrm_flat f hpre hpost] at this
  exact this

/-! ### whole images -/

theorem parse_img (hk : HooksOK h) (i : CImg) (hw : WFI h i) (fuel : Nat) (hf : costImg i ≤ fuel) :
    ∃ st', parseWith h fuel (serImg i) {} = .ok (treeImg i, st') ∧ st'.pol = 0xFF ∧ st'.ffs3 = false := by
  cases i with
  | bios b => exact ⟨_, parse_img_bios hk b hw fuel hf, rfl, rfl⟩
  | flash f => exact parse_img_flash hk f hw fuel hf

theorem asm_img (hk : HooksOK h) (i : CImg) (hw : WFI h i) (hok : okImg h i = true) (st : St) (hp : st.pol = 0xFF) :
    asmWith h (treeImg i) st = .ok (serImg (normImg h i)) := by
  cases i with
  | bios b => exact asm_img_bios hk b hw hok st hp
  | flash f => exact asm_img_flash hk f hw hok st hp

/-- one save of a well-formed image writes its normal form -/
theorem saveImg_ser (hk : HooksOK h) (i : CImg) (hw : WFI h i) (hok : okImg h i = true) (fuel : Nat)
    (hf : costImg i ≤ fuel) : saveImg h fuel (serImg i) = .ok (serImg (normImg h i)) := by
  obtain ⟨st', h1, hp, _⟩ := parse_img hk i hw fuel hf
  unfold saveImg
  rw [h1]
  exact asm_img hk i hw hok st' hp

theorem decImg_ser (hk : HooksOK h) (i : CImg) (hw : WFI h i) (fuel : Nat) (hf : costImg i ≤ fuel) :
    decImg h fuel (serImg i) = .ok (decTree (treeImg i)) := by
  obtain ⟨st', h1, _, _⟩ := parse_img hk i hw fuel hf
  unfold decImg
  rw [h1]

/-! ### the decoded tree -/

theorem dec_regsG (tb tb' : BiosI → Option FlashRegion → BiosRegion) (nb : BiosI → BiosI) (tbl : List FlashRegion) :
    ∀ (rs : List RegI) (blk blk' : Nat),
    (∀ b, RegI.bios b ∈ rs → ∀ fr fr', decBiosElems (tb' (nb b) fr).elems = decBiosElems (tb b fr').elems) →
    (treeRegsG tb' tbl (rs.map (nrmReg nb)) blk').map decRegion = (treeRegsG tb tbl rs blk).map decRegion
  | [], _, _, _ => rfl
  | r :: rs, blk, blk', hd => by
    have ih := fun b1 b2 => dec_regsG tb tb' nb tbl rs b1 b2 (fun b hb => hd b (List.mem_cons_of_mem _ hb))
    cases r with
    | bios b =>
      simp only [List.map_cons, nrmReg, treeRegsG, decRegion]
      rw [ih (blk + (RegI.bios b).data.length / 4096)]
      exact congrArg (fun x => Dec.bios x :: _) (hd b List.mem_cons_self _ _)
    | me d =>
      simp only [List.map_cons, nrmReg, treeRegsG, decRegion]
      rw [ih (blk + (RegI.me d).data.length / 4096)]
    | raw i d =>
      simp only [List.map_cons, nrmReg, treeRegsG, decRegion]
      rw [ih (blk + (RegI.raw i d).data.length / 4096)]
    | gap d =>
      simp only [List.map_cons, nrmReg, treeRegsG, decRegion]
      rw [ih (blk + (RegI.gap d).data.length / 4096)]

/-- **the decoded tree of an image is the decoded tree of its normal form** -/
theorem dec_img (i : CImg) (hw : WFI h i) (hok : okImg h i = true) :
    decTree (treeImg (normImg h i)) = decTree (treeImg i) := by
  cases i with
  | bios b =>
    obtain ⟨hwb, _⟩ := wfImg_bios hw
    simp only [normImg, treeImg, decTree, dec_biosC b hwb hok none none]
  | flash f =>
    obtain ⟨hs, hwb, hpre, hpost⟩ := wfFlashC_iff hw
    have e : (flatFlash { f with bios := normBios h f.bios }).regions =
        (flatFlash f).regions.map (nrmReg (fun _ => flatBios (normBios h f.bios))) := by
      rw [map_nrm_flat f hpre hpost]; rfl
    simp only [normImg, treeImg, decTree]
    rw [e, dec_regsG (fun _ fr => treeBiosC f.bios fr) (fun _ fr => treeBiosC (normBios h f.bios) fr)
      (fun _ => flatBios (normBios h f.bios)) _ (flatFlash f).regions 1 1
      (fun b _ fr fr' => dec_biosC f.bios hwb hok fr fr')]

/-! ### canonical images -/

theorem canon_img (i : CImg) (hok : okImg h i = true) : canonImg h (normImg h i) = true := by
  cases i with
  | bios b => exact canon_itemsC b.items hok
  | flash f => exact canon_itemsC f.bios.items hok

theorem wfItems_of_wfImg (i : CImg) (hw : WFI h i) :
    ∃ items tail, wfItemsC h items tail = true ∧
      (match i with | .bios b => b.items | .flash f => f.bios.items) = items := by
  cases i with
  | bios b =>
    obtain ⟨hwb, _⟩ := wfImg_bios hw
    simp only [wfBiosC, Bool.and_eq_true] at hwb
    exact ⟨b.items, b.tail, hwb.1.2, rfl⟩
  | flash f =>
    obtain ⟨_, hwb, _, _⟩ := wfFlashC_iff hw
    simp only [wfBiosC, Bool.and_eq_true] at hwb
    exact ⟨f.bios.items, f.bios.tail, hwb.1.2, rfl⟩

theorem norm_img (i : CImg) (hw : WFI h i) (hc : canonImg h i = true) : normImg h i = i := by
  obtain ⟨items, tail, hwi, he⟩ := wfItems_of_wfImg i hw
  cases i with
  | bios b =>
    subst he
    simp only [normImg, normBios, norm_itemsC b.items tail hwi hc]
  | flash f =>
    subst he
    simp only [normImg, normBios, norm_itemsC f.bios.items tail hwi hc]

theorem ok_img (i : CImg) (hw : WFI h i) (hc : canonImg h i = true) : okImg h i = true := by
  obtain ⟨items, tail, hwi, he⟩ := wfItems_of_wfImg i hw
  cases i with
  | bios b => subst he; exact ok_itemsC b.items tail hwi hc
  | flash f => subst he; exact ok_itemsC f.bios.items tail hwi hc

theorem serRegs_append : ∀ (a b : List RegI), serRegs (a ++ b) = serRegs a ++ serRegs b
  | [], _ => rfl
  | r :: a, b => by simp only [List.cons_append, serRegs, serRegs_append a b, List.append_assoc]

/-- the budget of the normal form is needed for the second parse only; the image keeps its length -/
theorem serImg_norm_length (hk : HooksOK h) (i : CImg) (hw : WFI h i) (hok : okImg h i = true) :
    (serImg (normImg h i)).length = (serImg i).length := by
  cases i with
  | bios b =>
    obtain ⟨hwb, _⟩ := wfImg_bios hw
    obtain ⟨_, _, _, _, _, hl, _, _⟩ := asm_biosC hk b none { pol := 0xFF, ffs3 := false } hwb hok rfl rfl
    exact hl
  | flash f =>
    obtain ⟨_, hwb, _, _⟩ := wfFlashC_iff hw
    obtain ⟨_, _, _, _, _, hl, _, _⟩ := asm_biosC hk f.bios none { pol := 0xFF, ffs3 := false } hwb hok rfl rfl
    have hl' : (serBios (flatBios (normBios h f.bios))).length = (serBios (flatBios f.bios)).length := hl
    simp only [serImg, normImg, flatImg, flatFlash, Spec.ser, List.length_append, serRegs_append, serRegs, RegI.data, hl']

end Fiano.Uefi.Nested
