/-
  C02 (follow-up wp-c02b), `parse_establishes_TreeOk`, part 7: the root — a bare BIOS image.
-/
import FianoModel.Uefi.ParseOk6

namespace Fiano.Uefi
open Fiano
open EditArith

theorem hasFlashSig_of_findSignature (buf : Bytes) : (findSignature buf).isSome = Valid.hasFlashSig buf := by
  unfold findSignature Valid.hasFlashSig
  by_cases hl : buf.length < 20
  · rw [if_pos hl]
    have : decide (buf.length ≥ 20) = false := by simp; omega
    rw [this]; rfl
  · rw [if_neg hl]
    have : decide (buf.length ≥ 20) = true := by simp; omega
    rw [this, Bool.true_and]
    have e1 : slice buf 16 4 = (buf.drop 16).take 4 := rfl
    have e2 : slice buf 0 4 = buf.take 4 := by unfold slice; simp
    have e3 : flashSignature = Valid.flashSig := rfl
    rw [e1, e2, e3]
    by_cases c1 : (buf.drop 16).take 4 = Valid.flashSig
    · rw [if_pos c1]; simp [c1]
    · rw [if_neg c1]
      by_cases c2 : buf.take 4 = Valid.flashSig
      · rw [if_pos c2]; simp [c2]
      · rw [if_neg c2]; simp [c1, c2]

/-- `NewBIOSRegion` on a region the reader accepts -/
theorem parseBios_est (h : Hooks) (hb : h.BoundedCodecs) (hlaw : h.NvLaw) (fuel : Nat) (rbuf : Bytes) (fr : Option FlashRegion) (st st' : St)
    (b : BiosRegion) (hp : parseBios h fuel rbuf fr st = .ok (b, st')) (hv : Valid.biosOk rbuf = true)
    (hL : rbuf.length < 2 ^ 62) (hRA : ElemsRA b.elems) :
    BiosOk b ∧ catBufs b.elems = rbuf ∧ b.length = rbuf.length := by
  unfold parseBios at hp
  split at hp
  · cases hp
  · rename_i es st1 hes
    cases hp
    simp only at hRA ⊢
    unfold Valid.biosOk at hv
    have hw := walkSpec_complete rbuf _ 0 0 hv
    obtain ⟨h1, h2⟩ := parseBiosElems_est h hb hlaw fuel rbuf 0 st es _ hes hL 0 hw hRA
    exact ⟨⟨h1, by simp only; rw [h2]⟩, h2, trivial⟩

/-- **`parse_establishes_TreeOk`, bare BIOS image** -/
theorem parseBios_establishes (h : Hooks) (hb : h.BoundedCodecs) (hlaw : h.NvLaw) (fuel : Nat) (image : Bytes) (st st' : St) (b : BiosRegion)
    (hp : parseBios h fuel image none st = .ok (b, st')) (hv : Valid.biosOk image = true)
    (hns : Valid.hasFlashSig image = false) (hL : image.length < 2 ^ 62) (hRA : ElemsRA b.elems) :
    TreeOk (.bios b) ∧ b.length = image.length := by
  obtain ⟨h1, h2, h3⟩ := parseBios_est h hb hlaw fuel image none st st' b hp hv hL hRA
  exact ⟨⟨h1, bareNoSig_est b.elems h1.elems (by rw [h2]; exact hns)⟩, h3⟩

end Fiano.Uefi
