/-
  C09b at image level: the vocabulary of `c09_alter_detected_image` — definitions only, no proofs, so that
  the driver (Driver/C09.lean) can evaluate them on the images of the harness:

    Path, Target, Loc, locFv            paths into a volume and what they select
    nthVol, locBios, ImgLoc, locTree    paths into an image
    Target.protects                     the protected bytes of a node
    Fv.regular, NewSig, ScanKept, FreeMarker   the hypotheses / exceptions of the theorem
    hypsBut, hyps, whereIs, paths, verdict     executable forms

  Core Lean only.
-/
import FianoModel.Uefi.ValidateSpec

namespace Fiano.Uefi
open Fiano Fiano.Uefi.Spec

/-! ### offsets of the walks -/

/-- offset reached by the walk after the files `gs`, started at `off` -/
def startAfter : List File → Nat → Nat
  | [], off => off
  | g :: gs, off => startAfter gs (align8 off + g.info.extSize)


/-- offset reached by the section walk after the sections `ss`, started at `off` -/
def secAfter (ss : List Section) (off : Nat) : Nat :=
  ss.foldl (fun o s => align4 (o + s.info.extSize)) off


/-- length of the common header of a section of a known type -/
def fvimgHdrSize (i : SecInfo) : Nat := if i.size3 = 0xFFFFFF then 8 else 4


/-! ### volumes: the file area begins behind the headers -/

/-- does the volume header announce an extended header (as `NewFirmwareVolume` decides)? -/
def FvInfo.hasExt (i : FvInfo) : Bool :=
  decide (i.extHeaderOffset ≠ 0 ∧ i.length ≥ 20 ∧ i.extHeaderOffset ≤ i.length - 20)

/-- the bytes of the volume the parser reads before it walks the files: the fixed header with the block
    map, and the 20 bytes of the extended header when there is one -/
def FvInfo.prologue (i : FvInfo) : Nat :=
  if i.hasExt = true then max i.headerLen (i.extHeaderOffset + 20) else i.headerLen

/-- the file area begins behind the header and the extended header.  True of every volume of the
    reference grammar and of every volume the tool writes; a volume that violates it has files overlapping
    its own header (an `ExtHeaderSize` below 20, or an extended header placed inside the block map). -/
def Fv.regular (v : Fv) : Prop := v.info.prologue ≤ v.info.dataOffset

instance (v : Fv) : Decidable v.regular := by unfold Fv.regular; infer_instance


/-! ### the two exceptions -/

/-- the header at `o` reads "size FFFFFF, eight erased bytes": what `NewFile` takes for the start of the
    free space -/
def FreeMarker (d : Bytes) (o : Nat) : Prop :=
  rd d (o + 20) 3 = 0xFFFFFF ∧ rd d (o + 24) 8 = 0xFFFFFFFFFFFFFFFF

instance (d : Bytes) (o : Nat) : Decidable (FreeMarker d o) := by unfold FreeMarker; infer_instance


/-- after the alteration of position `x` (of the buffer the scan runs on), the probe whose 8-byte stride
    contains `x` sees `_FVH` -/
def NewSig (d' : Bytes) (x : Nat) : Prop := 32 ≤ x ∧ isFvSig (d'.drop (32 + (x - 32) / 8 * 8)) = true

instance (d' : Bytes) (x : Nat) : Decidable (NewSig d' x) := by unfold NewSig; infer_instance


/-! ### paths -/

/-- the `k`-th volume among the elements: `(scan base, volume start, volume)`, both offsets relative to
    the buffer the elements were parsed from; the scan that found the volume started at `scan base`
    (the end of the previous volume, or the start of the region) -/
def nthVol : List BiosElem → Nat → Nat → Nat → Option (Nat × Nat × Fv)
  | [], _, _, _ => none
  | .pad buf _ :: es, k, base, cur => nthVol es k base (cur + buf.length)
  | .fv v :: _, 0, base, cur => some (base, cur, v)
  | .fv v :: es, k+1, _, cur => nthVol es k (cur + v.info.length) (cur + v.info.length)


abbrev Path := List Nat

/-- what a path selects: a volume (its header) or a file -/
inductive Target where
  | fvHeader (v : Fv)
  | file (f : File)

/-- the protected bytes of the selected node, relative to its first byte: every byte of a volume header
    `[0, HeaderLen)`; of a file every header byte but `State` (size field, attributes and
    `IntegrityCheck.File` included) and, when the file carries the checksum attribute, every byte of it -/
def Target.protects : Target → Nat → Prop
  | .fvHeader v, r => r < v.info.headerLen
  | .file f, r => r < f.info.extSize ∧ r ≠ 23 ∧
      (r < (if isLarge f.info.attrs = true then 32 else 24) ∨ hasChecksum f.info.attrs = true)

instance (t : Target) (r : Nat) : Decidable (t.protects r) := by
  cases t <;> unfold Target.protects <;> infer_instance

/-- where a path leads -/
structure Loc where
  /-- offset of the first byte of the selected node, relative to the first byte of the volume the path
      starts in -/
  off : Nat
  tgt : Target
  /-- the volumes whose file area the path enters, outermost first -/
  through : List Fv

/-- offset of the `k`-th file of a volume, relative to the volume -/
def fileOff (v : Fv) (k : Nat) : Nat := align8 (startAfter (v.files.take k) v.info.dataOffset)

/-- offset of the `j`-th section of a file, relative to the file -/
def secOff (f : File) (j : Nat) : Nat := secAfter (f.secs.take j) f.info.dataOffset

def locFv : Path → Fv → Option Loc
  | [], v => some ⟨0, .fvHeader v, []⟩
  | [k], v =>
    match v.files[k]? with
    | none => none
    | some f => some ⟨fileOff v k, .file f, [v]⟩
  | k :: j :: rest, v =>
    match v.files[k]? with
    | none => none
    | some f =>
      match f.secs[j]? with
      | some (.mk i _ [.fv w]) =>
        if i.type = 0x17 then
          (locFv rest w).map fun l =>
            ⟨fileOff v k + (secOff f j + (fvimgHdrSize i + l.off)), l.tgt, v :: l.through⟩
        else none
      | _ => none


/-- `(scan base, volume start, node)`: the path's first number selects a volume of the region, the rest
    leads on inside it -/
def locBios (b : BiosRegion) : Path → Option (Nat × Nat × Loc)
  | [] => none
  | n :: rest =>
    match nthVol b.elems n 0 0 with
    | none => none
    | some (base, cur, v) => (locFv rest v).map fun l => (base, cur, l)


/-- the scan that finds the volume is not disturbed by the alteration of byte `q` of the volume:
    the byte is not one of the four signature bytes, and — when it lies in front of them — does not make
    `_FVH` appear at the probe that covers it -/
def ScanKept (reg' : Bytes) (base cur q : Nat) : Prop :=
  ¬ (40 ≤ q ∧ q < 44) ∧ (q < 40 → ¬ NewSig (reg'.drop base) (cur - base + q))

instance (reg' : Bytes) (base cur q : Nat) : Decidable (ScanKept reg' base cur q) := by
  unfold ScanKept; infer_instance


/-- where a path into an image leads -/
structure ImgLoc where
  /-- offset of the BIOS region in the image (0 for an image without descriptor) -/
  region : Nat
  /-- where the scan that found the selected top-level volume started, relative to the region -/
  base : Nat
  /-- offset of the selected top-level volume, relative to the region -/
  vol : Nat
  /-- the selected node inside that volume -/
  loc : Loc

/-- absolute offset of the first byte of the selected node -/
def ImgLoc.pos (l : ImgLoc) : Nat := l.region + (l.vol + l.loc.off)

def locTree : Tree → Path → Option ImgLoc
  | .bios b, p => (locBios b p).map fun x => ⟨0, x.1, x.2.1, x.2.2⟩
  | .flash _, [] => none
  | .flash f, ρ :: p =>
    match f.regions[ρ]? with
    | some (.bios b) =>
      match b.fr with
      | some fr => (locBios b p).map fun x => ⟨fr.baseOffset, x.1, x.2.1, x.2.2⟩
      | none => none
    | _ => none


end Fiano.Uefi

namespace Fiano.Uefi.C09
open Fiano Fiano.Uefi Fiano.Uefi.Spec

def isClean (r : Except Err (List VErr)) : Bool :=
  match r with
  | .ok [] => true
  | _ => false

/-- every hypothesis of `alter_detected_image` except the two exclusions, for the alteration
    "byte `r` of the node `path` selects becomes `y`", as one executable test -/
def hypsBut (b : Bytes) (path : Path) (r : Nat) (y : UInt8) (wantScan wantFree : Bool) : Bool :=
  match parseWith Hooks.none (defaultFuel b) b {} with
  | .error _ => false
  | .ok (t, st) =>
    decide (validate t st = []) &&
    match locTree t path with
    | none => false
    | some il =>
      let b' := setByte b (il.pos + r) y
      decide (∀ v ∈ il.loc.through, v.regular) &&
      decide (il.pos + r < b.length) && decide (b.getD (il.pos + r) 0 ≠ y) &&
      decide (il.loc.tgt.protects r) && decide (b.length + 8 < 2 ^ 64) &&
      decide (findSignature b' = findSignature b) &&
      (decide (ScanKept (b'.drop il.region) il.base il.vol (il.loc.off + r)) == wantScan) &&
      ((match il.loc.tgt with
        | .file _ => decide (¬ FreeMarker b' il.pos)
        | .fvHeader _ => true) == wantFree)

/-- all hypotheses of `alter_detected_image` hold -/
def hyps (b : Bytes) (path : Path) (r : Nat) (y : UInt8) : Bool := hypsBut b path r y true true


/-- where the path leads: `(position of the node in the image, scan base, volume start)` -/
def whereIs (b : Bytes) (path : Path) : Option (Nat × Nat × Nat) :=
  match parseWith Hooks.none (defaultFuel b) b {} with
  | .error _ => none
  | .ok (t, _) => (locTree t path).map fun il => (il.pos, il.region + il.base, il.region + il.vol)

/-- the altered image: byte `p` becomes `y` -/
def altered (b : Bytes) (p : Nat) (y : UInt8) : Bytes := setByte b p y


/-! ### every path of a tree, and the theorem's verdict on an alteration (evaluated by the driver) -/

/-- all paths inside a volume (nesting followed to depth `d`), outer nodes first -/
def pathsFv : Nat → Fv → List Path
  | 0, _ => [[]]
  | d+1, v =>
    [] :: (List.range v.files.length).flatMap fun k =>
      match v.files[k]? with
      | none => []
      | some f =>
        [k] :: (List.range f.secs.length).flatMap fun j =>
          match (f.secs[j]? : Option Section) with
          | some (Section.mk i _ [Node.fv w]) =>
            if i.type = 0x17 then (pathsFv d w).map (fun p => k :: j :: p) else []
          | _ => []

def pathsBios (b : BiosRegion) : List Path :=
  (List.range (b.elems.filter BiosElem.isFv).length).flatMap fun n =>
    match nthVol b.elems n 0 0 with
    | some (_, _, v) => (pathsFv 16 v).map (n :: ·)
    | none => []

def pathsTree : Tree → List Path
  | .bios b => pathsBios b
  | .flash f =>
    (List.range f.regions.length).flatMap fun ρ =>
      match (f.regions[ρ]? : Option Region) with
      | some (Region.bios b) => (pathsBios b).map (ρ :: ·)
      | _ => []

def nodesOf (t : Tree) : List (Path × ImgLoc) :=
  (pathsTree t).filterMap fun p => (locTree t p).map (p, ·)

/-- `path@position:kind:length:regular` — kind `v` (volume header, length `HeaderLen`) or `f` (file, its size) -/
def nodeLine (n : Path × ImgLoc) : String :=
  let il := n.2
  let ps := ".".intercalate (n.1.map toString)
  let reg := if decide (∀ v ∈ il.loc.through, v.regular) then "1" else "0"
  match il.loc.tgt with
  | .fvHeader v => s!"{ps}@{il.pos}:v:{v.info.headerLen}:{reg}"
  | .file f => s!"{ps}@{il.pos}:f:{f.info.extSize}:{reg}"

/-- every volume and file a path reaches, with its absolute offset -/
def pathsLine (b : Bytes) : String :=
  match parseWith Hooks.none (defaultFuel b) b {} with
  | .error _ => "parse:err"
  | .ok (t, _) =>
    let ls := (nodesOf t).map nodeLine
    if ls.isEmpty then "ok -" else "ok " ++ ",".intercalate ls

/-- what `c09_alter_detected_image` says about "byte `p` becomes `y`" for one node that protects `p`:
    `T` the theorem applies (detection is proved); otherwise the first hypothesis that fails:
    `r` a volume on the path is not regular, `g` the flash-descriptor signature changes, `s` a signature byte
    of the top-level volume, `z` `_FVH` appears at an earlier probe of the scan, `f` free-space marker -/
def verdictOne (b b' : Bytes) (il : ImgLoc) (p : Nat) : Char :=
  let r := p - il.pos
  let q := il.loc.off + r
  if ¬ decide (∀ v ∈ il.loc.through, v.regular) then 'r'
  else if findSignature b' ≠ findSignature b then 'g'
  else if 40 ≤ q ∧ q < 44 then 's'
  else if ¬ decide (ScanKept (b'.drop il.region) il.base il.vol q) then 'z'
  else match il.loc.tgt with
    | .file _ => if decide (FreeMarker b' il.pos) then 'f' else 'T'
    | .fvHeader _ => 'T'

/-- the verdict on "byte `p` becomes `y`": `n` no node protects the byte, `=` the value does not change,
    `T` the theorem applies through at least one node that protects it, else the failing hypothesis of the
    innermost such node -/
def verdictAt (b : Bytes) (nodes : List (Path × ImgLoc)) (p : Nat) (y : UInt8) : Char :=
  if ¬ p < b.length ∨ b.getD p 0 = y then '=' else
  let cands := nodes.filter fun n => decide (n.2.pos ≤ p) && decide (n.2.loc.tgt.protects (p - n.2.pos))
  if cands.isEmpty then 'n' else
  let b' := setByte b p y
  let vs := cands.map fun n => verdictOne b b' n.2 p
  if vs.contains 'T' then 'T' else vs.getLastD 'n'

/-- verdicts for a list of alterations; `d` for all of them when the image does not parse and validate
    cleanly (the theorem speaks about clean images) -/
def whyLine (b : Bytes) (ms : List (Nat × Nat)) : String :=
  match parseWith Hooks.none (defaultFuel b) b {} with
  | .error _ => "ok " ++ String.ofList (ms.map fun _ => 'd')
  | .ok (t, st) =>
    if validate t st ≠ [] then "ok " ++ String.ofList (ms.map fun _ => 'd') else
    let nodes := nodesOf t
    "ok " ++ String.ofList (ms.map fun m => verdictAt b nodes m.1 (UInt8.ofNat m.2))

end Fiano.Uefi.C09
