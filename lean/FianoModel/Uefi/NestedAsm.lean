/-
  Property C06 — `visitors.Assemble` on the tree of an image of the extended grammar produces the
  normalised image `normFv` (NestedNorm.lean): re-encoded payloads, regenerated headers, re-laid
  volumes, grown nested volumes.  Mutual induction over the grammar, following Lemmas/AsmMain.lean.
-/
import FianoModel.Uefi.NestedParse
import FianoModel.Uefi.NestedNorm

namespace Fiano.Uefi.Nested
open Fiano Fiano.Uefi Fiano.Uefi.Spec

variable {h : Hooks}

/-! ### sections -/

/-- the zero-padded concatenation of buffers of known sizes is the grammar's section area -/
theorem joinPad4_flat : ∀ (ss : List SecI) (acc : Bytes), (∀ s ∈ ss, (serSec s).length = sizeSec s) →
    sizeSecs acc.length ss < 2 ^ 62 →
    joinPad4 (ss.map serSec) acc = acc ++ serSecs acc.length ss
  | [], acc, _, _ => by simp [joinPad4, serSecs]
  | s :: ss, acc, hl, hlt => by
    have hs := hl s (by simp)
    have hge := sizeSecs_ge ss (alignUp acc.length 4 + sizeSec s)
    have hal := alignUp_ge acc.length 4 (by decide)
    simp only [sizeSecs] at hlt
    simp only [List.map_cons, joinPad4, serSecs]
    rw [align4_eq _ (by omega)]
    have hl' : (acc ++ List.replicate (alignUp acc.length 4 - acc.length) 0 ++ serSec s).length =
        alignUp acc.length 4 + sizeSec s := by
      simp only [List.length_append, List.length_replicate, hs]; omega
    rw [joinPad4_flat ss _ (fun x hx => hl x (by simp [hx])) (by rw [hl']; omega), hl']
    simp [zeros]

/-- `GenSecHeader` around a re-encoded payload below 16 MiB: the canonical GUID-defined section -/
theorem genSecHeader_guided (i : SecInfo) (g : GuidDef) (p : Bytes) (hty : i.type = 0x02) (hts : i.ts = some g)
    (hs : 24 + p.length < 0xFFFFFF) (hat : g.attrs < 65536) :
    genSecHeader i p =
      .ok ({ i with size3 := 24 + p.length, extSize := 24 + p.length, ts := some { g with dataOffset := 24 } },
           serSec (.guided false g.guid 24 g.attrs p)) := by
  unfold genSecHeader
  simp only [hts, Option.isSome_some, if_true, hty]
  have h1 : (p.length + (4 + 20)) % 4294967296 = 24 + p.length := by omega
  rw [h1]
  have hb : ¬ 24 + p.length ≥ 0xFFFFFF := by omega
  simp only [hb, decide_false, Bool.false_eq_true, if_false, write3]
  have h24 : (4 + 20) % 65536 = 24 := by decide
  simp only [h24, encodeGuidDef, serSec, secHdr, secHdrLen, Bool.false_eq_true, if_false]
  have e : 4 + 20 + p.length = 24 + p.length := by omega
  rw [e]
  simp [List.append_assoc]

theorem asmSection_leaf_eq (i : SecInfo) (buf : Bytes) (st : St) :
    asmSection h (.mk i buf []) st = asmSection Hooks.none (.mk i buf []) st := by
  rw [NestedBase.asmSection_nil, Uefi.asmSection_nil]
  rfl

theorem treeSec_noVol (s : SecI) (hn : noVol s = true) (ord : Nat) :
    ∃ i buf, Spec.treeSec s ord = .mk i buf [] := by
  cases s with
  | fvimg fv => simp [noVol] at hn
  | leaf t ext body => exact ⟨_, _, rfl⟩
  | guided ext g doff attrs body => exact ⟨_, _, rfl⟩
  | ui name => exact ⟨_, _, rfl⟩
  | version build ver => exact ⟨_, _, rfl⟩
  | depex t ops => exact ⟨_, _, rfl⟩

theorem small_notBig (s : SecI) (hn : noVol s = true) (hs : small (sizeSec s) = true) : anyBigSec s = false := by
  simp only [small, decide_eq_true_eq] at hs
  cases s with
  | fvimg fv => simp [noVol] at hn
  | leaf t ext body => rfl
  | guided ext g doff attrs body => rfl
  | ui name => simp only [sizeSec] at hs; simp [anyBigSec, bigSize]; omega
  | version build ver => simp only [sizeSec] at hs; simp [anyBigSec, bigSize]; omega
  | depex t ops => simp only [sizeSec] at hs; simp [anyBigSec, bigSize]; omega

/-- a section of the codec-free grammar that holds no volume is reassembled to itself, whatever the hooks -/
theorem asm_plain (s : SecI) (hw : Spec.wfSec s = true) (hn : noVol s = true) (hs : small (sizeSec s) = true)
    (ord : Nat) (st : St) (hp : st.pol = 0xFF) (hf : st.ffs3 = false) :
    ∃ s' st', asmSection h (Spec.treeSec s ord) st = .ok (s', st') ∧ s'.buf = serSec s ∧ st'.pol = 0xFF ∧
      st'.ffs3 = false := by
  obtain ⟨s', st', h1, h2, h3, h4⟩ := Uefi.asm_sec s hw ord st hp (fun hc => by rw [hf] at hc; cases hc)
  obtain ⟨i, buf, he⟩ := treeSec_noVol s hn ord
  refine ⟨s', st', ?_, h2, h3, ?_⟩
  · rw [he, asmSection_leaf_eq, ← he]; exact h1
  · cases hc : st'.ffs3 with
    | false => rfl
    | true =>
      rcases h4 hc with h' | h'
      · rw [hf] at h'; cases h'
      · rw [small_notBig s hn hs] at h'; cases h'

/-- a GUID-defined section without children is kept verbatim -/
theorem asm_guided_leaf (i : SecInfo) (buf : Bytes) (st : St) (hty : i.type = 0x02) :
    asmSection h (.mk i buf []) st = .ok (.mk i buf [], st) := by
  rw [NestedBase.asmSection_nil, regenLeaf_none i (by rw [hty]; decide) (by rw [hty]; decide) (by rw [hty]; decide)]

/-! ### volumes: header patches with new values, growth -/

def setCount (b0 : Block) (c : Nat) : Block := { b0 with count := c }

/-- overwriting the length / block-count / checksum windows of a volume header -/
theorem splice_fields (zv g : Bytes) (len attrs ck eho rsv rev : Nat) (b0 : Block)
    (bs : List Block) (X : Bytes) (hz : zv.length = 16) (hg : g.length = 16) (len' c' ck' : Nat) :
    splice (fvHeader zv g len attrs ck eho rsv rev (b0 :: bs) ++ X) 32 (leN 8 len') =
      fvHeader zv g len' attrs ck eho rsv rev (b0 :: bs) ++ X ∧
    splice (fvHeader zv g len attrs ck eho rsv rev (b0 :: bs) ++ X) 56 (leN 4 c') =
      fvHeader zv g len attrs ck eho rsv rev (setCount b0 c' :: bs) ++ X ∧
    splice (fvHeader zv g len attrs ck eho rsv rev (b0 :: bs) ++ X) 50 (leN 2 ck') =
      fvHeader zv g len attrs ck' eho rsv rev (b0 :: bs) ++ X := by
  have hsig : fvSigBytes.length = 4 := rfl
  have hhl : fvHdrLen (setCount b0 c' :: bs) = fvHdrLen (b0 :: bs) := rfl
  refine ⟨?_, ?_, ?_⟩
  · rw [fvHeader_split, fvHeader_split, show (32:Nat) = 16 + 16 from rfl, splice_append_skip _ _ _ 16 16 hz,
      show (16:Nat) = 16 + 0 from rfl, splice_append_skip _ _ _ 16 0 hg, splice_prefix _ _ _ (by simp)]
  · rw [fvHeader_split, fvHeader_split, hhl, show (56:Nat) = 16 + 40 from rfl, splice_append_skip _ _ _ 16 40 hz,
      show (40:Nat) = 16 + 24 from rfl, splice_append_skip _ _ _ 16 24 hg,
      show (24:Nat) = 8 + 16 from rfl, splice_append_skip _ _ _ 8 16 (by simp),
      show (16:Nat) = 4 + 12 from rfl, splice_append_skip _ _ _ 4 12 hsig,
      show (12:Nat) = 4 + 8 from rfl, splice_append_skip _ _ _ 4 8 (by simp),
      show (8:Nat) = 2 + 6 from rfl, splice_append_skip _ _ _ 2 6 (by simp),
      show (6:Nat) = 2 + 4 from rfl, splice_append_skip _ _ _ 2 4 (by simp),
      show (4:Nat) = 2 + 2 from rfl, splice_append_skip _ _ _ 2 2 (by simp),
      show (2:Nat) = 2 + 0 from rfl, splice_append_skip _ _ _ 2 0 (by simp)]
    have e : encodeBlocks (b0 :: bs) ++ (zeros 8 ++ X) =
        leN 4 b0.count ++ (leN 4 b0.size ++ (encodeBlocks bs ++ (zeros 8 ++ X))) := by
      simp [encodeBlocks]
    have e' : encodeBlocks (setCount b0 c' :: bs) ++ (zeros 8 ++ X) =
        leN 4 c' ++ (leN 4 b0.size ++ (encodeBlocks bs ++ (zeros 8 ++ X))) := by
      simp [encodeBlocks, setCount]
    rw [e, e', splice_prefix _ _ _ (by simp)]
  · rw [fvHeader_split, fvHeader_split, show (50:Nat) = 16 + 34 from rfl, splice_append_skip _ _ _ 16 34 hz,
      show (34:Nat) = 16 + 18 from rfl, splice_append_skip _ _ _ 16 18 hg,
      show (18:Nat) = 8 + 10 from rfl, splice_append_skip _ _ _ 8 10 (by simp),
      show (10:Nat) = 4 + 6 from rfl, splice_append_skip _ _ _ 4 6 hsig,
      show (6:Nat) = 4 + 2 from rfl, splice_append_skip _ _ _ 4 2 (by simp),
      show (2:Nat) = 2 + 0 from rfl, splice_append_skip _ _ _ 2 0 (by simp),
      splice_prefix _ _ _ (by simp)]

/-- the header patches of the FirmwareVolume case write a consistent header for the new length and
    block count -/
theorem patchFvHeader_new (zv g : Bytes) (len attrs eho rsv rev : Nat) (b0 : Block) (bs : List Block) (X : Bytes)
    (hz : zv.length = 16) (hg : g.length = 16) (hh : fvHdrLen (b0 :: bs) < 65536) (len' c' : Nat) :
    patchFvHeader (fvHeaderCk zv g len attrs eho rsv rev (b0 :: bs) ++ X) len' none c'
      (fvHdrLen (b0 :: bs)) = .ok (fvHeaderCk zv g len' attrs eho rsv rev (setCount b0 c' :: bs) ++ X) := by
  have hl : ∀ l ck (b : Block), (fvHeader zv g l attrs ck eho rsv rev (b :: bs)).length = fvHdrLen (b0 :: bs) :=
    fun l ck b => fvHeader_length zv g l attrs ck eho rsv rev (b :: bs) hz hg
  unfold patchFvHeader fvHeaderCk
  have h60 : ¬ (fvHeader zv g len attrs (0 - sum16 (fvHeader zv g len attrs 0 eho rsv rev (b0 :: bs))).toNat
      eho rsv rev (b0 :: bs) ++ X).length < 60 := by
    simp only [List.length_append, hl, fvHdrLen, List.length_cons]; omega
  simp only [h60, if_false]
  rw [(splice_fields zv g len attrs _ eho rsv rev b0 bs X hz hg len' c' 0).1,
    (splice_fields zv g len' attrs _ eho rsv rev b0 bs X hz hg len' c' 0).2.1]
  have hz2 : ([0, 0] : Bytes) = leN 2 0 := by decide
  rw [hz2, (splice_fields zv g len' attrs _ eho rsv rev (setCount b0 c') bs X hz hg len' c' 0).2.2]
  have h1 : ¬ fvHdrLen (b0 :: bs) > (fvHeader zv g len' attrs 0 eho rsv rev (setCount b0 c' :: bs) ++ X).length := by
    simp only [List.length_append, hl]; omega
  have h2 : ¬ fvHdrLen (b0 :: bs) % 2 ≠ 0 := by simp only [fvHdrLen, List.length_cons]; omega
  simp only [h1, h2, if_false, take_left_len _ _ _ (hl len' 0 (setCount b0 c'))]
  rw [(splice_fields zv g len' attrs 0 eho rsv rev (setCount b0 c') bs X hz hg len' c' _).2.2]

theorem setCount_self (b0 : Block) : setCount b0 b0.count = b0 := by cases b0; rfl

/-- `finishFv` (Assemble.lean) with the alignment function as a parameter: the kernel cannot reduce
    `alignGo` on open terms cheaply (bitwise operations on `Nat` unfold through well-founded
    recursion), so the case analysis below is done for an arbitrary function and instantiated -/
def finishFvP (ag : Nat → Nat → Nat) (i : FvInfo) (fbuf : Bytes) (st : St) : Except Err (FvInfo × Bytes × St) :=
  let newLen := fbuf.length
  if i.length < newLen ∧ ¬ i.resizable then .error .err else
  let rz : Except Err (Nat × List Block) :=
    if i.length < newLen then
      match i.blocks with
      | [] => .error .panic
      | b0 :: bs =>
        if b0.size = 0 then .error .err
        else
          let l := ag newLen b0.size
          .ok (l, { b0 with count := (l / b0.size) % 4294967296 } :: bs)
    else .ok (i.length, i.blocks)
  match rz with
  | .error e => .error e
  | .ok (length, blocks) =>
    let fbuf := if length > newLen then fbuf ++ List.replicate (length - newLen) st.pol else fbuf
    let free := (length + 18446744073709551616 - align8 newLen) % 18446744073709551616
    let swap : Bool := st.ffs3 && i.fsGuid == guidFFS2
    match blocks with
    | [] => .error .panic
    | b0 :: _ =>
      match patchFvHeader fbuf length (if swap then some guidFFS3 else none) b0.count i.headerLen with
      | .error e => .error e
      | .ok out =>
        .ok ({ i with length := length, blocks := blocks, freeSpace := free,
                      fsGuid := if swap then guidFFS3 else i.fsGuid }, out, { st with ffs3 := false })

theorem finishFv_eq_P (i : FvInfo) (fbuf : Bytes) (st : St) : finishFv i fbuf st = finishFvP alignGo i fbuf st := rfl

def finishLenP (ag : Nat → Nat → Nat) (length newLen : Nat) (blocks : List Block) : Nat × List Block :=
  if newLen ≤ length then (length, blocks)
  else match blocks with
    | b0 :: bs =>
      let l := ag newLen b0.size
      (l, { b0 with count := (l / b0.size) % 4294967296 } :: bs)
    | [] => (length, blocks)

theorem finishLen_eq_P (length newLen : Nat) (blocks : List Block) :
    finishLen length newLen blocks = finishLenP alignGo length newLen blocks := rfl

theorem finishFvP_gen (ag : Nat → Nat → Nat) (i : FvInfo) (zv G : Bytes) (L attrs eho rsv rev : Nat) (b0 : Block)
    (bs : List Block) (Y : Bytes) (st : St)
    (hL : i.length = L) (hb : i.blocks = b0 :: bs) (hG : i.fsGuid = G) (hh : i.headerLen = fvHdrLen (b0 :: bs))
    (hz : zv.length = 16) (hg : G.length = 16) (hhl : fvHdrLen (b0 :: bs) < 65536) (hp : st.pol = 0xFF)
    (hf : st.ffs3 = false)
    (hfit : (fvHeaderCk zv G L attrs eho rsv rev (b0 :: bs) ++ Y).length ≤ L ∨
      (i.resizable = true ∧ b0.size ≠ 0 ∧
        (fvHeaderCk zv G L attrs eho rsv rev (b0 :: bs) ++ Y).length ≤
          ag (fvHeaderCk zv G L attrs eho rsv rev (b0 :: bs) ++ Y).length b0.size)) :
    ∃ i', finishFvP ag i (fvHeaderCk zv G L attrs eho rsv rev (b0 :: bs) ++ Y) st =
      .ok (i',
           fvHeaderCk zv G (finishLenP ag L (fvHeaderCk zv G L attrs eho rsv rev (b0 :: bs) ++ Y).length (b0 :: bs)).1
             attrs eho rsv rev (finishLenP ag L (fvHeaderCk zv G L attrs eho rsv rev (b0 :: bs) ++ Y).length (b0 :: bs)).2 ++
             (Y ++ ffs ((finishLenP ag L (fvHeaderCk zv G L attrs eho rsv rev (b0 :: bs) ++ Y).length (b0 :: bs)).1 -
               (fvHeaderCk zv G L attrs eho rsv rev (b0 :: bs) ++ Y).length)),
           { st with ffs3 := false }) ∧ i'.attrs = i.attrs := by
  generalize hE : (fvHeaderCk zv G L attrs eho rsv rev (b0 :: bs) ++ Y).length = E at *
  have hsw : (st.ffs3 && G == guidFFS2) = false := by rw [hf]; rfl
  unfold finishFvP finishLenP
  simp only [hE, hL, hG, hb, hh, hp, hsw, Bool.false_eq_true, if_false]
  by_cases hc : E ≤ L
  · have hc1 : ¬ (L < E ∧ ¬ i.resizable = true) := by omega
    have hc2 : ¬ (L < E) := by omega
    simp only [hc1, hc2, hc, if_false, if_true]
    have hbuf : (if L > E then fvHeaderCk zv G L attrs eho rsv rev (b0 :: bs) ++ Y ++ List.replicate (L - E) 0xFF
        else fvHeaderCk zv G L attrs eho rsv rev (b0 :: bs) ++ Y) =
        fvHeaderCk zv G L attrs eho rsv rev (b0 :: bs) ++ (Y ++ ffs (L - E)) := by
      split
      · simp [ffs]
      · have : L - E = 0 := by omega
        rw [this]; simp [ffs]
    rw [hbuf, patchFvHeader_new zv G L attrs eho rsv rev b0 bs _ hz hg hhl L b0.count, setCount_self]
    exact ⟨_, rfl, rfl⟩
  · rcases hfit with hfit | ⟨hrz, hsz, hge⟩
    · exact absurd hfit hc
    · have hc1 : ¬ (L < E ∧ ¬ i.resizable = true) := by rw [hrz]; simp
      have hc2 : L < E := by omega
      rw [if_neg hc1, if_pos hc2, if_neg hsz, if_neg hc]
      simp only []
      have hbuf : (if ag E b0.size > E then
            fvHeaderCk zv G L attrs eho rsv rev (b0 :: bs) ++ Y ++ List.replicate (ag E b0.size - E) 0xFF
          else fvHeaderCk zv G L attrs eho rsv rev (b0 :: bs) ++ Y) =
          fvHeaderCk zv G L attrs eho rsv rev (b0 :: bs) ++ (Y ++ ffs (ag E b0.size - E)) := by
        split
        · simp [ffs]
        · have : ag E b0.size - E = 0 := by omega
          rw [this]; simp [ffs]
      rw [hbuf, patchFvHeader_new zv G L attrs eho rsv rev b0 bs _ hz hg hhl]
      exact ⟨_, rfl, rfl⟩

/-- the second half of the FirmwareVolume case (no FFSv3 request pending): the volume keeps its
    length while the files fit and grows to a multiple of the first block size otherwise -/
theorem finishFv_gen (i : FvInfo) (zv G : Bytes) (L attrs eho rsv rev : Nat) (b0 : Block) (bs : List Block)
    (Y : Bytes) (st : St)
    (hL : i.length = L) (hb : i.blocks = b0 :: bs) (hG : i.fsGuid = G) (hh : i.headerLen = fvHdrLen (b0 :: bs))
    (hz : zv.length = 16) (hg : G.length = 16) (hhl : fvHdrLen (b0 :: bs) < 65536) (hp : st.pol = 0xFF)
    (hf : st.ffs3 = false)
    (hfit : (fvHeaderCk zv G L attrs eho rsv rev (b0 :: bs) ++ Y).length ≤ L ∨
      (i.resizable = true ∧ b0.size ≠ 0 ∧
        (fvHeaderCk zv G L attrs eho rsv rev (b0 :: bs) ++ Y).length ≤
          alignGo (fvHeaderCk zv G L attrs eho rsv rev (b0 :: bs) ++ Y).length b0.size)) :
    ∃ i', finishFv i (fvHeaderCk zv G L attrs eho rsv rev (b0 :: bs) ++ Y) st =
      .ok (i',
           fvHeaderCk zv G (finishLen L (fvHeaderCk zv G L attrs eho rsv rev (b0 :: bs) ++ Y).length (b0 :: bs)).1
             attrs eho rsv rev (finishLen L (fvHeaderCk zv G L attrs eho rsv rev (b0 :: bs) ++ Y).length (b0 :: bs)).2 ++
             (Y ++ ffs ((finishLen L (fvHeaderCk zv G L attrs eho rsv rev (b0 :: bs) ++ Y).length (b0 :: bs)).1 -
               (fvHeaderCk zv G L attrs eho rsv rev (b0 :: bs) ++ Y).length)),
           { st with ffs3 := false }) ∧ i'.attrs = i.attrs := by
  rw [finishFv_eq_P]
  simp only [finishLen_eq_P]
  exact finishFvP_gen alignGo i zv G L attrs eho rsv rev b0 bs Y st hL hb hG hh hz hg hhl hp hf hfit

/-! ### the file loop on arbitrary (re-sized) files -/

theorem alignUp_of_mod8 (n : Nat) (h8 : n % 8 = 0) : alignUp n 8 = n := by unfold alignUp; omega

theorem length_serFiles_gen : ∀ (fs : List FileI) (off : Nat), (∀ f ∈ fs, (serFile f).length = sizeFile f) →
    off + (serFiles off fs).length = endFiles off fs
  | [], off, _ => by simp [serFiles, endFiles]
  | f :: fs, off, hl => by
    have h1 := hl f (by simp)
    have h2 := length_serFiles_gen fs (alignUp off 8 + sizeFile f) (fun x hx => hl x (by simp [hx]))
    have := alignUp_ge off 8 (by decide)
    simp only [serFiles, endFiles, List.length_append, ffs, List.length_replicate, h1]
    omega

/-- what the relayout appends for one file, on the grammar -/
theorem relay_cons (off : Nat) (f : CFile) (fs : List CFile) :
    relay off (f :: fs) =
      (if fileStart off (storedAttrs (flatFile f)) = alignUp off 8 then []
       else [CFile.leaf (padLeaf (fileStart off (storedAttrs (flatFile f)) - alignUp off 8))]) ++
        f :: relay (fileStart off (storedAttrs (flatFile f)) + sizeFile (flatFile f)) fs := rfl

/-- **the file loop in closed form, on the grammar**: placing the (re-sized) files one after the other
    writes the serialised file area of the re-laid list `relay off fs` -/
theorem placeFiles_relay : ∀ (fs : List CFile) (off : Nat) (acc : Bytes),
    (∀ f ∈ fs, storedAttrs (flatFile f) < 256 ∧ (serFile (flatFile f)).length = sizeFile (flatFile f)) →
    acc.length = off → endFiles off (flatFiles (relay off fs)) < 2 ^ 62 → okFv.padsSmall off fs = true →
    placeFiles 0xFF (fs.map (fun f => (storedAttrs (flatFile f), serFile (flatFile f)))) acc off =
      .ok (acc ++ serFiles off (flatFiles (relay off fs)))
  | [], off, acc, _, _, _, _ => by simp [placeFiles, relay, flatFiles, serFiles]
  | f :: fs, off, acc, hl, hacc, hlt, hps => by
    obtain ⟨ha, hlen⟩ := hl f (by simp)
    have hsz := sizeFile_ge (flatFile f)
    have hspec := fileStart_spec off (storedAttrs (flatFile f)) ha
    have h8 := alignUp8_ge off
    simp only [okFv.padsSmall, small, Bool.and_eq_true, decide_eq_true_eq] at hps
    obtain ⟨hpad, hps'⟩ := hps
    rw [relay_cons] at hlt ⊢
    generalize hn : fileStart off (storedAttrs (flatFile f)) = n at *
    have hrest := endFiles_ge (flatFiles (relay (n + sizeFile (flatFile f)) fs)) (n + sizeFile (flatFile f))
    simp only [List.map_cons, placeFiles]
    by_cases hc : n = alignUp off 8
    · rw [if_pos hc] at hlt ⊢
      simp only [List.nil_append, flatFiles, endFiles, serFiles] at hlt ⊢
      rw [← hc] at hlt
      rw [placeFile_gen acc off _ _ ha hacc (by omega) (by rw [hlen]; omega) (by rw [hn]; omega), hn, if_pos hc]
      simp only [List.append_nil]
      rw [hlen, placeFiles_relay fs (n + sizeFile (flatFile f)) _ (fun x hx => hl x (by simp [hx]))
        (by simp only [List.length_append, ffs, List.length_replicate, hacc, hlen]; omega) hlt hps']
      rw [← hc]
      simp [List.append_assoc]
    · have hge24 : 24 ≤ n - alignUp off 8 := by omega
      have hk : alignUp off 8 + (n - alignUp off 8) = n := by omega
      rw [if_neg hc] at hlt ⊢
      simp only [List.cons_append, List.nil_append, flatFiles, flatFile, endFiles, serFiles,
        sizeFile_padLeaf _ hge24, hk, alignUp_of_mod8 n hspec.2.1] at hlt ⊢
      rw [placeFile_gen acc off _ _ ha hacc (by omega) (by rw [hlen]; omega) (by rw [hn]; omega), hn, if_neg hc]
      simp only []
      rw [hlen, placeFiles_relay fs (n + sizeFile (flatFile f)) _ (fun x hx => hl x (by simp [hx]))
        (by simp only [List.length_append, ffs, List.length_replicate, hacc, hlen, length_padLeaf _ hge24]; omega)
        hlt hps']
      simp [List.append_assoc, ffs]

/-! ### small helper facts -/

theorem sectAttrs_small (a d : Nat) (hs : 24 + d < 0xFFFFFF) : sectAttrs a d = a &&& 0xFE := by
  unfold sectAttrs; rw [if_neg (by omega)]

theorem and_fe_fe (a : Nat) : (a &&& 0xFE) &&& 0xFE = a &&& 0xFE := by
  rw [Nat.and_assoc]; rfl

theorem and_fe_one (a : Nat) : ¬ ((a &&& 0xFE) &&& 1 ≠ 0) := by
  rw [Nat.and_assoc]; simp

theorem and_fe_lt (a : Nat) (ha : a < 256) : a &&& 0xFE < 256 := Nat.lt_of_le_of_lt Nat.and_le_left ha

theorem write3_small (n : Nat) (hs : n < 0xFFFFFF) : write3 n = n := by unfold write3; rw [if_neg (by omega)]

theorem noteLarge_small (n : Nat) (st : St) (hs : n ≤ 0xFFFFFF) : noteLarge n st = st := by
  unfold noteLarge; rw [if_neg (by omega)]

theorem finishLenP_len (ag : Nat → Nat → Nat) (l e : Nat) (blocks : List Block) :
    (finishLenP ag l e blocks).2.length = blocks.length := by
  unfold finishLenP
  split
  · rfl
  · cases blocks <;> rfl

theorem finishLen_len (l e : Nat) (blocks : List Block) : (finishLen l e blocks).2.length = blocks.length := by
  rw [finishLen_eq_P]; exact finishLenP_len alignGo l e blocks

theorem fvHdrLen_congr {b1 b2 : List Block} (hl : b1.length = b2.length) : fvHdrLen b1 = fvHdrLen b2 := by
  unfold fvHdrLen; rw [hl]

theorem preLen_congr {b1 b2 : List Block} (hl : b1.length = b2.length) (ext : Option ExtI) :
    preLen b1 ext = preLen b2 ext := by
  cases ext <;> simp only [preLen, fvHdrLen_congr hl]

theorem ehoOf_congr {b1 b2 : List Block} (hl : b1.length = b2.length) (ext : Option ExtI) :
    ehoOf b1 ext = ehoOf b2 ext := by
  cases ext <;> simp only [ehoOf, fvHdrLen_congr hl]

theorem preBytes_congr {b1 b2 : List Block} (hl : b1.length = b2.length) (ext : Option ExtI) :
    preBytes b1 ext = preBytes b2 ext := by
  cases ext <;> simp only [preBytes, fvHdrLen_congr hl]

theorem storedAttrs_lt_leaf (f : FileI) (hw : Spec.wfFile f = true) : storedAttrs f < 256 := by
  cases f with
  | leaf g ckh ckf t a st ext body => exact (wfFile_leaf hw).ha
  | sect g t a st secs => exact sectAttrs_lt a _ (Spec.wfFile_sect hw).ha

theorem encode?_some {g : Guid} {x p : Bytes} {c : Codec} (hc : h.codec g = some c) (he : encode? h g x = some p) :
    c.encode x = some p := by
  simpa [encode?, hc] using he

/-! ### the mutual induction -/

/-- buffers and lengths of the reassembled sections -/
def SecsDone (h : Hooks) (ss : List CSec) (bufs : List Bytes) : Prop :=
  bufs = (flatSecs (normSecs h ss)).map serSec ∧
    ∀ s ∈ flatSecs (normSecs h ss), (serSec s).length = sizeSec s

theorem secsDone_nil (h : Hooks) : SecsDone h [] [] := ⟨rfl, fun _ hs => by simp [normSecs, flatSecs] at hs⟩

theorem secsDone_cons {h : Hooks} {s : CSec} {ss : List CSec} {b : Bytes} {bs : List Bytes}
    (hb : b = serSec (flatSec (normSec h s))) (hl : (serSec (flatSec (normSec h s))).length = sizeSec (flatSec (normSec h s)))
    (ht : SecsDone h ss bs) : SecsDone h (s :: ss) (b :: bs) := by
  refine ⟨by simp [normSecs, flatSecs, hb, ht.1], ?_⟩
  intro x hx
  simp only [normSecs, flatSecs, List.mem_cons] at hx
  rcases hx with rfl | hx
  · exact hl
  · exact ht.2 x hx

theorem secsDone_join {h : Hooks} {ss : List CSec} {bufs : List Bytes} (hd : SecsDone h ss bufs)
    (hlt : sizeSecs 0 (flatSecs (normSecs h ss)) < 2 ^ 62) :
    joinPad4 bufs [] = serSecs 0 (flatSecs (normSecs h ss)) := by
  rw [hd.1, joinPad4_flat _ [] hd.2 (by simpa using hlt)]
  simp

theorem secsDone_ne {h : Hooks} {ss : List CSec} {bufs : List Bytes} (hd : SecsDone h ss bufs) (hne : ss ≠ []) :
    bufs ≠ [] := by
  intro hc
  rw [hc] at hd
  cases ss with
  | nil => exact hne rfl
  | cons a b => have := hd.1; simp [normSecs, flatSecs] at this

/-- the encapsulated-section case of `Assemble.Visit` for a GUID-defined section that is re-encoded -/
theorem asmSection_guided_encap (i : SecInfo) (buf : Bytes) (encap : List Node) (st : St) (n0 : Node) (nr : List Node)
    (st1 : St) (g : GuidDef) (c : Codec) (p : Bytes)
    (h1 : asmNodes h encap st = .ok (n0 :: nr, st1)) (hty : i.type = 0x02) (hts : i.ts = some g)
    (hbit : g.attrs &&& 1 ≠ 0) (hc : h.codec g.guid = some c)
    (he : c.encode (joinPad4 ((n0 :: nr).map Node.buf) []) = some p) :
    asmSection h (.mk i buf encap) st =
      (match genSecHeader i p with
       | .error e => .error e
       | .ok (i', buf') => .ok (.mk i' buf' (n0 :: nr), noteLarge i'.extSize st1)) := by
  rw [asmSection, h1]
  simp only [hty, hts, hbit, hc, he, if_true, ne_eq, not_false_eq_true]
  rfl

/-- the encapsulated-section case for a volume-image section -/
theorem asmSection_fvimg_encap (i : SecInfo) (buf : Bytes) (encap : List Node) (st : St) (n0 : Node) (nr : List Node)
    (st1 : St) (h1 : asmNodes h encap st = .ok (n0 :: nr, st1)) (hty : i.type ≠ 0x02) :
    asmSection h (.mk i buf encap) st =
      (match genSecHeader i (joinPad4 ((n0 :: nr).map Node.buf) []) with
       | .error e => .error e
       | .ok (i', buf') => .ok (.mk i' buf' (n0 :: nr), noteLarge i'.extSize st1)) := by
  rw [asmSection, h1]
  simp only [hty, if_false]
  rfl

/-- the File case of `Assemble.Visit` for a file with sections -/
theorem asmFile_sect (i : FileInfo) (buf : Bytes) (secs : List Section) (st : St) (t0 : Section) (tr : List Section)
    (st1 : St) (hn : i.nvar = none) (h1 : asmSections h secs st = .ok (t0 :: tr, st1)) :
    asmFile h (.mk i buf secs) st =
      .ok (.mk (checksumAndAssemble
                 { i with attrs := (setSize i.attrs (24 + (joinPad4 ((t0 :: tr).map Section.buf) []).length) true).1,
                          size3 := (setSize i.attrs (24 + (joinPad4 ((t0 :: tr).map Section.buf) []).length) true).2.1,
                          extSize := (setSize i.attrs (24 + (joinPad4 ((t0 :: tr).map Section.buf) []).length) true).2.2 }
                 (joinPad4 ((t0 :: tr).map Section.buf) [])).1
               (checksumAndAssemble
                 { i with attrs := (setSize i.attrs (24 + (joinPad4 ((t0 :: tr).map Section.buf) []).length) true).1,
                          size3 := (setSize i.attrs (24 + (joinPad4 ((t0 :: tr).map Section.buf) []).length) true).2.1,
                          extSize := (setSize i.attrs (24 + (joinPad4 ((t0 :: tr).map Section.buf) []).length) true).2.2 }
                 (joinPad4 ((t0 :: tr).map Section.buf) [])).2
               (t0 :: tr),
           noteLarge (setSize i.attrs (24 + (joinPad4 ((t0 :: tr).map Section.buf) []).length) true).2.2 st1) := by
  rw [asmFile]
  simp only [hn, h1]

theorem length_serSecs_gen : ∀ (l : List SecI) (n : Nat), (∀ s ∈ l, (serSec s).length = sizeSec s) →
    n + (serSecs n l).length = sizeSecs n l
  | [], n, _ => by simp [serSecs, sizeSecs]
  | x :: xs, n, hx => by
    have h1 := hx x (by simp)
    have h2 := length_serSecs_gen xs (alignUp n 4 + sizeSec x) (fun y hy => hx y (by simp [hy]))
    have := alignUp_ge n 4 (by decide)
    simp only [serSecs, sizeSecs, List.length_append, zeros, List.length_replicate, h1]
    omega

theorem cons_of_map_ne {α β} (f : α → β) (l : List α) (hne : l.map f ≠ []) : ∃ a r, l = a :: r := by
  cases l with
  | nil => simp at hne
  | cons a r => exact ⟨a, r, rfl⟩

theorem finishLenP_ge (ag : Nat → Nat → Nat) (l e : Nat) (blocks : List Block)
    (hfit : e ≤ l ∨ ∃ b0 bs, blocks = b0 :: bs ∧ e ≤ ag e b0.size) : e ≤ (finishLenP ag l e blocks).1 := by
  unfold finishLenP
  split
  · assumption
  · rename_i hc
    rcases hfit with hfit | ⟨b0, bs, rfl, hge⟩
    · exact absurd hfit hc
    · exact hge

theorem finishLen_ge (l e : Nat) (blocks : List Block)
    (hfit : e ≤ l ∨ ∃ b0 bs, blocks = b0 :: bs ∧ e ≤ alignGo e b0.size) : e ≤ (finishLen l e blocks).1 := by
  rw [finishLen_eq_P]; exact finishLenP_ge alignGo l e blocks hfit

/-- every file of the re-laid list has the length the size functions assign to it -/
theorem relay_lens : ∀ (off : Nat) (fs : List CFile),
    (∀ f ∈ fs, storedAttrs (flatFile f) < 256 ∧ (serFile (flatFile f)).length = sizeFile (flatFile f)) →
    ∀ f ∈ flatFiles (relay off fs), (serFile f).length = sizeFile f
  | _, [], _ => by intro f hf; simp [relay, flatFiles] at hf
  | off, f :: fs, hl => by
    obtain ⟨ha, hlen⟩ := hl f (by simp)
    have hspec := fileStart_spec off (storedAttrs (flatFile f)) ha
    have ih := relay_lens (fileStart off (storedAttrs (flatFile f)) + sizeFile (flatFile f)) fs
      (fun x hx => hl x (by simp [hx]))
    intro x hx
    rw [relay_cons] at hx
    by_cases hc : fileStart off (storedAttrs (flatFile f)) = alignUp off 8
    · rw [if_pos hc] at hx
      simp only [List.nil_append, flatFiles, List.mem_cons] at hx
      rcases hx with rfl | hx
      · exact hlen
      · exact ih x hx
    · rw [if_neg hc] at hx
      simp only [List.cons_append, List.nil_append, flatFiles, flatFile, List.mem_cons] at hx
      rcases hx with rfl | rfl | hx
      · have h24 : 24 ≤ fileStart off (storedAttrs (flatFile f)) - alignUp off 8 := by omega
        rw [length_padLeaf _ h24, sizeFile_padLeaf _ h24]
      · exact hlen
      · exact ih x hx

set_option maxHeartbeats 1600000 in
mutual

theorem asm_sec (hk : HooksOK h) : ∀ (s : CSec) (tail : Bytes), wfSec h tail s = true → okSec h s = true →
    ∀ (ord : Nat) (st : St), st.pol = 0xFF → st.ffs3 = false →
    ∃ s' st', asmSection h (treeSec s ord) st = .ok (s', st') ∧ s'.buf = serSec (flatSec (normSec h s)) ∧
      (serSec (flatSec (normSec h s))).length = sizeSec (flatSec (normSec h s)) ∧ st'.pol = 0xFF ∧ st'.ffs3 = false
  | .plain s, tail, hw, _, ord, st, hp, hf => by
    simp only [wfSec, Bool.and_eq_true] at hw
    obtain ⟨s', st', h1, h2, h3, h4⟩ := asm_plain (h := h) s hw.1.1 hw.1.2 hw.2 ord st hp hf
    exact ⟨s', st', by simpa [treeSec] using h1, by simpa [normSec, flatSec] using h2,
      by simpa [normSec, flatSec] using Spec.length_serSec s hw.1.1, h3, h4⟩
  | .opq ext g doff attrs comp body, tail, hw, _, ord, st, hp, hf => by
    simp only [wfSec, Bool.and_eq_true] at hw
    have w := guidedOk_spec hw.1
    have hres : asmSection h (treeSec (.opq ext g doff attrs comp body) ord) st =
        .ok (treeSec (.opq ext g doff attrs comp body) ord, st) := by
      simp only [treeSec]
      exact asm_guided_leaf _ _ _ (by simp [guidedInfo, secInfoOf])
    refine ⟨_, st, hres, rfl, ?_, hp, hf⟩
    simp only [normSec, flatSec, sizeSec]
    exact length_guided ext g doff attrs body w.hg
  | .comp ext g doff attrs name payload kids, tail, hw, hok, ord, st, hp, hf => by
    simp only [wfSec, Bool.and_eq_true, decide_eq_true_eq] at hw
    obtain ⟨⟨⟨⟨hgo, hne⟩, hcod⟩, hkids⟩, _⟩ := hw
    have w := guidedOk_spec hgo
    simp only [okSec, Bool.and_eq_true, decide_eq_true_eq] at hok
    obtain ⟨⟨hokk, henc⟩, hbound⟩ := hok
    have hne' : kids ≠ [] := by
      intro hc; rw [hc] at hne; simp at hne
    obtain ⟨ns', st1, h1, hd, hp1, hf1⟩ := asm_nodes hk kids 0 hkids hokk 0 st hp hf
    have hjoin := secsDone_join hd hbound
    obtain ⟨n0, nr, hns⟩ := cons_of_map_ne Node.buf ns' (secsDone_ne hd hne')
    cases hc : h.codec g with
    | none => rw [hc] at hcod; simp at hcod
    | some c =>
      cases he : encode? h g (serSecs 0 (flatSecs (normSecs h kids))) with
      | none => rw [he] at henc; simp at henc
      | some p =>
        rw [he] at henc
        simp only [small, decide_eq_true_eq] at henc
        have hce := encode?_some hc he
        have hgen := genSecHeader_guided (guidedInfo ext g doff attrs name payload.length ord)
          ⟨g, doff, attrs, name⟩ p (by simp [guidedInfo, secInfoOf]) (by simp [guidedInfo]) henc w.hattrs
        have hres := asmSection_guided_encap (h := h) (guidedInfo ext g doff attrs name payload.length ord)
          (serSec (.guided ext g doff attrs payload)) (treeNodes kids 0) st n0 nr st1 ⟨g, doff, attrs, name⟩ c p
          (by rw [h1, hns]) (by simp [guidedInfo, secInfoOf]) (by simp [guidedInfo]) w.hbit hc
          (by rw [← hns, hjoin]; exact hce)
        rw [hgen] at hres
        refine ⟨_, _, by simp only [treeSec]; exact hres, ?_, ?_, ?_, ?_⟩
        · simp only [Section.buf, normSec, flatSec, he, Option.getD_some]
        · simp only [normSec, flatSec, sizeSec]
          exact length_guided false g 24 attrs _ w.hg
        · rw [noteLarge_small _ _ (by simp only []; omega)]; exact hp1
        · rw [noteLarge_small _ _ (by simp only []; omega)]; exact hf1
  | .fvimg v, tail, hw, hok, ord, st, hp, hf => by
    simp only [wfSec, small, Bool.and_eq_true, decide_eq_true_eq] at hw
    simp only [okSec, small, Bool.and_eq_true, decide_eq_true_eq] at hok
    obtain ⟨v', st1, hv1, hbuf, hlen, hp1, hf1⟩ := asm_fv hk v hw.1 true hok.1 0 st hp hf
    have hts : (canonInfo 0x17 (sizeFv (flatFv v)) ord).ts = none := canonInfo_ts _ _ _
    have hty : (canonInfo 0x17 (sizeFv (flatFv v)) ord).type = 0x17 := canonInfo_type _ _ _
    have hg := genSecHeader_canon (canonInfo 0x17 (sizeFv (flatFv v)) ord) (serFv (flatFv (normFv h v))) hts
      (by rw [hty]; decide) (by rw [hlen]; omega)
    have hjoin : joinPad4 (List.map Node.buf [Node.fv v']) [] = serFv (flatFv (normFv h v)) := by
      simp [joinPad4, Node.buf, hbuf, align4_zero]
    have hres := asmSection_fvimg_encap (h := h) (canonInfo 0x17 (sizeFv (flatFv v)) ord)
      (serSec (.fvimg (flatFv v))) [.fv (treeFv v 0 true)] st (.fv v') [] st1
      (by simp only [asmNodes, hv1]) (by rw [hty]; decide)
    rw [hjoin, hg] at hres
    have hext : (canonInfo (canonInfo 0x17 (sizeFv (flatFv v)) ord).type (serFv (flatFv (normFv h v))).length
        (canonInfo 0x17 (sizeFv (flatFv v)) ord).fileOrder).extSize ≤ 0xFFFFFF := by
      rw [canonInfo_extSize, hlen]; unfold canonSecSize; split <;> omega
    refine ⟨_, _, by simp only [treeSec]; exact hres, ?_, ?_, ?_, ?_⟩
    · simp [Section.buf, normSec, flatSec, serSec, hty]
    · simp [normSec, flatSec, serSec, sizeSec, canonSec_length, hlen]
    · rw [noteLarge_small _ _ hext]; exact hp1
    · rw [noteLarge_small _ _ hext]; exact hf1

theorem asm_nodes (hk : HooksOK h) : ∀ (ss : List CSec) (u : Nat), wfSecs h u ss = true → okSecs h ss = true →
    ∀ (idx : Nat) (st : St), st.pol = 0xFF → st.ffs3 = false →
    ∃ ns' st', asmNodes h (treeNodes ss idx) st = .ok (ns', st') ∧ SecsDone h ss (ns'.map Node.buf) ∧
      st'.pol = 0xFF ∧ st'.ffs3 = false
  | [], _, _, _, idx, st, hp, hf => ⟨[], st, by simp [treeNodes, asmNodes], secsDone_nil h, hp, hf⟩
  | s :: ss, u, hw, hok, idx, st, hp, hf => by
    have ⟨hs, hss⟩ := wfSecs_cons hw
    simp only [okSecs, Bool.and_eq_true] at hok
    obtain ⟨s', st1, h1, hb1, hl1, hp1, hf1⟩ := asm_sec hk s _ hs hok.1 idx st hp hf
    obtain ⟨ns', st2, h2, hd2, hp2, hf2⟩ := asm_nodes hk ss _ hss hok.2 (idx + 1) st1 hp1 hf1
    refine ⟨.sec s' :: ns', st2, ?_, ?_, hp2, hf2⟩
    · simp only [treeNodes, asmNodes, h1, h2]
    · simp only [List.map_cons, Node.buf]
      exact secsDone_cons hb1 hl1 hd2

theorem asm_secs (hk : HooksOK h) : ∀ (ss : List CSec) (u : Nat), wfSecs h u ss = true → okSecs h ss = true →
    ∀ (idx : Nat) (st : St), st.pol = 0xFF → st.ffs3 = false →
    ∃ ss' st', asmSections h (treeSecs ss idx) st = .ok (ss', st') ∧ SecsDone h ss (ss'.map Section.buf) ∧
      st'.pol = 0xFF ∧ st'.ffs3 = false
  | [], _, _, _, idx, st, hp, hf => ⟨[], st, by simp [treeSecs, asmSections], secsDone_nil h, hp, hf⟩
  | s :: ss, u, hw, hok, idx, st, hp, hf => by
    have ⟨hs, hss⟩ := wfSecs_cons hw
    simp only [okSecs, Bool.and_eq_true] at hok
    obtain ⟨s', st1, h1, hb1, hl1, hp1, hf1⟩ := asm_sec hk s _ hs hok.1 idx st hp hf
    obtain ⟨ss', st2, h2, hd2, hp2, hf2⟩ := asm_secs hk ss _ hss hok.2 (idx + 1) st1 hp1 hf1
    refine ⟨s' :: ss', st2, ?_, ?_, hp2, hf2⟩
    · simp only [treeSecs, asmSections, h1, h2]
    · simp only [List.map_cons]
      exact secsDone_cons hb1 hl1 hd2

theorem asm_file (hk : HooksOK h) : ∀ (f : CFile), wfFile h f = true → okFile h f = true →
    ∀ (st : St), st.pol = 0xFF → st.ffs3 = false →
    ∃ f' st', asmFile h (treeFile f) st = .ok (f', st') ∧ f'.buf = serFile (flatFile (normFile h f)) ∧
      f'.info.attrs = storedAttrs (flatFile (normFile h f)) ∧ storedAttrs (flatFile (normFile h f)) < 256 ∧
      (serFile (flatFile (normFile h f))).length = sizeFile (flatFile (normFile h f)) ∧
      st'.pol = 0xFF ∧ st'.ffs3 = false
  | .leaf f, hw, _, st, hp, hf => by
    simp only [wfFile, Bool.and_eq_true] at hw
    obtain ⟨⟨⟨hwf, hleaf⟩, _⟩, _⟩ := hw
    cases f with
    | sect g t a stt secs => simp [isLeafFile] at hleaf
    | leaf g ckh ckf t a stt ext body =>
      refine ⟨Spec.treeFile (.leaf g ckh ckf t a stt ext body), st, ?_, rfl, rfl,
        storedAttrs_lt_leaf _ hwf, Spec.length_serFile _ hwf, hp, hf⟩
      simp only [treeFile, Spec.treeFile]
      rw [asmFile]
      simp only [asmSections]
  | .sect g t a stt secs, hw, hok, st, hp, hf => by
    have w := wfFile_sect hw
    simp only [okFile, small, Bool.and_eq_true, decide_eq_true_eq] at hok
    obtain ⟨hoks, hsmall'⟩ := hok
    obtain ⟨ss', st1, h1, hd, hp1, hf1⟩ := asm_secs hk secs 0 w.hsecs hoks 0 st hp hf
    have hjoin := secsDone_join hd (by omega)
    obtain ⟨t0, tr, hss'⟩ := cons_of_map_ne Section.buf ss' (secsDone_ne hd w.hne)
    have hsl := length_serSecs_gen _ 0 hd.2
    simp only [Nat.zero_add] at hsl
    have hsmallOld := w.hsmall
    have hres := asmFile_sect (h := h) (Spec.treeFile (.sect g t a stt (flatSecs secs))).info
      (serFile (.sect g t a stt (flatSecs secs))) (treeSecs secs 0) st t0 tr st1 rfl (by rw [h1, hss'])
    rw [← hss', hjoin, hsl] at hres
    have hattrs0 : (Spec.treeFile (.sect g t a stt (flatSecs secs))).info.attrs = a &&& 0xFE := by
      simp only [Spec.treeFile, File.info]; exact sectAttrs_small _ _ hsmallOld
    have hset : setSize (Spec.treeFile (.sect g t a stt (flatSecs secs))).info.attrs
        (24 + sizeSecs 0 (flatSecs (normSecs h secs))) true =
        (a &&& 0xFE, 24 + sizeSecs 0 (flatSecs (normSecs h secs)), 24 + sizeSecs 0 (flatSecs (normSecs h secs))) := by
      rw [hattrs0]
      unfold setSize
      rw [if_neg (by omega), write3_small _ (by omega), and_fe_fe]
    rw [hset] at hres
    have hck := checksumAndAssemble_any g t (a &&& 0xFE) stt
      (Spec.treeFile (.sect g t a stt (flatSecs secs))).info.ckHeader
      (Spec.treeFile (.sect g t a stt (flatSecs secs))).info.ckFile false
      (24 + sizeSecs 0 (flatSecs (normSecs h secs)))
      (Spec.treeFile (.sect g t a stt (flatSecs secs))).info.dataOffset
      (serSecs 0 (flatSecs (normSecs h secs))) w.hg
      (by constructor
          · intro hc; exact absurd hc (and_fe_one a)
          · intro hc; cases hc)
    refine ⟨_, _, by simp only [treeFile]; exact hres, ?_, ?_, ?_, ?_, ?_, ?_⟩
    · simp only [File.buf]
      simp only [Bool.false_eq_true, if_false] at hck
      have hrec : ({ (Spec.treeFile (.sect g t a stt (flatSecs secs))).info with
            attrs := a &&& 0xFE, size3 := 24 + sizeSecs 0 (flatSecs (normSecs h secs)),
            extSize := 24 + sizeSecs 0 (flatSecs (normSecs h secs)) } : FileInfo) =
          { guid := g, ckHeader := (Spec.treeFile (.sect g t a stt (flatSecs secs))).info.ckHeader,
            ckFile := (Spec.treeFile (.sect g t a stt (flatSecs secs))).info.ckFile, type := t,
            attrs := a &&& 0xFE, size3 := 24 + sizeSecs 0 (flatSecs (normSecs h secs)), state := stt,
            extSize := 24 + sizeSecs 0 (flatSecs (normSecs h secs)),
            dataOffset := (Spec.treeFile (.sect g t a stt (flatSecs secs))).info.dataOffset } := by
        simp only [Spec.treeFile, File.info]
      rw [hrec, hck]
      simp only [normFile, flatFile, serFile, hsl, sectAttrs_small _ _ hsmall', and_fe_40,
        show decide (24 + sizeSecs 0 (flatSecs (normSecs h secs)) ≥ 0xFFFFFF) = false from by
          simp only [decide_eq_false_iff_not]; omega, Bool.false_eq_true, if_false]
    · simp only [File.info, checksumAndAssemble, normFile, flatFile, storedAttrs, sectAttrs_small _ _ hsmall']
    · simp only [normFile, flatFile, storedAttrs]
      exact sectAttrs_lt a _ w.ha
    · simp only [normFile, flatFile, serFile, sizeFile, List.length_append, fileHdr_length _ _ _ _ _ _ _ _ w.hg, hsl,
        decide_eq_true_eq]
      split <;> simp_all
    · rw [noteLarge_small _ _ (by simp only []; omega)]; exact hp1
    · rw [noteLarge_small _ _ (by simp only []; omega)]; exact hf1

theorem asm_files (hk : HooksOK h) : ∀ (fs : List CFile) (off len : Nat), wfFiles h off len fs = true →
    okFiles h fs = true → ∀ (st : St), st.pol = 0xFF → st.ffs3 = false →
    ∃ fs' st', asmFiles h (treeFiles fs) st = .ok (fs', st') ∧
      fs'.map (fun f => (f.info.attrs, f.buf)) =
        (normFiles h fs).map (fun f => (storedAttrs (flatFile f), serFile (flatFile f))) ∧
      (∀ f ∈ normFiles h fs, storedAttrs (flatFile f) < 256 ∧ (serFile (flatFile f)).length = sizeFile (flatFile f)) ∧
      st'.pol = 0xFF ∧ st'.ffs3 = false
  | [], _, _, _, _, st, hp, hf =>
    ⟨[], st, by simp [treeFiles, asmFiles], by simp [normFiles], by intro f hf'; simp [normFiles] at hf', hp, hf⟩
  | f :: fs, off, len, hw, hok, st, hp, hf => by
    obtain ⟨hwf, _, _, _, hrest⟩ := wfFiles_cons hw
    simp only [okFiles, Bool.and_eq_true] at hok
    obtain ⟨f', st1, h1, hb1, ha1, hlt1, hl1, hp1, hf1⟩ := asm_file hk f hwf hok.1 st hp hf
    obtain ⟨fs', st2, h2, hm2, hl2, hp2, hf2⟩ := asm_files hk fs _ len hrest hok.2 st1 hp1 hf1
    refine ⟨f' :: fs', st2, ?_, ?_, ?_, hp2, hf2⟩
    · simp only [treeFiles, asmFiles, h1, h2]
    · simp only [List.map_cons, normFiles, ha1, hb1, hm2]
    · intro x hx
      simp only [normFiles, List.mem_cons] at hx
      rcases hx with rfl | hx
      · exact ⟨hlt1, hl1⟩
      · exact hl2 x hx

theorem asm_fv (hk : HooksOK h) : ∀ (v : CFv), wfFv h v = true → ∀ (rz : Bool), okFv h rz v = true →
    ∀ (off : Nat) (st : St), st.pol = 0xFF → st.ffs3 = false →
    ∃ v' st', asmFv h (treeFv v off rz) st = .ok (v', st') ∧ v'.buf = serFv (flatFv (normFv h v)) ∧
      (serFv (flatFv (normFv h v))).length = sizeFv (flatFv (normFv h v)) ∧ st'.pol = 0xFF ∧ st'.ffs3 = false
  | .other v, hw, rz, _, off, st, hp, hf => by
    simp only [wfFv, Bool.and_eq_true] at hw
    obtain ⟨hwf, hoth⟩ := hw
    cases v with
    | ffs zv v3 attrs rev rsv blocks ext files free => simp [isOtherFv] at hoth
    | other zv g attrs rev rsv blocks body =>
      have w := wfFv_other hwf
      refine ⟨Spec.treeFv (.other zv g attrs rev rsv blocks body) off rz, st, ?_, rfl,
        Spec.length_serFv _ hwf, hp, hf⟩
      simp only [treeFv, Spec.treeFv]
      rw [asmFv, setPolarity_keep attrs st w.hpol hp]
      simp only [asmFiles]
  | .ffs zv v3 attrs rev rsv blocks ext files free, hw, rz, hok, off, st, hp, hf => by
    have ⟨w, hfiles⟩ := wfFv_ffs hw
    simp only [okFv, Bool.and_eq_true, decide_eq_true_eq, Bool.or_eq_true] at hok
    obtain ⟨⟨⟨hokf, hE62⟩, hpads⟩, hfit⟩ := hok
    obtain ⟨fs', st1, h1, hmap, hlens, hp1, hf1⟩ := asm_files hk files _ _ hfiles hokf st hp hf
    have hgl := guid_v3_length v3
    have hpre := preBytes_length blocks ext (fun e he => (w.hext e he).1)
    have hlenOld := length_serFv _ hw
    simp only [flatFv, sizeFv] at hlenOld
    have etree : treeFv (.ffs zv v3 attrs rev rsv blocks ext files free) off rz =
        Fv.mk (Spec.treeFv (.ffs zv v3 attrs rev rsv blocks ext (flatFiles files) free) off rz).info
          (serFv (.ffs zv v3 attrs rev rsv blocks ext (flatFiles files) free)) (treeFiles files) := rfl
    have hattrs : (Spec.treeFv (.ffs zv v3 attrs rev rsv blocks ext (flatFiles files) free) off rz).info.attrs = attrs := rfl
    -- the new file area and the new length
    have hEnd : preLen blocks ext + (serFiles (preLen blocks ext) (flatFiles (relay (preLen blocks ext) (normFiles h files)))).length =
        endFiles (preLen blocks ext) (flatFiles (relay (preLen blocks ext) (normFiles h files))) :=
      length_serFiles_gen _ _ (relay_lens (preLen blocks ext) (normFiles h files) hlens)
    have hbl := finishLen_len (endFiles (preLen blocks ext) (flatFiles files) + free)
      (endFiles (preLen blocks ext) (flatFiles (relay (preLen blocks ext) (normFiles h files)))) blocks
    have hge := endFiles_ge (flatFiles (relay (preLen blocks ext) (normFiles h files))) (preLen blocks ext)
    by_cases hnil : files = []
    · subst hnil
      have hfs' : fs' = [] := by simpa [normFiles] using hmap
      subst hfs'
      have hnorm : normFv h (.ffs zv v3 attrs rev rsv blocks ext [] free) = .ffs zv v3 attrs rev rsv blocks ext [] free := by
        simp only [normFv, normFiles, relay, flatFiles, endFiles, finishLen, Nat.le_add_right, if_true,
          Nat.add_sub_cancel_left]
      refine ⟨Fv.mk (Spec.treeFv (.ffs zv v3 attrs rev rsv blocks ext [] free) off rz).info
          (serFv (.ffs zv v3 attrs rev rsv blocks ext [] free)) [], st1, ?_, ?_, ?_, hp1, hf1⟩
      · rw [etree, asmFv, hattrs, setPolarity_keep attrs st w.hpol hp]
        simp only [treeFiles] at h1
        simp only [treeFiles, flatFiles, h1]
      · rw [hnorm]; rfl
      · rw [hnorm]; simpa [flatFv, flatFiles, sizeFv] using hlenOld
    · obtain ⟨g0, gr, hfs'⟩ : ∃ g0 gr, fs' = g0 :: gr := by
        cases fs' with
        | nil =>
          cases files with
          | nil => exact absurd rfl hnil
          | cons a b => simp [normFiles] at hmap
        | cons a b => exact ⟨a, b, rfl⟩
      obtain ⟨b0, bs, hblk⟩ : ∃ b0 bs, blocks = b0 :: bs := by
        rcases w.hnb with h' | h'
        · exact absurd ((flatFiles_nil_iff files).mp h') hnil
        · cases blocks with
          | nil => exact absurd rfl h'
          | cons a b => exact ⟨a, b, rfl⟩
      subst hblk
      have htake : (serFv (.ffs zv v3 attrs rev rsv (b0 :: bs) ext (flatFiles files) free)).take (preLen (b0 :: bs) ext) =
          fvHeaderCk zv (if v3 then guidFFS3 else guidFFS2) (endFiles (preLen (b0 :: bs) ext) (flatFiles files) + free) attrs
            (ehoOf (b0 :: bs) ext) rsv rev (b0 :: bs) ++ preBytes (b0 :: bs) ext := by
        simp only [serFv, List.append_assoc]
        rw [← List.append_assoc]
        have hA : (fvHeaderCk zv (if v3 then guidFFS3 else guidFFS2) (endFiles (preLen (b0 :: bs) ext) (flatFiles files) + free)
            attrs (ehoOf (b0 :: bs) ext) rsv rev (b0 :: bs) ++ preBytes (b0 :: bs) ext).length = preLen (b0 :: bs) ext := by
          simp only [List.length_append, fvHeaderCk_length _ _ _ _ _ _ _ _ w.hzv hgl]; exact hpre
        exact take_left_len _ _ _ hA
      have hhdrlen : (fvHeaderCk zv (if v3 then guidFFS3 else guidFFS2) (endFiles (preLen (b0 :: bs) ext) (flatFiles files) + free)
            attrs (ehoOf (b0 :: bs) ext) rsv rev (b0 :: bs) ++ preBytes (b0 :: bs) ext).length = preLen (b0 :: bs) ext := by
        simp only [List.length_append, fvHeaderCk_length _ _ _ _ _ _ _ _ w.hzv hgl]; exact hpre
      have hplace := placeFiles_relay (normFiles h files) (preLen (b0 :: bs) ext)
        (fvHeaderCk zv (if v3 then guidFFS3 else guidFFS2) (endFiles (preLen (b0 :: bs) ext) (flatFiles files) + free) attrs
            (ehoOf (b0 :: bs) ext) rsv rev (b0 :: bs) ++ preBytes (b0 :: bs) ext) hlens hhdrlen hE62 hpads
      have hnl : (fvHeaderCk zv (if v3 then guidFFS3 else guidFFS2) (endFiles (preLen (b0 :: bs) ext) (flatFiles files) + free)
            attrs (ehoOf (b0 :: bs) ext) rsv rev (b0 :: bs) ++
            (preBytes (b0 :: bs) ext ++ serFiles (preLen (b0 :: bs) ext) (flatFiles (relay (preLen (b0 :: bs) ext) (normFiles h files))))).length =
          endFiles (preLen (b0 :: bs) ext) (flatFiles (relay (preLen (b0 :: bs) ext) (normFiles h files))) := by
        simp only [List.length_append, fvHeaderCk_length _ _ _ _ _ _ _ _ w.hzv hgl]; omega
      have hfit' : (fvHeaderCk zv (if v3 then guidFFS3 else guidFFS2) (endFiles (preLen (b0 :: bs) ext) (flatFiles files) + free)
            attrs (ehoOf (b0 :: bs) ext) rsv rev (b0 :: bs) ++
            (preBytes (b0 :: bs) ext ++ serFiles (preLen (b0 :: bs) ext) (flatFiles (relay (preLen (b0 :: bs) ext) (normFiles h files))))).length ≤
            endFiles (preLen (b0 :: bs) ext) (flatFiles files) + free ∨
          ((Spec.treeFv (.ffs zv v3 attrs rev rsv (b0 :: bs) ext (flatFiles files) free) off rz).info.resizable = true ∧ b0.size ≠ 0 ∧
            (fvHeaderCk zv (if v3 then guidFFS3 else guidFFS2) (endFiles (preLen (b0 :: bs) ext) (flatFiles files) + free)
              attrs (ehoOf (b0 :: bs) ext) rsv rev (b0 :: bs) ++
              (preBytes (b0 :: bs) ext ++ serFiles (preLen (b0 :: bs) ext) (flatFiles (relay (preLen (b0 :: bs) ext) (normFiles h files))))).length ≤
            alignGo (fvHeaderCk zv (if v3 then guidFFS3 else guidFFS2) (endFiles (preLen (b0 :: bs) ext) (flatFiles files) + free)
              attrs (ehoOf (b0 :: bs) ext) rsv rev (b0 :: bs) ++
              (preBytes (b0 :: bs) ext ++ serFiles (preLen (b0 :: bs) ext) (flatFiles (relay (preLen (b0 :: bs) ext) (normFiles h files))))).length
              b0.size) := by
        rw [hnl]
        rcases hfit with hfit | hfit
        · left; exact hfit
        · right
          simp only [Bool.and_eq_true, bne_iff_ne, ne_eq, decide_eq_true_eq] at hfit
          exact ⟨by simp [Spec.treeFv, Fv.info, hfit.1], hfit.2.1.1.1, hfit.2.1.1.2⟩
      obtain ⟨i', hfin, hi'⟩ := finishFv_gen (Spec.treeFv (.ffs zv v3 attrs rev rsv (b0 :: bs) ext (flatFiles files) free) off rz).info zv
        (if v3 then guidFFS3 else guidFFS2) (endFiles (preLen (b0 :: bs) ext) (flatFiles files) + free) attrs (ehoOf (b0 :: bs) ext)
        rsv rev b0 bs (preBytes (b0 :: bs) ext ++ serFiles (preLen (b0 :: bs) ext) (flatFiles (relay (preLen (b0 :: bs) ext) (normFiles h files)))) st1
        (by simp [Spec.treeFv, Fv.info]) (by simp [Spec.treeFv, Fv.info]) (by simp [Spec.treeFv, Fv.info])
        (by simp [Spec.treeFv, Fv.info]) w.hzv hgl w.hhdr hp1 hf1 hfit'
      rw [hnl] at hfin
      have hrel : relayoutFv (Spec.treeFv (.ffs zv v3 attrs rev rsv (b0 :: bs) ext (flatFiles files) free) off rz).info
          (serFv (.ffs zv v3 attrs rev rsv (b0 :: bs) ext (flatFiles files) free)) fs' st1 =
          .ok (i', serFv (flatFv (normFv h (.ffs zv v3 attrs rev rsv (b0 :: bs) ext files free))), { st1 with ffs3 := false }) := by
        unfold relayoutFv
        have hi1 : (Spec.treeFv (.ffs zv v3 attrs rev rsv (b0 :: bs) ext (flatFiles files) free) off rz).info.length =
            endFiles (preLen (b0 :: bs) ext) (flatFiles files) + free := by simp [Spec.treeFv, Fv.info]
        have hi2 : (Spec.treeFv (.ffs zv v3 attrs rev rsv (b0 :: bs) ext (flatFiles files) free) off rz).info.dataOffset =
            preLen (b0 :: bs) ext := by simp [Spec.treeFv, Fv.info]
        have hi3 : (Spec.treeFv (.ffs zv v3 attrs rev rsv (b0 :: bs) ext (flatFiles files) free) off rz).info.blocks.isEmpty = false := by
          simp [Spec.treeFv, Fv.info]
        have hpl := endFiles_ge (flatFiles files) (preLen (b0 :: bs) ext)
        rw [hi1, hi2, hi3, hlenOld, if_neg (by omega), if_neg (by decide), if_neg (by omega), htake, hp1]
        rw [hmap, hplace]
        dsimp only
        rw [List.append_assoc, hfin]
        simp only [normFv, flatFv, serFv, List.append_assoc, preLen_congr hbl, ehoOf_congr hbl, preBytes_congr hbl]
        have hle : endFiles (preLen (b0 :: bs) ext) (flatFiles (relay (preLen (b0 :: bs) ext) (normFiles h files))) ≤
            (finishLen (endFiles (preLen (b0 :: bs) ext) (flatFiles files) + free)
              (endFiles (preLen (b0 :: bs) ext) (flatFiles (relay (preLen (b0 :: bs) ext) (normFiles h files)))) (b0 :: bs)).1 :=
          finishLen_ge _ _ _ (by
            rcases hfit with hfit | hfit
            · left; exact hfit
            · right
              simp only [Bool.and_eq_true, bne_iff_ne, ne_eq, decide_eq_true_eq] at hfit
              exact ⟨b0, bs, rfl, hfit.2.1.1.2⟩)
        have e : endFiles (preLen (b0 :: bs) ext) (flatFiles (relay (preLen (b0 :: bs) ext) (normFiles h files))) +
            ((finishLen (endFiles (preLen (b0 :: bs) ext) (flatFiles files) + free)
              (endFiles (preLen (b0 :: bs) ext) (flatFiles (relay (preLen (b0 :: bs) ext) (normFiles h files)))) (b0 :: bs)).1 -
              endFiles (preLen (b0 :: bs) ext) (flatFiles (relay (preLen (b0 :: bs) ext) (normFiles h files)))) =
            (finishLen (endFiles (preLen (b0 :: bs) ext) (flatFiles files) + free)
              (endFiles (preLen (b0 :: bs) ext) (flatFiles (relay (preLen (b0 :: bs) ext) (normFiles h files)))) (b0 :: bs)).1 := by omega
        rw [e]
        simp only [hp1]
      subst hfs'
      refine ⟨Fv.mk i' (serFv (flatFv (normFv h (.ffs zv v3 attrs rev rsv (b0 :: bs) ext files free)))) (g0 :: gr),
        { st1 with ffs3 := false }, ?_, rfl, ?_, hp1, rfl⟩
      · rw [etree, asmFv, hattrs, setPolarity_keep attrs st w.hpol hp]
        simp only [h1, hrel]
      · simp only [normFv, flatFv, serFv, sizeFv, List.length_append,
          fvHeaderCk_length _ _ _ _ _ _ _ _ w.hzv hgl, ffs, List.length_replicate, preLen_congr hbl,
          preBytes_congr hbl, fvHdrLen_congr hbl]
        omega

end

end Fiano.Uefi.Nested
