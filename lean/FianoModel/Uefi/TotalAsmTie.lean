/-
  T1 tie for the follow-up models of C05 (wp-c05b): TotalAsm.lean (`visitors.Assemble` and the pkg/uefi
  functions it calls), TotalNvarWalk.lean (NVAR nodes and the ME partition table under the walkers) and the
  `blockMapEnd` scan of validate.go (TotalWalk.lean).  As in TotalTie.lean: the inventory of every slice /
  index / make (`gosites`) and of every `if` / `for` condition (`goguards`) of each mirrored Go function is
  regenerated from the source on every check (local identifiers are `_`) and compared with what the model
  was written against; `sites_Assemble_Visit` itself is in TotalTie.lean.  A new, removed or changed site or
  guard breaks the theorem named after the Go function, even if no generated input reaches it.

  Go function / site                          model (FianoModel/Uefi/…)                 primitive
  Assemble.Visit  fBuf[:DataOffset]           TotalAsm.relayoutFvG                      sliceToG
                  f.Blocks[0] (×6)            TotalAsm.finishFvG / relayoutFvG          goPanic on an empty block map (guard `len(f.Blocks) == 0`)
                  make([]byte, extLen)        TotalAsm.finishFvG                        makeG
                  fBuf[32:] [16:32] [56:] [50:] (×2), PutUint64/32/16    finishFvG     sliceFromG / sliceG + putG
                  f.FileSystemGUID[:]         (array)                                   —
                  fBuf[:f.HeaderLen]          finishFvG                                 sliceToG (guard `uint64(f.HeaderLen) > uint64(len(fBuf))`)
                  make([]byte, 2)             regenLeafG                                makeG
                  DepExNamesToOpCodes[…]      (map)  d.GUID[:] (array, nil-checked)     —
                  make(GUIDStoreOffset-FreeSpaceOffset)   TotalNvarWalk.asmNvTreeG      makeG (guard `GUIDStoreOffset < FreeSpaceOffset`)
                  f.Buf()[f.DataOffset:]      TotalNvarWalk.asmNvNodeG                  sliceFromG
                  fBuf[MapStart:…] [RegionStart+2:…] region.Bytes()[2:] [MasterStart:…]   TotalAsm.asmDescriptorG   sliceG ×3, sliceFromG
                  make([]byte, f.Length)      TotalAsm.asmBiosG                         makeG
                  fBuf[offset:offset+len]     TotalAsm.copyElemsG                       sliceG
                  FlashRegions[RegionTypeBIOS] (×2), FlashRegions[r.Type()]   asmFlashG (fixed array of 15; the model keeps a list: goPanic when empty)
                  f.Regions[i] / [j]          (sort.Slice comparator: in range)         nilG when a region has no FlashRegion
                  make([]byte, 0)             asmFlashG                                 makeG
                  ts := f.TypeSpecific.Header.(*SectionGUIDDefined)   asmSectionG       nilG
                  log.Fatalf (empty file)     placeFileG                                fatalG
  Section.GenSecHeader                        TotalAsm.genSecHeaderG                    nilG (`s.TypeSpecific.Header.(…)`), appendG ×2
  File.ChecksumAndAssemble / ChecksumHeader   TotalAsm.checksumAndAssembleG             sliceToG `f.buf[:headerSize]` (sites_File_ChecksumHeader), appendG
  fileAttr.GetAlignment  fileAlignments[_]    TotalAsm.getAlignmentG                    goPanic outside the table (sites_fileAttr_GetAlignment)
  CreatePadFile  make ×2                      TotalAsm.createPadFileG                   makeG ×2; `fileData[i]` runs `i < len(fileData)`
  FirmwareVolume.InsertFile                   TotalAsm.insertFileG                      appendG ×2 (no slice / index / make)
  Erase  buf[j]                               `List.replicate`                          `j < len(buf)` by its loop condition
  NVar.Assemble                               TotalNvarWalk.nvarHeaderG/nvarAssembleG   nilG (`*v.GUIDIndex`), appendG
  NVarStore.GetGUIDStoreBuf  s.GUIDStore[i]   TotalNvarWalk.guidStoreBuf                `i` runs `len-1 … 0`
  Extract.Visit  name[:64]  f.Buf()[f.DataOffset:]   TotalNvarWalk.extractNvNodeG      guard `len(name) > 64`; sliceFromG  (sites in TotalTie.lean)
  blockMapEnd  buf[off:] + Uint64             TotalWalk.blockMapEndG                    sliceFromG + putG (guard `off+8 <= len(buf)`)
  MEFPT.Apply / ApplyChildren, MERegion.Apply / ApplyChildren, NVar… / File… / … ApplyChildren   no site at all:
                  visiting the ME partition table touches no buffer (validateMeFptG / extractMeFptG / asmMeFptG)
-/
import FianoModel.Uefi.TotalAsm
import FianoModel.Gen.UefiTotalAsm
import FianoModel.Gen.UefiTotalAsmVisitors

namespace Fiano.Uefi.TotalAsmTie
open Fiano Fiano.Uefi Fiano.Uefi.Total

/-! ### pkg/uefi: the functions Assemble calls, and the visitor plumbing of NVAR / ME nodes -/

theorem sites_Section_GenSecHeader : Gen.UefiTotalAsm.sites_Section_GenSecHeader = [] := rfl

theorem sites_SectionGUIDDefined_GetBinHeaderLen : Gen.UefiTotalAsm.sites_SectionGUIDDefined_GetBinHeaderLen = [] := rfl

theorem sites_File_SetSize : Gen.UefiTotalAsm.sites_File_SetSize = [] := rfl

theorem sites_File_ChecksumAndAssemble : Gen.UefiTotalAsm.sites_File_ChecksumAndAssemble = [] := rfl

theorem sites_File_HeaderLen : Gen.UefiTotalAsm.sites_File_HeaderLen = [] := rfl

theorem sites_CreatePadFile : Gen.UefiTotalAsm.sites_CreatePadFile =
    ["make([]byte, _-FileHeaderMinLength)", "make([]byte, _-FileHeaderExtMinLength)", "_[_]"] := rfl

theorem sites_FirmwareVolume_InsertFile : Gen.UefiTotalAsm.sites_FirmwareVolume_InsertFile = [] := rfl

theorem sites_FirmwareVolume_GetErasePolarity : Gen.UefiTotalAsm.sites_FirmwareVolume_GetErasePolarity = [] := rfl

theorem sites_BIOSRegion_FirstFV : Gen.UefiTotalAsm.sites_BIOSRegion_FirstFV = [] := rfl

theorem sites_Write3Size : Gen.UefiTotalAsm.sites_Write3Size = [] := rfl

theorem sites_Align : Gen.UefiTotalAsm.sites_Align = [] := rfl

theorem sites_Erase : Gen.UefiTotalAsm.sites_Erase =
    ["_[_]"] := rfl

theorem sites_SetErasePolarity : Gen.UefiTotalAsm.sites_SetErasePolarity = [] := rfl

theorem sites_NVar_Assemble : Gen.UefiTotalAsm.sites_NVar_Assemble = [] := rfl

theorem sites_NVar_IsValid : Gen.UefiTotalAsm.sites_NVar_IsValid = [] := rfl

theorem sites_NVarStore_GetGUIDStoreBuf : Gen.UefiTotalAsm.sites_NVarStore_GetGUIDStoreBuf =
    ["_.GUIDStore[_]"] := rfl

theorem sites_FirmwareVolume_ApplyChildren : Gen.UefiTotalAsm.sites_FirmwareVolume_ApplyChildren = [] := rfl

theorem sites_File_ApplyChildren : Gen.UefiTotalAsm.sites_File_ApplyChildren = [] := rfl

theorem sites_Section_ApplyChildren : Gen.UefiTotalAsm.sites_Section_ApplyChildren = [] := rfl

theorem sites_BIOSRegion_ApplyChildren : Gen.UefiTotalAsm.sites_BIOSRegion_ApplyChildren = [] := rfl

theorem sites_FlashImage_ApplyChildren : Gen.UefiTotalAsm.sites_FlashImage_ApplyChildren = [] := rfl

theorem sites_NVar_ApplyChildren : Gen.UefiTotalAsm.sites_NVar_ApplyChildren = [] := rfl

theorem sites_NVarStore_ApplyChildren : Gen.UefiTotalAsm.sites_NVarStore_ApplyChildren = [] := rfl

theorem sites_MEFPT_Apply : Gen.UefiTotalAsm.sites_MEFPT_Apply = [] := rfl

theorem sites_MEFPT_ApplyChildren : Gen.UefiTotalAsm.sites_MEFPT_ApplyChildren = [] := rfl

theorem sites_MERegion_Apply : Gen.UefiTotalAsm.sites_MERegion_Apply = [] := rfl

theorem sites_MERegion_ApplyChildren : Gen.UefiTotalAsm.sites_MERegion_ApplyChildren = [] := rfl

theorem guards_Section_GenSecHeader : Gen.UefiTotalAsm.guards_Section_GenSecHeader =
    ["if _.TypeSpecific != nil && _.TypeSpecific.Header != nil", "if _.Header.ExtendedSize >= 0xFFFFFF",
     "if _.Header.Type == SectionTypeGUIDDefined", "if _ != nil", "if _.Header.ExtendedSize >= 0xFFFFFF",
     "if _ != nil"] := rfl

theorem guards_File_SetSize : Gen.UefiTotalAsm.guards_File_SetSize =
    ["if _.ExtendedSize >= 0xFFFFFF", "if _"] := rfl

theorem guards_File_ChecksumAndAssemble : Gen.UefiTotalAsm.guards_File_ChecksumAndAssemble =
    ["if _ != nil", "if _.Attributes.HasChecksum()", "if _.Attributes.IsLarge()", "if _ != nil"] := rfl

theorem guards_CreatePadFile : Gen.UefiTotalAsm.guards_CreatePadFile =
    ["if _ < FileHeaderMinLength", "if Attributes.ErasePolarity == 0xFF", "if Attributes.ErasePolarity == 0",
     "if _.Attributes.IsLarge()", "for _ < _", "if _ != nil"] := rfl

theorem guards_FirmwareVolume_InsertFile : Gen.UefiTotalAsm.guards_FirmwareVolume_InsertFile =
    ["if _ > _", "for _ < _", "if _ == 0"] := rfl

theorem guards_BIOSRegion_FirstFV : Gen.UefiTotalAsm.guards_BIOSRegion_FirstFV =
    ["if _"] := rfl

theorem guards_Write3Size : Gen.UefiTotalAsm.guards_Write3Size =
    ["if _ >= 0xFFFFFF"] := rfl

theorem guards_SetErasePolarity : Gen.UefiTotalAsm.guards_SetErasePolarity =
    ["if _ != 0xFF && _ != 0",
     "if Attributes.ErasePolarity != poisonedPolarity && !SuppressErasePolarityError",
     "if Attributes.ErasePolarity != _"] := rfl

theorem guards_NVar_Assemble : Gen.UefiTotalAsm.guards_NVar_Assemble =
    ["if !_.IsValid()", "if _.NextOffset != 0 && !_", "if _.NextOffset != 0", "if _ != nil",
     "if _.Header.Attributes&NVarEntryDataOnly == 0", "if _.Header.Attributes&NVarEntryGUID != 0",
     "if _ != nil", "if _ != nil", "if _.Header.Attributes&NVarEntryASCIIName != 0", "if _ != nil",
     "if _ != nil", "if _ != nil", "if _", "if _.DataOffset != int64(_.Len())", "if _ != nil", "if _",
     "if _.Header.Size != uint16(_.Len())", "if _.Len() > 0xFFFF"] := rfl

theorem guards_NVarStore_GetGUIDStoreBuf : Gen.UefiTotalAsm.guards_NVarStore_GetGUIDStoreBuf =
    ["for _ >= 0", "if _ != nil"] := rfl

theorem guards_MERegion_ApplyChildren : Gen.UefiTotalAsm.guards_MERegion_ApplyChildren =
    ["if _.FPT == nil"] := rfl

theorem guards_File_ApplyChildren : Gen.UefiTotalAsm.guards_File_ApplyChildren =
    ["if _.NVarStore != nil", "if _ != nil", "if _ != nil"] := rfl

theorem guards_NVar_ApplyChildren : Gen.UefiTotalAsm.guards_NVar_ApplyChildren =
    ["if _.NVarStore != nil", "if _ != nil"] := rfl


/-! ### pkg/visitors: guards of Assemble.Visit / Extract.Visit / Validate.Visit, blockMapEnd -/

theorem sites_blockMapEnd : Gen.UefiTotalAsmVisitors.sites_blockMapEnd =
    ["_[_:]"] := rfl

theorem guards_Assemble_Visit : Gen.UefiTotalAsmVisitors.guards_Assemble_Visit =
    ["if _", "if _ != nil", "if _ != nil", "if len(_.Files) == 0", "if _.Length < _",
     "if len(_.Blocks) == 0", "if _.DataOffset > _", "if _.DataOffset != _", "if _ == 0", "if _ != 1",
     "if _ >= 8 && _ < uefi.FileHeaderMinLength", "if _ != _", "if _ != nil", "if _ != nil", "if _ != nil",
     "if _.Length < _ && !_.Resizable", "if _.Length < _", "if _.Blocks[0].Size == 0", "if _.Length > _",
     "if _.useFFS3 && _.FileSystemGUID == *uefi.FFS2", "if uint64(_.HeaderLen) > uint64(len(_))",
     "if _ != nil", "if len(_.Sections) == 0 && _.NVarStore == nil", "if _.NVarStore != nil", "for _ > 0",
     "if _.Header.ExtendedSize > 0xFFFFFF", "if _ != nil", "if len(_.Encapsulated) == 0", "if !_",
     "if _.GUID == nil", "if _.GUID != nil", "if _.Header.ExtendedSize > 0xFFFFFF", "for _ > 0",
     "if _.Attributes&uint16(uefi.GUIDEDSectionProcessingRequired) != 0", "if _ == nil", "if _ == nil",
     "if _.Header.ExtendedSize > 0xFFFFFF", "if _.GUIDStoreOffset < _.FreeSpaceOffset", "if _ != nil",
     "if _.IsValid()", "if _.NVarStore == nil", "if _ != nil", "if _ != nil", "if _ != nil", "if _ != nil",
     "if _ != nil", "if !_.IFD.Region.FlashRegions[uefi.RegionTypeBIOS].Valid()",
     "if _.Type() == uefi.RegionTypeUnknown", "if _ != 0 && int(_.Type()) > _",
     "if int(_.Type()) >= len(_.IFD.Region.FlashRegions)", "if _ < _", "if _ > _", "if _ != _.FlashSize"] := rfl

theorem guards_Extract_Visit : Gen.UefiTotalAsmVisitors.guards_Extract_Visit =
    ["if len(_.Files) == 0", "if len(_.Sections) == 0 && _.NVarStore == nil", "if len(_.Encapsulated) == 0",
     "if _.IsValid()", "if len(_) > 64", "if _.NVarStore == nil", "if len(_.Elements) == 0", "if _ != nil"] := rfl

theorem guards_blockMapEnd : Gen.UefiTotalAsmVisitors.guards_blockMapEnd =
    ["for _+8 <= len(_)", "if binary.LittleEndian.Uint64(_[_:]) == 0"] := rfl

theorem guards_Validate_Visit : Gen.UefiTotalAsmVisitors.guards_Validate_Visit =
    ["if _ != nil", "if _.MasterBase > uefi.FlashDescriptorMapMaxBase",
     "if _.RegionBase > uefi.FlashDescriptorMapMaxBase", "if _.MasterBase > uefi.FlashDescriptorMapMaxBase",
     "if _.MasterBase == _.RegionBase", "if _.MasterBase == _.ComponentBase",
     "if _.RegionBase == _.ComponentBase", "if _ < uefi.FirmwareVolumeMinSize",
     "if _.HeaderLen < uefi.FirmwareVolumeMinSize", "if _ < uint64(_.HeaderLen)",
     "if _ != uint64(_.HeaderLen)", "if uefi.FVGUIDs[_.FileSystemGUID] == \"\"", "if _.Revision != 2",
     "if _.Signature != _", "if _.Length != _", "if _ != nil", "if _ != 0",
     "if _ < uefi.FileHeaderMinLength", "if _.Size == _", "if _ < uefi.FileHeaderExtMinLength",
     "if !_.Attributes.IsLarge()", "if uefi.Read3Size(_.Header.Size) != _.ExtendedSize",
     "if _.Attributes.IsLarge()", "if _ != _.ExtendedSize", "if _ != 0",
     "if !_.Attributes.HasChecksum() && _.Checksum.File != uefi.EmptyBodyChecksum",
     "if _.Attributes.HasChecksum()", "if _.Attributes.IsLarge()", "if _ != 0", "if _.Size == _",
     "if _ < uefi.SectionExtMinLength", "if uint32(uefi.Read3Size(_.Header.Size)) != _.ExtendedSize",
     "if _ != _.ExtendedSize", "if _.FlashRegion() != nil && !_.FlashRegion().Valid()", "if _ != nil",
     "if _ != nil", "if !_", "if _ != uefi.Attributes.ErasePolarity", "if _.FlashRegion() == nil",
     "if !_.FlashRegion().Valid()", "if _.FlashRegion() == nil", "if !_.FlashRegion().Valid()"] := rfl


end Fiano.Uefi.TotalAsmTie
