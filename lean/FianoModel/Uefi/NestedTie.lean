/-
  Property C06 — T1: the facts about pkg/compression, pkg/uefi/section.go and
  pkg/visitors/{assemble,repack}.go that the model of C06 relies on, compared with what the translator
  regenerates from the current sources (Gen/NestedCodec, Gen/NestedSec, Gen/NestedAsm, Gen/UefiCodec).
  The lists are printed with receivers, parameters and locals blanked, and the theorems state
  membership / counts, so that a rename or a reordering of independent statements is silent.
-/
import FianoModel.Gen.NestedCodec
import FianoModel.Gen.NestedSec
import FianoModel.Gen.NestedAsm
import FianoModel.Gen.UefiCodec
import FianoModel.Uefi.NestedCodec

namespace Fiano.Uefi.Nested
open Fiano

/-- the four codec GUIDs of `hooksOf` are the ones pkg/compression declares -/
theorem tie_codec_guids :
    guidLZMA = Gen.UefiCodec.LZMAGUID.map UInt8.ofNat ∧ guidLZMAX86 = Gen.UefiCodec.LZMAX86GUID.map UInt8.ofNat ∧
    guidZLIB = Gen.UefiCodec.ZLIBGUID.map UInt8.ofNat ∧ guidBROTLI = Gen.UefiCodec.BROTLIGUID.map UInt8.ofNat := by
  decide

/-- `CompressorFromGUID`: LZMA → the configured LZMA compressor, LZMAX86 → the x86 layer around the
    same compressor, ZLIB → ZLIB, BROTLI → the external command; nothing else (`codecOf`) -/
theorem tie_guid_switch :
    Gen.NestedCodec.guidswitch_CompressorFromGUID =
      ["BROTLIGUID => &SystemBROTLI{*brotliPath}", "LZMAGUID => _", "LZMAX86GUID => &LZMAX86{_}",
       "ZLIBGUID => &ZLIB{}"] := by decide

/-- the encoder configuration is looked up through the -xzPath flag -/
theorem tie_xz_lookup : Gen.NestedCodec.calls_CompressorFromGUID_LookPath = ["exec.LookPath(*xzPath)"] := by decide

/-- LZMAX86 = x86 filter (ip 0, fresh state) ∘ LZMA, both directions (`Compress.lzmax86`) -/
theorem tie_lzmax86 :
    Gen.NestedCodec.calls_LZMAX86_Encode_x86Convert = ["x86Convert(_, uint(len(_)), 0, &_, true)"] ∧
    Gen.NestedCodec.calls_LZMAX86_Decode_x86Convert = ["x86Convert(_, uint(len(_)), 0, &_, false)"] ∧
    Gen.NestedCodec.calls_LZMAX86_Encode_Encode = ["_.lzma.Encode(_)"] ∧
    Gen.NestedCodec.calls_LZMAX86_Decode_Decode = ["_.lzma.Decode(_)"] := by decide

/-- both LZMA compressors decode with the Go decoder (one `lzma` core for decoding in `Cores`) -/
theorem tie_systemlzma_decode : Gen.NestedCodec.calls_SystemLZMA_Decode_Decode = ["(&LZMA{}).Decode(_)"] := by decide

/-- `NewSection` hands the decoder `buf[DataOffset:]` — the parent buffer from the section's data
    offset to its end (`decoderInput`), asks the compressor for its name, and walks the decoded bytes
    with `NewSection` again at 4-aligned offsets; a volume image is parsed as a resizable volume -/
theorem tie_newsection :
    Gen.NestedSec.calls_NewSection_CompressorFromGUID = ["compression.CompressorFromGUID(&_.GUID)"] ∧
    Gen.NestedSec.calls_NewSection_Decode = ["_.Decode(_[_.DataOffset:])"] ∧
    Gen.NestedSec.calls_NewSection_Name = ["_.Name()"] ∧
    Gen.NestedSec.calls_NewSection_NewSection = ["NewSection(_[_:], _)"] ∧
    Gen.NestedSec.calls_NewSection_NewFirmwareVolume = ["NewFirmwareVolume(_.buf[_:], 0, true)"] ∧
    Gen.NestedSec.calls_NewSection_Align4 = ["Align4(_ + uint64(_.Header.ExtendedSize))"] := by decide

/-- `GenSecHeader` regenerates size, extended size, data offset and the buffer; the long header starts
    at 0xFFFFFF (`genSecHeader`) -/
theorem tie_gensecheader :
    Gen.NestedSec.cmplits_Section_GenSecHeader = [(">=", 16777215), (">=", 16777215)] ∧
    "node.DataOffset" ∈ Gen.NestedSec.writes_Section_GenSecHeader ∧
    "recv.Header.Size" ∈ Gen.NestedSec.writes_Section_GenSecHeader ∧
    "recv.Header.ExtendedSize" ∈ Gen.NestedSec.writes_Section_GenSecHeader ∧
    "recv.buf" ∈ Gen.NestedSec.writes_Section_GenSecHeader ∧
    Gen.NestedSec.calls_Section_GenSecHeader_Write3Size = ["Write3Size(uint64(_.Header.ExtendedSize))"] := by decide

/-- `Assemble.Visit` re-encodes the joined children with the compressor of the section's GUID and
    regenerates the section header (leaf and encapsulated case) -/
theorem tie_reencode :
    Gen.NestedAsm.calls_Assemble_Visit_CompressorFromGUID = ["compression.CompressorFromGUID(&_.GUID)"] ∧
    Gen.NestedAsm.calls_Assemble_Visit_Encode = ["_.Encode(_)"] ∧
    Gen.NestedAsm.calls_Assemble_Visit_GenSecHeader.length = 2 := by decide

/-- the resize of a nested volume: length aligned to `Blocks[0].Size`, `Blocks[0].Count` and `Length`
    rewritten (`finishLen`); the two other `Align` calls are the data-alignment rule (`placeAt`) -/
theorem tie_growth :
    "uefi.Align(_, uint64(_.Blocks[0].Size))" ∈ Gen.NestedAsm.calls_Assemble_Visit_Align ∧
    "uefi.Align(_+_, _)" ∈ Gen.NestedAsm.calls_Assemble_Visit_Align ∧
    "uefi.Align(_+1, _)" ∈ Gen.NestedAsm.calls_Assemble_Visit_Align ∧
    Gen.NestedAsm.calls_Assemble_Visit_Align.length = 3 ∧
    "node.Blocks[·].Count" ∈ Gen.NestedAsm.writes_Assemble_Visit ∧
    "node.Length" ∈ Gen.NestedAsm.writes_Assemble_Visit ∧
    "node.FreeSpace" ∈ Gen.NestedAsm.writes_Assemble_Visit := by decide

/-- the enclosing file is rebuilt with a fresh size and fresh checksums; the volume header checksum
    covers `[0, HeaderLen)`; pad files come from `CreatePadFile(newOffset − alignedOffset)` -/
theorem tie_rebuild :
    Gen.NestedAsm.calls_Assemble_Visit_SetSize = ["_.SetSize(uefi.FileHeaderMinLength+_, true)"] ∧
    Gen.NestedAsm.calls_Assemble_Visit_ChecksumAndAssemble = ["_.ChecksumAndAssemble(_)"] ∧
    Gen.NestedAsm.calls_Assemble_Visit_Checksum16 = ["uefi.Checksum16(_[:_.HeaderLen])"] ∧
    Gen.NestedAsm.calls_Assemble_Visit_CreatePadFile = ["uefi.CreatePadFile(_ - _)"] := by decide

/-- `useFFS3`: set in three places (file, leaf section, encapsulated section), reset in one (the
    volume that is finished), where the file-system GUID is rewritten (`noteLarge`, `finishFv`) -/
theorem tie_ffs3 :
    (Gen.NestedAsm.writes_Assemble_Visit.filter (· == "recv.useFFS3")).length = 4 ∧
    "node.FileSystemGUID" ∈ Gen.NestedAsm.writes_Assemble_Visit := by decide

/-- repack: a resizable two-entry-block-map volume inside a volume-image section inside an LZMA
    section; compressed first-level sections of the moved files are replaced by their children
    (harness: the abstract repack of the decoded tree) -/
theorem tie_repack :
    "uefi.CreateSection(uefi.SectionTypeFirmwareVolumeImage, []byte{}, []uefi.Firmware{_}, nil)" ∈
      Gen.NestedAsm.calls_repackFV_CreateSection ∧
    "uefi.CreateSection(uefi.SectionTypeGUIDDefined, []byte{}, []uefi.Firmware{_}, &compression.LZMAGUID)" ∈
      Gen.NestedAsm.calls_repackFV_CreateSection ∧
    "local.Resizable" ∈ Gen.NestedAsm.writes_createFirmwareVolume ∧
    "local.Blocks" ∈ Gen.NestedAsm.writes_createFirmwareVolume ∧
    Gen.NestedAsm.calls_removeFileCompression_append.length = 3 := by decide

end Fiano.Uefi.Nested
