/-
  C09a — validate reports nothing on the tree of a well-formed, sound image of the reference grammar.
  Part 2: every node of `Spec.tree i` passes its node check (sections, files, volumes), then the walk.
  Core Lean only.
-/
import FianoModel.Uefi.ValidateSerLen

namespace Fiano.Uefi.C09
open Fiano Fiano.Uefi Fiano.Uefi.Spec


/-! ### section nodes -/

theorem secNode_ok (i : SecInfo) (buf : Bytes) (ext : Bool) (total : Nat)
    (h3 : i.size3 = if ext then 0xFFFFFF else total) (he : i.extSize = total) (hl : buf.length = total)
    (hs : secSizeOk ext total = true) (h8 : ext = true → 8 ≤ total) :
    validateSecNode i buf = [] := by
  unfold validateSecNode
  unfold secSizeOk at hs
  cases ext with
  | true =>
    simp only [if_true, decide_eq_true_eq] at hs h3
    have := h8 rfl
    have e : buf.length % 4294967296 = total := by rw [hl]; omega
    simp [h3, e, he]; omega
  | false =>
    simp only [Bool.false_eq_true, if_false, decide_eq_true_eq] at hs h3
    have e : buf.length % 4294967296 = total := by rw [hl]; omega
    have e3 : i.size3 % 4294967296 = total := by rw [h3]; omega
    have : i.size3 ≠ 16777215 := by omega
    simp [this, e, e3, he]

theorem canonInfo_fields (t n ord : Nat) :
    (canonInfo t n ord).size3 = (if n + 4 ≥ 0xFFFFFF then 0xFFFFFF else n + 4) ∧
    (canonInfo t n ord).extSize = canonSecSize n := by
  unfold canonInfo canonSecSize secInfoOf
  split <;> simp

theorem canonNode_ok (i : SecInfo) (t n ord : Nat) (buf : Bytes)
    (h3 : i.size3 = (canonInfo t n ord).size3) (he : i.extSize = (canonInfo t n ord).extSize)
    (hl : buf.length = canonSecSize n) (hn : n + 8 < 0xFFFFFFFF) : validateSecNode i buf = [] := by
  obtain ⟨f3, fe⟩ := canonInfo_fields t n ord
  rw [f3] at h3
  rw [fe] at he
  by_cases hb : n + 4 ≥ 0xFFFFFF
  · refine secNode_ok i buf true (canonSecSize n) ?_ he hl ?_ ?_
    · simp [h3, hb]
    · unfold secSizeOk canonSecSize; simp [hb]; omega
    · intro _; unfold canonSecSize; simp [hb]
  · refine secNode_ok i buf false (canonSecSize n) ?_ he hl ?_ ?_
    · unfold canonSecSize; simp [h3, hb]
    · unfold secSizeOk canonSecSize; simp [hb]; omega
    · intro h; cases h


/-! ### file nodes -/

theorem byte_zero : byte 0 = 0 := rfl

theorem sum8_fileHdr (g : Guid) (ckh ckf : UInt8) (t a : Nat) (ext : Bool) (total st : Nat) :
    sum8 (fileHdr g ckh ckf t a ext total st) = sum8 (fileHdr g 0 0 t a ext total 0) + ckh + ckf + byte st := by
  unfold fileHdr
  simp only [v_sum8_append, v_sum8_cons, v_sum8_nil, byte_zero]
  apply UInt8.toNat_inj.mp
  simp only [UInt8.toNat_add, UInt8.toNat_zero]
  omega

theorem u8_sub_cancel3 (a c d : UInt8) : a + c + d - c - d = a := by
  apply UInt8.toNat_inj.mp
  simp only [UInt8.toNat_add, UInt8.toNat_sub]
  have := a.toNat_lt; have := c.toNat_lt; have := d.toNat_lt
  omega

theorem byte_toNat (x : UInt8) : byte x.toNat = x := by
  unfold byte; simp

/-- header part of the checks: a buffer that starts with a file header whose checksum byte makes the
    header (without `File` and `State`) sum to zero -/
theorem checksumHeader_ok (i : FileInfo) (g : Guid) (ckh ckf : UInt8) (t a : Nat) (ext : Bool) (total st : Nat)
    (body : Bytes) (hg : g.length = 16) (hla : isLarge i.attrs = ext) (hck : byte i.ckFile = ckf)
    (hst : byte i.state = byte st) (hz : sum8 (fileHdr g 0 0 t a ext total 0) + ckh = 0) :
    checksumHeader i (fileHdr g ckh ckf t a ext total st ++ body) = 0 := by
  simp only [checksumHeader]
  have hlen := fileHdr_length g ckh ckf t a ext total st hg
  have e : (fileHdr g ckh ckf t a ext total st ++ body).take
      (min (if isLarge i.attrs = true then 32 else 24) (fileHdr g ckh ckf t a ext total st ++ body).length) =
      fileHdr g ckh ckf t a ext total st := by
    rw [hla, List.length_append, hlen]
    have : min (if ext = true then 32 else 24) ((if ext = true then 32 else 24) + body.length) =
        (fileHdr g ckh ckf t a ext total st).length := by rw [hlen]; omega
    rw [this, List.take_left']
    rfl
  rw [e, sum8_fileHdr, hck, hst, hz]
  apply UInt8.toNat_inj.mp
  simp only [UInt8.toNat_add, UInt8.toNat_sub, UInt8.toNat_zero]
  have := ckf.toNat_lt; have := (byte st).toNat_lt
  omega


theorem leafFile_ok (g : Guid) (ckh ckf t a st : Nat) (ext : Bool) (body : Bytes)
    (hw : wfFile (.leaf g ckh ckf t a st ext body) = true) (hs : soundLeaf g ckh ckf t a ext body = true) :
    validateFileNode (treeFile (.leaf g ckh ckf t a st ext body)).info
      (treeFile (.leaf g ckh ckf t a st ext body)).buf = [] := by
  simp only [wfFile, Bool.and_eq_true, beq_iff_eq, decide_eq_true_eq, and_assoc] at hw
  obtain ⟨hg, _, hckf, _, _, _, _, _, hsz⟩ := hw
  simp only [soundLeaf, Bool.and_eq_true, beq_iff_eq] at hs
  obtain ⟨⟨hext, hsum⟩, hbody⟩ := hs
  have hla : isLarge a = ext := by
    unfold isLarge
    cases ext <;> simp_all
  have hlen := fileHdr_length g (byte ckh) (byte ckf) t a ext ((if ext then 32 else 24) + body.length) st hg
  apply (validateFileNode_nil_iff _ _).mpr
  simp only [treeFile, serFile, File.info, File.buf]
  have hhdr : checksumHeader
      { guid := g, ckHeader := ckh, ckFile := ckf, type := t, attrs := a,
        size3 := if ext = true then 16777215 else (if ext = true then 32 else 24) + body.length, state := st,
        extSize := (if ext = true then 32 else 24) + body.length, dataOffset := if ext = true then 32 else 24 }
      (fileHdr g (byte ckh) (byte ckf) t a ext ((if ext then 32 else 24) + body.length) st ++ body) = 0 := by
    apply checksumHeader_ok _ _ _ _ _ _ _ _ _ _ hg hla rfl rfl
    have := sum8_fileHdr g (byte ckh) 0 t a ext ((if ext then 32 else 24) + body.length) 0
    rw [hsum, byte_zero] at this
    apply UInt8.toNat_inj.mp
    have := congrArg UInt8.toNat this
    simp only [UInt8.toNat_add, UInt8.toNat_zero] at this ⊢
    omega
  have hd : (fileHdr g (byte ckh) (byte ckf) t a ext ((if ext then 32 else 24) + body.length) st ++ body).drop
      (if isLarge a = true then 32 else 24) = body := by
    have e : (if isLarge a = true then 32 else 24) =
        (fileHdr g (byte ckh) (byte ckf) t a ext ((if ext then 32 else 24) + body.length) st).length := by
      rw [hla, hlen]
    rw [e, List.drop_left' rfl]
  have hbd : if hasChecksum a = true then sum8 body + byte ckf = 0 else ckf = emptyBodyChecksum := by
    unfold hasChecksum emptyBodyChecksum
    by_cases h40 : a &&& 0x40 ≠ 0
    · simp only [h40, ne_eq, not_false_eq_true, decide_true, if_true, bne_iff_ne] at hbody ⊢
      simpa using hbody
    · simp only [h40, decide_false, Bool.false_eq_true, if_false, bne_iff_ne] at hbody ⊢
      simpa using hbody
  have hL : (fileHdr g (byte ckh) (byte ckf) t a ext ((if ext then 32 else 24) + body.length) st ++ body).length =
      (if ext then 32 else 24) + body.length := by rw [List.length_append, hlen]
  refine ⟨?_, ?_, ?_, ?_, hL, hhdr, by rw [hd]; exact hbd⟩
  · rw [hL]; split <;> omega
  · simp only [hla]
    cases ext with
    | true => simp
    | false => simp at hsz ⊢; omega
  · rw [hL]
    cases ext with
    | true => simp
    | false => simp at hsz ⊢; omega
  · cases ext with
    | true => simp
    | false => simp


set_option maxRecDepth 8192 in
theorem bits_or1 : ∀ a, a < 256 → (isLarge (a ||| 1) = true ∧ hasChecksum (a ||| 1) = hasChecksum a) := by
  unfold isLarge hasChecksum; decide
set_option maxRecDepth 8192 in
theorem bits_andFE : ∀ a, a < 256 → (isLarge (a &&& 0xFE) = false ∧ hasChecksum (a &&& 0xFE) = hasChecksum a) := by
  unfold isLarge hasChecksum; decide

theorem sectFile_ok (g : Guid) (t a st : Nat) (secs : List SecI)
    (hw : wfFile (.sect g t a st secs) = true) :
    validateFileNode (treeFile (.sect g t a st secs)).info (treeFile (.sect g t a st secs)).buf = [] := by
  simp only [wfFile, Bool.and_eq_true, beq_iff_eq, decide_eq_true_eq, and_assoc] at hw
  obtain ⟨hg, _, ha, _, _, _, hsecs, _⟩ := hw
  have hd := len_serSecs 0 secs hsecs
  simp only [Nat.zero_add] at hd
  apply (validateFileNode_nil_iff _ _).mpr
  simp only [treeFile, serFile, File.info, File.buf, hd]
  generalize hdd : sizeSecs 0 secs = d at *
  generalize hdata : serSecs 0 secs = data at *
  -- the large flag as a Bool
  generalize hlg : decide (24 + d ≥ 16777215) = large
  have hla : isLarge (sectAttrs a d) = large := by
    unfold sectAttrs
    by_cases hb : 24 + d ≥ 16777215
    · simp only [hb, if_true, decide_true] at hlg ⊢; rw [← hlg]; exact (bits_or1 a ha).1
    · simp only [hb, if_false, decide_false] at hlg ⊢; rw [← hlg]; exact (bits_andFE a ha).1
  have hcs : hasChecksum (sectAttrs a d) = hasChecksum a := by
    unfold sectAttrs
    split
    · exact (bits_or1 a ha).2
    · exact (bits_andFE a ha).2
  have hlen := fun ckh ckf => fileHdr_length g ckh ckf t (sectAttrs a d) large ((if large then 32 else 24) + d) st hg
  generalize hckh : (0 - sum8 (fileHdr g 0 0 t (sectAttrs a d) large ((if large = true then 32 else 24) + d) 0)) = ckh
  generalize hckf : (if a &&& 64 ≠ 0 then 0 - sum8 data else (170 : UInt8)) = ckf
  have hL : (fileHdr g ckh ckf t (sectAttrs a d) large ((if large = true then 32 else 24) + d) st ++ data).length =
      (if large = true then 32 else 24) + d := by rw [List.length_append, hlen, hd]
  have hdrop : (fileHdr g ckh ckf t (sectAttrs a d) large ((if large = true then 32 else 24) + d) st ++ data).drop
      (if isLarge (sectAttrs a d) = true then 32 else 24) = data := by
    have e : (if isLarge (sectAttrs a d) = true then 32 else 24) =
        (fileHdr g ckh ckf t (sectAttrs a d) large ((if large = true then 32 else 24) + d) st).length := by
      rw [hla, hlen]
    rw [e, List.drop_left' rfl]
  refine ⟨?_, ?_, ?_, ?_, hL, ?_, ?_⟩
  · rw [hL]; split <;> omega
  · simp only [hla]
    cases large with
    | true => simp
    | false => simp at hlg ⊢; omega
  · rw [hL]
    cases large with
    | true => simp
    | false => simp at hlg ⊢; omega
  · cases large <;> simp
  · apply checksumHeader_ok _ _ _ _ _ _ _ _ _ _ hg hla (byte_toNat ckf) rfl
    rw [← hckh]
    exact sum8_complement _
  · rw [hdrop]
    simp only [hcs, byte_toNat]
    unfold hasChecksum emptyBodyChecksum
    by_cases h40 : a &&& 0x40 ≠ 0
    · simp only [h40, ne_eq, not_false_eq_true, decide_true, if_true] at hckf ⊢
      rw [← hckf]; exact sum8_complement _
    · simp only [h40, decide_false, Bool.false_eq_true, if_false] at hckf ⊢
      rw [← hckf]; rfl



/-! ### volume header: checksum -/

theorem sum16_leN2 (n : Nat) (B : Bytes) : sum16 (leN 2 n ++ B) = UInt16.ofNat n + sum16 B := by
  simp only [leN, List.cons_append, List.nil_append, sum16_cons2]
  congr 1
  apply UInt16.toNat_inj.mp
  simp only [UInt16.toNat_add, UInt16.toNat_mul, UInt8.toNat_toUInt16, UInt8.toNat_ofNat', UInt16.toNat_ofNat']
  have : (256 : UInt16).toNat = 256 := rfl
  simp only [this]
  omega

theorem fvHeader_split (zv g : Bytes) (length attrs ck eho rsv rev : Nat) (blocks : List Block) :
    fvHeader zv g length attrs ck eho rsv rev blocks =
      (zv ++ g ++ leN 8 length ++ fvSigBytes ++ leN 4 attrs ++ leN 2 (fvHdrLen blocks)) ++
        (leN 2 ck ++ (leN 2 eho ++ [byte rsv, byte rev] ++ encodeBlocks blocks ++ zeros 8)) := by
  unfold fvHeader; simp [List.append_assoc]

theorem sum16_fvHeaderCk (zv g : Bytes) (length attrs eho rsv rev : Nat) (blocks : List Block)
    (hz : zv.length = 16) (hg : g.length = 16) :
    sum16 (fvHeaderCk zv g length attrs eho rsv rev blocks) = 0 := by
  unfold fvHeaderCk
  have hA : (zv ++ g ++ leN 8 length ++ fvSigBytes ++ leN 4 attrs ++ leN 2 (fvHdrLen blocks)).length % 2 = 0 := by
    simp [hz, hg, fvSigBytes]
  rw [fvHeader_split zv g length attrs 0, fvHeader_split, sum16_append_even _ _ hA, sum16_append_even _ _ hA,
    sum16_leN2, sum16_leN2]
  generalize sum16 (zv ++ g ++ leN 8 length ++ fvSigBytes ++ leN 4 attrs ++ leN 2 (fvHdrLen blocks)) = sa
  generalize sum16 (leN 2 eho ++ [byte rsv, byte rev] ++ encodeBlocks blocks ++ zeros 8) = sb
  apply UInt16.toNat_inj.mp
  simp only [UInt16.toNat_add, UInt16.toNat_sub, UInt16.toNat_ofNat', UInt16.toNat_zero]
  have := sa.toNat_lt; have := sb.toNat_lt
  omega


/-! ### volume header: the block map ends where `HeaderLen` says -/

theorem fromLE_append (a b : Bytes) : fromLE (a ++ b) = fromLE a + 256 ^ a.length * fromLE b := by
  induction a with
  | nil => simp [fromLE]
  | cons x xs ih =>
    simp only [List.cons_append, fromLE, ih, List.length_cons, Nat.pow_succ]
    rw [Nat.mul_add, Nat.add_assoc]
    congr 2
    rw [← Nat.mul_assoc, Nat.mul_comm 256 (256 ^ xs.length)]

theorem blockEntry_ne_zero (b : Block) (h : blockOk b = true) : fromLE (leN 4 b.count ++ leN 4 b.size) ≠ 0 := by
  rw [fromLE_append, fromLE_leN, fromLE_leN, leN_length]
  simp only [blockOk, Bool.and_eq_true, decide_eq_true_eq, Bool.not_eq_true', Bool.and_eq_false_iff, beq_eq_false_iff_ne] at h
  obtain ⟨⟨h1, h2⟩, h3⟩ := h
  have e1 : b.count % 256 ^ 4 = b.count := Nat.mod_eq_of_lt (by simpa using h1)
  have e2 : b.size % 256 ^ 4 = b.size := Nat.mod_eq_of_lt (by simpa using h2)
  rw [e1, e2]
  have : (256 : Nat) ^ 4 = 4294967296 := by decide
  rw [this]
  rcases h3 with h3 | h3 <;> omega

theorem scan_blocks : ∀ (blocks : List Block) (off : Nat) (rest : Bytes), blocks.all blockOk = true →
    scanBlockEnd off (encodeBlocks blocks ++ zeros 8 ++ rest) = off + 8 * blocks.length + 8
  | [], off, rest, _ => by
    simp [encodeBlocks, zeros, List.replicate, scanBlockEnd, fromLE]
  | b :: bs, off, rest, h => by
    simp only [List.all_cons, Bool.and_eq_true] at h
    have ih := scan_blocks bs (off + 8) rest h.2
    have hne := blockEntry_ne_zero b h.1
    simp only [leN, List.cons_append, List.nil_append] at hne
    simp only [encodeBlocks, leN, List.cons_append, List.nil_append, List.append_assoc, scanBlockEnd, hne, if_false]
    simp only [List.append_assoc] at ih
    rw [ih]
    simp only [List.length_cons]; omega


theorem fvHeader_split56 (zv g : Bytes) (length attrs ck eho rsv rev : Nat) (blocks : List Block) :
    fvHeader zv g length attrs ck eho rsv rev blocks =
      (zv ++ g ++ leN 8 length ++ fvSigBytes ++ leN 4 attrs ++ leN 2 (fvHdrLen blocks) ++ leN 2 ck ++ leN 2 eho ++
        [byte rsv, byte rev]) ++ (encodeBlocks blocks ++ zeros 8) := by
  unfold fvHeader; simp [List.append_assoc]

/-- a buffer that starts with a volume header written as the PI specification prescribes passes the
    volume checks -/
theorem fvNode_ok (i : FvInfo) (zv g : Bytes) (length attrs eho rsv rev : Nat) (blocks : List Block) (rest : Bytes)
    (hz : zv.length = 16) (hg : g.length = 16) (hbl : blocks.all blockOk = true)
    (hhl : i.headerLen = fvHdrLen blocks) (hgk : knownFvGuids.contains i.fsGuid = true) (hrev : i.revision = 2)
    (hsig : i.signature = fvSignature)
    (hlen : i.length = (fvHeaderCk zv g length attrs eho rsv rev blocks ++ rest).length)
    (h64 : 64 ≤ (fvHeaderCk zv g length attrs eho rsv rev blocks ++ rest).length) :
    validateFvNode i (fvHeaderCk zv g length attrs eho rsv rev blocks ++ rest) = [] := by
  apply (validateFvNode_nil_iff _ _).mpr
  have hH := fvHeaderCk_length zv g length attrs eho rsv rev blocks hz hg
  have hhl64 : 64 ≤ fvHdrLen blocks := by unfold fvHdrLen; omega
  refine ⟨h64, by omega, ?_, ?_, hgk, hrev, hsig, hlen, ?_, ?_⟩
  · rw [hhl, List.length_append, hH]; omega
  · rw [hhl]
    unfold blockMapEnd fvFixedHeaderSize fvHeaderCk
    rw [fvHeader_split56, List.append_assoc]
    have e : (56 : Nat) = (zv ++ g ++ leN 8 length ++ fvSigBytes ++ leN 4 attrs ++ leN 2 (fvHdrLen blocks) ++
        leN 2 (0 - sum16 (fvHeader zv g length attrs 0 eho rsv rev blocks)).toNat ++ leN 2 eho ++
        [byte rsv, byte rev]).length := by simp [hz, hg, fvSigBytes]
    rw [List.drop_left' e.symm, List.append_assoc, ← List.append_assoc (encodeBlocks blocks), scan_blocks blocks 56 rest hbl]
    unfold fvHdrLen; omega
  · rw [hhl]; unfold fvHdrLen; omega
  · rw [hhl, List.take_left' hH]
    exact sum16_fvHeaderCk zv g length attrs eho rsv rev blocks hz hg

/-! ### every node of the grammar tree passes; the walk -/


theorem ffs_guid_known (v3 : Bool) : knownFvGuids.contains (if v3 = true then guidFFS3 else guidFFS2) = true := by
  cases v3 <;> decide

theorem other_guid_known (g : Guid) (h : otherFsGuids.contains g = true) : knownFvGuids.contains g = true := by
  simp only [List.contains_eq_mem, decide_eq_true_eq] at h ⊢
  simp only [otherFsGuids, List.mem_cons, List.not_mem_nil, or_false] at h
  simp only [knownFvGuids, List.mem_cons, List.not_mem_nil, or_false]
  rcases h with h | h | h | h | h | h | h <;> simp [h]

mutual
  theorem v_sec : ∀ (s : SecI) (ord : Nat), wfSec s = true → soundSec s = true → vSection (treeSec s ord) = []
    | .leaf t e b, ord, hw, _ => by
      simp only [wfSec, Bool.and_eq_true] at hw
      simp only [treeSec, vSection, vNodes, List.append_nil]
      refine secNode_ok _ _ e (secHdrLen e + b.length) ?_ rfl ?_ hw.2 ?_
      · simp [secInfoOf]
      · simp [serSec, secHdr_length]
      · intro h; subst h; simp [secHdrLen]
    | .guided e g d a b, ord, hw, _ => by
      have hl := len_serSec _ hw
      simp only [wfSec, Bool.and_eq_true] at hw
      simp only [treeSec, vSection, vNodes, List.append_nil]
      refine secNode_ok _ _ e (secHdrLen e + 20 + b.length) ?_ rfl ?_ hw.2 ?_
      · simp [secInfoOf]
      · rw [hl]; simp [sizeSec]
      · intro h; subst h; simp [secHdrLen]; omega
    | .ui name, ord, hw, _ => by
      have hl := len_serSec _ hw
      simp only [wfSec, Bool.and_eq_true, decide_eq_true_eq] at hw
      simp only [treeSec, vSection, vNodes, List.append_nil]
      exact canonNode_ok _ 0x15 _ ord _ rfl rfl (by rw [hl]; simp [sizeSec]) (by omega)
    | .version b v, ord, hw, _ => by
      have hl := len_serSec _ hw
      simp only [wfSec, Bool.and_eq_true, decide_eq_true_eq] at hw
      simp only [treeSec, vSection, vNodes, List.append_nil]
      exact canonNode_ok _ 0x14 _ ord _ rfl rfl (by rw [hl]; simp [sizeSec]) (by omega)
    | .depex t ops, ord, hw, _ => by
      have hl := len_serSec _ hw
      simp only [wfSec, Bool.and_eq_true, decide_eq_true_eq] at hw
      simp only [treeSec, vSection, vNodes, List.append_nil]
      exact canonNode_ok _ t _ ord _ rfl rfl (by rw [hl]; simp [sizeSec]) (by omega)
    | .fvimg fv, ord, hw, hs => by
      have hl := len_serSec _ hw
      simp only [wfSec, Bool.and_eq_true, decide_eq_true_eq] at hw
      simp only [soundSec] at hs
      simp only [treeSec, vSection, vNodes, List.append_nil, v_fv fv 0 true hw.1 hs]
      exact canonNode_ok _ 0x17 _ ord _ rfl rfl (by rw [hl]; simp [sizeSec]) (by omega)
  theorem v_secs : ∀ (ss : List SecI) (ord : Nat), wfSecs ss = true → soundSecs ss = true →
      vSections (treeSecs ss ord) = []
    | [], _, _, _ => by simp [treeSecs, vSections]
    | s :: ss, ord, hw, hs => by
      simp only [wfSecs, soundSecs, Bool.and_eq_true] at hw hs
      simp [treeSecs, vSections, v_sec s ord hw.1 hs.1, v_secs ss (ord + 1) hw.2 hs.2]
  theorem v_file : ∀ (f : FileI), wfFile f = true → soundFile f = true → vFile (treeFile f) = []
    | .leaf g ckh ckf t a st ext body, hw, hs => by
      have := leafFile_ok g ckh ckf t a st ext body hw hs
      simp only [treeFile, File.info, File.buf] at this
      simp only [treeFile, vFile]
      rw [this]
      simp [vSections]
    | .sect g t a st secs, hw, hs => by
      have := sectFile_ok g t a st secs hw
      simp only [treeFile, File.info, File.buf] at this
      simp only [wfFile, Bool.and_eq_true, and_assoc] at hw
      obtain ⟨_, _, _, _, _, _, hsecs, _⟩ := hw
      simp only [soundFile] at hs
      simp only [treeFile, vFile]
      rw [this, v_secs secs 0 hsecs hs]
      simp
  theorem v_files : ∀ (off length : Nat) (fs : List FileI), wfFiles off length fs = true → soundFiles fs = true →
      vFiles (treeFiles fs) = []
    | _, _, [], _, _ => by simp [treeFiles, vFiles]
    | off, length, f :: fs, hw, hs => by
      simp only [wfFiles, Bool.and_eq_true] at hw
      simp only [soundFiles, Bool.and_eq_true] at hs
      simp [treeFiles, vFiles, v_file f hw.1.1.1.1 hs.1, v_files _ length fs hw.2 hs.2]
  theorem v_fv : ∀ (v : FvI) (off : Nat) (rs : Bool), wfFv v = true → soundFv v = true → vFv (treeFv v off rs) = []
    | .ffs zv v3 attrs rev rsv blocks ext files free, off, rs, hw, hs => by
      have hl := len_serFv _ hw
      simp only [wfFv, Bool.and_eq_true, beq_iff_eq, decide_eq_true_eq, and_assoc] at hw
      obtain ⟨hz, _, _, _, _, hbl, _, _, _, _, _, h64, hfiles, _⟩ := hw
      simp only [soundFv, Bool.and_eq_true, beq_iff_eq] at hs
      have hg : (if v3 = true then guidFFS3 else guidFFS2).length = 16 := by split <;> rfl
      simp only [treeFv, vFv, v_files _ _ files hfiles hs.2, List.append_nil]
      simp only [serFv, List.append_assoc] at hl ⊢
      refine fvNode_ok _ zv _ _ attrs _ rsv rev blocks _ hz hg hbl rfl (ffs_guid_known v3) hs.1 rfl ?_ ?_
      · rw [hl]; simp [sizeFv]
      · rw [hl]; simp only [sizeFv]; exact h64
    | .other zv g attrs rev rsv blocks body, off, rs, hw, hs => by
      have hl := len_serFv _ hw
      simp only [wfFv, Bool.and_eq_true, beq_iff_eq, decide_eq_true_eq, and_assoc] at hw
      obtain ⟨hz, hg, _, _, _, _, _, _, hbl, _, _⟩ := hw
      simp only [soundFv, Bool.and_eq_true, beq_iff_eq] at hs
      simp only [treeFv, vFv, vFiles, List.append_nil]
      simp only [serFv] at hl ⊢
      refine fvNode_ok _ zv g _ attrs 0 rsv rev blocks body hz hg hbl rfl (other_guid_known g hs.2) hs.1 rfl ?_ ?_
      · rw [hl]; simp [sizeFv]
      · rw [hl]; simp only [sizeFv]; unfold fvHdrLen; omega
end


/-! ### the walk over a BIOS region, the regions, the flash image -/

theorem vBiosElems_append (pol : UInt8) : ∀ (a b : List BiosElem),
    vBiosElems pol (a ++ b) = vBiosElems pol a ++ vBiosElems pol b
  | [], b => by simp [vBiosElems]
  | .pad _ _ :: a, b => by simp [vBiosElems, vBiosElems_append pol a b]
  | .fv v :: a, b => by simp [vBiosElems, vBiosElems_append pol a b]

theorem treeFv_pol (v : FvI) (off : Nat) (rs : Bool) (hw : wfFv v = true) :
    polOfAttrs (treeFv v off rs).info.attrs = 0xFF := by
  cases v with
  | ffs zv v3 attrs rev rsv blocks ext files free =>
    simp only [wfFv, Bool.and_eq_true, bne_iff_ne, and_assoc] at hw
    obtain ⟨_, _, hp, _⟩ := hw
    simp [treeFv, Fv.info, polOfAttrs, hp]
  | other zv g attrs rev rsv blocks body =>
    simp only [wfFv, Bool.and_eq_true, bne_iff_ne, and_assoc] at hw
    obtain ⟨_, _, _, _, _, hp, _⟩ := hw
    simp [treeFv, Fv.info, polOfAttrs, hp]

theorem v_items : ∀ (is : List (Bytes × FvI)) (tail : Bytes) (off : Nat), wfItems is tail = true →
    soundItems is = true → vBiosElems 0xFF (treeItems is off) = []
  | [], _, _, _, _ => by simp [treeItems, vBiosElems]
  | (p, v) :: is, tail, off, hw, hs => by
    simp only [wfItems, soundItems, Bool.and_eq_true] at hw hs
    have h1 := v_fv v (off + p.length) false hw.1.1 hs.1
    have h2 := treeFv_pol v (off + p.length) false hw.1.1
    have h3 := v_items is tail (off + p.length + sizeFv v) hw.2 hs.2
    simp only [treeItems]
    rw [vBiosElems_append]
    split <;> simp [vBiosElems, h1, h2, h3]

theorem items_anyFv : ∀ (is : List (Bytes × FvI)) (off : Nat), is.isEmpty = false →
    (treeItems is off).any BiosElem.isFv = true
  | [], _, h => by simp at h
  | (p, v) :: is, off, _ => by
    simp only [treeItems]
    split <;> simp [BiosElem.isFv]

theorem v_bios (b : BiosI) (fr : Option FlashRegion) (hw : wfBios b = true) (hs : soundBios b = true)
    (hfr : ∀ r, fr = some r → r.valid = true) : vBios 0xFF (treeBios b fr) = [] := by
  simp only [wfBios, Bool.and_eq_true, Bool.not_eq_true'] at hw
  obtain ⟨⟨hne, hit⟩, _⟩ := hw
  have hany := items_anyFv b.items 0 hne
  have htail : vBiosElems 0xFF (if b.tail.length ≠ 0 then [BiosElem.pad b.tail (sizeItems b.items)] else []) = [] := by
    split <;> simp [vBiosElems]
  cases fr with
  | none =>
    simp only [vBios, treeBios, vBiosElems_append, v_items b.items b.tail 0 hit hs, htail, List.any_append, hany]
    simp
  | some r =>
    have := hfr r rfl
    simp only [vBios, treeBios, vBiosElems_append, v_items b.items b.tail 0 hit hs, htail, List.any_append, hany, this]
    simp

/-- **C09a, bare BIOS region / single volume** -/
theorem validate_wf_bios (b : BiosI) (hw : WF (.bios b)) (hs : Sound (.bios b)) :
    validate (tree (.bios b)) (stOf (.bios b)) = [] := by
  simp only [WF, wf, Sound, sound, Bool.and_eq_true] at hw hs
  simp only [validate, tree, stOf]
  exact v_bios b none hw.1 hs (by intro r h; cases h)


theorem slice_append_left (a b : Bytes) (off len : Nat) (h : off + len ≤ a.length) :
    slice (a ++ b) off len = slice a off len := by
  unfold slice
  rw [List.drop_append_of_le_length (by omega), List.take_append_of_le_length (by rw [List.length_drop]; omega)]

theorem findSignature_append (a b : Bytes) (h : 20 ≤ a.length) : findSignature (a ++ b) = findSignature a := by
  unfold findSignature
  rw [slice_append_left a b 16 4 (by omega), slice_append_left a b 0 4 (by omega)]
  have h1 : ¬ (a ++ b).length < 20 := by rw [List.length_append]; omega
  have h2 : ¬ a.length < 20 := by omega
  simp only [h1, h2, if_false]

theorem v_regs (tbl : List FlashRegion) : ∀ (rs : List RegI) (blk : Nat),
    rs.all wfReg = true → rs.all soundReg = true →
    (treeRegs tbl rs blk).all (fun r => match r.fr with | some fr => fr.valid | none => false) = true →
    vRegions 0xFF (treeRegs tbl rs blk) = []
  | [], _, _, _, _ => by simp [treeRegs, vRegions]
  | r :: rs, blk, hw, hs, hv => by
    simp only [List.all_cons, Bool.and_eq_true] at hw hs
    simp only [treeRegs, List.all_cons, Bool.and_eq_true] at hv
    have ih := v_regs tbl rs (blk + r.data.length / 4096) hw.2 hs.2 hv.2
    simp only [treeRegs, vRegions, ih, List.append_nil]
    have hv1 := hv.1
    cases r with
    | bios b =>
      simp only [Region.fr, treeBios] at hv1
      simp only [vRegion]
      exact v_bios b _ hw.1 hs.1 (by intro r h; cases h; exact hv1)
    | me d => simp only [Region.fr] at hv1; simp only [vRegion]; rw [if_neg (by rw [hv1]; simp)]
    | raw i d => simp only [Region.fr] at hv1; simp only [vRegion]; rw [if_neg (by rw [hv1]; simp)]
    | gap d => simp only [Region.fr] at hv1; simp only [vRegion]; rw [if_neg (by rw [hv1]; simp)]

/-- **C09a, flash image with descriptor** -/
theorem validate_wf_flash (f : FlashI) (hw : WF (.flash f)) (hs : Sound (.flash f)) :
    validate (tree (.flash f)) (stOf (.flash f)) = [] := by
  simp only [WF, wf, wfFlash, Bool.and_eq_true, beq_iff_eq, and_assoc] at hw
  obtain ⟨hlen, hsig, _, _, _, hregs, _, _⟩ := hw
  simp only [Sound, sound, soundFlash, Bool.and_eq_true, and_assoc] at hs
  obtain ⟨hd, hsr, hrv⟩ := hs
  simp only [validate, tree, stOf, vFlash, ser]
  rw [findSignature_append _ _ (by omega)]
  have e1 : (findSignature f.desc).isNone = false := by
    cases h : findSignature f.desc <;> simp_all
  have e2 : validateDescNode (treeDesc f.desc).map = [] := by
    simp only [soundDesc, Bool.and_eq_true, decide_eq_true_eq, bne_iff_ne, and_assoc] at hd
    obtain ⟨a, b, c, d, e⟩ := hd
    simp only [validateDescNode]
    rw [if_neg (show ¬ (treeDesc f.desc).map.masterBase > mapMaxBase by unfold mapMaxBase; omega),
      if_neg (show ¬ (treeDesc f.desc).map.regionBase > mapMaxBase by unfold mapMaxBase; omega),
      if_neg (show ¬ (treeDesc f.desc).map.masterBase > mapMaxBase by unfold mapMaxBase; omega),
      if_neg c, if_neg d, if_neg e]
    rfl
  rw [e2, v_regs _ f.regions 1 hregs hsr hrv]
  simp [e1]

/-- **C09a** `validate_wf`: validate reports nothing on the tree of a well-formed, sound image -/
theorem validate_wf (i : Img) (hv : Valid i) : validate (tree i) (stOf i) = [] := by
  cases i with
  | flash f => exact validate_wf_flash f hv.1 hv.2
  | bios b => exact validate_wf_bios b hv.1 hv.2

end Fiano.Uefi.C09
