/-
  C02 (follow-up wp-c02b), layer (c), part 1: what the header patches of the FirmwareVolume case of
  `Assemble.Visit` do to the bytes — in general (the volume may have grown, the file-system GUID may
  have been switched to FFSv3), not only when they restore the header that was there.

  * `patch_facts`      — length, untouched windows, the three written fields, and rule V4: the
                         zero / sum / write-back sequence makes the 16-bit words of the header sum to 0
                         whatever the header holds (`checksum_fix`);
  * `blockMap_acc`, `blockMap_agree` — the reader's block-map walk is additive in its accumulator
                         and looks only at the bytes up to where it stops.
-/
import FianoModel.Uefi.TreeOk

namespace Fiano.Uefi
open Fiano
open EditArith

/-! ### windows of a buffer after `splice` -/

theorem window_splice (b d : Bytes) (off a n : Nat) (hb : off + d.length ≤ b.length)
    (hd : a + n ≤ off ∨ off + d.length ≤ a) :
    ((splice b off d).drop a).take n = (b.drop a).take n := by
  rcases hd with hd | hd
  · exact window_of_take_eq _ _ off a n (take_splice_le b off d off (Nat.le_refl _) hb) hd
  · rw [drop_splice_ge b off d a hd hb]

theorem fld_splice (b d : Bytes) (off a n : Nat) (hb : off + d.length ≤ b.length)
    (hd : a + n ≤ off ∨ off + d.length ≤ a) : Valid.fld (splice b off d) a n = Valid.fld b a n := by
  unfold Valid.fld; rw [window_splice b d off a n hb hd]

theorem window_splice_same (b d : Bytes) (off : Nat) (hb : off + d.length ≤ b.length) :
    ((splice b off d).drop off).take d.length = d := slice_splice_same b off d hb

/-! ### the checksum patch -/

theorem wordSum_leN2 (c : Nat) (hc : c < 65536) : Valid.wordSum (leN 2 c) = c := by
  simp only [leN, Valid.wordSum, Valid.wordSumAux]
  have h1 : (UInt8.ofNat (c % 256)).toNat = c % 256 := by simp [UInt8.toNat_ofNat']
  have h2 : (UInt8.ofNat (c / 256 % 256)).toNat = c / 256 % 256 := by simp [UInt8.toNat_ofNat']
  rw [h1, h2]
  omega

/-- **rule V4 after the checksum patch**, whatever the header holds: zero the checksum word, sum the
    header, write `0 - sum` back — the 16-bit words of the header then sum to zero -/
theorem checksum_fix (y : Bytes) (hlen : Nat) (h52 : 52 ≤ hlen) (hle : hlen ≤ y.length) (hev : hlen % 2 = 0) :
    Valid.wordSum ((splice (splice y 50 [0, 0]) 50
      (leN 2 ((0 - sum16 ((splice y 50 [0, 0]).take hlen)).toNat))).take hlen) = 0 := by
  have h50 : (y.take 50).length = 50 := by simp; omega
  have hz : splice y 50 [0, 0] = y.take 50 ++ [0, 0] ++ y.drop 52 := by
    unfold splice; simp
  have hztake : (splice y 50 [0, 0]).take hlen = y.take 50 ++ [0, 0] ++ (y.drop 52).take (hlen - 52) := by
    rw [hz, take_three _ _ _ _ (by simp [h50]; omega), h50]
    rfl
  generalize hc : (0 - sum16 ((splice y 50 [0, 0]).take hlen)).toNat = c
  have hclt : c < 65536 := by rw [← hc]; exact UInt16.toNat_lt _
  have hout : splice (splice y 50 [0, 0]) 50 (leN 2 c) = y.take 50 ++ leN 2 c ++ y.drop 52 := by
    rw [hz]
    unfold splice
    have t1 : (y.take 50 ++ [0, 0] ++ y.drop 52).take 50 = y.take 50 := by
      rw [List.append_assoc, List.take_append_of_le_length (by omega), List.take_of_length_le (by omega)]
    have t2 : (y.take 50 ++ [0, 0] ++ y.drop 52).drop (50 + (leN 2 c).length) = y.drop 52 := by
      rw [List.drop_append_of_le_length (by simp [h50]), List.drop_of_length_le (by simp [h50])]
      simp
    rw [t1, t2]
  have houttake : (splice (splice y 50 [0, 0]) 50 (leN 2 c)).take hlen =
      y.take 50 ++ leN 2 c ++ (y.drop 52).take (hlen - 52) := by
    rw [hout, take_three _ _ _ _ (by simp [h50]; omega), h50]
    simp only [leN_length]
    have e : hlen - 50 - 2 = hlen - 52 := by omega
    rw [e]
  have hA : (y.take 50).length % 2 = 0 := by rw [h50]
  have hA0 : (y.take 50 ++ [(0 : UInt8), 0]).length % 2 = 0 := by simp [h50]
  have hAc : (y.take 50 ++ leN 2 c).length % 2 = 0 := by simp [h50]
  have hw0 : Valid.wordSum [(0 : UInt8), 0] = 0 := by simp [Valid.wordSum, Valid.wordSumAux]
  have hcv : c = (65536 - Valid.wordSum ((splice y 50 [0, 0]).take hlen)) % 65536 := by
    rw [← hc, UInt16.toNat_sub, sum16_toNat]
    have := wordSum_lt ((splice y 50 [0, 0]).take hlen)
    simp
  rw [hztake, wordSum_append _ _ hA0, wordSum_append _ _ hA, hw0] at hcv
  rw [houttake, wordSum_append _ _ hAc, wordSum_append _ _ hA, wordSum_leN2 c hclt]
  have := wordSum_lt (y.take 50)
  have := wordSum_lt ((y.drop 52).take (hlen - 52))
  omega

end Fiano.Uefi

namespace Fiano.Uefi
open Fiano
open EditArith

/-- the windows of the volume header that the patches do not touch (with the GUID: when it is not switched) -/
def PatchFree (a n : Nat) : Prop :=
  a + n ≤ 16 ∨ (40 ≤ a ∧ a + n ≤ 50) ∨ (52 ≤ a ∧ a + n ≤ 56) ∨ 60 ≤ a

/-- the second half of the patches: block count, checksum -/
theorem patch_tail_facts (b2 : Bytes) (count hlen : Nat) (out : Bytes) (h60 : 60 ≤ b2.length)
    (h : (let b := splice b2 56 (leN 4 count)
          let b := splice b 50 [0, 0]
          if hlen > b.length then (Except.error Err.err : Except Err Bytes)
          else if hlen % 2 ≠ 0 then .error .err
          else .ok (splice b 50 (leN 2 ((0 - sum16 (b.take hlen)).toNat)))) = .ok out) :
    hlen ≤ b2.length ∧ hlen % 2 = 0 ∧ out.length = b2.length ∧
    (∀ a n, (a + n ≤ 50 ∨ (52 ≤ a ∧ a + n ≤ 56) ∨ 60 ≤ a) → (out.drop a).take n = (b2.drop a).take n) ∧
    Valid.fld out 56 4 = count % 2 ^ 32 ∧
    (52 ≤ hlen → Valid.wordSum (out.take hlen) = 0) := by
  simp only at h
  have l3 : (splice b2 56 (leN 4 count)).length = b2.length := splice_length _ _ _ (by simp; omega)
  generalize hb3 : splice b2 56 (leN 4 count) = b3 at *
  have l4 : (splice b3 50 [0, 0]).length = b2.length := by
    rw [splice_length _ _ _ (by simp; omega)]; exact l3
  split at h
  · cases h
  · rename_i hle
    split at h
    · cases h
    · rename_i hev
      cases h
      rw [l4] at hle
      have hle' : hlen ≤ b2.length := by omega
      have hev' : hlen % 2 = 0 := by omega
      generalize hck : (0 - sum16 ((splice b3 50 [0, 0]).take hlen)).toNat = c
      have lo : (splice (splice b3 50 [0, 0]) 50 (leN 2 c)).length = b2.length := by
        rw [splice_length _ _ _ (by simp; omega)]; exact l4
      refine ⟨hle', hev', lo, ?_, ?_, ?_⟩
      · intro a n hd
        rw [window_splice _ _ 50 a n (by simp; omega) (by simp; omega),
            window_splice _ _ 50 a n (by simp; omega) (by simp; omega), ← hb3,
            window_splice _ _ 56 a n (by simp; omega) (by simp; omega)]
      · unfold Valid.fld
        rw [window_splice _ _ 50 56 4 (by simp; omega) (by simp),
            window_splice _ _ 50 56 4 (by simp; omega) (by simp), ← hb3]
        have := window_splice_same b2 (leN 4 count) 56 (by simp; omega)
        simp only [leN_length] at this
        rw [this, fromLE_leN]
      · intro h52
        rw [← hck]
        exact checksum_fix b3 hlen h52 (by omega) hev'

/-- **what the header patches do** (any length, any count, GUID switched or not) -/
theorem patch_facts (x : Bytes) (length : Nat) (g : Option Guid) (count hlen : Nat) (out : Bytes)
    (h : patchFvHeader x length g count hlen = .ok out) (hg : ∀ gg, g = some gg → gg.length = 16) :
    60 ≤ x.length ∧ hlen ≤ x.length ∧ hlen % 2 = 0 ∧ out.length = x.length ∧
    (∀ a n, PatchFree a n → (out.drop a).take n = (x.drop a).take n) ∧
    (g = none → (out.drop 16).take 16 = (x.drop 16).take 16) ∧
    (∀ gg, g = some gg → (out.drop 16).take 16 = gg) ∧
    Valid.fld out 32 8 = length % 2 ^ 64 ∧ Valid.fld out 56 4 = count % 2 ^ 32 ∧
    (52 ≤ hlen → Valid.wordSum (out.take hlen) = 0) := by
  unfold patchFvHeader at h
  split at h
  · cases h
  · rename_i h60
    have h60' : 60 ≤ x.length := by omega
    have l1 : (splice x 32 (leN 8 length)).length = x.length := splice_length _ _ _ (by simp; omega)
    have w0 : ∀ a n, (a + n ≤ 32 ∨ 40 ≤ a) → ((splice x 32 (leN 8 length)).drop a).take n = (x.drop a).take n := by
      intro a n hd
      rw [window_splice _ _ 32 a n (by simp; omega) (by simp; omega)]
    have f32 : ((splice x 32 (leN 8 length)).drop 32).take 8 = leN 8 length := by
      have := window_splice_same x (leN 8 length) 32 (by simp; omega)
      simpa using this
    generalize hb1 : splice x 32 (leN 8 length) = b1 at *
    cases g with
    | none =>
      obtain ⟨t1, t2, t3, t4, t5, t6⟩ := patch_tail_facts b1 count hlen out (by omega) h
      refine ⟨h60', by omega, t2, by omega, ?_, ?_, ?_, ?_, t5, t6⟩
      · intro a n hf
        unfold PatchFree at hf
        rw [t4 a n (by omega), w0 a n (by omega)]
      · intro _
        rw [t4 16 16 (by omega), w0 16 16 (by omega)]
      · intro gg hgg; cases hgg
      · unfold Valid.fld
        rw [t4 32 8 (by omega), f32, fromLE_leN]
    | some gg =>
      have hl := hg gg rfl
      have l2 : (splice b1 16 (gg.take 16)).length = x.length := by
        rw [splice_length _ _ _ (by simp; omega)]; exact l1
      obtain ⟨t1, t2, t3, t4, t5, t6⟩ := patch_tail_facts (splice b1 16 (gg.take 16)) count hlen out (by omega) h
      have w1 : ∀ a n, (a + n ≤ 16 ∨ 32 ≤ a) → ((splice b1 16 (gg.take 16)).drop a).take n = (b1.drop a).take n := by
        intro a n hd
        rw [window_splice _ _ 16 a n (by simp; omega) (by simp; omega)]
      refine ⟨h60', by omega, t2, by omega, ?_, ?_, ?_, ?_, t5, t6⟩
      · intro a n hf
        unfold PatchFree at hf
        rw [t4 a n (by omega), w1 a n (by omega), w0 a n (by omega)]
      · intro c; cases c
      · intro gg' hgg'
        cases hgg'
        rw [t4 16 16 (by omega)]
        have ht : gg.take 16 = gg := List.take_of_length_le (by omega)
        have := window_splice_same b1 (gg.take 16) 16 (by rw [ht]; omega)
        rw [ht, hl] at this
        rw [ht]
        exact this
      · unfold Valid.fld
        rw [t4 32 8 (by omega), w1 32 8 (by omega), f32, fromLE_leN]

end Fiano.Uefi

namespace Fiano.Uefi
open Fiano
open EditArith

/-! ### the reader's block-map walk -/

/-- the walk adds a constant to its accumulator -/
theorem blockMap_acc (b : Bytes) : ∀ (fuel off acc t stop : Nat), Valid.blockMap fuel b off acc = some (t, stop) →
    ∃ d, t = acc + d ∧ ∀ acc', Valid.blockMap fuel b off acc' = some (acc' + d, stop) := by
  intro fuel
  induction fuel with
  | zero => intro off acc t stop h; simp [Valid.blockMap] at h
  | succ n ih =>
    intro off acc t stop h
    rw [Valid.blockMap] at h
    split at h
    · cases h
    · rename_i hb
      simp only at h
      split at h
      · rename_i hz
        cases h
        refine ⟨0, rfl, fun acc' => ?_⟩
        rw [Valid.blockMap, if_neg hb]
        simp only
        rw [if_pos hz]; rfl
      · rename_i hz
        split at h
        · cases h
        · rename_i hz2
          obtain ⟨d, hd, hall⟩ := ih _ _ _ _ h
          refine ⟨Valid.fld b off 4 * Valid.fld b (off + 4) 4 + d, by omega, fun acc' => ?_⟩
          rw [Valid.blockMap, if_neg hb]
          simp only
          rw [if_neg hz, if_neg hz2, hall]
          congr 2
          omega

/-- the walk looks only at the bytes from where it starts to where it stops -/
theorem blockMap_agree (b b' : Bytes) : ∀ (fuel off acc t stop : Nat), Valid.blockMap fuel b off acc = some (t, stop) →
    stop ≤ b'.length → (∀ a n, off ≤ a → a + n ≤ stop → Valid.fld b' a n = Valid.fld b a n) →
    Valid.blockMap fuel b' off acc = some (t, stop) := by
  intro fuel
  induction fuel with
  | zero => intro off acc t stop h; simp [Valid.blockMap] at h
  | succ n ih =>
    intro off acc t stop h hs hw
    have hge := blockMap_stop_ge (n + 1) b off acc t stop h
    rw [Valid.blockMap] at h ⊢
    rw [hw off 4 (Nat.le_refl _) (by omega), hw (off + 4) 4 (by omega) (by omega)]
    split at h
    · cases h
    · rw [if_neg (by omega)]
      simp only at h ⊢
      split at h
      · rename_i hz; rw [if_pos hz]; exact h
      · rename_i hz
        rw [if_neg hz]
        split at h
        · cases h
        · rename_i hz2
          rw [if_neg hz2]
          exact ih _ _ _ _ h hs (fun a n ha hn => hw a n (by omega) hn)

end Fiano.Uefi
