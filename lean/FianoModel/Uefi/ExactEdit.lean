/-
  C03: facts about the single operations, on the lemma library of the shared core (C01).  Ported from
  Uefi/FrameLemmas.lean and Uefi/EditLemmas.lean, which sit in the lemma library of C02 (when this was
  written eight lemma names were declared in both libraries, so the two could not be imported into one
  module; the copies live in namespace `Fiano.Uefi.Exact`, so they clash with nothing):
    * `find` at the root counts exactly the matches (`find_tally`, `find_length`);
    * the tree-level frame of the generic rewriting (`TreeFrame`, `rwTree_frame`);
    * what `replace_pe32` touches (`pe32Section_exact`, `genSecHeader_body`);
    * the start offsets the relayout gives the files (`starts`, `remove_pad_offsets`);
    * the pad file of `remove_pad` (`mkPadFile_size`).
-/
import FianoModel.Uefi.ExactLay

namespace Fiano.Uefi.Exact
open Fiano Fiano.Uefi

/-! ### find at the root -/

def cntBiosElems (p : Pred) : List BiosElem → Nat × Nat
  | [] => (0, 0)
  | .pad _ _ :: es => cntBiosElems p es
  | .fv v :: es => ((cntFv p v).1 + (cntBiosElems p es).1, (cntFv p v).2 + (cntBiosElems p es).2)

def cntRegions (p : Pred) : List Region → Nat × Nat
  | [] => (0, 0)
  | .bios b :: rs => ((cntBiosElems p b.elems).1 + (cntRegions p rs).1, (cntBiosElems p b.elems).2 + (cntRegions p rs).2)
  | .me _ _ :: rs => cntRegions p rs
  | .raw _ _ _ :: rs => cntRegions p rs

/-- (volumes that satisfy the predicate, files that are matches) in the whole image -/
def cntTree (p : Pred) : Tree → Nat × Nat
  | .flash f => cntRegions p f.regions
  | .bios b => cntBiosElems p b.elems

theorem findBiosElems_spec (p : Pred) (es : List BiosElem) : tally (findBiosElems p es) = cntBiosElems p es := by
  induction es with
  | nil => rfl
  | cons e rest ih =>
    cases e with
    | pad b o => simpa [findBiosElems, cntBiosElems] using ih
    | fv v => simp [findBiosElems, cntBiosElems, tally_append, findFv_spec, ih]

theorem findRegions_spec (p : Pred) (rs : List Region) : tally (findRegions p rs) = cntRegions p rs := by
  induction rs with
  | nil => rfl
  | cons r rest ih =>
    cases r with
    | bios b => simp [findRegions, cntRegions, tally_append, findBiosElems_spec, ih]
    | me b f => simpa [findRegions, cntRegions] using ih
    | raw b f t => simpa [findRegions, cntRegions] using ih

theorem find_tally (p : Pred) (t : Tree) : tally (find p t) = cntTree p t := by
  cases t with
  | flash f => exact findRegions_spec p f.regions
  | bios b => exact findBiosElems_spec p b.elems

theorem find_length (p : Pred) (t : Tree) : (find p t).length = (cntTree p t).1 + (cntTree p t).2 := by
  rw [tally_length, find_tally]

/-! ### the tree-level frame of the generic rewriting -/

/-- what an edit may do to the element list of a BIOS region: paddings stay, volumes keep header and
    buffer, volumes in which the editor does not fire come back identical -/
def ElemFrame (E : Editor) : BiosElem → BiosElem → Prop
  | .pad b o, e' => e' = .pad b o
  | .fv v, e' => ∃ v', e' = .fv v' ∧ v'.info = v.info ∧ v'.buf = v.buf ∧ (quietFv E v = true → v' = v)

def elemsFrame (E : Editor) : List BiosElem → List BiosElem → Prop
  | [], [] => True
  | e :: es, e' :: es' => ElemFrame E e e' ∧ elemsFrame E es es'
  | _, _ => False

theorem rwBiosElems_frame (E : Editor) (es es' : List BiosElem) (h : rwBiosElems E es = .ok es') :
    elemsFrame E es es' := by
  induction es generalizing es' with
  | nil => simp [rwBiosElems] at h; subst h; trivial
  | cons e rest ih =>
    cases e with
    | pad b o =>
      rw [rwBiosElems] at h
      split at h
      · cases h
      · rename_i rs hrs
        cases h
        exact ⟨rfl, ih rs hrs⟩
    | fv v =>
      rw [rwBiosElems] at h
      split at h
      · cases h
      · rename_i v' hv
        split at h
        · cases h
        · rename_i rs hrs
          cases h
          have hs := rwFv_skel E v v' hv
          refine ⟨⟨v', rfl, hs.1, hs.2, fun hq => ?_⟩, ih rs hrs⟩
          rw [rwFv_quiet E v hq] at hv
          cases hv; rfl

/-- what an edit may do to a BIOS region -/
def BiosFrame (E : Editor) (b b' : BiosRegion) : Prop :=
  b'.length = b.length ∧ b'.buf = b.buf ∧ b'.fr = b.fr ∧ elemsFrame E b.elems b'.elems

theorem rwBios_frame (E : Editor) (b b' : BiosRegion) (h : rwBios E b = .ok b') : BiosFrame E b b' := by
  unfold rwBios at h
  split at h
  · cases h
  · rename_i es hes
    cases h
    exact ⟨rfl, rfl, rfl, rwBiosElems_frame E _ _ hes⟩

/-- what an edit may do to the region list: only BIOS regions change, and only inside -/
def regionsFrame (E : Editor) : List Region → List Region → Prop
  | [], [] => True
  | .bios b :: rs, .bios b' :: rs' => BiosFrame E b b' ∧ regionsFrame E rs rs'
  | .me x y :: rs, r' :: rs' => r' = .me x y ∧ regionsFrame E rs rs'
  | .raw x y z :: rs, r' :: rs' => r' = .raw x y z ∧ regionsFrame E rs rs'
  | _, _ => False

theorem rwRegions_frame (E : Editor) (l l' : List Region) (h : rwRegions E l = .ok l') : regionsFrame E l l' := by
  induction l generalizing l' with
  | nil => simp [rwRegions] at h; subst h; trivial
  | cons r rest ih =>
    cases r with
    | bios b =>
      rw [rwRegions] at h
      split at h
      · cases h
      · rename_i b' hb
        split at h
        · cases h
        · rename_i rs' hrs'
          cases h
          exact ⟨rwBios_frame E b b' hb, ih rs' hrs'⟩
    | me x y =>
      rw [rwRegions] at h
      · split at h
        · cases h
        · rename_i rs' hrs'
          cases h
          exact ⟨rfl, ih rs' hrs'⟩
      · intro b hb; cases hb
    | raw x y z =>
      rw [rwRegions] at h
      · split at h
        · cases h
        · rename_i rs' hrs'
          cases h
          exact ⟨rfl, ih rs' hrs'⟩
      · intro b hb; cases hb

/-- **frame, top level**: an edit leaves the descriptor, the flash size, the root buffer, every
    region that is not the BIOS region, and the BIOS region's length, buffer and position untouched;
    inside the BIOS region the paddings stay and every volume keeps its header fields and buffer -/
def TreeFrame (E : Editor) : Tree → Tree → Prop
  | .flash f, .flash f' => f'.buf = f.buf ∧ f'.flashSize = f.flashSize ∧ f'.ifd = f.ifd ∧
      regionsFrame E f.regions f'.regions
  | .bios b, .bios b' => BiosFrame E b b'
  | _, _ => False

theorem rwTree_frame (E : Editor) (t t' : Tree) (h : rwTree E t = .ok t') : TreeFrame E t t' := by
  cases t with
  | bios b =>
    rw [rwTree] at h
    split at h
    · cases h
    · rename_i b' hb
      cases h
      exact rwBios_frame E b b' hb
  | flash f =>
    rw [rwTree] at h
    split at h
    · cases h
    · rename_i rs hrs
      cases h
      exact ⟨rfl, rfl, rfl, rwRegions_frame E _ _ hrs⟩


/-! ### replace_pe32 -/

theorem pe32Section_exact (body : Bytes) (s s' : Section) (h : pe32Section body s = .ok s') :
    (s.info.type ≠ secTypePE32 → s'.info = s.info ∧ s'.buf = s.buf) ∧
    (s.info.type = secTypePE32 → ∃ i' buf', genSecHeader s.info body = .ok (i', buf') ∧ s' = .mk i' buf' []) := by
  obtain ⟨i, buf, encap⟩ := s
  rw [pe32Section] at h
  simp only [Section.info, Section.buf]
  split at h
  · rename_i ht
    refine ⟨fun c => absurd ht c, fun _ => ?_⟩
    split at h
    · cases h
    · rename_i i' buf' hg
      cases h
      exact ⟨i', buf', hg, rfl⟩
  · rename_i ht
    refine ⟨fun _ => ?_, fun c => absurd c ht⟩
    split at h
    · cases h
    · cases h; exact ⟨rfl, rfl⟩

/-- the regenerated section is its header (4 or 8 bytes) followed by exactly the new body -/
theorem genSecHeader_body (i i' : SecInfo) (body buf' : Bytes) (ht : i.type ≠ 0x02)
    (h : genSecHeader i body = .ok (i', buf')) :
    ∃ hdr, buf' = hdr ++ body ∧ (hdr.length = 4 ∨ hdr.length = 8) ∧ i'.type = i.type := by
  unfold genSecHeader at h
  simp only [ht, if_false] at h
  cases h
  have key : ∀ (c : Prop) [Decidable c] (A B : Bytes), A.length = 8 → B.length = 4 →
      ((if c then A else B).length = 4 ∨ (if c then A else B).length = 8) := by
    intro c _ A B hA hB
    split
    · exact Or.inr hA
    · exact Or.inl hB
  exact ⟨_, rfl, key _ _ _ (by simp) (by simp), rfl⟩

/-! ### remove_pad keeps offsets -/

/-- the start offsets of the files as the relayout places them -/
def starts : List (Nat × Bytes) → Nat → List Nat
  | [], _ => []
  | (attrs, fb) :: rest, off => fileStart off attrs :: starts rest (fileStart off attrs + fb.length)

theorem starts_append (pre post : List (Nat × Bytes)) (off : Nat) :
    starts (pre ++ post) off = starts pre off ++ starts post (layEndM pre off) := by
  induction pre generalizing off with
  | nil => rfl
  | cons x rest ih =>
    obtain ⟨a, fb⟩ := x
    simp only [List.cons_append, starts, layEndM, ih, List.cons_append]

theorem remove_pad_offsets (pre post : List (Nat × Bytes)) (x x' : Nat × Bytes) (off : Nat)
    (hsize : x'.2.length = x.2.length) (hal : alignmentOf x'.1 = 1)
    (hsat : fileStart (layEndM pre off) x.1 = Spec.alignUp (layEndM pre off) 8) :
    starts (pre ++ x' :: post) off = starts (pre ++ x :: post) off := by
  rw [starts_append, starts_append]
  obtain ⟨a, fb⟩ := x
  obtain ⟨a', fb'⟩ := x'
  simp only at hsize hal hsat
  have h' : fileStart (layEndM pre off) a' = Spec.alignUp (layEndM pre off) 8 := by
    unfold fileStart; simp only; rw [if_pos hal]
  simp only [starts, h', hsat, hsize]

/-- the pad file `remove_pad` creates (either erase polarity) has the requested size and no data
    alignment -/
theorem mkPadFile_size (pol : UInt8) (size : Nat) (h24 : 24 ≤ size) (hp : pol = 0xFF ∨ pol = 0) :
    ∃ f, mkPadFile pol size = .ok f ∧ f.buf.length = size ∧ alignmentOf f.info.attrs = 1 ∧ f.secs = [] ∧
      f.info.type = 0xF0 := by
  unfold mkPadFile
  rw [if_neg (by omega), if_neg (by rcases hp with h | h <;> simp [h])]
  have hg : (if pol = 0xFF then guidFF else guidZero).length = 16 := by split <;> rfl
  by_cases hb : size ≥ 0xFFFFFF
  · have hs : setSize 0 size false = (1, 0xFFFFFF, size) := by unfold setSize write3; simp [hb]
    simp only [hs]
    refine ⟨_, rfl, ?_, by simp [File.info, checksumAndAssemble]; decide, rfl, by simp [File.info, checksumAndAssemble]⟩
    simp only [File.buf, checksumAndAssemble, encodeFileHeader, List.length_append, hg, List.length_cons,
      List.length_nil, leN_length, List.length_replicate]
    simp
    omega
  · have hs : setSize 0 size false = (0, size, size) := by unfold setSize write3; simp [hb]
    simp only [hs]
    refine ⟨_, rfl, ?_, by simp [File.info, checksumAndAssemble]; decide, rfl, by simp [File.info, checksumAndAssemble]⟩
    simp only [File.buf, checksumAndAssemble, encodeFileHeader, List.length_append, hg, List.length_cons,
      List.length_nil, leN_length, List.length_replicate]
    simp
    omega

end Fiano.Uefi.Exact
