/-
  C03 follow-up (wp-c03b), layer 8: end-to-end corollaries at the volume — what a reader of the
  *saved* volume finds after Insert / Remove / remove_pad / ReplacePE32.

  `Settled f`: assembling the file does not change its abstract view (its buffer is up to date).
  Every file of a parsed tree is settled, and so is every file without sections (pad files).
-/
import FianoModel.Uefi.ExactEdit
import FianoModel.Uefi.Lemmas.Frame

namespace Fiano.Uefi.Exact
open Fiano Fiano.Uefi Fiano.Uefi.Spec

/-- assembling the file (erase polarity 1, no pending FFSv3 switch) leaves its GUID, type, attribute
    byte and body as they are -/
def Settled (f : File) : Prop :=
  ∀ (st : St) (f' : File) (st' : St), st.pol = 0xFF → st.ffs3 = false → asmFile Hooks.none f st = .ok (f', st') →
    absFile f' = absFile f ∧ f'.isPad = f.isPad

theorem settled_leaf (i : FileInfo) (buf : Bytes) (hn : i.nvar = none) : Settled (.mk i buf []) := by
  intro st f' st' _ _ h
  rw [asmFile_leaf Hooks.none i buf st hn] at h
  cases h
  exact ⟨rfl, rfl⟩

theorem asmFile_keeps (i : FileInfo) (buf : Bytes) (secs : List Section) (st : St) (f' : File) (st' : St)
    (hn : i.nvar = none) (h : asmFile Hooks.none (.mk i buf secs) st = .ok (f', st')) :
    f'.info.guid = i.guid ∧ f'.info.type = i.type ∧ f'.info.dataOffset = i.dataOffset := by
  rw [asmFile] at h
  simp only [hn] at h
  split at h
  · cases h
  split at h
  · cases h; exact ⟨rfl, rfl, rfl⟩
  · cases h
    simp only [File.info]
    have := casm_info
    exact ⟨(casm_info _ _).1, (casm_info _ _).2.1, (casm_info _ _).2.2.2.2.1⟩

theorem anyBigFiles_tidy (f : FileI) (ht : tidyFile f = true) : anyBigFiles [f] = false := by
  cases f with
  | leaf => rfl
  | sect g t a st secs =>
    simp only [tidyFile, Bool.and_eq_true, decide_eq_true_eq] at ht
    simp only [anyBigFiles, Bool.or_false, Bool.or_eq_false_iff, decide_eq_false_iff_not]
    refine ⟨by omega, ?_⟩
    cases hb : anyBigSecs secs with
    | false => rfl
    | true => have := anyBigSecs_size secs 0 hb; omega

/-- every file of a parsed, tidy tree is settled (C01: `asm_file` reproduces its bytes) -/
theorem settled_treeFile (fi : FileI) (hw : wfFile fi = true) (ht : tidyFile fi = true) : Settled (treeFile fi) := by
  intro st f' st' hp hf h
  have hbig := anyBigFiles_tidy fi ht
  obtain ⟨f2, st2, h2, hb2, ha2, _, _⟩ := asm_file fi hw st hp (by
    intro hc
    rcases hc with hc | hc
    · rw [hf] at hc; cases hc
    · rw [hbig] at hc; cases hc)
  rw [h] at h2
  cases h2
  have hnv : (treeFile fi).info.nvar = none := by cases fi <;> rfl
  have hattrs : f'.info.attrs = (treeFile fi).info.attrs := by
    rw [ha2]
    cases fi <;> simp [storedAttrs, treeFile, File.info]
  have hbuf : f'.buf = (treeFile fi).buf := by
    rw [hb2]
    cases fi <;> simp [treeFile, File.buf]
  cases htf : treeFile fi with
  | mk ti tb ts =>
    rw [htf] at h hattrs hbuf hnv
    obtain ⟨gi, gb, gs⟩ := f'
    simp only [File.info, File.buf] at hattrs hbuf hnv
    have hk := asmFile_keeps ti tb ts st (.mk gi gb gs) st' hnv h
    simp only [File.info] at hk
    constructor
    · simp only [absFile, File.info, File.buf]
      rw [hk.1, hk.2.1, hk.2.2, hattrs, hbuf]
    · simp only [File.isPad, File.info]
      rw [hk.2.1]

/-- assembling a list of settled files keeps the abstract list -/
theorem asmFiles_abs_settled : ∀ (fs : List File), CanonFiles fs → (∀ f ∈ fs, Settled f) → ∀ (st : St) (fs' : List File)
    (st' : St), st.pol = 0xFF → st.ffs3 = false → asmFiles Hooks.none fs st = .ok (fs', st') → GoodFiles fs' →
    absFiles fs' = absFiles fs
  | [], _, _, st, fs', st', _, _, h, _ => by
    simp only [asmFiles, Except.ok.injEq, Prod.mk.injEq] at h
    rw [← h.1]
  | f :: fs, hc, hs, st, fs', st', hp, hf, h, hg => by
    rw [asmFiles] at h
    split at h
    · cases h
    rename_i f1 st1 h1
    split at h
    · cases h
    rename_i fs1 st2 h2
    cases h
    obtain ⟨e1, _⟩ := asm_canon_file f hc.1 st f1 st1 hp hf h1 hg.1
    subst e1
    have hs1 := hs f List.mem_cons_self st1 f1 st1 hp hf h1
    have ih := asmFiles_abs_settled fs hc.2 (fun g hg' => hs g (List.mem_cons_of_mem _ hg')) st1 fs1 st' hp hf h2 hg.2
    rw [absFiles_cons, absFiles_cons, ih, hs1.1, hs1.2]

/-- **what a reader of the written volume finds**: fiano's reader takes the bytes of the written
    volume (whatever follows them) back into a volume node whose abstract file list is that of the
    written node -/
theorem saved_volume_reparsed (v v' : Fv) (st st' : St) (hc : CanonFv v) (hp : st.pol = 0xFF) (hf : st.ffs3 = false)
    (h : asmFv Hooks.none v st = .ok (v', st')) (hg : GoodFv v') :
    ∃ vi, wfFv vi = true ∧ v'.buf = serFv vi ∧
      (∀ (rest : Bytes) (off : Nat) (rz : Bool) (fuel : Nat) (st0 : St), v'.buf.length ≤ fuel →
        (st0.pol = 0xFF ∨ st0.pol = 0xF0) →
        parseFv Hooks.none fuel (v'.buf ++ rest) off rz st0 = .ok (treeFv vi off rz, { st0 with pol := 0xFF })) ∧
      ∀ off rz, absFiles (treeFv vi off rz).files = absFiles v'.files := by
  obtain ⟨_, _, _, _, _, _, vi, hw, hb, hav⟩ := asm_canon_fv v hc st v' st' hp hf h hg
  refine ⟨vi, hw, hb, ?_, ?_⟩
  · intro rest off rz fuel st0 hfuel hp0
    rw [hb]
    apply parse_fv vi hw fuel rest off rz st0 _ hp0
    have := cost_fv vi
    rw [hb, length_serFv vi hw] at hfuel
    omega
  · intro off rz
    have := hav off rz
    obtain ⟨v'i, v'b, v'f⟩ := v'
    cases htv : treeFv vi off rz with
    | mk ti tb tf =>
      rw [htv] at this
      simp only [avFv, List.cons.injEq] at this
      simp only [Fv.files]
      exact this.1

/-- the files of the written volume, when every file of the edited list is settled -/
theorem saved_volume_files (i : FvInfo) (buf : Bytes) (files : List File) (v' : Fv) (st st' : St)
    (hc : CanonFv (.mk i buf files)) (hs : ∀ f ∈ files, Settled f) (hp : st.pol = 0xFF) (hf : st.ffs3 = false)
    (h : asmFv Hooks.none (.mk i buf files) st = .ok (v', st')) (hg : GoodFv v') :
    absFiles v'.files = absFiles files := by
  obtain ⟨st0, files', st1, hs0, hfs, hvf⟩ := asmFv_shape i buf files st v' st' h
  have hpol := canonFv_pol _ hc
  simp only [Fv.info] at hpol
  rw [setPolarity_keep i.attrs st hpol hp] at hs0
  cases hs0
  obtain ⟨v'i, v'b, v'f⟩ := v'
  simp only [Fv.files] at hvf ⊢
  subst hvf
  exact asmFiles_abs_settled files (canonFv_files _ hc) hs st v'f st1 hp hf hfs hg.2.2

/-! ### Insert -/

/-- the abstract file list after the insertion (AbsLemmas.insert_abs) -/
def insertSpec (w : Where) (nf : File) (files : List File) (k : Nat) : List AbsFile :=
  match w with
  | .front => absFiles [nf] ++ absFiles files
  | .end_ => absFiles files ++ absFiles [nf]
  | .dxe => absFiles files ++ absFiles [nf]
  | .after => absFiles (files.take (k + 1)) ++ absFiles [nf] ++ absFiles (files.drop (k + 1))
  | .before => absFiles (files.take k) ++ absFiles [nf] ++ absFiles (files.drop k)
  | .replace => absFiles (files.take k) ++ absFiles [nf] ++ absFiles (files.drop (k + 1))

/-- **Insert, end to end**: the volume written after inserting `nf` at the matched position `k`
    re-parses to the old abstract file list with the new file at the stated place (and without the
    matched file for replace_ffs); pad files are transparent -/
theorem insert_saved (w : Where) (nf : File) (i : FvInfo) (buf : Bytes) (files : List File) (k : Nat) (v' : Fv)
    (st st' : St) (hk : k < files.length) (hc : CanonFv (.mk i buf files)) (hne : files ≠ [])
    (hs : ∀ f ∈ files, Settled f) (hnc : CanonFile nf) (hns : Settled nf)
    (hp : st.pol = 0xFF) (hf : st.ffs3 = false)
    (h : asmFv Hooks.none (.mk i buf (insertAt w nf files k)) st = .ok (v', st')) (hg : GoodFv v') :
    ∃ vi, wfFv vi = true ∧ v'.buf = serFv vi ∧
      (∀ (rest : Bytes) (off : Nat) (rz : Bool) (fuel : Nat) (st0 : St), v'.buf.length ≤ fuel →
        (st0.pol = 0xFF ∨ st0.pol = 0xF0) →
        parseFv Hooks.none fuel (v'.buf ++ rest) off rz st0 = .ok (treeFv vi off rz, { st0 with pol := 0xFF })) ∧
      ∀ off rz, absFiles (treeFv vi off rz).files = insertSpec w nf files k := by
  have hci := canonFiles_insertAt w nf files k (canonFv_files _ hc) hnc
  have hc1 : CanonFv (.mk i buf (insertAt w nf files k)) := by
    unfold CanonFv at hc ⊢
    rcases hc with ⟨hfl, _⟩ | ⟨_, hsk, _⟩
    · exact absurd hfl hne
    · exact Or.inr ⟨hci.2, hsk, hci.1⟩
  have hs1 : ∀ f ∈ insertAt w nf files k, Settled f := by
    intro f hf'
    have hmem : f = nf ∨ f ∈ files := by
      cases w <;>
        simp only [insertAt, List.mem_cons, List.mem_append, List.mem_singleton, List.not_mem_nil, or_false] at hf'
      · exact hf'
      · exact hf'.symm
      · rcases hf' with h1 | h1 | h1
        · exact Or.inr (List.mem_of_mem_take h1)
        · exact Or.inl h1
        · exact Or.inr (List.mem_of_mem_drop h1)
      · rcases hf' with h1 | h1 | h1
        · exact Or.inr (List.mem_of_mem_take h1)
        · exact Or.inl h1
        · exact Or.inr (List.mem_of_mem_drop h1)
      · rcases hf' with h1 | h1 | h1
        · exact Or.inr (List.mem_of_mem_take h1)
        · exact Or.inl h1
        · exact Or.inr (List.mem_of_mem_drop h1)
      · exact hf'.symm
    rcases hmem with rfl | hm
    · exact hns
    · exact hs f hm
  obtain ⟨vi, hw, hb, hparse, habs⟩ := saved_volume_reparsed _ v' st st' hc1 hp hf h hg
  refine ⟨vi, hw, hb, hparse, ?_⟩
  intro off rz
  rw [habs off rz, saved_volume_files i buf _ v' st st' hc1 hs1 hp hf h hg]
  exact insert_abs w nf files k hk

/-! ### Remove / remove_pad -/

/-- **Remove, end to end**: the volume written after `remove` / `remove_pad` re-parses to the old
    abstract file list minus exactly the matched files, when the files that stay are settled
    (nothing below them was edited) and the list is not emptied -/
theorem remove_saved (p : Pred) (pad : Bool) (i : FvInfo) (buf : Bytes) (files files1 : List File) (v' : Fv)
    (st st' : St) (hc : CanonFv (.mk i buf files)) (hne : files1 ≠ [])
    (hrw : rwFiles (removeEditor p pad 0xFF) files = .ok files1) (hk : keepFiles (removeEditor p pad 0xFF) files)
    (hs1 : ∀ f ∈ files1, Settled f) (hp : st.pol = 0xFF) (hf : st.ffs3 = false)
    (h : asmFv Hooks.none (.mk i buf files1) st = .ok (v', st')) (hg : GoodFv v') :
    ∃ vi, wfFv vi = true ∧ v'.buf = serFv vi ∧
      (∀ (rest : Bytes) (off : Nat) (rz : Bool) (fuel : Nat) (st0 : St), v'.buf.length ≤ fuel →
        (st0.pol = 0xFF ∨ st0.pol = 0xF0) →
        parseFv Hooks.none fuel (v'.buf ++ rest) off rz st0 = .ok (treeFv vi off rz, { st0 with pol := 0xFF })) ∧
      ∀ off rz, absFiles (treeFv vi off rz).files = absFiles (files.filter (fun f => !fileHit p f)) := by
  have hcf1 := rwFiles_canon _ (removeEditor_ok p pad) files (canonFv_files _ hc) hk files1 hrw
  have hc1 : CanonFv (.mk i buf files1) := by
    unfold CanonFv at hc ⊢
    rcases hc with ⟨hfl, _⟩ | ⟨_, hsk, _⟩
    · subst hfl
      simp only [rwFiles, Except.ok.injEq] at hrw
      exact absurd hrw.symm hne
    · exact Or.inr ⟨hne, hsk, hcf1⟩
  obtain ⟨vi, hw, hb, hparse, habs⟩ := saved_volume_reparsed _ v' st st' hc1 hp hf h hg
  refine ⟨vi, hw, hb, hparse, ?_⟩
  intro off rz
  rw [habs off rz, saved_volume_files i buf _ v' st st' hc1 hs1 hp hf h hg]
  exact remove_abs p pad 0xFF files files1 hrw

/-! ### remove_pad at byte level -/

abbrev placedM (files : List File) : List (Nat × Bytes) := files.map (fun f => (f.info.attrs, f.buf))

theorem getElem?_mid (A L1 L2 T : Bytes) (j : Nat) (hl : L2.length = L1.length)
    (h : A.length ≤ j → j - A.length < L1.length → L2[j - A.length]? = L1[j - A.length]?) :
    (A ++ L2 ++ T)[j]? = (A ++ L1 ++ T)[j]? := by
  simp only [List.append_assoc, List.getElem?_append, hl]
  split
  · rfl
  · split
    · rename_i h1 h2
      exact h (by omega) h2
    · rfl

/-- **remove_pad, end to end**: in a top-level volume (erase polarity 1), replacing one assembled file
    that sat on its 8-byte boundary by a same-size file without data alignment (the pad file) gives a
    volume of the same length in which every byte from offset 60 on, outside the replaced file's own
    range `[a, a + size)`, is unchanged: every other file keeps its offset and its bytes -/
theorem remove_pad_bytes (i : FvInfo) (buf : Bytes) (pre post : List File) (x px : File) (st : St)
    (i1 i2 : FvInfo) (out1 out2 : Bytes) (s1 s2 : St)
    (h1 : relayoutFv i buf (pre ++ x :: post) st = .ok (i1, out1, s1))
    (h2 : relayoutFv i buf (pre ++ px :: post) st = .ok (i2, out2, s2))
    (hp : st.pol = 0xFF) (hnr : i.resizable = false)
    (hb1 : layEndM (placedM (pre ++ x :: post)) i.dataOffset < 2 ^ 62)
    (hsize : px.buf.length = x.buf.length) (hal : alignmentOf px.info.attrs = 1)
    (hsat : fileStart (layEndM (placedM pre) i.dataOffset) x.info.attrs =
      alignUp (layEndM (placedM pre) i.dataOffset) 8) :
    ∀ j, 60 ≤ j →
      (j < alignUp (layEndM (placedM pre) i.dataOffset) 8 ∨
        alignUp (layEndM (placedM pre) i.dataOffset) 8 + x.buf.length ≤ j) →
      out2[j]? = out1[j]? := by
  have e1 : placedM (pre ++ x :: post) = placedM pre ++ (x.info.attrs, x.buf) :: placedM post := by
    simp [placedM]
  have e2 : placedM (pre ++ px :: post) = placedM pre ++ (px.info.attrs, px.buf) :: placedM post := by
    simp [placedM]
  -- both layouts end at the same offset
  have hfs' : fileStart (layEndM (placedM pre) i.dataOffset) px.info.attrs =
      alignUp (layEndM (placedM pre) i.dataOffset) 8 := by
    unfold fileStart; simp only [hal, if_true]
  have hend : layEndM (placedM (pre ++ px :: post)) i.dataOffset = layEndM (placedM (pre ++ x :: post)) i.dataOffset := by
    rw [e1, e2, (lay_append _ _ _).2, (lay_append _ _ _).2]
    simp only [layEndM, hfs', hsat, hsize]
  have hb2 : layEndM (placedM (pre ++ px :: post)) i.dataOffset < 2 ^ 62 := by rw [hend]; exact hb1
  obtain ⟨hfit1, hby1⟩ := relayout_bytes i buf _ st i1 out1 s1 h1 hp hnr hb1
  obtain ⟨hfit2, hby2⟩ := relayout_bytes i buf _ st i2 out2 s2 h2 hp hnr hb2
  have hlr := lay_remove_pad (placedM pre) (placedM post) (x.info.attrs, x.buf) (px.info.attrs, px.buf) i.dataOffset
    hsize hal hsat
  -- the kept header part
  have hdo : i.dataOffset ≤ buf.length := by
    unfold relayoutFv at h1
    split at h1
    · cases h1
    split at h1
    · cases h1
    split at h1
    · cases h1
    · rename_i hc; omega
  have htl : (buf.take i.dataOffset).length = i.dataOffset := by simp only [List.length_take]; omega
  -- offsets inside the file area
  have hpl : i.dataOffset + (lay (placedM pre) i.dataOffset).length = layEndM (placedM pre) i.dataOffset := by
    have hne := fun z (hz : z ∈ placedM pre) => (by
      have hall := placeFiles_nonempty 0xFF (placedM (pre ++ x :: post)) (buf.take i.dataOffset) i.dataOffset
      unfold relayoutFv at h1
      split at h1
      · cases h1
      split at h1
      · cases h1
      split at h1
      · cases h1
      split at h1
      · cases h1
      rename_i fb hplc
      rw [hp] at hplc
      exact hall fb hplc z (by rw [e1]; exact List.mem_append_left _ hz) : z.2.length ≠ 0)
    have hmono : layEndM (placedM pre) i.dataOffset ≤ layEndM (placedM (pre ++ x :: post)) i.dataOffset := by
      rw [e1, (lay_append _ _ _).2]; exact le_layEndM _ _
    exact (placeFiles_lay (placedM pre) (buf.take i.dataOffset) i.dataOffset hne htl (by omega)).2
  intro j hj hout
  have hby1' : out1[j]? = (buf.take i.dataOffset ++ lay (placedM (pre ++ x :: post)) i.dataOffset ++
      ffs (i.length - layEndM (placedM (pre ++ x :: post)) i.dataOffset))[j]? := hby1 j hj
  have hby2' : out2[j]? = (buf.take i.dataOffset ++ lay (placedM (pre ++ px :: post)) i.dataOffset ++
      ffs (i.length - layEndM (placedM (pre ++ px :: post)) i.dataOffset))[j]? := hby2 j hj
  rw [hby2', hby1', hend, e1, e2]
  have hau := alignUp8 (layEndM (placedM pre) i.dataOffset)
  apply getElem?_mid _ _ _ _ j hlr.1
  intro h1' _
  rw [htl] at h1' ⊢
  apply hlr.2
  simp only
  rcases hout with ho | ho
  · left; omega
  · right; omega

/-! ### ReplacePE32 -/

/-- **replace_pe32, end to end** (sections of the matched file, after `save`): position by position,
    a section that is not a PE32 section is written exactly as it would have been without the edit;
    a PE32 section is written as a 4- or 8-byte header followed by exactly the new body -/
theorem pe32_saved_sections (body : Bytes) (hb : body.length + 8 < 0xFFFFFFFF) : ∀ (ss ss1 ss' ss1' : List Section)
    (st st' st1' : St), CanonSecs ss → pe32Sections body ss = .ok ss1 → st.pol = 0xFF → st.ffs3 = false →
    asmSections Hooks.none ss st = .ok (ss', st') → asmSections Hooks.none ss1 st = .ok (ss1', st1') →
    GoodSecs ss' → GoodSecs ss1' →
    ∀ (k : Nat) (s : Section), ss[k]? = some s → ∃ s' s1', ss'[k]? = some s' ∧ ss1'[k]? = some s1' ∧
      (s.info.type ≠ secTypePE32 → s1' = s') ∧
      (s.info.type = secTypePE32 → ∃ hdr, s1'.buf = hdr ++ body ∧ (hdr.length = 4 ∨ hdr.length = 8) ∧ s1'.encap = [])
  | [], _, _, _, _, _, _, _, _, _, _, _, _, _, _, k, s, hk => by simp at hk
  | s0 :: ss, ss1, ss', ss1', st, st', st1', hc, hpe, hp, hf, ha, ha1, hg, hg1, k, s, hk => by
    rw [pe32Sections] at hpe
    split at hpe
    · cases hpe
    rename_i t0 ht0
    split at hpe
    · cases hpe
    rename_i ts hts
    cases hpe
    rw [asmSections] at ha ha1
    split at ha
    · cases ha
    rename_i a0 sa0 hA0
    split at ha
    · cases ha
    rename_i as sas hAs
    cases ha
    split at ha1
    · cases ha1
    rename_i b0 sb0 hB0
    split at ha1
    · cases ha1
    rename_i bs sbs hBs
    cases ha1
    have hct0 := pe32Section_canon body hb s0 t0 hc.1 ht0
    obtain ⟨e1, _⟩ := asm_canon_sec s0 hc.1 st a0 sa0 hp hf hA0 hg.1
    obtain ⟨e2, _⟩ := asm_canon_sec t0 hct0 st b0 sb0 hp hf hB0 hg1.1
    subst e1 e2
    cases k with
    | succ k' =>
      simp only [List.getElem?_cons_succ] at hk ⊢
      exact pe32_saved_sections body hb ss ts as bs _ st' st1' hc.2 hts hp hf hAs hBs hg.2 hg1.2 k' s hk
    | zero =>
      simp only [List.getElem?_cons_zero, Option.some.injEq] at hk ⊢
      subst hk
      refine ⟨a0, b0, rfl, rfl, ?_, ?_⟩
      · intro hne
        -- not a PE32 section: ReplacePE32 returns it unchanged
        obtain ⟨i, buf, encap⟩ := s0
        have ht : t0 = .mk i buf encap := by
          rw [pe32Section] at ht0
          simp only [Section.info] at hne
          rw [if_neg hne] at ht0
          have hcs := hc.1
          unfold CanonSec at hcs
          rcases hcs with ⟨he, _⟩ | ⟨_, _, hen⟩
          · subst he
            simp only [pe32Nodes] at ht0
            cases ht0; rfl
          · match encap, hen with
            | .fv v :: [], _ =>
              simp only [pe32Nodes] at ht0
              cases ht0; rfl
        subst ht
        rw [hA0] at hB0
        cases hB0
        rfl
      · intro heq
        obtain ⟨i, buf, encap⟩ := s0
        simp only [Section.info] at heq
        have hx := (pe32Section_exact body (.mk i buf encap) t0 ht0).2 heq
        obtain ⟨i', buf', hgen, rfl⟩ := hx
        obtain ⟨hdr, hbuf, hlen, htype⟩ := genSecHeader_body i i' body buf' (by rw [heq]; decide) hgen
        -- the regenerated PE32 section is a leaf that Assemble emits verbatim
        rw [asmSection_nil, regenLeaf_none i' (by rw [htype, heq]; decide) (by rw [htype, heq]; decide)
          (by rw [htype, heq]; decide)] at hB0
        cases hB0
        exact ⟨hdr, hbuf, hlen, rfl⟩

end Fiano.Uefi.Exact
