/-
  UEFI core model — saving is a fixed point in memory: the DEFINITIONS of the side condition
  (follow-up wp-c07b), in a module of their own so that the driver (op `hyp`) can evaluate them without
  importing a lemma library.

  `fxX x1` / `savedOkAll h t st`: in the tree the first `Assemble` pass wrote, every volume with files,
  at any depth, has a buffer no longer than its `Length`, `DataOffset ≥ 60`, file attribute bytes below
  256 and re-laid files ending below 2^62 (`twLayEnd`, a copy of the closed form `layEnd` of the C02
  library — Uefi/ExtractTwiceFv.lean `twLayEnd_eq`); in a flash image no region has an empty span.

  Core Lean only.
-/
import FianoModel.Uefi.Extract

namespace Fiano.Uefi
open Fiano

/-! ### the end of the re-laid files in closed form (copies of `roundUp`, `placeAt`, `hdrLen`, `fileStart`,
    `layEnd` of Uefi/PlaceLemmas.lean / LayoutLemmas.lean) -/

def twRoundUp (x a : Nat) : Nat := (x + a - 1) / a * a

def twPlaceAt (al hl a : Nat) : Nat :=
  let d := twRoundUp (al + hl) a
  let gap := d - hl - al
  if 8 ≤ gap ∧ gap < 24 then twRoundUp (d + 1) a - hl else d - hl

def twHdrLen (attrs : Nat) : Nat := if attrs % 2 = 1 then 32 else 24

def twFileStart (off attrs : Nat) : Nat :=
  let al := twRoundUp off 8
  if alignmentOf attrs = 1 then al else twPlaceAt al (twHdrLen attrs) (alignmentOf attrs)

def twLayEnd : List (Nat × Bytes) → Nat → Nat
  | [], off => off
  | (attrs, fb) :: rest, off => twLayEnd rest (twFileStart off attrs + fb.length)

/-! ### the side condition -/

mutual
def fxSection : Section → Bool
  | .mk _ _ e => fxNodes e
def fxNodes : List Node → Bool
  | [] => true
  | .sec s :: ns => fxSection s && fxNodes ns
  | .fv v :: ns => fxFv v && fxNodes ns
def fxSections : List Section → Bool
  | [] => true
  | s :: ss => fxSection s && fxSections ss
def fxFile : File → Bool
  | .mk _ _ s => fxSections s
def fxFiles : List File → Bool
  | [] => true
  | f :: fs => fxFile f && fxFiles fs
def fxFv : Fv → Bool
  | .mk i b fs =>
    fxFiles fs &&
      (fs.isEmpty ||
        (decide (b.length ≤ i.length) && decide (60 ≤ i.dataOffset) &&
          fs.all (fun f => decide (f.info.attrs < 256)) &&
          decide (twLayEnd (fs.map (fun f => (f.info.attrs, f.buf))) i.dataOffset < 2 ^ 62)))
end

def fxBiosElems : List BiosElem → Bool
  | [] => true
  | .pad _ _ :: es => fxBiosElems es
  | .fv v :: es => fxFv v && fxBiosElems es

/-- the side condition on the tree the first pass wrote (see `fxFv`) -/
def fxRegions : List Region → Bool
  | [] => true
  | .bios b :: rs => fxBiosElems b.elems && fxRegions rs
  | _ :: rs => fxRegions rs

def fxTree : Tree → Bool
  | .flash f => fxRegions f.regions
  | .bios b => fxBiosElems b.elems

/-- **the side condition of the fixed-point theorems**: in the tree the first `Assemble` pass over `t`
    leaves behind, every volume with files (at any depth) has a buffer no longer than its `Length`
    (fails only if `uefi.Align` wraps around 2^64 while a nested volume grows), `DataOffset ≥ 60`
    (the header patches lie in the header), file attribute bytes below 256 and re-laid files ending
    below 2^62.  Vacuously true when the first pass fails. -/
def savedOk (h : Hooks) (t : Tree) (st : St) : Bool :=
  match asmTreeWith h t { st with ffs3 := false } with
  | .ok (t1, _) => fxTree t1
  | .error _ => true

/-- a region with a non-empty span -/
def frOk (r : Region) : Bool :=
  match r.fr with
  | some fr => decide (fr.base ≤ fr.limit)
  | none => false

/-- the side condition on a written flash image: `fxRegions` and no region with an empty span -/
def fxFlash (f : Flash) : Bool := fxRegions f.regions && f.regions.all frOk

/-- the side condition on the written tree, flash images included (replaces `fxTree`) -/
def fxTreeAll : Tree → Bool
  | .flash f => fxFlash f
  | .bios b => fxBiosElems b.elems

/-- **the side condition of the fixed-point theorems** (see `savedOk`; for a flash image additionally:
    no region of the written tree has an empty span, Base ≤ Limit) -/
def savedOkAll (h : Hooks) (t : Tree) (st : St) : Bool :=
  match asmTreeWith h t { st with ffs3 := false } with
  | .ok (t1, _) => fxTreeAll t1
  | .error _ => true

end Fiano.Uefi
