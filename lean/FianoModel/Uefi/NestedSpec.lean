/-
  Property C06 — the reference grammar extended with compressed sections.

  The codec-free reference grammar of C01 (`Spec.SecI / FileI / FvI`, FianoModel/Uefi/Spec.lean) is
  extended by GUID-defined sections that the tool decodes:

    CSec  = plain s       any section of the codec-free grammar that holds no volume
          | opaque …      a GUID-defined section with the processing-required bit and a codec GUID that
                          stays opaque where it stands: the decoder refuses what it is handed
                          ("UNKNOWN" — e.g. a ZLIB section followed by other bytes, a corrupted
                          stream), or decodes it to nothing (no children: kept verbatim as well)
          | comp …        a decoded section: stored payload bytes + the sections it decodes to
          | fvimg v       a volume image (nested volume)
    CFile = leaf f        a verbatim file of the codec-free grammar | sect …  a sectioned file
    CFv   = ffs …         an FFS volume | other v  a volume of another file system

  Serialisation and sizes are those of C01 on the *flattened* image (`flat*`: a compressed section
  is written exactly like an opaque GUID-defined section around its stored payload), so every
  definition of Spec.lean is reused.  `tree*` is the tree a faithful parser reports (children of
  decoded sections included).  `wf*` adds to C01's conditions what decoding needs: the stored payload,
  *together with whatever follows the section inside its file or enclosing payload* (the decoder is
  handed `buf[DataOffset:]`), decodes to the serialised children.

  This grammar is restricted to what the tool rebuilds with short headers: every section and file is
  below 16 MiB (`small`), so that `useFFS3` never fires; erase polarity 1 as in C01.
  Core Lean only.
-/
import FianoModel.Uefi.Lemmas.Size

namespace Fiano.Uefi.Nested
open Fiano Fiano.Uefi Fiano.Uefi.Spec

mutual
  inductive CSec where
    | plain (s : SecI)
    | opq (ext : Bool) (g : Guid) (doff attrs : Nat) (comp : String) (body : Bytes)
    | comp (ext : Bool) (g : Guid) (doff attrs : Nat) (name : String) (payload : Bytes) (kids : List CSec)
    | fvimg (v : CFv)
  inductive CFile where
    | leaf (f : FileI)
    | sect (guid : Guid) (type attrs state : Nat) (secs : List CSec)
  inductive CFv where
    | ffs (zv : Bytes) (v3 : Bool) (attrs rev rsv : Nat) (blocks : List Block) (ext : Option ExtI)
          (files : List CFile) (free : Nat)
    | other (v : FvI)
end

/-! ### flattening: what is written -/

mutual
  def flatSec : CSec → SecI
    | .plain s => s
    | .opq ext g doff attrs _ body => .guided ext g doff attrs body
    | .comp ext g doff attrs _ payload _ => .guided ext g doff attrs payload
    | .fvimg v => .fvimg (flatFv v)
  def flatSecs : List CSec → List SecI
    | [] => []
    | s :: ss => flatSec s :: flatSecs ss
  def flatFile : CFile → FileI
    | .leaf f => f
    | .sect g t a st secs => .sect g t a st (flatSecs secs)
  def flatFiles : List CFile → List FileI
    | [] => []
    | f :: fs => flatFile f :: flatFiles fs
  def flatFv : CFv → FvI
    | .ffs zv v3 attrs rev rsv blocks ext files free => .ffs zv v3 attrs rev rsv blocks ext (flatFiles files) free
    | .other v => v
end

/-- the bytes of a volume -/
def ser (v : CFv) : Bytes := serFv (flatFv v)

/-! ### the tree a faithful parser reports -/

def guidedInfo (ext : Bool) (g : Guid) (doff attrs : Nat) (comp : String) (n ord : Nat) : SecInfo :=
  { secInfoOf 0x02 ext (secHdrLen ext + 20 + n) ord with ts := some ⟨g, doff, attrs, comp⟩ }

mutual
  def treeSec : CSec → Nat → Section
    | .plain s, ord => Spec.treeSec s ord
    | .opq ext g doff attrs comp body, ord =>
      .mk (guidedInfo ext g doff attrs comp body.length ord) (serSec (.guided ext g doff attrs body)) []
    | .comp ext g doff attrs name payload kids, ord =>
      .mk (guidedInfo ext g doff attrs name payload.length ord) (serSec (.guided ext g doff attrs payload))
        (treeNodes kids 0)
    | .fvimg v, ord =>
      .mk (canonInfo 0x17 (sizeFv (flatFv v)) ord) (serSec (.fvimg (flatFv v))) [.fv (treeFv v 0 true)]
  /-- the children of a decoded section -/
  def treeNodes : List CSec → Nat → List Node
    | [], _ => []
    | s :: ss, ord => .sec (treeSec s ord) :: treeNodes ss (ord + 1)
  def treeSecs : List CSec → Nat → List Section
    | [], _ => []
    | s :: ss, ord => treeSec s ord :: treeSecs ss (ord + 1)
  def treeFile : CFile → File
    | .leaf f => Spec.treeFile f
    | .sect g t a st secs =>
      .mk (Spec.treeFile (.sect g t a st (flatSecs secs))).info (serFile (.sect g t a st (flatSecs secs)))
        (treeSecs secs 0)
  def treeFiles : List CFile → List File
    | [] => []
    | f :: fs => treeFile f :: treeFiles fs
  def treeFv : CFv → Nat → Bool → Fv
    | .ffs zv v3 attrs rev rsv blocks ext files free, off, rz =>
      .mk (Spec.treeFv (.ffs zv v3 attrs rev rsv blocks ext (flatFiles files) free) off rz).info
        (serFv (.ffs zv v3 attrs rev rsv blocks ext (flatFiles files) free)) (treeFiles files)
    | .other v, off, rz => Spec.treeFv v off rz
end

/-! ### recursion budget the parser needs (one unit per loop iteration / nesting step) -/

mutual
  def costSec : CSec → Nat
    | .plain _ => 1
    | .opq .. => 2
    | .comp _ _ _ _ _ _ kids => 1 + costSecs kids
    | .fvimg v => 1 + costFv v
  def costSecs : List CSec → Nat
    | [] => 1
    | s :: ss => 1 + costSec s + costSecs ss
  def costFile : CFile → Nat
    | .leaf _ => 2
    | .sect _ _ _ _ secs => 1 + costSecs secs
  def costFiles : List CFile → Nat
    | [] => 2
    | f :: fs => 1 + costFile f + costFiles fs
  def costFv : CFv → Nat
    | .ffs _ _ _ _ _ _ _ files _ => 1 + costFiles files
    | .other _ => 1
end

/-! ### well-formedness -/

/-- what the model needs to know about the hooks: decompression is on, and only the GUIDs of
    `compression.CompressorFromGUID` have a codec -/
def HooksOK (h : Hooks) : Prop :=
  h.disableDecompression = false ∧ ∀ g, Spec.codecGuids.contains g = false → h.codec g = none

def noVol : SecI → Bool
  | .fvimg _ => false
  | _ => true

def isLeafFile : FileI → Bool
  | .leaf .. => true
  | .sect .. => false

def isOtherFv : FvI → Bool
  | .other .. => true
  | .ffs .. => false

/-- below 16 MiB: the tool writes the short header forms and never asks for FFSv3 -/
def small (n : Nat) : Bool := n < 0xFFFFFF

/-- the common conditions on a GUID-defined section with the processing bit and a stored body of
    `n` bytes, followed by `tailLen` bytes in its file / payload -/
def guidedOk (ext : Bool) (g : Guid) (doff attrs n tailLen : Nat) : Bool :=
  g.length == 16 && doff < 65536 && attrs < 65536 && attrs &&& 1 != 0 &&
    small (secHdrLen ext + 20 + n) && decide (doff ≤ secHdrLen ext + 20 + n + tailLen)

/-- what `uefi.NewSection` hands the decoder: `buf[DataOffset:]`, `buf` = the section and everything
    behind it -/
def decoderInput (ext : Bool) (g : Guid) (doff attrs : Nat) (body tail : Bytes) : Bytes :=
  (serSec (.guided ext g doff attrs body) ++ tail).drop doff

mutual
  def wfSec (h : Hooks) : Bytes → CSec → Bool
    | _, .plain s => Spec.wfSec s && noVol s && small (sizeSec s)
    | tail, .opq ext g doff attrs comp body =>
      guidedOk ext g doff attrs body.length tail.length &&
        (match h.codec g with
         | some c =>
           let r := c.decode (decoderInput ext g doff attrs body tail)
           (r == none && comp == "UNKNOWN") || (r == some [] && comp == c.name)
         | none => false)
    | tail, .comp ext g doff attrs name payload kids =>
      guidedOk ext g doff attrs payload.length tail.length && !kids.isEmpty &&
        (match h.codec g with
         | some c => c.name == name &&
             c.decode (decoderInput ext g doff attrs payload tail) == some (serSecs 0 (flatSecs kids))
         | none => false) &&
        wfSecs h 0 kids && decide (sizeSecs 0 (flatSecs kids) < 2 ^ 62)
    | _, .fvimg v => wfFv h v && small (sizeFv (flatFv v) + 4)
  /-- sections from relative position `u`; each one sees the rest of the area as its tail -/
  def wfSecs (h : Hooks) : Nat → List CSec → Bool
    | _, [] => true
    | u, s :: ss =>
      wfSec h (serSecs (alignUp u 4 + sizeSec (flatSec s)) (flatSecs ss)) s &&
        wfSecs h (alignUp u 4 + sizeSec (flatSec s)) ss
  def wfFile (h : Hooks) : CFile → Bool
    | .leaf f => Spec.wfFile f && isLeafFile f && decide (24 ≤ sizeFile f) && small (sizeFile f)
    | .sect g type attrs state secs =>
      g.length == 16 && type < 256 && attrs < 256 && state < 256 && supportedFile type &&
        !secs.isEmpty && wfSecs h 0 secs && small (24 + sizeSecs 0 (flatSecs secs))
  def wfFiles (h : Hooks) : Nat → Nat → List CFile → Bool
    | _, _, [] => true
    | off, length, f :: fs =>
      let al := alignUp off 8
      let attrs := storedAttrs (flatFile f)
      wfFile h f && al + 24 ≤ length && al + sizeFile (flatFile f) ≤ length &&
        (al + hdrLenOfAttrs attrs) % alignmentOf attrs == 0 &&
        wfFiles h (al + sizeFile (flatFile f)) length fs
  def wfFv (h : Hooks) : CFv → Bool
    | .ffs zv v3 attrs rev rsv blocks ext files free =>
      let pre := preLen blocks ext
      let fl := flatFiles files
      let length := endFiles pre fl + free
      zv.length == 16 && attrs < 4294967296 && attrs &&& 0x800 != 0 && rev < 256 && rsv < 256 &&
        blocks.all blockOk && fvHdrLen blocks < 65536 && (files.isEmpty || !blocks.isEmpty) &&
        (match ext with
         | none => true
         | some e => e.fvName.length == 16 && ehoOf blocks ext < 65536 && 20 + e.data.length < 4294967296 &&
                     ehoOf blocks ext + 20 ≤ length) &&   -- may end exactly at `length` (/repo eaa94dc), as in Spec.wfFv
        length % 8 == 0 && length < 0x4000000000000000 && 64 ≤ length &&
        wfFiles h pre length files
        -- (no condition on what follows the last file, and a file header may end exactly at `length`:
        --  since /repo 8039e86 / cce350a the reader takes an erased 24-byte tail for free space and finds
        --  a header that starts exactly at Length-24 — as in C01's `Spec.wfFv`)
    | .other v => Spec.wfFv v && isOtherFv v
end

/-- a well-formed volume of the extended grammar -/
def WF (h : Hooks) (v : CFv) : Prop := wfFv h v = true

instance (h : Hooks) (v : CFv) : Decidable (WF h v) := by unfold WF; infer_instance

end Fiano.Uefi.Nested
