/-
  Property C07, follow-up wp-c07c — every tree `uefi.Parse` builds, with ANY NVAR hook (C10's `NewNVarStore`
  included), satisfies `okNvTree`: the induction of Uefi/ExtractParse.lean (`parse_okTree`, which asks for a hook
  that parses no store) repeated for the predicate that allows files with a store.
-/
import FianoModel.Uefi.ExtractNvTreeDefs
import FianoModel.Uefi.ExtractParse

namespace Fiano.Uefi
open Fiano

/-- what the round trip needs, for one recursion budget -/
def nvp_OKP (h : Hooks) (fuel : Nat) : Prop :=
  (∀ buf ord st s st', parseSection h fuel buf ord st = .ok (s, st') → okNvSection s = true) ∧
  (∀ enc off idx st ns st', parseEncap h fuel enc off idx st = .ok (ns, st') → okNvNodes ns = true) ∧
  (∀ fbuf off ext idx st ss st', parseSections h fuel fbuf off ext idx st = .ok (ss, st') → okNvSections ss = true) ∧
  (∀ buf st f st', parseFile h fuel buf st = .ok (some f, st') → okNvFile f = true) ∧
  (∀ data off lh len st fs free st', parseFiles h fuel data off lh len st = .ok (fs, free, st') → okNvFiles fs = true) ∧
  (∀ data off rz st v st', parseFv h fuel data off rz st = .ok (v, st') → okNvFv v = true)

theorem nvp_okp_zero (h : Hooks) : nvp_OKP h 0 := by
  refine ⟨?_, ?_, ?_, ?_, ?_, ?_⟩ <;> intros <;> simp_all [parseSection, parseEncap, parseSections, parseFile, parseFiles, parseFv]

theorem nvp_okp_section_step (h : Hooks) (fuel : Nat) (ih : nvp_OKP h fuel) :
    ∀ buf ord st s st', parseSection h (fuel + 1) buf ord st = .ok (s, st') → okNvSection s = true := by
  intro buf ord st s st' hp
  simp only [parseSection] at hp
  repeat' split at hp
  all_goals first
    | (simp at hp; done)
    | skip
  all_goals (simp only [Except.ok.injEq, Prod.mk.injEq] at hp)
  all_goals (obtain ⟨rfl, rfl⟩ := hp)
  all_goals first
    | (simp [mkSection, okNvSection, okNvNodes]; done)
    | (have hx := ih.2.1 _ _ _ _ _ _ (by assumption)
       simp_all [mkSection, okNvSection, keepsBuf]; done)
    | (have hx := ih.2.2.2.2.2 _ _ _ _ _ _ (by assumption)
       simp_all [mkSection, okNvSection, okNvNodes, keepsBuf]; done)

theorem nvp_okp_encap_step (h : Hooks) (fuel : Nat) (ih : nvp_OKP h fuel) :
    ∀ enc off idx st ns st', parseEncap h (fuel + 1) enc off idx st = .ok (ns, st') → okNvNodes ns = true := by
  intro enc off idx st ns st' hp
  simp only [parseEncap] at hp
  repeat' split at hp
  all_goals first
    | (simp at hp; done)
    | skip
  all_goals (simp only [Except.ok.injEq, Prod.mk.injEq] at hp)
  all_goals (obtain ⟨rfl, rfl⟩ := hp)
  · have h1 := ih.1 _ _ _ _ _ (by assumption)
    have h2 := ih.2.1 _ _ _ _ _ _ (by assumption)
    simp [okNvNodes, h1, h2]
  · simp [okNvNodes]

theorem nvp_okp_sections_step (h : Hooks) (fuel : Nat) (ih : nvp_OKP h fuel) :
    ∀ fbuf off ext idx st ss st', parseSections h (fuel + 1) fbuf off ext idx st = .ok (ss, st') → okNvSections ss = true := by
  intro fbuf off ext idx st ss st' hp
  simp only [parseSections] at hp
  repeat' split at hp
  all_goals first
    | (simp at hp; done)
    | skip
  all_goals (simp only [Except.ok.injEq, Prod.mk.injEq] at hp)
  all_goals (obtain ⟨rfl, rfl⟩ := hp)
  · have h1 := ih.1 _ _ _ _ _ (by assumption)
    have h2 := ih.2.2.1 _ _ _ _ _ _ _ (by assumption)
    simp [okNvSections, h1, h2]
  · simp [okNvSections]

theorem nvp_okp_file_step (h : Hooks) (fuel : Nat) (ih : nvp_OKP h fuel) :
    ∀ buf st f st', parseFile h (fuel + 1) buf st = .ok (some f, st') → okNvFile f = true := by
  intro buf st f st' hp
  simp only [parseFile] at hp
  repeat' split at hp
  all_goals first
    | (simp at hp; done)
    | skip
  all_goals (simp only [Except.ok.injEq, Prod.mk.injEq, Option.some.injEq] at hp)
  all_goals (obtain ⟨rfl, rfl⟩ := hp)
  all_goals (have hi := ex_fileHeader_some _ _ (by assumption))
  all_goals first
    | (simp [okNvFile, okNvSections, hi.1]; done)
    | (have hx := ih.2.2.1 _ _ _ _ _ _ _ (by assumption)
       simp [okNvFile, hi.1, hx]; done)

theorem nvp_okp_files_step (h : Hooks) (fuel : Nat) (ih : nvp_OKP h fuel) :
    ∀ data off lh len st fs free st', parseFiles h (fuel + 1) data off lh len st = .ok (fs, free, st') → okNvFiles fs = true := by
  intro data off lh len st fs free st' hp
  simp only [parseFiles] at hp
  repeat' split at hp
  all_goals first
    | (simp at hp; done)
    | skip
  all_goals (simp only [Except.ok.injEq, Prod.mk.injEq] at hp)
  all_goals (obtain ⟨rfl, rfl, rfl⟩ := hp)
  all_goals first
    | (simp [okNvFiles]; done)
    | (have h1 := ih.2.2.2.1 _ _ _ _ (by assumption)
       have h2 := ih.2.2.2.2.1 _ _ _ _ _ _ _ _ (by assumption)
       simp [okNvFiles, h1, h2]; done)

theorem nvp_okFv_of_files (h : Hooks) (fuel : Nat) (data : Bytes) (off lh len : Nat) (st : St) (fs : List File) (free : Nat)
    (st' : St) (hfiles : parseFiles h fuel data off lh len st = .ok (fs, free, st')) (hok : okNvFiles fs = true)
    (i : FvInfo) (hlen : data.length ≤ i.length) (hd : i.dataOffset = off) (hoff : off ≤ 18446744073709551608) :
    okNvFv (.mk i data fs) = true := by
  simp only [okNvFv, hok, Bool.true_and, Bool.or_eq_true, List.isEmpty_iff, Bool.and_eq_true, decide_eq_true_eq]
  cases fs with
  | nil => left; rfl
  | cons f rest =>
    right
    have hlt := parseFiles_nonempty h fuel _ _ _ _ _ _ _ _ _ hfiles
    have hge := ex_align8_ge off hoff
    refine ⟨hlen, ?_⟩
    omega

theorem nvp_okp_fv_step (h : Hooks) (fuel : Nat) (ih : nvp_OKP h fuel) :
    ∀ data off rz st v st', parseFv h (fuel + 1) data off rz st = .ok (v, st') → okNvFv v = true := by
  intro data off rz st v st' hp
  simp only [parseFv] at hp
  repeat' split at hp
  all_goals first
    | (simp at hp; done)
    | skip
  all_goals (simp only [Except.ok.injEq, Prod.mk.injEq] at hp)
  all_goals (obtain ⟨rfl, rfl⟩ := hp)
  all_goals first
    | (simp [okNvFv, okNvFiles]; done)
    | skip
  all_goals
    (have hfiles := (by assumption : parseFiles h fuel _ _ _ _ _ = Except.ok (_, _, _))
     have hx := ih.2.2.2.2.1 _ _ _ _ _ _ _ _ hfiles
     refine nvp_okFv_of_files h fuel _ _ _ _ _ _ _ _ hfiles hx _ (by rw [List.length_take]; exact Nat.min_le_left _ _) ?_
       (align8_le _)
     first
       | (simp_all; done)
       | (simp_all
          split
          · exfalso; omega
          · rfl)
       | (simp_all
          split
          · rfl
          · exfalso; omega))

theorem nvp_okp_all (h : Hooks) : ∀ fuel, nvp_OKP h fuel
  | 0 => nvp_okp_zero h
  | fuel + 1 =>
    have ih := nvp_okp_all h fuel
    ⟨nvp_okp_section_step h fuel ih, nvp_okp_encap_step h fuel ih, nvp_okp_sections_step h fuel ih, nvp_okp_file_step h fuel ih,
      nvp_okp_files_step h fuel ih, nvp_okp_fv_step h fuel ih⟩

theorem nvp_okBiosElems_append (a b : List BiosElem) : okNvBiosElems (a ++ b) = (okNvBiosElems a && okNvBiosElems b) := by
  induction a with
  | nil => simp [okNvBiosElems]
  | cons x t ih => cases x <;> simp [okNvBiosElems, ih, Bool.and_assoc]

theorem nvp_ok_bioselems (h : Hooks) : ∀ (fuel : Nat) (buf : Bytes) (abs : Nat) (st : St)
    (es : List BiosElem) (st' : St), parseBiosElems h fuel buf abs st = .ok (es, st') → okNvBiosElems es = true
  | 0, _, _, _, _, _, hp => by simp [parseBiosElems] at hp
  | fuel + 1, buf, abs, st, es, st', hp => by
    simp only [parseBiosElems] at hp
    repeat' split at hp
    all_goals first
      | (simp at hp; done)
      | skip
    all_goals (simp only [Except.ok.injEq, Prod.mk.injEq] at hp)
    all_goals (obtain ⟨rfl, rfl⟩ := hp)
    all_goals first
      | (simp [okNvBiosElems]; done)
      | (have h1 := (nvp_okp_all h fuel).2.2.2.2.2 _ _ _ _ _ _ (by assumption)
         have h2 := nvp_ok_bioselems h fuel _ _ _ _ _ (by assumption)
         simp [okNvBiosElems, nvp_okBiosElems_append, h1, h2]; done)

theorem nvp_ok_bios (h : Hooks) (fuel : Nat) (buf : Bytes) (fr : Option FlashRegion) (st : St)
    (b : BiosRegion) (st' : St) (hp : parseBios h fuel buf fr st = .ok (b, st')) : okNvBiosElems b.elems = true := by
  unfold parseBios at hp
  split at hp
  · simp at hp
  · rename_i es st'' hes
    simp only [Except.ok.injEq, Prod.mk.injEq] at hp
    obtain ⟨rfl, rfl⟩ := hp
    exact nvp_ok_bioselems h _ _ _ _ _ _ hes

/-! ### regions -/

def okNvRegion : Region → Bool
  | .bios b => okNvBiosElems b.elems
  | _ => true

theorem nvp_okRegions_cons (r : Region) (rs : List Region) : okNvRegions (r :: rs) = (okNvRegion r && okNvRegions rs) := by
  cases r <;> simp [okNvRegions, okNvRegion]

theorem nvp_okRegions_insert (r : Region) : ∀ l : List Region, okNvRegions (insertRegion r l) = (okNvRegion r && okNvRegions l)
  | [] => by simp [insertRegion, nvp_okRegions_cons, okNvRegions]
  | x :: xs => by
    simp only [insertRegion]
    split
    · simp [nvp_okRegions_cons]
    · simp only [nvp_okRegions_cons, nvp_okRegions_insert r xs]
      cases okNvRegion x <;> cases okNvRegion r <;> simp

theorem nvp_okRegions_sort : ∀ l : List Region, okNvRegions (sortRegions l) = okNvRegions l
  | [] => rfl
  | x :: xs => by
    simp only [sortRegions, List.foldr_cons] at *
    rw [nvp_okRegions_insert, nvp_okRegions_cons]
    have := nvp_okRegions_sort xs
    simp only [sortRegions] at this
    rw [this]

theorem nvp_okRegions_fillGaps (fbuf : Bytes) (size : Nat) : ∀ (l : List Region) (off : Nat) (out : List Region),
    fillGaps fbuf size l off = .ok out → okNvRegions l = true → okNvRegions out = true
  | [], off, out, hp, _ => by
    simp only [fillGaps] at hp
    split at hp <;> simp only [Except.ok.injEq] at hp <;> subst hp <;> simp [okNvRegions]
  | r :: rs, off, out, hp, hok => by
    rw [nvp_okRegions_cons] at hok
    simp only [Bool.and_eq_true] at hok
    simp only [fillGaps] at hp
    repeat' split at hp
    all_goals first
      | (simp at hp; done)
      | skip
    all_goals (simp only [Except.ok.injEq] at hp)
    all_goals (subst hp)
    all_goals (have ih := nvp_okRegions_fillGaps fbuf size rs _ _ (by assumption) hok.2)
    all_goals (simp only [nvp_okRegions_cons, ih, hok.1, Bool.and_self, Bool.and_true])
    all_goals (try rfl)

theorem nvp_ok_one (h : Hooks) (fuel : Nat) (rbuf : Bytes) (fr : FlashRegion) (i : Nat)
    (st : St) (r : Region) (st1 : St)
    (hone : (if i = 0 then
              (match parseBios h fuel rbuf (some fr) st with
                | .error e => (.error e : Except Err (Region × St))
                | .ok (b, st') => .ok (.bios b, st'))
            else if i = 1 then .ok (.me rbuf fr, st)
            else .ok (.raw rbuf fr i, st)) = .ok (r, st1)) : okNvRegion r = true := by
  repeat' split at hone
  all_goals first
    | (simp at hone; done)
    | skip
  all_goals (simp only [Except.ok.injEq, Prod.mk.injEq] at hone)
  all_goals (obtain ⟨rfl, rfl⟩ := hone)
  all_goals first
    | rfl
    | exact nvp_ok_bios h _ _ _ _ _ _ (by assumption)

theorem nvp_ok_parseRegions (h : Hooks) (fuel : Nat) (buf : Bytes) (nr : Nat) :
    ∀ (frs : List FlashRegion) (i : Nat) (st : St) (rs : List Region) (st' : St),
      parseRegions h fuel buf nr frs i st = .ok (rs, st') → okNvRegions rs = true
  | [], _, _, _, _, hp => by
    simp only [parseRegions, Except.ok.injEq, Prod.mk.injEq] at hp
    rw [← hp.1]; rfl
  | fr :: frs, i, st, rs, st', hp => by
    simp only [parseRegions] at hp
    split at hp
    · simp only [Except.ok.injEq, Prod.mk.injEq] at hp
      rw [← hp.1]; rfl
    · split at hp
      · exact nvp_ok_parseRegions h fuel buf nr frs _ _ _ _ hp
      · split at hp
        · simp at hp
        · rename_i r st1 hone
          split at hp
          · simp at hp
          · rename_i rs' st2 hrest
            simp only [Except.ok.injEq, Prod.mk.injEq] at hp
            obtain ⟨rfl, rfl⟩ := hp
            rw [nvp_okRegions_cons, nvp_ok_parseRegions h fuel buf nr frs _ _ _ _ hrest, Bool.and_true]
            exact nvp_ok_one h fuel _ fr i st r st1 hone

/-- a parsed tree (no NVAR store parsed) has what the round trip needs -/
theorem nvp_parse_okTree (h : Hooks) (bs : Bytes) (t : Tree) (hp : parse h bs = .ok t) :
    okNvTree t = true := by
  unfold parse parseWith at hp
  split at hp
  · simp at hp
  · rename_i t' st hpw
    simp only [Except.ok.injEq] at hp
    subst hp
    split at hpw
    · -- flash image
      split at hpw
      · simp at hpw
      · rename_i f st' hf
        simp only [Except.ok.injEq, Prod.mk.injEq] at hpw
        obtain ⟨rfl, rfl⟩ := hpw
        unfold parseFlash at hf
        repeat' split at hf
        all_goals first
          | (simp at hf; done)
          | skip
        all_goals (simp only [Except.ok.injEq, Prod.mk.injEq] at hf)
        all_goals (obtain ⟨rfl, rfl⟩ := hf)
        all_goals
          (simp only [okNvTree]
           apply nvp_okRegions_fillGaps _ _ _ _ _ (by assumption)
           rw [nvp_okRegions_sort]
           exact nvp_ok_parseRegions h _ _ _ _ _ _ _ _ (by assumption))
    · split at hpw
      · simp at hpw
      · rename_i b st' hb
        simp only [Except.ok.injEq, Prod.mk.injEq] at hpw
        obtain ⟨rfl, rfl⟩ := hpw
        exact nvp_ok_bios h _ _ _ _ _ _ hb


end Fiano.Uefi
