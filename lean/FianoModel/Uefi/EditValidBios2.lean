/-
  C02 (follow-up wp-c02b), layer (d), part 3: **`asmBios_ok`** — `Assemble` on a BIOS region whose
  element list satisfies the invariant writes a region the reader's walk accepts (rules B1–B2, every
  volume valid), of the same length, and the invariant holds again.
-/
import FianoModel.Uefi.EditValidBios

namespace Fiano.Uefi
open Fiano
open EditArith

/-- what `Assemble` may do to the element list: paddings stay, volumes stay compatible -/
inductive ElemsRel : List BiosElem → List BiosElem → Prop where
  | nil : ElemsRel [] []
  | pad (p : Bytes) (o : Nat) (es es' : List BiosElem) : ElemsRel es es' → ElemsRel (.pad p o :: es) (.pad p o :: es')
  | fv (v v' : Fv) (es es' : List BiosElem) : Compat v.buf v'.buf → ElemsRel es es' →
      ElemsRel (.fv v :: es) (.fv v' :: es')

theorem elemsRel_refl : ∀ (es : List BiosElem), ElemsRel es es
  | [] => .nil
  | .pad p o :: es => .pad p o es es (elemsRel_refl es)
  | .fv v :: es => .fv v v es es (Compat.refl _) (elemsRel_refl es)

theorem elemsRel_len (es es' : List BiosElem) (h : ElemsRel es es') : (catBufs es').length = (catBufs es).length := by
  induction h with
  | nil => rfl
  | pad p o es es' _ ih =>
    rw [catBufs_cons, catBufs_cons]
    simp only [BiosElem.buf, List.length_append, ih]
  | fv v v' es es' hc _ ih =>
    rw [catBufs_cons, catBufs_cons]
    simp only [BiosElem.buf, List.length_append, hc.len, ih]

theorem catBufs_mem_le (es : List BiosElem) : ∀ e ∈ es, e.buf.length ≤ (catBufs es).length := by
  induction es with
  | nil => intro e he; cases he
  | cons x xs ih =>
    intro e he
    rw [catBufs_cons]
    simp only [List.length_append]
    simp only [List.mem_cons] at he
    rcases he with rfl | he
    · omega
    · have := ih e he; omega

/-- **`Assemble` preserves the invariant of the element list** -/
theorem asmBiosElems_ok (h : Hooks) (hlaw : h.NvLaw) : ∀ (es : List BiosElem) (st : St) (es' : List BiosElem) (st' : St),
    ElemsOk es → asmBiosElems h es st = .ok (es', st') → (∀ e ∈ es', e.buf.length < 2 ^ 31) →
    ElemsOk es' ∧ ElemsRel es es'
  | [], st, es', st', _, ha, _ => by
    rw [asmBiosElems] at ha
    cases ha
    exact ⟨by rw [ElemsOk]; trivial, .nil⟩
  | .pad p o :: es, st, es', st', hok, ha, hlen => by
    rw [asmBiosElems] at ha
    split at ha
    · cases ha
    · rename_i es1 st1 hes
      cases ha
      have hlen1 : ∀ e ∈ es1, e.buf.length < 2 ^ 31 := fun e he => hlen e (by simp [he])
      cases es with
      | nil =>
        rw [asmBiosElems] at hes
        cases hes
        exact ⟨hok, elemsRel_refl _⟩
      | cons x rest =>
        cases x with
        | pad q o2 => rw [ElemsOk] at hok; exact hok.elim
        | fv v =>
          rw [ElemsOk] at hok
          obtain ⟨ih1, ih2⟩ := asmBiosElems_ok h hlaw (.fv v :: rest) st es1 _ hok.2 hes hlen1
          cases ih2 with
          | fv _ v1 _ rest1 hc hr =>
            refine ⟨?_, .pad p o _ _ (.fv v v1 rest rest1 hc hr)⟩
            rw [ElemsOk]
            exact ⟨hok.1.compat hc, ih1⟩
  | .fv v :: es, st, es', st', hok, ha, hlen => by
    rw [ElemsOk] at hok
    rw [asmBiosElems] at ha
    split at ha
    · cases ha
    · rename_i v1 st1 hv
      split at ha
      · cases ha
      · rename_i es1 st2 hes
        cases ha
        have hl1 := hlen (.fv v1) (by simp)
        simp only [BiosElem.buf] at hl1
        obtain ⟨hv1, hst⟩ := asmFv_ok h hlaw v st v1 st1 hok.1.1 hv hl1
        obtain ⟨ih1, ih2⟩ := asmBiosElems_ok h hlaw es st1 es1 _ hok.2 hes (fun e he => hlen e (by simp [he]))
        have hc := compat_of_stable v v1 hok.1.1 hv1 hst hok.1.2
        refine ⟨?_, .fv v v1 es es1 hc ih2⟩
        rw [ElemsOk]
        exact ⟨⟨hv1, by rw [hst.rsz]; exact hok.1.2⟩, ih1⟩

theorem hasFv_of_firstFv (es : List BiosElem) (v : Fv) (h : firstFv es = some v) : hasFv es = true := by
  induction es with
  | nil => simp [firstFv] at h
  | cons x xs ih =>
    cases x with
    | pad p o => rw [firstFv] at h; rw [hasFv]; exact ih h
    | fv w => rfl

/-- the invariant of a BIOS region node -/
structure BiosOk (b : BiosRegion) : Prop where
  elems : ElemsOk b.elems
  len   : (catBufs b.elems).length = b.length

/-- **`asmBios_valid`** (layer (d)): the region `Assemble` writes passes the reader's region rules
    B1–B2 with every volume valid, has the length of the region, and the invariant holds again -/
theorem asmBios_ok (h : Hooks) (hlaw : h.NvLaw) (b b' : BiosRegion) (st st' : St) (hok : BiosOk b)
    (ha : asmBios h b st = .ok (b', st')) (hlen : b.length < 2 ^ 31) :
    BiosOk b' ∧ Valid.biosOk b'.buf = true ∧ b'.buf = catBufs b'.elems ∧ ElemsRel b.elems b'.elems ∧
    b'.length = b.length ∧ b'.fr = b.fr := by
  unfold asmBios at ha
  split at ha
  · cases ha
  · rename_i es st1 hes
    split at ha
    · cases ha
    · rename_i v hfirst
      split at ha
      · cases ha
      · rename_i st2 hsp
        simp only at ha
        split at ha
        · cases ha
        · rename_i hfit
          cases ha
          have hcat : (es.map BiosElem.buf).flatten = catBufs es := rfl
          rw [hcat] at hfit ⊢
          have hbnd : ∀ e ∈ es, e.buf.length < 2 ^ 31 := fun e he => by
            have := catBufs_mem_le es e he; omega
          obtain ⟨hes', hrel⟩ := asmBiosElems_ok h hlaw b.elems st es st1 hok.elems hes hbnd
          have hl := elemsRel_len _ _ hrel
          rw [hok.len] at hl
          have hz : b.length - (catBufs es).length = 0 := by omega
          have hbuf : ∀ x : UInt8, catBufs es ++ List.replicate (b.length - (catBufs es).length) x = catBufs es := by
            intro x; rw [hz]; simp
          refine ⟨⟨hes', hl⟩, ?_, hbuf _, hrel, rfl, rfl⟩
          simp only [hbuf]
          unfold Valid.biosOk
          exact walkSpec_sound _ 0 0 (elems_walk es 0 hes' (Or.inr (hasFv_of_firstFv es v hfirst)))
            ((catBufs es).length / 64 + 2) (by omega)

end Fiano.Uefi
