/-
  C03 follow-up (wp-c03b), layer 3a: helper lemmas about the pieces of `Assemble.Visit` on arbitrary
  (edited) nodes whose buffers are serialised nodes of the grammar: the section area of a rebuilt
  file, `SetSize`, the file loop with only the *result* bounded, and the header patches of a volume
  that keeps or grows its length.
-/
import FianoModel.Uefi.ExactCanon

namespace Fiano.Uefi.Exact
open Fiano Fiano.Uefi Fiano.Uefi.Spec

/-! ### sections of a rebuilt file -/

theorem joinPad4_length_ge : ∀ (l : List Bytes) (acc : Bytes), acc.length ≤ (joinPad4 l acc).length
  | [], _ => Nat.le_refl _
  | b :: bs, acc => by
    simp only [joinPad4]
    have := joinPad4_length_ge bs (acc ++ List.replicate (align4 acc.length - acc.length) 0 ++ b)
    simp only [List.length_append, List.length_replicate] at this
    omega

/-- the zero-padded concatenation is the section area of the grammar; only the *result* is bounded -/
theorem joinPad4_gram : ∀ (ss : List SecI) (acc : Bytes), wfSecs ss = true →
    (joinPad4 (ss.map serSec) acc).length < 2 ^ 62 →
    joinPad4 (ss.map serSec) acc = acc ++ serSecs acc.length ss
  | [], acc, _, _ => by simp [joinPad4, serSecs]
  | s :: ss, acc, h, hlt => by
    have ⟨hs, hss⟩ := wfSecs_cons h
    simp only [List.map_cons, joinPad4] at hlt ⊢
    have hge := joinPad4_length_ge (ss.map serSec)
      (acc ++ List.replicate (align4 acc.length - acc.length) 0 ++ serSec s)
    have hacc : acc.length < 2 ^ 62 := by
      simp only [List.length_append, List.length_replicate] at hge
      omega
    have hal := alignUp_ge acc.length 4 (by decide)
    have ha4 : align4 acc.length = alignUp acc.length 4 := align4_eq _ (by omega)
    rw [ha4] at hlt ⊢
    have hl : (acc ++ List.replicate (alignUp acc.length 4 - acc.length) 0 ++ serSec s).length =
        alignUp acc.length 4 + sizeSec s := by
      simp only [List.length_append, List.length_replicate, length_serSec s hs]; omega
    rw [joinPad4_gram ss _ hss hlt, hl]
    simp [serSecs, zeros]

/-- `SetSize(24 + d, true)` on any attribute byte -/
theorem setSize_any (a d : Nat) :
    setSize a (24 + d) true =
      (sectAttrs a d, (if 24 + d ≥ 0xFFFFFF then 0xFFFFFF else 24 + d),
       (if 24 + d ≥ 0xFFFFFF then 32 + d else 24 + d)) := by
  unfold setSize sectAttrs write3
  by_cases h : 24 + d ≥ 0xFFFFFF
  · have h2 : 24 + d + 8 ≥ 0xFFFFFF := by omega
    simp only [h, if_true, h2]
    congr 2; omega
  · simp only [h, if_false]

theorem noteLarge_small (n : Nat) (st : St) (h : n ≤ 0xFFFFFF) : noteLarge n st = st := by
  unfold noteLarge
  rw [if_neg (by omega)]

theorem st_eta (st : St) (h : st.ffs3 = false) : ({ st with ffs3 := false } : St) = st := by
  cases st; simp_all

/-! ### `GenSecHeader` -/

theorem genSecHeader_len (i i' : SecInfo) (body buf' : Bytes) (h : genSecHeader i body = .ok (i', buf')) :
    body.length ≤ buf'.length := by
  unfold genSecHeader at h
  simp only at h
  split at h
  · cases h
  · rename_i ts b2 hr
    cases h
    have hb : body.length ≤ b2.length := by
      split at hr
      · split at hr
        · cases hr
        · cases hr; simp
      · cases hr; exact Nat.le_refl _
    simp only [List.length_append]
    omega

/-! ### the file loop in closed form, under a budget

    `placeFiles_gram` (ExactPlace.lean) needs `layEnd < 2^62` (Go's `Align` wraps at 2^64).  For files
    below 16 MiB that bound follows from the number of files: each iteration moves the offset by
    less than 2^27. -/

theorem layEnd_budget : ∀ (fis : List FileI) (off : Nat), (∀ f ∈ fis, sizeFile f < 2 ^ 24) →
    layEnd off fis ≤ off + fis.length * 2 ^ 27
  | [], off, _ => by simp [layEnd]
  | f :: fs, off, hs => by
    have h1 := fileStart_spec off (storedAttrs f)
    have h2 := hs f List.mem_cons_self
    have ih := layEnd_budget fs (fileStart off (storedAttrs f) + sizeFile f)
      (fun g hg => hs g (List.mem_cons_of_mem _ hg))
    simp only [layEnd, List.length_cons]
    have e : (fs.length + 1) * 2 ^ 27 = fs.length * 2 ^ 27 + 2 ^ 27 := by
      rw [Nat.add_mul]
    omega

/-! ### the header patches of a volume that keeps or grows its length -/

theorem splice_set_at (zv g : Bytes) (len len' attrs ck eho rsv rev : Nat) (b0 : Block) (c' : Nat) (bs : List Block)
    (X : Bytes) (hz : zv.length = 16) (hg : g.length = 16) :
    splice (fvHeader zv g len attrs ck eho rsv rev (b0 :: bs) ++ X) 32 (leN 8 len') =
      fvHeader zv g len' attrs ck eho rsv rev (b0 :: bs) ++ X ∧
    splice (fvHeader zv g len' attrs ck eho rsv rev (b0 :: bs) ++ X) 56 (leN 4 c') =
      fvHeader zv g len' attrs ck eho rsv rev ({ b0 with count := c' } :: bs) ++ X := by
  have hsig : fvSigBytes.length = 4 := rfl
  constructor
  · rw [fvHeader_split, fvHeader_split, show (32:Nat) = 16 + 16 from rfl, splice_append_skip _ _ _ 16 16 hz,
      show (16:Nat) = 16 + 0 from rfl, splice_append_skip _ _ _ 16 0 hg, splice_prefix _ _ _ (by simp)]
  · rw [fvHeader_split, fvHeader_split, show (56:Nat) = 16 + 40 from rfl, splice_append_skip _ _ _ 16 40 hz,
      show (40:Nat) = 16 + 24 from rfl, splice_append_skip _ _ _ 16 24 hg,
      show (24:Nat) = 8 + 16 from rfl, splice_append_skip _ _ _ 8 16 (by simp),
      show (16:Nat) = 4 + 12 from rfl, splice_append_skip _ _ _ 4 12 hsig,
      show (12:Nat) = 4 + 8 from rfl, splice_append_skip _ _ _ 4 8 (by simp),
      show (8:Nat) = 2 + 6 from rfl, splice_append_skip _ _ _ 2 6 (by simp),
      show (6:Nat) = 2 + 4 from rfl, splice_append_skip _ _ _ 2 4 (by simp),
      show (4:Nat) = 2 + 2 from rfl, splice_append_skip _ _ _ 2 2 (by simp),
      show (2:Nat) = 2 + 0 from rfl, splice_append_skip _ _ _ 2 0 (by simp)]
    have e : encodeBlocks (b0 :: bs) ++ (zeros 8 ++ X) =
        leN 4 b0.count ++ (leN 4 b0.size ++ (encodeBlocks bs ++ (zeros 8 ++ X))) := by
      simp [encodeBlocks]
    have e' : encodeBlocks ({ b0 with count := c' } :: bs) ++ (zeros 8 ++ X) =
        leN 4 c' ++ (leN 4 b0.size ++ (encodeBlocks bs ++ (zeros 8 ++ X))) := by
      simp [encodeBlocks]
    have hl : fvHdrLen ({ b0 with count := c' } :: bs) = fvHdrLen (b0 :: bs) := rfl
    rw [e, e', hl, splice_prefix _ _ _ (by simp)]

/-- the header patches write the new length and block count and restore the checksum -/
theorem patchFvHeader_set (zv g : Bytes) (len len' attrs eho rsv rev : Nat) (b0 : Block) (c' : Nat) (bs : List Block)
    (X : Bytes) (hz : zv.length = 16) (hg : g.length = 16) (hh : fvHdrLen (b0 :: bs) < 65536) :
    patchFvHeader (fvHeaderCk zv g len attrs eho rsv rev (b0 :: bs) ++ X) len' none c' (fvHdrLen (b0 :: bs)) =
      .ok (fvHeaderCk zv g len' attrs eho rsv rev ({ b0 with count := c' } :: bs) ++ X) := by
  obtain ⟨s32, s56⟩ := splice_set_at zv g len len' attrs
    (0 - sum16 (fvHeader zv g len attrs 0 eho rsv rev (b0 :: bs))).toNat eho rsv rev b0 c' bs X hz hg
  obtain ⟨_, _, s50, _⟩ := splice_same_at [] 0 zv g len' attrs
    (0 - sum16 (fvHeader zv g len attrs 0 eho rsv rev (b0 :: bs))).toNat eho rsv rev { b0 with count := c' } bs X hz hg
  obtain ⟨_, _, _, sback⟩ := splice_same_at [] 0 zv g len' attrs
    (0 - sum16 (fvHeader zv g len' attrs 0 eho rsv rev ({ b0 with count := c' } :: bs))).toNat eho rsv rev
    { b0 with count := c' } bs X hz hg
  have hl0 := fvHeader_length zv g len' attrs 0 eho rsv rev ({ b0 with count := c' } :: bs) hz hg
  have hl := fvHeader_length zv g len attrs (0 - sum16 (fvHeader zv g len attrs 0 eho rsv rev (b0 :: bs))).toNat
    eho rsv rev (b0 :: bs) hz hg
  have hlen' : fvHdrLen ({ b0 with count := c' } :: bs) = fvHdrLen (b0 :: bs) := rfl
  unfold patchFvHeader fvHeaderCk
  have h60 : ¬ (fvHeader zv g len attrs (0 - sum16 (fvHeader zv g len attrs 0 eho rsv rev (b0 :: bs))).toNat
      eho rsv rev (b0 :: bs) ++ X).length < 60 := by
    simp only [List.length_append, hl, fvHdrLen, List.length_cons]; omega
  simp only [h60, if_false, s32, s56, s50]
  have h1 : ¬ fvHdrLen (b0 :: bs) >
      (fvHeader zv g len' attrs 0 eho rsv rev ({ b0 with count := c' } :: bs) ++ X).length := by
    simp only [List.length_append, hl0, hlen']; omega
  have h2 : ¬ fvHdrLen (b0 :: bs) % 2 ≠ 0 := by simp only [fvHdrLen, List.length_cons]; omega
  simp only [h1, h2, if_false]
  rw [← hlen', take_left_len _ _ _ hl0, sback]

theorem pow2_mul8 (e : Nat) (he : 3 ≤ e) : ∃ m, 2 ^ e = 8 * m ∧ 0 < m := by
  refine ⟨2 ^ (e - 3), ?_, Nat.pow_pos (by decide)⟩
  have : e = 3 + (e - 3) := by omega
  rw [this, Nat.pow_add]
  simp

/-- the second half of the FirmwareVolume case on a (nested, resizable) volume whose files no longer
    fit: the length becomes the next multiple of the first block size, the block count follows -/
theorem finishFv_grow (i : FvInfo) (zv G : Bytes) (L attrs eho rsv rev : Nat) (b0 : Block) (bs : List Block)
    (Y : Bytes) (st : St) (e n : Nat)
    (hL : i.length = L) (hb : i.blocks = b0 :: bs) (hG : i.fsGuid = G) (hh : i.headerLen = fvHdrLen (b0 :: bs))
    (hz : zv.length = 16) (hg : G.length = 16) (hhl : fvHdrLen (b0 :: bs) < 65536)
    (hn' : (fvHeaderCk zv G L attrs eho rsv rev (b0 :: bs) ++ Y).length = n)
    (hgrow : L < n) (hrz : i.resizable = true) (hsz : b0.size = 2 ^ e) (he : e ≤ 31) (hn : n < 2 ^ 62)
    (hp : st.pol = 0xFF) (hf : st.ffs3 = false) :
    ∃ i', finishFv i (fvHeaderCk zv G L attrs eho rsv rev (b0 :: bs) ++ Y) st =
      .ok (i', fvHeaderCk zv G (alignUp n (2 ^ e)) attrs eho rsv rev
                ({ b0 with count := alignUp n (2 ^ e) / b0.size % 4294967296 } :: bs) ++
              (Y ++ ffs (alignUp n (2 ^ e) - n)), { st with ffs3 := false }) ∧
      i'.length = alignUp n (2 ^ e) ∧
      i'.blocks = { b0 with count := alignUp n (2 ^ e) / b0.size % 4294967296 } :: bs ∧
      i'.fsGuid = G ∧ i'.headerLen = i.headerLen ∧ i'.dataOffset = i.dataOffset ∧ i'.attrs = i.attrs ∧
      i'.freeSpace = (alignUp n (2 ^ e) + 18446744073709551616 - align8 n) % 18446744073709551616 ∧
      i'.resizable = i.resizable := by
  have hpos : 0 < 2 ^ e := Nat.pow_pos (by decide)
  have hle : 2 ^ e ≤ 2 ^ 31 := Nat.pow_le_pow_right (by decide) he
  have hsz0 : ¬ b0.size = 0 := by rw [hsz]; omega
  have hag : alignGo n b0.size = alignUp n (2 ^ e) := by
    rw [hsz, alignGo_pow2 n e (by omega) (by omega)]; rfl
  have hge := alignUp_ge n (2 ^ e) hpos
  unfold finishFv
  have hc1 : ¬ (L < n ∧ ¬ i.resizable = true) := fun hc => hc.2 hrz
  have hsw : (st.ffs3 && G == guidFFS2) = false := by rw [hf]; rfl
  simp only [hn', hL, hG, hb, hh, hp, hgrow, hrz, not_true_eq_false, and_false, if_false, if_true, hsz0, hag, hsw,
    Bool.false_eq_true]
  have hbuf : (if alignUp n (2 ^ e) > n then
        fvHeaderCk zv G L attrs eho rsv rev (b0 :: bs) ++ Y ++ List.replicate (alignUp n (2 ^ e) - n) 0xFF
      else fvHeaderCk zv G L attrs eho rsv rev (b0 :: bs) ++ Y) =
      fvHeaderCk zv G L attrs eho rsv rev (b0 :: bs) ++ (Y ++ ffs (alignUp n (2 ^ e) - n)) := by
    split
    · simp [ffs]
    · have : alignUp n (2 ^ e) - n = 0 := by omega
      rw [this]; simp [ffs]
  rw [hbuf, patchFvHeader_set zv G L (alignUp n (2 ^ e)) attrs eho rsv rev b0
    (alignUp n (2 ^ e) / b0.size % 4294967296) bs _ hz hg hhl]
  refine ⟨_, rfl, ?_, ?_, ?_, ?_, ?_, ?_, ?_, ?_⟩
  all_goals first | rfl | exact hh.symm

/-- what the second half of the FirmwareVolume case does to a volume with a well-formed header:
    the volume keeps its length, or (nested volumes) grows to the next multiple of its block size;
    header length and block count are patched, the checksum restored, the tail erased -/
theorem finishFv_gram (i : FvInfo) (k : Skel) (hk : k.Ok) (hi : InfoOf i k) (Y : Bytes) (st : St)
    (hp : st.pol = 0xFF) (hf : st.ffs3 = false) (i' : FvInfo) (out : Bytes) (st' : St) (n : Nat)
    (hn' : (fvHeaderCk k.zv k.guid k.len k.attrs (ehoOf k.blocks k.ext) k.rsv k.rev k.blocks ++ Y).length = n)
    (hn : n < 2 ^ 62) (hpre : k.pre ≤ n) (hbne : k.blocks ≠ [])
    (h : finishFv i (fvHeaderCk k.zv k.guid k.len k.attrs (ehoOf k.blocks k.ext) k.rsv k.rev k.blocks ++ Y) st =
      .ok (i', out, st')) :
    ∃ (L' : Nat) (blocks' : List Block),
      blocks'.length = k.blocks.length ∧ ({ k with len := L', blocks := blocks' } : Skel).Ok ∧
      InfoOf i' { k with len := L', blocks := blocks' } ∧ n ≤ L' ∧ st' = st ∧
      out = fvHeaderCk k.zv k.guid L' k.attrs (ehoOf k.blocks k.ext) k.rsv k.rev blocks' ++ (Y ++ ffs (L' - n)) ∧
      i'.freeSpace = L' - alignUp n 8 ∧ i'.resizable = i.resizable ∧
      (i.resizable = false → L' = k.len ∧ blocks' = k.blocks) := by
  have hgl : k.guid.length = 16 := by unfold Skel.guid; exact guid_v3_length k.v3
  have ha8 : align8 n = alignUp n 8 := align8_eq n (by omega)
  have hau := alignUp8 n
  cases hb : k.blocks with
  | nil => exact absurd hb hbne
  | cons b0 bs =>
    rw [hb] at h hn'
    by_cases hgrow : i.length < n
    · by_cases hrz : i.resizable = true
      · obtain ⟨e, he3, he31, hsz⟩ := hk.hb0 b0 bs hb
        have hpos : 0 < 2 ^ e := Nat.pow_pos (by decide)
        obtain ⟨i2, hfin, h1, h2, h3, h4, h5, h6, h7, h8⟩ := finishFv_grow i k.zv k.guid k.len k.attrs
          (ehoOf (b0 :: bs) k.ext) k.rsv k.rev b0 bs Y st e n hi.hlen (by rw [hi.hblocks, hb]) hi.hguid
          (by rw [hi.hhl, hb]) hk.hzv hgl (by rw [← hb]; exact hk.hhdr) hn' (by rw [← hi.hlen]; exact hgrow) hrz
          hsz he31 hn hp hf
        rw [hfin] at h
        cases h
        have hge := alignUp_ge n (2 ^ e) hpos
        have hlt := alignUp_lt n (2 ^ e) hpos
        have hle : 2 ^ e ≤ 2 ^ 31 := Nat.pow_le_pow_right (by decide) he31
        obtain ⟨m, hm, hm0⟩ := pow2_mul8 e he3
        have hmod8 : alignUp n (2 ^ e) % 8 = 0 := by
          have : alignUp n (2 ^ e) = 2 ^ e * (alignUp n (2 ^ e) / 2 ^ e) := by
            have h1 := alignUp_mod n (2 ^ e)
            have := Nat.div_add_mod (alignUp n (2 ^ e)) (2 ^ e); omega
          rw [this, hm, Nat.mul_assoc]
          exact Nat.mul_mod_right _ _
        have hbo := hk.hblocks
        rw [hb] at hbo
        simp only [List.all_cons, Bool.and_eq_true] at hbo
        have hb0ok := hbo.1
        simp only [blockOk, Bool.and_eq_true, decide_eq_true_eq, Bool.not_eq_true', Bool.and_eq_false_iff,
          beq_eq_false_iff_ne, ne_eq] at hb0ok
        have hsz0 : ¬ b0.size = 0 := by rw [hsz]; omega
        have heho : ∀ c, ehoOf ({ b0 with count := c } :: bs) k.ext = ehoOf (b0 :: bs) k.ext := by
          intro c; cases k.ext <;> rfl
        have hpre' : ∀ c, preLen ({ b0 with count := c } :: bs) k.ext = preLen (b0 :: bs) k.ext := by
          intro c; cases k.ext <;> rfl
        generalize hL' : alignUp n (2 ^ e) = L' at *
        refine ⟨L', { b0 with count := L' / b0.size % 4294967296 } :: bs, rfl, ?_, ?_, hge, st_eta st hf, rfl, ?_, h8,
          fun hc => by rw [hrz] at hc; cases hc⟩
        · refine ⟨hk.hzv, hk.hattrs, hk.hpol, hk.hrev, hk.hrsv, ?_,
            by have := hk.hhdr; rw [hb] at this; exact this, ?_, hmod8, ?_, by simp only; omega, ?_, ?_⟩
          · simp only [List.all_cons, Bool.and_eq_true]
            refine ⟨?_, hbo.2⟩
            simp only [blockOk, Bool.and_eq_true, decide_eq_true_eq, Bool.not_eq_true', Bool.and_eq_false_iff,
              beq_eq_false_iff_ne, ne_eq]
            exact ⟨⟨Nat.mod_lt _ (by decide), hb0ok.1.2⟩, Or.inr hsz0⟩
          · intro ex hex
            obtain ⟨x1, x2, x3, x4⟩ := hk.hext ex hex
            rw [hb] at x2 x4
            refine ⟨x1, by simp only [heho]; exact x2, x3, ?_⟩
            simp only [heho]
            have := hi.hlen
            omega
          · have := hk.hlen64; have := hi.hlen; simp only; omega
          · simp only [Skel.pre, hpre']; unfold Skel.pre at hpre; rw [hb] at hpre; omega
          · intro c0 cs hc
            simp only [List.cons.injEq] at hc
            refine ⟨e, he3, he31, ?_⟩
            rw [← hc.1]; exact hsz
        · exact ⟨h1, h2, h3, by rw [h4, hi.hhl, hb]; rfl, by rw [h5, hi.hdo]; simp only [Skel.pre, hpre', hb],
            by rw [h6]; exact hi.hattrs⟩
        · rw [h7, ha8]
          have : alignUp n 8 ≤ L' := by omega
          omega
      · exfalso
        unfold finishFv at h
        have hc1 : i.length < n ∧ ¬ i.resizable = true := ⟨hgrow, hrz⟩
        simp only [hn', hc1, and_self, if_true] at h
        cases h
    · have hL : n ≤ k.len := by have := hi.hlen; omega
      have hfin := finishFv_id i k.zv k.guid k.len k.attrs (ehoOf (b0 :: bs) k.ext) k.rsv k.rev b0 bs Y st
        hi.hlen (by rw [hi.hblocks, hb]) hi.hguid (by rw [hi.hhl, hb]) hk.hzv hgl (by rw [← hb]; exact hk.hhdr)
        (by rw [hn']; exact hL) hp (by rw [hf]; intro hc; cases hc.1)
      rw [hn'] at hfin
      rw [hfin] at h
      cases h
      refine ⟨k.len, b0 :: bs, rfl, ?_, ?_, hL, st_eta st hf, rfl, ?_, rfl, fun _ => ⟨rfl, rfl⟩⟩
      · rw [← hb]; exact hk
      · rw [← hb]; exact ⟨hi.hlen, hi.hblocks, hi.hguid, hi.hhl, hi.hdo, hi.hattrs⟩
      · simp only
        rw [ha8]
        have h8 := hk.hlen8
        have hlt := hk.hlenlt
        have : alignUp n 8 ≤ k.len := by omega
        omega

/-! ### header parameters: what depends on the block map only through its length -/

theorem hdr_congr (blocks blocks' : List Block) (ext : Option ExtI) (h : blocks'.length = blocks.length) :
    fvHdrLen blocks' = fvHdrLen blocks ∧ ehoOf blocks' ext = ehoOf blocks ext ∧
    preBytes blocks' ext = preBytes blocks ext ∧ preLen blocks' ext = preLen blocks ext := by
  have h1 : fvHdrLen blocks' = fvHdrLen blocks := by unfold fvHdrLen; rw [h]
  cases ext with
  | none => exact ⟨h1, rfl, rfl, by simp only [preLen, h1]⟩
  | some e => exact ⟨h1, by simp only [ehoOf, h1], by simp only [preBytes, h1], by simp only [preLen, h1]⟩

theorem Skel.hdr_length (k : Skel) (hk : k.Ok) : k.hdr.length = k.pre := by
  have hgl : k.guid.length = 16 := by unfold Skel.guid; exact guid_v3_length k.v3
  unfold Skel.hdr Skel.pre
  rw [List.length_append, fvHeaderCk_length _ _ _ _ _ _ _ _ hk.hzv hgl]
  exact preBytes_length k.blocks k.ext (fun e he => (hk.hext e he).1)

theorem Skel.pre_lt (k : Skel) (hk : k.Ok) : k.pre < 2 ^ 33 := by
  unfold Skel.pre
  have hh := hk.hhdr
  cases hx : k.ext with
  | none => simp only [preLen]; omega
  | some e =>
    obtain ⟨_, h2, h3, _⟩ := hk.hext e hx
    rw [hx] at h2
    simp only [ehoOf] at h2
    have := alignUp_lt (fvHdrLen k.blocks + e.gap.length + 20 + e.data.length) 8 (by decide)
    simp only [preLen]
    omega

theorem Skel.pre_ge (k : Skel) : 64 ≤ k.pre := preLen_ge k.blocks k.ext

end Fiano.Uefi.Exact
