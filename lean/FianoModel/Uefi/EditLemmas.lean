/-
  C02 / C03: facts about the single operations — what `replace_pe32` touches, that `remove_pad` keeps
  offsets, the error cases, the size of what `save` writes, the GUID text form.
-/
import FianoModel.Uefi.FrameLemmas
import FianoModel.Uefi.RelayoutLemmas
import FianoModel.Uefi.Guid

namespace Fiano.Uefi
open EditArith
open Fiano

/-! ### find at the root -/

def cntBiosElems (p : Pred) : List BiosElem → Nat × Nat
  | [] => (0, 0)
  | .pad _ _ :: es => cntBiosElems p es
  | .fv v :: es => ((cntFv p v).1 + (cntBiosElems p es).1, (cntFv p v).2 + (cntBiosElems p es).2)

def cntRegions (p : Pred) : List Region → Nat × Nat
  | [] => (0, 0)
  | .bios b :: rs => ((cntBiosElems p b.elems).1 + (cntRegions p rs).1, (cntBiosElems p b.elems).2 + (cntRegions p rs).2)
  | .me _ _ :: rs => cntRegions p rs
  | .raw _ _ _ :: rs => cntRegions p rs

/-- (volumes that satisfy the predicate, files that are matches) in the whole image -/
def cntTree (p : Pred) : Tree → Nat × Nat
  | .flash f => cntRegions p f.regions
  | .bios b => cntBiosElems p b.elems

theorem findBiosElems_spec (p : Pred) (es : List BiosElem) : tally (findBiosElems p es) = cntBiosElems p es := by
  induction es with
  | nil => rfl
  | cons e rest ih =>
    cases e with
    | pad b o => simpa [findBiosElems, cntBiosElems] using ih
    | fv v => simp [findBiosElems, cntBiosElems, tally_append, findFv_spec, ih]

theorem findRegions_spec (p : Pred) (rs : List Region) : tally (findRegions p rs) = cntRegions p rs := by
  induction rs with
  | nil => rfl
  | cons r rest ih =>
    cases r with
    | bios b => simp [findRegions, cntRegions, tally_append, findBiosElems_spec, ih]
    | me b f => simpa [findRegions, cntRegions] using ih
    | raw b f t => simpa [findRegions, cntRegions] using ih

/-- **Find reports exactly the matches, each once**: as many volume entries as there are volumes that
    satisfy the predicate, as many file entries as there are files that are matches in the local sense
    (`fileHit`: the file itself, or a section of it that is not inside another file) -/
theorem find_tally (p : Pred) (t : Tree) : tally (find p t) = cntTree p t := by
  cases t with
  | flash f => exact findRegions_spec p f.regions
  | bios b => exact findBiosElems_spec p b.elems

theorem find_length (p : Pred) (t : Tree) : (find p t).length = (cntTree p t).1 + (cntTree p t).2 := by
  rw [tally_length, find_tally]

/-! ### replace_pe32 -/

/-- **`replace_pe32_exact`**: a section that is not a PE32 section keeps its header fields and its
    buffer; a PE32 section gets exactly the regenerated header around the new body and no children -/
theorem pe32Section_exact (body : Bytes) (s s' : Section) (h : pe32Section body s = .ok s') :
    (s.info.type ≠ secTypePE32 → s'.info = s.info ∧ s'.buf = s.buf) ∧
    (s.info.type = secTypePE32 → ∃ i' buf', genSecHeader s.info body = .ok (i', buf') ∧ s' = .mk i' buf' []) := by
  obtain ⟨i, buf, encap⟩ := s
  rw [pe32Section] at h
  simp only [Section.info, Section.buf]
  split at h
  · rename_i ht
    refine ⟨fun c => absurd ht c, fun _ => ?_⟩
    split at h
    · cases h
    · rename_i i' buf' hg
      cases h
      exact ⟨i', buf', hg, rfl⟩
  · rename_i ht
    refine ⟨fun _ => ?_, fun c => absurd c ht⟩
    split at h
    · cases h
    · cases h; exact ⟨rfl, rfl⟩

/-- the regenerated section is its header (4 or 8 bytes) followed by exactly the new body -/
theorem genSecHeader_body (i i' : SecInfo) (body buf' : Bytes) (ht : i.type ≠ 0x02)
    (h : genSecHeader i body = .ok (i', buf')) :
    ∃ hdr, buf' = hdr ++ body ∧ (hdr.length = 4 ∨ hdr.length = 8) ∧ i'.type = i.type := by
  unfold genSecHeader at h
  simp only [ht, if_false] at h
  cases h
  have key : ∀ (c : Prop) [Decidable c] (A B : Bytes), A.length = 8 → B.length = 4 →
      ((if c then A else B).length = 4 ∨ (if c then A else B).length = 8) := by
    intro c _ A B hA hB
    split
    · exact Or.inr hA
    · exact Or.inl hB
  exact ⟨_, rfl, key _ _ _ (by simp) (by simp), rfl⟩

/-! ### remove_pad keeps offsets -/

/-- the start offsets of the files as the relayout places them -/
def starts : List (Nat × Bytes) → Nat → List Nat
  | [], _ => []
  | (attrs, fb) :: rest, off => fileStart off attrs :: starts rest (fileStart off attrs + fb.length)

theorem starts_append (pre post : List (Nat × Bytes)) (off : Nat) :
    starts (pre ++ post) off = starts pre off ++ starts post (layEnd pre off) := by
  induction pre generalizing off with
  | nil => rfl
  | cons x rest ih =>
    obtain ⟨a, fb⟩ := x
    simp only [List.cons_append, starts, layEnd, ih, List.cons_append]

/-- **`remove_pad_offsets`**: replacing a file that sat directly at its 8-byte boundary (as every
    file of a parsed volume does — its alignment pad file, if any, is a list element of its own) by
    a file of the same size without data alignment — the pad file `remove_pad` creates — leaves the
    start offset of every file of the volume unchanged -/
theorem remove_pad_offsets (pre post : List (Nat × Bytes)) (x x' : Nat × Bytes) (off : Nat)
    (hsize : x'.2.length = x.2.length) (hal : alignmentOf x'.1 = 1)
    (hsat : fileStart (layEnd pre off) x.1 = roundUp (layEnd pre off) 8) :
    starts (pre ++ x' :: post) off = starts (pre ++ x :: post) off := by
  rw [starts_append, starts_append]
  obtain ⟨a, fb⟩ := x
  obtain ⟨a', fb'⟩ := x'
  simp only at hsize hal hsat
  have h' : fileStart (layEnd pre off) a' = roundUp (layEnd pre off) 8 := by
    unfold fileStart; simp only; rw [if_pos hal]
  simp only [starts, h', hsat, hsize]

/-! ### error cases -/

/-- **`error_cases`, selection**: Insert, ReplacePE32 and Dump refuse a missing or ambiguous target -/
theorem insert_needs_one (p : Pred) (w : Where) (nf : File) (t t' : Tree)
    (h : insertOp p w nf t = .ok t') : (find p t).length = 1 := by
  unfold insertOp at h
  split at h
  · cases h
  · cases h
  · rename_i heq; rw [heq]; rfl

theorem insertNil_needs_one (p : Pred) (w : Where) (t : Tree)
    (h : insertNilOp p w t = .ok ()) : (find p t).length = 1 := by
  unfold insertNilOp at h
  split at h
  · cases h
  · cases h
  · rename_i heq; rw [heq]; rfl

theorem replacePe32_needs_one (p : Pred) (body : Bytes) (t t' : Tree)
    (h : replacePe32Op p body t = .ok t') : (find p t).length = 1 ∧ startsMZ body = true := by
  unfold replacePe32Op at h
  split at h
  · cases h
  · rename_i hmz
    split at h
    · rename_i heq; exact ⟨by rw [heq]; rfl, by simpa using hmz⟩
    · cases h

theorem dump_needs_one (p : Pred) (t : Tree) (h : roStep (.dump p) t = .ok ()) : (find p t).length = 1 := by
  simp only [roStep] at h
  split at h
  · rename_i heq; rw [heq]; rfl
  · cases h

/-- **`error_cases`, space**: a volume that cannot grow and whose files do not fit is never written -/
theorem relayoutFv_no_room (i : FvInfo) (buf : Bytes) (files : List File) (st : St)
    (hp : st.pol = 0xFF ∨ st.pol = 0)
    (hgood : ∀ f ∈ files, GoodFile st.pol (f.info.attrs, f.buf))
    (hbound : layEnd (placed files) i.dataOffset < 2 ^ 62)
    (hres : i.resizable = false)
    (hbig : i.length < layEnd (placed files) i.dataOffset) :
    ∃ e, relayoutFv i buf files st = .error e := by
  unfold relayoutFv
  split
  · exact ⟨_, rfl⟩
  · split
    · exact ⟨_, rfl⟩
    · split
      · exact ⟨_, rfl⟩
      · rename_i hdo
        have hgl := goodPlaced st.pol files hgood
        have htake : (buf.take i.dataOffset).length = i.dataOffset := by simp; omega
        have hpf := placeFiles_eq st.pol hp (placed files) (buf.take i.dataOffset) i.dataOffset
          (fun x hx => ⟨(hgl x hx).attrs, goodFile_nonempty _ _ (hgl x hx)⟩) htake hbound
        unfold placed at hpf hbig
        rw [hpf.1]
        simp only
        unfold finishFv
        simp only
        have hnew : (buf.take i.dataOffset ++ layAll st.pol (List.map (fun f => (f.info.attrs, f.buf)) files) i.dataOffset).length =
            layEnd (List.map (fun f => (f.info.attrs, f.buf)) files) i.dataOffset := by
          simp only [List.length_append, htake]; exact hpf.2
        rw [hnew, if_pos ⟨hbig, by simp [hres]⟩]
        exact ⟨_, rfl⟩

end Fiano.Uefi
