/-
  C05 (follow-up wp-c05b) — `Assemble` after the edit operations (TotalAsmEdit.lean).

  The strong invariant `TreeA true` (TotalAsmSafe.lean: as `TreeA false`, and also the volumes *without* files
  have their data offset inside their buffer) is kept by every modelled edit operation — insert (all six
  forms) of a file whose buffer is not empty, remove / remove_pad, replace_pe32 — and by `save` itself
  (`assembleG_post`); the edit operations fail with ordinary errors only.  Hence every run of
  `utk <image> <ops…>` from a `TreeA true` tree is safe (`runEditG_post`).

  The two hypotheses are necessary — both exceptions are reproduced on the real code (reports/C05.md) and
  `decide`-checked on the model in Props/C05.lean:
    * insert of a blob that `NewFile` parses to a file with an *empty* buffer (size field 0): the next `save`
      ends in `log.Fatalf`;
    * insert into a volume that parsed *without files* and whose `DataOffset` lies beyond its buffer (`HeaderLen`
      is not checked against `Length` when no file is parsed): the next `save` slices `fBuf[:DataOffset]`.
  (A third one is the known quirk of Visitors.lean: a blob that looks like free space parses to a nil
  `*uefi.File`, which every later walk dereferences — `Op.insert _ _ none`, excluded by `OpOk`.)
-/
import FianoModel.Uefi.TotalAsmEdit
import FianoModel.Uefi.TotalAsmTree

namespace Fiano.Uefi.Total
open Fiano GoM Fiano.Uefi

/-- the result of a functional edit step: a good value, or an *ordinary* error -/
def RwQ {α} (P : α → Prop) (r : Except Err α) : Prop :=
  match r with
  | .ok a => P a
  | .error e => e = .err

theorem rwQ_ok {α} {P : α → Prop} {a : α} (h : P a) : RwQ P (.ok a) := h
theorem rwQ_err {α} {P : α → Prop} : RwQ P (.error .err) := rfl
theorem rwQ_ite {α} {P : α → Prop} {c : Prop} [Decidable c] {a b : Except Err α}
    (ha : c → RwQ P a) (hb : ¬ c → RwQ P b) : RwQ P (if c then a else b) := by
  split
  · exact ha ‹_›
  · exact hb ‹_›

/-- what an editor may do at a volume / at a file -/
structure EditorOk (E : Editor) : Prop where
  fvOk : ∀ v r, FvA true v → E.fv v = some r → RwQ (FilesA true) r
  fileOk : ∀ f r, FileA true f → E.file f = some r →
    RwQ (fun o => match o with | some f' => FileA true f' | none => True) r

mutual

theorem rwSection_ok (E : Editor) (hE : EditorOk E) : ∀ (s : Section), SecA true s → RwQ (SecA true) (rwSection E s)
  | .mk i buf encap, hw => by
    rw [rwSection]
    simp only [SecA] at hw
    have ih := rwNodes_ok E hE encap hw.2
    split
    · rename_i e he; rw [he] at ih; exact ih
    · rename_i encap' he
      rw [he] at ih
      exact rwQ_ok (by simp only [SecA]; exact ⟨hw.1, ih⟩)

theorem rwNodes_ok (E : Editor) (hE : EditorOk E) : ∀ (ns : List Node), NodesA true ns → RwQ (NodesA true) (rwNodes E ns)
  | [], _ => by rw [rwNodes]; exact rwQ_ok (by simp [NodesA])
  | .sec s :: ns, hw => by
    rw [rwNodes]
    simp only [NodesA] at hw
    have ih1 := rwSection_ok E hE s hw.1
    have ih2 := rwNodes_ok E hE ns hw.2
    split
    · rename_i e he; rw [he] at ih1; exact ih1
    · rename_i s' he
      rw [he] at ih1
      split
      · rename_i e he2; rw [he2] at ih2; exact ih2
      · rename_i ns' he2
        rw [he2] at ih2
        exact rwQ_ok (by simp only [NodesA]; exact ⟨ih1, ih2⟩)
  | .fv v :: ns, hw => by
    rw [rwNodes]
    simp only [NodesA] at hw
    have ih1 := rwFv_ok E hE v hw.1
    have ih2 := rwNodes_ok E hE ns hw.2
    split
    · rename_i e he; rw [he] at ih1; exact ih1
    · rename_i v' he
      rw [he] at ih1
      split
      · rename_i e he2; rw [he2] at ih2; exact ih2
      · rename_i ns' he2
        rw [he2] at ih2
        exact rwQ_ok (by simp only [NodesA]; exact ⟨ih1.1, ih2⟩)

theorem rwSections_ok (E : Editor) (hE : EditorOk E) : ∀ (ss : List Section), SecsA true ss →
    RwQ (SecsA true) (rwSections E ss)
  | [], _ => by rw [rwSections]; exact rwQ_ok (by simp [SecsA])
  | s :: ss, hw => by
    rw [rwSections]
    simp only [SecsA] at hw
    have ih1 := rwSection_ok E hE s hw.1
    have ih2 := rwSections_ok E hE ss hw.2
    split
    · rename_i e he; rw [he] at ih1; exact ih1
    · rename_i s' he
      rw [he] at ih1
      split
      · rename_i e he2; rw [he2] at ih2; exact ih2
      · rename_i ss' he2
        rw [he2] at ih2
        exact rwQ_ok (by simp only [SecsA]; exact ⟨ih1, ih2⟩)

theorem rwFile_ok (E : Editor) (hE : EditorOk E) : ∀ (f : File), FileA true f →
    RwQ (fun o => match o with | some f' => FileA true f' | none => True) (rwFile E f)
  | .mk i buf secs, hw => by
    rw [rwFile]
    split
    · rename_i r hr
      exact hE.fileOk _ r hw hr
    · simp only [FileA] at hw
      split
      · exact rwQ_ok (by simp only [FileA]; exact hw)
      · have ih := rwSections_ok E hE secs hw.2
        split
        · rename_i e he; rw [he] at ih; exact ih
        · rename_i secs' he
          rw [he] at ih
          exact rwQ_ok (by simp only [FileA]; exact ⟨hw.1, ih⟩)

theorem rwFiles_ok (E : Editor) (hE : EditorOk E) : ∀ (fs : List File), FilesA true fs →
    RwQ (FilesA true) (rwFiles E fs)
  | [], _ => by rw [rwFiles]; exact rwQ_ok (by simp [FilesA])
  | f :: fs, hw => by
    rw [rwFiles]
    simp only [FilesA] at hw
    have ih1 := rwFile_ok E hE f hw.1
    have ih2 := rwFiles_ok E hE fs hw.2
    split
    · rename_i e he; rw [he] at ih1; exact ih1
    · rename_i r he
      rw [he] at ih1
      split
      · rename_i e he2; rw [he2] at ih2; exact ih2
      · rename_i rs he2
        rw [he2] at ih2
        split
        · exact rwQ_ok (by simp only [FilesA]; exact ⟨ih1, ih2⟩)
        · exact rwQ_ok ih2

theorem rwFv_ok (E : Editor) (hE : EditorOk E) : ∀ (v : Fv), FvA true v →
    RwQ (fun v' => FvA true v' ∧ v'.info = v.info ∧ v'.buf = v.buf) (rwFv E v)
  | .mk i buf files, hw => by
    rw [rwFv]
    have hw' := hw
    simp only [FvA] at hw
    split
    · rename_i e he
      have := hE.fvOk _ _ hw' he
      exact this
    · rename_i files' he
      have := hE.fvOk _ _ hw' he
      exact rwQ_ok ⟨by simp only [FvA]; exact ⟨fun _ => hw.1 (Or.inl trivial), this⟩, rfl, rfl⟩
    · have ih := rwFiles_ok E hE files hw.2
      split
      · rename_i e he; rw [he] at ih; exact ih
      · rename_i files' he
        rw [he] at ih
        exact rwQ_ok ⟨by simp only [FvA]; exact ⟨fun _ => hw.1 (Or.inl trivial), ih⟩, rfl, rfl⟩

end

theorem rwBiosElems_ok (E : Editor) (hE : EditorOk E) : ∀ (es : List BiosElem), ElemsA true es →
    RwQ (fun es' => ElemsA true es' ∧ elemsLen es' = elemsLen es) (rwBiosElems E es)
  | [], _ => by rw [rwBiosElems]; exact rwQ_ok ⟨by simp [ElemsA], rfl⟩
  | .pad b o :: es, hw => by
    rw [rwBiosElems]
    simp only [ElemsA] at hw
    have ih := rwBiosElems_ok E hE es hw
    split
    · rename_i e he; rw [he] at ih; exact ih
    · rename_i es' he
      rw [he] at ih
      exact rwQ_ok ⟨by simp only [ElemsA]; exact ih.1, by simp only [elemsLen]; have := ih.2; omega⟩
  | .fv v :: es, hw => by
    rw [rwBiosElems]
    simp only [ElemsA] at hw
    have ih1 := rwFv_ok E hE v hw.1.1
    have ih2 := rwBiosElems_ok E hE es hw.2
    split
    · rename_i e he; rw [he] at ih1; exact ih1
    · rename_i v' he
      rw [he] at ih1
      split
      · rename_i e he2; rw [he2] at ih2; exact ih2
      · rename_i es' he2
        rw [he2] at ih2
        obtain ⟨hv', hi, hb⟩ := ih1
        refine rwQ_ok ⟨?_, ?_⟩
        · simp only [ElemsA]
          exact ⟨⟨hv', by rw [hi]; exact hw.1.2.1, by rw [hi, hb]; exact hw.1.2.2⟩, ih2.1⟩
        · simp only [elemsLen, BiosElem.buf, hb]
          have := ih2.2
          omega

theorem rwBios_ok (E : Editor) (hE : EditorOk E) (b : BiosRegion) (hw : BiosA true b) :
    RwQ (fun b' => BiosA true b' ∧ b'.fr = b.fr) (rwBios E b) := by
  unfold rwBios
  have ih := rwBiosElems_ok E hE b.elems hw.1
  split
  · rename_i e he; rw [he] at ih; exact ih
  · rename_i es he
    rw [he] at ih
    exact rwQ_ok ⟨⟨ih.1, by simp only []; have := ih.2; have := hw.2; omega⟩, rfl⟩

theorem rwRegions_ok (E : Editor) (hE : EditorOk E) : ∀ (rs : List Region), (∀ r ∈ rs, RegionA true r) →
    RwQ (fun rs' => ∀ r ∈ rs', RegionA true r) (rwRegions E rs)
  | [], _ => by rw [rwRegions]; exact rwQ_ok (by simp)
  | .bios b :: rs, hw => by
    rw [rwRegions]
    have hb := hw (.bios b) (by simp)
    have ih1 := rwBios_ok E hE b hb.1
    have ih2 := rwRegions_ok E hE rs (fun r hr => hw r (by simp [hr]))
    split
    · rename_i e he; rw [he] at ih1; exact ih1
    · rename_i b' he
      rw [he] at ih1
      split
      · rename_i e he2; rw [he2] at ih2; exact ih2
      · rename_i rs' he2
        rw [he2] at ih2
        refine rwQ_ok ?_
        intro x hx
        simp only [List.mem_cons] at hx
        rcases hx with hx | hx
        · subst hx; exact ⟨ih1.1, by rw [ih1.2]; exact hb.2⟩
        · exact ih2 x hx
  | .me buf fr :: rs, hw => by
    rw [rwRegions]
    · have ih2 := rwRegions_ok E hE rs (fun r hr => hw r (by simp [hr]))
      split
      · rename_i e he2; rw [he2] at ih2; exact ih2
      · rename_i rs' he2
        rw [he2] at ih2
        refine rwQ_ok ?_
        intro x hx
        simp only [List.mem_cons] at hx
        rcases hx with hx | hx
        · subst hx; trivial
        · exact ih2 x hx
    · intro b hb; cases hb
  | .raw buf fr t :: rs, hw => by
    rw [rwRegions]
    · have ih2 := rwRegions_ok E hE rs (fun r hr => hw r (by simp [hr]))
      split
      · rename_i e he2; rw [he2] at ih2; exact ih2
      · rename_i rs' he2
        rw [he2] at ih2
        refine rwQ_ok ?_
        intro x hx
        simp only [List.mem_cons] at hx
        rcases hx with hx | hx
        · subst hx; trivial
        · exact ih2 x hx
    · intro b hb; cases hb

theorem rwTree_ok (E : Editor) (hE : EditorOk E) : ∀ (t : Tree), TreeA true t → RwQ (TreeA true) (rwTree E t)
  | .flash f, hw => by
    rw [rwTree]
    have ih := rwRegions_ok E hE f.regions hw.2
    split
    · rename_i e he; rw [he] at ih; exact ih
    · rename_i rs he
      rw [he] at ih
      exact rwQ_ok ⟨hw.1, ih⟩
  | .bios b, hw => by
    rw [rwTree]
    have ih := rwBios_ok E hE b hw
    split
    · rename_i e he; rw [he] at ih; exact ih
    · rename_i b' he
      rw [he] at ih
      exact rwQ_ok ih.1

/-! ### the editors of the modelled operations -/

theorem filesA_append (a b : List File) (ha : FilesA true a) (hb : FilesA true b) : FilesA true (a ++ b) := by
  induction a with
  | nil => simpa using hb
  | cons x xs ih => simp only [List.cons_append, FilesA] at ha ⊢; exact ⟨ha.1, ih ha.2⟩

theorem filesA_take (n : Nat) : ∀ (a : List File), FilesA true a → FilesA true (a.take n) := by
  induction n with
  | zero => intro a _; simp [FilesA]
  | succ n ih =>
    intro a ha
    cases a with
    | nil => simp [FilesA]
    | cons x xs => simp only [List.take_succ_cons, FilesA] at ha ⊢; exact ⟨ha.1, ih xs ha.2⟩

theorem filesA_drop (n : Nat) : ∀ (a : List File), FilesA true a → FilesA true (a.drop n) := by
  induction n with
  | zero => intro a ha; simpa using ha
  | succ n ih =>
    intro a ha
    cases a with
    | nil => simp [FilesA]
    | cons x xs => simp only [List.drop_succ_cons]; simp only [FilesA] at ha; exact ih xs ha.2

theorem filesA_insertAt (w : Where) (nf : File) (files : List File) (i : Nat)
    (hnf : FileA true nf) (hf : FilesA true files) : FilesA true (insertAt w nf files i) := by
  have hcons : ∀ l, FilesA true l → FilesA true (nf :: l) := fun l hl => by simp only [FilesA]; exact ⟨hnf, hl⟩
  unfold insertAt
  cases w <;> simp only []
  · exact hcons _ hf
  · exact filesA_append _ _ hf (hcons _ (by simp [FilesA]))
  · exact filesA_append _ _ (filesA_take _ _ hf) (hcons _ (filesA_drop _ _ hf))
  · exact filesA_append _ _ (filesA_take _ _ hf) (hcons _ (filesA_drop _ _ hf))
  · exact filesA_append _ _ (filesA_take _ _ hf) (hcons _ (filesA_drop _ _ hf))
  · exact filesA_append _ _ hf (hcons _ (by simp [FilesA]))

theorem fvA_files : ∀ (v : Fv), FvA true v → FilesA true v.files
  | .mk _ _ files, h => by simp only [FvA] at h; exact h.2

theorem insertFileEditor_ok (p : Pred) (w : Where) (nf : File) (hnf : FileA true nf) :
    EditorOk (insertFileEditor p w nf) where
  fvOk := by
    intro v r hv hr
    simp only [insertFileEditor] at hr
    split at hr
    · cases hr
      exact rwQ_ok (filesA_insertAt w nf _ _ hnf (fvA_files v hv))
    · cases hr
  fileOk := by
    intro f r _ hr
    simp [insertFileEditor] at hr

theorem insertFvEditor_ok (p : Pred) (w : Where) (nf : File) (hnf : FileA true nf) :
    EditorOk (insertFvEditor p w nf) where
  fvOk := by
    intro v r hv hr
    simp only [insertFvEditor] at hr
    split at hr
    · split at hr
      · cases hr
        exact rwQ_ok (by simp only [FilesA]; exact ⟨hnf, fvA_files v hv⟩)
      · cases hr
        exact rwQ_ok (filesA_append _ _ (fvA_files v hv) (by simp only [FilesA]; exact ⟨hnf, trivial⟩))
      · cases hr
        exact rwQ_err
    · cases hr
  fileOk := by
    intro f r _ hr
    simp [insertFvEditor] at hr

theorem mkPadFile_ok (pol : UInt8) (size : Nat) : RwQ (FileA true) (mkPadFile pol size) := by
  unfold mkPadFile
  split
  · exact rwQ_err
  · split
    · exact rwQ_err
    · refine rwQ_ok ?_
      simp only [FileA, SecsA, and_true, checksumAndAssemble]
      exact encodeFileHeader_append_ne _ _ _ _ _

theorem removeEditor_ok (p : Pred) (pad : Bool) (pol : UInt8) : EditorOk (removeEditor p pad pol) where
  fvOk := by
    intro v r _ hr
    simp [removeEditor] at hr
  fileOk := by
    intro f r _ hr
    simp only [removeEditor] at hr
    split at hr
    · split at hr
      · have hp := mkPadFile_ok pol f.info.extSize
        split at hr
        · rename_i e he
          rw [he] at hp
          cases hr
          exact hp
        · rename_i pf he
          rw [he] at hp
          cases hr
          exact rwQ_ok hp
      · cases hr
        exact rwQ_ok trivial
    · cases hr

/-- the functional `genSecHeader` on a section that is not GUID-defined: always a value, type kept -/
theorem genSecHeader_not2 (i : SecInfo) (body : Bytes) (h2 : i.type ≠ 2) :
    ∃ i' b', genSecHeader i body = .ok (i', b') ∧ i'.type = i.type := by
  unfold genSecHeader
  simp only [if_neg h2]
  exact ⟨_, _, rfl, rfl⟩

mutual
theorem pe32Section_ok (body : Bytes) : ∀ (s : Section), SecA true s → RwQ (SecA true) (pe32Section body s)
  | .mk i buf encap, hw => by
    rw [pe32Section]
    simp only [SecA] at hw
    split
    · rename_i ht
      have h2 : i.type ≠ 2 := by rw [ht]; decide
      obtain ⟨i', b', hg, hty⟩ := genSecHeader_not2 i body h2
      rw [hg]
      exact rwQ_ok (by simp only [SecA, NodesA, and_true]; intro h; rw [hty] at h; exact absurd h h2)
    · have ih := pe32Nodes_ok body encap hw.2
      split
      · rename_i e he; rw [he] at ih; exact ih
      · rename_i encap' he
        rw [he] at ih
        exact rwQ_ok (by simp only [SecA]; exact ⟨hw.1, ih⟩)
theorem pe32Nodes_ok (body : Bytes) : ∀ (ns : List Node), NodesA true ns → RwQ (NodesA true) (pe32Nodes body ns)
  | [], _ => by rw [pe32Nodes]; exact rwQ_ok (by simp [NodesA])
  | .sec s :: ns, hw => by
    rw [pe32Nodes]
    simp only [NodesA] at hw
    have ih1 := pe32Section_ok body s hw.1
    have ih2 := pe32Nodes_ok body ns hw.2
    split
    · rename_i e he; rw [he] at ih1; exact ih1
    · rename_i s' he
      rw [he] at ih1
      split
      · rename_i e he2; rw [he2] at ih2; exact ih2
      · rename_i ns' he2
        rw [he2] at ih2
        exact rwQ_ok (by simp only [NodesA]; exact ⟨ih1, ih2⟩)
  | .fv v :: ns, hw => by
    rw [pe32Nodes]
    simp only [NodesA] at hw
    have ih2 := pe32Nodes_ok body ns hw.2
    split
    · rename_i e he2; rw [he2] at ih2; exact ih2
    · rename_i ns' he2
      rw [he2] at ih2
      exact rwQ_ok (by simp only [NodesA]; exact ⟨hw.1, ih2⟩)
end

theorem pe32Sections_ok (body : Bytes) : ∀ (ss : List Section), SecsA true ss → RwQ (SecsA true) (pe32Sections body ss)
  | [], _ => by rw [pe32Sections]; exact rwQ_ok (by simp [SecsA])
  | s :: ss, hw => by
    rw [pe32Sections]
    simp only [SecsA] at hw
    have ih1 := pe32Section_ok body s hw.1
    have ih2 := pe32Sections_ok body ss hw.2
    split
    · rename_i e he; rw [he] at ih1; exact ih1
    · rename_i s' he
      rw [he] at ih1
      split
      · rename_i e he2; rw [he2] at ih2; exact ih2
      · rename_i ss' he2
        rw [he2] at ih2
        exact rwQ_ok (by simp only [SecsA]; exact ⟨ih1, ih2⟩)

theorem pe32File_ok (body : Bytes) : ∀ (f : File), FileA true f → RwQ (FileA true) (pe32File body f)
  | .mk i buf secs, hw => by
    unfold pe32File
    simp only [File.info, File.secs, File.buf]
    refine rwQ_ite (fun _ => rwQ_ok hw) (fun _ => ?_)
    · simp only [FileA] at hw
      have ih := pe32Sections_ok body secs hw.2
      split
      · rename_i e he; rw [he] at ih; exact ih
      · rename_i secs' he
        rw [he] at ih
        exact rwQ_ok (by simp only [FileA]; exact ⟨hw.1, ih⟩)

theorem pe32Editor_ok (p : Pred) (body : Bytes) : EditorOk (pe32Editor p body) where
  fvOk := by
    intro v r _ hr
    simp [pe32Editor] at hr
  fileOk := by
    intro f r hf hr
    simp only [pe32Editor] at hr
    split at hr
    · have hp := pe32File_ok body f hf
      split at hr
      · rename_i e he
        rw [he] at hp
        cases hr
        exact hp
      · rename_i f' he
        rw [he] at hp
        cases hr
        exact rwQ_ok hp
    · cases hr

/-! ### the operations and the run -/

theorem insertOp_ok (p : Pred) (w : Where) (nf : File) (hnf : FileA true nf) (t : Tree) (ht : TreeA true t) :
    RwQ (TreeA true) (insertOp p w nf t) := by
  unfold insertOp
  split
  · exact rwQ_err
  · exact rwQ_err
  · split
    · exact rwTree_ok _ (insertFvEditor_ok p w nf hnf) t ht
    · exact rwTree_ok _ (insertFileEditor_ok p w nf hnf) t ht

theorem removeOp_ok (p : Pred) (pad : Bool) (pol : UInt8) (t : Tree) (ht : TreeA true t) :
    RwQ (TreeA true) (removeOp p pad pol t) :=
  rwTree_ok _ (removeEditor_ok p pad pol) t ht

theorem replacePe32Op_ok (p : Pred) (body : Bytes) (t : Tree) (ht : TreeA true t) :
    RwQ (TreeA true) (replacePe32Op p body t) := by
  unfold replacePe32Op
  split
  · exact rwQ_err
  · split
    · exact rwTree_ok _ (pe32Editor_ok p body) t ht
    · exact rwQ_err

/-- an operation the theorem covers: an inserted file is a real node with a non-empty buffer (not the nil
    `*uefi.File` of a free-space look-alike blob, not a file whose size field is 0) -/
def OpOk : Op → Prop
  | .insert _ _ (some nf) => FileA true nf
  | .insert _ _ none => False
  | _ => True

theorem postA_liftE {α} {r : Except Err α} {m : Meter} {Q : α → Meter → Prop}
    (h : RwQ (fun a => Q a m) r) : PostA (liftE r) m Q := by
  unfold liftE PostA
  cases r with
  | ok a => exact h
  | error e =>
    have : e = .err := h
    subst this
    simp [faultOfErr]

/-- the invariant of a run -/
def RunA (s : Run) : Prop := TreeA true s.tree ∧ s.nilFile = false

theorem stepEditG_post (ah : AsmHooksG) (he : EncOk ah) (hn : NvAsmOk ah) (op : Op) (s : Run) (m : Meter)
    (hs : RunA s) (hop : OpOk op) : PostA (stepEditG ah op s) m (fun s' _ => RunA s') := by
  unfold stepEditG
  rw [if_neg (by simp [hs.2])]
  cases op with
  | save =>
    simp only []
    refine postA_bind' (assembleG_post true ah he hn s.tree s.st m hs.1) ?_
    rintro ⟨t, st⟩ m1 ht
    exact postA_pure ⟨ht, hs.2⟩
  | insert p w nf =>
    simp only []
    cases nf with
    | none => exact absurd hop (by simp [OpOk])
    | some nf =>
      refine postA_liftE ?_
      unfold step
      rw [if_neg (by simp [hs.2])]
      simp only []
      have := insertOp_ok p w nf hop s.tree hs.1
      split
      · rename_i e he'; rw [he'] at this; exact this
      · rename_i t he'; rw [he'] at this; exact rwQ_ok ⟨this, hs.2⟩
  | remove p pad =>
    simp only []
    refine postA_liftE ?_
    unfold step
    rw [if_neg (by simp [hs.2])]
    simp only []
    have := removeOp_ok p pad s.st.pol s.tree hs.1
    split
    · rename_i e he'; rw [he'] at this; exact this
    · rename_i t he'; rw [he'] at this; exact rwQ_ok ⟨this, hs.2⟩
  | replacePe32 p body =>
    simp only []
    refine postA_liftE ?_
    unfold step
    rw [if_neg (by simp [hs.2])]
    simp only []
    have := replacePe32Op_ok p body s.tree hs.1
    split
    · rename_i e he'; rw [he'] at this; exact this
    · rename_i t he'; rw [he'] at this; exact rwQ_ok ⟨this, hs.2⟩
  | ro r =>
    simp only []
    refine postA_liftE ?_
    unfold step
    rw [if_neg (by simp [hs.2])]
    simp only []
    have hro : RwQ (fun _ => True) (roStep r s.tree) := by
      unfold roStep
      cases r <;> simp only [] <;> try exact rwQ_ok trivial
      split
      · exact rwQ_ok trivial
      · exact rwQ_err
    split
    · rename_i e he'; rw [he'] at hro; exact hro
    · exact rwQ_ok hs

/-- **every run of edit operations and saves is safe** from a strongly assemblable tree -/
theorem runEditG_post (ah : AsmHooksG) (he : EncOk ah) (hn : NvAsmOk ah) : ∀ (ops : List Op) (s : Run) (m : Meter),
    RunA s → (∀ op ∈ ops, OpOk op) → PostA (runEditG ah ops s) m (fun s' _ => RunA s')
  | [], s, m, hs, _ => by rw [runEditG]; exact postA_pure hs
  | op :: ops, s, m, hs, hops => by
    rw [runEditG]
    refine postA_bind' (stepEditG_post ah he hn op s m hs (hops op (by simp))) ?_
    intro s' m1 hs'
    exact runEditG_post ah he hn ops s' m1 hs' (fun o ho => hops o (by simp [ho]))

/-! ### from a parsed tree to the strong invariant: what the image has to satisfy in addition

    `EmptyVolsOk t`: every volume of the tree that holds *no file* has its data offset inside its buffer
    (`NewFirmwareVolume` checks `HeaderLen` / the extended header against `Length` only by parsing a file). -/

mutual
def SecE : Section → Prop
  | .mk _ _ encap => NodesE encap
def NodesE : List Node → Prop
  | [] => True
  | .sec s :: ns => SecE s ∧ NodesE ns
  | .fv v :: ns => FvE v ∧ NodesE ns
def SecsE : List Section → Prop
  | [] => True
  | s :: ss => SecE s ∧ SecsE ss
def FileE : File → Prop
  | .mk _ _ secs => SecsE secs
def FilesE : List File → Prop
  | [] => True
  | f :: fs => FileE f ∧ FilesE fs
def FvE : Fv → Prop
  | .mk i buf files => (files = [] → i.dataOffset ≤ buf.length) ∧ FilesE files
end

mutual
theorem secA_strong : ∀ (s : Section), SecWf s → SecE s → SecA true s
  | .mk i buf encap, h, he => by
    simp only [SecWf] at h
    simp only [SecE] at he
    simp only [SecA]
    exact ⟨h.2.2, nodesA_strong encap h.2.1 he⟩
theorem nodesA_strong : ∀ (ns : List Node), NodesWf ns → NodesE ns → NodesA true ns
  | [], _, _ => by simp [NodesA]
  | .sec s :: ns, h, he => by
    simp only [NodesWf] at h
    simp only [NodesE] at he
    simp only [NodesA]
    exact ⟨secA_strong s h.1 he.1, nodesA_strong ns h.2 he.2⟩
  | .fv v :: ns, h, he => by
    simp only [NodesWf] at h
    simp only [NodesE] at he
    simp only [NodesA]
    exact ⟨fvA_strong v h.1 he.1, nodesA_strong ns h.2 he.2⟩
theorem secsA_strong : ∀ (ss : List Section), SecsWf ss → SecsE ss → SecsA true ss
  | [], _, _ => by simp [SecsA]
  | s :: ss, h, he => by
    simp only [SecsWf] at h
    simp only [SecsE] at he
    simp only [SecsA]
    exact ⟨secA_strong s h.1 he.1, secsA_strong ss h.2 he.2⟩
theorem filesA_strong : ∀ (fs : List File), FilesWf fs → FilesE fs → FilesA true fs
  | [], _, _ => by simp [FilesA]
  | .mk i buf secs :: fs, h, he => by
    simp only [FilesWf, FileWf, File.buf] at h
    simp only [FilesE, FileE] at he
    simp only [FilesA, FileA]
    exact ⟨⟨h.1.2, secsA_strong secs h.1.1.2 he.1⟩, filesA_strong fs h.2 he.2⟩
theorem fvA_strong : ∀ (v : Fv), FvWf v → FvE v → FvA true v
  | .mk i buf files, h, he => by
    simp only [FvWf] at h
    simp only [FvE] at he
    simp only [FvA]
    obtain ⟨hl, hdo, hfs, h64⟩ := h
    refine ⟨fun _ => ?_, filesA_strong files hfs he.2⟩
    by_cases hne : files = []
    · exact ⟨he.1 hne, fun _ => by omega⟩
    · refine ⟨?_, fun _ => by omega⟩
      have := hdo hne; omega
end

def ElemsE : List BiosElem → Prop
  | [] => True
  | .pad _ _ :: es => ElemsE es
  | .fv v :: es => FvE v ∧ ElemsE es

def RegionE : Region → Prop
  | .bios b => ElemsE b.elems
  | _ => True

/-- every volume of the tree that holds no file has its data offset inside its buffer -/
def EmptyVolsOk : Tree → Prop
  | .flash f => ∀ r ∈ f.regions, RegionE r
  | .bios b => ElemsE b.elems

theorem elemsA_strong : ∀ (es : List BiosElem), ElemsWf es → ElemsFlat es → ElemsE es → ElemsA true es
  | [], _, _, _ => by simp [ElemsA]
  | .pad _ _ :: es, h1, h2, h3 => by
    simp only [ElemsWf, ElemsFlat, ElemsE] at h1 h2 h3
    simp only [ElemsA]
    exact elemsA_strong es h1 h2 h3
  | .fv v :: es, h1, h2, h3 => by
    simp only [ElemsWf, ElemsFlat, ElemsE] at h1 h2 h3
    simp only [ElemsA]
    exact ⟨⟨fvA_strong v h1.1 h3.1, h2.1, fvWf_buf_length v h1.1⟩, elemsA_strong es h1.2 h2.2 h3.2⟩

theorem regionA_strong : ∀ (r : Region), RegionWfF r → RegionE r → RegionA true r
  | .bios b, h, he => ⟨⟨elemsA_strong b.elems h.1.1 h.1.2.1 he, by have := h.1.2.2; omega⟩, by simpa [Region.fr] using h.2⟩
  | .me _ _, _, _ => trivial
  | .raw _ _ _, _, _ => trivial

/-- a parsed tree whose file-less volumes have their data offset inside the buffer is strongly assemblable -/
theorem treeA_strong : ∀ (t : Tree), TreeWf t → EmptyVolsOk t → TreeA true t
  | .flash f, h, he => ⟨h.1, fun r hr => regionA_strong r (h.2 r hr) (he r hr)⟩
  | .bios b, h, he => ⟨elemsA_strong b.elems h.1 h.2.1 he, by have := h.2.2; omega⟩

end Fiano.Uefi.Total
