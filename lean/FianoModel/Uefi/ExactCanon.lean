/-
  C03 follow-up (wp-c03b), layer 2: the invariant of the trees an edit run walks through, and the
  abstract view of a whole tree.

    * `avFv`, `avTree` …: the abstract file list (Uefi/AbsLemmas.lean: ordered (GUID, type, attributes,
      body), pad files dropped) of **every** volume of a tree, nested ones included, in pre-order;
    * `CanonSec / CanonFile / CanonFv`: what every node of a tree reachable from a parsed image of the
      reference grammar by the modelled edits (and by `save`) satisfies — leaf buffers are serialised
      nodes of the grammar, rebuilt nodes carry well-formed fields, volumes carry a well-formed header;
    * `GoodSec / GoodFile / GoodFv`: the conditions on the *written* tree under which fiano's own reader
      takes the saved bytes back (every buffer below 16 MiB, fewer than 2^30 files per volume; the two
      reader defects found while proving `reparse_abs` — 24 free bytes behind an unaligned end, a
      header-only file at the very end of a full volume — are repaired and no longer excluded).
-/
import FianoModel.Uefi.ExactPlace
import FianoModel.Uefi.AbsLemmas

namespace Fiano.Uefi.Exact
open Fiano Fiano.Uefi Fiano.Uefi.Spec

/-- everything is kept below 16 MiB − 1: no extended headers appear, `useFFS3` is never set -/
def B : Nat := 0xFFFFFF

/-! ### the abstract file lists of all volumes of a tree -/

mutual
def avSection : Section → List (List AbsFile)
  | .mk _ _ encap => avNodes encap
def avNodes : List Node → List (List AbsFile)
  | [] => []
  | .sec s :: ns => avSection s ++ avNodes ns
  | .fv v :: ns => avFv v ++ avNodes ns
def avSections : List Section → List (List AbsFile)
  | [] => []
  | s :: ss => avSection s ++ avSections ss
def avFile : File → List (List AbsFile)
  | .mk _ _ secs => avSections secs
def avFiles : List File → List (List AbsFile)
  | [] => []
  | f :: fs => avFile f ++ avFiles fs
/-- the abstract file list of the volume, then those of the volumes nested in its files -/
def avFv : Fv → List (List AbsFile)
  | .mk _ _ files => absFiles files :: avFiles files
end

def avElems : List BiosElem → List (List AbsFile)
  | [] => []
  | .pad _ _ :: es => avElems es
  | .fv v :: es => avFv v ++ avElems es

def avRegions : List Region → List (List AbsFile)
  | [] => []
  | .bios b :: rs => avElems b.elems ++ avRegions rs
  | _ :: rs => avRegions rs

/-- **the abstract image**: for every volume of the tree, nested ones included, in the order a
    reader meets them, the ordered list of its files as (GUID, type, attributes, body) -/
def avTree : Tree → List (List AbsFile)
  | .flash f => avRegions f.regions
  | .bios b => avElems b.elems

theorem avFiles_append (a b : List File) : avFiles (a ++ b) = avFiles a ++ avFiles b := by
  induction a with
  | nil => simp [avFiles]
  | cons f fs ih => simp [avFiles, ih, List.append_assoc]

/-! ### header parameters of an FFS volume -/

structure Skel where
  zv : Bytes
  v3 : Bool
  attrs : Nat
  rev : Nat
  rsv : Nat
  blocks : List Block
  ext : Option ExtI
  len : Nat

def Skel.guid (k : Skel) : Guid := if k.v3 then guidFFS3 else guidFFS2
def Skel.pre (k : Skel) : Nat := preLen k.blocks k.ext
/-- the bytes in front of the first file: checksummed header, block map, extended header -/
def Skel.hdr (k : Skel) : Bytes :=
  fvHeaderCk k.zv k.guid k.len k.attrs (ehoOf k.blocks k.ext) k.rsv k.rev k.blocks ++ preBytes k.blocks k.ext
/-- the volume of the grammar with this header, these files and the free space that fills it -/
def Skel.vol (k : Skel) (files : List FileI) : FvI :=
  .ffs k.zv k.v3 k.attrs k.rev k.rsv k.blocks k.ext files (k.len - endFiles k.pre files)

structure Skel.Ok (k : Skel) : Prop where
  hzv : k.zv.length = 16
  hattrs : k.attrs < 4294967296
  hpol : k.attrs &&& 0x800 ≠ 0
  hrev : k.rev < 256
  hrsv : k.rsv < 256
  hblocks : k.blocks.all blockOk = true
  hhdr : fvHdrLen k.blocks < 65536
  hext : ∀ e, k.ext = some e → e.fvName.length = 16 ∧ ehoOf k.blocks k.ext < 65536 ∧ 20 + e.data.length < 4294967296 ∧
      ehoOf k.blocks k.ext + 20 ≤ k.len
  hlen8 : k.len % 8 = 0
  hlen64 : 64 ≤ k.len
  hlenlt : k.len < 2 ^ 63
  hpre : k.pre ≤ k.len
  /-- the first block size is a power of two, at least 8 (a nested volume grows to a multiple of it) -/
  hb0 : ∀ b0 bs, k.blocks = b0 :: bs → ∃ e, 3 ≤ e ∧ e ≤ 31 ∧ b0.size = 2 ^ e

/-- the header fields of the volume node agree with the parameters -/
structure InfoOf (i : FvInfo) (k : Skel) : Prop where
  hlen : i.length = k.len
  hblocks : i.blocks = k.blocks
  hguid : i.fsGuid = k.guid
  hhl : i.headerLen = fvHdrLen k.blocks
  hdo : i.dataOffset = k.pre
  hattrs : i.attrs = k.attrs

/-! ### the invariant -/

def leafFileI (g : Guid) (ckh ckf t a st : Nat) (ext : Bool) (body : Bytes) : FileI := .leaf g ckh ckf t a st ext body

mutual
/-- a section node as the edits leave it -/
def CanonSec : Section → Prop
  | .mk i buf encap =>
    (encap = [] ∧
      ((i.type = 0x15 ∧ i.ts = none ∧ i.name.all isScalar = true ∧ (utf8ToUcs2 i.name).length + 8 < 0xFFFFFFFF) ∨
       (i.type = 0x14 ∧ i.ts = none ∧ i.build < 65536 ∧ i.version.all isScalar = true ∧
          (utf8ToUcs2 i.version).length + 10 < 0xFFFFFFFF) ∨
       (isDepexType i.type = true ∧ i.ts = none ∧ wfOps i.depex = true ∧ opsSize i.depex + 8 < 0xFFFFFFFF) ∨
       (i.type ≠ 0x15 ∧ i.type ≠ 0x14 ∧ isDepexType i.type = false ∧ (i.type ≠ 0x02 → i.ts = none) ∧
          ∃ si, wfSec si = true ∧ buf = serSec si ∧ ∀ ord, avSection (treeSec si ord) = []))) ∨
    (i.type = 0x17 ∧ i.ts = none ∧ CanonEncap encap)
/-- the children of a volume-image section: exactly one volume -/
def CanonEncap : List Node → Prop
  | .fv v :: [] => CanonFv v
  | _ => False
def CanonSecs : List Section → Prop
  | [] => True
  | s :: ss => CanonSec s ∧ CanonSecs ss
/-- a file node: kept verbatim (no sections: a leaf file of the grammar, e.g. a pad file), or
    rebuilt from its sections -/
def CanonFile : File → Prop
  | .mk i buf secs =>
    i.nvar = none ∧ i.extSize < 2 ^ 62 ∧
    ((secs = [] ∧ ∃ g ckh ckf t a st ext body, wfFile (.leaf g ckh ckf t a st ext body) = true ∧
        buf = serFile (.leaf g ckh ckf t a st ext body) ∧ i.guid = g ∧ i.type = t ∧ i.attrs = a ∧
        (t ≠ 0xF0 → i.dataOffset = if ext then 32 else 24)) ∨
     (secs ≠ [] ∧ i.guid.length = 16 ∧ i.type < 256 ∧ i.attrs < 256 ∧ i.state < 256 ∧ supportedFile i.type = true ∧
        i.dataOffset = 24 ∧ CanonSecs secs))
def CanonFiles : List File → Prop
  | [] => True
  | f :: fs => CanonFile f ∧ CanonFiles fs
/-- a volume node: kept verbatim (no file nodes: its buffer is a volume of the grammar without
    files), or re-laid under a well-formed header -/
def CanonFv : Fv → Prop
  | .mk i buf files =>
    (files = [] ∧ ∃ vi, wfFv vi = true ∧ buf = serFv vi ∧ i.attrs = attrsOfFv vi ∧ i.length = sizeFv vi ∧
        ∀ off rz, avFv (treeFv vi off rz) = [[]]) ∨
    (files ≠ [] ∧ (∃ k : Skel, k.Ok ∧ InfoOf i k ∧ buf.take k.pre = k.hdr) ∧ CanonFiles files)
end

def CanonElems : List BiosElem → Prop
  | [] => True
  | .pad _ _ :: es => CanonElems es
  | .fv v :: es => CanonFv v ∧ CanonElems es

/-! ### conditions on the written tree -/

mutual
def GoodSec : Section → Prop
  | .mk _ buf encap => buf.length < B ∧ GoodNodes encap
def GoodNodes : List Node → Prop
  | [] => True
  | .sec s :: ns => GoodSec s ∧ GoodNodes ns
  | .fv v :: ns => GoodFv v ∧ GoodNodes ns
def GoodSecs : List Section → Prop
  | [] => True
  | s :: ss => GoodSec s ∧ GoodSecs ss
def GoodFile : File → Prop
  | .mk _ buf secs => buf.length < B ∧ GoodSecs secs
def GoodFiles : List File → Prop
  | [] => True
  | f :: fs => GoodFile f ∧ GoodFiles fs
/-- the written volume: below 16 MiB, fewer than 2^30 files.  (Round 3, wp-c03c: the two clauses
    "not exactly 24 free bytes" and "no header-only last file in a full volume" are gone — fiano's reader
    was repaired, fixes 8039e86 / cce350a, and the grammar of C01 lost `htail` and the strict header
    position.) -/
def GoodFv : Fv → Prop
  | .mk _ buf files =>
    buf.length < B ∧ files.length < 2 ^ 30 ∧ GoodFiles files
end

def GoodElems : List BiosElem → Prop
  | [] => True
  | .pad _ _ :: es => GoodElems es
  | .fv v :: es => GoodFv v ∧ GoodElems es

end Fiano.Uefi.Exact
