/-
  C02 (follow-up wp-c02c, round 3): command lines that also contain `tighten_me` — definitions only
  (core Lean, linked into `drv_c02`), for the T2 tie of C02's own command-line streams.

  `tighten_me` is modelled on the shared UEFI tree by property C12 (FianoModel/TightenMe/Tree.lean:
  `tightenTree`, the ME node's FreeSpaceOffset as a side-car of the run, and `asmTreeT` = Assemble with the
  stable sort Go runs — observable once tighten_me has shrunk the ME region to nothing).  Everything is
  used by name.  `step4` runs `tighten_me` and `save` as `TightenMe.T.stepT` does and every other command
  as `step3` (Uefi/EditValidOpsDefs.lean).

  There is NO theorem about `run4` in C02: `tighten_me` rewrites two fields of the descriptor's region
  table and prepends the tail of the ME region to the BIOS region as a padding; the invariant `TreeOk` of
  `edits_valid` does not survive that as it is stated (see reports/C02.md, follow-up wp-c02c).
-/
import FianoModel.Uefi.EditValidOpsDefs
import FianoModel.TightenMe.Tree

namespace Fiano.Uefi
open Fiano

inductive Op4 where
  | base (op : Op3)
  | tighten

structure Run4 where
  run  : Run
  free : Nat

def step4 (h : Hooks) (c : NvCompactFn) (op : Op4) (s : Run4) : Except Err Run4 :=
  match op with
  | .tighten =>
    match TightenMe.T.stepT h .tighten ⟨s.run, s.free⟩ with
    | .error e => .error e
    | .ok r => .ok ⟨r.run, r.free⟩
  | .base (.base (.base .save)) =>
    match TightenMe.T.stepT h (.op .save) ⟨s.run, s.free⟩ with
    | .error e => .error e
    | .ok r => .ok ⟨r.run, r.free⟩
  | .base op =>
    match step3 h c op s.run with
    | .error e => .error e
    | .ok r => .ok ⟨r, s.free⟩

def run4 (h : Hooks) (c : NvCompactFn) : List Op4 → Run4 → Except Err Run4
  | [], s => .ok s
  | op :: ops, s =>
    match step4 h c op s with
    | .error e => .error e
    | .ok s' => run4 h c ops s'

end Fiano.Uefi
