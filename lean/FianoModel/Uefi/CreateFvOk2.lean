/-
  C02 (follow-up wp-c02b), create-fv, part 2: splitting a padding around the new volume keeps the
  invariant of the element list of a BIOS region (`ElemsOk`), the length of the region and — for a
  bare BIOS image — the absence of a flash signature.

  Two things are asked of the padding that is split (`createFvTarget`): the new volume starts at a
  multiple of 8 inside it (the reader — and fiano's own scan — probes every 8 bytes: anywhere else
  the volume would not be found, see finding F-c02b-3), and none of its probes shows a volume
  signature (true of every padding in front of a volume; for the padding at the end of a region
  fiano may keep bytes it never scanned).
-/
import FianoModel.Uefi.CreateFvOk1
import FianoModel.Uefi.ParseOk6

namespace Fiano.Uefi
open Fiano
open EditArith

/-- the padding `create-fv` splits: the first one that contains `[abs, abs+size)` -/
def createFvTarget (base abs size : Nat) : List BiosElem → Option (Bytes × Nat)
  | [] => none
  | .fv _ :: es => createFvTarget base abs size es
  | .pad p o :: es =>
    if abs ≥ base + o ∧ abs + size ≤ base + o + p.length then some (p, o) else createFvTarget base abs size es

/-! ### probes in parts of a padding -/

theorem noHit_from (b : Bytes) (q : Nat) (h : NoHit b 0) : NoHit b (8 * q) := by
  intro k hk
  have := h (q + k) (by omega)
  have e : 0 + 8 * (q + k) + 40 = 8 * q + 8 * k + 40 := by omega
  rw [e] at this; exact this

theorem noHit_drop (p : Bytes) (m : Nat) (hm : m % 8 = 0) (hle : m ≤ p.length) (h : NoHit p 0) : NoHit (p.drop m) 0 := by
  obtain ⟨q, rfl⟩ : ∃ q, m = 8 * q := ⟨m / 8, by omega⟩
  have h1 := noHit_from p q h
  have hl : (p.take (8 * q)).length = 8 * q := by simp; omega
  have h2 : NoHit (p.take (8 * q) ++ p.drop (8 * q)) ((p.take (8 * q)).length + 0) := by
    rw [hl, Nat.add_zero, List.take_append_drop]; exact h1
  exact noHit_unshift _ _ 0 h2

theorem padBefore_drop (p w : Bytes) (m : Nat) (hm : m % 8 = 0) (hle : m ≤ p.length) (h : PadBefore p w) :
    PadBefore (p.drop m) w := by
  obtain ⟨q, rfl⟩ : ∃ q, m = 8 * q := ⟨m / 8, by omega⟩
  refine ⟨by have := h.1; simp; omega, fun w' hc k hk => ?_⟩
  have h1 := h.2 w' hc (q + k) (by simp at hk; omega)
  intro hs
  apply h1
  have hl : (p.take (8 * q)).length = 8 * q := by simp; omega
  have e : p ++ w' = p.take (8 * q) ++ (p.drop (8 * q) ++ w') := by rw [← List.append_assoc, List.take_append_drop]
  have e2 : 8 * (q + k) + 40 = (p.take (8 * q)).length + (8 * k + 40) := by rw [hl]; omega
  rw [e, e2, sigAt_shift]
  exact hs

/-- a padding in front of a volume shows no signature at any of its own probes -/
theorem noHit_of_padBefore (p w : Bytes) (h : PadBefore p w) : NoHit p 0 := by
  intro k hk hs
  apply h.2 w (Compat.refl _) k (by omega)
  rw [sigAt_left _ _ _ (by omega)]
  simpa using hs

/-! ### the first 40 bytes of the new volume -/

theorem win_win (l : Bytes) (a n a' n' : Nat) (h : a' + n' ≤ n) :
    (((l.drop a).take n).drop a').take n' = (l.drop (a + a')).take n' := by
  rw [List.drop_take, List.take_take, List.drop_drop]
  congr 1; omega

theorem newBuf_take16 (size : Nat) (name : Guid) : (newFvBuf size name).take 16 = List.replicate 16 0 := by
  have := buf_window size name 0 16 (by omega)
  rw [hdr_window _ _ _ (by omega)] at this
  simp only [List.drop_zero] at this
  rw [this, h0_w0]

theorem newBuf_guid (size : Nat) (name : Guid) : ((newFvBuf size name).drop 16).take 16 = guidFFS2 := by
  rw [buf_window _ _ _ _ (by omega), hdr_window _ _ _ (by omega), h0_w16]

theorem newBuf_len8 (size : Nat) (name : Guid) : ((newFvBuf size name).drop 32).take 8 = leN 8 size := by
  rw [buf_window _ _ _ _ (by omega), hdr_window _ _ _ (by omega), h0_w32]

/-- whatever `Assemble` later makes of the new volume, its first five probe positions show no
    volume signature: zero vector, file-system GUID, length (a multiple of 4096) -/
theorem newFv_head_nosig (size : Nat) (name : Guid) (w' : Bytes) (h4 : size % 4096 = 0)
    (hc : Compat (newFvBuf size name) w') (d : Nat) (hd : d = 0 ∨ d = 8 ∨ d = 16 ∨ d = 24 ∨ d = 32) : ¬ sigAt w' d := by
  have hz := hc.z16
  rw [newBuf_take16] at hz
  have hl := hc.l8
  rw [newBuf_len8] at hl
  have hg := hc.guid
  rw [newBuf_guid] at hg
  unfold sigAt
  rcases hd with rfl | rfl | rfl | rfl | rfl
  · have : (w'.drop 0).take 4 = (w'.take 16).take 4 := by simp [List.take_take]
    rw [this, hz]; decide
  · have : (w'.drop 8).take 4 = (((w'.drop 0).take 16).drop 8).take 4 := by rw [win_win _ _ _ _ _ (by omega)]
    rw [this, List.drop_zero, hz]; decide
  · have : (w'.drop 16).take 4 = (((w'.drop 16).take 16).drop 0).take 4 := by rw [win_win _ _ _ _ _ (by omega)]
    rw [this]
    rcases hg with g | g <;> rw [g] <;> decide
  · have : (w'.drop 24).take 4 = (((w'.drop 16).take 16).drop 8).take 4 := by rw [win_win _ _ _ _ _ (by omega)]
    rw [this]
    rcases hg with g | g <;> rw [g] <;> decide
  · have : (w'.drop 32).take 4 = (((w'.drop 32).take 8).drop 0).take 4 := by rw [win_win _ _ _ _ _ (by omega)]
    rw [this, hl]
    intro hs
    simp only [leN, List.drop_zero, List.take_succ_cons, List.take_zero, Valid.fvSig, List.cons.injEq] at hs
    have h0 : size % 256 = 0 := by omega
    rw [h0] at hs
    exact absurd hs.1 (by decide)

/-- **the head of the split padding is padding in front of the new volume** -/
theorem padBefore_new (p : Bytes) (k size : Nat) (name : Guid) (hk : k % 8 = 0) (hfit : k + size ≤ p.length)
    (h4 : size % 4096 = 0) (hno : NoHit p 0) : PadBefore (p.take k) (newFvBuf size name) := by
  have hkl : (p.take k).length = k := by simp; omega
  refine ⟨by rw [hkl]; exact hk, fun w' hc j hj => ?_⟩
  rw [hkl] at hj
  by_cases hin : 8 * j + 44 ≤ k
  · rw [sigAt_left _ _ _ (by rw [hkl]; omega), sigAt_take _ _ _ (by omega)]
    have := hno j (by omega)
    simpa using this
  · obtain ⟨d, hd, hdc⟩ : ∃ d, 8 * j + 40 = k + d ∧ (d = 0 ∨ d = 8 ∨ d = 16 ∨ d = 24 ∨ d = 32) :=
      ⟨8 * j + 40 - k, by omega, by omega⟩
    have e : 8 * j + 40 = (p.take k).length + d := by rw [hkl]; exact hd
    rw [e, sigAt_shift]
    exact newFv_head_nosig size name w' h4 hc d hdc

/-! ### the flash signature of a bare region -/

theorem flashSig_split (p R w : Bytes) (k : Nat) (hk : k % 8 = 0) (hfit : k + w.length ≤ p.length) (h20 : 20 ≤ w.length)
    (hz : w.take 16 = List.replicate 16 0) (hg : ((w.drop 16).take 4) ≠ Valid.flashSig)
    (h : Valid.hasFlashSig (p ++ R) = false) :
    Valid.hasFlashSig (p.take k ++ (w ++ (p.drop (k + w.length) ++ R))) = false := by
  have hkl : (p.take k).length = k := by simp; omega
  have hlen : (p.take k ++ (w ++ (p.drop (k + w.length) ++ R))).length = (p ++ R).length := by
    simp only [List.length_append, List.length_take, List.length_drop]; omega
  unfold Valid.hasFlashSig at h ⊢
  rw [hlen]
  have hge : decide ((p ++ R).length ≥ 20) = true := by simp; omega
  rw [hge, Bool.true_and] at h ⊢
  simp only [Bool.or_eq_false_iff, decide_eq_false_iff_not] at h ⊢
  have z4 : w.take 4 ≠ Valid.flashSig := by
    have : w.take 4 = (w.take 16).take 4 := by rw [List.take_take]; rfl
    rw [this, hz]; decide
  have z8 : (w.drop 8).take 4 ≠ Valid.flashSig := by
    have : (w.drop 8).take 4 = (((w.drop 0).take 16).drop 8).take 4 := by rw [win_win _ _ _ _ _ (by omega)]
    rw [this, List.drop_zero, hz]; decide
  by_cases hbig : 20 ≤ k
  · have e16 : ((p.take k ++ (w ++ (p.drop (k + w.length) ++ R))).drop 16).take 4 = ((p ++ R).drop 16).take 4 := by
      rw [win_append_left _ _ _ _ (by omega), win_append_left _ _ _ _ (by omega)]
      exact window_of_take_eq _ _ k 16 4 (by rw [List.take_take]; simp) (by omega)
    have e0 : (p.take k ++ (w ++ (p.drop (k + w.length) ++ R))).take 4 = (p ++ R).take 4 := by
      rw [List.take_append_of_le_length (by omega), List.take_append_of_le_length (by omega), List.take_take]
      congr 1; omega
    rw [e16, e0]; exact h
  · have hcases : k = 0 ∨ k = 8 ∨ k = 16 := by omega
    rcases hcases with c | c | c
    · subst c
      simp only [List.take_zero, List.nil_append]
      refine ⟨?_, ?_⟩
      · rw [win_append_left _ _ _ _ (by omega)]; exact hg
      · rw [List.take_append_of_le_length (by omega)]; exact z4
    · subst c
      refine ⟨?_, ?_⟩
      · rw [win_append_right _ _ _ _ (by omega), hkl, win_append_left _ _ _ _ (by omega)]; exact z8
      · rw [List.take_append_of_le_length (by omega), List.take_take]
        have : (p ++ R).take 4 = p.take 4 := List.take_append_of_le_length (by omega)
        have hm : ∀ n, 4 ≤ n → min 4 n = 4 := fun n hn => by omega
        rw [hm _ (by omega), ← this]; exact h.2
    · subst c
      refine ⟨?_, ?_⟩
      · rw [win_append_right _ _ _ _ (by omega), hkl, win_append_left _ _ _ _ (by omega)]
        simpa using z4
      · rw [List.take_append_of_le_length (by omega), List.take_take]
        have : (p ++ R).take 4 = p.take 4 := List.take_append_of_le_length (by omega)
        have hm : ∀ n, 4 ≤ n → min 4 n = 4 := fun n hn => by omega
        rw [hm _ (by omega), ← this]; exact h.2

/-- the flash-signature test looks at the length and the first 20 bytes only -/
theorem flashSig_prefix (A X Y : Bytes) (h20 : 20 ≤ A.length) (hl : X.length = Y.length) :
    Valid.hasFlashSig (A ++ X) = Valid.hasFlashSig (A ++ Y) := by
  unfold Valid.hasFlashSig
  rw [win_append_left _ _ _ _ (by omega), win_append_left _ _ _ _ (by omega),
    List.take_append_of_le_length (by omega), List.take_append_of_le_length (by omega)]
  simp only [List.length_append, hl]

/-! ### the element list -/

theorem elemsOk_tail (p : Bytes) (o o2 m : Nat) (rest : List BiosElem) (hm : m % 8 = 0) (hno : NoHit p 0)
    (hok : ElemsOk (.pad p o :: rest)) :
    ElemsOk ((if m < p.length then [BiosElem.pad (p.drop m) o2] else []) ++ rest) ∧
    catBufs ((if m < p.length then [BiosElem.pad (p.drop m) o2] else []) ++ rest) = p.drop m ++ catBufs rest := by
  by_cases hlt : m < p.length
  · rw [if_pos hlt]
    refine ⟨?_, by simp [catBufs, BiosElem.buf]⟩
    cases rest with
    | nil =>
      simp only [List.append_nil]
      rw [ElemsOk]
      exact fun n hn => .done 0 n (noHit_drop p m hm (by omega) hno) hn
    | cons e r2 =>
      cases e with
      | pad q o3 => rw [ElemsOk] at hok; exact hok.elim
      | fv v =>
        rw [ElemsOk] at hok
        simp only [List.singleton_append]
        rw [ElemsOk]
        exact ⟨padBefore_drop p v.buf m hm (by omega) hok.1, hok.2⟩
  · rw [if_neg hlt]
    have e : p.drop m = [] := List.drop_eq_nil_of_le (by omega)
    simp only [List.nil_append, e]
    refine ⟨?_, trivial⟩
    cases rest with
    | nil => rw [ElemsOk]; trivial
    | cons e r2 =>
      cases e with
      | pad q o3 => rw [ElemsOk] at hok; exact hok.elim
      | fv v => rw [ElemsOk] at hok; exact hok.2

theorem elemsOk_head (p1 : Bytes) (o : Nat) (fv : Fv) (T : List BiosElem) (c : Prop) [Decidable c]
    (hpb : c → PadBefore p1 fv.buf) (hnc : ¬ c → p1 = []) (hT : ElemsOk (.fv fv :: T)) :
    ElemsOk ((if c then [BiosElem.pad p1 o] else []) ++ .fv fv :: T) ∧
    catBufs ((if c then [BiosElem.pad p1 o] else []) ++ .fv fv :: T) = p1 ++ catBufs (.fv fv :: T) := by
  by_cases hc : c
  · rw [if_pos hc]
    simp only [List.singleton_append]
    refine ⟨?_, by rw [catBufs_cons]; rfl⟩
    rw [ElemsOk]
    exact ⟨hpb hc, hT⟩
  · rw [if_neg hc, hnc hc]
    simp only [List.nil_append]
    exact ⟨hT, trivial⟩

theorem hasFv_append_fv (h : List BiosElem) (fv : Fv) (T : List BiosElem) : hasFv (h ++ .fv fv :: T) = true := by
  induction h with
  | nil => rfl
  | cons e r ih => cases e with
    | pad p o => simpa [hasFv] using ih
    | fv v => rfl

/-- **`insertFVinBP` keeps the invariant of the element list** -/
theorem createFvElems_ok (base abs size : Nat) (name : Guid) (fv : Fv) (hfv : TopFvOk fv) (hbuf : fv.buf = newFvBuf size name)
    (hlen : fv.buf.length = size) (h4 : size % 4096 = 0) (hpos : 0 < size) :
    ∀ (es N : List BiosElem), ElemsOk es → createFvElems base abs size (.ok fv) es = .ok N →
      (∀ p o, createFvTarget base abs size es = some (p, o) → (abs - (base + o)) % 8 = 0 ∧ NoHit p 0) →
      ElemsOk N ∧ (catBufs N).length = (catBufs es).length ∧ hasFv N = true ∧
      (Valid.hasFlashSig (catBufs es) = false → Valid.hasFlashSig (catBufs N) = false) := by
  intro es
  induction es with
  | nil => intro N _ h; simp [createFvElems] at h
  | cons e rest ih =>
    intro N hok h htar
    cases e with
    | fv v =>
      rw [createFvElems] at h
      split at h
      · cases h
      · rename_i N' hN'
        cases h
        rw [ElemsOk] at hok
        obtain ⟨i1, i2, i3, i4⟩ := ih N' hok.2 hN' (fun p o hp => htar p o (by rw [createFvTarget]; exact hp))
        obtain ⟨l64, _, _, _⟩ := fvOk_node_facts v hok.1.1
        refine ⟨by rw [ElemsOk]; exact ⟨hok.1, i1⟩, by rw [catBufs_cons, catBufs_cons]; simp [i2], rfl, ?_⟩
        rw [catBufs_cons, catBufs_cons]
        simp only [BiosElem.buf]
        rw [flashSig_prefix v.buf (catBufs N') (catBufs rest) (by omega) i2]
        exact id
    | pad p o =>
      rw [createFvElems] at h
      by_cases hc : abs ≥ base + o ∧ abs + size ≤ base + o + p.length
      · rw [if_pos hc] at h
        obtain ⟨hk8, hno⟩ := htar p o (by rw [createFvTarget, if_pos hc])
        rw [if_neg (by rw [hk8]; simp)] at h
        simp only at h
        cases h
        have hk : abs - base - o = abs - (base + o) := by omega
        rw [hk]
        generalize hkk : abs - (base + o) = k at *
        have hfit : k + size ≤ p.length := by omega
        obtain ⟨t1, t2⟩ := elemsOk_tail p o (abs - base + size) (k + size) rest (by omega) hno hok
        have hT : ElemsOk (.fv fv :: ((if k + size < p.length then [BiosElem.pad (p.drop (k + size)) (abs - base + size)] else []) ++ rest)) := by
          rw [ElemsOk]; exact ⟨hfv, t1⟩
        obtain ⟨u1, u2⟩ := elemsOk_head (p.take k) o fv _ (o < abs - base)
          (fun _ => by rw [hbuf]; exact padBefore_new p k size name hk8 hfit h4 hno)
          (fun hn => by have : k = 0 := by omega
                        rw [this]; rfl) hT
        have eN : ((if o < abs - base then [BiosElem.pad (p.take k) o] else []) ++ [BiosElem.fv fv] ++
            (if k + size < p.length then [BiosElem.pad (p.drop (k + size)) (abs - base + size)] else []) ++ rest) =
            (if o < abs - base then [BiosElem.pad (p.take k) o] else []) ++ .fv fv ::
              ((if k + size < p.length then [BiosElem.pad (p.drop (k + size)) (abs - base + size)] else []) ++ rest) := by
          simp [List.append_assoc]
        rw [eN]
        have ecat : catBufs ((if o < abs - base then [BiosElem.pad (p.take k) o] else []) ++ .fv fv ::
              ((if k + size < p.length then [BiosElem.pad (p.drop (k + size)) (abs - base + size)] else []) ++ rest)) =
            p.take k ++ (fv.buf ++ (p.drop (k + fv.buf.length) ++ catBufs rest)) := by
          rw [u2, catBufs_cons, t2, hlen]; rfl
        refine ⟨u1, ?_, hasFv_append_fv _ _ _, ?_⟩
        · rw [ecat, catBufs_cons]
          simp only [BiosElem.buf, List.length_append, List.length_take, List.length_drop, hlen]
          omega
        · rw [ecat, catBufs_cons]
          simp only [BiosElem.buf]
          apply flashSig_split p (catBufs rest) fv.buf k hk8 (by rw [hlen]; exact hfit) (by rw [hlen]; omega)
          · rw [hbuf]; exact newBuf_take16 size name
          · have : (fv.buf.drop 16).take 4 = (((fv.buf.drop 16).take 16).drop 0).take 4 := by rw [win_win _ _ _ _ _ (by omega)]
            rw [this, hbuf, newBuf_guid]; decide
      · rw [if_neg hc] at h
        split at h
        · cases h
        · rename_i N' hN'
          cases h
          have htar' : ∀ q o2, createFvTarget base abs size rest = some (q, o2) → (abs - (base + o2)) % 8 = 0 ∧ NoHit q 0 :=
            fun q o2 hq => htar q o2 (by rw [createFvTarget, if_neg hc]; exact hq)
          cases rest with
          | nil => simp [createFvElems] at hN'
          | cons e2 r2 =>
            cases e2 with
            | pad q o3 => rw [ElemsOk] at hok; exact hok.elim
            | fv v =>
              rw [ElemsOk] at hok
              obtain ⟨i1, i2, i3, i4⟩ := ih N' hok.2 hN' htar'
              rw [createFvElems] at hN'
              split at hN'
              · cases hN'
              · rename_i N2 hN2
                cases hN'
                have hv := hok.2
                rw [ElemsOk] at hv
                obtain ⟨l64, _, _, _⟩ := fvOk_node_facts v hv.1.1
                refine ⟨by rw [ElemsOk]; exact ⟨hok.1, i1⟩, by rw [catBufs_cons (.pad p o) (.fv v :: N2), catBufs_cons (.pad p o) (.fv v :: r2), List.length_append, List.length_append, i2], rfl, ?_⟩
                rw [catBufs_cons, catBufs_cons, catBufs_cons, catBufs_cons]
                simp only [BiosElem.buf]
                rw [catBufs_cons, catBufs_cons] at i2
                simp only [BiosElem.buf, List.length_append] at i2
                rw [← List.append_assoc, ← List.append_assoc p,
                  flashSig_prefix (p ++ v.buf) (catBufs N2) (catBufs r2) (by simp; omega) (by omega)]
                exact id

end Fiano.Uefi
