/-
  C03 follow-up (wp-c03b), byte-level frame, part 2: inside the re-laid volume.

  `lay l off` is the file area the loop of `Assemble.Visit` writes for the placed pairs
  `l = (attribute byte, assembled file buffer)*` (erase polarity 1): filler to the 8-byte boundary,
  a pad file where a data alignment asks for one, the file.  The volume buffer is
  `buf[:DataOffset] ++ lay … ++ erased tail`, patched below offset 60 (length, block count, checksum).
  Hence: two file lists that share a prefix give the same bytes up to the end of that prefix; replacing
  a file that sat on its 8-byte boundary by a same-size file without data alignment (`remove_pad`)
  changes no byte outside that file's own range.
-/
import FianoModel.Uefi.ExactFrame

namespace Fiano.Uefi.Exact
open Fiano Fiano.Uefi Fiano.Uefi.Spec

def layOne (off attrs : Nat) (fb : Bytes) : Bytes :=
  ffs (alignUp off 8 - off) ++ ((padBefore off attrs).map serFile).flatten ++ fb

/-- the bytes the file loop appends for the remaining files, the previous one having ended at `off` -/
def lay : List (Nat × Bytes) → Nat → Bytes
  | [], _ => []
  | (a, fb) :: l, off => layOne off a fb ++ lay l (fileStart off a + fb.length)

/-- the end offset of the last file -/
def layEndM : List (Nat × Bytes) → Nat → Nat
  | [], off => off
  | (a, fb) :: l, off => layEndM l (fileStart off a + fb.length)

theorem le_layEndM : ∀ (l : List (Nat × Bytes)) (off : Nat), off ≤ layEndM l off
  | [], _ => Nat.le_refl _
  | (a, fb) :: l, off => by
    have h1 := le_fileStart off a
    have h2 := le_layEndM l (fileStart off a + fb.length)
    simp only [layEndM]
    omega

theorem layOne_length (off attrs : Nat) (fb : Bytes) (hoff : off < 2 ^ 62) :
    off + (layOne off attrs fb).length = fileStart off attrs + fb.length := by
  have h8 := alignUp8 off
  have hs := fileStart_spec off attrs
  unfold layOne padBefore
  by_cases hn : fileStart off attrs = alignUp off 8
  · rw [if_pos hn]; simp [ffs]; omega
  · rw [if_neg hn]
    have hge24 : 24 ≤ fileStart off attrs - alignUp off 8 := by omega
    simp [ffs, length_serFile _ (wfFile_padI _ hge24 (by omega)), sizeFile_padI _ hge24]
    omega

/-- **the file loop in closed form** (any attribute bytes, any non-empty buffers) -/
theorem placeFiles_lay : ∀ (l : List (Nat × Bytes)) (buf : Bytes) (off : Nat),
    (∀ x ∈ l, x.2.length ≠ 0) → buf.length = off → layEndM l off < 2 ^ 62 →
    placeFiles 0xFF l buf off = .ok (buf ++ lay l off) ∧ off + (lay l off).length = layEndM l off
  | [], buf, off, _, _, _ => by simp [placeFiles, lay, layEndM]
  | (a, fb) :: l, buf, off, hl, hlen, hb => by
    have hx := hl (a, fb) List.mem_cons_self
    simp only [layEndM] at hb
    have hmono := le_layEndM l (fileStart off a + fb.length)
    have hfs := le_fileStart off a
    have hoff : off < 2 ^ 62 := by omega
    have h1 := layOne_length off a fb hoff
    simp only [placeFiles, lay, layEndM]
    rw [placeFile_gen buf off a fb hlen hoff hx]
    simp only
    have hacc : (buf ++ ffs (alignUp off 8 - off) ++ ((padBefore off a).map serFile).flatten ++ fb).length =
        fileStart off a + fb.length := by
      unfold layOne at h1
      simp only [List.length_append] at h1 ⊢
      omega
    have ih := placeFiles_lay l _ (fileStart off a + fb.length) (fun y hy => hl y (List.mem_cons_of_mem _ hy)) hacc hb
    rw [ih.1]
    constructor
    · simp [layOne, List.append_assoc]
    · simp only [List.length_append]
      omega

theorem lay_append : ∀ (l1 l2 : List (Nat × Bytes)) (off : Nat),
    lay (l1 ++ l2) off = lay l1 off ++ lay l2 (layEndM l1 off) ∧ layEndM (l1 ++ l2) off = layEndM l2 (layEndM l1 off)
  | [], l2, off => by simp [lay, layEndM]
  | (a, fb) :: l1, l2, off => by
    have ih := lay_append l1 l2 (fileStart off a + fb.length)
    simp only [List.cons_append, lay, layEndM, ih.1, ih.2, List.append_assoc, and_self]

theorem placeFile_empty (pol : UInt8) (buf : Bytes) (off attrs : Nat) :
    placeFile pol buf off attrs [] = .error .err := by
  unfold placeFile
  rw [if_pos (show ([] : Bytes).length = 0 from rfl)]

theorem placeFiles_nonempty (pol : UInt8) : ∀ (l : List (Nat × Bytes)) (buf : Bytes) (off : Nat) (out : Bytes),
    placeFiles pol l buf off = .ok out → ∀ x ∈ l, x.2.length ≠ 0
  | [], _, _, _, _, x, hx => by cases hx
  | (a, fb) :: l, buf, off, out, h, x, hx => by
    simp only [placeFiles] at h
    split at h
    · cases h
    rename_i b1 o1 h1
    rcases List.mem_cons.mp hx with rfl | hx'
    · intro hc
      have : fb = [] := List.length_eq_zero_iff.mp hc
      subst this
      rw [placeFile_empty] at h1
      cases h1
    · exact placeFiles_nonempty pol l b1 o1 out h x hx'

/-! ### bytes of the re-laid volume -/

theorem patchFvHeader_tail (buf : Bytes) (length : Nat) (guid : Option Guid) (count headerLen : Nat) (out : Bytes)
    (h : patchFvHeader buf length guid count headerLen = .ok out) (j : Nat) (hj : 60 ≤ j) : out[j]? = buf[j]? := by
  unfold patchFvHeader at h
  by_cases h60 : buf.length < 60
  · rw [if_pos h60] at h; cases h
  rw [if_neg h60] at h
  have l1 : (splice buf 32 (leN 8 length)).length = buf.length := splice_length _ _ _ (by simp; omega)
  have g1 : (splice buf 32 (leN 8 length))[j]? = buf[j]? :=
    splice_getElem?_ge _ _ _ _ (by simp only [leN_length]; omega) (by simp only [leN_length]; omega)
  have key : ∀ b2 : Bytes, b2.length = buf.length → b2[j]? = buf[j]? →
      (if headerLen > (splice (splice b2 56 (leN 4 count)) 50 [0, 0]).length then (Except.error Err.err : Except Err Bytes)
       else if headerLen % 2 ≠ 0 then .error .err
       else .ok (splice (splice (splice b2 56 (leN 4 count)) 50 [0, 0]) 50
          (leN 2 ((0 - sum16 ((splice (splice b2 56 (leN 4 count)) 50 [0, 0]).take headerLen)).toNat)))) = .ok out →
      out[j]? = buf[j]? := by
    intro b2 l2 g2 hk
    have l3 : (splice b2 56 (leN 4 count)).length = buf.length := by
      rw [splice_length _ _ _ (by simp only [leN_length, l2]; omega), l2]
    have l4 : (splice (splice b2 56 (leN 4 count)) 50 [0, 0]).length = buf.length := by
      rw [splice_length _ _ _ (by simp only [List.length_cons, List.length_nil, l3]; omega), l3]
    split at hk
    · cases hk
    split at hk
    · cases hk
    cases hk
    rw [splice_getElem?_ge _ _ _ _ (by simp only [leN_length]; omega) (by simp only [leN_length, l4]; omega),
      splice_getElem?_ge _ _ _ _ (by simp only [List.length_cons, List.length_nil]; omega)
        (by simp only [List.length_cons, List.length_nil, l3]; omega),
      splice_getElem?_ge _ _ _ _ (by simp only [leN_length]; omega) (by simp only [leN_length, l2]; omega), g2]
  cases guid with
  | none => exact key _ l1 g1 h
  | some g =>
    have l2 : (splice (splice buf 32 (leN 8 length)) 16 (g.take 16)).length = buf.length := by
      rw [splice_length _ _ _ (by simp only [List.length_take, l1]; omega), l1]
    exact key _ l2
      (by rw [splice_getElem?_ge _ _ _ _ (by simp only [List.length_take]; omega)
            (by simp only [List.length_take, l1]; omega), g1]) h

/-- **the bytes of a re-laid top-level volume** from offset 60 on: the kept bytes in front of the
    first file, the laid-out files, the erased tail -/
theorem relayout_bytes (i : FvInfo) (buf : Bytes) (files : List File) (st : St) (i' : FvInfo) (out : Bytes) (st' : St)
    (h : relayoutFv i buf files st = .ok (i', out, st')) (hp : st.pol = 0xFF) (hnr : i.resizable = false)
    (hb : layEndM (files.map (fun f => (f.info.attrs, f.buf))) i.dataOffset < 2 ^ 62) :
    layEndM (files.map (fun f => (f.info.attrs, f.buf))) i.dataOffset ≤ i.length ∧
    ∀ j, 60 ≤ j → out[j]? =
      (buf.take i.dataOffset ++ lay (files.map (fun f => (f.info.attrs, f.buf))) i.dataOffset ++
        ffs (i.length - layEndM (files.map (fun f => (f.info.attrs, f.buf))) i.dataOffset))[j]? := by
  unfold relayoutFv at h
  split at h
  · cases h
  split at h
  · cases h
  split at h
  · cases h
  rename_i hdo
  split at h
  · cases h
  rename_i fbuf hpl
  rw [hp] at hpl
  have hne := placeFiles_nonempty _ _ _ _ _ hpl
  have htl : (buf.take i.dataOffset).length = i.dataOffset := by
    simp only [List.length_take]; omega
  obtain ⟨hcl, hend⟩ := placeFiles_lay _ (buf.take i.dataOffset) i.dataOffset hne htl hb
  rw [hcl] at hpl
  cases hpl
  have hlen : (buf.take i.dataOffset ++ lay (files.map (fun f => (f.info.attrs, f.buf))) i.dataOffset).length =
      layEndM (files.map (fun f => (f.info.attrs, f.buf))) i.dataOffset := by
    rw [List.length_append, htl]; exact hend
  obtain ⟨_, hfit⟩ := finishFv_length _ _ _ _ _ _ h hnr
  rw [hlen] at hfit
  refine ⟨hfit, ?_⟩
  intro j hj
  unfold finishFv at h
  by_cases hc : i.length < (buf.take i.dataOffset ++ lay (files.map (fun f => (f.info.attrs, f.buf))) i.dataOffset).length ∧
      ¬ i.resizable = true
  · rw [if_pos hc] at h; cases h
  rw [if_neg hc] at h
  have hng : ¬ i.length < (buf.take i.dataOffset ++ lay (files.map (fun f => (f.info.attrs, f.buf))) i.dataOffset).length := by
    rw [hlen]; omega
  simp only [hng, if_false] at h
  split at h
  · cases h
  split at h
  · cases h
  rename_i out' hpatch
  cases h
  rw [patchFvHeader_tail _ _ _ _ _ _ hpatch j hj, hlen, hp]
  split
  · rfl
  · rename_i hgt
    have : i.length - layEndM (files.map (fun f => (f.info.attrs, f.buf))) i.dataOffset = 0 := by omega
    rw [this]
    simp [ffs]

/-! ### what does not move -/

/-- two file lists that share a prefix are laid out identically up to the end of that prefix -/
theorem lay_common_prefix (pre x y : List (Nat × Bytes)) (off j : Nat) (hj : off + j < layEndM pre off)
    (hb : layEndM pre off < 2 ^ 62) (hne : ∀ z ∈ pre, z.2.length ≠ 0) :
    (lay (pre ++ x) off)[j]? = (lay (pre ++ y) off)[j]? := by
  have hl := (placeFiles_lay pre (List.replicate off 0) off hne (by simp) hb).2
  rw [(lay_append pre x off).1, (lay_append pre y off).1]
  rw [List.getElem?_append_left (by omega), List.getElem?_append_left (by omega)]

/-- **remove_pad at byte level**: a file that sat on its 8-byte boundary, replaced by a file of the
    same size without data alignment, leaves every byte of the file area outside its own range as it
    was — every other file keeps its offset and its bytes -/
theorem lay_remove_pad (pre post : List (Nat × Bytes)) (x x' : Nat × Bytes) (off : Nat)
    (hsize : x'.2.length = x.2.length) (hal : alignmentOf x'.1 = 1)
    (hsat : fileStart (layEndM pre off) x.1 = alignUp (layEndM pre off) 8) :
    (lay (pre ++ x' :: post) off).length = (lay (pre ++ x :: post) off).length ∧
    ∀ j, (j < (lay pre off).length + (alignUp (layEndM pre off) 8 - layEndM pre off) ∨
          (lay pre off).length + (alignUp (layEndM pre off) 8 - layEndM pre off) + x.2.length ≤ j) →
      (lay (pre ++ x' :: post) off)[j]? = (lay (pre ++ x :: post) off)[j]? := by
  obtain ⟨a, fb⟩ := x
  obtain ⟨a', fb'⟩ := x'
  simp only at hsize hal hsat
  have hfs' : fileStart (layEndM pre off) a' = alignUp (layEndM pre off) 8 := by
    unfold fileStart; simp only [hal, if_true]
  have hp : padBefore (layEndM pre off) a = [] := by unfold padBefore; rw [if_pos hsat]
  have hp' : padBefore (layEndM pre off) a' = [] := by unfold padBefore; rw [if_pos hfs']
  rw [(lay_append pre ((a', fb') :: post) off).1, (lay_append pre ((a, fb) :: post) off).1]
  simp only [lay, layOne, hp, hp', hsat, hfs', hsize, List.map_nil, List.flatten_nil, List.append_nil]
  generalize lay post (alignUp (layEndM pre off) 8 + fb.length) = P
  have e1 : lay pre off ++ (ffs (alignUp (layEndM pre off) 8 - layEndM pre off) ++ fb' ++ P) =
      (lay pre off ++ ffs (alignUp (layEndM pre off) 8 - layEndM pre off)) ++ (fb' ++ P) := by
    simp [List.append_assoc]
  have e2 : lay pre off ++ (ffs (alignUp (layEndM pre off) 8 - layEndM pre off) ++ fb ++ P) =
      (lay pre off ++ ffs (alignUp (layEndM pre off) 8 - layEndM pre off)) ++ (fb ++ P) := by
    simp [List.append_assoc]
  have hA : (lay pre off ++ ffs (alignUp (layEndM pre off) 8 - layEndM pre off)).length =
      (lay pre off).length + (alignUp (layEndM pre off) 8 - layEndM pre off) := by
    simp [ffs]
  rw [e1, e2]
  generalize lay pre off ++ ffs (alignUp (layEndM pre off) 8 - layEndM pre off) = A at hA
  rw [← hA]
  constructor
  · simp only [List.length_append, hsize]
  · intro j hj
    rcases hj with hj | hj
    · rw [List.getElem?_append_left hj, List.getElem?_append_left hj]
    · rw [List.getElem?_append_right (by omega), List.getElem?_append_right (by omega),
        List.getElem?_append_right (by omega), List.getElem?_append_right (by omega), hsize]

end Fiano.Uefi.Exact
