/-
  C03 follow-up (wp-c03c, round 3), layer 11: **ReplacePE32 at the tree level**.  The matched file is
  not stable (its PE32 sections get a new body), but it still *shows* what it showed: it keeps GUID and
  type, and the lists of the volumes nested in it are unchanged (`shows_pe32File`).  With
  `shows_fv_of_file` / `edit_saved_bios_shows` this gives `replace_pe32_e2e_bios`: every volume's list
  (the volumes nested in the matched file included) is as in the input, the enclosing volume's list has
  the same files in the same order, the matched one with its GUID and type, all others with GUID, type,
  attributes and body.  What the sections of the matched file become is `replace_pe32_saved`.
-/
import FianoModel.Uefi.ExactE2ENest

namespace Fiano.Uefi.Exact
open Fiano Fiano.Uefi Fiano.Uefi.Spec

/-- on a section of the invariant that is not a PE32 section, ReplacePE32 changes nothing (it does not
    enter volumes) -/
theorem pe32Section_canon_id (body : Bytes) (s s' : Section) (hc : CanonSec s) (ht : s.info.type ≠ secTypePE32)
    (h : pe32Section body s = .ok s') : s' = s := by
  obtain ⟨i, buf, encap⟩ := s
  simp only [Section.info] at ht
  rw [pe32Section, if_neg ht] at h
  unfold CanonSec at hc
  rcases hc with ⟨he, _⟩ | ⟨_, _, hen⟩
  · subst he
    simp only [pe32Nodes] at h
    cases h
    rfl
  · cases encap with
    | nil => simp only [pe32Nodes] at h; cases h; rfl
    | cons n ns =>
      cases n with
      | sec _ => exact absurd hen (by simp [CanonEncap])
      | fv v =>
        cases ns with
        | nil => simp only [pe32Nodes] at h; cases h; rfl
        | cons _ _ => exact absurd hen (by simp [CanonEncap])

/-- a PE32 section of the invariant holds no volumes -/
theorem avSection_pe32 (s : Section) (hc : CanonSec s) (ht : s.info.type = secTypePE32) : avSection s = [] := by
  obtain ⟨i, buf, encap⟩ := s
  simp only [Section.info] at ht
  unfold CanonSec at hc
  rcases hc with ⟨he, _⟩ | ⟨h17, _⟩
  · subst he; simp [avSection, avNodes]
  · rw [ht] at h17; simp [secTypePE32] at h17

/-- a section without children is written without children -/
theorem asmSection_nil_av (i : SecInfo) (buf : Bytes) (st : St) (s' : Section) (st' : St)
    (h : asmSection Hooks.none (.mk i buf []) st = .ok (s', st')) : avSection s' = [] := by
  rw [asmSection_nil] at h
  split at h
  · cases h
  · cases h; simp [avSection, avNodes]
  · split at h
    · cases h
    · cases h; simp [avSection, avNodes]

/-- the sections ReplacePE32 leaves show, after a save, the lists the old sections held -/
theorem asmSections_pe32 (body : Bytes) (hb : body.length + 8 < 0xFFFFFFFF) : ∀ (ss ss1 : List Section),
    CanonSecs ss → (∀ s ∈ ss, StableSec s) → pe32Sections body ss = .ok ss1 → ∀ (st : St) (ss' : List Section)
    (st' : St), st.pol = 0xFF → st.ffs3 = false → asmSections Hooks.none ss1 st = .ok (ss', st') → GoodSecs ss' →
    avSections ss' = avSections ss
  | [], ss1, _, _, hpe, st, ss', st', _, _, h, _ => by
    simp only [pe32Sections, Except.ok.injEq] at hpe
    subst hpe
    simp only [asmSections, Except.ok.injEq, Prod.mk.injEq] at h
    rw [← h.1]
  | s :: ss, ss1, hc, hs, hpe, st, ss', st', hp, hf, h, hg => by
    rw [pe32Sections] at hpe
    split at hpe
    · cases hpe
    rename_i s1 hs1
    split at hpe
    · cases hpe
    rename_i ss1' hss1
    cases hpe
    rw [asmSections] at h
    split at h
    · cases h
    rename_i s2 st1 h1
    split at h
    · cases h
    rename_i ss2 st2 h2
    cases h
    have hcs1 := pe32Section_canon body hb s s1 hc.1 hs1
    obtain ⟨e1, _⟩ := asm_canon_sec s1 hcs1 st s2 st1 hp hf h1 hg.1
    subst e1
    have ih := asmSections_pe32 body hb ss ss1' hc.2 (fun g hg' => hs g (List.mem_cons_of_mem _ hg')) hss1 st1 ss2 st'
      hp hf h2 hg.2
    have hsec : avSection s2 = avSection s := by
      by_cases ht : s.info.type = secTypePE32
      · obtain ⟨i', buf', _, hs1'⟩ := (pe32Section_exact body s s1 hs1).2 ht
        subst hs1'
        rw [asmSection_nil_av i' buf' st1 s2 st1 h1, avSection_pe32 s hc.1 ht]
      · have := pe32Section_canon_id body s s1 hc.1 ht hs1
        subst this
        exact hs s1 List.mem_cons_self st1 s2 st1 hp hf h1 hg.1
    simp only [avSections, hsec, ih]

/-- **the file ReplacePE32 leaves** keeps GUID and type, and a save shows below it the lists the old
    file held -/
theorem shows_pe32File (body : Bytes) (hb : body.length + 8 < 0xFFFFFFFF) (fi : FileInfo) (fb : Bytes)
    (secs : List Section) (F1 : File) (hc : CanonFile (.mk fi fb secs)) (hne : secs ≠ [])
    (hs : ∀ s ∈ secs, StableSec s) (hpe : pe32File body (.mk fi fb secs) = .ok F1) :
    ShowsFile F1 (fun L => L = avFile (.mk fi fb secs)) ∧ F1.info = fi := by
  obtain ⟨hnv, hcs⟩ := canonFile_secs fi fb secs hc hne
  unfold pe32File at hpe
  simp only [File.info, hnv, Option.isSome_none, Bool.false_eq_true, if_false, File.secs, File.buf] at hpe
  split at hpe
  · cases hpe
  rename_i secs1 hs1
  cases hpe
  refine ⟨?_, rfl⟩
  intro st f' st' hp hf h hg
  obtain ⟨hk1, hk2, _⟩ := asmFile_keeps fi fb secs1 st f' st' hnv h
  obtain ⟨secs', st1, hsa, hfs⟩ := asmFile_shape fi fb secs1 st f' st' hnv h
  refine ⟨hk1, hk2, ?_⟩
  obtain ⟨f'i, f'b, f's⟩ := f'
  simp only [File.secs] at hfs
  subst hfs
  have hgs : GoodSecs f's := hg.2
  simp only [avFile]
  exact asmSections_pe32 body hb secs secs1 hcs hs hs1 st f's st1 hp hf hsa hgs

/-- **ReplacePE32, end to end at the tree** (image without flash descriptor).  The selector's match is
    the file `F` (sectioned, not a pad file) of the top-level volume `(i, buf, fpre ++ F :: fpost)`;
    nothing matches elsewhere.  The saved, re-parsed image shows: the lists of `pre` as in the input; the
    list of that volume with the same files in the same order — `F` with its GUID and type (`A`), all
    others with GUID, type, attributes and body —; the lists of all volumes nested in its files, those
    below `F` included, as in the input; the lists of `post` as in the input.  (What the sections of `F`
    become: `replace_pe32_saved`.) -/
theorem replace_pe32_e2e_bios (p : Pred) (body : Bytes) (hb : body.length + 8 < 0xFFFFFFFF) (b : BiosRegion)
    (hr : Reach (.bios b)) (hkeep : keepTree (pe32Editor p body) (.bios b)) (pre post : List BiosElem)
    (i : FvInfo) (buf : Bytes) (fpre fpost : List File) (fi : FileInfo) (fb : Bytes) (secs : List Section) (F1 : File)
    (hdec : b.elems = pre ++ .fv (.mk i buf (fpre ++ .mk fi fb secs :: fpost)) :: post)
    (hq : ∀ u, BiosElem.fv u ∈ pre ++ post → quietFv (pe32Editor p body) u = true ∧ StableFv u)
    (hhit : fileHit p (.mk fi fb secs) = true) (hpe : pe32File body (.mk fi fb secs) = .ok F1)
    (hfpre : quietFiles (pe32Editor p body) fpre = true) (hfpost : quietFiles (pe32Editor p body) fpost = true)
    (hc : CanonFv (.mk i buf (fpre ++ .mk fi fb secs :: fpost))) (hne : secs ≠ []) (hnp : fi.type ≠ 0xF0)
    (hsfpre : ∀ f ∈ fpre, StableFile f) (hsfpost : ∀ f ∈ fpost, StableFile f) (hss : ∀ s ∈ secs, StableSec s)
    (st st' : St) (t' : Tree) (hp : st.pol = 0xFF) (hf : st.ffs3 = false)
    (ha : asmTreeWith Hooks.none (.bios { b with elems := pre ++ .fv (.mk i buf (fpre ++ F1 :: fpost)) :: post }) st =
      .ok (t', st'))
    (hg : GoodTree t') :
    rwTree (pe32Editor p body) (.bios b) =
      .ok (.bios { b with elems := pre ++ .fv (.mk i buf (fpre ++ F1 :: fpost)) :: post }) ∧
    ∃ (i' : Spec.Img) (A : AbsFile), Spec.WF i' ∧ t'.buf = Spec.ser i' ∧
      parse Hooks.none t'.buf = .ok (Spec.tree i') ∧ A.guid = fi.guid ∧ A.type = fi.type ∧
      avTree (Spec.tree i') =
        avElems pre ++
          ((absFiles fpre ++ A :: absFiles fpost) ::
            (avFiles fpre ++ avFile (.mk fi fb secs) ++ avFiles fpost)) ++
          avElems post := by
  have hE := pe32Editor_ok p body hb
  have hkv : keepFv (pe32Editor p body) (.mk i buf (fpre ++ .mk fi fb secs :: fpost)) := by
    have hk : keepElems (pe32Editor p body) b.elems := hkeep
    rw [hdec] at hk
    clear hdec hq ha
    induction pre with
    | nil => exact hk.1
    | cons e pre ih =>
      cases e with
      | pad _ _ => exact ih hk
      | fv w => exact ih hk.2
  have hfire : rwFile (pe32Editor p body) (.mk fi fb secs) = .ok (some F1) := by
    apply rwFile_fire
    simp only [pe32Editor, hhit, if_true, hpe]
  have hrw : rwFv (pe32Editor p body) (.mk i buf (fpre ++ .mk fi fb secs :: fpost)) =
      .ok (.mk i buf (fpre ++ F1 :: fpost)) := by
    have hfv : (pe32Editor p body).fv (.mk i buf (fpre ++ .mk fi fb secs :: fpost)) = none := rfl
    rw [rwFv, hfv]
    simp only [rwFiles_split _ _ _ fpost hfire hfpost fpre hfpre]
  have hc1 := rwFv_canon _ hE _ hc hkv _ hrw
  have hcF : CanonFile (.mk fi fb secs) := ((canonFiles_append _ _).mp (canonFv_files _ hc)).2.1
  obtain ⟨hshowF, hinfo⟩ := shows_pe32File body hb fi fb secs F1 hcF hne hss hpe
  have hnp1 : F1.info.type ≠ 0xF0 := by rw [hinfo]; exact hnp
  have hshow := shows_fv_of_file i buf fpre fpost F1 _ hc1 hshowF hnp1 hsfpre hsfpost
  obtain ⟨hrwt, i', L, h1, h2, h3, hP, h4⟩ := edit_saved_bios_shows _ hE b hr hkeep pre post _ _ hdec hq hrw _ hshow
    st st' t' hp hf ha hg
  obtain ⟨A, LF, hLF, hA1, hA2, hL⟩ := hP
  refine ⟨hrwt, i', A, h1, h2, h3, by rw [hA1, hinfo], by rw [hA2, hinfo], ?_⟩
  rw [h4, hL, hLF]

end Fiano.Uefi.Exact
