/-
  C02 (follow-up wp-c02b): **`Assemble` preserves the invariant and writes valid nodes** — the mutual
  structural induction over section → nested volume → file → volume (`asmSection_ok`, `asmFile_ok`,
  `asmFv_ok` …).  Each case delegates to the one-node lemmas of `EditValidNode.lean` /
  `EditValidFv2.lean`; the 2 GiB bound on what is written flows from the parent to the children.
-/
import FianoModel.Uefi.EditValidNode

namespace Fiano.Uefi
open Fiano
open EditArith

/-- what a successful `asmFv` tells about the volume it returns, for the levels above -/
structure FvStable (v v' : Fv) : Prop where
  rsz   : v'.info.resizable = v.info.resizable
  ge    : v.buf.length ≤ v'.buf.length
  same  : v.info.resizable = false → v'.buf.length = v.buf.length
  win   : ∀ a n, PatchFree a n → a + n ≤ 64 → (v'.buf.drop a).take n = (v.buf.drop a).take n
  guid  : (v'.buf.drop 16).take 16 = (v.buf.drop 16).take 16 ∨ (v'.buf.drop 16).take 16 = guidFFS3

/-- **`asmFv_valid`, one node** (layer (c)) -/
theorem asmFv_core (h : Hooks) (i : FvInfo) (buf : Bytes) (files : List File) (st : St) (v' : Fv) (st' : St)
    (hok : FvOk (.mk i buf files)) (ha : asmFv h (.mk i buf files) st = .ok (v', st'))
    (hlen : v'.buf.length < 2 ^ 31)
    (hfiles : ∀ st1 files' st2, asmFiles h files st1 = .ok (files', st2) → (∀ f ∈ files', f.buf.length < 2 ^ 31) →
      FilesOk (fvErased buf) files' ∧ ∀ f ∈ files', GoodFile (fvErased buf) (f.info.attrs, f.buf)) :
    FvOk v' ∧ FvStable (.mk i buf files) v' := by
  rw [FvOk] at hok
  obtain ⟨hinv, _⟩ := hok
  rw [asmFv] at ha
  split at ha
  · cases ha
  · rename_i st1 hsp
    obtain ⟨hev, hp1, _, _⟩ := setPolarity_ok _ _ _ hsp
    have hpol1 : st1.pol = fvErased buf := by rw [hp1, hinv.attrs, polOfAttrs_eq]
    have hne1 : st1.pol ≠ 0xF0 := by
      rw [hp1]; rcases hev with c | c <;> rw [c] <;> decide
    split at ha
    · cases ha
    · rename_i files' st2 hfs
      have hpol2 : st2.pol = fvErased buf := by rw [asmFiles_polKeep h files st1 files' st2 hfs hne1, hpol1]
      split at ha
      · cases ha
        refine ⟨?_, ⟨rfl, Nat.le_refl _, fun _ => rfl, fun _ _ _ _ => rfl, Or.inl rfl⟩⟩
        rw [FvOk]
        exact ⟨hinv, by rw [FilesOk]; trivial⟩
      · rename_i f0 fs0
        split at ha
        · cases ha
        · rename_i i' buf' st3 hre
          cases ha
          simp only [Fv.buf] at hlen
          have hbnd := relayoutFv_len_ge _ _ _ _ _ _ _ hre
          obtain ⟨hfok', hgood⟩ := hfiles st1 _ st2 hfs (fun f hf => by have := hbnd f hf; omega)
          obtain ⟨hinvO, herO, _, hrsz, hge, hsame, hwin, hguid⟩ :=
            relayoutFv_ok i buf _ st2 i' buf' _ hre hinv hpol2 (fun f hf => by rw [hpol2]; exact hgood f hf) hlen
          refine ⟨?_, ⟨hrsz, hge, hsame, hwin, hguid⟩⟩
          rw [FvOk, herO]
          exact ⟨hinvO, hfok'⟩

/-! ### the mutual induction -/

mutual

/-- **`asmSection_valid`** (layer (a)) -/
theorem asmSection_ok (h : Hooks) (hlaw : h.NvLaw) : ∀ (s : Section) (st : St) (s' : Section) (st' : St),
    SecOk s → asmSection h s st = .ok (s', st') → s'.buf.length < 2 ^ 31 → SecOk s' ∧ SecBytesOk s'.buf
  | .mk i buf encap, st, s', st', hok, ha, hlen => by
    cases hn : asmNodes h encap st with
    | error e =>
      rw [asmSection, hn] at ha
      cases ha
    | ok p =>
      obtain ⟨encap', st1⟩ := p
      refine asmSection_core h i buf encap encap' st st1 s' st' hok hn ha hlen (fun h17 => ?_)
      have hok' := hok
      rw [SecOk] at hok'
      have h2 : i.type ≠ 0x02 := by omega
      rw [if_neg h2, if_pos h17] at hok'
      have hbnd := asmSection_child_len h i buf encap encap' st st1 s' st' hn ha h2
      exact asmNodeFv_ok h hlaw encap st encap' st1 hok'.2.2 hn (fun n hn' => by have := hbnd n hn'; omega)

/-- the single volume below a volume-image section -/
theorem asmNodeFv_ok (h : Hooks) (hlaw : h.NvLaw) : ∀ (ns : List Node) (st : St) (ns' : List Node) (st' : St),
    NodeFvOk ns → asmNodes h ns st = .ok (ns', st') → (∀ n ∈ ns', n.buf.length < 2 ^ 31) →
    NodeFvOk ns' ∧ ∃ v', ns' = [.fv v'] ∧ FvBytesOk v'.buf
  | [], _, _, _, hok, _, _ => absurd hok NodeFvOk_nil
  | .sec _ :: _, _, _, _, hok, _, _ => by
    rw [NodeFvOk] at hok
    · exact hok.elim
    · intro v hv; cases hv
  | .fv _ :: _ :: _, _, _, _, hok, _, _ => by
    rw [NodeFvOk] at hok
    · exact hok.elim
    · intro v hv; cases hv
  | [.fv v], st, ns', st', hok, ha, hlen => by
    rw [NodeFvOk] at hok
    rw [asmNodes] at ha
    split at ha
    · cases ha
    · rename_i v1 st1 hv
      rw [asmNodes] at ha
      simp only at ha
      cases ha
      have hl := hlen (.fv v1) (by simp)
      simp only [Node.buf] at hl
      have hr := asmFv_ok h hlaw v st v1 _ hok hv hl
      refine ⟨by rw [NodeFvOk]; exact hr.1, v1, rfl, ?_⟩
      obtain ⟨i1, b1, f1⟩ := v1
      have := hr.1
      rw [FvOk] at this
      exact this.1.ok

theorem asmSections_ok (h : Hooks) (hlaw : h.NvLaw) : ∀ (ss : List Section) (st : St) (ss' : List Section) (st' : St),
    SecsOk ss → asmSections h ss st = .ok (ss', st') → (∀ s ∈ ss', s.buf.length < 2 ^ 31) →
    SecsOk ss' ∧ ∀ s ∈ ss', SecBytesOk s.buf
  | [], st, ss', st', _, ha, _ => by
    rw [asmSections] at ha
    cases ha
    exact ⟨by rw [SecsOk]; trivial, fun s hs => by cases hs⟩
  | s :: ss, st, ss', st', hok, ha, hlen => by
    rw [SecsOk] at hok
    rw [asmSections] at ha
    split at ha
    · cases ha
    · rename_i s1 st1 hs
      split at ha
      · cases ha
      · rename_i ss1 st2 hss
        cases ha
        have h1 := asmSection_ok h hlaw s st s1 st1 hok.1 hs (hlen s1 (by simp))
        have h2 := asmSections_ok h hlaw ss st1 ss1 _ hok.2 hss (fun x hx => hlen x (by simp [hx]))
        refine ⟨by rw [SecsOk]; exact ⟨h1.1, h2.1⟩, ?_⟩
        intro x hx
        simp only [List.mem_cons] at hx
        rcases hx with rfl | hx
        · exact h1.2
        · exact h2.2 x hx

/-- **`asmFile_valid`** (layer (b)) -/
theorem asmFile_ok (h : Hooks) (hlaw : h.NvLaw) : ∀ (e : UInt8) (f : File) (st : St) (f' : File) (st' : St),
    FileOk e f → asmFile h f st = .ok (f', st') → (e = 0xFF ∨ e = 0) → f'.buf.length < 2 ^ 31 →
    FileOk e f' ∧ GoodFile e (f'.info.attrs, f'.buf)
  | e, .mk i buf secs, st, f', st', hok, ha, he, hlen => by
    refine asmFile_core h hlaw e he i buf secs st f' st' hok ha hlen (fun secs' st1 hss hb => ?_)
    have hok' := hok
    rw [FileOk] at hok'
    exact asmSections_ok h hlaw secs st secs' st1 hok'.2.2.2.2.2.2.2.2 hss hb

theorem asmFiles_ok (h : Hooks) (hlaw : h.NvLaw) : ∀ (e : UInt8) (fs : List File) (st : St) (fs' : List File) (st' : St),
    FilesOk e fs → asmFiles h fs st = .ok (fs', st') → (e = 0xFF ∨ e = 0) → (∀ f ∈ fs', f.buf.length < 2 ^ 31) →
    FilesOk e fs' ∧ ∀ f ∈ fs', GoodFile e (f.info.attrs, f.buf)
  | e, [], st, fs', st', _, ha, _, _ => by
    rw [asmFiles] at ha
    cases ha
    exact ⟨by rw [FilesOk]; trivial, fun f hf => by cases hf⟩
  | e, f :: fs, st, fs', st', hok, ha, he, hlen => by
    rw [FilesOk] at hok
    rw [asmFiles] at ha
    split at ha
    · cases ha
    · rename_i f1 st1 hf
      split at ha
      · cases ha
      · rename_i fs1 st2 hfs
        cases ha
        have h1 := asmFile_ok h hlaw e f st f1 st1 hok.1 hf he (hlen f1 (by simp))
        have h2 := asmFiles_ok h hlaw e fs st1 fs1 _ hok.2 hfs he (fun x hx => hlen x (by simp [hx]))
        refine ⟨by rw [FilesOk]; exact ⟨h1.1, h2.1⟩, ?_⟩
        intro x hx
        simp only [List.mem_cons] at hx
        rcases hx with rfl | hx
        · exact h1.2
        · exact h2.2 x hx

/-- **`asmFv_valid`** (layer (c)): assembling a volume node that satisfies the invariant yields a volume
    the independent reader accepts (inside `FvOk`: `FvHdrOk.ok`) and a node that satisfies it again -/
theorem asmFv_ok (h : Hooks) (hlaw : h.NvLaw) : ∀ (v : Fv) (st : St) (v' : Fv) (st' : St),
    FvOk v → asmFv h v st = .ok (v', st') → v'.buf.length < 2 ^ 31 → FvOk v' ∧ FvStable v v'
  | .mk i buf files, st, v', st', hok, ha, hlen => by
    refine asmFv_core h i buf files st v' st' hok ha hlen (fun st1 files' st2 hfs hb => ?_)
    have hok' := hok
    rw [FvOk] at hok'
    exact asmFiles_ok h hlaw (fvErased buf) files st1 files' st2 hok'.2 hfs (fvErased_cases buf) hb

end

end Fiano.Uefi
